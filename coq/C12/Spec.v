(** C12 — the property, stated independently of the parser/renderer model: what a valid payment
    request is (each ZIP 321 rule one conjunct), what the type invariants of the Rust values are,
    what a decimal amount string denotes, and what [total] must return. *)
From V.Lib Require Import Base MachInt.
From V.Gen Require Import C12Consts.
From V.C12 Require Import Model.
Local Open Scope Z_scope.

Definition byte (b : Z) : Prop := 0 <= b < 256.
Definition byteb (b : Z) : bool := (0 <=? b) && (b <? 256).
Definition bytesb (l : bytes) : bool := forallb byteb l.

(** ** Amount strings.  [amount_denotes s z]: [s] is [whole] or [whole.frac] (ASCII digits, both
    non-empty, at most 8 fractional digits) and z / 10^8 equals the decimal number exactly. *)
Definition amount_denotes (s : bytes) (z : Z) : Prop :=
  exists whole frac,
    (s = whole /\ frac = [] \/ s = whole ++ 46 :: frac /\ frac <> []) /\
    whole <> [] /\ forallb is_digit whole = true /\ forallb is_digit frac = true /\
    (length frac <= 8)%nat /\
    z * 10 ^ Z.of_nat (length frac) = (dec_val whole * 10 ^ Z.of_nat (length frac) + dec_val frac) * COIN.

(** Executable version (used on implementation outcomes): split at the first '.'. *)
Fixpoint split_at (c : Z) (l : bytes) : bytes * option bytes :=
  match l with
  | [] => ([], None)
  | x :: r => if x =? c then ([], Some r) else let (a, b) := split_at c r in (x :: a, b)
  end.
Definition digit_val (l : bytes) : Z := fold_left (fun acc c => acc * 10 + (c - 48)) l 0.
Definition amount_spec (s : bytes) : option Z :=
  let (w, of) := split_at 46 s in
  let f := match of with Some f => f | None => [] end in
  let shape := negb (is_nil w) && forallb is_digit w && forallb is_digit f
               && (match of with Some f => negb (is_nil f) && (length f <=? 8)%nat | None => true end) in
  if shape then
    let v := (digit_val w * 10 ^ Z.of_nat (length f) + digit_val f) * 10 ^ (8 - Z.of_nat (length f)) in
    if v <=? MAX_MONEY then Some v else None
  else None.

(** Canonical rendering: denotes the amount, no trailing fractional zero. *)
Definition amount_canonical (s : bytes) : bool :=
  match split_at 46 s with
  | (_, Some f) => match rev f with 48 :: _ => false | _ => true end
  | (w, None) => true
  end
  && match s with 48 :: c :: _ => c =? 46 | _ => true end.   (* no leading zero on the integer part *)

(** ** Which recipients can receive a memo / can only be paid transparently, from the kind of the
    address and, for a unified address, the typecodes of its receivers (ZIP 316: 0 = P2PKH, 1 = P2SH,
    2 = Sapling, 3 = Orchard; any other typecode is an unknown receiver, which is neither shielded nor
    transparent). *)
Inductive ashape := SSprout | SSapling | SP2pkh | SP2sh | STex | SUnified (tcs : list Z).
Definition shielded_tc (tc : Z) : bool := (tc =? 2) || (tc =? 3).
Definition transparent_tc (tc : Z) : bool := (tc =? 0) || (tc =? 1).
Definition shape_memo (s : ashape) : bool :=
  match s with
  | SSprout | SSapling => true
  | SUnified tcs => existsb shielded_tc tcs
  | SP2pkh | SP2sh | STex => false
  end.
Definition shape_tonly (s : ashape) : bool :=
  match s with
  | SSprout | SSapling => false
  | SUnified tcs => existsb transparent_tc tcs && negb (existsb shielded_tc tcs)
  | SP2pkh | SP2sh | STex => true
  end.

(** ** Requests *)
Definition reserved_names : list bytes := [s_address; s_amount; s_memo; s_label; s_message].
Definition reservedb (n : bytes) : bool :=
  existsb (bytes_eqb n) reserved_names || starts_with s_req n.
(** paramname = ALPHA *( ALPHA / DIGIT / "+" / "-" ) *)
Definition valid_nameb (n : bytes) : bool :=
  match n with
  | c :: t => is_alpha c && forallb is_namechar t
  | [] => false
  end.
Fixpoint nodupb (l : list bytes) : bool :=
  match l with
  | [] => true
  | x :: r => negb (existsb (bytes_eqb x) r) && nodupb r
  end.
Fixpoint increasing (prev : Z) (l : list Z) : bool :=
  match l with
  | [] => true
  | x :: r => (prev <? x) && increasing x r
  end.

Section WithAddresses.
  Variable addr : Type.
  Variable can_memo : addr -> bool.
  Variable t_only : addr -> bool.

  Definition opt_all {A} (f : A -> bool) (o : option A) : bool := match o with Some a => f a | None => true end.

  (** Type invariants of the Rust values: Zatoshis in range, MemoBytes 512 bytes, Strings UTF-8. *)
  Definition wf_paymentb (p : payment addr) : bool :=
    opt_all (fun a => (0 <=? a) && (a <=? MAX_MONEY)) (p_amount p)
    && opt_all (fun m => (length m =? 512)%nat && bytesb m) (p_memo p)
    && opt_all utf8_valid (p_label p) && opt_all utf8_valid (p_message p)
    && forallb (fun nv => utf8_valid (fst nv) && utf8_valid (snd nv)) (p_other p).
  (** BTreeMap<usize, _>: keys strictly increasing, non-negative. *)
  Definition wf_requestb (r : request addr) : bool :=
    increasing (-1) (map fst r) && forallb (fun ip => wf_paymentb (snd ip)) r.

  (** The ZIP 321 rules, one conjunct each. *)
  Definition memo_rule (p : payment addr) : bool :=
    match p_memo p with Some _ => can_memo (p_addr p) | None => true end.
  Definition zero_transparent_rule (p : payment addr) : bool :=
    negb (t_only (p_addr p) && match p_amount p with Some a => a =? 0 | None => false end).
  Definition other_names_rule (p : payment addr) : bool :=
    forallb (fun nv => valid_nameb (fst nv) && negb (reservedb (fst nv))) (p_other p).
  Definition no_duplicate_rule (p : payment addr) : bool := nodupb (map fst (p_other p)).
  Definition valid_paymentb (p : payment addr) : bool :=
    memo_rule p && zero_transparent_rule p && other_names_rule p && no_duplicate_rule p.
  Definition index_rule (r : request addr) : bool := forallb (fun ip => fst ip <=? 9999) r.
  Definition validb (r : request addr) : bool :=
    index_rule r && forallb (fun ip => valid_paymentb (snd ip)) r.

  (** Number of URI parameters a request stands for (address included). *)
  Definition count_opt {A} (o : option A) : Z := match o with Some _ => 1 | None => 0 end.
  Definition count_fields (r : request addr) : Z :=
    fold_right (fun ip acc =>
      let p := snd ip in
      1 + count_opt (p_amount p) + count_opt (p_memo p) + count_opt (p_label p) + count_opt (p_message p)
      + Z.of_nat (length (p_other p)) + acc) 0 r.

  (** [total]: sum of the amounts if all are present and every partial sum is in range. *)
  Fixpoint amounts_prefix (r : request addr) : list Z :=
    match r with
    | [] => []
    | ip :: q => match p_amount (snd ip) with Some a => a :: amounts_prefix q | None => [] end
    end.
  Definition total_spec (r : request addr) : outcome (option Z) unit :=
    let pre := amounts_prefix r in
    let s := fold_right Z.add 0 pre in
    if MAX_MONEY <? s then Err tt
    else if (length pre =? length r)%nat then Ok (Some s) else Ok None.
End WithAddresses.

(** ** Surface rules on an accepted URI (independent of the parser model): number of parameters,
    shape of every index suffix, no [req-] parameter. *)
Fixpoint split_all (c : Z) (l : bytes) : list bytes :=
  match l with
  | [] => [[]]
  | x :: r =>
      match split_all c r with
      | cur :: rest => if x =? c then [] :: cur :: rest else (x :: cur) :: rest
      | [] => [[x]]
      end
  end.
(** The query part of "zcash:<lead>?<query>" and whether a lead address is present. *)
Definition uri_parts (uri : bytes) : option (bool * list bytes) :=
  match strip_prefix s_zcash uri with
  | None => None
  | Some r =>
      let (lead, oq) := split_at 63 r in
      let pieces := match oq with
                    | None => []
                    | Some q => if is_nil q then [] else split_all 38 q
                    end in
      Some (negb (is_nil lead), pieces)
  end.
Definition index_suffix_ok (piece : bytes) : bool :=
  let (nm, _) := split_at 61 piece in
  match split_at 46 nm with
  | (_, None) => true
  | (_, Some ix) =>
      match ix with
      | d :: ds => is_nonzero_digit d && forallb is_digit ds && (length ds <=? 3)%nat
      | [] => false
      end
  end.
Definition uri_rules_ok (uri : bytes) : bool :=
  match uri_parts uri with
  | None => false
  | Some (_, pieces) =>
      forallb (fun pc => index_suffix_ok pc && negb (starts_with s_req pc)) pieces
  end.
Definition uri_param_count (uri : bytes) : Z :=
  match uri_parts uri with
  | None => 0
  | Some (lead, pieces) => (if lead then 1 else 0) + Z.of_nat (length pieces)
  end.
