(** C12 — the constructors: [Payment::new], [TransactionRequest::{new, from_indexed, total}]. *)
From V.Lib Require Import Base MachInt.
From V.Gen Require Import C12Consts.
From V.C12 Require Import Model Spec ProofsPct ProofsB64 ProofsAmount ProofsRender ProofsAccept ProofsTotal.
From Coq Require Import ZifyBool.
Local Open Scope Z_scope.

(** ** indexed_name: complete description of a success *)
Lemma indexed_name_full input name iopt r : indexed_name input = Some (name, iopt, r) ->
  valid_nameb name = true /\
  input = name ++ match iopt with None => [] | Some istr => 46 :: istr end ++ r.
Proof.
  intros H. split; [apply (indexed_name_spec _ _ _ _ H)|]. revert H.
  unfold indexed_name. destruct (span is_alpha input) as [a r1] eqn:S1.
  destruct (span_spec _ _ _ _ S1) as (E1 & _ & _).
  destruct (is_nil a); [discriminate|].
  destruct (span is_namechar r1) as [n r2] eqn:S2. destruct (span_spec _ _ _ _ S2) as (E2 & _ & _).
  assert (E : input = (a ++ n) ++ r2) by (rewrite <- app_assoc, <- E2; exact E1).
  destruct r2 as [|c [|d r3]]; try (intros [= <- <- <-]; exact E).
  destruct ((c =? 46) && is_nonzero_digit d) eqn:C; [|intros [= <- <- <-]; exact E].
  destruct (span is_digit r3) as [ds r4] eqn:S3. destruct (span_spec _ _ _ _ S3) as (E3 & _ & _).
  destruct (3 <? length ds)%nat; intros [= <- <- <-]; [exact E|].
  apply andb_true_iff in C. destruct C as [C _]. apply Z.eqb_eq in C. subst c. rewrite E, E3. cbn [app]. reflexivity.
Qed.
Lemma indexed_name_bare n : valid_nameb n = true -> indexed_name n = Some (n, None, []).
Proof.
  intros V. destruct (valid_name_split n V) as (a & n' & S & E & Na & Da & Dn & Sn).
  unfold indexed_name. rewrite S, (is_nil_false a Na).
  rewrite <- (app_nil_r n') at 1. rewrite (span_app is_namechar n' [] Dn I). rewrite <- E. reflexivity.
Qed.
Lemma other_name_ok_spec n : other_name_ok n = valid_nameb n && five_free n.
Proof.
  unfold other_name_ok, five_free, reserved_names. rewrite andb_comm. f_equal.
  destruct (valid_nameb n) eqn:V; [rewrite (indexed_name_bare n V); reflexivity|].
  destruct (indexed_name n) as [[[name iopt] r]|] eqn:E; [|reflexivity].
  destruct iopt; [reflexivity|]. destruct r; [|reflexivity].
  destruct (indexed_name_full _ _ _ _ E) as [V' E']. cbn [app] in E'. rewrite app_nil_r in E'. congruence.
Qed.

Section WithAddresses.
  Variable addr : Type.
  Variable addr_dec : bytes -> option addr.
  Variable addr_enc : addr -> bytes.
  Variable can_memo : addr -> bool.
  Variable t_only : addr -> bool.

  Notation payment := (payment addr).
  Notation request := (request addr).

  (** ** Payment::new: a memo to a recipient that cannot receive one is refused first, then a
      zero-valued output to a transparent-only recipient; otherwise the payment is built as given. *)
  Theorem payment_new_spec a am me la ms ot :
    payment_new addr can_memo t_only a am me la ms ot =
    let p := mkPayment a am me la ms ot in
    if negb (memo_rule addr can_memo p) then Err PTransparentMemo
    else if negb (zero_transparent_rule addr t_only p) then Err PZeroTransparent
    else Ok p.
  Proof.
    unfold payment_new, memo_rule, zero_transparent_rule. cbn [p_addr p_amount p_memo].
    destruct me as [m|]; cbn [andb negb].
    - destruct (can_memo a); cbn [negb]; [|reflexivity]. rewrite negb_involutive. reflexivity.
    - rewrite negb_involutive. reflexivity.
  Qed.

  (** ** from_indexed checks the indices and nothing else *)
  Theorem from_indexed_spec r :
    from_indexed addr r =
    match find (fun ip => 9999 <? fst ip) r with
    | Some ip => Err (ETooMany (fst ip))
    | None => Ok r
    end.
  Proof. unfold from_indexed. destruct (find _ r) as [[k p]|]; reflexivity. Qed.
  Theorem from_indexed_ok r r' : from_indexed addr r = Ok r' <-> r' = r /\ index_rule addr r = true.
  Proof.
    unfold from_indexed, index_rule. destruct (find (fun ip => 9999 <? fst ip) r) as [[k p]|] eqn:F.
    - split; [discriminate|]. intros [_ H]. apply find_some in F. destruct F as [Hin Hk].
      rewrite forallb_forall in H. specialize (H _ Hin). cbn [fst] in *. lia.
    - split; [intros [= <-] | intros [-> _]; reflexivity]. split; [reflexivity|].
      apply forallb_forall. intros ip Hip. pose proof (find_none _ _ F ip Hip). cbv beta in *. lia.
  Qed.
  Theorem from_indexed_err r e : from_indexed addr r = Err e ->
    exists k, e = ETooMany k /\ In k (map fst r) /\ 9999 < k.
  Proof.
    unfold from_indexed. destruct (find (fun ip => 9999 <? fst ip) r) as [[k p]|] eqn:F; [|discriminate].
    intros [= <-]. apply find_some in F. destruct F as [Hin Hk]. exists k. repeat split; [|cbn in Hk; lia].
    apply in_map_iff. exists (k, p). split; [reflexivity | exact Hin].
  Qed.

  (** ** total: the sum of the amounts when all are present; failure exactly when the exact sum of the
      leading present amounts exceeds MAX_MONEY *)
  Lemma amounts_prefix_nonneg (r : request) : forallb (fun ip => wf_paymentb addr (snd ip)) r = true ->
    Forall (fun a => 0 <= a <= MAX_MONEY) (amounts_prefix addr r).
  Proof.
    induction r as [|[i p] r IH]; [constructor|]. cbn [forallb snd amounts_prefix]. intros H.
    apply andb_true_iff in H. destruct H as [W H]. destruct (p_amount p) as [a|] eqn:E; [|constructor].
    constructor; [|apply IH, H]. unfold wf_paymentb in W. rewrite E in W. cbn [opt_all] in W. lia.
  Qed.
  Lemma sum_nonneg l : Forall (fun a => 0 <= a <= MAX_MONEY) l -> 0 <= fold_right Z.add 0 l.
  Proof. induction 1 as [|a l H _ IH]; cbn [fold_right]; lia. Qed.

  Lemma total_from_none (r : request) : total_from addr None r = Ok None.
  Proof. induction r as [|[i p] r IH]; [reflexivity|]. cbn [total_from]. exact IH. Qed.

  Lemma total_from_spec (r : request) : forallb (fun ip => wf_paymentb addr (snd ip)) r = true ->
    forall t, 0 <= t <= MAX_MONEY ->
      total_from addr (Some t) r =
      let pre := amounts_prefix addr r in
      let s := t + fold_right Z.add 0 pre in
      if MAX_MONEY <? s then Err tt else if (length pre =? length r)%nat then Ok (Some s) else Ok None.
  Proof.
    induction r as [|[i p] r IH]; intros W t Ht.
    - cbn. rewrite Z.add_0_r. destruct (MAX_MONEY <? t) eqn:E; [lia | reflexivity].
    - cbn [forallb snd] in W. apply andb_true_iff in W. destruct W as [Wp W].
      pose proof (sum_nonneg _ (amounts_prefix_nonneg r W)) as NN.
      cbn [total_from amounts_prefix snd]. destruct (p_amount p) as [v|] eqn:E.
      + assert (Hv : 0 <= v <= MAX_MONEY) by (unfold wf_paymentb in Wp; rewrite E in Wp; cbn [opt_all] in Wp; lia).
        cbv zeta. cbn [fold_right length]. destruct (t + v <=? MAX_MONEY) eqn:L.
        * rewrite (IH W (t + v)) by lia. cbv zeta. rewrite Z.add_assoc. reflexivity.
        * destruct (MAX_MONEY <? t + (v + fold_right Z.add 0 (amounts_prefix addr r))) eqn:L2; [reflexivity | lia].
      + rewrite total_from_none. cbv zeta. cbn [fold_right length]. rewrite Z.add_0_r.
        destruct (MAX_MONEY <? t) eqn:L; [lia | reflexivity].
  Qed.

  Theorem total_eq_spec (r : request) : wf_requestb addr r = true -> total addr r = total_spec addr r.
  Proof.
    intros W. unfold wf_requestb in W. apply andb_true_iff in W. destruct W as [_ W].
    unfold total, total_spec. rewrite (total_from_spec r W 0) by (unfold MAX_MONEY; lia). reflexivity.
  Qed.

  (** ** TransactionRequest::new *)
  Lemma enumerate_keys ps : forall i, map fst (enumerate_from addr i ps) = map (fun k => i + Z.of_nat k) (seq 0 (length ps)).
  Proof.
    induction ps as [|p ps IH]; intros i; [reflexivity|]. cbn [enumerate_from map fst length seq].
    rewrite IH, <- seq_shift, map_map. f_equal; [lia|]. apply map_ext. intros k. lia.
  Qed.
  Lemma enumerate_increasing ps : forall i prev, prev < i -> increasing prev (map fst (enumerate_from addr i ps)) = true.
  Proof.
    induction ps as [|p ps IH]; intros i prev H; [reflexivity|]. cbn [enumerate_from map fst increasing].
    rewrite IH by lia. lia.
  Qed.
  Lemma enumerate_snd ps : forall i, map snd (enumerate_from addr i ps) = ps.
  Proof. induction ps as [|p ps IH]; intros i; [reflexivity|]. cbn [enumerate_from map snd]. rewrite IH. reflexivity. Qed.
  Lemma enumerate_forallb (f : payment -> bool) ps : forall i,
    forallb (fun ip => f (snd ip)) (enumerate_from addr i ps) = forallb f ps.
  Proof. induction ps as [|p ps IH]; intros i; [reflexivity|]. cbn [enumerate_from forallb snd]. rewrite IH. reflexivity. Qed.
  Lemma enumerate_index ps : forall i, 0 <= i -> i + Z.of_nat (length ps) <= 10000 ->
    index_rule addr (enumerate_from addr i ps) = true.
  Proof.
    unfold index_rule. induction ps as [|p ps IH]; intros i H0 H; [reflexivity|].
    cbn [enumerate_from forallb fst length] in *. rewrite IH by lia. lia.
  Qed.
  Lemma enumerate_wf ps : forallb (wf_paymentb addr) ps = true -> wf_requestb addr (enumerate_from addr 0 ps) = true.
  Proof.
    intros W. unfold wf_requestb. rewrite enumerate_increasing by lia. rewrite enumerate_forallb. exact W.
  Qed.

  Notation addr_ok := (addr_ok addr addr_dec addr_enc).
  Notation names_pre := (names_pre addr).

  Lemma names_check ps :
    forallb (fun p => forallb (fun nv => other_name_ok (fst nv)) (p_other p)) ps = forallb names_pre ps.
  Proof.
    induction ps as [|p ps IH]; [reflexivity|]. cbn [forallb]. rewrite IH. f_equal.
    unfold ProofsRender.names_pre. induction (p_other p) as [|[n v] l IHl]; [reflexivity|].
    cbn [forallb fst]. rewrite IHl, other_name_ok_spec. reflexivity.
  Qed.

  (** [new] accepts exactly the valid requests (payments numbered 0,1,2,…) and returns them unchanged *)
  Theorem request_new_ok ps r :
    forallb (wf_paymentb addr) ps = true -> Forall (fun p => addr_ok (p_addr p)) ps ->
    (request_new addr addr_dec addr_enc can_memo t_only ps = Ok r <->
     r = enumerate_from addr 0 ps /\ Z.of_nat (length ps) <= 9999 /\ validb addr can_memo t_only r = true).
  Proof.
    intros W A. unfold request_new.
    destruct (9999 <? Z.of_nat (length ps)) eqn:L.
    { split; [discriminate | intros (_ & H & _); lia]. }
    set (r0 := enumerate_from addr 0 ps).
    assert (Wr : wf_requestb addr r0 = true) by (apply enumerate_wf, W).
    assert (Ix : index_rule addr r0 = true) by (apply enumerate_index; lia).
    rewrite names_check.
    assert (NPe : forallb (fun ip => names_pre (snd ip)) r0 = forallb names_pre ps) by apply enumerate_forallb.
    destruct (forallb names_pre ps) eqn:NP; cbn [negb].
    - assert (Pre : pre_request addr addr_dec addr_enc r0).
      { repeat split; auto. unfold addrs_ok. apply Forall_forall. intros ip Hip.
        rewrite Forall_forall in A. apply A. rewrite <- (enumerate_snd ps 0). apply in_map. exact Hip. }
      destruct (is_nil r0) eqn:N.
      + destruct r0; [|discriminate]. split; [intros [= <-]; repeat split; lia | intros (-> & _ & _); reflexivity].
      + rewrite (from_uri_to_uri addr addr_dec addr_enc can_memo t_only r0 Pre).
        destruct (render_outcome addr can_memo t_only r0) as [r1| |] eqn:RO.
        * destruct (render_outcome_ok addr can_memo t_only r0 r1 Ix NPe RO) as [-> V].
          split; [intros [= <-]; repeat split; [lia | exact V] | intros (-> & _ & _); reflexivity].
        * split; [discriminate|]. intros (-> & _ & V).
          rewrite (valid_render_outcome addr can_memo t_only r0 V) in RO. discriminate.
        * split; [discriminate|]. intros (-> & _ & V).
          rewrite (valid_render_outcome addr can_memo t_only r0 V) in RO. discriminate.
    - split; [discriminate|]. intros (-> & _ & V). exfalso.
      unfold validb in V. apply andb_true_iff in V. destruct V as [_ V].
      assert (X : forallb (fun ip => names_pre (snd ip)) r0 = true).
      { apply forallb_forall. intros ip Hip. rewrite forallb_forall in V. specialize (V ip Hip).
        unfold valid_paymentb in V. repeat (apply andb_true_iff in V; destruct V as [V ?]).
        match goal with H : other_names_rule _ _ = true |- _ => rewrite other_names_rule_split in H; apply andb_true_iff in H; tauto end. }
      congruence.
  Qed.
  Theorem request_new_too_many ps n :
    request_new addr addr_dec addr_enc can_memo t_only ps = Err (ETooMany n) <->
    9999 < Z.of_nat (length ps) /\ n = Z.of_nat (length ps).
  Proof.
    unfold request_new. destruct (9999 <? Z.of_nat (length ps)) eqn:L.
    - split; [intros [= <-]; split; [lia | reflexivity] | intros [_ ->]; reflexivity].
    - split; [|lia]. destruct (negb _); [discriminate|]. destruct (is_nil _); [discriminate|].
      pose proof (from_uri_no_too_many addr addr_dec can_memo t_only
                    (to_uri addr addr_enc (enumerate_from addr 0 ps))) as NT.
      destruct (from_uri addr addr_dec can_memo t_only _) as [r'|e|]; try discriminate.
      intros [= ->]. exfalso. apply (NT n). reflexivity.
  Qed.
End WithAddresses.

(** ** the same statements under the global form of the oracle hypotheses *)
Section GlobalOracle.
  Variable addr : Type.
  Variable addr_dec : bytes -> option addr.
  Variable addr_enc : addr -> bytes.
  Variable can_memo : addr -> bool.
  Variable t_only : addr -> bool.
  Hypothesis addr_rt : forall a, addr_dec (addr_enc a) = Some a.
  Hypothesis addr_enc_nonempty : forall a, addr_enc a <> [].
  Hypothesis addr_enc_alnum : forall a, forallb is_alnum (addr_enc a) = true.

  Lemma all_addr_ok a : addr_ok addr addr_dec addr_enc a.
  Proof. apply global_addr_ok; assumption. Qed.
  Lemma all_addrs_ok (r : request addr) : addrs_ok addr addr_dec addr_enc r.
  Proof. apply Forall_forall. intros ip _. apply all_addr_ok. Qed.

  Lemma request_roundtrip_g (r : request addr) :
    wf_requestb addr r = true /\ validb addr can_memo t_only r = true ->
    from_uri addr addr_dec can_memo t_only (to_uri addr addr_enc r) = Ok r.
  Proof. intros G. apply request_roundtrip; [exact G | apply all_addrs_ok]. Qed.
  Lemma accepted_rerender_g uri (r : request addr) :
    from_uri addr addr_dec can_memo t_only uri = Ok r ->
    from_uri addr addr_dec can_memo t_only (to_uri addr addr_enc r) = Ok r.
  Proof. apply accepted_rerender. intros a _. apply all_addr_ok. Qed.
  Lemma roundtrip_iff_valid_g (r : request addr) : wf_requestb addr r = true ->
    (from_uri addr addr_dec can_memo t_only (to_uri addr addr_enc r) = Ok r <-> validb addr can_memo t_only r = true).
  Proof. intros W. apply roundtrip_iff_valid; [exact W | apply all_addrs_ok]. Qed.
  Lemma request_new_ok_g ps (r : request addr) : forallb (wf_paymentb addr) ps = true ->
    (request_new addr addr_dec addr_enc can_memo t_only ps = Ok r <->
     r = enumerate_from addr 0 ps /\ Z.of_nat (length ps) <= 9999 /\ validb addr can_memo t_only r = true).
  Proof. intros W. apply request_new_ok; [exact W|]. apply Forall_forall. intros p _. apply all_addr_ok. Qed.
End GlobalOracle.
