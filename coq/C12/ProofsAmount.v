(** C12 — decimal integers and ZEC amounts: every amount in [0, MAX_MONEY] renders to a string
    that parses back to it, and an accepted string denotes its amount exactly. *)
From V.Lib Require Import Base MachInt.
From V.Gen Require Import C12Consts.
From V.C12 Require Import Model Spec ProofsB64.
From Coq Require Import ZifyBool.
Local Open Scope Z_scope.

Lemma coin_val : COIN = 10 ^ 8. Proof. reflexivity. Qed.
Lemma max_money_val : MAX_MONEY = 21000000 * COIN. Proof. reflexivity. Qed.

(** ** span *)
Definition stops (p : Z -> bool) (r : bytes) : Prop := match r with [] => True | c :: _ => p c = false end.
Lemma span_app p a r : forallb p a = true -> stops p r -> span p (a ++ r) = (a, r).
Proof.
  induction a as [|x a IH]; intros Ha Hr.
  - cbn [app]. destruct r as [|c r]; [reflexivity|]. cbn [span]. cbn [stops] in Hr. rewrite Hr. reflexivity.
  - cbn [forallb] in Ha. apply andb_true_iff in Ha. destruct Ha as [Hx Ha].
    cbn [app span]. rewrite Hx, (IH Ha Hr). reflexivity.
Qed.
Lemma span_spec p l : forall a b, span p l = (a, b) -> l = a ++ b /\ forallb p a = true /\ stops p b.
Proof.
  induction l as [|c r IH]; intros a b H.
  - injection H as <- <-. repeat split.
  - cbn [span] in H. destruct (p c) eqn:E.
    + destruct (span p r) as [a' b'] eqn:S. injection H as <- <-. destruct (IH a' b' eq_refl) as (A & B & C).
      subst r. repeat split; [cbn [forallb]; rewrite E, B; reflexivity | exact C].
    + injection H as <- <-. repeat split. exact E.
Qed.

(** ** decimal digits *)
Lemma dec_val_acc_app l1 : forall a l2, dec_val_acc a (l1 ++ l2) = dec_val_acc (dec_val_acc a l1) l2.
Proof. induction l1 as [|c l1 IH]; intros a l2; [reflexivity|]. cbn [app dec_val_acc]. apply IH. Qed.
Lemma dec_val_acc_lin l : forall a, dec_val_acc a l = a * 10 ^ Z.of_nat (length l) + dec_val_acc 0 l.
Proof.
  induction l as [|c l IH]; intros a.
  - cbn [dec_val_acc length]. change (10 ^ Z.of_nat 0) with 1. lia.
  - cbn [dec_val_acc length]. rewrite (IH (a * 10 + (c - 48))), (IH (0 * 10 + (c - 48))).
    rewrite Nat2Z.inj_succ, Z.pow_succ_r by lia. lia.
Qed.
Lemma dec_val_snoc l c : dec_val (l ++ [c]) = dec_val l * 10 + (c - 48).
Proof. unfold dec_val. rewrite dec_val_acc_app. reflexivity. Qed.
Lemma dec_val_zeros k : dec_val (repeat 48 k) = 0.
Proof.
  unfold dec_val. induction k as [|k IH]; [reflexivity|]. cbn [repeat dec_val_acc]. exact IH.
Qed.
Lemma dec_val_lead_zeros k l : dec_val (repeat 48 k ++ l) = dec_val l.
Proof. unfold dec_val. rewrite dec_val_acc_app. fold (dec_val (repeat 48 k)). rewrite dec_val_zeros. reflexivity. Qed.
Lemma dec_val_trail_zeros l k : dec_val (l ++ repeat 48 k) = dec_val l * 10 ^ Z.of_nat k.
Proof.
  unfold dec_val. rewrite dec_val_acc_app, dec_val_acc_lin. fold (dec_val (repeat 48 k)).
  rewrite dec_val_zeros, repeat_length. lia.
Qed.
Lemma dec_val_nonneg l : forallb is_digit l = true -> 0 <= dec_val l.
Proof.
  induction l as [|c l IH] using rev_ind; intros H; [unfold dec_val; cbn; lia|].
  rewrite forallb_app in H. apply andb_true_iff in H. destruct H as [A B].
  rewrite dec_val_snoc. cbn [forallb] in B. unfold is_digit in B. specialize (IH A). lia.
Qed.

Fixpoint val_le (l : list Z) : Z := match l with [] => 0 | d :: r => d + 10 * val_le r end.
Lemma val_le_digits fuel : forall n, 0 <= n < 10 ^ Z.of_nat fuel -> val_le (digits_le fuel n) = n.
Proof.
  induction fuel as [|f IH]; intros n H.
  - change (10 ^ Z.of_nat 0) with 1 in H. cbn. lia.
  - cbn [digits_le val_le]. destruct (n <? 10) eqn:E.
    + cbn [val_le]. rewrite Z.mod_small by lia. lia.
    + rewrite IH; [Z.div_mod_to_equations; lia|].
      rewrite Nat2Z.inj_succ, Z.pow_succ_r in H by lia. Z.div_mod_to_equations; lia.
Qed.
Lemma digits_le_range fuel : forall n, 0 <= n -> Forall (fun d => 0 <= d < 10) (digits_le fuel n).
Proof.
  induction fuel as [|f IH]; intros n H; [constructor|].
  cbn [digits_le]. constructor; [Z.div_mod_to_equations; lia|].
  destruct (n <? 10); [constructor | apply IH; Z.div_mod_to_equations; lia].
Qed.
Lemma digits_le_length fuel : forall n k, (1 <= k)%nat -> 0 <= n < 10 ^ Z.of_nat k -> (length (digits_le fuel n) <= k)%nat.
Proof.
  induction fuel as [|f IH]; intros n k Hk H; [cbn; lia|].
  cbn [digits_le length]. destruct (n <? 10) eqn:E; [cbn; lia|].
  destruct k as [|k]; [lia|]. destruct k as [|k].
  { change (10 ^ Z.of_nat 1) with 10 in H. lia. }
  specialize (IH (n / 10) (S k) ltac:(lia)).
  rewrite (Nat2Z.inj_succ (S k)), Z.pow_succ_r in H by lia.
  assert (0 <= n / 10 < 10 ^ Z.of_nat (S k)) by (Z.div_mod_to_equations; lia). specialize (IH H0). lia.
Qed.
Lemma digits_le_nonempty fuel n : digits_le (S fuel) n <> [].
Proof. cbn [digits_le]. discriminate. Qed.

Lemma dec_val_of_digits l : dec_val (map (fun d => 48 + d) (rev l)) = val_le l.
Proof.
  induction l as [|d l IH]; [reflexivity|].
  cbn [rev val_le]. rewrite map_app. cbn [map]. rewrite dec_val_snoc, IH. lia.
Qed.
Lemma dec_val_dec_str n : 0 <= n < 10 ^ 20 -> dec_val (dec_str n) = n.
Proof. intros H. unfold dec_str. rewrite dec_val_of_digits. apply (val_le_digits 20). exact H. Qed.
Lemma dec_str_digits n : 0 <= n -> forallb is_digit (dec_str n) = true.
Proof.
  intros H. unfold dec_str. apply forallb_forall. intros x Hx. apply in_map_iff in Hx.
  destruct Hx as (d & <- & Hd). apply in_rev in Hd.
  pose proof (digits_le_range 20 n H) as F. rewrite Forall_forall in F. specialize (F d Hd).
  unfold is_digit. lia.
Qed.
Lemma dec_str_nonempty n : dec_str n <> [].
Proof.
  unfold dec_str. intros E. apply map_eq_nil in E.
  assert (X : digits_le 20 n = []) by (rewrite <- (rev_involutive (digits_le 20 n)), E; reflexivity).
  revert X. change 20%nat with (S 19). apply digits_le_nonempty.
Qed.
Lemma dec_str_length_le n k : (1 <= k)%nat -> 0 <= n < 10 ^ Z.of_nat k -> (length (dec_str n) <= k)%nat.
Proof. intros Hk H. unfold dec_str. rewrite map_length, rev_length. apply digits_le_length; assumption. Qed.
Lemma is_nil_false {A} (l : list A) : l <> [] -> is_nil l = false.
Proof. destruct l; [congruence | reflexivity]. Qed.
Lemma parse_u64_digits s : s <> [] -> forallb is_digit s = true -> 0 <= dec_val s <= u64_max ->
  parse_u64 s = Some (dec_val s).
Proof.
  intros N D R. unfold parse_u64. rewrite (is_nil_false s N), D. unfold u64_checked, checked, in_range.
  destruct ((0 <=? dec_val s) && (dec_val s <=? u64_max)) eqn:E; [reflexivity | lia].
Qed.
Lemma parse_u64_dec_str n : 0 <= n <= u64_max -> parse_u64 (dec_str n) = Some n.
Proof.
  intros H. assert (0 <= n < 10 ^ 20) by (unfold u64_max in H; lia).
  rewrite parse_u64_digits.
  - rewrite dec_val_dec_str by exact H0. reflexivity.
  - apply dec_str_nonempty.
  - apply dec_str_digits. lia.
  - rewrite dec_val_dec_str by exact H0. exact H.
Qed.

(** indices 1..9999: exhaustive *)
Definition index_shape_ok (n : Z) : bool :=
  match dec_str n with
  | d :: ds => is_nonzero_digit d && forallb is_digit ds && (length ds <=? 3)%nat
  | [] => false
  end.
Lemma index_shape_sweep : forallb index_shape_ok (map Z.of_nat (seq 1 (Z.to_nat 9999))) = true.
Proof. vm_compute. reflexivity. Qed.
Lemma dec_str_index_shape n : 0 < n <= 9999 ->
  exists d ds, dec_str n = d :: ds /\ is_nonzero_digit d = true /\ forallb is_digit ds = true /\ (length ds <= 3)%nat.
Proof.
  intros H. pose proof index_shape_sweep as S. rewrite forallb_forall in S.
  assert (I : In n (map Z.of_nat (seq 1 (Z.to_nat 9999)))).
  { apply in_map_iff. exists (Z.to_nat n). split; [lia|]. apply in_seq. lia. }
  specialize (S n I). unfold index_shape_ok in S. destruct (dec_str n) as [|d ds]; [discriminate|].
  apply andb_true_iff in S. destruct S as [S C]. apply andb_true_iff in S. destruct S as [A B].
  exists d, ds. repeat split; auto. apply Nat.leb_le. exact C.
Qed.

(** ** trim_end *)
Definition no_trail (c : Z) (l : bytes) : Prop := match rev l with [] => True | x :: _ => x <> c end.
Lemma drop_while_repeat c k l : drop_while (Z.eqb c) (repeat c k ++ l) = drop_while (Z.eqb c) l.
Proof. induction k as [|k IH]; [reflexivity|]. cbn [repeat app drop_while]. rewrite Z.eqb_refl. exact IH. Qed.
Lemma trim_end_unique c l k : no_trail c l -> trim_end c (l ++ repeat c k) = l.
Proof.
  unfold no_trail, trim_end. intros H. rewrite rev_app_distr, rev_repeat, drop_while_repeat.
  destruct (rev l) as [|x r] eqn:E.
  - cbn. apply (f_equal (@rev Z)) in E. rewrite rev_involutive in E. cbn in E. auto.
  - cbn [drop_while]. destruct (c =? x) eqn:F; [lia|]. rewrite <- E. apply rev_involutive.
Qed.
Lemma drop_while_head c l : match drop_while (Z.eqb c) l with [] => True | x :: _ => x <> c end.
Proof.
  induction l as [|x r IH]; [exact I|]. cbn [drop_while]. destruct (c =? x) eqn:E; [exact IH | lia].
Qed.
Lemma trim_end_no_trail c l : no_trail c (trim_end c l).
Proof. unfold no_trail, trim_end. rewrite rev_involutive. apply drop_while_head. Qed.

(** ** amount_str / parse_amount *)
Lemma amount_str_shape z : 0 <= z <= MAX_MONEY ->
  let coins := z / COIN in let zats := z mod COIN in
  (zats = 0 /\ amount_str z = dec_str coins) \/
  (zats <> 0 /\ exists f k, amount_str z = dec_str coins ++ 46 :: f /\ f <> [] /\ forallb is_digit f = true /\
     (length f + k = 8)%nat /\ dec_val (f ++ repeat 48 k) = zats /\ no_trail 48 f).
Proof.
  intros Hz coins zats. unfold amount_str. fold coins zats.
  destruct (zats =? 0) eqn:E; [left; split; [lia | reflexivity]|]. right. split; [lia|].
  assert (Hzats : 0 < zats < 10 ^ 8).
  { pose proof (Z.mod_pos_bound z COIN eq_refl) as B. fold zats in B. change COIN with (10 ^ 8) in B. lia. }
  set (P := pad_left 8 48 (dec_str zats)).
  assert (LP : length P = 8%nat).
  { unfold P, pad_left. pose proof (dec_str_length_le zats 8 ltac:(lia) ltac:(lia)).
    rewrite app_length, repeat_length. lia. }
  assert (DP : forallb is_digit P = true).
  { unfold P, pad_left. rewrite forallb_app, dec_str_digits by lia. rewrite andb_true_r.
    apply forallb_forall. intros x Hx. apply repeat_spec in Hx. subst x. reflexivity. }
  assert (VP : dec_val P = zats).
  { unfold P, pad_left. rewrite dec_val_lead_zeros. apply dec_val_dec_str. lia. }
  destruct (trim_end_split 48 P) as [k HP]. set (f := trim_end 48 P) in *.
  assert (Nf : f <> []).
  { intros Ef. rewrite Ef in HP. cbn [app] in HP. rewrite HP, dec_val_zeros in VP. lia. }
  exists f, k. split.
  - cbn [app]. rewrite HP. change (dec_str coins ++ 46 :: f ++ repeat 48 k) with (dec_str coins ++ (46 :: f) ++ repeat 48 k).
    rewrite app_assoc. apply trim_end_unique.
    unfold no_trail. rewrite rev_app_distr. cbn [rev]. pose proof (trim_end_no_trail 48 P) as T. fold f in T.
    unfold no_trail in T. destruct (rev f) as [|x r] eqn:Er.
    + apply (f_equal (@rev Z)) in Er. rewrite rev_involutive in Er. cbn in Er. contradiction.
    + cbn [app]. exact T.
  - split; [exact Nf|]. split.
    + rewrite HP, forallb_app in DP. apply andb_true_iff in DP. tauto.
    + split; [|split; [rewrite <- HP; exact VP | apply trim_end_no_trail]].
      assert (X : length P = length (f ++ repeat 48 k)) by (rewrite <- HP; reflexivity).
      rewrite app_length, repeat_length in X. lia.
Qed.

Lemma u64_checked_ok x : 0 <= x <= u64_max -> u64_checked x = Some x.
Proof. intros H. unfold u64_checked, checked, in_range. destruct ((0 <=? x) && (x <=? u64_max)) eqn:E; [reflexivity | lia]. Qed.

Lemma amount_roundtrip z : 0 <= z <= MAX_MONEY -> parse_amount (amount_str z) = Some z.
Proof.
  intros Hz. pose proof (amount_str_shape z Hz) as S. cbv zeta in S.
  assert (Hc : 0 <= z / COIN <= 21000000).
  { rewrite max_money_val in Hz. rewrite coin_val in *. Z.div_mod_to_equations; lia. }
  assert (Hm : 0 <= z mod COIN < COIN) by (rewrite coin_val; Z.div_mod_to_equations; lia).
  assert (Hsum : z / COIN * COIN + z mod COIN = z) by (rewrite coin_val; Z.div_mod_to_equations; lia).
  assert (Hu : 0 <= z / COIN * COIN <= u64_max /\ z <= u64_max).
  { unfold u64_max. rewrite max_money_val, coin_val in *. lia. }
  unfold parse_amount.
  destruct S as [[Z0 ->] | [NZ (f & k & -> & Nf & Df & Lf & Vf & _)]].
  - rewrite <- (app_nil_r (dec_str (z / COIN))) at 1.
    rewrite span_app by (auto using dec_str_digits; try exact I; apply dec_str_digits; lia).
    rewrite (is_nil_false _ (dec_str_nonempty _)). cbn [negb is_nil].
    rewrite parse_u64_dec_str by (unfold u64_max; lia).
    rewrite u64_checked_ok by lia. rewrite u64_checked_ok by lia.
    replace (z / COIN * COIN + 0) with z by lia.
    destruct (z <=? MAX_MONEY) eqn:E; [reflexivity | lia].
  - rewrite span_app by (try (apply dec_str_digits; lia); reflexivity).
    rewrite (is_nil_false _ (dec_str_nonempty _)).
    rewrite <- (app_nil_r f) at 1. rewrite span_app by (try exact Df; exact I).
    rewrite (is_nil_false _ Nf).
    destruct (8 <? length f)%nat eqn:E8; [apply Nat.ltb_lt in E8; lia|].
    rewrite Z.eqb_refl. cbn [negb is_nil].
    rewrite parse_u64_dec_str by (unfold u64_max; lia).
    unfold pad_right. replace (8 - length f)%nat with k by lia.
    rewrite parse_u64_digits.
    + rewrite Vf. rewrite u64_checked_ok by lia. rewrite u64_checked_ok by lia. rewrite Hsum.
      destruct (z <=? MAX_MONEY) eqn:E; [reflexivity | lia].
    + destruct f; [congruence | discriminate].
    + rewrite forallb_app, Df. apply forallb_forall. intros x Hx. apply repeat_spec in Hx. subst x. reflexivity.
    + rewrite Vf. unfold u64_max. assert (COIN = 100000000) by reflexivity. lia.
Qed.

Lemma is_digit_qchar c : is_digit c = true -> is_qchar c = true.
Proof. unfold is_qchar, is_alnum. intros ->. rewrite orb_true_r. reflexivity. Qed.
Lemma dot_qchar : is_qchar 46 = true. Proof. vm_compute. reflexivity. Qed.
Lemma digits_qchars l : forallb is_digit l = true -> forallb is_qchar l = true.
Proof. rewrite !forallb_forall. intros H x Hx. apply is_digit_qchar, H, Hx. Qed.
Lemma amount_str_qchars z : 0 <= z <= MAX_MONEY -> forallb is_qchar (amount_str z) = true.
Proof.
  intros Hz. pose proof (amount_str_shape z Hz) as S. cbv zeta in S.
  assert (0 <= z / COIN) by (rewrite coin_val; Z.div_mod_to_equations; lia).
  destruct S as [[_ ->] | [_ (f & k & -> & _ & Df & _)]].
  - apply digits_qchars, dec_str_digits. assumption.
  - rewrite forallb_app. cbn [forallb]. rewrite dot_qchar, (digits_qchars _ Df), digits_qchars by (apply dec_str_digits; assumption).
    reflexivity.
Qed.

(** ** an accepted amount string denotes its amount exactly *)
Lemma parse_u64_some s v : parse_u64 s = Some v -> s <> [] /\ forallb is_digit s = true /\ v = dec_val s /\ 0 <= v <= u64_max.
Proof.
  unfold parse_u64. destruct s as [|c s]; [discriminate|]. cbn [is_nil].
  destruct (forallb is_digit (c :: s)) eqn:D; [|discriminate].
  unfold u64_checked, checked, in_range. destruct ((0 <=? dec_val (c :: s)) && (dec_val (c :: s) <=? u64_max)) eqn:E; [|discriminate].
  intros [= <-]. repeat split; try lia. discriminate.
Qed.

Lemma amount_parse_exact s z : parse_amount s = Some z -> amount_denotes s z /\ 0 <= z <= MAX_MONEY.
Proof.
  unfold parse_amount. destruct (span is_digit s) as [whole r] eqn:S.
  destruct (span_spec _ _ _ _ S) as (Es & Dw & Sr).
  destruct (is_nil whole) eqn:Nw; [discriminate|].
  assert (Hw : whole <> []) by (destruct whole; discriminate).
  (* shape of the optional fractional part *)
  assert (Shape : forall dec rest,
     (match r with
      | c :: r' => if c =? 46 then let (d, r'') := span is_digit r' in
                     if is_nil d then (None, r) else if (8 <? length d)%nat then (None, r) else (Some d, r'')
                   else (None, r)
      | [] => (None, r) end) = (dec, rest) -> rest = [] ->
     (r = [] /\ dec = None) \/ exists d, r = 46 :: d /\ dec = Some d /\ d <> [] /\ forallb is_digit d = true /\ (length d <= 8)%nat).
  { intros dec rest Edr Er. subst rest. destruct r as [|c r']; [left; injection Edr as <-; auto|].
    destruct (c =? 46) eqn:E46; [|discriminate].
    apply Z.eqb_eq in E46. subst c. destruct (span is_digit r') as [d r''] eqn:S2.
    destruct (span_spec _ _ _ _ S2) as (E2 & D2 & _).
    destruct (is_nil d) eqn:Nd; [discriminate|]. destruct (8 <? length d)%nat eqn:E8; [discriminate|].
    injection Edr as <- ->. rewrite app_nil_r in E2. subst r'. right. exists d. apply Nat.ltb_ge in E8.
    repeat split; auto. destruct d; discriminate. }
  match goal with |- context [let '(dec, rest) := ?m in _] => destruct m as [dec rest] eqn:Edr end.
  destruct rest as [|x rest]; [|discriminate]. cbn [is_nil negb].
  specialize (Shape dec [] eq_refl eq_refl).
  destruct (parse_u64 whole) as [coins|] eqn:Pw; [|discriminate].
  destruct (parse_u64_some _ _ Pw) as (_ & _ & Ec & Rc).
  destruct Shape as [[-> ->] | (d & -> & -> & Nd & Dd & Ld)].
  - destruct (u64_checked (coins * COIN)) as [cz|] eqn:C1; [|discriminate].
    destruct (u64_checked (cz + 0)) as [t|] eqn:C2; [|discriminate].
    destruct (t <=? MAX_MONEY) eqn:C3; [|discriminate]. intros [= <-].
    unfold u64_checked, checked, in_range in C1, C2.
    destruct ((0 <=? coins * COIN) && (coins * COIN <=? u64_max)); [|discriminate]. injection C1 as <-.
    destruct ((0 <=? coins * COIN + 0) && (coins * COIN + 0 <=? u64_max)); [|discriminate]. injection C2 as <-.
    rewrite coin_val in *. split; [|lia].
    exists whole, []. rewrite app_nil_r in Es. repeat split; auto.
    { cbn [length]. lia. }
    cbn [length]. change (10 ^ Z.of_nat 0) with 1. change (dec_val []) with 0. rewrite coin_val. lia.
  - destruct (parse_u64 (pad_right 8 48 d)) as [zats|] eqn:Pd; [|discriminate].
    destruct (parse_u64_some _ _ Pd) as (_ & _ & Ez & Rz).
    unfold pad_right in Ez. rewrite dec_val_trail_zeros in Ez.
    destruct (u64_checked (coins * COIN)) as [cz|] eqn:C1; [|discriminate].
    destruct (u64_checked (cz + zats)) as [t|] eqn:C2; [|discriminate].
    destruct (t <=? MAX_MONEY) eqn:C3; [|discriminate]. intros [= <-].
    unfold u64_checked, checked, in_range in C1, C2.
    destruct ((0 <=? coins * COIN) && (coins * COIN <=? u64_max)); [|discriminate]. injection C1 as <-.
    destruct ((0 <=? coins * COIN + zats) && (coins * COIN + zats <=? u64_max)) eqn:C4; [|discriminate]. injection C2 as <-.
    split; [|lia].
    exists whole, d. repeat split; auto.
    set (L := Z.of_nat (length d)) in *.
    assert (HL : 1 <= L <= 8) by (unfold L; destruct d; [congruence | cbn [length] in *; lia]).
    assert (HP : 10 ^ L * 10 ^ (8 - L) = COIN).
    { rewrite coin_val, <- Z.pow_add_r by lia. f_equal. lia. }
    replace (Z.of_nat (8 - length d)) with (8 - L) in Ez by lia.
    subst zats coins. rewrite <- HP. ring.
Qed.

Example amount_rejects : parse_amount [49;46] = None /\ parse_amount [46;53] = None /\
  parse_amount [48;46;49;50;51;52;53;54;55;56;57] = None /\
  parse_amount [50;49;48;48;48;48;48;48;46;48;48;48;48;48;48;48;49] = None.
Proof. vm_compute. repeat split. Qed.
