(** C12 — compact byte-string literals for the generated cases files: 7 bytes per primitive
    integer, big-endian ([ub len words]).  Used only to write down inputs; no theorem mentions it. *)
From Coq Require Import Uint63 ZArith List.
Import ListNotations.
Local Open Scope Z_scope.

Fixpoint word_bytes (k : nat) (z : Z) (acc : list Z) : list Z :=
  match k with
  | O => acc
  | S k' => word_bytes k' (z / 256) (z mod 256 :: acc)
  end.
Fixpoint ub (len : Z) (ws : list int) : list Z :=
  match ws with
  | [] => []
  | w :: r =>
      if len <=? 7 then word_bytes (Z.to_nat len) (Uint63.to_Z w) []
      else word_bytes 7 (Uint63.to_Z w) [] ++ ub (len - 7) r
  end.
