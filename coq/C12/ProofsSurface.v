(** C12 — surface rules of an accepted URI, stated on the URI text itself (Spec.uri_rules_ok,
    Spec.uri_param_count): every index suffix is 1..9999 without leading zero, no parameter name
    starts with "req-", and the request has exactly as many fields as the URI has parameters
    (nothing is dropped, so no duplicate was swallowed and every index got its recipient). *)
From V.Lib Require Import Base MachInt.
From V.Gen Require Import C12Consts.
From V.C12 Require Import Model Spec ProofsPct ProofsB64 ProofsAmount ProofsRender ProofsAccept ProofsCtors.
From Coq Require Import ZifyBool.
Local Open Scope Z_scope.

(** ** list splitting *)
Lemma split_at_app c a r : ~ In c a -> split_at c (a ++ c :: r) = (a, Some r).
Proof.
  induction a as [|x a IH]; intros H; cbn [app split_at].
  - rewrite Z.eqb_refl. reflexivity.
  - destruct (x =? c) eqn:E; [exfalso; apply H; left; lia|]. rewrite IH; [reflexivity|]. intros I. apply H. right. exact I.
Qed.
Lemma split_at_none c a : ~ In c a -> split_at c a = (a, None).
Proof.
  induction a as [|x a IH]; intros H; cbn [split_at]; [reflexivity|].
  destruct (x =? c) eqn:E; [exfalso; apply H; left; lia|]. rewrite IH; [reflexivity|]. intros I. apply H. right. exact I.
Qed.
Lemma split_all_no c a : ~ In c a -> split_all c a = [a].
Proof.
  induction a as [|x a IH]; intros H; cbn [split_all]; [reflexivity|].
  rewrite IH by (intros I; apply H; right; exact I).
  destruct (x =? c) eqn:E; [exfalso; apply H; left; lia | reflexivity].
Qed.
Lemma split_all_app c a r : ~ In c a -> split_all c (a ++ c :: r) = a :: split_all c r.
Proof.
  induction a as [|x a IH]; intros H; cbn [app split_all].
  - rewrite Z.eqb_refl. destruct (split_all c r) eqn:E; [|reflexivity].
    exfalso. clear -E. destruct r as [|y r]; [discriminate|]. cbn [split_all] in E.
    destruct (split_all c r); [discriminate|]. destruct (y =? c); discriminate.
  - rewrite IH by (intros I; apply H; right; exact I).
    destruct (x =? c) eqn:E; [exfalso; apply H; left; lia | reflexivity].
Qed.
Lemma split_all_join c pcs : pcs <> [] -> Forall (fun pc => ~ In c pc) pcs -> split_all c (join c pcs) = pcs.
Proof.
  induction pcs as [|a pcs IH]; [congruence|]. intros _ F. inversion F as [|? ? Ha F']; subst.
  destruct pcs as [|b pcs]; [cbn [join]; apply split_all_no, Ha|].
  change (join c (a :: b :: pcs)) with (a ++ c :: join c (b :: pcs)).
  rewrite split_all_app by exact Ha. rewrite IH; [reflexivity | discriminate | exact F'].
Qed.

Lemma starts_with_app p : forall n x X, ~ In x p -> starts_with p (n ++ x :: X) = starts_with p n.
Proof.
  unfold starts_with. induction p as [|a p IH]; intros n x X H; [destruct n; reflexivity|].
  destruct n as [|b n]; cbn [app strip_prefix].
  - destruct (a =? x) eqn:E; [exfalso; apply H; left; lia | reflexivity].
  - destruct (a =? b); [|reflexivity]. apply IH. intros I. apply H. right. exact I.
Qed.

Lemma forallb_not_in (f : Z -> bool) c l : forallb f l = true -> f c = false -> ~ In c l.
Proof. intros F N I. rewrite forallb_forall in F. rewrite (F c I) in N. discriminate. Qed.

(** ** shape of one accepted parameter *)
Definition idxs (iopt : option bytes) : bytes := match iopt with None => [] | Some i => 46 :: i end.
Definition iopt_good (iopt : option bytes) : Prop :=
  match iopt with
  | None => True
  | Some [] => False
  | Some (d :: ds) => is_nonzero_digit d = true /\ forallb is_digit ds = true /\ (length ds <= 3)%nat
  end.

Lemma indexed_name_shape input name iopt r : indexed_name input = Some (name, iopt, r) ->
  valid_nameb name = true /\ iopt_good iopt /\ input = name ++ idxs iopt ++ r.
Proof.
  intros H. destruct (indexed_name_full _ _ _ _ H) as [V E]. split; [exact V|]. split; [|exact E].
  revert H. unfold indexed_name. destruct (span is_alpha input) as [a r1].
  destruct (is_nil a); [discriminate|]. destruct (span is_namechar r1) as [n r2].
  destruct r2 as [|c [|d r3]]; try (intros [= <- <- <-]; exact I).
  destruct ((c =? 46) && is_nonzero_digit d) eqn:C; [|intros [= <- <- <-]; exact I].
  destruct (span is_digit r3) as [ds r4] eqn:S3. destruct (span_spec _ _ _ _ S3) as (_ & Dd & _).
  destruct (3 <? length ds)%nat eqn:E3; intros [= <- <- <-]; [exact I|].
  apply andb_true_iff in C. apply Nat.ltb_ge in E3. cbn. tauto.
Qed.

Definition piece_shape (pc : bytes) : Prop :=
  exists name iopt value, pc = name ++ idxs iopt ++ 61 :: value /\ valid_nameb name = true /\ iopt_good iopt
                          /\ forallb is_qchar value = true /\ starts_with s_req name = false.

Lemma five_not_req : forallb (fun n => negb (starts_with s_req n)) reserved_names = true.
Proof. vm_compute. reflexivity. Qed.

Section WithAddresses.
  Variable addr : Type.
  Variable addr_dec : bytes -> option addr.
  Variable can_memo : addr -> bool.
  Variable t_only : addr -> bool.
  Notation param := (param addr).
  Notation request := (request addr).

  Lemma to_indexed_param_not_req name iopt value ip :
    to_indexed_param addr addr_dec name iopt value = Some ip -> starts_with s_req name = false.
  Proof.
    unfold to_indexed_param. pose proof five_not_req as F. unfold reserved_names in F. cbn [forallb] in F.
    repeat (apply andb_true_iff in F; destruct F as [? F]).
    destruct (bytes_eqb name s_address) eqn:E1; [apply bytes_eqb_eq in E1; subst; intros _; apply negb_true_iff; assumption|].
    destruct (bytes_eqb name s_amount) eqn:E2; [apply bytes_eqb_eq in E2; subst; intros _; apply negb_true_iff; assumption|].
    destruct (bytes_eqb name s_label) eqn:E3; [apply bytes_eqb_eq in E3; subst; intros _; apply negb_true_iff; assumption|].
    destruct (bytes_eqb name s_message) eqn:E4; [apply bytes_eqb_eq in E4; subst; intros _; apply negb_true_iff; assumption|].
    destruct (bytes_eqb name s_memo) eqn:E5; [apply bytes_eqb_eq in E5; subst; intros _; apply negb_true_iff; assumption|].
    destruct (starts_with s_req name); [discriminate | reflexivity].
  Qed.

  Lemma zcashparam_shape s ip rest : zcashparam addr addr_dec s = Some (ip, rest) ->
    exists pc, s = pc ++ rest /\ piece_shape pc.
  Proof.
    unfold zcashparam. destruct (indexed_name s) as [[[name iopt] r]|] eqn:IN; [|discriminate].
    destruct (indexed_name_shape _ _ _ _ IN) as (V & G & E).
    destruct r as [|c r']; [discriminate|]. destruct (c =? 61) eqn:C; [|discriminate]. apply Z.eqb_eq in C. subst c.
    destruct (span is_qchar r') as [value r''] eqn:S. destruct (span_spec _ _ _ _ S) as (E2 & Q & _).
    destruct (to_indexed_param addr addr_dec name iopt value) as [ip'|] eqn:T; [|discriminate].
    intros [= <- <-]. exists (name ++ idxs iopt ++ 61 :: value). split.
    - rewrite E, E2, <- !app_assoc. cbn [app]. reflexivity.
    - exists name, iopt, value. repeat split; auto. eapply to_indexed_param_not_req; eauto.
  Qed.

  (** the parameter list: if everything was consumed, the text is the pieces joined by '&' *)
  Lemma params_tail_shape fuel : forall i acc xs,
    params_tail addr addr_dec fuel i acc = (xs, []) ->
    exists pcs, i = tl_str pcs /\ Forall piece_shape pcs /\ length xs = (length acc + length pcs)%nat.
  Proof.
    induction fuel as [|f IH]; intros i acc xs; cbn [params_tail].
    - intros [= <- ->]. exists []. repeat split; [constructor | cbn; lia].
    - destruct i as [|c i1]; [intros [= <-]; exists []; repeat split; [constructor | cbn; lia]|].
      destruct (c =? 38) eqn:C; [|discriminate]. apply Z.eqb_eq in C. subst c.
      destruct (zcashparam addr addr_dec i1) as [[p i2]|] eqn:Z; [|discriminate].
      intros H. destruct (IH _ _ _ H) as (pcs & E & F & L).
      destruct (zcashparam_shape _ _ _ Z) as (pc & E1 & Sh).
      exists (pc :: pcs). split; [cbn [tl_str flat_map]; fold (tl_str pcs); rewrite E1, E; reflexivity|].
      split; [constructor; assumption|]. rewrite app_length in L. cbn [length] in *. lia.
  Qed.
  Lemma params_list_shape q xs : params_list addr addr_dec q = (xs, []) ->
    (q = [] /\ xs = []) \/ exists pcs, pcs <> [] /\ q = join 38 pcs /\ Forall piece_shape pcs /\ length xs = length pcs.
  Proof.
    unfold params_list. destruct (zcashparam addr addr_dec q) as [[p i1]|] eqn:Z.
    - intros H. right. destruct (params_tail_shape _ _ _ _ H) as (pcs & E & F & L).
      destruct (zcashparam_shape _ _ _ Z) as (pc & E1 & Sh).
      exists (pc :: pcs). split; [discriminate|]. split; [rewrite join_cons, E1, E; reflexivity|].
      split; [constructor; assumption | cbn [length] in *; lia].
    - intros [= <- ->]. left. split; reflexivity.
  Qed.

  (** a piece contains no '&', passes the index-suffix check, and does not start with "req-" *)
  Lemma namechar_facts c : is_namechar c = true -> c <> 38 /\ c <> 61 /\ c <> 46.
  Proof. unfold is_namechar, is_alnum, is_alpha, is_upper, is_lower, is_digit, in_set. cbn [existsb]. lia. Qed.
  Lemma digit_facts c : is_digit c = true -> c <> 38 /\ c <> 61 /\ c <> 46.
  Proof. unfold is_digit. lia. Qed.
  Lemma valid_name_chars name : valid_nameb name = true -> forallb is_namechar name = true.
  Proof.
    destruct name as [|c t]; [discriminate|]. cbn [valid_nameb forallb]. intros H.
    apply andb_true_iff in H. destruct H as [A B]. rewrite (is_alpha_namechar c A), B. reflexivity.
  Qed.
  Lemma idxs_chars iopt c : iopt_good iopt -> In c (idxs iopt) -> c = 46 \/ is_digit c = true.
  Proof.
    destruct iopt as [[|d ds]|]; cbn [iopt_good idxs]; [tauto | | intros _ []].
    intros (N & D & _) [<-|[<-|H]]; [left; reflexivity | right; unfold is_nonzero_digit in N; unfold is_digit; lia|].
    right. rewrite forallb_forall in D. apply D, H.
  Qed.

  Lemma piece_no_amp pc : piece_shape pc -> ~ In 38 pc.
  Proof.
    intros (name & iopt & value & -> & V & G & Q & _) H.
    apply in_app_or in H. destruct H as [H|H].
    - pose proof (valid_name_chars name V) as F. rewrite forallb_forall in F. specialize (F 38 H). apply namechar_facts in F. tauto.
    - apply in_app_or in H. destruct H as [H|H].
      + destruct (idxs_chars iopt 38 G H) as [E|E]; [lia | apply digit_facts in E; tauto].
      + destruct H as [E|H]; [lia|]. rewrite forallb_forall in Q. specialize (Q 38 H). rewrite not_qchar_38 in Q. discriminate.
  Qed.
  Lemma piece_rules pc : piece_shape pc -> index_suffix_ok pc = true /\ starts_with s_req pc = false.
  Proof.
    intros (name & iopt & value & -> & V & G & Q & R).
    pose proof (valid_name_chars name V) as F.
    assert (N61 : ~ In 61 (name ++ idxs iopt)).
    { intros H. apply in_app_or in H. destruct H as [H|H].
      - rewrite forallb_forall in F. specialize (F 61 H). apply namechar_facts in F. tauto.
      - destruct (idxs_chars iopt 61 G H) as [E|E]; [lia | apply digit_facts in E; tauto]. }
    assert (N46 : ~ In 46 name).
    { intros H. rewrite forallb_forall in F. specialize (F 46 H). apply namechar_facts in F. tauto. }
    split.
    - unfold index_suffix_ok. rewrite app_assoc, (split_at_app 61 _ value N61).
      destruct iopt as [[|d ds]|]; cbn [idxs iopt_good] in *; [contradiction | |].
      + rewrite (split_at_app 46 name (d :: ds) N46). destruct G as (A & B & C).
        rewrite A, B. cbn [andb]. apply Nat.leb_le. exact C.
      + rewrite app_nil_r, (split_at_none 46 name N46). reflexivity.
    - rewrite <- R. destruct iopt as [i|]; cbn [idxs app].
      + apply starts_with_app. cbn. intros H. repeat (destruct H as [H|H]; [lia|]). exact H.
      + apply starts_with_app. cbn. intros H. repeat (destruct H as [H|H]; [lia|]). exact H.
  Qed.

  (** ** counting: the groups hold every parameter, and a payment has one field per parameter *)
  Definition gsize (m : list (Z * list param)) : nat := fold_right (fun g n => (length (snd g) + n)%nat) O m.
  Lemma map_get_gt {V} k (m : list (Z * V)) : forall prev, increasing prev (map fst m) = true -> k <= prev -> map_get k m = None.
  Proof.
    induction m as [|[k' v'] m IH]; intros prev Inc H; [reflexivity|]. cbn [map fst increasing] in Inc.
    apply andb_true_iff in Inc. destruct Inc as [A B]. cbn [map_get]. destruct (k =? k') eqn:E; [lia|].
    apply (IH k' B). lia.
  Qed.
  Lemma gsize_map_set k (v : list param) m : forall prev, increasing prev (map fst m) = true ->
    (gsize (map_set k v m) + match map_get k m with Some cur => length cur | None => O end = length v + gsize m)%nat.
  Proof.
    induction m as [|[k' v'] m IH]; intros prev Inc; cbn [map_set map_get]; [cbn; lia|].
    cbn [map fst increasing] in Inc. apply andb_true_iff in Inc. destruct Inc as [A B].
    destruct (k <? k') eqn:E1.
    - destruct (k =? k') eqn:E2; [lia|]. rewrite (map_get_gt k m k' B) by lia. cbn [gsize fold_right snd]. lia.
    - destruct (k =? k') eqn:E2; [cbn [gsize fold_right snd]; lia|].
      cbn [gsize fold_right snd]. fold (gsize (map_set k v m)). fold (gsize m). specialize (IH k' B). lia.
  Qed.

  Lemma group_count xs : forall m m', Forall (fun ip => 0 <= snd ip) xs -> increasing (-1) (map fst m) = true ->
    group addr xs m = inr m' -> gsize m' = (length xs + gsize m)%nat.
  Proof.
    induction xs as [|[p i] xs IH]; intros m m' Hx Inc; cbn [group]; [intros [= <-]; reflexivity|].
    inversion Hx as [|? ? Hi Hx']; subst. cbn [snd] in Hi.
    pose proof (gsize_map_set i) as GS.
    destruct (map_get i m) as [cur|] eqn:MG.
    - destruct (has_duplicate_param addr cur p); [discriminate|]. intros H.
      rewrite (IH _ _ Hx' (map_set_increasing i _ m (-1) ltac:(lia) Inc) H).
      specialize (GS (cur ++ [p]) m (-1) Inc). rewrite MG, app_length in GS. cbn [length] in *. lia.
    - intros H. rewrite (IH _ _ Hx' (map_set_increasing i _ m (-1) ltac:(lia) Inc) H).
      specialize (GS [p] m (-1) Inc). rewrite MG in GS. cbn [length] in *. lia.
  Qed.

  Definition kindn (q : param) : nat :=
    match q with PAddr _ => 0 | PAmount _ => 1 | PMemo _ => 2 | PLabel _ => 3 | PMessage _ => 4 | POther _ _ => 5 end.
  Definition nk (k : nat) (l : list param) : nat := length (filter (fun q => (kindn q =? k)%nat) l).
  Lemma nk_app k a b : nk k (a ++ b) = (nk k a + nk k b)%nat.
  Proof. unfold nk. rewrite filter_app, app_length. reflexivity. Qed.
  Lemma length_kinds l : length l = (nk 0 l + nk 1 l + nk 2 l + nk 3 l + nk 4 l + nk 5 l)%nat.
  Proof.
    unfold nk. induction l as [|q l IH]; [reflexivity|]. destruct q; cbn [filter kindn Nat.eqb length]; lia.
  Qed.
  Lemma no_dup_kind acc q : has_duplicate_param addr acc q = false -> (kindn q < 5)%nat -> nk (kindn q) acc = O.
  Proof.
    unfold has_duplicate_param, nk. induction acc as [|p0 acc IH]; intros H K; [reflexivity|].
    cbn [existsb] in H. apply orb_false_iff in H. destruct H as [H1 H2].
    cbn [filter]. destruct (kindn p0 =? kindn q)%nat eqn:E; [|apply IH; assumption].
    exfalso. apply Nat.eqb_eq in E. destruct p0, q; cbn in E, K, H1; try discriminate; lia.
  Qed.
  Lemma nodup_kind k vs : (k < 5)%nat -> forall acc, pnodupb addr acc vs = true -> (nk k acc <= 1)%nat ->
    (nk k acc + nk k vs <= 1)%nat.
  Proof.
    intros K. induction vs as [|q vs IH]; intros acc H A; [unfold nk at 2; cbn; lia|].
    cbn [pnodupb] in H. apply andb_true_iff in H. destruct H as [H1 H2]. apply negb_true_iff in H1.
    specialize (IH (acc ++ [q]) H2). rewrite nk_app in IH.
    change (q :: vs) with ([q] ++ vs). rewrite nk_app.
    destruct (kindn q =? k)%nat eqn:E.
    - apply Nat.eqb_eq in E. pose proof (no_dup_kind acc q H1 ltac:(lia)) as Z0. rewrite E in Z0.
      assert (nk k [q] = 1%nat) by (unfold nk; cbn [filter]; rewrite <- E, Nat.eqb_refl; reflexivity). lia.
    - assert (nk k [q] = 0%nat) by (unfold nk; cbn [filter]; rewrite E; reflexivity). lia.
  Qed.

  Definition copt {A} (o : option A) : nat := match o with Some _ => 1 | None => 0 end.
  Definition pick (n : nat) (old : nat) : nat := if (n =? 0)%nat then old else 1%nat.

  Lemma apply_params_fields vs : forall i p0 p, apply_params addr can_memo t_only vs i p0 = Ok p ->
    copt (p_amount p) = pick (nk 1 vs) (copt (p_amount p0)) /\ copt (p_memo p) = pick (nk 2 vs) (copt (p_memo p0)) /\
    copt (p_label p) = pick (nk 3 vs) (copt (p_label p0)) /\ copt (p_message p) = pick (nk 4 vs) (copt (p_message p0)) /\
    length (p_other p) = (length (p_other p0) + nk 5 vs)%nat.
  Proof.
    unfold nk, pick. induction vs as [|v vs IH]; intros i p0 p; cbn [apply_params].
    - intros [= <-]. cbn. repeat split; lia.
    - destruct v; cbn [filter kindn Nat.eqb length].
      + intros H. apply IH in H. exact H.
      + destruct (t_only (p_addr p0) && (z =? 0)); [discriminate|]. intros H. apply IH in H.
        cbn [p_amount p_memo p_label p_message p_other copt] in H. destruct H as (A & B & C & D & E).
        split; [|split; [exact B | split; [exact C | split; [exact D | exact E]]]].
        rewrite A. destruct (length (filter (fun q : param => (kindn q =? 1)%nat) vs) =? 0)%nat; reflexivity.
      + destruct (can_memo (p_addr p0)); [|discriminate]. intros H. apply IH in H.
        cbn [p_amount p_memo p_label p_message p_other copt] in H. destruct H as (A & B & C & D & E).
        split; [exact A | split; [|split; [exact C | split; [exact D | exact E]]]].
        rewrite B. destruct (length (filter (fun q : param => (kindn q =? 2)%nat) vs) =? 0)%nat; reflexivity.
      + intros H. apply IH in H. cbn [p_amount p_memo p_label p_message p_other copt] in H. destruct H as (A & B & C & D & E).
        split; [exact A | split; [exact B | split; [|split; [exact D | exact E]]]].
        rewrite C. destruct (length (filter (fun q : param => (kindn q =? 3)%nat) vs) =? 0)%nat; reflexivity.
      + intros H. apply IH in H. cbn [p_amount p_memo p_label p_message p_other copt] in H. destruct H as (A & B & C & D & E).
        split; [exact A | split; [exact B | split; [exact C | split; [|exact E]]]].
        rewrite D. destruct (length (filter (fun q : param => (kindn q =? 4)%nat) vs) =? 0)%nat; reflexivity.
      + intros H. apply IH in H. cbn [p_amount p_memo p_label p_message p_other copt] in H. destruct H as (A & B & C & D & E).
        split; [exact A | split; [exact B | split; [exact C | split; [exact D|]]]].
        rewrite E, app_length. cbn [length]. lia.
  Qed.

  Lemma find_addr_count vs a : find_addr addr vs = Some a -> (1 <= nk 0 vs)%nat.
  Proof.
    unfold nk. induction vs as [|v vs IH]; [discriminate|]. cbn [find_addr]. destruct v; cbn [filter kindn Nat.eqb length]; auto; lia.
  Qed.

  Definition fields (p : payment addr) : nat :=
    (1 + copt (p_amount p) + copt (p_memo p) + copt (p_label p) + copt (p_message p) + length (p_other p))%nat.
  Lemma to_payment_fields ps i p : pnodupb addr [] ps = true -> to_payment addr can_memo t_only ps i = Ok p ->
    fields p = length ps.
  Proof.
    intros N. unfold to_payment. destruct (find_addr addr ps) as [a|] eqn:FA; [|discriminate]. intros H.
    apply apply_params_fields in H. cbn [p_amount p_memo p_label p_message p_other copt length] in H.
    destruct H as (A & B & C & D & E). unfold fields. rewrite A, B, C, D, E, (length_kinds ps).
    pose proof (find_addr_count ps a FA) as K0.
    pose proof (nodup_kind 0 ps ltac:(lia) [] N ltac:(unfold nk; cbn; lia)) as N0.
    pose proof (nodup_kind 1 ps ltac:(lia) [] N ltac:(unfold nk; cbn; lia)) as N1.
    pose proof (nodup_kind 2 ps ltac:(lia) [] N ltac:(unfold nk; cbn; lia)) as N2.
    pose proof (nodup_kind 3 ps ltac:(lia) [] N ltac:(unfold nk; cbn; lia)) as N3.
    pose proof (nodup_kind 4 ps ltac:(lia) [] N ltac:(unfold nk; cbn; lia)) as N4.
    change (nk 0 []) with O in N0. change (nk 1 []) with O in N1. change (nk 2 []) with O in N2.
    change (nk 3 []) with O in N3. change (nk 4 []) with O in N4.
    unfold pick. destruct (nk 1 ps =? 0)%nat eqn:E1, (nk 2 ps =? 0)%nat eqn:E2, (nk 3 ps =? 0)%nat eqn:E3, (nk 4 ps =? 0)%nat eqn:E4; lia.
  Qed.

  Lemma count_fields_fields (r : request) : count_fields addr r = Z.of_nat (fold_right (fun ip n => (fields (snd ip) + n)%nat) O r).
  Proof.
    unfold count_fields. induction r as [|[i p] r IH]; [reflexivity|]. cbn [fold_right snd]. rewrite IH. unfold fields, copt, count_opt.
    destruct (p_amount p), (p_memo p), (p_label p), (p_message p); lia.
  Qed.
  Lemma build_count m : forall r, Forall (fun g => pnodupb addr [] (snd g) = true) m ->
    build addr can_memo t_only m = Ok r -> count_fields addr r = Z.of_nat (gsize m).
  Proof.
    intros r G B. rewrite count_fields_fields. f_equal. revert r G B.
    induction m as [|[i ps] m IH]; intros r G; cbn [build]; [intros [= <-]; reflexivity|].
    inversion G as [|? ? Gp G']; subst. cbn [snd] in Gp.
    destruct (to_payment addr can_memo t_only ps i) as [p| |] eqn:T; try discriminate.
    destruct (build addr can_memo t_only m) as [q| |] eqn:B; try discriminate. intros [= <-].
    cbn [fold_right snd gsize]. rewrite (IH q G' eq_refl). rewrite (to_payment_fields ps i p Gp T). reflexivity.
  Qed.

  Lemma strip_prefix_some p : forall l r, strip_prefix p l = Some r -> l = p ++ r.
  Proof.
    induction p as [|a p IH]; intros l r; cbn [strip_prefix]; [intros [= ->]; reflexivity|].
    destruct l as [|b l]; [discriminate|]. destruct (a =? b) eqn:E; [|discriminate].
    intros H. apply IH in H. apply Z.eqb_eq in E. subst. reflexivity.
  Qed.
  Lemma piece_nonempty pc : piece_shape pc -> pc <> [].
  Proof. intros (name & iopt & value & -> & V & _). destruct name; [discriminate | discriminate]. Qed.

  (** ** the theorem *)
  Theorem accepted_surface uri r : from_uri addr addr_dec can_memo t_only uri = Ok r ->
    uri_rules_ok uri = true /\ uri_param_count uri = count_fields addr r.
  Proof.
    unfold from_uri, lead_addr. destruct (strip_prefix s_zcash uri) as [X|] eqn:SP; [|discriminate].
    apply strip_prefix_some in SP.
    destruct (span (fun c => negb (c =? 63)) X) as [a rest] eqn:S. destruct (span_spec _ _ _ _ S) as (EX & Fa & Sr).
    assert (Na : ~ In 63 a) by (apply (forallb_not_in _ 63 a Fa); reflexivity).
    set (olead := if is_nil a then Some (None, rest) else match addr_dec a with Some ad => Some (Some ad, rest) | None => None end).
    assert (OL : forall lead rest', olead = Some (lead, rest') ->
                 rest' = rest /\ (match lead with Some _ => 1%nat | None => 0%nat end) = (if is_nil a then 0%nat else 1%nat)).
    { unfold olead. intros lead rest'. destruct (is_nil a); [intros [= <- <-]; split; reflexivity|].
      destruct (addr_dec a); [intros [= <- <-]; split; reflexivity | discriminate]. }
    destruct olead as [[lead rest']|] eqn:EO; [|discriminate].
    destruct (OL lead rest' eq_refl) as [-> Hlead]. clear OL.
    match goal with |- match ?o with Some _ => _ | None => _ end = _ -> _ => destruct o as [xs|] eqn:OX; [|discriminate] end.
    (* shape of the query *)
    assert (Q : exists pcs, uri_parts uri = Some (negb (is_nil a), pcs) /\ Forall piece_shape pcs /\ length xs = length pcs
                            /\ Forall (fun ip => good_iparam addr ip) xs).
    { unfold uri_parts. rewrite SP, strip_prefix_app, EX.
      destruct rest as [|c q].
      - injection OX as <-. rewrite app_nil_r, (split_at_none 63 a Na). exists []. repeat split; constructor.
      - destruct (c =? 63) eqn:C; [|discriminate]. apply Z.eqb_eq in C. subst c.
        destruct (params_list addr addr_dec q) as [ys r'] eqn:PL. destruct r'; [|discriminate]. injection OX as <-.
        rewrite (split_at_app 63 a q Na). pose proof (params_list_good _ _ _ _ _ PL) as GX.
        destruct (params_list_shape _ _ PL) as [[-> ->] | (pcs & NE & -> & F & L)].
        + exists []. repeat split; constructor.
        + exists pcs. split; [|repeat split; assumption].
          assert (NJ : is_nil (join 38 pcs) = false).
          { destruct pcs as [|pc pcs']; [congruence|]. rewrite join_cons. inversion F; subst.
            pose proof (piece_nonempty pc ltac:(assumption)). destruct pc; [congruence | reflexivity]. }
          rewrite NJ, split_all_join; [reflexivity | exact NE|].
          eapply Forall_impl; [|exact F]. apply piece_no_amp. }
    destruct Q as (pcs & UP & F & L & GX).
    set (init := match lead with Some a0 => [(0, [PAddr a0])] | None => [] end).
    destruct (group addr xs init) as [i|m] eqn:GR; [discriminate|]. intros B.
    assert (Ginit : ginv addr init).
    { unfold init. destruct lead; [|split; [reflexivity | constructor]].
      split; [reflexivity|]. constructor; [|constructor]. split; [cbn; lia|]. split; [repeat constructor | reflexivity]. }
    pose proof (group_inv addr xs init m GX Ginit GR) as [_ Gm].
    assert (Cnt : gsize m = (length xs + gsize init)%nat).
    { apply group_count with (m := init); [| apply Ginit | exact GR].
      eapply Forall_impl; [|exact GX]. intros ip [_ H]. lia. }
    assert (Np : Forall (fun g => pnodupb addr [] (snd g) = true) m).
    { eapply Forall_impl; [|exact Gm]. intros g (_ & _ & N). exact N. }
    rewrite (build_count m r Np B), Cnt.
    split.
    - unfold uri_rules_ok. rewrite UP. apply forallb_forall. intros pc Hpc. rewrite Forall_forall in F.
      destruct (piece_rules pc (F pc Hpc)) as [A R]. rewrite A, R. reflexivity.
    - unfold uri_param_count. rewrite UP, <- L.
      assert (gsize init = if is_nil a then 0%nat else 1%nat) by (rewrite <- Hlead; unfold init; destruct lead; reflexivity).
      rewrite H. destruct (is_nil a); cbn [negb]; lia.
  Qed.
End WithAddresses.
