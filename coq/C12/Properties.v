(** C12 — property theorems only. Each is closed by [exact] of a lemma from the Proofs files and
    audited by Print Assumptions in the generated Audit file. *)
From Coq Require Import String.
From V.Lib Require Import Base MachInt.
From V.Gen Require Import C12Consts.
From V.C12 Require Import Model Spec ProofsPct ProofsB64 ProofsAmount ProofsRender ProofsAccept ProofsTotal ProofsCtors ProofsSurface ProofsAmountSpec Bridge ProofsC10.
(* the case-evaluation files belong to the closure that every run rebuilds *)
From V.C12 Require Import Lit Corr Wf.
Local Open Scope Z_scope.

(** ** Amounts: zatoshis <-> decimal ZEC string, exactly *)
Theorem C12_amount_roundtrip : forall z, 0 <= z <= MAX_MONEY -> parse_amount (amount_str z) = Some z.
Proof. exact amount_roundtrip. Qed.
Theorem C12_amount_parse_exact : forall s z, parse_amount s = Some z -> amount_denotes s z /\ 0 <= z <= MAX_MONEY.
Proof. exact amount_parse_exact. Qed.
Theorem C12_amount_str_qchars : forall z, 0 <= z <= MAX_MONEY -> forallb is_qchar (amount_str z) = true.
Proof. exact amount_str_qchars. Qed.

(** [parse_amount] is the mathematical specification on every string: split at the first '.', both
    parts ASCII digits, 1..8 fractional digits, exact value <= MAX_MONEY (no machine arithmetic). *)
Theorem C12_parse_amount_spec : forall s, parse_amount s = amount_spec s.
Proof. exact parse_amount_spec. Qed.
(** The rendering is canonical: no trailing fractional zero, no leading zero on the integer part. *)
Theorem C12_amount_str_canonical : forall z, 0 <= z <= MAX_MONEY -> amount_canonical (amount_str z) = true.
Proof. exact amount_str_canonical. Qed.

(** ** Percent-encoding with the regenerated QCHAR_ENCODE set *)
Theorem C12_pct_roundtrip : forall bs, Forall byte bs -> pct_decode (pct_encode bs) = bs.
Proof. exact pct_roundtrip. Qed.
Theorem C12_pct_encode_qchars : forall bs, Forall byte bs -> forallb is_qchar (pct_encode bs) = true.
Proof. exact pct_encode_qchars. Qed.
Theorem C12_qchar_not_delim : forall c, is_qchar c = true -> c <> 38 /\ c <> 61 /\ c <> 63 /\ c <> 35.
Proof. exact qchar_not_delim. Qed.
Theorem C12_decode_str_reencode : forall v s, decode_str v = Some s -> decode_str (pct_encode s) = Some s.
Proof. exact decode_str_reencode. Qed.

(** ** Memos: base64url without padding, MemoBytes padding rule *)
Theorem C12_b64_roundtrip : forall bs, Forall byte bs -> b64_decode (b64_encode bs) = Some bs.
Proof. exact b64_roundtrip. Qed.
Theorem C12_b64_decode_canonical : forall s bs, b64_decode s = Some bs -> s = b64_encode bs.
Proof. exact b64_decode_canonical. Qed.
Theorem C12_memo_roundtrip : forall m, length m = 512%nat -> Forall byte m ->
  memo_from_base64 (memo_to_base64 m) = Ok m.
Proof. exact memo_roundtrip. Qed.
Theorem C12_memo_roundtrip_short : forall b, (length b <= 512)%nat -> Forall byte b ->
  exists m, memo_from_bytes b = Some m /\ memo_from_base64 (memo_to_base64 m) = Ok m /\ firstn (length b) m = b.
Proof. exact memo_roundtrip_short. Qed.
Theorem C12_memo_from_base64_ok : forall s m, memo_from_base64 s = Ok m -> length m = 512%nat /\ Forall byte m.
Proof. exact memo_from_base64_ok. Qed.

(** ** Requests: rendering then parsing is the identity on valid requests.
    [wf_requestb] = the Rust type invariants (Zatoshis range, 512-byte memos, UTF-8 strings, strictly
    increasing map keys); [validb] = the ZIP 321 rules, one conjunct each (index <= 9999, memo only
    to memo-capable recipients, no zero-valued transparent output, additional-parameter names in the
    grammar, not reserved / not [req-], no duplicates).  The address oracle enters through the three
    hypotheses. *)
Theorem C12_request_roundtrip :
  forall (addr : Type) (addr_dec : bytes -> option addr) (addr_enc : addr -> bytes)
         (can_memo t_only : addr -> bool),
    (forall a, addr_dec (addr_enc a) = Some a) ->
    (forall a, addr_enc a <> []) ->
    (forall a, forallb is_alnum (addr_enc a) = true) ->
    forall r : request addr,
      wf_requestb addr r = true /\ validb addr can_memo t_only r = true ->
      from_uri addr addr_dec can_memo t_only (to_uri addr addr_enc r) = Ok r.
Proof. exact request_roundtrip_g. Qed.

(** ** Only valid requests parse: an accepted URI yields a request that satisfies the type
    invariants and every ZIP 321 rule ([validb] = index <= 9999 /\ per payment: memo rule, zero-valued
    transparent rule, additional-parameter names in the grammar and not reserved / [req-], no duplicate).
    No hypothesis on the address oracle is needed. *)
Theorem C12_accepted_is_valid :
  forall (addr : Type) (addr_dec : bytes -> option addr) (can_memo t_only : addr -> bool) (uri : bytes) (r : request addr),
    from_uri addr addr_dec can_memo t_only uri = Ok r ->
    wf_requestb addr r = true /\ validb addr can_memo t_only r = true.
Proof. exact accepted_is_valid. Qed.

(** Surface rules, stated on the URI text with Spec-level string functions only (no parser): in an
    accepted URI every index suffix is 1..9999 without leading zero and no parameter name starts with
    "req-" ([uri_rules_ok]); and the request has exactly one field per URI parameter
    ([uri_param_count] = number of '&'-separated parameters plus the lead address; [count_fields] =
    per payment 1 + amount + memo + label + message + additional parameters).  Together with
    [C12_accepted_is_valid] (distinct names, one recipient per payment by construction) this says that
    no parameter was dropped: no duplicate (name, index) was swallowed and every index that occurs has
    its recipient. *)
Theorem C12_accepted_surface :
  forall (addr : Type) (addr_dec : bytes -> option addr) (can_memo t_only : addr -> bool) (uri : bytes) (r : request addr),
    from_uri addr addr_dec can_memo t_only uri = Ok r ->
    uri_rules_ok uri = true /\ uri_param_count uri = count_fields addr r.
Proof. exact accepted_surface. Qed.

(** ... and re-renders to a URI that parses to the same request. *)
Theorem C12_accepted_rerender :
  forall (addr : Type) (addr_dec : bytes -> option addr) (addr_enc : addr -> bytes) (can_memo t_only : addr -> bool),
    (forall a, addr_dec (addr_enc a) = Some a) ->
    (forall a, addr_enc a <> []) ->
    (forall a, forallb is_alnum (addr_enc a) = true) ->
    forall (uri : bytes) (r : request addr),
      from_uri addr addr_dec can_memo t_only uri = Ok r ->
      from_uri addr addr_dec can_memo t_only (to_uri addr addr_enc r) = Ok r.
Proof. exact accepted_rerender_g. Qed.

(** A well-formed request survives the round trip exactly when it is valid. *)
Theorem C12_roundtrip_iff_valid :
  forall (addr : Type) (addr_dec : bytes -> option addr) (addr_enc : addr -> bytes) (can_memo t_only : addr -> bool),
    (forall a, addr_dec (addr_enc a) = Some a) ->
    (forall a, addr_enc a <> []) ->
    (forall a, forallb is_alnum (addr_enc a) = true) ->
    forall r : request addr, wf_requestb addr r = true ->
      (from_uri addr addr_dec can_memo t_only (to_uri addr addr_enc r) = Ok r <-> validb addr can_memo t_only r = true).
Proof. exact roundtrip_iff_valid_g. Qed.

(** The exclusion in [validb] is necessary: with a reserved or indexed additional-parameter name every
    other rule holds, the rendering parses, and the result is a different request. *)
Theorem C12_reserved_name_breaks_roundtrip :
  let r := [(0, mkPayment tt (Some COIN) None None None [(s_label, [120])])] in
  wf_requestb unit r = true /\ index_rule unit r = true /\
  forallb (fun ip => memo_rule unit u_true (snd ip) && zero_transparent_rule unit u_false (snd ip)
                     && no_duplicate_rule unit (snd ip)) r = true /\
  u_from_uri (u_to_uri r) = Ok [(0, mkPayment tt (Some COIN) None (Some [120]) None [])].
Proof. exact reserved_name_breaks_roundtrip. Qed.
Theorem C12_indexed_name_breaks_roundtrip :
  let r := [(0, mkPayment tt None None None None [([97; 46; 49], [120])]); (1, mkPayment tt None None None None [])] in
  wf_requestb unit r = true /\
  u_from_uri (u_to_uri r) = Ok [(0, mkPayment tt None None None None []); (1, mkPayment tt None None None None [([97], [120])])].
Proof. exact indexed_name_breaks_roundtrip. Qed.

(** The same with the oracle hypotheses only for the addresses that occur: [addr_ok a] = the decoder
    inverts the encoder on [a] and [encode a] is non-empty alphanumeric. *)
Theorem C12_request_roundtrip_local :
  forall (addr : Type) (addr_dec : bytes -> option addr) (addr_enc : addr -> bytes) (can_memo t_only : addr -> bool)
         (r : request addr),
    wf_requestb addr r = true /\ validb addr can_memo t_only r = true ->
    Forall (fun ip => addr_ok addr addr_dec addr_enc (p_addr (snd ip))) r ->
    from_uri addr addr_dec can_memo t_only (to_uri addr addr_enc r) = Ok r.
Proof. exact request_roundtrip. Qed.

(** The complete outcome of parsing a rendering, for any well-formed request whose indices are <= 9999
    and whose additional-parameter names are in the grammar and none of the five defined names: a [req-]
    name makes the parse fail, otherwise the first payment with a duplicate name is reported, otherwise the
    first payment (in index order) breaking the zero-valued-transparent or memo rule, otherwise the request. *)
Theorem C12_from_uri_to_uri :
  forall (addr : Type) (addr_dec : bytes -> option addr) (addr_enc : addr -> bytes) (can_memo t_only : addr -> bool)
         (r : request addr),
    pre_request addr addr_dec addr_enc r ->
    from_uri addr addr_dec can_memo t_only (to_uri addr addr_enc r) = render_outcome addr can_memo t_only r.
Proof. exact from_uri_to_uri. Qed.

(** Every address of an accepted request was produced by the address decoder. *)
Theorem C12_accepted_addrs :
  forall (addr : Type) (addr_dec : bytes -> option addr) (can_memo t_only : addr -> bool) (uri : bytes) (r : request addr),
    from_uri addr addr_dec can_memo t_only uri = Ok r ->
    Forall (fun ip => exists s, addr_dec s = Some (p_addr (snd ip))) r.
Proof. exact accepted_addrs. Qed.

(** ** The constructors *)
(** [TransactionRequest::new] accepts exactly the valid requests and returns them unchanged. *)
Theorem C12_request_new_ok :
  forall (addr : Type) (addr_dec : bytes -> option addr) (addr_enc : addr -> bytes) (can_memo t_only : addr -> bool),
    (forall a, addr_dec (addr_enc a) = Some a) ->
    (forall a, addr_enc a <> []) ->
    (forall a, forallb is_alnum (addr_enc a) = true) ->
    forall (ps : list (payment addr)) (r : request addr), forallb (wf_paymentb addr) ps = true ->
      (request_new addr addr_dec addr_enc can_memo t_only ps = Ok r <->
       r = enumerate_from addr 0 ps /\ Z.of_nat (length ps) <= 9999 /\ validb addr can_memo t_only r = true).
Proof. exact request_new_ok_g. Qed.
Theorem C12_request_new_too_many :
  forall (addr : Type) (addr_dec : bytes -> option addr) (addr_enc : addr -> bytes) (can_memo t_only : addr -> bool)
         (ps : list (payment addr)) (n : Z),
    request_new addr addr_dec addr_enc can_memo t_only ps = Err (ETooMany n) <->
    9999 < Z.of_nat (length ps) /\ n = Z.of_nat (length ps).
Proof. exact request_new_too_many. Qed.
(** [Payment::new]: memo to a recipient that cannot receive one refused, then zero-valued transparent. *)
Theorem C12_payment_new_spec :
  forall (addr : Type) (can_memo t_only : addr -> bool) a am me la ms ot,
    payment_new addr can_memo t_only a am me la ms ot =
    let p := mkPayment a am me la ms ot in
    if negb (memo_rule addr can_memo p) then Err PTransparentMemo
    else if negb (zero_transparent_rule addr t_only p) then Err PZeroTransparent
    else Ok p.
Proof. exact payment_new_spec. Qed.
(** [from_indexed] checks that every index is <= 9999 - and nothing else (see the witnesses below). *)
Theorem C12_from_indexed_ok :
  forall (addr : Type) (r r' : request addr), from_indexed addr r = Ok r' <-> r' = r /\ index_rule addr r = true.
Proof. exact from_indexed_ok. Qed.
Theorem C12_from_indexed_err :
  forall (addr : Type) (r : request addr) e, from_indexed addr r = Err e ->
    exists k, e = ETooMany k /\ In k (map fst r) /\ 9999 < k.
Proof. exact from_indexed_err. Qed.
Theorem C12_from_indexed_unchecked :
  let r := [(0, mkPayment tt (Some COIN) None None None [(s_label, [120])])] in
  from_indexed unit r = Ok r /\ validb unit u_true u_false r = false.
Proof. exact from_indexed_unchecked. Qed.
(** [total] = sum of the amounts if all are present; failure exactly when the exact sum of the leading
    present amounts exceeds MAX_MONEY. *)
Theorem C12_total_eq_spec :
  forall (addr : Type) (r : request addr), wf_requestb addr r = true -> total addr r = total_spec addr r.
Proof. exact total_eq_spec. Qed.

(** The repaired [TransactionRequest::new] refuses both witnesses and accepts the valid variant. *)
Theorem C12_new_refuses_reserved_names :
  request_new unit u_dec u_enc u_true u_false [mkPayment tt (Some COIN) None None None [(s_label, [120])]] = Err EParse /\
  request_new unit u_dec u_enc u_true u_false
    [mkPayment tt None None None None [([97; 46; 49], [120])]; mkPayment tt None None None None []] = Err EParse /\
  request_new unit u_dec u_enc u_true u_false [mkPayment tt (Some COIN) None (Some [120]) None [([97], [120])]]
    = Ok [(0, mkPayment tt (Some COIN) None (Some [120]) None [([97], [120])])].
Proof. exact new_refuses_reserved_names. Qed.

(** ** No input string makes the parser panic *)
Theorem C12_from_uri_total :
  forall (addr : Type) (addr_dec : bytes -> option addr) (can_memo t_only : addr -> bool) (uri : bytes),
    from_uri addr addr_dec can_memo t_only uri <> Panic.
Proof. exact from_uri_total. Qed.

(** ** The address oracle discharged with the C10 model of zcash_address's string codec.
    Concrete instance: addresses are C10 address values ([M10.addr]), [c_dec] = C10 [parse_address] after
    UTF-8 decoding of the byte string to code points, [c_enc] = C10 [encode_address] (ASCII).  [H], [G] are
    the F4Jumble hash functions (any byte-valued functions, as in C10).  [can_memo] / [t_only] stay
    arbitrary.  [caddr_ok a] = well-formed (ZIP 316 for unified addresses) /\ network normalised
    ([norm_addr a = a]: a Regtest Sprout/P2PKH/P2SH value is written as Test, whose strings it shares)
    /\ it encodes ([encode_address a = Ok s]; fails only for oversized unified addresses, C10's known
    finding) /\ for the Base58Check kinds the string is not by accident a valid Bech32(m) string. *)
Theorem C12_concrete_addr_ok :
  forall H G, (forall i l x, V.Lib.Hex.is_bytes (H i l x) = true) -> (forall i j x, V.Lib.Hex.is_bytes (G i j x) = true) ->
  forall a, caddr_ok H G a -> addr_ok M10.addr (c_dec H G) (c_enc H G) a.
Proof. exact caddr_addr_ok. Qed.
(** Every address the concrete decoder returns satisfies the oracle hypothesis - no guard. *)
Theorem C12_concrete_decoded_addr_ok :
  forall H G, (forall i l x, V.Lib.Hex.is_bytes (H i l x) = true) -> (forall i j x, V.Lib.Hex.is_bytes (G i j x) = true) ->
  forall a, decoded M10.addr (c_dec H G) a -> addr_ok M10.addr (c_dec H G) (c_enc H G) a.
Proof. exact decoded_addr_ok. Qed.
Theorem C12_request_roundtrip_concrete :
  forall H G, (forall i l x, V.Lib.Hex.is_bytes (H i l x) = true) -> (forall i j x, V.Lib.Hex.is_bytes (G i j x) = true) ->
  forall (can_memo t_only : M10.addr -> bool) (r : request M10.addr),
    wf_requestb M10.addr r = true /\ validb M10.addr can_memo t_only r = true ->
    Forall (fun ip => caddr_ok H G (p_addr (snd ip))) r ->
    from_uri M10.addr (c_dec H G) can_memo t_only (to_uri M10.addr (c_enc H G) r) = Ok r.
Proof. exact request_roundtrip_concrete. Qed.
(** No oracle hypothesis and no guard at all: an accepted URI re-renders to a URI that parses to the same request. *)
Theorem C12_accepted_rerender_concrete :
  forall H G, (forall i l x, V.Lib.Hex.is_bytes (H i l x) = true) -> (forall i j x, V.Lib.Hex.is_bytes (G i j x) = true) ->
  forall (can_memo t_only : M10.addr -> bool) (uri : bytes) (r : request M10.addr),
    from_uri M10.addr (c_dec H G) can_memo t_only uri = Ok r ->
    from_uri M10.addr (c_dec H G) can_memo t_only (to_uri M10.addr (c_enc H G) r) = Ok r.
Proof. exact accepted_rerender_concrete. Qed.
Theorem C12_request_new_ok_concrete :
  forall H G, (forall i l x, V.Lib.Hex.is_bytes (H i l x) = true) -> (forall i j x, V.Lib.Hex.is_bytes (G i j x) = true) ->
  forall (can_memo t_only : M10.addr -> bool) ps (r : request M10.addr),
    forallb (wf_paymentb M10.addr) ps = true -> Forall (fun p => caddr_ok H G (p_addr p)) ps ->
    (request_new M10.addr (c_dec H G) (c_enc H G) can_memo t_only ps = Ok r <->
     r = enumerate_from M10.addr 0 ps /\ Z.of_nat (length ps) <= 9999 /\ validb M10.addr can_memo t_only r = true).
Proof. exact request_new_ok_concrete. Qed.
(** the guards are satisfiable (a Sapling and a P2PKH value) *)
Theorem C12_concrete_nonvacuous :
  caddr_ok H0 G0 (M10.ARaw M10.Main M10.Sapling (repeat 0%N 43)) /\
  caddr_ok H0 G0 (M10.ARaw M10.Main M10.P2pkh (repeat 0%N 20)).
Proof. exact caddr_ok_nonvacuous. Qed.

(** ** The recipient predicates computed by the model ([shape_memo] / [shape_tonly] of Spec.v: from the
    address kind and, for a unified address, the typecodes of its receivers; unknown typecodes are neither
    shielded nor transparent).  [c_can_memo] / [c_t_only] are these functions on C10 address values; the
    harness compares them with the real [can_receive_memo] / [is_transparent_only] on every pooled
    address (case kind AddrFlags) and never ships the implementation's answers to the model. *)
Theorem C12_unknown_receivers_not_shielded : forall tcs,
  existsb transparent_tc tcs = true -> forallb (fun tc => negb (shielded_tc tc)) tcs = true ->
  shape_tonly (SUnified tcs) = true /\ shape_memo (SUnified tcs) = false.
Proof. exact unknown_receivers_not_shielded. Qed.
(** acceptance conditions: no accepted payment carries a memo to a recipient that cannot receive one, and
    none is a zero-valued output to a transparent-only recipient *)
Theorem C12_concrete_acceptance : forall H G uri (r : request M10.addr),
  from_uri M10.addr (c_dec H G) c_can_memo c_t_only uri = Ok r ->
  Forall (fun ip => let p := snd ip in
                    (p_memo p <> None -> c_can_memo (p_addr p) = true) /\
                    ~ (c_t_only (p_addr p) = true /\ p_amount p = Some 0)) r.
Proof. exact concrete_acceptance. Qed.
Theorem C12_payment_new_zero_unknown_ua : forall n items la ms ot,
  existsb transparent_tc (map (fun it => Z.of_N (fst it)) items) = true ->
  forallb (fun tc => negb (shielded_tc tc)) (map (fun it => Z.of_N (fst it)) items) = true ->
  payment_new M10.addr c_can_memo c_t_only (M10.AUni n items) (Some 0) None la ms ot = Err PZeroTransparent.
Proof. exact payment_new_zero_unknown_ua. Qed.

(** Valid Base58Check strings with a 0- or 1-byte payload are refused by the concrete decoder. *)
Theorem C12_short_base58_rejected :
  c_dec H0 G0 (n2z (Hex.str "3QJmnh"%string)) = None /\ c_dec H0 G0 (n2z (Hex.str "4CyUtqx"%string)) = None /\
  c_dec H0 G0 (n2z (Hex.str "1Wh4bh"%string)) = None /\
  M10.b58check_decode (Hex.str "3QJmnh"%string) = Some [] /\ M10.b58check_decode (Hex.str "4CyUtqx"%string) = Some [28%N].
Proof. exact short_base58_rejected. Qed.

(** ** Bridge: on every well-formed case (table entries satisfy the oracle hypotheses, requests satisfy the
    type invariants), agreement of the implementation with the model implies the property on the
    implementation's outcome - for all ten case constructors. *)
Theorem C12_agree_implies_property : forall c,
  wf_case c = true -> known_class c = 0%N -> run_case c = true -> prop_case c = true.
Proof. exact agree_implies_property. Qed.

(** Non-vacuity: the hypotheses of the round-trip theorem are satisfiable (one-address oracle), on a
    request that uses every field, an index above zero, the extreme amount and a multi-byte label. *)
Example C12_nonvacuous :
  let m := 246 :: repeat 0 511 in
  let r := [(0, mkPayment tt (Some MAX_MONEY) (Some m) (Some [195; 169; 38]) (Some []) [([120; 45; 49], [61])]);
            (9999, mkPayment tt (Some 1) None None None [])] in
  (forall a, u_dec (u_enc a) = Some a) /\ wf_requestb unit r = true /\ validb unit u_true u_false r = true /\
  u_from_uri (u_to_uri r) = Ok r.
Proof. split; [intros []; reflexivity | vm_compute; repeat split]. Qed.
