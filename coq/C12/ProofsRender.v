(** C12 — rendering then parsing: [from_uri (to_uri r) = Ok r] for every valid request. *)
From V.Lib Require Import Base MachInt.
From V.Gen Require Import C12Consts.
From V.C12 Require Import Model Spec ProofsPct ProofsB64 ProofsAmount.
From Coq Require Import ZifyBool.
Local Open Scope Z_scope.

(** ** small facts about the fixed strings and character classes *)
Lemma bytes_eqb_eq a b : bytes_eqb a b = true <-> a = b.
Proof. unfold bytes_eqb. apply list_eqb_spec. intros x y. apply Z.eqb_eq. Qed.
Lemma bytes_eqb_refl a : bytes_eqb a a = true.
Proof. apply bytes_eqb_eq. reflexivity. Qed.
Lemma bytes_eqb_neq a b : a <> b -> bytes_eqb a b = false.
Proof. intros H. destruct (bytes_eqb a b) eqn:E; [apply bytes_eqb_eq in E; contradiction | reflexivity]. Qed.
Lemma bytes_eqb_sym a b : bytes_eqb a b = bytes_eqb b a.
Proof.
  destruct (bytes_eqb a b) eqn:E.
  - apply bytes_eqb_eq in E. subst. symmetry. apply bytes_eqb_refl.
  - symmetry. apply bytes_eqb_neq. intros ->. rewrite bytes_eqb_refl in E. discriminate.
Qed.

Lemma is_alpha_namechar c : is_alpha c = true -> is_namechar c = true.
Proof. unfold is_namechar, is_alnum. intros ->. reflexivity. Qed.
Lemma not_qchar_38 : is_qchar 38 = false. Proof. vm_compute. reflexivity. Qed.
Lemma not_namechar_46 : is_namechar 46 = false. Proof. vm_compute. reflexivity. Qed.
Lemma not_namechar_61 : is_namechar 61 = false. Proof. vm_compute. reflexivity. Qed.
Lemma alnum_qchar c : is_alnum c = true -> is_qchar c = true.
Proof. unfold is_qchar. intros ->. reflexivity. Qed.
Lemma alnum_not_63 c : is_alnum c = true -> negb (c =? 63) = true.
Proof. intros H. unfold is_alnum, is_alpha, is_upper, is_lower, is_digit in H. lia. Qed.

Lemma strip_prefix_app p l : strip_prefix p (p ++ l) = Some l.
Proof. induction p as [|a p IH]; [reflexivity|]. cbn [app strip_prefix]. rewrite Z.eqb_refl. exact IH. Qed.

Lemma forallb_impl {A} (f g : A -> bool) l : (forall x, f x = true -> g x = true) -> forallb f l = true -> forallb g l = true.
Proof. rewrite !forallb_forall. auto. Qed.

(** ** indexed_name on a rendered name *)
Definition idx_ok (idx : option Z) : Prop := match idx with None => True | Some i => 0 < i <= 9999 end.
Definition iopt_of (idx : option Z) : option bytes := match idx with None => None | Some i => Some (dec_str i) end.

Lemma param_index_pos i : 0 < i -> param_index (Some i) = 46 :: dec_str i.
Proof. intros H. unfold param_index. destruct (0 <? i) eqn:E; [reflexivity | lia]. Qed.

Lemma valid_name_split name : valid_nameb name = true ->
  exists a n, span is_alpha name = (a, n) /\ name = a ++ n /\ a <> [] /\ forallb is_alpha a = true
              /\ forallb is_namechar n = true /\ stops is_alpha n.
Proof.
  intros V. destruct name as [|c t]; [discriminate|]. cbn [valid_nameb] in V.
  apply andb_true_iff in V. destruct V as [Vc Vt].
  destruct (span is_alpha (c :: t)) as [a n] eqn:S. destruct (span_spec _ _ _ _ S) as (E & Da & Sn).
  exists a, n. repeat split; auto.
  - cbn [span] in S. rewrite Vc in S. destruct (span is_alpha t). injection S as <- _. discriminate.
  - assert (F : forallb is_namechar (c :: t) = true) by (cbn [forallb]; rewrite (is_alpha_namechar _ Vc), Vt; reflexivity).
    rewrite E, forallb_app in F. apply andb_true_iff in F. tauto.
Qed.

Lemma indexed_name_render name idx rest : valid_nameb name = true -> idx_ok idx ->
  indexed_name (name ++ param_index idx ++ 61 :: rest) = Some (name, iopt_of idx, 61 :: rest).
Proof.
  intros V I. destruct (valid_name_split name V) as (a & n & S & E & Na & Da & Dn & Sn).
  unfold indexed_name.
  assert (X : exists x X', param_index idx ++ 61 :: rest = x :: X' /\ is_namechar x = false /\ is_alpha x = false).
  { destruct idx as [i|]; cbn [idx_ok] in I.
    - rewrite param_index_pos by lia. exists 46, (dec_str i ++ 61 :: rest). repeat split.
    - exists 61, rest. repeat split. }
  destruct X as (x & X' & EX & NX & AX).
  rewrite E, <- app_assoc.
  rewrite (span_app is_alpha a (n ++ param_index idx ++ 61 :: rest) Da).
  2:{ destruct n as [|y n']; [cbn [app]; rewrite EX; exact AX | exact Sn]. }
  rewrite (is_nil_false a Na).
  rewrite (span_app is_namechar n (param_index idx ++ 61 :: rest) Dn) by (rewrite EX; exact NX).
  destruct idx as [i|]; cbn [idx_ok iopt_of] in *.
  - rewrite param_index_pos by lia.
    destruct (dec_str_index_shape i I) as (d & ds & Ed & Nd & Dd & Ld). rewrite Ed. cbn [app].
    rewrite Z.eqb_refl, Nd. cbn [andb].
    rewrite (span_app is_digit ds (61 :: rest) Dd) by reflexivity.
    destruct (3 <? length ds)%nat eqn:E3; [apply Nat.ltb_lt in E3; lia | reflexivity].
  - cbn [param_index app]. destruct rest as [|y rest']; [reflexivity|].
    change (61 =? 46) with false. reflexivity.
Qed.

Section WithAddresses.
  Variable addr : Type.
  Variable addr_dec : bytes -> option addr.
  Variable addr_enc : addr -> bytes.
  Variable can_memo : addr -> bool.
  Variable t_only : addr -> bool.

  Notation payment := (payment addr).
  Notation request := (request addr).
  Notation param := (param addr).
  Notation zcashparam := (zcashparam addr addr_dec).
  Notation to_indexed_param := (to_indexed_param addr addr_dec).
  Notation from_uri := (from_uri addr addr_dec can_memo t_only).
  Notation to_uri := (to_uri addr addr_enc).
  Notation wf_paymentb := (wf_paymentb addr).
  Notation valid_paymentb := (valid_paymentb addr can_memo t_only).

  (** What the theorems need of the address oracle, per address: the decoder inverts the encoder on
      it, and its encoding is non-empty and alphanumeric. *)
  Definition addr_ok (a : addr) : Prop :=
    addr_dec (addr_enc a) = Some a /\ addr_enc a <> [] /\ forallb is_alnum (addr_enc a) = true.
  Definition addrs_ok (r : request) : Prop := Forall (fun ip => addr_ok (p_addr (snd ip))) r.

  (** [prenders s o]: the string [s], followed by anything that cannot continue a value, parses as
      the one parameter [ip] ([o = Some ip]) or is refused by [zcashparam] ([o = None]). *)
  Definition prenders (s : bytes) (o : option (param * Z)) : Prop :=
    s <> [] /\
    forall rest, stops is_qchar rest ->
      zcashparam (s ++ rest) = match o with Some ip => Some (ip, rest) | None => None end.
  Definition renders (s : bytes) (ip : param * Z) : Prop := prenders s (Some ip).

  Definition idx_val (idx : option Z) : Z := match idx with Some i => i | None => 0 end.

  Lemma zcashparam_prender name idx value op :
    valid_nameb name = true -> idx_ok idx -> forallb is_qchar value = true ->
    (forall iopt, to_indexed_param name iopt value =
                  match op with
                  | None => None
                  | Some p => match iopt with
                              | Some istr => match parse_u64 istr with Some i => Some (p, i) | None => None end
                              | None => Some (p, 0)
                              end
                  end) ->
    prenders (name ++ param_index idx ++ [61] ++ value) (option_map (fun p => (p, idx_val idx)) op).
  Proof.
    intros V I Q T. split; [destruct name; [discriminate | discriminate]|].
    intros rest Sr. unfold Model.zcashparam.
    replace ((name ++ param_index idx ++ [61] ++ value) ++ rest)
      with (name ++ param_index idx ++ 61 :: (value ++ rest)) by (rewrite <- !app_assoc; reflexivity).
    rewrite indexed_name_render by assumption. rewrite Z.eqb_refl.
    rewrite (span_app is_qchar value rest Q Sr). rewrite T.
    destruct op as [p|]; [|reflexivity]. cbn [option_map].
    destruct idx as [i|]; cbn [iopt_of idx_val idx_ok] in *; [|reflexivity].
    rewrite parse_u64_dec_str by (unfold u64_max; lia). reflexivity.
  Qed.
  Lemma zcashparam_render name idx value p :
    valid_nameb name = true -> idx_ok idx -> forallb is_qchar value = true ->
    (forall iopt, to_indexed_param name iopt value =
                  match iopt with
                  | Some istr => match parse_u64 istr with Some i => Some (p, i) | None => None end
                  | None => Some (p, 0)
                  end) ->
    renders (name ++ param_index idx ++ [61] ++ value) (p, idx_val idx).
  Proof. intros V I Q T. apply (zcashparam_prender name idx value (Some p) V I Q T). Qed.

  Lemma renders_addr a idx : addr_ok a -> idx_ok idx -> renders (addr_param addr addr_enc a idx) (PAddr a, idx_val idx).
  Proof.
    intros (RT & _ & AN) I. unfold addr_param. apply zcashparam_render; [reflexivity | exact I | |].
    - eapply forallb_impl; [apply alnum_qchar | exact AN].
    - intros iopt. unfold Model.to_indexed_param. change (bytes_eqb s_address s_address) with true. cbv iota.
      rewrite RT. reflexivity.
  Qed.
  Lemma renders_amount z idx : idx_ok idx -> 0 <= z <= MAX_MONEY -> renders (amount_param z idx) (PAmount z, idx_val idx).
  Proof.
    intros I Hz. unfold amount_param. apply zcashparam_render; [reflexivity | exact I | apply amount_str_qchars; exact Hz |].
    intros iopt. unfold Model.to_indexed_param. change (bytes_eqb s_amount s_address) with false.
    change (bytes_eqb s_amount s_amount) with true. cbv iota. rewrite amount_roundtrip by exact Hz. reflexivity.
  Qed.
  Lemma renders_memo m idx : idx_ok idx -> length m = 512%nat -> Forall byte m -> renders (memo_param m idx) (PMemo m, idx_val idx).
  Proof.
    intros I L F. unfold memo_param. apply zcashparam_render; [reflexivity | exact I | apply memo_to_base64_qchars; exact F |].
    intros iopt. unfold Model.to_indexed_param. change (bytes_eqb s_memo s_address) with false.
    change (bytes_eqb s_memo s_amount) with false. change (bytes_eqb s_memo s_label) with false.
    change (bytes_eqb s_memo s_message) with false. change (bytes_eqb s_memo s_memo) with true. cbv iota.
    rewrite memo_roundtrip by assumption. reflexivity.
  Qed.
  Lemma renders_label s idx : idx_ok idx -> utf8_valid s = true -> renders (str_param s_label s idx) (PLabel s, idx_val idx).
  Proof.
    intros I U. unfold str_param. apply zcashparam_render; [reflexivity | exact I | apply pct_encode_qchars, utf8_valid_bytes, U |].
    intros iopt. unfold Model.to_indexed_param. change (bytes_eqb s_label s_address) with false.
    change (bytes_eqb s_label s_amount) with false. change (bytes_eqb s_label s_label) with true. cbv iota.
    rewrite decode_str_pct_encode by exact U. reflexivity.
  Qed.
  Lemma renders_message s idx : idx_ok idx -> utf8_valid s = true -> renders (str_param s_message s idx) (PMessage s, idx_val idx).
  Proof.
    intros I U. unfold str_param. apply zcashparam_render; [reflexivity | exact I | apply pct_encode_qchars, utf8_valid_bytes, U |].
    intros iopt. unfold Model.to_indexed_param. change (bytes_eqb s_message s_address) with false.
    change (bytes_eqb s_message s_amount) with false. change (bytes_eqb s_message s_label) with false.
    change (bytes_eqb s_message s_message) with true. cbv iota.
    rewrite decode_str_pct_encode by exact U. reflexivity.
  Qed.

  (** additional parameters: the name is in the grammar and is none of the five defined names
      ([five_free]); a [req-] name is then refused by the parser, any other is read back *)
  Definition five_free (n : bytes) : bool := negb (existsb (bytes_eqb n) reserved_names).
  Lemma five_free_false n : five_free n = true ->
    bytes_eqb n s_address = false /\ bytes_eqb n s_amount = false /\ bytes_eqb n s_memo = false /\
    bytes_eqb n s_label = false /\ bytes_eqb n s_message = false.
  Proof.
    unfold five_free, reserved_names. cbn [existsb]. intros H. apply negb_true_iff in H.
    repeat match goal with H : _ || _ = false |- _ => apply orb_false_iff in H; destruct H end. repeat split; assumption.
  Qed.
  Lemma reservedb_split n : reservedb n = negb (five_free n) || starts_with s_req n.
  Proof. unfold reservedb, five_free. rewrite negb_involutive. reflexivity. Qed.

  Definition oother (idx : option Z) (nv : bytes * bytes) : option (param * Z) :=
    if starts_with s_req (fst nv) then None else Some (POther (fst nv) (snd nv), idx_val idx).

  Lemma prenders_other n v idx : idx_ok idx -> valid_nameb n = true -> five_free n = true -> utf8_valid v = true ->
    prenders (str_param n v idx) (oother idx (n, v)).
  Proof.
    intros I V R U. unfold str_param, oother. cbn [fst snd].
    replace (if starts_with s_req n then None else Some (POther n v, idx_val idx))
      with (option_map (fun p : param => (p, idx_val idx)) (if starts_with s_req n then None else Some (POther n v)))
      by (destruct (starts_with s_req n); reflexivity).
    apply zcashparam_prender; [exact V | exact I | apply pct_encode_qchars, utf8_valid_bytes, U |].
    intros iopt. unfold Model.to_indexed_param.
    destruct (five_free_false n R) as (A & B & C & D & E). rewrite A, B, C, D, E.
    destruct (starts_with s_req n); [reflexivity|].
    rewrite decode_str_pct_encode by exact U. reflexivity.
  Qed.

  (** ** the parameters a payment stands for *)
  Definition fixed_params (p : payment) : list param :=
    opt_list (option_map PAmount (p_amount p)) ++ opt_list (option_map PMemo (p_memo p))
    ++ opt_list (option_map PLabel (p_label p)) ++ opt_list (option_map PMessage (p_message p)).
  Definition params_of (p : payment) : list param :=
    PAddr (p_addr p) :: opt_list (option_map PAmount (p_amount p)) ++ opt_list (option_map PMemo (p_memo p))
    ++ opt_list (option_map PLabel (p_label p)) ++ opt_list (option_map PMessage (p_message p))
    ++ map (fun nv => POther (fst nv) (snd nv)) (p_other p).
  Lemma params_of_fixed p : tl (params_of p) = fixed_params p ++ map (fun nv => POther (fst nv) (snd nv)) (p_other p).
  Proof. unfold params_of, fixed_params. cbn [tl]. rewrite <- !app_assoc. reflexivity. Qed.

  (** names of the additional parameters: grammar + none of the five defined names *)
  Definition names_pre (p : payment) : bool :=
    forallb (fun nv => valid_nameb (fst nv) && five_free (fst nv)) (p_other p).
  Definition no_req (p : payment) : bool := forallb (fun nv => negb (starts_with s_req (fst nv))) (p_other p).
  Lemma other_names_rule_split p : other_names_rule addr p = names_pre p && no_req p.
  Proof.
    unfold other_names_rule, names_pre, no_req. induction (p_other p) as [|[n v] l IH]; [reflexivity|].
    cbn [forallb fst]. rewrite IH, reservedb_split, negb_orb, negb_involutive.
    destruct (valid_nameb n), (five_free n), (starts_with s_req n); cbn; try reflexivity;
      repeat rewrite ?andb_false_r, ?andb_true_r; reflexivity.
  Qed.

  Definition oparams (p : payment) (idx : option Z) : list (option (param * Z)) :=
    map (fun q => Some (q, idx_val idx)) (fixed_params p) ++ map (oother idx) (p_other p).

  Lemma prenders_payment_params p idx : idx_ok idx -> wf_paymentb p = true -> names_pre p = true ->
    Forall2 prenders (payment_params addr p idx) (oparams p idx).
  Proof.
    intros I W NP. unfold wf_paymentb in W.
    repeat (apply andb_true_iff in W; destruct W as [W ?]).
    unfold payment_params, oparams, fixed_params. rewrite !map_app, <- !app_assoc.
    repeat apply Forall2_app.
    - destruct (p_amount p) as [z|]; cbn; [|constructor]. constructor; [|constructor].
      cbn [opt_all] in W. apply renders_amount; [exact I | lia].
    - destruct (p_memo p) as [m|]; cbn; [|constructor]. constructor; [|constructor].
      match goal with H : opt_all _ (Some m) = true |- _ => cbn [opt_all] in H; apply andb_true_iff in H; destruct H as [L B] end.
      apply renders_memo; [exact I | apply Nat.eqb_eq; exact L |].
      unfold bytesb in B. rewrite forallb_forall in B. apply Forall_forall. intros x Hx. specialize (B x Hx).
      unfold byteb in B. unfold byte. lia.
    - destruct (p_label p) as [s|]; cbn; [|constructor]. constructor; [|constructor]. apply renders_label; assumption.
    - destruct (p_message p) as [s|]; cbn; [|constructor]. constructor; [|constructor]. apply renders_message; assumption.
    - unfold names_pre in NP.
      match goal with H : forallb (fun nv => utf8_valid (fst nv) && utf8_valid (snd nv)) _ = true |- _ => rename H into OU end.
      induction (p_other p) as [|[n v] l IH]; cbn [map]; [constructor|].
      cbn [forallb fst snd] in NP, OU. apply andb_true_iff in NP. destruct NP as [N1 NP].
      apply andb_true_iff in OU. destruct OU as [OU1 OU].
      apply andb_true_iff in N1. destruct N1 as [Vn Rn]. apply andb_true_iff in OU1. destruct OU1 as [_ Uv].
      constructor; [|apply IH; assumption].
      apply prenders_other; auto.
  Qed.

  Fixpoint somes {A} (os : list (option A)) : list A :=
    match os with
    | Some x :: r => x :: somes r
    | _ => []
    end.
  Definition all_some {A} (os : list (option A)) : bool := forallb (fun o => match o with Some _ => true | None => false end) os.
  Lemma somes_map_some {A} (l : list A) : somes (map Some l) = l /\ all_some (map Some l) = true.
  Proof. induction l as [|x l [IH1 IH2]]; [split; reflexivity|]. cbn. rewrite IH1. split; [reflexivity | exact IH2]. Qed.

  Lemma oparams_no_req p idx : no_req p = true ->
    oparams p idx = map Some (map (fun q => (q, idx_val idx)) (tl (params_of p))).
  Proof.
    intros NR. unfold oparams. rewrite params_of_fixed, !map_app, !map_map. f_equal.
    unfold no_req in NR. induction (p_other p) as [|[n v] l IH]; [reflexivity|].
    cbn [forallb fst] in NR. apply andb_true_iff in NR. destruct NR as [N1 NR].
    cbn [map]. rewrite (IH NR). unfold oother. cbn [fst snd]. apply negb_true_iff in N1. rewrite N1. reflexivity.
  Qed.
  Lemma oparams_req p idx : no_req p = false -> all_some (oparams p idx) = false.
  Proof.
    intros NR. unfold oparams, all_some. rewrite forallb_app. apply andb_false_iff. right.
    unfold no_req in NR. induction (p_other p) as [|[n v] l IH]; [discriminate|].
    cbn [forallb fst map] in *. unfold oother at 1. cbn [fst].
    destruct (starts_with s_req n); [reflexivity|]. cbn [negb andb] in NR. exact (IH NR).
  Qed.

  (** ** separated_list0 on a rendered list *)
  Definition tl_str (ss : list bytes) : bytes := flat_map (fun s => 38 :: s) ss.
  Lemma join_cons s ss : join 38 (s :: ss) = s ++ tl_str ss.
  Proof.
    revert s. induction ss as [|t ss IH]; intros s; [cbn; rewrite app_nil_r; reflexivity|].
    change (join 38 (s :: t :: ss)) with (s ++ 38 :: join 38 (t :: ss)). rewrite IH. reflexivity.
  Qed.
  Lemma stops_tl_str ss : stops is_qchar (tl_str ss).
  Proof. destruct ss; [exact I | exact not_qchar_38]. Qed.

  Lemma params_tail_prender ss os : Forall2 prenders ss os ->
    forall fuel acc, (length (tl_str ss) <= fuel)%nat ->
      exists rest, params_tail addr addr_dec fuel (tl_str ss) acc = (acc ++ somes os, rest)
                   /\ is_nil rest = all_some os.
  Proof.
    induction 1 as [|s o ss os R _ IH]; intros fuel acc Hf.
    - exists []. rewrite app_nil_r. split; [destruct fuel; reflexivity | reflexivity].
    - cbn [tl_str flat_map] in *. fold (tl_str ss) in *. cbn [length app] in Hf.
      destruct fuel as [|f]; [lia|]. cbn [params_tail app]. rewrite Z.eqb_refl.
      rewrite (proj2 R (tl_str ss) (stops_tl_str ss)). rewrite app_length in Hf.
      destruct o as [ip|].
      + destruct (IH f (acc ++ [ip]) ltac:(lia)) as (rest & E & N). exists rest.
        rewrite E, <- app_assoc. split; [reflexivity | exact N].
      + eexists. split; [cbn [somes]; rewrite app_nil_r; reflexivity | reflexivity].
  Qed.
  Lemma params_list_prender ss os : Forall2 prenders ss os ->
    exists rest, params_list addr addr_dec (join 38 ss) = (somes os, rest) /\ is_nil rest = all_some os.
  Proof.
    intros F. destruct F as [|s o ss os R F]; [exists []; split; reflexivity|].
    rewrite join_cons. unfold params_list. rewrite (proj2 R (tl_str ss) (stops_tl_str ss)).
    destruct o as [ip|].
    - apply (params_tail_prender ss os F). lia.
    - exists (s ++ tl_str ss). split; [reflexivity|].
      destruct R as [N _]. destruct s; [congruence | reflexivity].
  Qed.
  Lemma params_list_render ss ips : Forall2 prenders ss (map Some ips) ->
    params_list addr addr_dec (join 38 ss) = (ips, []).
  Proof.
    intros F. destruct (params_list_prender _ _ F) as (rest & E & N).
    destruct (somes_map_some ips) as [S A]. rewrite S in E. rewrite A in N. destruct rest; [exact E | discriminate].
  Qed.

  (** ** grouping *)
  Definition keys_lt {V} (m : list (Z * V)) (i : Z) : Prop := Forall (fun kv => fst kv < i) m.
  Lemma map_get_lt {V} (m : list (Z * V)) i : keys_lt m i -> map_get i m = None.
  Proof.
    induction 1 as [|[k v] m H _ IH]; [reflexivity|]. cbn [map_get]. cbn [fst] in H.
    destruct (i =? k) eqn:E; [lia | exact IH].
  Qed.
  Lemma map_set_lt {V} (m : list (Z * V)) i v : keys_lt m i -> map_set i v m = m ++ [(i, v)].
  Proof.
    induction 1 as [|[k w] m H _ IH]; [reflexivity|]. cbn [map_set app]. cbn [fst] in H.
    destruct (i <? k) eqn:E; [lia|]. destruct (i =? k) eqn:E2; [lia|]. rewrite IH. reflexivity.
  Qed.
  Lemma map_get_last {V} (m : list (Z * V)) i v : keys_lt m i -> map_get i (m ++ [(i, v)]) = Some v.
  Proof.
    induction 1 as [|[k w] m H _ IH]; [cbn; rewrite Z.eqb_refl; reflexivity|]. cbn [map_get app]. cbn [fst] in H.
    destruct (i =? k) eqn:E; [lia | exact IH].
  Qed.
  Lemma map_set_last {V} (m : list (Z * V)) i v w : keys_lt m i -> map_set i w (m ++ [(i, v)]) = m ++ [(i, w)].
  Proof.
    induction 1 as [|[k u] m H _ IH]; [cbn; rewrite Z.ltb_irrefl, Z.eqb_refl; reflexivity|]. cbn [map_set app]. cbn [fst] in H.
    destruct (i <? k) eqn:E; [lia|]. destruct (i =? k) eqn:E2; [lia|]. rewrite IH. reflexivity.
  Qed.

  (** no parameter duplicates an earlier one *)
  Fixpoint pnodupb (acc qs : list param) : bool :=
    match qs with
    | [] => true
    | q :: r => negb (has_duplicate_param addr acc q) && pnodupb (acc ++ [q]) r
    end.

  (** grouping the parameters of one index: all are appended, unless one duplicates an earlier one *)
  Lemma group_same_index i qs : forall cur m rest, keys_lt m i ->
    group addr (map (fun q => (q, i)) qs ++ rest) (m ++ [(i, cur)])
    = if pnodupb cur qs then group addr rest (m ++ [(i, cur ++ qs)]) else inl i.
  Proof.
    induction qs as [|q qs IH]; intros cur m rest K; [rewrite app_nil_r; reflexivity|].
    cbn [map app group]. rewrite (map_get_last m i cur K). cbn [pnodupb].
    destruct (has_duplicate_param addr cur q); [reflexivity|]. cbn [negb andb].
    rewrite (map_set_last m i cur (cur ++ [q]) K). rewrite (IH (cur ++ [q]) m rest K).
    rewrite <- app_assoc. reflexivity.
  Qed.
  Lemma group_new_index i q qs m rest : keys_lt m i ->
    group addr (map (fun x => (x, i)) (q :: qs) ++ rest) m
    = if pnodupb [q] qs then group addr rest (m ++ [(i, q :: qs)]) else inl i.
  Proof.
    intros K. cbn [map app group]. rewrite (map_get_lt m i K), (map_set_lt m i [q] K).
    apply (group_same_index i qs [q] m rest K).
  Qed.

  (** the parameters of a valid payment contain no duplicate *)
  Lemma existsb_false {A} (f : A -> bool) l : existsb f l = false -> forall x, In x l -> f x = false.
  Proof.
    intros H x Hx. destruct (f x) eqn:E; [|reflexivity].
    assert (existsb f l = true) by (apply existsb_exists; eauto). congruence.
  Qed.
  Lemma pnodup_others others : forall acc,
    (forall nv, In nv others -> Forall (fun p0 => same_kind addr p0 (POther (fst nv) (snd nv)) = false) acc) ->
    nodupb (map fst others) = true ->
    pnodupb acc (map (fun nv => POther (fst nv) (snd nv)) others) = true.
  Proof.
    induction others as [|[n v] l IH]; intros acc HA ND; [reflexivity|].
    cbn [map pnodupb fst snd]. cbn [map nodupb fst] in ND. apply andb_true_iff in ND. destruct ND as [ND1 ND2].
    apply negb_true_iff in ND1.
    apply andb_true_iff. split.
    - unfold has_duplicate_param. specialize (HA (n, v) (or_introl eq_refl)). cbn [fst snd] in HA.
      induction HA as [|p0 acc' H0 _ IHA]; [reflexivity|]. cbn [existsb]. rewrite H0. cbn [orb]. exact IHA.
    - apply IH; [|exact ND2]. intros [n' v'] Hin. apply Forall_app. split.
      + apply HA. right. exact Hin.
      + constructor; [|constructor]. cbn [same_kind fst snd].
        apply (existsb_false _ _ ND1 n'). apply in_map_iff. exists (n', v'). split; [reflexivity | exact Hin].
  Qed.


  Fixpoint others_of (vs : list param) : list (bytes * bytes) :=
    match vs with
    | [] => []
    | POther n v :: r => (n, v) :: others_of r
    | _ :: r => others_of r
    end.
  Lemma pnodup_disjoint vs : forall acc, pnodupb acc vs = true ->
    forall p0 q, In p0 acc -> In q vs -> same_kind addr p0 q = false.
  Proof.
    induction vs as [|x vs IH]; intros acc H p0 q Hp Hq; [destruct Hq|].
    cbn [pnodupb] in H. apply andb_true_iff in H. destruct H as [H1 H2].
    apply negb_true_iff in H1. destruct Hq as [<-|Hq].
    - unfold has_duplicate_param in H1. apply (existsb_false _ _ H1 p0 Hp).
    - apply (IH (acc ++ [x]) H2); [apply in_or_app; left; exact Hp | exact Hq].
  Qed.
  Lemma others_of_in n v vs : In (n, v) (others_of vs) -> In (POther n v) vs.
  Proof.
    induction vs as [|x vs IH]; [intros []|]. destruct x; cbn [others_of]; try (intros H; right; apply IH, H).
    intros [H|H]; [injection H as -> ->; left; reflexivity | right; apply IH, H].
  Qed.
  Lemma pnodup_others_nodup vs : forall acc, pnodupb acc vs = true -> nodupb (map fst (others_of vs)) = true.
  Proof.
    induction vs as [|x vs IH]; intros acc H; [reflexivity|].
    cbn [pnodupb] in H. apply andb_true_iff in H. destruct H as [H1 H2].
    destruct x; cbn [others_of]; try (apply (IH _ H2)).
    cbn [map fst nodupb]. rewrite (IH _ H2), andb_true_r. apply negb_true_iff.
    destruct (existsb (bytes_eqb n) (map fst (others_of vs))) eqn:E; [|reflexivity].
    apply existsb_exists in E. destruct E as (n' & Hn' & En'). apply in_map_iff in Hn'.
    destruct Hn' as ([n2 v2] & <- & Hin). cbn [fst] in En'. apply others_of_in in Hin.
    pose proof (pnodup_disjoint vs _ H2 (POther n v) (POther n2 v2)
                  ltac:(apply in_or_app; right; left; reflexivity) Hin) as D.
    cbn [same_kind] in D. congruence.
  Qed.
  Lemma others_of_params p : others_of (tl (params_of p)) = p_other p.
  Proof.
    unfold params_of. cbn [tl].
    destruct (p_amount p), (p_memo p), (p_label p), (p_message p); cbn [opt_list option_map app others_of];
      (induction (p_other p) as [|[n v] l IH]; [reflexivity | cbn [map others_of fst snd]; rewrite IH; reflexivity]).
  Qed.

  (** the parameters of a payment contain no duplicate exactly when its additional names are distinct *)
  Lemma params_of_nodup p : pnodupb [PAddr (p_addr p)] (tl (params_of p)) = no_duplicate_rule addr p.
  Proof.
    unfold no_duplicate_rule. destruct (nodupb (map fst (p_other p))) eqn:ND.
    - unfold params_of. cbn [tl].
      destruct (p_amount p), (p_memo p), (p_label p), (p_message p);
        cbn [opt_list option_map app pnodupb has_duplicate_param existsb same_kind negb andb orb];
        (apply pnodup_others; [intros nv _; repeat constructor | exact ND]).
    - destruct (pnodupb [PAddr (p_addr p)] (tl (params_of p))) eqn:E; [|reflexivity].
      apply pnodup_others_nodup in E. rewrite others_of_params in E. congruence.
  Qed.

  Definition all_params (r : request) : list (param * Z) :=
    flat_map (fun ip => map (fun q => (q, fst ip)) (params_of (snd ip))) r.
  Definition grouped (r : request) : list (Z * list param) := map (fun ip => (fst ip, params_of (snd ip))) r.
  Definition all_nodup (r : request) : bool := forallb (fun ip => no_duplicate_rule addr (snd ip)) r.
  (** index of the first payment with a duplicate *)
  Fixpoint first_dup (r : request) : Z :=
    match r with
    | [] => 0
    | ip :: q => if no_duplicate_rule addr (snd ip) then first_dup q else fst ip
    end.

  Lemma group_all r : forall m prev, increasing prev (map fst r) = true -> keys_lt m (prev + 1) ->
    group addr (all_params r) m = if all_nodup r then inr (m ++ grouped r) else inl (first_dup r).
  Proof.
    induction r as [|[i p] r IH]; intros m prev Inc K; [cbn; rewrite app_nil_r; reflexivity|].
    cbn [map fst increasing] in Inc. apply andb_true_iff in Inc. destruct Inc as [Lt Inc].
    assert (Ki : keys_lt m i). { eapply Forall_impl; [|exact K]. cbn. intros; lia. }
    unfold all_params. cbn [flat_map fst snd]. fold (all_params r).
    change (params_of p) with (PAddr (p_addr p) :: tl (params_of p)) at 1.
    rewrite (group_new_index i _ _ m (all_params r) Ki), params_of_nodup.
    cbn [all_nodup forallb first_dup fst snd]. destruct (no_duplicate_rule addr p); [|reflexivity]. cbn [andb].
    rewrite (IH (m ++ [(i, PAddr (p_addr p) :: tl (params_of p))]) i Inc).
    - fold (all_nodup r). destruct (all_nodup r); [|reflexivity].
      cbn [grouped map fst snd]. rewrite <- app_assoc. reflexivity.
    - apply Forall_app. split; [eapply Forall_impl; [|exact Ki]; cbn; intros; lia | repeat constructor; cbn; lia].
  Qed.

  (** ** to_payment *)
  Lemma apply_others others : forall i p0,
    apply_params addr can_memo t_only (map (fun nv => POther (fst nv) (snd nv)) others) i p0
    = Ok (mkPayment (p_addr p0) (p_amount p0) (p_memo p0) (p_label p0) (p_message p0) (p_other p0 ++ others)).
  Proof.
    induction others as [|[n v] l IH]; intros i p0.
    - cbn. rewrite app_nil_r. destruct p0; reflexivity.
    - cbn [map apply_params fst snd]. rewrite IH. cbn [p_addr p_amount p_memo p_label p_message p_other].
      rewrite <- app_assoc. reflexivity.
  Qed.


  (** [to_payment] on the parameters of [p]: the zero-valued transparent check comes first (the
      amount is rendered first), then the memo check; otherwise [p] itself *)
  Definition pay_outcome (p : payment) (i : Z) : outcome payment zerr :=
    if negb (zero_transparent_rule addr t_only p) then Err (EZeroTransparent i)
    else if negb (memo_rule addr can_memo p) then Err (ETransparentMemo i)
    else Ok p.
  Lemma to_payment_params_of p i : to_payment addr can_memo t_only (params_of p) i = pay_outcome p i.
  Proof.
    unfold pay_outcome, memo_rule, zero_transparent_rule.
    destruct p as [a am me la ms ot]. cbn [p_addr p_amount p_memo p_label p_message p_other] in *.
    unfold to_payment, params_of. cbn [find_addr p_addr p_amount p_memo p_label p_message p_other].
    destruct am as [z|], me as [m|], la as [l|], ms as [s|];
      cbn [opt_list option_map app apply_params p_addr p_amount p_memo p_label p_message p_other];
      try (destruct (t_only a && (z =? 0)); cbn [negb]; [reflexivity|]);
      try rewrite andb_false_r; cbn [negb];
      try (destruct (can_memo a); cbn [negb]; [|reflexivity]);
      cbn [apply_params p_addr p_amount p_memo p_label p_message p_other];
      rewrite apply_others; reflexivity.
  Qed.

  Fixpoint build_outcome (r : request) : outcome request zerr :=
    match r with
    | [] => Ok []
    | ip :: q => match pay_outcome (snd ip) (fst ip) with
                 | Ok p => match build_outcome q with Ok q' => Ok ((fst ip, p) :: q') | e => e end
                 | Err e => Err e
                 | Panic => Panic
                 end
    end.
  Lemma build_grouped r : build addr can_memo t_only (grouped r) = build_outcome r.
  Proof.
    induction r as [|[i p] r IH]; [reflexivity|].
    cbn [grouped map build build_outcome fst snd]. rewrite (to_payment_params_of p i). fold (grouped r). rewrite IH.
    destruct (pay_outcome p i); try reflexivity; destruct (build_outcome r); reflexivity.
  Qed.
  Lemma build_outcome_ok r r' : build_outcome r = Ok r' ->
    r' = r /\ Forall (fun ip => memo_rule addr can_memo (snd ip) = true /\ zero_transparent_rule addr t_only (snd ip) = true) r.
  Proof.
    revert r'. induction r as [|[i p] r IH]; intros r'; cbn [build_outcome fst snd]; [intros [= <-]; split; [reflexivity | constructor]|].
    unfold pay_outcome. destruct (zero_transparent_rule addr t_only p) eqn:Z; cbn [negb]; [|discriminate].
    destruct (memo_rule addr can_memo p) eqn:M; cbn [negb]; [|discriminate].
    destruct (build_outcome r) as [q| |]; try discriminate. intros [= <-].
    destruct (IH q eq_refl) as [-> F]. split; [reflexivity | constructor; [split; assumption | exact F]].
  Qed.
  Lemma build_outcome_valid r : Forall (fun ip => valid_paymentb (snd ip) = true) r -> build_outcome r = Ok r.
  Proof.
    induction 1 as [|[i p] r V _ IH]; [reflexivity|]. cbn [build_outcome fst snd]. rewrite IH.
    unfold valid_paymentb in V. cbn [snd] in V. repeat (apply andb_true_iff in V; destruct V as [V ?]).
    unfold pay_outcome. rewrite V. match goal with H : zero_transparent_rule _ _ _ = true |- _ => rewrite H end. reflexivity.
  Qed.

  (** ** from_uri (to_uri r): the complete outcome for a request whose additional-parameter names are
      in the grammar and none of the five defined names *)
  Definition pre_request (r : request) : Prop :=
    wf_requestb addr r = true /\ index_rule addr r = true /\ forallb (fun ip => names_pre (snd ip)) r = true
    /\ addrs_ok r.
  Definition render_outcome (r : request) : outcome request zerr :=
    if negb (forallb (fun ip => no_req (snd ip)) r) then Err EParse
    else if negb (all_nodup r) then Err (EDup (first_dup r))
    else build_outcome r.

  Lemma increasing_lower l : forall prev, increasing prev l = true -> Forall (fun k => prev < k) l.
  Proof.
    induction l as [|x l IH]; intros prev H; [constructor|]. cbn [increasing] in H.
    apply andb_true_iff in H. destruct H as [A B]. constructor; [lia|].
    eapply Forall_impl; [|apply (IH x B)]. cbn. intros; lia.
  Qed.

  Lemma pre_request_each r : pre_request r ->
    Forall (fun ip => 0 <= fst ip <= 9999 /\ wf_paymentb (snd ip) = true /\ names_pre (snd ip) = true
                      /\ addr_ok (p_addr (snd ip))) r.
  Proof.
    intros (W & Ix & NP & AO). unfold wf_requestb in W. apply andb_true_iff in W. destruct W as [Inc W].
    unfold index_rule in Ix. apply increasing_lower in Inc. unfold addrs_ok in AO.
    rewrite Forall_forall in *. rewrite forallb_forall in W, Ix, NP.
    intros ip Hip. specialize (W ip Hip). specialize (Ix ip Hip). specialize (NP ip Hip). specialize (AO ip Hip).
    specialize (Inc (fst ip) (in_map fst _ _ Hip)). cbv beta in *. repeat split; try lia; try assumption; apply AO.
  Qed.

  Definition idx_of (i : Z) : option Z := if i =? 0 then None else Some i.
  Lemma idx_of_ok i : 0 <= i <= 9999 -> idx_ok (idx_of i) /\ idx_val (idx_of i) = i.
  Proof. intros H. unfold idx_of. destruct (i =? 0) eqn:E; cbn; lia. Qed.

  Definition oall (r : request) : list (option (param * Z)) :=
    flat_map (fun ip => Some (PAddr (p_addr (snd ip)), fst ip) :: oparams (snd ip) (idx_of (fst ip))) r.

  Lemma prenders_all r : pre_request r ->
    Forall2 prenders
      (flat_map (fun ip => let idx := if fst ip =? 0 then None else Some (fst ip) in
                           addr_param addr addr_enc (p_addr (snd ip)) idx :: payment_params addr (snd ip) idx) r)
      (oall r).
  Proof.
    intros G. apply pre_request_each in G. induction G as [|[i p] r (Hi & Wp & Np & Ap) _ IH]; [constructor|].
    cbn [flat_map oall fst snd]. fold (oall r). cbv zeta. fold (idx_of i).
    destruct (idx_of_ok i Hi) as [Iok Iv].
    apply Forall2_app; [|exact IH].
    constructor.
    - rewrite <- Iv at 2. apply renders_addr; assumption.
    - apply prenders_payment_params; assumption.
  Qed.

  Lemma oall_no_req r : Forall (fun ip => 0 <= fst ip <= 9999) r -> forallb (fun ip => no_req (snd ip)) r = true ->
    oall r = map Some (all_params r).
  Proof.
    induction 1 as [|[i p] r Hi _ IH]; intros NR; [reflexivity|].
    cbn [forallb snd] in NR. apply andb_true_iff in NR. destruct NR as [N1 NR].
    cbn [oall all_params flat_map fst snd]. fold (oall r). fold (all_params r).
    rewrite (IH NR), map_app. f_equal. rewrite (oparams_no_req p (idx_of i) N1).
    destruct (idx_of_ok i Hi) as [_ ->]. unfold params_of at 2. cbn [map]. reflexivity.
  Qed.
  Lemma all_some_app {A} (a b : list (option A)) : all_some (a ++ b) = all_some a && all_some b.
  Proof. unfold all_some. apply forallb_app. Qed.
  Lemma oall_req r : forallb (fun ip => no_req (snd ip)) r = false -> all_some (oall r) = false.
  Proof.
    induction r as [|[i p] r IH]; [discriminate|]. cbn [forallb snd]. intros NR.
    cbn [oall flat_map fst snd]. fold (oall r).
    change (Some (PAddr (p_addr p), i) :: oparams p (idx_of i) ++ oall r)
      with ((Some (PAddr (p_addr p), i) :: oparams p (idx_of i)) ++ oall r).
    rewrite all_some_app.
    change (all_some (Some (PAddr (p_addr p), i) :: oparams p (idx_of i))) with (all_some (oparams p (idx_of i))).
    destruct (no_req p) eqn:E; [cbn [andb] in NR; rewrite (IH NR); apply andb_false_r|].
    rewrite (oparams_req p _ E). reflexivity.
  Qed.

  Lemma inr_inj {A B} (x y : B) : @inr A B x = inr y -> x = y.
  Proof. intros H. injection H. auto. Qed.

  (** after grouping: duplicates, then [build] *)
  Lemma group_build r : wf_requestb addr r = true ->
    match group addr (all_params r) [] with
    | inl i => Err (EDup i)
    | inr m => build addr can_memo t_only m
    end = if negb (all_nodup r) then Err (EDup (first_dup r)) else build_outcome r.
  Proof.
    intros W. unfold wf_requestb in W. apply andb_true_iff in W. destruct W as [Inc _].
    rewrite (group_all r [] (-1) Inc ltac:(constructor)). destruct (all_nodup r); cbn [negb app]; [|reflexivity].
    apply build_grouped.
  Qed.

  Lemma from_uri_general r : pre_request r -> from_uri (to_uri_general addr addr_enc r) = render_outcome r.
  Proof.
    intros G. unfold Model.from_uri, to_uri_general, lead_addr, render_outcome.
    rewrite strip_prefix_app. cbn [span]. rewrite Z.eqb_refl. cbn [negb is_nil].
    destruct (params_list_prender _ _ (prenders_all r G)) as (rest & PL & NL). cbv zeta in PL.
    change (63 =? 63) with true. cbv iota. rewrite PL, NL.
    destruct (forallb (fun ip => no_req (snd ip)) r) eqn:NR; cbn [negb].
    - assert (Hi : Forall (fun ip => 0 <= fst ip <= 9999) r).
      { eapply Forall_impl; [|apply pre_request_each, G]. cbn. tauto. }
      rewrite (oall_no_req r Hi NR). destruct (somes_map_some (all_params r)) as [-> ->].
      apply group_build. apply G.
    - rewrite (oall_req r NR). reflexivity.
  Qed.

  Theorem from_uri_to_uri r : pre_request r -> from_uri (to_uri r) = render_outcome r.
  Proof.
    intros G. destruct r as [|[i p] [|ip2 r']]; [reflexivity | | apply from_uri_general, G].
    unfold Model.to_uri. destruct (i =? 0) eqn:E0; [|apply from_uri_general, G].
    apply Z.eqb_eq in E0. subst i.
    pose proof (pre_request_each _ G) as Each. inversion Each as [|? ? (_ & Wp & Np & (RT & NE & AN)) _]; subst. cbn [snd] in *.
    pose proof (prenders_payment_params p None I Wp Np) as R.
    assert (Span : forall Y, stops (fun c => negb (c =? 63)) Y ->
              span (fun c => negb (c =? 63)) (addr_enc (p_addr p) ++ Y) = (addr_enc (p_addr p), Y)).
    { intros Y HY. apply span_app; [|exact HY]. eapply forallb_impl; [apply alnum_not_63 | exact AN]. }
    (* what the parameter list gives, in both the empty and the non-empty case *)
    assert (PL :
               match (if is_nil (payment_params addr p None) then [] else [63]) ++ join 38 (payment_params addr p None) with
               | [] => Some []
               | c :: q => if c =? 63 then let (xs, r') := params_list addr addr_dec q in if is_nil r' then Some xs else None else None
               end = (if all_some (oparams p None) then Some (somes (oparams p None)) else None)).
    { destruct (payment_params addr p None) as [|q qp'] eqn:Eq.
      - inversion R as [E1 E2|]; subst. reflexivity.
      - cbn [is_nil app]. rewrite Z.eqb_refl. destruct (params_list_prender _ _ R) as (rest & E & N).
        rewrite E, N. reflexivity. }
    assert (SY : stops (fun c => negb (c =? 63))
                   ((if is_nil (payment_params addr p None) then [] else [63]) ++ join 38 (payment_params addr p None))).
    { destruct (payment_params addr p None); [exact I | reflexivity]. }
    unfold Model.from_uri, lead_addr. cbv zeta. rewrite strip_prefix_app.
    rewrite (Span _ SY).
    rewrite (is_nil_false _ NE), RT. rewrite PL. unfold render_outcome. cbn [forallb snd]. rewrite andb_true_r.
    destruct (no_req p) eqn:NR; cbn [negb].
    - rewrite (oparams_no_req p None NR). destruct (somes_map_some (map (fun q => (q, idx_val None)) (tl (params_of p)))) as [-> ->].
      pose proof (group_build [(0, p)] ltac:(apply G)) as GB.
      cbn [all_params flat_map fst snd app] in GB. rewrite app_nil_r in GB.
      unfold params_of at 1 in GB. cbn [map group map_get map_set] in GB. fold (tl (params_of p)) in GB.
      cbn [idx_val]. exact GB.
    - rewrite (oparams_req p None NR). reflexivity.
  Qed.

  (** a valid request comes back unchanged *)
  Definition good_request (r : request) : Prop :=
    wf_requestb addr r = true /\ validb addr can_memo t_only r = true.
  Lemma good_pre r : good_request r -> addrs_ok r -> pre_request r.
  Proof.
    intros [W V] A. unfold validb in V. apply andb_true_iff in V. destruct V as [Ix V].
    repeat split; auto. rewrite forallb_forall in *. intros ip Hip. specialize (V ip Hip).
    unfold Spec.valid_paymentb in V. repeat (apply andb_true_iff in V; destruct V as [V ?]).
    match goal with H : other_names_rule _ _ = true |- _ => rewrite other_names_rule_split in H; apply andb_true_iff in H; tauto end.
  Qed.
  Lemma valid_render_outcome r : validb addr can_memo t_only r = true -> render_outcome r = Ok r.
  Proof.
    intros V. unfold validb in V. apply andb_true_iff in V. destruct V as [_ V]. unfold render_outcome.
    assert (NR : forallb (fun ip => no_req (snd ip)) r = true /\ all_nodup r = true /\ Forall (fun ip => valid_paymentb (snd ip) = true) r).
    { unfold all_nodup. rewrite Forall_forall. rewrite !forallb_forall. rewrite forallb_forall in V.
      repeat split; intros ip Hip; specialize (V ip Hip); auto;
        unfold Spec.valid_paymentb in V; repeat (apply andb_true_iff in V; destruct V as [V ?]); auto.
      match goal with H : other_names_rule _ _ = true |- _ => rewrite other_names_rule_split in H; apply andb_true_iff in H; tauto end. }
    destruct NR as (-> & -> & F). cbn [negb]. apply build_outcome_valid, F.
  Qed.
  Theorem request_roundtrip r : good_request r -> addrs_ok r -> from_uri (to_uri r) = Ok r.
  Proof.
    intros G A. rewrite (from_uri_to_uri r (good_pre r G A)). apply valid_render_outcome, G.
  Qed.

  (** conversely: if the rendering parses at all, the request was valid and is what comes back *)
  Lemma render_outcome_ok r r' : index_rule addr r = true -> forallb (fun ip => names_pre (snd ip)) r = true ->
    render_outcome r = Ok r' -> r' = r /\ validb addr can_memo t_only r = true.
  Proof.
    intros Ix NP. unfold render_outcome.
    destruct (forallb (fun ip => no_req (snd ip)) r) eqn:NR; cbn [negb]; [|discriminate].
    destruct (all_nodup r) eqn:ND; cbn [negb]; [|discriminate]. intros B.
    destruct (build_outcome_ok r r' B) as [-> F]. split; [reflexivity|].
    unfold validb. rewrite Ix. cbn [andb]. apply forallb_forall. intros ip Hip.
    rewrite Forall_forall in F. destruct (F ip Hip) as [M Z]. unfold all_nodup in ND.
    rewrite forallb_forall in NP, NR, ND. unfold Spec.valid_paymentb.
    rewrite M, Z, other_names_rule_split, (NP ip Hip), (NR ip Hip), (ND ip Hip). reflexivity.
  Qed.
End WithAddresses.
