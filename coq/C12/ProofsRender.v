(** C12 — rendering then parsing: [from_uri (to_uri r) = Ok r] for every valid request. *)
From V.Lib Require Import Base MachInt.
From V.Gen Require Import C12Consts.
From V.C12 Require Import Model Spec ProofsPct ProofsB64 ProofsAmount.
From Coq Require Import ZifyBool.
Local Open Scope Z_scope.

(** ** small facts about the fixed strings and character classes *)
Lemma bytes_eqb_eq a b : bytes_eqb a b = true <-> a = b.
Proof. unfold bytes_eqb. apply list_eqb_spec. intros x y. apply Z.eqb_eq. Qed.
Lemma bytes_eqb_refl a : bytes_eqb a a = true.
Proof. apply bytes_eqb_eq. reflexivity. Qed.
Lemma bytes_eqb_neq a b : a <> b -> bytes_eqb a b = false.
Proof. intros H. destruct (bytes_eqb a b) eqn:E; [apply bytes_eqb_eq in E; contradiction | reflexivity]. Qed.
Lemma bytes_eqb_sym a b : bytes_eqb a b = bytes_eqb b a.
Proof.
  destruct (bytes_eqb a b) eqn:E.
  - apply bytes_eqb_eq in E. subst. symmetry. apply bytes_eqb_refl.
  - symmetry. apply bytes_eqb_neq. intros ->. rewrite bytes_eqb_refl in E. discriminate.
Qed.

Lemma is_alpha_namechar c : is_alpha c = true -> is_namechar c = true.
Proof. unfold is_namechar, is_alnum. intros ->. reflexivity. Qed.
Lemma not_qchar_38 : is_qchar 38 = false. Proof. vm_compute. reflexivity. Qed.
Lemma not_namechar_46 : is_namechar 46 = false. Proof. vm_compute. reflexivity. Qed.
Lemma not_namechar_61 : is_namechar 61 = false. Proof. vm_compute. reflexivity. Qed.
Lemma alnum_qchar c : is_alnum c = true -> is_qchar c = true.
Proof. unfold is_qchar. intros ->. reflexivity. Qed.
Lemma alnum_not_63 c : is_alnum c = true -> negb (c =? 63) = true.
Proof. intros H. unfold is_alnum, is_alpha, is_upper, is_lower, is_digit in H. lia. Qed.

Lemma strip_prefix_app p l : strip_prefix p (p ++ l) = Some l.
Proof. induction p as [|a p IH]; [reflexivity|]. cbn [app strip_prefix]. rewrite Z.eqb_refl. exact IH. Qed.

Lemma forallb_impl {A} (f g : A -> bool) l : (forall x, f x = true -> g x = true) -> forallb f l = true -> forallb g l = true.
Proof. rewrite !forallb_forall. auto. Qed.

(** ** indexed_name on a rendered name *)
Definition idx_ok (idx : option Z) : Prop := match idx with None => True | Some i => 0 < i <= 9999 end.
Definition iopt_of (idx : option Z) : option bytes := match idx with None => None | Some i => Some (dec_str i) end.

Lemma param_index_pos i : 0 < i -> param_index (Some i) = 46 :: dec_str i.
Proof. intros H. unfold param_index. destruct (0 <? i) eqn:E; [reflexivity | lia]. Qed.

Lemma valid_name_split name : valid_nameb name = true ->
  exists a n, span is_alpha name = (a, n) /\ name = a ++ n /\ a <> [] /\ forallb is_alpha a = true
              /\ forallb is_namechar n = true /\ stops is_alpha n.
Proof.
  intros V. destruct name as [|c t]; [discriminate|]. cbn [valid_nameb] in V.
  apply andb_true_iff in V. destruct V as [Vc Vt].
  destruct (span is_alpha (c :: t)) as [a n] eqn:S. destruct (span_spec _ _ _ _ S) as (E & Da & Sn).
  exists a, n. repeat split; auto.
  - cbn [span] in S. rewrite Vc in S. destruct (span is_alpha t). injection S as <- _. discriminate.
  - assert (F : forallb is_namechar (c :: t) = true) by (cbn [forallb]; rewrite (is_alpha_namechar _ Vc), Vt; reflexivity).
    rewrite E, forallb_app in F. apply andb_true_iff in F. tauto.
Qed.

Lemma indexed_name_render name idx rest : valid_nameb name = true -> idx_ok idx ->
  indexed_name (name ++ param_index idx ++ 61 :: rest) = Some (name, iopt_of idx, 61 :: rest).
Proof.
  intros V I. destruct (valid_name_split name V) as (a & n & S & E & Na & Da & Dn & Sn).
  unfold indexed_name.
  assert (X : exists x X', param_index idx ++ 61 :: rest = x :: X' /\ is_namechar x = false /\ is_alpha x = false).
  { destruct idx as [i|]; cbn [idx_ok] in I.
    - rewrite param_index_pos by lia. exists 46, (dec_str i ++ 61 :: rest). repeat split.
    - exists 61, rest. repeat split. }
  destruct X as (x & X' & EX & NX & AX).
  rewrite E, <- app_assoc.
  rewrite (span_app is_alpha a (n ++ param_index idx ++ 61 :: rest) Da).
  2:{ destruct n as [|y n']; [cbn [app]; rewrite EX; exact AX | exact Sn]. }
  rewrite (is_nil_false a Na).
  rewrite (span_app is_namechar n (param_index idx ++ 61 :: rest) Dn) by (rewrite EX; exact NX).
  destruct idx as [i|]; cbn [idx_ok iopt_of] in *.
  - rewrite param_index_pos by lia.
    destruct (dec_str_index_shape i I) as (d & ds & Ed & Nd & Dd & Ld). rewrite Ed. cbn [app].
    rewrite Z.eqb_refl, Nd. cbn [andb].
    rewrite (span_app is_digit ds (61 :: rest) Dd) by reflexivity.
    destruct (3 <? length ds)%nat eqn:E3; [apply Nat.ltb_lt in E3; lia | reflexivity].
  - cbn [param_index app]. destruct rest as [|y rest']; [reflexivity|].
    change (61 =? 46) with false. reflexivity.
Qed.

Section WithAddresses.
  Variable addr : Type.
  Variable addr_dec : bytes -> option addr.
  Variable addr_enc : addr -> bytes.
  Variable can_memo : addr -> bool.
  Variable t_only : addr -> bool.
  (** the oracle hypotheses: the decoder inverts the encoder; encodings are non-empty alphanumeric *)
  Hypothesis addr_rt : forall a, addr_dec (addr_enc a) = Some a.
  Hypothesis addr_enc_nonempty : forall a, addr_enc a <> [].
  Hypothesis addr_enc_alnum : forall a, forallb is_alnum (addr_enc a) = true.

  Notation payment := (payment addr).
  Notation request := (request addr).
  Notation param := (param addr).
  Notation zcashparam := (zcashparam addr addr_dec).
  Notation to_indexed_param := (to_indexed_param addr addr_dec).
  Notation from_uri := (from_uri addr addr_dec can_memo t_only).
  Notation to_uri := (to_uri addr addr_enc).
  Notation wf_paymentb := (wf_paymentb addr).
  Notation valid_paymentb := (valid_paymentb addr can_memo t_only).

  (** [renders s ip]: the string [s], followed by anything that cannot continue a value, parses
      as the one parameter [ip]. *)
  Definition renders (s : bytes) (ip : param * Z) : Prop :=
    forall rest, stops is_qchar rest -> zcashparam (s ++ rest) = Some (ip, rest).

  Definition idx_val (idx : option Z) : Z := match idx with Some i => i | None => 0 end.

  Lemma zcashparam_render name idx value p :
    valid_nameb name = true -> idx_ok idx -> forallb is_qchar value = true ->
    (forall iopt, to_indexed_param name iopt value =
                  match iopt with
                  | Some istr => match parse_u64 istr with Some i => Some (p, i) | None => None end
                  | None => Some (p, 0)
                  end) ->
    renders (name ++ param_index idx ++ [61] ++ value) (p, idx_val idx).
  Proof.
    intros V I Q T rest Sr. unfold Model.zcashparam.
    replace ((name ++ param_index idx ++ [61] ++ value) ++ rest)
      with (name ++ param_index idx ++ 61 :: (value ++ rest)) by (rewrite <- !app_assoc; reflexivity).
    rewrite indexed_name_render by assumption. rewrite Z.eqb_refl.
    rewrite (span_app is_qchar value rest Q Sr). rewrite T.
    destruct idx as [i|]; cbn [iopt_of idx_val idx_ok] in *; [|reflexivity].
    rewrite parse_u64_dec_str by (unfold u64_max; lia). reflexivity.
  Qed.

  (** the five fixed names *)
  Lemma valid_fixed : valid_nameb s_address = true /\ valid_nameb s_amount = true /\ valid_nameb s_memo = true
                      /\ valid_nameb s_label = true /\ valid_nameb s_message = true.
  Proof. vm_compute. repeat split. Qed.

  Lemma renders_addr a idx : idx_ok idx -> renders (addr_param addr addr_enc a idx) (PAddr a, idx_val idx).
  Proof.
    intros I. unfold addr_param. apply zcashparam_render; [reflexivity | exact I | |].
    - eapply forallb_impl; [apply alnum_qchar | apply addr_enc_alnum].
    - intros iopt. unfold Model.to_indexed_param. change (bytes_eqb s_address s_address) with true. cbv iota.
      rewrite addr_rt. reflexivity.
  Qed.
  Lemma renders_amount z idx : idx_ok idx -> 0 <= z <= MAX_MONEY -> renders (amount_param z idx) (PAmount z, idx_val idx).
  Proof.
    intros I Hz. unfold amount_param. apply zcashparam_render; [reflexivity | exact I | apply amount_str_qchars; exact Hz |].
    intros iopt. unfold Model.to_indexed_param. change (bytes_eqb s_amount s_address) with false.
    change (bytes_eqb s_amount s_amount) with true. cbv iota. rewrite amount_roundtrip by exact Hz. reflexivity.
  Qed.
  Lemma renders_memo m idx : idx_ok idx -> length m = 512%nat -> Forall byte m -> renders (memo_param m idx) (PMemo m, idx_val idx).
  Proof.
    intros I L F. unfold memo_param. apply zcashparam_render; [reflexivity | exact I | apply memo_to_base64_qchars; exact F |].
    intros iopt. unfold Model.to_indexed_param. change (bytes_eqb s_memo s_address) with false.
    change (bytes_eqb s_memo s_amount) with false. change (bytes_eqb s_memo s_label) with false.
    change (bytes_eqb s_memo s_message) with false. change (bytes_eqb s_memo s_memo) with true. cbv iota.
    rewrite memo_roundtrip by assumption. reflexivity.
  Qed.
  Lemma renders_label s idx : idx_ok idx -> utf8_valid s = true -> renders (str_param s_label s idx) (PLabel s, idx_val idx).
  Proof.
    intros I U. unfold str_param. apply zcashparam_render; [reflexivity | exact I | apply pct_encode_qchars, utf8_valid_bytes, U |].
    intros iopt. unfold Model.to_indexed_param. change (bytes_eqb s_label s_address) with false.
    change (bytes_eqb s_label s_amount) with false. change (bytes_eqb s_label s_label) with true. cbv iota.
    rewrite decode_str_pct_encode by exact U. reflexivity.
  Qed.
  Lemma renders_message s idx : idx_ok idx -> utf8_valid s = true -> renders (str_param s_message s idx) (PMessage s, idx_val idx).
  Proof.
    intros I U. unfold str_param. apply zcashparam_render; [reflexivity | exact I | apply pct_encode_qchars, utf8_valid_bytes, U |].
    intros iopt. unfold Model.to_indexed_param. change (bytes_eqb s_message s_address) with false.
    change (bytes_eqb s_message s_amount) with false. change (bytes_eqb s_message s_label) with false.
    change (bytes_eqb s_message s_message) with true. cbv iota.
    rewrite decode_str_pct_encode by exact U. reflexivity.
  Qed.
  Lemma reserved_false n : reservedb n = false ->
    bytes_eqb n s_address = false /\ bytes_eqb n s_amount = false /\ bytes_eqb n s_memo = false /\
    bytes_eqb n s_label = false /\ bytes_eqb n s_message = false /\ starts_with s_req n = false.
  Proof.
    unfold reservedb, reserved_names. cbn [existsb]. intros H.
    repeat (apply orb_false_iff in H; destruct H as [? H] || idtac). repeat split; auto.
    all: repeat match goal with H : _ || _ = false |- _ => apply orb_false_iff in H; destruct H end; auto.
  Qed.
  Lemma renders_other n v idx : idx_ok idx -> valid_nameb n = true -> reservedb n = false -> utf8_valid v = true ->
    renders (str_param n v idx) (POther n v, idx_val idx).
  Proof.
    intros I V R U. unfold str_param. apply zcashparam_render; [exact V | exact I | apply pct_encode_qchars, utf8_valid_bytes, U |].
    intros iopt. unfold Model.to_indexed_param.
    destruct (reserved_false n R) as (A & B & C & D & E & F). rewrite A, B, C, D, E, F.
    rewrite decode_str_pct_encode by exact U. reflexivity.
  Qed.

  (** ** the parameters a payment stands for *)
  Definition params_of (p : payment) : list param :=
    PAddr (p_addr p) :: opt_list (option_map PAmount (p_amount p)) ++ opt_list (option_map PMemo (p_memo p))
    ++ opt_list (option_map PLabel (p_label p)) ++ opt_list (option_map PMessage (p_message p))
    ++ map (fun nv => POther (fst nv) (snd nv)) (p_other p).

  Definition good_payment (p : payment) : Prop := wf_paymentb p = true /\ valid_paymentb p = true.

  Lemma renders_payment_params p idx : idx_ok idx -> good_payment p ->
    Forall2 renders (payment_params addr p idx) (map (fun q => (q, idx_val idx)) (tl (params_of p))).
  Proof.
    intros I [W V]. unfold wf_paymentb in W. unfold valid_paymentb in V.
    repeat (apply andb_true_iff in W; destruct W as [W ?]).
    repeat (apply andb_true_iff in V; destruct V as [V ?]).
    unfold payment_params, params_of. cbn [tl]. rewrite !map_app.
    repeat apply Forall2_app.
    - destruct (p_amount p) as [z|]; cbn; [|constructor]. constructor; [|constructor].
      cbn [opt_all] in W. apply renders_amount; [exact I | lia].
    - destruct (p_memo p) as [m|]; cbn; [|constructor]. constructor; [|constructor].
      match goal with H : opt_all _ (Some m) = true |- _ => cbn [opt_all] in H; apply andb_true_iff in H; destruct H as [L B] end.
      apply renders_memo; [exact I | apply Nat.eqb_eq; exact L |].
      unfold bytesb in B. rewrite forallb_forall in B. apply Forall_forall. intros x Hx. specialize (B x Hx).
      unfold byteb in B. unfold byte. lia.
    - destruct (p_label p) as [s|]; cbn; [|constructor]. constructor; [|constructor]. apply renders_label; assumption.
    - destruct (p_message p) as [s|]; cbn; [|constructor]. constructor; [|constructor]. apply renders_message; assumption.
    - match goal with H : other_names_rule _ _ = true |- _ => unfold other_names_rule in H; rename H into ON end.
      match goal with H : forallb (fun nv => utf8_valid (fst nv) && utf8_valid (snd nv)) _ = true |- _ => rename H into OU end.
      induction (p_other p) as [|[n v] l IH]; cbn [map]; [constructor|].
      cbn [forallb fst snd] in ON, OU. apply andb_true_iff in ON. destruct ON as [ON1 ON].
      apply andb_true_iff in OU. destruct OU as [OU1 OU].
      apply andb_true_iff in ON1. destruct ON1 as [Vn Rn]. apply andb_true_iff in OU1. destruct OU1 as [_ Uv].
      constructor; [|apply IH; assumption].
      apply renders_other; auto. apply negb_true_iff. exact Rn.
  Qed.

  (** ** separated_list0 on a rendered list *)
  Definition tl_str (ss : list bytes) : bytes := flat_map (fun s => 38 :: s) ss.
  Lemma join_cons s ss : join 38 (s :: ss) = s ++ tl_str ss.
  Proof.
    revert s. induction ss as [|t ss IH]; intros s; [cbn; rewrite app_nil_r; reflexivity|].
    change (join 38 (s :: t :: ss)) with (s ++ 38 :: join 38 (t :: ss)). rewrite IH. reflexivity.
  Qed.
  Lemma stops_tl_str ss : stops is_qchar (tl_str ss).
  Proof. destruct ss; [exact I | exact not_qchar_38]. Qed.

  Lemma params_tail_render ss ips : Forall2 renders ss ips ->
    forall fuel acc, (length (tl_str ss) <= fuel)%nat ->
      params_tail addr addr_dec fuel (tl_str ss) acc = (acc ++ ips, []).
  Proof.
    induction 1 as [|s ip ss ips R _ IH]; intros fuel acc Hf.
    - rewrite app_nil_r. destruct fuel; reflexivity.
    - cbn [tl_str flat_map] in *. fold (tl_str ss) in *. cbn [length app] in Hf.
      destruct fuel as [|f]; [lia|]. cbn [params_tail app]. rewrite Z.eqb_refl.
      rewrite (R (tl_str ss) (stops_tl_str ss)). rewrite app_length in Hf.
      rewrite IH by lia. rewrite <- app_assoc. reflexivity.
  Qed.
  Lemma params_list_render ss ips : Forall2 renders ss ips ->
    params_list addr addr_dec (join 38 ss) = (ips, []).
  Proof.
    intros F. destruct F as [|s ip ss ips R F]; [reflexivity|].
    rewrite join_cons. unfold params_list. rewrite (R (tl_str ss) (stops_tl_str ss)).
    apply (params_tail_render ss ips F). lia.
  Qed.

  (** ** grouping *)
  Definition keys_lt {V} (m : list (Z * V)) (i : Z) : Prop := Forall (fun kv => fst kv < i) m.
  Lemma map_get_lt {V} (m : list (Z * V)) i : keys_lt m i -> map_get i m = None.
  Proof.
    induction 1 as [|[k v] m H _ IH]; [reflexivity|]. cbn [map_get]. cbn [fst] in H.
    destruct (i =? k) eqn:E; [lia | exact IH].
  Qed.
  Lemma map_set_lt {V} (m : list (Z * V)) i v : keys_lt m i -> map_set i v m = m ++ [(i, v)].
  Proof.
    induction 1 as [|[k w] m H _ IH]; [reflexivity|]. cbn [map_set app]. cbn [fst] in H.
    destruct (i <? k) eqn:E; [lia|]. destruct (i =? k) eqn:E2; [lia|]. rewrite IH. reflexivity.
  Qed.
  Lemma map_get_last {V} (m : list (Z * V)) i v : keys_lt m i -> map_get i (m ++ [(i, v)]) = Some v.
  Proof.
    induction 1 as [|[k w] m H _ IH]; [cbn; rewrite Z.eqb_refl; reflexivity|]. cbn [map_get app]. cbn [fst] in H.
    destruct (i =? k) eqn:E; [lia | exact IH].
  Qed.
  Lemma map_set_last {V} (m : list (Z * V)) i v w : keys_lt m i -> map_set i w (m ++ [(i, v)]) = m ++ [(i, w)].
  Proof.
    induction 1 as [|[k u] m H _ IH]; [cbn; rewrite Z.ltb_irrefl, Z.eqb_refl; reflexivity|]. cbn [map_set app]. cbn [fst] in H.
    destruct (i <? k) eqn:E; [lia|]. destruct (i =? k) eqn:E2; [lia|]. rewrite IH. reflexivity.
  Qed.

  (** no parameter duplicates an earlier one *)
  Fixpoint pnodupb (acc qs : list param) : bool :=
    match qs with
    | [] => true
    | q :: r => negb (has_duplicate_param addr acc q) && pnodupb (acc ++ [q]) r
    end.

  Lemma group_same_index i qs : forall cur m rest, keys_lt m i -> pnodupb cur qs = true ->
    group addr (map (fun q => (q, i)) qs ++ rest) (m ++ [(i, cur)]) = group addr rest (m ++ [(i, cur ++ qs)]).
  Proof.
    induction qs as [|q qs IH]; intros cur m rest K N; [rewrite app_nil_r; reflexivity|].
    cbn [map app group]. rewrite (map_get_last m i cur K).
    cbn [pnodupb] in N. apply andb_true_iff in N. destruct N as [N1 N2].
    destruct (has_duplicate_param addr cur q); [discriminate|].
    rewrite (map_set_last m i cur (cur ++ [q]) K). rewrite (IH (cur ++ [q]) m rest K N2).
    rewrite <- app_assoc. reflexivity.
  Qed.

  Lemma group_new_index i q qs m rest : keys_lt m i -> pnodupb [q] qs = true ->
    group addr (map (fun x => (x, i)) (q :: qs) ++ rest) m = group addr rest (m ++ [(i, q :: qs)]).
  Proof.
    intros K N. cbn [map app group]. rewrite (map_get_lt m i K), (map_set_lt m i [q] K).
    apply (group_same_index i qs [q] m rest K N).
  Qed.

  (** the parameters of a valid payment contain no duplicate *)
  Lemma existsb_false {A} (f : A -> bool) l : existsb f l = false -> forall x, In x l -> f x = false.
  Proof.
    intros H x Hx. destruct (f x) eqn:E; [|reflexivity].
    assert (existsb f l = true) by (apply existsb_exists; eauto). congruence.
  Qed.
  Lemma pnodup_others others : forall acc,
    (forall nv, In nv others -> Forall (fun p0 => same_kind addr p0 (POther (fst nv) (snd nv)) = false) acc) ->
    nodupb (map fst others) = true ->
    pnodupb acc (map (fun nv => POther (fst nv) (snd nv)) others) = true.
  Proof.
    induction others as [|[n v] l IH]; intros acc HA ND; [reflexivity|].
    cbn [map pnodupb fst snd]. cbn [map nodupb fst] in ND. apply andb_true_iff in ND. destruct ND as [ND1 ND2].
    apply negb_true_iff in ND1.
    apply andb_true_iff. split.
    - unfold has_duplicate_param. specialize (HA (n, v) (or_introl eq_refl)). cbn [fst snd] in HA.
      induction HA as [|p0 acc' H0 _ IHA]; [reflexivity|]. cbn [existsb]. rewrite H0. cbn [orb]. exact IHA.
    - apply IH; [|exact ND2]. intros [n' v'] Hin. apply Forall_app. split.
      + apply HA. right. exact Hin.
      + constructor; [|constructor]. cbn [same_kind fst snd].
        apply (existsb_false _ _ ND1 n'). apply in_map_iff. exists (n', v'). split; [reflexivity | exact Hin].
  Qed.

  Lemma params_of_nodup p : valid_paymentb p = true -> pnodupb [PAddr (p_addr p)] (tl (params_of p)) = true.
  Proof.
    intros V. unfold valid_paymentb in V. apply andb_true_iff in V. destruct V as [_ ND]. unfold no_duplicate_rule in ND.
    unfold params_of. cbn [tl].
    destruct (p_amount p), (p_memo p), (p_label p), (p_message p);
      cbn [opt_list option_map app pnodupb has_duplicate_param existsb same_kind negb andb orb];
      (apply pnodup_others; [intros nv _; repeat constructor | exact ND]).
  Qed.

  Definition all_params (r : request) : list (param * Z) :=
    flat_map (fun ip => map (fun q => (q, fst ip)) (params_of (snd ip))) r.
  Definition grouped (r : request) : list (Z * list param) := map (fun ip => (fst ip, params_of (snd ip))) r.

  Lemma group_all r : forall m prev, increasing prev (map fst r) = true -> keys_lt m (prev + 1) ->
    Forall (fun ip => valid_paymentb (snd ip) = true) r ->
    group addr (all_params r) m = inr (m ++ grouped r).
  Proof.
    induction r as [|[i p] r IH]; intros m prev Inc K V; [cbn; rewrite app_nil_r; reflexivity|].
    cbn [map fst increasing] in Inc. apply andb_true_iff in Inc. destruct Inc as [Lt Inc].
    inversion V as [|? ? Vp Vr]; subst. cbn [snd] in Vp.
    assert (Ki : keys_lt m i). { eapply Forall_impl; [|exact K]. cbn. intros; lia. }
    unfold all_params. cbn [flat_map fst snd]. fold (all_params r).
    change (params_of p) with (PAddr (p_addr p) :: tl (params_of p)) at 1.
    rewrite (group_new_index i _ _ m (all_params r) Ki (params_of_nodup p Vp)).
    rewrite (IH (m ++ [(i, PAddr (p_addr p) :: tl (params_of p))]) i Inc).
    - cbn [grouped map fst snd]. rewrite <- app_assoc. reflexivity.
    - apply Forall_app. split; [eapply Forall_impl; [|exact Ki]; cbn; intros; lia | repeat constructor; cbn; lia].
    - exact Vr.
  Qed.

  (** ** to_payment *)
  Lemma apply_others others : forall i p0,
    apply_params addr can_memo t_only (map (fun nv => POther (fst nv) (snd nv)) others) i p0
    = Ok (mkPayment (p_addr p0) (p_amount p0) (p_memo p0) (p_label p0) (p_message p0) (p_other p0 ++ others)).
  Proof.
    induction others as [|[n v] l IH]; intros i p0.
    - cbn. rewrite app_nil_r. destruct p0; reflexivity.
    - cbn [map apply_params fst snd]. rewrite IH. cbn [p_addr p_amount p_memo p_label p_message p_other].
      rewrite <- app_assoc. reflexivity.
  Qed.

  Lemma to_payment_params_of p i : valid_paymentb p = true -> to_payment addr can_memo t_only (params_of p) i = Ok p.
  Proof.
    intros V. unfold valid_paymentb in V. repeat (apply andb_true_iff in V; destruct V as [V ?]).
    unfold memo_rule in V. unfold zero_transparent_rule in *.
    destruct p as [a am me la ms ot]. cbn [p_addr p_amount p_memo p_label p_message p_other] in *.
    unfold to_payment, params_of. cbn [find_addr p_addr p_amount p_memo p_label p_message p_other].
    destruct am as [z|], me as [m|], la as [l|], ms as [s|];
      cbn [opt_list option_map app apply_params p_addr p_amount p_memo p_label p_message p_other];
      repeat match goal with
             | |- context [t_only a && (z =? 0)] => destruct (t_only a && (z =? 0)); [discriminate|]
             | |- context [if can_memo a then _ else _] => rewrite V
             end;
      cbn [apply_params p_addr p_amount p_memo p_label p_message p_other];
      repeat match goal with
             | |- context [if can_memo a then _ else _] => rewrite V
             end;
      rewrite apply_others; reflexivity.
  Qed.

  Lemma build_grouped r : Forall (fun ip => valid_paymentb (snd ip) = true) r ->
    build addr can_memo t_only (grouped r) = Ok r.
  Proof.
    induction 1 as [|[i p] r Vp _ IH]; [reflexivity|].
    cbn [grouped map build fst snd]. rewrite (to_payment_params_of p i Vp). fold (grouped r). rewrite IH. reflexivity.
  Qed.

  (** ** from_uri (to_uri r) = Ok r *)
  Definition good_request (r : request) : Prop :=
    wf_requestb addr r = true /\ validb addr can_memo t_only r = true.

  Lemma increasing_lower l : forall prev, increasing prev l = true -> Forall (fun k => prev < k) l.
  Proof.
    induction l as [|x l IH]; intros prev H; [constructor|]. cbn [increasing] in H.
    apply andb_true_iff in H. destruct H as [A B]. constructor; [lia|].
    eapply Forall_impl; [|apply (IH x B)]. cbn. intros; lia.
  Qed.

  Lemma good_request_each r : good_request r ->
    Forall (fun ip => 0 <= fst ip <= 9999 /\ good_payment (snd ip)) r.
  Proof.
    intros [W V]. unfold wf_requestb in W. apply andb_true_iff in W. destruct W as [Inc W].
    unfold validb, index_rule in V. apply andb_true_iff in V. destruct V as [Ix V].
    apply increasing_lower in Inc. rewrite Forall_forall in *. rewrite forallb_forall in W, Ix, V.
    intros ip Hip. specialize (W ip Hip). specialize (Ix ip Hip). specialize (V ip Hip).
    specialize (Inc (fst ip) (in_map fst _ _ Hip)). cbv beta in *. repeat split; try lia; assumption.
  Qed.
  Lemma good_request_valid r : good_request r -> Forall (fun ip => valid_paymentb (snd ip) = true) r.
  Proof. intros G. eapply Forall_impl; [|apply good_request_each, G]. cbn. intros ip (_ & _ & V). exact V. Qed.

  Definition idx_of (i : Z) : option Z := if i =? 0 then None else Some i.
  Lemma idx_of_ok i : 0 <= i <= 9999 -> idx_ok (idx_of i) /\ idx_val (idx_of i) = i.
  Proof. intros H. unfold idx_of. destruct (i =? 0) eqn:E; cbn; lia. Qed.

  Lemma renders_all r : good_request r ->
    Forall2 renders
      (flat_map (fun ip => let idx := if fst ip =? 0 then None else Some (fst ip) in
                           addr_param addr addr_enc (p_addr (snd ip)) idx :: payment_params addr (snd ip) idx) r)
      (all_params r).
  Proof.
    intros G. apply good_request_each in G. induction G as [|[i p] r (Hi & Gp) _ IH]; [constructor|].
    cbn [flat_map all_params fst snd]. fold (all_params r). cbv zeta. fold (idx_of i).
    destruct (idx_of_ok i Hi) as [Iok Iv].
    apply Forall2_app; [|exact IH].
    unfold params_of at 1. cbn [map]. fold (tl (params_of p)).
    constructor.
    - rewrite <- Iv at 2. apply renders_addr. exact Iok.
    - pose proof (renders_payment_params p (idx_of i) Iok Gp) as R. rewrite Iv in R. exact R.
  Qed.

  Lemma from_uri_general r : good_request r -> from_uri (to_uri_general addr addr_enc r) = Ok r.
  Proof.
    intros G. unfold Model.from_uri, to_uri_general, lead_addr.
    rewrite strip_prefix_app. cbn [span]. rewrite Z.eqb_refl. cbn [negb is_nil].
    pose proof (params_list_render _ _ (renders_all r G)) as PL. cbv zeta in PL.
    change (63 =? 63) with true. cbv iota. rewrite PL. cbn [is_nil].
    destruct G as [W V]. pose proof (good_request_valid r (conj W V)) as Vp.
    unfold wf_requestb in W. apply andb_true_iff in W. destruct W as [Inc _].
    rewrite (group_all r [] (-1) Inc ltac:(constructor) Vp). cbn [app].
    apply build_grouped. exact Vp.
  Qed.

  Lemma inr_inj {A B} (x y : B) : @inr A B x = inr y -> x = y.
  Proof. intros H. injection H. auto. Qed.

  Theorem request_roundtrip r : good_request r -> from_uri (to_uri r) = Ok r.
  Proof.
    intros G. destruct r as [|[i p] [|ip2 r']]; [reflexivity | | apply from_uri_general, G].
    unfold Model.to_uri. destruct (i =? 0) eqn:E0; [|apply from_uri_general, G].
    apply Z.eqb_eq in E0. subst i.
    pose proof (good_request_each _ G) as Each. inversion Each as [|? ? (_ & Gp) _]; subst. cbn [snd] in Gp.
    pose proof (good_request_valid _ G) as Vp.
    pose proof (renders_payment_params p None I Gp) as R. cbn [idx_val] in R.
    set (qp := payment_params addr p None) in *. set (ips := map (fun q => (q, 0)) (tl (params_of p))) in *.
    assert (Span : forall Y, stops (fun c => negb (c =? 63)) Y ->
              span (fun c => negb (c =? 63)) (addr_enc (p_addr p) ++ Y) = (addr_enc (p_addr p), Y)).
    { intros Y HY. apply span_app; [|exact HY]. eapply forallb_impl; [apply alnum_not_63 | apply addr_enc_alnum]. }
    assert (Fin : group addr ips [(0, [PAddr (p_addr p)])] = inr (grouped [(0, p)])).
    { pose proof (group_same_index 0 (tl (params_of p)) [PAddr (p_addr p)] [] [] ltac:(constructor)
                    (params_of_nodup p ltac:(inversion Vp; assumption))) as GS.
      rewrite app_nil_r in GS. cbn [app] in GS. exact GS. }
    unfold Model.from_uri, lead_addr. rewrite strip_prefix_app.
    destruct qp as [|q qp'] eqn:Eq.
    - inversion R as [E1 E2|]; subst. cbn [is_nil app join].
      rewrite (Span [] I). rewrite (is_nil_false _ (addr_enc_nonempty (p_addr p))). rewrite addr_rt.
      rewrite <- E2 in Fin. cbn [group] in Fin. cbn [group]. apply inr_inj in Fin. rewrite Fin.
      apply build_grouped. exact Vp.
    - cbn [is_nil]. cbn [app]. rewrite (Span (63 :: join 38 (q :: qp')) ltac:(reflexivity)).
      rewrite (is_nil_false _ (addr_enc_nonempty (p_addr p))), addr_rt. rewrite Z.eqb_refl.
      rewrite (params_list_render _ _ R). cbn [is_nil]. rewrite Fin. apply build_grouped. exact Vp.
  Qed.
End WithAddresses.
