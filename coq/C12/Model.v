(** C12 — executable model of components/zip321/src/lib.rs (rendering and parsing of ZIP 321
    payment-request URIs), of the [MemoBytes] padding rule of zcash_protocol/src/memo.rs, and of
    the three external string codecs the code calls (percent-encoding 2.3.1, base64 0.22.1
    URL_SAFE_NO_PAD, [str::from_utf8]).  Strings are byte lists ([list Z], every element
    in 0..255).  Addresses are abstract (a [Section] oracle).  No proofs in this file. *)
From V.Lib Require Import Base MachInt.
From V.Gen Require Import C12Consts.
Local Open Scope Z_scope.

Definition bytes := list Z.
Definition bytes_eqb : bytes -> bytes -> bool := list_eqb Z.eqb.

(** ** Character classes (nom 7.1.3 [AsChar for char]: all ASCII-only) *)
Definition is_digit (c : Z) : bool := (48 <=? c) && (c <=? 57).
Definition is_nonzero_digit (c : Z) : bool := (49 <=? c) && (c <=? 57).
Definition is_upper (c : Z) : bool := (65 <=? c) && (c <=? 90).
Definition is_lower (c : Z) : bool := (97 <=? c) && (c <=? 122).
Definition is_alpha (c : Z) : bool := is_upper c || is_lower c.
Definition is_alnum (c : Z) : bool := is_alpha c || is_digit c.
Definition in_set (s : list Z) (c : Z) : bool := existsb (Z.eqb c) s.
(** ["-._~!$'()*+,;:@%"] *)
Definition qchar_extra : list Z := QCHARS_ALLOWED.
Definition is_qchar (c : Z) : bool := is_alnum c || in_set qchar_extra c.
(** ["+-"] *)
Definition is_namechar (c : Z) : bool := is_alnum c || in_set [43; 45] c.

(** [split_at_position_complete]: longest prefix whose characters satisfy [p], and the rest. *)
Fixpoint span (p : Z -> bool) (l : bytes) : bytes * bytes :=
  match l with
  | [] => ([], [])
  | c :: r => if p c then let (a, b) := span p r in (c :: a, b) else ([], l)
  end.

Fixpoint strip_prefix (p l : bytes) : option bytes :=
  match p, l with
  | [], _ => Some l
  | a :: p', b :: l' => if a =? b then strip_prefix p' l' else None
  | _ :: _, [] => None
  end.
Definition starts_with (p l : bytes) : bool := match strip_prefix p l with Some _ => true | None => false end.

Definition is_nil {A} (l : list A) : bool := match l with [] => true | _ => false end.

(** ** Decimal integers ([u64]/[usize] [Display] and [FromStr]) *)
Fixpoint dec_val_acc (acc : Z) (l : bytes) : Z :=
  match l with
  | [] => acc
  | c :: r => dec_val_acc (acc * 10 + (c - 48)) r
  end.
Definition dec_val (l : bytes) : Z := dec_val_acc 0 l.

(** [s.parse::<u64>()] for [s] made of ASCII digits (the only way the code calls it):
    error on the empty string and on overflow. *)
Definition parse_u64 (s : bytes) : option Z :=
  if is_nil s then None
  else if forallb is_digit s then u64_checked (dec_val s) else None.

(** Little-endian decimal digits; [fuel] bounds the number of digits (20 suffice for u64). *)
Fixpoint digits_le (fuel : nat) (n : Z) : list Z :=
  match fuel with
  | O => []
  | S f => (n mod 10) :: (if n <? 10 then [] else digits_le f (n / 10))
  end.
Definition dec_str (n : Z) : bytes := map (fun d => 48 + d) (rev (digits_le 20 n)).

(** ** render::amount_str *)
Fixpoint drop_while (p : Z -> bool) (l : bytes) : bytes :=
  match l with
  | [] => []
  | c :: r => if p c then drop_while p r else l
  end.
(** [trim_end_matches(c)] *)
Definition trim_end (c : Z) (l : bytes) : bytes := rev (drop_while (Z.eqb c) (rev l)).
(** [{:0>8}] / [{:0<8}] *)
Definition pad_left (w : nat) (c : Z) (l : bytes) : bytes := repeat c (w - length l) ++ l.
Definition pad_right (w : nat) (c : Z) (l : bytes) : bytes := l ++ repeat c (w - length l).

Definition amount_str (a : Z) : bytes :=
  let coins := a / COIN in
  let zats := a mod COIN in
  if zats =? 0 then dec_str coins
  else trim_end 48 (dec_str coins ++ [46] ++ pad_left 8 48 (dec_str zats)).

(** ** parse::parse_amount (on the raw, not percent-decoded, value) *)
Definition parse_amount (s : bytes) : option Z :=
  let (whole, r) := span is_digit s in
  if is_nil whole then None (* digit1 *)
  else
    (* opt(preceded('.', map_opt(digit1, len <= 8))) : on failure nothing is consumed *)
    let '(dec, rest) :=
      match r with
      | c :: r' =>
          if c =? 46 then
            let (d, r'') := span is_digit r' in
            if is_nil d then (None, r)
            else if (8 <? length d)%nat then (None, r)
            else (Some d, r'')
          else (None, r)
      | [] => (None, r)
      end in
    if negb (is_nil rest) then None (* all_consuming *)
    else
      match parse_u64 whole with
      | None => None
      | Some coins =>
          match (match dec with Some d => parse_u64 (pad_right 8 48 d) | None => Some 0 end) with
          | None => None
          | Some zats =>
              match u64_checked (coins * COIN) with
              | None => None
              | Some cz =>
                  match u64_checked (cz + zats) with
                  | None => None
                  | Some t => if t <=? MAX_MONEY then Some t else None (* Zatoshis::from_u64 *)
                  end
              end
          end
      end.

(** ** percent-encoding 2.3.1 *)
(** [AsciiSet::should_percent_encode] for [QCHAR_ENCODE] = CONTROLS + the regenerated additions. *)
Definition should_encode (b : Z) : bool :=
  (128 <=? b) || (b <? 32) || (b =? 127) || in_set QCHAR_ENCODE_ADDED b.
Definition hex_upper (d : Z) : Z := if d <? 10 then 48 + d else 55 + d.
Definition pct_byte (b : Z) : bytes :=
  if should_encode b then [37; hex_upper (b / 16); hex_upper (b mod 16)] else [b].
Definition pct_encode (l : bytes) : bytes := flat_map pct_byte l.

(** [char::to_digit(16)] *)
Definition hexdig (c : Z) : option Z :=
  if is_digit c then Some (c - 48)
  else if (97 <=? c) && (c <=? 102) then Some (c - 87)
  else if (65 <=? c) && (c <=? 70) then Some (c - 55)
  else None.

(** [percent_decode]: a ['%'] not followed by two hex digits stays literal. *)
Fixpoint pct_decode (l : bytes) : bytes :=
  match l with
  | [] => []
  | c :: t =>
      if c =? 37 then
        match t with
        | h :: lo :: r =>
            match hexdig h, hexdig lo with
            | Some x, Some y => (16 * x + y) :: pct_decode r
            | _, _ => c :: pct_decode t
            end
        | _ => c :: pct_decode t
        end
      else c :: pct_decode t
  end.

(** ** [str::from_utf8]: well-formed UTF-8 (Unicode table 3-7) *)
Definition rng (lo hi c : Z) : bool := (lo <=? c) && (c <=? hi).
Definition cont (c : Z) : bool := rng 128 191 c.
Fixpoint utf8_valid (l : bytes) : bool :=
  match l with
  | [] => true
  | b0 :: r =>
      if b0 <? 128 then (0 <=? b0) && utf8_valid r
      else if rng 194 223 b0 then
        match r with b1 :: r1 => cont b1 && utf8_valid r1 | _ => false end
      else if rng 224 239 b0 then
        match r with
        | b1 :: b2 :: r2 =>
            (if b0 =? 224 then rng 160 191 b1 else if b0 =? 237 then rng 128 159 b1 else cont b1)
            && cont b2 && utf8_valid r2
        | _ => false
        end
      else if rng 240 244 b0 then
        match r with
        | b1 :: b2 :: b3 :: r3 =>
            (if b0 =? 240 then rng 144 191 b1 else if b0 =? 244 then rng 128 143 b1 else cont b1)
            && cont b2 && cont b3 && utf8_valid r3
        | _ => false
        end
      else false
  end.

(** [percent_decode(value).decode_utf8()] *)
Definition decode_str (v : bytes) : option bytes :=
  let d := pct_decode v in if utf8_valid d then Some d else None.

(** ** base64 0.22.1, engine URL_SAFE_NO_PAD (no padding written, none accepted, non-zero
    trailing bits rejected) *)
Definition b64_char (v : Z) : Z :=
  if v <? 26 then 65 + v else if v <? 52 then 71 + v else if v <? 62 then v - 4
  else if v =? 62 then 45 else 95.
Definition b64_val (c : Z) : option Z :=
  if is_upper c then Some (c - 65) else if is_lower c then Some (c - 71)
  else if is_digit c then Some (c + 4) else if c =? 45 then Some 62 else if c =? 95 then Some 63
  else None.

Fixpoint b64_encode (l : bytes) : bytes :=
  match l with
  | [] => []
  | a :: t =>
      match t with
      | [] => [b64_char (a / 4); b64_char ((a mod 4) * 16)]
      | b :: t1 =>
          match t1 with
          | [] => [b64_char (a / 4); b64_char ((a mod 4) * 16 + b / 16); b64_char ((b mod 16) * 4)]
          | c :: r =>
              b64_char (a / 4) :: b64_char ((a mod 4) * 16 + b / 16)
              :: b64_char ((b mod 16) * 4 + c / 64) :: b64_char (c mod 64) :: b64_encode r
          end
      end
  end.

Fixpoint b64_decode (l : bytes) : option bytes :=
  match l with
  | [] => Some []
  | c0 :: t =>
      match t with
      | [] => None (* length = 1 mod 4 *)
      | c1 :: t1 =>
          match b64_val c0, b64_val c1 with
          | Some v0, Some v1 =>
              match t1 with
              | [] => if v1 mod 16 =? 0 then Some [v0 * 4 + v1 / 16] else None
              | c2 :: t2 =>
                  match b64_val c2 with
                  | Some v2 =>
                      match t2 with
                      | [] => if v2 mod 4 =? 0
                              then Some [v0 * 4 + v1 / 16; (v1 mod 16) * 16 + v2 / 4] else None
                      | c3 :: r =>
                          match b64_val c3, b64_decode r with
                          | Some v3, Some d =>
                              Some (v0 * 4 + v1 / 16 :: (v1 mod 16) * 16 + v2 / 4
                                    :: (v2 mod 4) * 64 + v3 :: d)
                          | _, _ => None
                          end
                      end
                  | None => None
                  end
              end
          | _, _ => None
          end
      end
  end.

(** ** MemoBytes: exactly 512 bytes; [as_slice] drops trailing zeros; [from_bytes] pads. *)
Definition memo_as_slice (m : bytes) : bytes := trim_end 0 m.
Definition memo_from_bytes (b : bytes) : option bytes :=
  if (512 <? length b)%nat then None else Some (pad_right 512 0 b).

Inductive merr := InvalidBase64 | MemoTooLong.
Definition memo_to_base64 (m : bytes) : bytes := b64_encode (memo_as_slice m).
Definition memo_from_base64 (s : bytes) : outcome bytes merr :=
  match b64_decode s with
  | None => Err InvalidBase64
  | Some b => match memo_from_bytes b with None => Err MemoTooLong | Some m => Ok m end
  end.

(** ASCII literals used by the code. *)
Definition s_zcash : bytes := [122; 99; 97; 115; 104; 58].            (* "zcash:" *)
Definition s_address : bytes := [97; 100; 100; 114; 101; 115; 115].    (* "address" *)
Definition s_amount : bytes := [97; 109; 111; 117; 110; 116].          (* "amount" *)
Definition s_memo : bytes := [109; 101; 109; 111].                     (* "memo" *)
Definition s_label : bytes := [108; 97; 98; 101; 108].                 (* "label" *)
Definition s_message : bytes := [109; 101; 115; 115; 97; 103; 101].    (* "message" *)
Definition s_req : bytes := [114; 101; 113; 45].                       (* "req-" *)

(** [render::param_index] *)
Definition param_index (idx : option Z) : bytes :=
  match idx with
  | Some i => if 0 <? i then 46 :: dec_str i else []
  | None => []
  end.

Definition str_param (name value : bytes) (idx : option Z) : bytes :=
  name ++ param_index idx ++ [61] ++ pct_encode value.
Definition amount_param (a : Z) (idx : option Z) : bytes :=
  s_amount ++ param_index idx ++ [61] ++ amount_str a.
Definition memo_param (m : bytes) (idx : option Z) : bytes :=
  s_memo ++ param_index idx ++ [61] ++ memo_to_base64 m.

Fixpoint join (sep : Z) (l : list bytes) : bytes :=
  match l with
  | [] => []
  | [x] => x
  | x :: r => x ++ sep :: join sep r
  end.

Definition opt_list {A} (o : option A) : list A := match o with Some a => [a] | None => [] end.

Inductive zerr :=
| EParse
| ETooMany (n : Z)
| EDup (idx : Z)
| ETransparentMemo (idx : Z)
| EZeroTransparent (idx : Z)
| ERecipientMissing (idx : Z).

Inductive perr := PTransparentMemo | PZeroTransparent.

Section WithAddresses.
  (** The address oracle: [ZcashAddress], [try_from_encoded], [encode], [can_receive_memo],
      [is_transparent_only], and [==]. *)
  Variable addr : Type.
  Variable addr_dec : bytes -> option addr.
  Variable addr_enc : addr -> bytes.
  Variable can_memo : addr -> bool.
  Variable t_only : addr -> bool.
  Variable addr_eqb : addr -> addr -> bool.

  Record payment := mkPayment {
    p_addr : addr;
    p_amount : option Z;
    p_memo : option bytes;          (* 512 bytes *)
    p_label : option bytes;
    p_message : option bytes;
    p_other : list (bytes * bytes)
  }.

  (** [BTreeMap<usize, Payment>]: association list with strictly increasing keys. *)
  Definition request := list (Z * payment).

  Inductive param :=
  | PAddr (a : addr)
  | PAmount (z : Z)
  | PMemo (m : bytes)
  | PLabel (s : bytes)
  | PMessage (s : bytes)
  | POther (n v : bytes).

  (** *** Payment::new *)
  Definition payment_new (a : addr) (amount : option Z) (memo : option bytes)
             (label message : option bytes) (other : list (bytes * bytes)) : outcome payment perr :=
    if (match memo with Some _ => true | None => false end) && negb (can_memo a)
    then Err PTransparentMemo
    else if t_only a && (match amount with Some a => a =? 0 | None => false end)
    then Err PZeroTransparent
    else Ok (mkPayment a amount memo label message other).

  (** *** to_uri *)
  Definition addr_param (a : addr) (idx : option Z) : bytes :=
    s_address ++ param_index idx ++ [61] ++ addr_enc a.

  Definition payment_params (p : payment) (idx : option Z) : list bytes :=
    opt_list (option_map (fun a => amount_param a idx) (p_amount p))
    ++ opt_list (option_map (fun m => memo_param m idx) (p_memo p))
    ++ opt_list (option_map (fun s => str_param s_label s idx) (p_label p))
    ++ opt_list (option_map (fun s => str_param s_message s idx) (p_message p))
    ++ map (fun nv => str_param (fst nv) (snd nv) idx) (p_other p).

  Definition to_uri_general (r : request) : bytes :=
    s_zcash ++ 63 ::
      join 38 (flat_map (fun ip =>
                 let idx := if fst ip =? 0 then None else Some (fst ip) in
                 addr_param (p_addr (snd ip)) idx :: payment_params (snd ip) idx) r).

  Definition to_uri (r : request) : bytes :=
    match r with
    | [] => s_zcash
    | [(i, p)] =>
        if i =? 0 then
          let qp := payment_params p None in
          s_zcash ++ addr_enc (p_addr p) ++ (if is_nil qp then [] else [63]) ++ join 38 qp
        else to_uri_general r
    | _ => to_uri_general r
    end.

  (** *** parse::has_duplicate_param *)
  Definition same_kind (p0 p : param) : bool :=
    match p0, p with
    | PAddr _, PAddr _ => true
    | PAmount _, PAmount _ => true
    | PMemo _, PMemo _ => true
    | PLabel _, PLabel _ => true
    | PMessage _, PMessage _ => true
    | POther n _, POther n0 _ => bytes_eqb n n0
    | _, _ => false
    end.
  Definition has_duplicate_param (v : list param) (p : param) : bool :=
    existsb (fun p0 => same_kind p0 p) v.

  (** *** parse::to_payment *)
  Fixpoint find_addr (vs : list param) : option addr :=
    match vs with
    | [] => None
    | PAddr a :: _ => Some a
    | _ :: r => find_addr r
    end.

  Fixpoint apply_params (vs : list param) (i : Z) (p : payment) : outcome payment zerr :=
    match vs with
    | [] => Ok p
    | v :: r =>
        match v with
        | PAmount a =>
            if t_only (p_addr p) && (a =? 0) then Err (EZeroTransparent i)
            else apply_params r i (mkPayment (p_addr p) (Some a) (p_memo p) (p_label p) (p_message p) (p_other p))
        | PMemo m =>
            if can_memo (p_addr p)
            then apply_params r i (mkPayment (p_addr p) (p_amount p) (Some m) (p_label p) (p_message p) (p_other p))
            else Err (ETransparentMemo i)
        | PLabel s => apply_params r i (mkPayment (p_addr p) (p_amount p) (p_memo p) (Some s) (p_message p) (p_other p))
        | PMessage s => apply_params r i (mkPayment (p_addr p) (p_amount p) (p_memo p) (p_label p) (Some s) (p_other p))
        | POther n s => apply_params r i (mkPayment (p_addr p) (p_amount p) (p_memo p) (p_label p) (p_message p) (p_other p ++ [(n, s)]))
        | PAddr _ => apply_params r i p
        end
    end.

  Definition to_payment (vs : list param) (i : Z) : outcome payment zerr :=
    match find_addr vs with
    | None => Err (ERecipientMissing i)
    | Some a => apply_params vs i (mkPayment a None None None None [])
    end.

  (** *** parse::lead_addr : "zcash:" then everything up to the first '?' *)
  Definition lead_addr (input : bytes) : option (option addr * bytes) :=
    match strip_prefix s_zcash input with
    | None => None
    | Some r =>
        let (a, rest) := span (fun c => negb (c =? 63)) r in
        if is_nil a then Some (None, rest)
        else match addr_dec a with
             | Some ad => Some (Some ad, rest)
             | None => None
             end
    end.

  (** *** parse::indexed_name : alpha1 namechars [ "." nonzero-digit digit{0,3} ] *)
  Definition indexed_name (input : bytes) : option (bytes * option bytes * bytes) :=
    let (a, r1) := span is_alpha input in
    if is_nil a then None
    else
      let (n, r2) := span is_namechar r1 in
      let name := a ++ n in
      match r2 with
      | c :: d :: r3 =>
          if (c =? 46) && is_nonzero_digit d then
            let (ds, r4) := span is_digit r3 in
            if (3 <? length ds)%nat then Some (name, None, r2) else Some (name, Some (d :: ds), r4)
          else Some (name, None, r2)
      | _ => Some (name, None, r2)
      end.

  (** *** parse::to_indexed_param *)
  Definition to_indexed_param (name : bytes) (iopt : option bytes) (value : bytes) : option (param * Z) :=
    let op :=
      if bytes_eqb name s_address then option_map PAddr (addr_dec value)
      else if bytes_eqb name s_amount then option_map PAmount (parse_amount value)
      else if bytes_eqb name s_label then option_map PLabel (decode_str value)
      else if bytes_eqb name s_message then option_map PMessage (decode_str value)
      else if bytes_eqb name s_memo then
        match memo_from_base64 value with Ok m => Some (PMemo m) | _ => None end
      else if starts_with s_req name then None
      else option_map (POther name) (decode_str value) in
    match op with
    | None => None
    | Some p =>
        match iopt with
        | Some istr => match parse_u64 istr with Some i => Some (p, i) | None => None end
        | None => Some (p, 0)
        end
    end.

  (** *** parse::zcashparam : indexed_name "=" qchars, then to_indexed_param *)
  Definition zcashparam (input : bytes) : option ((param * Z) * bytes) :=
    match indexed_name input with
    | None => None
    | Some (name, iopt, r) =>
        match r with
        | c :: r' =>
            if c =? 61 then
              let (value, r'') := span is_qchar r' in
              match to_indexed_param name iopt value with
              | None => None
              | Some ip => Some (ip, r'')
              end
            else None
        | [] => None
        end
    end.

  (** *** separated_list0(char('&'), zcashparam) : the loop after the first element.  Every
      iteration consumes the separator, so [fuel = length input] is never exhausted before the
      input is. *)
  Fixpoint params_tail (fuel : nat) (i : bytes) (acc : list (param * Z)) : list (param * Z) * bytes :=
    match fuel with
    | O => (acc, i)
    | S f =>
        match i with
        | c :: i1 =>
            if c =? 38 then
              match zcashparam i1 with
              | None => (acc, i)
              | Some (p, i2) => params_tail f i2 (acc ++ [p])
              end
            else (acc, i)
        | [] => (acc, i)
        end
    end.
  Definition params_list (i : bytes) : list (param * Z) * bytes :=
    match zcashparam i with
    | None => ([], i)
    | Some (p, i1) => params_tail (length i1) i1 [p]
    end.

  (** *** grouping by payment index with duplicate detection *)
  Fixpoint map_get {V} (k : Z) (m : list (Z * V)) : option V :=
    match m with
    | [] => None
    | (k', v) :: r => if k =? k' then Some v else map_get k r
    end.
  Fixpoint map_set {V} (k : Z) (v : V) (m : list (Z * V)) : list (Z * V) :=
    match m with
    | [] => [(k, v)]
    | (k', v') :: r =>
        if k <? k' then (k, v) :: m
        else if k =? k' then (k, v) :: r
        else (k', v') :: map_set k v r
    end.

  Fixpoint group (xs : list (param * Z)) (m : list (Z * list param)) : Z + list (Z * list param) :=
    match xs with
    | [] => inr m
    | (p, i) :: r =>
        match map_get i m with
        | None => group r (map_set i [p] m)
        | Some cur => if has_duplicate_param cur p then inl i else group r (map_set i (cur ++ [p]) m)
        end
    end.

  Fixpoint build (m : list (Z * list param)) : outcome request zerr :=
    match m with
    | [] => Ok []
    | (i, ps) :: r =>
        match to_payment ps i with
        | Ok p => match build r with Ok q => Ok ((i, p) :: q) | Err e => Err e | Panic => Panic end
        | Err e => Err e
        | Panic => Panic
        end
    end.

  (** *** TransactionRequest::from_uri *)
  Definition from_uri (uri : bytes) : outcome request zerr :=
    match lead_addr uri with
    | None => Err EParse
    | Some (lead, rest) =>
        let oxs :=
          match rest with
          | [] => Some []
          | c :: r =>
              if c =? 63 then let (xs, r') := params_list r in if is_nil r' then Some xs else None
              else None
          end in
        match oxs with
        | None => Err EParse
        | Some xs =>
            let init := match lead with Some a => [(0, [PAddr a])] | None => [] end in
            match group xs init with
            | inl i => Err (EDup i)
            | inr m => build m
            end
        end
    end.

  (** *** equality of requests ([derive(PartialEq)]) *)
  Definition obytes_eqb := option_eqb bytes_eqb.
  Definition payment_eqb (p q : payment) : bool :=
    addr_eqb (p_addr p) (p_addr q) && option_eqb Z.eqb (p_amount p) (p_amount q)
    && obytes_eqb (p_memo p) (p_memo q) && obytes_eqb (p_label p) (p_label q)
    && obytes_eqb (p_message p) (p_message q)
    && list_eqb (pair_eqb bytes_eqb bytes_eqb) (p_other p) (p_other q).
  Definition request_eqb : request -> request -> bool := list_eqb (pair_eqb Z.eqb payment_eqb).

  (** *** TransactionRequest::new (payments take the indices 0,1,2,…) and from_indexed *)
  Fixpoint enumerate_from (i : Z) (ps : list payment) : request :=
    match ps with
    | [] => []
    | p :: r => (i, p) :: enumerate_from (i + 1) r
    end.

  (** additional-parameter names accepted by [new]: a [paramname] with no index suffix that is
      not one of RESERVED_PARAM_NAMES *)
  Definition other_name_ok (n : bytes) : bool :=
    negb (existsb (bytes_eqb n) [s_address; s_amount; s_memo; s_label; s_message])
    && match indexed_name n with Some (_, None, []) => true | _ => false end.

  Definition request_new (ps : list payment) : outcome request zerr :=
    if 9999 <? Z.of_nat (length ps) then Err (ETooMany (Z.of_nat (length ps)))
    else if negb (forallb (fun p => forallb (fun nv => other_name_ok (fst nv)) (p_other p)) ps) then Err EParse
    else
      let r := enumerate_from 0 ps in
      if is_nil r then Ok r
      else match from_uri (to_uri r) with
           | Ok _ => Ok r
           | Err e => Err e
           | Panic => Panic
           end.

  Definition from_indexed (r : request) : outcome request zerr :=
    match find (fun ip => 9999 <? fst ip) r with
    | Some (k, _) => Err (ETooMany k)
    | None => Ok r
    end.

  (** *** TransactionRequest::total : [try_fold] with checked addition *)
  Fixpoint total_from (acc : option Z) (r : request) : outcome (option Z) unit :=
    match r with
    | [] => Ok acc
    | (_, p) :: q =>
        match acc, p_amount p with
        | Some t, Some v => if t + v <=? MAX_MONEY then total_from (Some (t + v)) q else Err tt
        | _, _ => total_from None q
        end
    end.
  Definition total (r : request) : outcome (option Z) unit := total_from (Some 0) r.
End WithAddresses.

Arguments mkPayment {addr}.
Arguments p_addr {addr}. Arguments p_amount {addr}. Arguments p_memo {addr}.
Arguments p_label {addr}. Arguments p_message {addr}. Arguments p_other {addr}.
Arguments PAddr {addr}. Arguments PAmount {addr}. Arguments PMemo {addr}.
Arguments PLabel {addr}. Arguments PMessage {addr}. Arguments POther {addr}.
