(** C12 — base64url (no padding) and the MemoBytes padding rule: memo bytes survive rendering and
    parsing unchanged. *)
From V.Lib Require Import Base MachInt.
From V.Gen Require Import C12Consts.
From V.C12 Require Import Model Spec.
From Coq Require Import ZifyBool.
Local Open Scope Z_scope.

Ltac dm := Z.div_mod_to_equations; lia.

Definition sextets : list Z := map Z.of_nat (seq 0 64).
Lemma sextet_in v : 0 <= v < 64 -> In v sextets.
Proof.
  intros H. unfold sextets. apply in_map_iff. exists (Z.to_nat v). split; [lia|]. apply in_seq. lia.
Qed.
Definition sextet_ok (v : Z) : bool :=
  match b64_val (b64_char v) with Some w => w =? v | None => false end && is_qchar (b64_char v).
Lemma sextet_sweep : forallb sextet_ok sextets = true.
Proof. vm_compute. reflexivity. Qed.
Lemma sextet_ok_all v : 0 <= v < 64 -> sextet_ok v = true.
Proof. intros H. pose proof sextet_sweep as S. rewrite forallb_forall in S. apply S, sextet_in, H. Qed.
Lemma b64_val_char v : 0 <= v < 64 -> b64_val (b64_char v) = Some v.
Proof.
  intros H. pose proof (sextet_ok_all v H) as S. unfold sextet_ok in S.
  apply andb_true_iff in S. destruct S as [S _].
  destruct (b64_val (b64_char v)) as [w|]; [|discriminate]. f_equal. lia.
Qed.
Lemma b64_char_qchar v : 0 <= v < 64 -> is_qchar (b64_char v) = true.
Proof. intros H. pose proof (sextet_ok_all v H) as S. unfold sextet_ok in S. apply andb_true_iff in S. tauto. Qed.
Lemma b64_val_range c v : b64_val c = Some v -> 0 <= v < 64.
Proof.
  unfold b64_val, is_upper, is_lower, is_digit.
  destruct ((65 <=? c) && (c <=? 90)) eqn:E1; [intros [= <-]; lia|].
  destruct ((97 <=? c) && (c <=? 122)) eqn:E2; [intros [= <-]; lia|].
  destruct ((48 <=? c) && (c <=? 57)) eqn:E3; [intros [= <-]; lia|].
  destruct (c =? 45); [intros [= <-]; lia|]. destruct (c =? 95); [intros [= <-]; lia | discriminate].
Qed.
Lemma b64_char_val c v : b64_val c = Some v -> b64_char v = c.
Proof.
  unfold b64_val, b64_char, is_upper, is_lower, is_digit.
  destruct ((65 <=? c) && (c <=? 90)) eqn:E1.
  { intros [= <-]. destruct (c - 65 <? 26) eqn:F; lia. }
  destruct ((97 <=? c) && (c <=? 122)) eqn:E2.
  { intros [= <-]. destruct (c - 71 <? 26) eqn:F; [lia|]. destruct (c - 71 <? 52) eqn:G; lia. }
  destruct ((48 <=? c) && (c <=? 57)) eqn:E3.
  { intros [= <-]. destruct (c + 4 <? 26) eqn:F; [lia|]. destruct (c + 4 <? 52) eqn:G; [lia|].
    destruct (c + 4 <? 62) eqn:K; lia. }
  destruct (c =? 45) eqn:E4; [intros [= <-]; cbn; lia|].
  destruct (c =? 95) eqn:E5; [intros [= <-]; cbn; lia | discriminate].
Qed.

Lemma list_ind3 {A} (P : list A -> Prop) :
  P [] -> (forall a, P [a]) -> (forall a b, P [a; b]) -> (forall a b c r, P r -> P (a :: b :: c :: r)) ->
  forall l, P l.
Proof. intros H0 H1 H2 H3. fix IH 1. intros [|a [|b [|c r]]]; [exact H0 | apply H1 | apply H2 | apply H3, IH]. Qed.
Lemma list_ind4 {A} (P : list A -> Prop) :
  P [] -> (forall a, P [a]) -> (forall a b, P [a; b]) -> (forall a b c, P [a; b; c]) ->
  (forall a b c d r, P r -> P (a :: b :: c :: d :: r)) -> forall l, P l.
Proof. intros H0 H1 H2 H3 H4. fix IH 1. intros [|a [|b [|c [|d r]]]]; [exact H0 | apply H1 | apply H2 | apply H3 | apply H4, IH]. Qed.

Lemma b64_roundtrip bs : Forall byte bs -> b64_decode (b64_encode bs) = Some bs.
Proof.
  induction bs as [|a|a b|a b c r IH] using list_ind3; intros Hb.
  - reflexivity.
  - inversion Hb as [|? ? Ha _]; subst. unfold byte in Ha.
    cbn [b64_encode b64_decode]. rewrite !b64_val_char by dm.
    replace ((a mod 4 * 16) mod 16 =? 0) with true by dm. do 2 f_equal. dm.
  - inversion Hb as [|? ? Ha Hb']; subst. inversion Hb' as [|? ? Hb2 _]; subst. unfold byte in *.
    cbn [b64_encode b64_decode]. rewrite !b64_val_char by dm.
    replace ((b mod 16 * 4) mod 4 =? 0) with true by dm. do 2 f_equal; [dm|]. f_equal. dm.
  - inversion Hb as [|? ? Ha Hb']; subst. inversion Hb' as [|? ? Hb2 Hb'']; subst.
    inversion Hb'' as [|? ? Hc Hr]; subst. unfold byte in Ha, Hb2, Hc.
    cbn [b64_encode b64_decode]. rewrite !b64_val_char by dm. rewrite (IH Hr).
    do 2 f_equal; [dm|]. f_equal; [dm|]. f_equal. dm.
Qed.

Lemma b64_encode_qchars bs : Forall byte bs -> forallb is_qchar (b64_encode bs) = true.
Proof.
  induction bs as [|a|a b|a b c r IH] using list_ind3; intros Hb.
  - reflexivity.
  - inversion Hb as [|? ? Ha _]; subst. unfold byte in Ha.
    cbn [b64_encode forallb]. rewrite !b64_char_qchar by dm. reflexivity.
  - inversion Hb as [|? ? Ha Hb']; subst. inversion Hb' as [|? ? Hb2 _]; subst. unfold byte in *.
    cbn [b64_encode forallb]. rewrite !b64_char_qchar by dm. reflexivity.
  - inversion Hb as [|? ? Ha Hb']; subst. inversion Hb' as [|? ? Hb2 Hb'']; subst.
    inversion Hb'' as [|? ? Hc Hr]; subst. unfold byte in Ha, Hb2, Hc.
    cbn [b64_encode forallb]. rewrite !b64_char_qchar by dm. rewrite (IH Hr). reflexivity.
Qed.

(** Shape of an accepted string: used for both "decoded values are bytes" and canonicity. *)
Lemma b64_decode_spec : forall s bs, b64_decode s = Some bs -> Forall byte bs /\ s = b64_encode bs.
Proof.
  induction s as [|c0|c0 c1|c0 c1 c2|c0 c1 c2 c3 r IH] using list_ind4; intros bs H.
  - injection H as <-. split; [constructor | reflexivity].
  - discriminate.
  - cbn [b64_decode] in H.
    destruct (b64_val c0) as [v0|] eqn:E0; [|discriminate]. destruct (b64_val c1) as [v1|] eqn:E1; [|discriminate].
    destruct (v1 mod 16 =? 0) eqn:T; [|discriminate]. injection H as <-.
    pose proof (b64_val_range _ _ E0). pose proof (b64_val_range _ _ E1).
    split; [repeat constructor; unfold byte; dm|].
    cbn [b64_encode]. rewrite <- (b64_char_val _ _ E0) at 1. rewrite <- (b64_char_val _ _ E1) at 1.
    f_equal; [f_equal; dm|]. f_equal. f_equal. dm.
  - cbn [b64_decode] in H.
    destruct (b64_val c0) as [v0|] eqn:E0; [|discriminate]. destruct (b64_val c1) as [v1|] eqn:E1; [|discriminate].
    destruct (b64_val c2) as [v2|] eqn:E2; [|discriminate].
    destruct (v2 mod 4 =? 0) eqn:T; [|discriminate]. injection H as <-.
    pose proof (b64_val_range _ _ E0). pose proof (b64_val_range _ _ E1). pose proof (b64_val_range _ _ E2).
    split; [repeat constructor; unfold byte; dm|].
    cbn [b64_encode]. rewrite <- (b64_char_val _ _ E0) at 1. rewrite <- (b64_char_val _ _ E1) at 1.
    rewrite <- (b64_char_val _ _ E2) at 1.
    f_equal; [f_equal; dm|]. f_equal; [f_equal; dm|]. f_equal. f_equal. dm.
  - cbn [b64_decode] in H.
    destruct (b64_val c0) as [v0|] eqn:E0; [|discriminate]. destruct (b64_val c1) as [v1|] eqn:E1; [|discriminate].
    destruct (b64_val c2) as [v2|] eqn:E2; [|discriminate]. destruct (b64_val c3) as [v3|] eqn:E3; [|discriminate].
    destruct (b64_decode r) as [d|] eqn:ER; [|discriminate]. injection H as <-.
    destruct (IH d eq_refl) as [Fd Sd].
    pose proof (b64_val_range _ _ E0). pose proof (b64_val_range _ _ E1).
    pose proof (b64_val_range _ _ E2). pose proof (b64_val_range _ _ E3).
    split; [repeat constructor; try exact Fd; unfold byte; dm|].
    cbn [b64_encode]. rewrite <- (b64_char_val _ _ E0) at 1. rewrite <- (b64_char_val _ _ E1) at 1.
    rewrite <- (b64_char_val _ _ E2) at 1. rewrite <- (b64_char_val _ _ E3) at 1. rewrite <- Sd.
    f_equal; [f_equal; dm|]. f_equal; [f_equal; dm|]. f_equal; [f_equal; dm|]. f_equal. f_equal. dm.
Qed.
Lemma b64_decode_bytes s bs : b64_decode s = Some bs -> Forall byte bs.
Proof. intros H. apply (b64_decode_spec s bs H). Qed.
(** canonical: the decoder accepts only the encoder's output *)
Lemma b64_decode_canonical s bs : b64_decode s = Some bs -> s = b64_encode bs.
Proof. intros H. apply (b64_decode_spec s bs H). Qed.

(** ** MemoBytes *)
Lemma rev_repeat {A} (c : A) k : rev (repeat c k) = repeat c k.
Proof.
  induction k as [|k IH]; [reflexivity|]. cbn [repeat rev]. rewrite IH. symmetry. apply repeat_cons.
Qed.
Lemma drop_while_split c l : exists k, l = repeat c k ++ drop_while (Z.eqb c) l.
Proof.
  induction l as [|x r [k IH]]; [exists O; reflexivity|].
  cbn [drop_while]. destruct (c =? x) eqn:E.
  - apply Z.eqb_eq in E. subst x. exists (S k). cbn [repeat app]. f_equal. exact IH.
  - exists O. reflexivity.
Qed.
Lemma trim_end_split c l : exists k, l = trim_end c l ++ repeat c k.
Proof.
  unfold trim_end. destruct (drop_while_split c (rev l)) as [k H]. exists k.
  rewrite <- (rev_involutive l) at 1. rewrite H at 1. rewrite rev_app_distr, rev_repeat. reflexivity.
Qed.
Lemma trim_end_incl c l x : In x (trim_end c l) -> In x l.
Proof.
  destruct (trim_end_split c l) as [k H]. intros I. rewrite H. apply in_or_app. left. exact I.
Qed.

Lemma pad_right_length w c l : (length l <= w)%nat -> length (pad_right w c l) = w.
Proof. intros H. unfold pad_right. rewrite app_length, repeat_length. lia. Qed.
Lemma pad_trim w l : length l = w -> pad_right w 0 (trim_end 0 l) = l.
Proof.
  intros L. unfold pad_right. destruct (trim_end_split 0 l) as [k H].
  assert (X : length l = length (trim_end 0 l ++ repeat 0 k)) by (rewrite <- H; reflexivity).
  rewrite app_length, repeat_length in X.
  replace (w - length (trim_end 0 l))%nat with k by lia. symmetry. exact H.
Qed.
Lemma trim_end_length_le c l : (length (trim_end c l) <= length l)%nat.
Proof.
  destruct (trim_end_split c l) as [k H].
  assert (X : length l = length (trim_end c l ++ repeat c k)) by (rewrite <- H; reflexivity).
  rewrite app_length in X. lia.
Qed.

Lemma memo_slice_pad m : length m = 512%nat -> memo_from_bytes (memo_as_slice m) = Some m.
Proof.
  unfold memo_from_bytes, memo_as_slice. generalize 512%nat. intros N L.
  pose proof (trim_end_length_le 0 m) as T.
  destruct (N <? length (trim_end 0 m))%nat eqn:E; [apply Nat.ltb_lt in E; lia|].
  rewrite pad_trim by exact L. reflexivity.
Qed.
Lemma memo_from_bytes_length b m : memo_from_bytes b = Some m -> length m = 512%nat.
Proof.
  unfold memo_from_bytes. generalize 512%nat. intros N. destruct (N <? length b)%nat eqn:E; [discriminate|].
  apply Nat.ltb_ge in E. intros H. injection H as H. subst m. apply pad_right_length. exact E.
Qed.
Lemma memo_from_bytes_bytes b m : Forall byte b -> memo_from_bytes b = Some m -> Forall byte m.
Proof.
  unfold memo_from_bytes, pad_right. destruct (512 <? length b)%nat; [discriminate|].
  intros F [= <-]. apply Forall_app. split; [exact F|]. apply Forall_forall. intros x Hx.
  apply repeat_spec in Hx. subst x. unfold byte. lia.
Qed.
Lemma memo_as_slice_bytes m : Forall byte m -> Forall byte (memo_as_slice m).
Proof.
  rewrite !Forall_forall. intros F x Hx. apply F. eapply trim_end_incl. exact Hx.
Qed.

Lemma memo_roundtrip m : length m = 512%nat -> Forall byte m -> memo_from_base64 (memo_to_base64 m) = Ok m.
Proof.
  intros L F. unfold memo_from_base64, memo_to_base64.
  rewrite b64_roundtrip by (apply memo_as_slice_bytes; exact F).
  rewrite memo_slice_pad by exact L. reflexivity.
Qed.
Lemma memo_from_base64_ok s m : memo_from_base64 s = Ok m -> length m = 512%nat /\ Forall byte m.
Proof.
  unfold memo_from_base64. destruct (b64_decode s) as [b|] eqn:E; [|discriminate].
  destruct (memo_from_bytes b) as [m'|] eqn:E2; [|discriminate]. intros [= <-].
  split; [eapply memo_from_bytes_length; eauto | eapply memo_from_bytes_bytes; [eapply b64_decode_bytes; exact E | exact E2]].
Qed.
Lemma memo_to_base64_qchars m : Forall byte m -> forallb is_qchar (memo_to_base64 m) = true.
Proof. intros F. apply b64_encode_qchars, memo_as_slice_bytes, F. Qed.

(** A memo of any length up to 512: its bytes are a prefix of what comes back. *)
Lemma memo_roundtrip_short b : (length b <= 512)%nat -> Forall byte b ->
  exists m, memo_from_bytes b = Some m /\ memo_from_base64 (memo_to_base64 m) = Ok m /\ firstn (length b) m = b.
Proof.
  intros L F. destruct (memo_from_bytes b) as [m|] eqn:E.
  - exists m. split; [reflexivity|]. split.
    + apply memo_roundtrip; [eapply memo_from_bytes_length; eauto | eapply memo_from_bytes_bytes; eauto].
    + unfold memo_from_bytes in E. destruct (512 <? length b)%nat; [discriminate|]. injection E as <-.
      unfold pad_right. rewrite firstn_app, Nat.sub_diag, firstn_all. cbn [firstn]. apply app_nil_r.
  - exfalso. unfold memo_from_bytes in E. revert L E. generalize 512%nat. intros N L E.
    destruct (N <? length b)%nat eqn:E2; [apply Nat.ltb_lt in E2; lia | discriminate].
Qed.
