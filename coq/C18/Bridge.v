(** C18 — bridge: on a well-formed case, agreement of the implementation with the model
    ([run_case]) implies that the implementation's observed outcome satisfies the property
    checker ([prop_event], i.e. [prop_case] minus the SQLite verdicts, which are observations
    about the real database and not derivable from the model). *)
From V.Lib Require Import Base.
From V.C18 Require Import Model Spec Store Corr Wf ProofsDead ProofsKernel ProofsLife ProofsDrive ProofsRebuild ProofsSeq ProofsStrand ProofsTerm ProofsStatus ProofsMarks ProofsMarks2.
From Coq Require Import ZifyBool.
Local Open Scope Z_scope.

(* ---------------------------------------------------------------------------------------- *)
(** soundness of the equality tests *)

Lemma oz_eqb_eq : forall a b, oz_eqb a b = true -> a = b.
Proof. intros a b H. apply (option_eqb_spec Z.eqb Z.eqb_eq). exact H. Qed.
Lemma lz_eqb_eq : forall a b, list_eqb Z.eqb a b = true -> a = b.
Proof. intros a b H. apply (list_eqb_spec Z.eqb Z.eqb_eq). exact H. Qed.
Lemma kind_eqb_eq : forall a b, kind_eqb a b = true <-> a = b.
Proof.
  intros [l i|c] [l' i'|c']; simpl; split; intros H; try discriminate.
  - apply andb_true_iff in H. destruct H as [G1 G2]. apply Z.eqb_eq in G1. apply Z.eqb_eq in G2. congruence.
  - inversion H; subst. rewrite !Z.eqb_refl. reflexivity.
  - apply Z.eqb_eq in H. congruence.
  - inversion H; subst. apply Z.eqb_refl.
Qed.
Lemma ukind_eqb_eq : forall a b, ukind_eqb a b = true <-> a = b.
Proof. intros [] []; simpl; split; intros H; try discriminate; reflexivity. Qed.
Lemma txstate_eqb_eq : forall a b, txstate_eqb a b = true <-> a = b.
Proof.
  intros [] []; simpl; split; intros H; try discriminate; try reflexivity.
  - apply Z.eqb_eq in H. congruence.
  - inversion H. apply Z.eqb_refl.
Qed.
Lemma status_eqb_eq : forall a b, status_eqb a b = true <-> a = b.
Proof. intros [] []; simpl; split; intros H; try discriminate; reflexivity. Qed.

Lemma pair_eqb_eq : forall A B (ea : A -> A -> bool) (eb : B -> B -> bool),
  (forall a b, ea a b = true <-> a = b) -> (forall a b, eb a b = true <-> a = b) ->
  forall x y, pair_eqb ea eb x y = true <-> x = y.
Proof.
  intros A B ea eb Ha Hb [a b] [a' b']. unfold pair_eqb. simpl. rewrite andb_true_iff, Ha, Hb.
  split; [intros [-> ->]; reflexivity | intros H; inversion H; tauto].
Qed.

Lemma mtx_eqb_eq : forall a b, mtx_eqb a b = true <-> a = b.
Proof.
  intros a b. split.
  - intros H. unfold mtx_eqb in H. repeat (apply andb_true_iff in H; destruct H as [H ?]).
    destruct a, b; simpl in *.
    apply Z.eqb_eq in H. apply kind_eqb_eq in H8. apply lz_eqb_eq in H7. apply Z.eqb_eq in H6, H5, H3.
    apply oz_eqb_eq in H4, H1. apply txstate_eqb_eq in H0.
    apply (option_eqb_spec _ (pair_eqb_eq _ _ _ _ Z.eqb_eq ukind_eqb_eq)) in H2. congruence.
  - intros ->. unfold mtx_eqb. rewrite !Z.eqb_refl.
    rewrite (proj2 (kind_eqb_eq _ _) eq_refl), (proj2 (txstate_eqb_eq _ _) eq_refl).
    rewrite (proj2 (list_eqb_spec Z.eqb Z.eqb_eq _ _) eq_refl).
    unfold oz_eqb. rewrite !(proj2 (option_eqb_spec Z.eqb Z.eqb_eq _ _) eq_refl).
    rewrite (proj2 (option_eqb_spec _ (pair_eqb_eq _ _ _ _ Z.eqb_eq ukind_eqb_eq) _ _) eq_refl). reflexivity.
Qed.

Lemma mstate_eqb_eq : forall a b, mstate_eqb a b = true -> a = b.
Proof.
  intros a b H. unfold mstate_eqb in H. repeat (apply andb_true_iff in H; destruct H as [H ?]).
  destruct a, b; simpl in *. apply status_eqb_eq in H. apply (list_eqb_spec _ mtx_eqb_eq) in H3.
  apply lz_eqb_eq in H2. apply Z.eqb_eq in H1, H0. congruence.
Qed.

Lemma step_eqb_eq : forall a b, step_eqb a b = true -> a = b.
Proof.
  intros [] []; simpl; intros H; try discriminate; try reflexivity.
  - apply (list_eqb_spec _ (pair_eqb_eq _ _ _ _ Z.eqb_eq kind_eqb_eq)) in H. congruence.
  - apply Z.eqb_eq in H. congruence.
  - apply Z.eqb_eq in H. congruence.
Qed.

Lemma rres_eq : forall ra rb, output_eqb (ORebuild ra) (ORebuild rb) = true -> ra = rb.
Proof.
  intros ra rb H. simpl in H. destruct ra as [|e|], rb as [|e0|]; try discriminate; try reflexivity.
  destruct e, e0; try discriminate; reflexivity.
Qed.

Lemma action_eqb_eq : forall a b, action_eqb a b = true <-> a = b.
Proof. intros [] []; simpl; split; intros H; try discriminate; reflexivity. Qed.
Lemma blocker_eqb_eq : forall a b, blocker_eqb a b = true <-> a = b.
Proof. intros [] []; simpl; split; intros H; try discriminate; reflexivity. Qed.
Lemma bool_eqb_eq : forall a b, Bool.eqb a b = true <-> a = b.
Proof. intros [] []; simpl; split; intros H; try discriminate; reflexivity. Qed.
Lemma txstatus_eqb_eq : forall a b, txstatus_eqb a b = true <-> a = b.
Proof.
  intros a b. split.
  - intros H. unfold txstatus_eqb in H. rewrite !andb_true_iff in H. destruct H as [[[[[H1 H2] H3] H4] H5] H6].
    apply Z.eqb_eq in H1. apply Bool.eqb_prop in H2. apply (option_eqb_spec _ action_eqb_eq) in H3.
    apply (option_eqb_spec _ blocker_eqb_eq) in H4. apply (option_eqb_spec _ ukind_eqb_eq) in H5. apply oz_eqb_eq in H6.
    destruct a, b; simpl in *; congruence.
  - intros ->. unfold txstatus_eqb. rewrite Z.eqb_refl, (proj2 (bool_eqb_eq _ _) eq_refl).
    rewrite (proj2 (option_eqb_spec _ action_eqb_eq _ _) eq_refl), (proj2 (option_eqb_spec _ blocker_eqb_eq _ _) eq_refl).
    rewrite (proj2 (option_eqb_spec _ ukind_eqb_eq _ _) eq_refl). unfold oz_eqb.
    rewrite (proj2 (option_eqb_spec Z.eqb Z.eqb_eq _ _) eq_refl). reflexivity.
Qed.

Lemma skind_eqb_eq : forall a b, skind_eqb a b = true <-> a = b.
Proof. intros [] []; simpl; split; intros H; try discriminate; reflexivity. Qed.

Lemma output_eqb_eq : forall a b, output_eqb a b = true -> a = b.
Proof.
  intros a b H. destruct a as [|x|st p nx|ra|l e| | |], b as [|y|st' p' nx'|rb|l' e'| | |]; try (simpl in H; discriminate); try reflexivity;
    try (destruct ra as [|[]|]; simpl in H; discriminate).
  - simpl in H. apply Bool.eqb_prop in H. congruence.
  - simpl in H. apply andb_true_iff in H. destruct H as [H H3]. apply andb_true_iff in H. destruct H as [H1 H2].
    apply step_eqb_eq in H1. apply Bool.eqb_prop in H2.
    apply (option_eqb_spec _ (pair_eqb_eq _ _ _ _ Z.eqb_eq skind_eqb_eq)) in H3. congruence.
  - f_equal. apply rres_eq. exact H.
  - simpl in H. apply andb_true_iff in H. destruct H as [H1 H2].
    apply (list_eqb_spec _ txstatus_eqb_eq) in H1. apply lz_eqb_eq in H2. congruence.
Qed.

(* ---------------------------------------------------------------------------------------- *)
(** from the Prop statements to the boolean checkers *)

Lemma rows_forall2b : forall (R : txstate -> txstate -> Prop) (f : mtx -> mtx -> bool),
  (forall a b, t_id a = t_id b -> R (t_state a) (t_state b) -> f a b = true) ->
  forall x y, rows R x y -> forall2b f x y = true.
Proof.
  intros R f H x y W. induction W as [|a b l l' [E1 E2] _ IH]; simpl; [reflexivity|].
  rewrite (H a b E1 E2), IH. reflexivity.
Qed.

Lemma monotone_b_ok : forall x y, monotone x y -> monotone_b x y = true.
Proof.
  intros x y. apply rows_forall2b. intros a b E R. unfold fwd in R. rewrite E, Z.eqb_refl. simpl. lia.
Qed.

Lemma rollback_b_ok : forall h x y, rows (fun a b => b = unmine h a) x y -> rollback_exact_b h x y = true.
Proof.
  intros h x y. apply rows_forall2b. intros a b E R. rewrite E, Z.eqb_refl, R. simpl. apply txstate_eqb_eq. reflexivity.
Qed.

(** the checker's dead set is sound for [Dead] *)
Lemma sp_unmined_spec : forall t, sp_unmined t = true <-> unmined t.
Proof. intros t. unfold sp_unmined. rewrite negb_true_iff. apply is_mined_unmined. Qed.

Lemma sp_expired_spec : forall t h, sp_expired t h = true <-> expired_at t h.
Proof.
  intros t h. unfold sp_expired, expired_at. rewrite !andb_true_iff, sp_unmined_spec, negb_true_iff.
  rewrite Z.eqb_neq, Z.ltb_lt. tauto.
Qed.

Lemma sp_round_sound : forall txs sc d, sound txs sc d -> sound txs sc (sp_round txs d).
Proof.
  intros txs sc d S x H. apply mem_In in H. unfold sp_round in H. apply in_app_or in H. destruct H as [H|H].
  - apply S. apply mem_In. exact H.
  - apply in_map_iff in H. destruct H as [t [<- H]]. apply filter_In in H. destruct H as [I H].
    apply andb_true_iff in H. destruct H as [U E]. apply existsb_exists in E. destruct E as [dd [Id Md]].
    apply Dead_dep with (d := dd); [exact I | apply sp_unmined_spec; exact U | exact Id | apply S; exact Md].
Qed.

Lemma sp_dead_sound : forall txs sc, sound txs sc (sp_dead txs sc).
Proof.
  intros txs sc. unfold sp_dead. induction (length txs) as [|n IH]; simpl.
  - intros x H. apply mem_In in H. apply in_map_iff in H. destruct H as [t [<- H]]. apply filter_In in H.
    destruct H as [I H]. unfold sp_seed in H. apply andb_true_iff in H. destruct H as [U H].
    apply Dead_seed; [exact I | apply sp_unmined_spec; exact U|].
    apply orb_true_iff in H. destruct H as [H|H]; [left; apply is_some_spec; exact H | right; apply sp_expired_spec; exact H].
  - apply sp_round_sound. exact IH.
Qed.

Lemma not_dead_not_sp : forall txs sc x, ~ Dead txs sc x -> mem x (sp_dead txs sc) = false.
Proof.
  intros txs sc x H. destruct (mem x (sp_dead txs sc)) eqn:E; [|reflexivity].
  exfalso. apply H. apply sp_dead_sound. exact E.
Qed.

Lemma offer_safe_b_ok : forall s tg id, offer_safe s tg id -> offer_safe_b s tg id = true.
Proof.
  intros s tg id [t [I [E [P [D [S [X [F N]]]]]]]]. unfold offer_safe_b. apply existsb_exists. exists t.
  split; [exact I|]. rewrite E, Z.eqb_refl. rewrite (proj2 (is_proved_spec t) P). simpl.
  assert (D' : forallb (fun d => match find_tx d (m_txs s) with Some x => is_mined x | None => false end) (t_deps t) = true).
  { apply forallb_forall. intros d Hd. destruct (D d Hd) as [x [-> M]]. exact M. }
  rewrite D'. simpl.
  assert (X' : sp_expired t (tg_eff tg) = false).
  { destruct (sp_expired t (tg_eff tg)) eqn:Q; [|reflexivity]. apply sp_expired_spec in Q. contradiction. }
  rewrite X', F, (not_dead_not_sp _ _ _ N). simpl. lia.
Qed.

Lemma live_unmined_b_ok : forall s tg, (exists t, In t (m_txs s) /\ unmined t /\ ~ Dead (m_txs s) (tg_scanned tg) (t_id t)) ->
  live_unmined_b s tg = true.
Proof.
  intros s tg [t [I [U N]]]. unfold live_unmined_b. apply existsb_exists. exists t. split; [exact I|].
  rewrite (proj2 (sp_unmined_spec t) U), (not_dead_not_sp _ _ _ N). reflexivity.
Qed.

Lemma stranded_b_ok : forall s tg, stranded_b s tg = true -> stranded s tg.
Proof.
  intros s tg H. unfold stranded_b in H. apply andb_true_iff in H. destruct H as [H L].
  apply andb_true_iff in H. destruct H as [T E]. apply negb_true_iff in T, L.
  split; [exact T|]. split.
  - apply existsb_exists in E. destruct E as [t [I U]]. exists t. split; [exact I | apply sp_unmined_spec; exact U].
  - intros t I U. unfold live_unmined_b in L.
    destruct (mem (t_id t) (sp_dead (m_txs s) (tg_scanned tg))) eqn:M; [apply sp_dead_sound; exact M|].
    exfalso. assert (X : existsb (fun t => sp_unmined t && negb (mem (t_id t) (sp_dead (m_txs s) (tg_scanned tg)))) (m_txs s) = true).
    { apply existsb_exists. exists t. split; [exact I|]. rewrite (proj2 (sp_unmined_spec t) U), M. reflexivity. }
    congruence.
Qed.

(* ---------------------------------------------------------------------------------------- *)
(** the model's reaction to every event satisfies the checker *)

Definition gevent_of (s : mstate) (ev : event) : option gevent :=
  match ev with
  | ENoop => None
  | EStoreProof id => Some (GStoreProof id)
  | EApplySig id => Some (GApplySig id)
  | EAdvance sc est answers dflt mined ages =>
    Some (GAdvance (sat_of answers dflt) (mined_of mined) (mk_targets sc est) (ages, O))
  | ERecordBroadcast id => Some (GRecordBroadcast id)
  | EMarkMined id h => Some (GMarkMined id h)
  | ERollback h => Some (GRollback h)
  | EReportFailure id tip => Some (GReportFailure id tip)
  | ERecordSat sc est dets => Some (GRecordSat (mk_targets sc est) dets)
  | ERebuild id tip g c e sched anchor txid =>
    Some (GRebuild id (sat_add tip 1) g c e (sched - chain_base s (sat_add tip 1)) anchor txid)
  | EStatuses _ _ => None
  | EWalletRewind _ achieved => Some (GRollback achieved)
  | ECancel => Some GCancel
  | ESupersede => Some GSupersede
  | ERecompute => Some GRecompute
  end.

Lemma model_event_gstep : forall s ev s' o, model_event s ev = Some (s', o) ->
  match gevent_of s ev with Some g => gstep s g = Some s' | None => s' = s end.
Proof.
  intros s ev s' o H. destruct ev; cbn [model_event gevent_of gstep] in *; try (inversion H; subst; reflexivity).
  - destruct (apply_signature s id) as [s1 b] eqn:E. inversion H; subst. reflexivity.
  - destruct (advance _ _ _ _ _) as [st s1 d|]; [|discriminate]. destruct (advance_outlook _ _ _ _ _); [|discriminate].
    inversion H; subst; reflexivity.
  - destruct (crypto_ok && _); [discriminate|].
    destruct (rebuild s id (sat_add tip 1) grid_ok crypto_ok external (sched - chain_base s (sat_add tip 1)) anchor txid) as [s1 r] eqn:E.
    inversion H; subst. reflexivity.
Qed.

Lemma rebuild_exact' : forall s id target grid_ok crypto_ok external delay anchor txid,
  (crypto_ok = true -> 0 <= delay) -> target <= U32MAX ->
  Forall2 (rebuilt_rel id target) (m_txs s)
          (m_txs (fst (rebuild s id target grid_ok crypto_ok external delay anchor txid))).
Proof.
  intros s id target grid_ok crypto_ok external delay anchor txid D T. destruct crypto_ok.
  - apply rebuild_exact; [apply D; reflexivity | exact T].
  - unfold rebuild. destruct (rebuild_guard _ _ _ _); simpl; induction (m_txs s); constructor; try assumption; left; reflexivity.
Qed.

Lemma rebuild_b_ok : forall id target x y, Forall2 (rebuilt_rel id target) x y -> rebuild_exact_b id target x y = true.
Proof.
  intros id target x y H. unfold rebuild_exact_b. induction H as [|a b l l' R _ IH]; simpl; [reflexivity|].
  rewrite IH, andb_true_r. destruct R as [->|[E1 [E2 [U [X [K [N [Kd [Dp [St [Sc NX]]]]]]]]]]].
  - rewrite (proj2 (mtx_eqb_eq b b) eq_refl). reflexivity.
  - apply orb_true_iff. right.
    rewrite E1, E2, Z.eqb_refl, (proj2 (sp_unmined_spec a) U), (proj2 (sp_expired_spec a target) X), K, N, Kd, Dp.
    rewrite (proj2 (kind_eqb_eq _ _) eq_refl), (proj2 (list_eqb_spec Z.eqb Z.eqb_eq _ _) eq_refl). simpl.
    assert (NXb : sp_expired b target = false).
    { destruct (sp_expired b target) eqn:Q; [|reflexivity]. apply sp_expired_spec in Q. contradiction. }
    rewrite NXb. destruct St as [-> | ->]; simpl; lia.
Qed.

Lemma terminal_sticky_b_ok : forall s g s', gstep s g = Some s' ->
  terminal_sticky_b (match g with GRollback _ => true | _ => false end) s s' = true.
Proof.
  intros s g s' G. unfold terminal_sticky_b. destruct (is_terminal_status (m_status s)) eqn:T; [|reflexivity].
  destruct (step_status s g s' G T) as [E|[[h ->] [E1 [E2 [t [I M]]]]]].
  - rewrite E. rewrite (proj2 (status_eqb_eq _ _) eq_refl). reflexivity.
  - rewrite E1, E2. simpl. apply existsb_exists. exists t. split; [exact I|]. unfold sp_unmined. rewrite M. reflexivity.
Qed.

Lemma sat_of_no_defer : forall answers dflt,
  (is_notyet dflt || existsb (fun p => is_notyet (snd p)) answers) = false ->
  forall t h, sat_of answers dflt t <> NotYet h.
Proof.
  intros answers dflt H t h E. apply orb_false_iff in H. destruct H as [H1 H2]. unfold sat_of in E.
  destruct (lookup (t_id t) answers) as [a|] eqn:L.
  - subst a. assert (X : existsb (fun p => is_notyet (snd p)) answers = true).
    { clear H2. induction answers as [|[k v] r IH]; simpl in L; [discriminate|].
      simpl. destruct (k =? t_id t); [inversion L; subst; reflexivity|]. rewrite (IH L). apply orb_true_r. }
    congruence.
  - subst dflt. discriminate.
Qed.

Lemma forall2b'_map : forall A B (f : A -> B -> bool) (g : A -> B) l,
  forall2b' f l (map g l) = forallb (fun a => f a (g a)) l.
Proof. intros A B f g l. induction l as [|a l IH]; simpl; [reflexivity | rewrite IH; reflexivity]. Qed.

Lemma tx_status_id : forall s tg dead t, ts_id (tx_status s tg dead t) = t_id t.
Proof.
  intros. unfold tx_status. destruct (row_unsatisfiable dead t); [reflexivity|].
  destruct (negb (is_mined t) && is_some (t_fail t)); [reflexivity|].
  destruct (is_expired t (tg_scanned tg)); [reflexivity|]. destruct (is_expired t (tg_eff tg)); [reflexivity|].
  destruct (t_state t); try reflexivity; destruct (negb (deps_mined (m_txs s) (t_deps t))); try reflexivity;
    [destruct (prove_ready s tg t); reflexivity | destruct (t_sched t <=? tg_eff tg); reflexivity].
Qed.

Lemma statuses_ok : forall s tg, NoDup (map t_id (m_txs s)) -> statuses_ok_b s tg (transaction_statuses s tg) = true.
Proof.
  intros s tg ND. unfold statuses_ok_b, transaction_statuses. rewrite forall2b'_map. apply forallb_forall. intros t I.
  unfold status_row_ok.
  assert (E0 : (if row_dead_b s tg t then option_eqb blocker_eqb (ts_blocked (tx_status s tg (dead_set s tg) t)) (Some BUnsatisfiable) else true) = true).
  { destruct (row_dead_b s tg t) eqn:RD; [|reflexivity]. unfold row_dead_b in RD. apply andb_true_iff in RD. destruct RD as [U D].
    assert (RU : row_unsatisfiable (dead_set s tg) t = true).
    { unfold row_unsatisfiable. unfold sp_unmined in U. rewrite U. simpl. apply orb_true_iff in D. destruct D as [D|D]; [rewrite D; reflexivity|].
      apply orb_true_iff. right. apply existsb_exists in D. destruct D as [d [Id Md]]. apply existsb_exists. exists d. split; [exact Id|].
      apply dead_set_complete. apply sp_dead_sound. exact Md. }
    unfold tx_status. rewrite RU. reflexivity. }
  rewrite E0. rewrite tx_status_id, Z.eqb_refl. simpl.
  destruct (status_ready_action s tg (dead_set s tg) t) as [RA RB].
  set (x := tx_status s tg (dead_set s tg) t) in *.
  assert (E2 : Bool.eqb (ts_ready x) (is_some (ts_action x)) = true).
  { destruct (ts_ready x) eqn:R.
    - destruct (ts_action x); [reflexivity|]. exfalso. apply (proj1 RA eq_refl). reflexivity.
    - destruct (ts_action x) eqn:A; [|reflexivity]. exfalso. assert (false = true) by (apply RA; discriminate). discriminate. }
  rewrite E2. simpl.
  assert (E3 : (if ts_ready x then negb (is_some (ts_blocked x)) else true) = true).
  { destruct (ts_ready x); [|reflexivity]. rewrite (RB eq_refl). reflexivity. }
  rewrite E3. simpl.
  assert (E4 : (if is_mined t then negb (ts_ready x) && negb (is_some (ts_blocked x))
                else ts_ready x || is_some (ts_blocked x) || txstate_eqb (t_state t) Bcast) = true).
  { destruct (is_mined t) eqn:M.
    - destruct (status_mined s tg (dead_set s tg) t M) as [A [_ C]]. fold x in A, C. rewrite A, C. reflexivity.
    - destruct (status_never_silent s tg (dead_set s tg) t M) as [A|[A|A]]; fold x in A.
      + rewrite A. reflexivity.
      + destruct (ts_blocked x); [simpl; rewrite orb_true_r; reflexivity|congruence].
      + rewrite A. simpl. apply orb_true_r. }
  rewrite E4. simpl.
  destruct (ts_action x) as [[|]|] eqn:A; try reflexivity.
  apply offer_safe_b_ok. apply (status_ready_broadcast_kernel s tg t ND I) in A.
  destruct (bcast_ok_safe s tg [] t I A) as [O _]. exact O.
Qed.

Theorem bridge_event : forall pre ev post out, NoDup (map t_id (m_txs pre)) ->
  match model_event pre ev with Some (s', o) => s' = post /\ o = out | None => False end ->
  prop_event pre ev post out = true.
Proof.
  intros pre ev post out NDP H. destruct (model_event pre ev) as [[s' o]|] eqn:M; [|contradiction].
  destruct H as [-> ->]. pose proof (model_event_gstep _ _ _ _ M) as G.
  unfold prop_event. destruct (gevent_of pre ev) as [g|] eqn:GE.
  2:{ assert (TS : terminal_sticky_b false post post = true)
        by (unfold terminal_sticky_b; destruct (is_terminal_status _); [rewrite (proj2 (status_eqb_eq _ _) eq_refl)|]; reflexivity).
      destruct ev; try discriminate; subst; simpl; rewrite (monotone_b_ok _ _ (monotone_refl _)), TS; simpl; [reflexivity|].
      simpl in M. inversion M; subst. rewrite statuses_ok by exact NDP. reflexivity. }
  pose proof (step_lifecycle _ _ _ G) as L. pose proof (terminal_sticky_b_ok _ _ _ G) as T.
  destruct ev; simpl in GE; inversion GE; subst; clear GE; simpl in L, T |- *;
    try (rewrite (monotone_b_ok _ _ L), T; simpl in M; inversion M; subst; reflexivity).
  - (* advance *)
    rewrite (monotone_b_ok _ _ L), T. simpl in M.
    destruct (advance (sat_of answers dflt) (mined_of mined) pre (mk_targets scanned est) (ages, O)) as [st s1 d|] eqn:A; [|discriminate].
    destruct (advance_outlook (sat_of answers dflt) (mined_of mined) pre (mk_targets scanned est) (ages, O)) as [nx|]; [|discriminate].
    inversion M; subst. simpl.
    assert (B : match st with SBroadcast id => offer_safe_b post (mk_targets scanned est) id | _ => true end = true).
    { destruct st; try reflexivity. apply offer_safe_b_ok. eapply advance_broadcast_safe. exact A. }
    rewrite B. simpl. unfold no_strand_b.
    destruct (is_notyet dflt || existsb (fun p => is_notyet (snd p)) answers) eqn:D.
    + (* the store deferred something *)
      rewrite andb_false_r. simpl. rewrite andb_true_r.
      destruct st; try reflexivity; [rewrite orb_true_r; reflexivity|].
      destruct (advance_complete _ _ _ _ _ _ _ A) as [X|[X1 X2]]; [rewrite X; reflexivity|].
      unfold all_mined in X2. rewrite X2. destruct (m_txs post); [congruence|]. apply orb_true_r.
    + pose proof (sat_of_no_defer _ _ D) as ND. rewrite orb_false_r. simpl. rewrite andb_true_r.
      apply andb_true_iff. split.
      * destruct st; try reflexivity.
        -- destruct (m_txs post) eqn:E; [reflexivity|]. simpl. apply live_unmined_b_ok.
           eapply advance_waiting_live; [exact ND | exact A | congruence].
        -- destruct (advance_complete _ _ _ _ _ _ _ A) as [X|[X1 X2]]; [rewrite X; reflexivity|].
           unfold all_mined in X2. rewrite X2. destruct (m_txs post); [congruence|]. apply orb_true_r.
      * destruct (stranded_b post (mk_targets scanned est)) eqn:S; [|reflexivity]. apply stranded_b_ok in S.
        destruct (advance_stranded_surfaces _ _ ND _ _ _ _ _ _ A S) as [->|[->|[id ->]]]; reflexivity.
  - (* rollback *) rewrite (rollback_b_ok _ _ _ L), T. simpl in M. inversion M; subst. reflexivity.
  - (* rebuild *)
    cbn [model_event] in M. destruct (crypto_ok && _) eqn:CO; [discriminate|].
    simpl in G. inversion G as [G'].
    assert (D : crypto_ok = true -> 0 <= sched - chain_base pre (sat_add tip 1))
      by (intros ->; simpl in CO; apply orb_false_iff in CO; lia).
    assert (TM : sat_add tip 1 <= U32MAX) by (unfold sat_add; lia).
    pose proof (rebuild_b_ok _ _ _ _ (rebuild_exact' pre id (sat_add tip 1) grid_ok crypto_ok external _ anchor txid D TM)) as RB.
    rewrite G' in RB. rewrite G', RB, T. reflexivity.
  - (* the wallet's own rewind: a rollback at the achieved height *)
    rewrite (rollback_b_ok _ _ _ L), T. simpl in M. inversion M; subst. reflexivity.
Qed.

Lemma nodupb_NoDup : forall l, nodupb l = true -> NoDup l.
Proof.
  induction l as [|x l IH]; intros H; [constructor|]. simpl in H. apply andb_true_iff in H. destruct H as [H1 H2].
  constructor; [|apply IH; exact H2]. intros I. apply mem_In in I. rewrite I in H1. discriminate.
Qed.

(** [run_case] is the premise of [bridge_event]; unique ids come from [wf_case] *)
Theorem bridge : forall pre ev post out p,
  wf_case (Case pre ev post out p) = true ->
  run_case (Case pre ev post out p) = true -> prop_event pre ev post out = true.
Proof.
  intros pre ev post out p W H. apply bridge_event.
  - unfold wf_case in W. apply andb_true_iff in W. destruct W as [W _]. apply andb_true_iff in W. destruct W as [W _].
    unfold wf_state in W. repeat (apply andb_true_iff in W; destruct W as [W ?]). apply nodupb_NoDup. exact W.
  - unfold run_case in H. destruct (model_event pre ev) as [[s' o]|]; [|discriminate].
    apply andb_true_iff in H. destruct H as [H _]. apply andb_true_iff in H. destruct H as [H1 H2].
    split; [apply mstate_eqb_eq; exact H1 | apply output_eqb_eq; exact H2].
Qed.

(* ---------------------------------------------------------------------------------------- *)
(** * Mark soundness: from the model's theorems to the boolean clause [prop_marks] *)

Lemma src_dead_b_ok : forall txs sc d, src_dead txs sc d -> src_dead_b txs sc d = true.
Proof.
  intros txs sc d [x [F [M D]]]. unfold src_dead_b. rewrite F. unfold sp_unmined, sp_expired, sp_unmined. rewrite M. simpl.
  destruct D as [D|D]; [apply is_some_spec in D; rewrite D; reflexivity|].
  unfold is_expired in D. rewrite M in D. rewrite D. apply orb_true_r.
Qed.

(** the checker with the lookup list made explicit *)
Definition nms_b (oracle : Z -> list answer) (sc : Z) (full pre post : list mtx) : bool :=
  forall2b (fun a b =>
    match t_unsat a, t_unsat b with
    | None, Some (_, KInherited) => existsb (src_dead_b full sc) (t_deps b)
    | None, Some (h, k) => existsb (fun an => answer_backs an h k) (oracle (t_id b))
    | _, _ => true
    end) pre post.

Lemma nms_ok : forall (P : Z -> answer -> Prop) oracle sc full pre post,
  (forall i an, P i an -> In an (oracle i)) ->
  marks_soundF sc full pre post ->
  Forall2 (fun a c => t_id a = t_id c /\
      (t_unsat a = None -> forall h k, t_unsat c = Some (h, k) -> k <> KInherited ->
         exists an, P (t_id c) an /\ answer_backs an h k = true)) pre post ->
  nms_b oracle sc full pre post = true.
Proof.
  intros P oracle sc full pre post O H1. unfold nms_b, marks_soundF in *.
  induction H1 as [|a c l l' [_ I] _ IH]; intros H2; inversion H2 as [|? ? ? ? [_ D] H2']; subst; simpl; [reflexivity|].
  rewrite (IH H2'), andb_true_r.
  destruct (t_unsat a) eqn:Ua; [reflexivity|]. destruct (t_unsat c) as [[h k]|] eqn:Uc; [|reflexivity].
  assert (DIR : k <> KInherited -> existsb (fun an => answer_backs an h k) (oracle (t_id c)) = true).
  { intros NK. destruct (D eq_refl h k eq_refl NK) as [an [Pa Ba]]. apply existsb_exists. exists an. split; [apply O; exact Pa | exact Ba]. }
  destruct k; try (apply DIR; discriminate).
  destruct (I eq_refl h eq_refl) as [d [Id Dd]]. apply existsb_exists. exists d. split; [exact Id | apply src_dead_b_ok; exact Dd].
Qed.

Lemma fresh_marks_soundF : forall sc full pre post, Forall2 (fresh_ok sc full) pre post -> marks_soundF sc full pre post.
Proof.
  intros sc full pre post H. unfold marks_soundF. induction H as [|a c l l' [[E _] F] _ IH]; constructor; [|exact IH].
  split; [exact E | exact F].
Qed.

Lemma dir_backed : forall (P : Z -> answer -> Prop) pre post, Forall2 (dir_ok P) pre post ->
  Forall2 (fun a c => t_id a = t_id c /\
      (t_unsat a = None -> forall h k, t_unsat c = Some (h, k) -> k <> KInherited ->
         exists an, P (t_id c) an /\ answer_backs an h k = true)) pre post.
Proof.
  intros P pre post H. induction H as [|a c l l' [[E _] F] _ IH]; constructor; [|exact IH]. split; [exact E | exact F].
Qed.

Theorem bridge_marks : forall pre ev post out, NoDup (map t_id (m_txs pre)) ->
  match model_event pre ev with Some (s', o) => s' = post /\ o = out | None => False end ->
  prop_marks pre ev post = true.
Proof.
  intros pre ev post out ND H. destruct (model_event pre ev) as [[s' o]|] eqn:M; [|contradiction]. destruct H as [-> _].
  destruct ev; try reflexivity; cbn [prop_marks model_event] in *.
  - (* advance *)
    destruct (advance (sat_of answers dflt) (mined_of mined) pre (mk_targets scanned est) (ages, O)) as [st s1 d|] eqn:A; [|discriminate].
    destruct (advance_outlook _ _ _ _ _); [|discriminate]. inversion M; subst.
    change (new_marks_sound_b ?o ?sc ?p ?q) with (nms_b o sc q p q).
    apply (nms_ok (said (sat_of answers dflt))).
    + intros i an [t [Ei Ea]]. unfold sat_of in Ea. rewrite Ei in Ea. left. exact Ea.
    + exact (advance_marks_sound _ _ _ _ _ _ _ _ ND A).
    + exact (advance_marks_backed _ _ _ _ _ _ _ _ ND A).
  - (* record_satisfiability *)
    inversion M; subst.
    change (new_marks_sound_b ?o ?sc ?p ?q) with (nms_b o sc q p q).
    apply (nms_ok (fun i a => In (i, a) dets)).
    + intros i an I. apply in_map_iff. exists (i, an). split; [reflexivity|]. apply filter_In. split; [exact I | simpl; apply Z.eqb_refl].
    + apply fresh_marks_soundF. apply record_sat_marks. exact ND.
    + apply (dir_backed (fun i a => In (i, a) dets)). apply record_sat_direct; [exact ND|]. apply Forall_forall. intros [i a] I. exact I.
Qed.

(** the full bridge: on a well-formed case, agreement with the model implies everything
    [prop_case] checks except the SQLite verdicts (observations of the real database) *)
Theorem bridge_full : forall pre ev post out p,
  wf_case (Case pre ev post out p) = true ->
  run_case (Case pre ev post out p) = true ->
  prop_event pre ev post out && prop_marks pre ev post = true.
Proof.
  intros pre ev post out p W H. rewrite (bridge pre ev post out p W H). simpl.
  assert (ND : NoDup (map t_id (m_txs pre))).
  { unfold wf_case in W. apply andb_true_iff in W. destruct W as [W _]. apply andb_true_iff in W. destruct W as [W _].
    unfold wf_state in W. repeat (apply andb_true_iff in W; destruct W as [W ?]). apply nodupb_NoDup. exact W. }
  apply (bridge_marks pre ev post out ND).
  unfold run_case in H. destruct (model_event pre ev) as [[s' o]|]; [|discriminate].
  apply andb_true_iff in H. destruct H as [H _]. apply andb_true_iff in H. destruct H as [H1 H2].
  split; [apply mstate_eqb_eq; exact H1 | apply output_eqb_eq; exact H2].
Qed.
