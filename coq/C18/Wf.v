(** C18 — domain of the theorems as a boolean on cases.

    * transaction ids are unique within the migration (the store keys rows by id);
    * every height (anchor boundaries included, up to [u32::MAX]) fits [u32];
    * the planned crossing values sum below [2^64] ([replan_required] sums in [u64]);
    * threshold in [0,100], bucket interval a non-zero [u32];
    * dependencies need NOT exist and the graph need NOT be acyclic: the theorems hold without;
    * cases of the persistence stream hold their rows in strictly increasing id order. *)
From V.Lib Require Import Base.
From V.C18 Require Import Model Spec Store StoreFull Corr.
Local Open Scope Z_scope.

Fixpoint nodupb (l : list Z) : bool :=
  match l with
  | [] => true
  | x :: r => negb (mem x r) && nodupb r
  end.

Definition in_u32 (x : Z) : bool := (0 <=? x) && (x <=? U32MAX).
Definition opt_ok (f : Z -> bool) (o : option Z) : bool := match o with Some x => f x | None => true end.

Definition wf_tx (t : mtx) : bool :=
  in_u32 (t_id t) && forallb in_u32 (t_deps t) && in_u32 (t_sched t) && in_u32 (t_expiry t)
  && opt_ok in_u32 (t_anchor t)
  && opt_ok in_u32 (option_map fst (t_unsat t)) && opt_ok in_u32 (t_fail t)
  && match t_state t with Mined h => in_u32 h | _ => true end
  && match t_kind t with Prep l i => (0 <=? l) && (0 <=? i) | Transfer c => 0 <=? c end.

Definition wf_state (s : mstate) : bool :=
  nodupb (map t_id (m_txs s)) && forallb wf_tx (m_txs s)
  && forallb (fun v => 0 <=? v) (m_cross s) && (sumZ (m_cross s) <? 2 ^ 64)
  && (0 <=? m_thr s) && (m_thr s <=? 100) && (1 <=? m_ivl s) && (m_ivl s <=? U32MAX).

Definition wf_answer (a : answer) : bool := in_u32 (as_of a).

Definition wf_event (ev : event) : bool :=
  match ev with
  | EAdvance sc est answers dflt mined ages =>
    in_u32 sc && in_u32 est && forallb (fun p => wf_answer (snd p)) answers && wf_answer dflt
    && forallb (fun p => in_u32 (snd p)) mined
    && forallb (fun a => (1 <=? a) && (a <=? 64)) ages && (length ages <=? 63)%nat
  | EMarkMined _ h | ERollback h => in_u32 h
  | EReportFailure _ tip => in_u32 tip
  | ERecordSat sc est dets => in_u32 sc && in_u32 est && forallb (fun p => wf_answer (snd p)) dets
  | ERebuild _ tip _ _ _ sched anchor _ => in_u32 tip && in_u32 sched && in_u32 anchor
  | EStatuses sc est => in_u32 sc && in_u32 est
  | EWalletRewind req achieved => in_u32 req && in_u32 achieved
  | _ => true
  end.

(** rows in strictly increasing id order (the order the SQLite store returns them in) *)
Fixpoint increasing (l : list Z) : bool :=
  match l with
  | x :: ((y :: _) as r) => (x <? y) && increasing r
  | _ => true
  end.

(** a case of the persistence stream holds its rows in id order: the round-trip theorem
    ([C18_store_roundtrip]) needs it, and the store returns rows by id *)
Definition wf_case (c : case) : bool :=
  let '(Case pre ev post _ p) := c in
  wf_state pre && wf_event ev
  && match p with
     | PNone => true
     | PFull _ _ _ _ pay pl _ =>
       increasing (map t_id (m_txs post)) && Nat.eqb (length pay) (length (m_txs post)) && plan_shape_ok (pl_layers pl)
     end.
