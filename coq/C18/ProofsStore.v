(** C18 — the row-level store model: what is written reads back equal (for transactions in id
    order — the store returns rows [ORDER BY transfer_id]), and one account never holds more than
    one non-terminal migration. *)
From V.Lib Require Import Base.
From V.Gen Require Import C18Store.
From V.C18 Require Import Model Store.
From Coq Require Import Sorted ZifyBool String.
Local Open Scope Z_scope.

(* ---------------------------------------------------------------------------------------- *)
(** sorting an already sorted list *)

Fixpoint adj_sorted {A} (lt : A -> A -> bool) (l : list A) : Prop :=
  match l with
  | x :: ((y :: _) as r) => lt x y = true /\ adj_sorted lt r
  | _ => True
  end.

Lemma sort_by_sorted : forall A (lt : A -> A -> bool) l, adj_sorted lt l -> sort_by lt l = l.
Proof.
  intros A lt l. induction l as [|x l IH]; intros H; [reflexivity|].
  unfold sort_by in *. cbn [fold_right]. destruct l as [|y r]; [reflexivity|].
  destruct H as [H1 H2]. rewrite (IH H2). cbn [insert_by]. rewrite H1. reflexivity.
Qed.

Lemma adj_sorted_map : forall A B (f : A -> B) (lt : A -> A -> bool) (lt' : B -> B -> bool) l,
  (forall x y, lt x y = true -> lt' (f x) (f y) = true) -> adj_sorted lt l -> adj_sorted lt' (map f l).
Proof.
  intros A B f lt lt' l H. induction l as [|x l IH]; intros S; [exact I|].
  destruct l as [|y r]; [exact I|]. destruct S as [S1 S2]. split; [apply H; exact S1 | apply IH; exact S2].
Qed.

Lemma sorted_adj : forall l, Sorted Z.lt l -> adj_sorted Z.ltb l.
Proof.
  intros l S. induction S as [|x l S IH H]; [exact I|].
  destruct l as [|y r]; [exact I|]. split; [inversion H; subst; lia | exact IH].
Qed.

Lemma sorted_nodup : forall l, Sorted Z.lt l -> NoDup l.
Proof.
  intros l S. apply Sorted_StronglySorted in S; [|intros x y z; lia].
  induction S as [|x l S IH H]; constructor; [|exact IH].
  intros I. rewrite Forall_forall in H. specialize (H x I). lia.
Qed.

(* ---------------------------------------------------------------------------------------- *)
(** one transaction row *)

Lemma enc_deps_from_sorted : forall id deps n, adj_sorted ord_lt (enc_deps_from id n deps).
Proof.
  intros id deps. induction deps as [|d r IH]; intros n; [exact I|].
  cbn [enc_deps_from]. destruct r as [|d' r']; [exact I|].
  split; [unfold ord_lt; simpl; apply Nat.ltb_lt; lia | apply IH].
Qed.

Lemma enc_deps_from_on : forall id deps n, map d_on (enc_deps_from id n deps) = deps.
Proof. intros id deps. induction deps as [|d r IH]; intros n; simpl; [reflexivity | rewrite IH; reflexivity]. Qed.

Lemma enc_deps_from_filter : forall id id' deps n,
  filter (fun d => d_tx d =? id') (enc_deps_from id n deps) = if id =? id' then enc_deps_from id n deps else [].
Proof.
  intros id id' deps. induction deps as [|d r IH]; intros n; simpl; [destruct (id =? id'); reflexivity|].
  rewrite IH. destruct (id =? id'); reflexivity.
Qed.

Lemma filter_other : forall l id, ~ In id (map t_id l) ->
  filter (fun d => d_tx d =? id) (flat_map enc_deps l) = [].
Proof.
  induction l as [|v l IH]; intros id H; [reflexivity|]. cbn [flat_map]. rewrite filter_app. unfold enc_deps at 1.
  rewrite enc_deps_from_filter. destruct (t_id v =? id) eqn:E.
  - exfalso. apply H. left. lia.
  - cbn [app]. apply IH. intros X. apply H. right. exact X.
Qed.

Lemma filter_mine : forall txs t, NoDup (map t_id txs) -> In t txs ->
  filter (fun d => d_tx d =? t_id t) (flat_map enc_deps txs) = enc_deps t.
Proof.
  induction txs as [|u l IH]; intros t N I; [destruct I|].
  cbn [flat_map]. rewrite filter_app. unfold enc_deps at 1. rewrite enc_deps_from_filter.
  cbn [map] in N. apply NoDup_cons_iff in N. destruct N as [N1 N2]. destruct I as [E|I].
  - subst u. rewrite Z.eqb_refl, (filter_other l (t_id t) N1), app_nil_r. reflexivity.
  - destruct (t_id u =? t_id t) eqn:E.
    + exfalso. apply N1. apply Z.eqb_eq in E. rewrite E. apply in_map. exact I.
    + cbn [app]. apply IH; assumption.
Qed.

Lemma read_deps_saved : forall txs t, NoDup (map t_id txs) -> In t txs ->
  read_deps (flat_map enc_deps txs) (t_id t) = t_deps t.
Proof.
  intros txs t N I. unfold read_deps. rewrite (filter_mine txs t N I). unfold enc_deps.
  rewrite sort_by_sorted by apply enc_deps_from_sorted. apply enc_deps_from_on.
Qed.

Lemma dec_enc : forall D t, read_deps D (t_id t) = t_deps t -> dec_tx D (enc_tx t) = Some t.
Proof.
  intros D t H. destruct t as [id k deps sch ex an txid un fl st]. simpl in H. unfold dec_tx, enc_tx. simpl.
  destruct k as [l i|c]; destruct st; destruct un as [[a uk]|]; simpl; rewrite H; reflexivity.
Qed.

Lemma all_some_ok : forall A B (f : A -> option B) (g : A -> B) l,
  (forall x, In x l -> f x = Some (g x)) -> all_some (map f l) = Some (map g l).
Proof.
  intros A B f g l. induction l as [|a l IH]; intros H; simpl; [reflexivity|].
  rewrite (H a (or_introl eq_refl)), IH; [reflexivity|]. intros x I. apply H. right. exact I.
Qed.

Lemma enc_tx_id : forall t, c_id (enc_tx t) = t_id t.
Proof. intros t. unfold enc_tx. destruct (t_kind t); destruct (t_state t); reflexivity. Qed.

Lemma rows_sorted : forall l, adj_sorted Z.ltb (map t_id l) -> adj_sorted row_lt (map enc_tx l).
Proof.
  induction l as [|x l IH]; intros S; [exact I|]. destruct l as [|y r]; [exact I|].
  cbn [map adj_sorted] in *. destruct S as [S1 S2].
  split; [unfold row_lt; rewrite !enc_tx_id; exact S1 | apply IH; exact S2].
Qed.

(** [store_roundtrip], transaction tables: for transactions in strictly increasing id order what
    [replace_migration] writes is what [get_migration] reads back. *)
Theorem store_roundtrip_txs : forall txs, Sorted Z.lt (map t_id txs) -> load_txs (save_txs txs) = Some txs.
Proof.
  intros txs S. unfold load_txs, save_txs. cbn [fst snd].
  rewrite sort_by_sorted.
  - rewrite map_map.
    rewrite (all_some_ok _ _ (fun t => dec_tx (flat_map enc_deps txs) (enc_tx t)) (fun t => t)).
    + rewrite map_id. reflexivity.
    + intros t I. apply dec_enc. apply read_deps_saved; [apply sorted_nodup; exact S | exact I].
  - apply rows_sorted. apply sorted_adj. exact S.
Qed.

(** The id order is needed: the store returns rows by id, so a state holding its rows in another
    order reads back reordered. *)
Lemma store_roundtrip_needs_id_order :
  exists txs, NoDup (map t_id txs) /\ load_txs (save_txs txs) <> Some txs.
Proof.
  exists [MkTx 1 (Transfer 0) [] 0 0 None 0 None None Signed; MkTx 0 (Transfer 0) [] 0 0 None 0 None None Signed].
  split; [repeat constructor; simpl; intuition lia | vm_compute; discriminate].
Qed.

(* ---------------------------------------------------------------------------------------- *)
(** the parent table: at most one live migration *)

(** every row but the newest is terminal *)
Fixpoint history_terminal (st : list mrow) : Prop :=
  match st with
  | [] => True
  | [_] => True
  | r :: rest => g_pending r = false /\ history_terminal rest
  end.

Lemma history_live_count : forall st, history_terminal st -> (live_count st <= 1)%nat.
Proof.
  unfold live_count. induction st as [|r rest IH]; intros H; simpl; [lia|].
  destruct rest as [|r' rest']; [destruct (g_pending r); simpl; lia|].
  destruct H as [H1 H2]. rewrite H1. apply IH. exact H2.
Qed.

Lemma update_pending_none : forall st s, update_pending st s = None -> forall r, In r st -> g_pending r = false.
Proof.
  induction st as [|a rest IH]; intros s H r I; [destruct I|]. simpl in H.
  destruct (g_pending a) eqn:E; [discriminate|].
  destruct (update_pending rest s) eqn:U; [discriminate|]. destruct I as [<-|I]; [exact E | eapply IH; eassumption].
Qed.

Lemma all_terminal_history : forall st r, (forall x, In x st -> g_pending x = false) -> history_terminal (st ++ [r]).
Proof.
  induction st as [|a rest IH]; intros r H; simpl; [exact I|].
  destruct (rest ++ [r]) eqn:E; [destruct rest; discriminate|]. rewrite <- E.
  split; [apply H; left; reflexivity | apply IH; intros x Ix; apply H; right; exact Ix].
Qed.

Lemma replace_spec : forall st s, history_terminal st ->
  history_terminal (replace_migration st s)
  /\ latest_migration (replace_migration st s) = Some s
  /\ get_migration (replace_migration st s) = (if is_terminal s then None else Some s).
Proof.
  intros st s H. unfold replace_migration.
  destruct (update_pending st s) as [st'|] eqn:U.
  - (* the pending row is the newest one and is rewritten in place *)
    revert st' U. induction st as [|a rest IH]; intros st' U; [discriminate|]. simpl in U.
    destruct rest as [|b rest'].
    + destruct (g_pending a) eqn:E; [|simpl in U; discriminate]. inversion U; subst.
      split; [exact I|]. split; [reflexivity|]. unfold get_migration. simpl. unfold g_pending. simpl.
      destruct (is_terminal s); reflexivity.
    + destruct H as [H1 H2]. rewrite H1 in U.
      destruct (update_pending (b :: rest') s) as [r'|] eqn:U2; [|discriminate]. inversion U; subst.
      destruct (IH H2 r' eq_refl) as [A [B C]].
      split; [|split].
      * simpl. destruct r' as [|x r'']; [exact I|]. split; [exact H1 | exact A].
      * unfold latest_migration in *. simpl. destruct r' as [|x r'']; [|exact B].
        simpl in U2. destruct (g_pending b); [discriminate|]. destruct (update_pending rest' s); discriminate.
      * unfold get_migration in *. simpl. rewrite H1. exact C.
  - (* no pending row: a fresh row is appended *)
    pose proof (update_pending_none st s U) as T.
    split; [apply all_terminal_history; exact T|]. split.
    + unfold latest_migration. rewrite map_app. simpl. rewrite last_last. reflexivity.
    + unfold get_migration. assert (F : forall l, (forall x, In x l -> g_pending x = false) ->
        find g_pending (l ++ [MkMig (next_rowid st) s]) = if is_terminal s then None else Some (MkMig (next_rowid st) s)).
      { induction l as [|a l IHl]; intros Hl; simpl.
        - unfold g_pending. simpl. destruct (is_terminal s); reflexivity.
        - rewrite (Hl a (or_introl eq_refl)). apply IHl. intros x Ix. apply Hl. right. exact Ix. }
      rewrite (F st T). destruct (is_terminal s); reflexivity.
Qed.

(** [one_live_migration]: over any sequence of persisted states, starting from an empty table,
    the account holds at most one non-terminal migration, the newest row is the state last
    written, and the pending-only read returns it exactly when it is not terminal. *)
Theorem one_live_migration : forall ss,
  let st := fold_left replace_migration ss [] in
  history_terminal st /\ (live_count st <= 1)%nat
  /\ match rev ss with
     | [] => True
     | s :: _ => latest_migration st = Some s /\ get_migration st = (if is_terminal s then None else Some s)
     end.
Proof.
  intros ss. assert (G : forall l st0, history_terminal st0 ->
    history_terminal (fold_left replace_migration l st0)
    /\ match rev l with
       | [] => True
       | s :: _ => latest_migration (fold_left replace_migration l st0) = Some s
                   /\ get_migration (fold_left replace_migration l st0) = (if is_terminal s then None else Some s)
       end).
  { induction l as [|s l IH] using rev_ind; intros st0 H0; simpl; [tauto|].
    rewrite fold_left_app, rev_app_distr. simpl. destruct (IH st0 H0) as [A _].
    destruct (replace_spec (fold_left replace_migration l st0) s A) as [B [C D]]. tauto. }
  destruct (G ss [] I) as [A B]. split; [exact A|]. split; [apply history_live_count; exact A | exact B].
Qed.

(* ---------------------------------------------------------------------------------------- *)
(** The columns of the real tables (regenerated from the SQL in store.rs on every run) are the
    fields of the row model, plus the key and the two opaque payload columns it omits. *)
Definition modelled_tx_columns : list String.string :=
  ["transfer_id"; "kind"; "kind_layer"; "kind_index"; "kind_crossing"; "scheduled_height"; "expiry_height";
   "anchor_boundary"; "state"; "txid"; "mined_height"; "unsatisfiable_at"; "unsatisfiable_kind";
   "broadcast_failure_at"]%string.
Definition omitted_tx_columns : list String.string := ["migration_id"; "pczt"; "lock_owner"]%string.

Lemma tx_columns_are_modelled :
  filter (fun c => negb (existsb (String.eqb c) omitted_tx_columns)) TX_COLUMNS = modelled_tx_columns.
Proof. vm_compute. reflexivity. Qed.

Lemma dep_columns_are_modelled :
  DEP_COLUMNS = ["migration_id"; "transfer_id"; "ordinal"; "depends_on_transfer_id"]%string.
Proof. vm_compute. reflexivity. Qed.
