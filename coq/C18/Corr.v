(** C18 — correspondence cases. One case per executed public API call: the canonical state
    before, the event (with the oracle tables of the scripted store), the canonical state after,
    what the call returned, and the verdicts of the SQLite save/load cycle.
    [run_case] compares model and implementation; [prop_case] evaluates the property (Spec.v) on
    the implementation's outcome alone. *)
From V.Lib Require Import Base.
From V.C18 Require Import Model Spec Store StoreFull.
Local Open Scope Z_scope.

Inductive event :=
| ENoop
| EStoreProof (id : Z)
| EApplySig (id : Z)
| EAdvance (scanned est : Z) (answers : list (Z * answer)) (dflt : answer)
           (mined : list (Z * Z)) (ages : list Z)
| ERecordBroadcast (id : Z)
| EMarkMined (id h : Z)
| ERollback (h : Z)
| EReportFailure (id tip : Z)
| ERecordSat (scanned est : Z) (dets : list (Z * answer))
| ERebuild (id tip : Z) (grid_ok crypto_ok external : bool) (sched anchor txid : Z)
| EStatuses (scanned est : Z)
| EWalletRewind (requested achieved : Z)   (* the SQLite wallet's own truncate_to_height / rewind_to_chain_state *)
| ECancel | ESupersede | ERecompute.

Inductive output :=
| OUnit | OBool (b : bool) | OStep (st : step) (persisted : bool) (next : option (Z * skind)) | ORebuild (r : rebuild_res)
| OStatuses (l : list txstatus) (expired : list Z)
| OMemDisagree   (* the in-memory backend did not agree with the scripted store on an advance call *)
| ORewindFailed  (* the wallet's truncation / rewind returned an error *)
| OPanic.
(** persistence stream: the verdicts of the load-back ([latest_migration] / [get_migration] equal
    to what was written, at most one live migration, the in-memory backend of
    zcash_pool_migration_memory agreeing with the SQLite store), the parts of the in-memory state
    the state record does not carry (payloads, plan), and a plain [SELECT] dump, in insertion
    order, of ALL the normalised tables [replace_migration] wrote *)
Inductive pers :=
| PNone
| PFull (latest_ok get_ok one_live_ok mem_ok : bool) (pay : list payload) (pl : plan) (tb : tables).

Inductive case := Case (pre : mstate) (ev : event) (post : mstate) (out : output) (p : pers).

(* ------------------------------------------------------------------------------------------ *)
(** equality tests *)
Definition oz_eqb := option_eqb Z.eqb.
Definition kind_eqb (a b : kind) : bool :=
  match a, b with
  | Prep l i, Prep l' i' => (l =? l') && (i =? i')
  | Transfer c, Transfer c' => c =? c'
  | _, _ => false
  end.
Definition ukind_eqb (a b : ukind) : bool :=
  match a, b with
  | KSpent, KSpent | KInvalidated, KInvalidated | KAnchor, KAnchor | KInherited, KInherited => true
  | _, _ => false
  end.
Definition mtx_eqb (a b : mtx) : bool :=
  (t_id a =? t_id b) && kind_eqb (t_kind a) (t_kind b) && list_eqb Z.eqb (t_deps a) (t_deps b)
  && (t_sched a =? t_sched b) && (t_expiry a =? t_expiry b) && oz_eqb (t_anchor a) (t_anchor b)
  && (t_txid a =? t_txid b) && option_eqb (pair_eqb Z.eqb ukind_eqb) (t_unsat a) (t_unsat b)
  && oz_eqb (t_fail a) (t_fail b) && txstate_eqb (t_state a) (t_state b).
Definition mstate_eqb (a b : mstate) : bool :=
  status_eqb (m_status a) (m_status b) && list_eqb mtx_eqb (m_txs a) (m_txs b)
  && list_eqb Z.eqb (m_cross a) (m_cross b) && (m_thr a =? m_thr b) && (m_ivl a =? m_ivl b).
Definition step_eqb (a b : step) : bool :=
  match a, b with
  | SProve l, SProve l' => list_eqb (pair_eqb Z.eqb kind_eqb) l l'
  | SBroadcast i, SBroadcast j | SRebuild i, SRebuild j => i =? j
  | SReplan, SReplan | SReevaluate, SReevaluate | SWaiting, SWaiting | SComplete, SComplete => true
  | _, _ => false
  end.
Definition skind_eqb (a b : skind) : bool :=
  match a, b with
  | KProve, KProve | KBroadcast, KBroadcast | KRebuild, KRebuild | KReplan, KReplan
  | KReevaluate, KReevaluate | KWaiting, KWaiting | KComplete, KComplete => true
  | _, _ => false
  end.
Definition action_eqb (a b : action) : bool := match a, b with AProve, AProve | ABroadcast, ABroadcast => true | _, _ => false end.
Definition blocker_eqb (a b : blocker) : bool :=
  match a, b with
  | BDependencies, BDependencies | BSchedule, BSchedule | BAnchorBoundary, BAnchorBoundary | BSignature, BSignature
  | BExpiryImminent, BExpiryImminent | BExpired, BExpired | BAwaitingReevaluation, BAwaitingReevaluation
  | BUnsatisfiable, BUnsatisfiable => true
  | _, _ => false
  end.
Definition txstatus_eqb (a b : txstatus) : bool :=
  (ts_id a =? ts_id b) && Bool.eqb (ts_ready a) (ts_ready b) && option_eqb action_eqb (ts_action a) (ts_action b)
  && option_eqb blocker_eqb (ts_blocked a) (ts_blocked b) && option_eqb ukind_eqb (ts_ukind a) (ts_ukind b)
  && oz_eqb (ts_mined a) (ts_mined b).
Definition output_eqb (a b : output) : bool :=
  match a, b with
  | OUnit, OUnit | OPanic, OPanic => true
  | OBool x, OBool y => Bool.eqb x y
  | OStep s p n, OStep s' p' n' => step_eqb s s' && Bool.eqb p p' && option_eqb (pair_eqb Z.eqb skind_eqb) n n'
  | OStatuses l e, OStatuses l' e' => list_eqb txstatus_eqb l l' && list_eqb Z.eqb e e'
  | ORebuild RbOk, ORebuild RbOk | ORebuild RbLate, ORebuild RbLate => true
  | ORebuild (RbErr e), ORebuild (RbErr e') =>
    match e, e' with
    | RMismatch, RMismatch | RUnknown, RUnknown | RNotTransfer, RNotTransfer
    | RUnsatisfiable, RUnsatisfiable | RNotExpired, RNotExpired => true
    | _, _ => false
    end
  | _, _ => false
  end.

Definition kname_eqb (a b : kname) : bool := match a, b with NPrep, NPrep | NTransfer, NTransfer => true | _, _ => false end.
Definition sname_eqb (a b : sname) : bool :=
  match a, b with
  | NAwaiting, NAwaiting | NSigned, NSigned | NProved, NProved | NBroadcast, NBroadcast | NMined, NMined => true
  | _, _ => false
  end.
Definition txrow_eqb (a b : txrow) : bool :=
  (c_id a =? c_id b) && kname_eqb (c_kind a) (c_kind b) && oz_eqb (c_layer a) (c_layer b)
  && oz_eqb (c_index a) (c_index b) && oz_eqb (c_crossing a) (c_crossing b) && (c_sched a =? c_sched b)
  && (c_expiry a =? c_expiry b) && oz_eqb (c_anchor a) (c_anchor b) && sname_eqb (c_state a) (c_state b)
  && oz_eqb (c_txid a) (c_txid b) && oz_eqb (c_mined a) (c_mined b) && oz_eqb (c_unsat_at a) (c_unsat_at b)
  && option_eqb ukind_eqb (c_unsat_kind a) (c_unsat_kind b) && oz_eqb (c_fail a) (c_fail b).
Definition deprow_eqb (a b : deprow) : bool :=
  (d_tx a =? d_tx b) && Nat.eqb (d_ord a) (d_ord b) && (d_on a =? d_on b).

Definition blob_eqb : blob -> blob -> bool := pair_eqb Z.eqb Z.eqb.
Definition srcname_eqb (a b : srcname) : bool := match a, b with SWallet, SWallet | SPrior, SPrior => true | _, _ => false end.
Definition prole_eqb (a b : prole) : bool :=
  match a, b with RFunding, RFunding | RIntermediate, RIntermediate | RChange, RChange => true | _, _ => false end.
Definition parentrow_eqb (a b : parentrow) : bool :=
  status_eqb (pr_status a) (pr_status b) && (pr_fee_buffer a =? pr_fee_buffer b) && oz_eqb (pr_change a) (pr_change b)
  && (pr_prep_fees a =? pr_prep_fees b) && (pr_total_input a =? pr_total_input b)
  && (pr_total_migratable a =? pr_total_migratable b) && (pr_ivl a =? pr_ivl b) && (pr_thr a =? pr_thr b).
Definition pinrow_eqb (a b : pinrow) : bool :=
  Nat.eqb (pi_layer a) (pi_layer b) && Nat.eqb (pi_tx a) (pi_tx b) && Nat.eqb (pi_ord a) (pi_ord b)
  && srcname_eqb (pi_src a) (pi_src b) && oz_eqb (pi_widx a) (pi_widx b) && oz_eqb (pi_pl a) (pi_pl b)
  && oz_eqb (pi_pt a) (pi_pt b) && oz_eqb (pi_po a) (pi_po b) && (pi_val a =? pi_val b).
Definition poutrow_eqb (a b : poutrow) : bool :=
  Nat.eqb (po_layer a) (po_layer b) && Nat.eqb (po_tx a) (po_tx b) && Nat.eqb (po_ord a) (po_ord b)
  && prole_eqb (po_role a) (po_role b) && (po_val a =? po_val b).
Definition ordrow_eqb (a b : ordrow) : bool := Nat.eqb (o_ord a) (o_ord b) && (o_val a =? o_val b).
Definition dirrow_eqb (a b : dirrow) : bool := Nat.eqb (dr_ord a) (dr_ord b) && (dr_widx a =? dr_widx b) && (dr_val a =? dr_val b).
Definition nfrow_eqb (a b : nfrow) : bool := (n_tx a =? n_tx b) && Nat.eqb (n_ord a) (n_ord b) && blob_eqb (n_blob a) (n_blob b).
Definition txpay_eqb (a b : txpay) : bool :=
  (y_id a =? y_id b) && blob_eqb (y_pczt a) (y_pczt b) && option_eqb blob_eqb (y_lock a) (y_lock b).
Definition tables_eqb (a b : tables) : bool :=
  parentrow_eqb (tb_parent a) (tb_parent b) && list_eqb ordrow_eqb (tb_cross a) (tb_cross b)
  && list_eqb pinrow_eqb (tb_pin a) (tb_pin b) && list_eqb poutrow_eqb (tb_pout a) (tb_pout b)
  && list_eqb dirrow_eqb (tb_direct a) (tb_direct b) && list_eqb txrow_eqb (tb_tx a) (tb_tx b)
  && list_eqb txpay_eqb (tb_txpay a) (tb_txpay b) && list_eqb deprow_eqb (tb_deps a) (tb_deps b)
  && list_eqb nfrow_eqb (tb_nfs a) (tb_nfs b).

(** the row model's prediction of what ALL the tables hold after [replace_migration] of the
    state [post] with payloads [pay] and plan [pl] *)
Definition rows_match (post : mstate) (p : pers) : bool :=
  match p with
  | PNone => true
  | PFull _ _ _ _ pay pl tb =>
    Nat.eqb (length pay) (length (m_txs post)) && tables_eqb (save_full (MkFull post pay pl)) tb
  end.

(* ------------------------------------------------------------------------------------------ *)
(** the scripted store as functions *)
Fixpoint lookup {A} (k : Z) (l : list (Z * A)) : option A :=
  match l with
  | [] => None
  | (k', v) :: r => if k' =? k then Some v else lookup k r
  end.
Definition sat_of (answers : list (Z * answer)) (dflt : answer) (t : mtx) : answer :=
  match lookup (t_id t) answers with Some a => a | None => dflt end.
Definition mined_of (mined : list (Z * Z)) (txid : Z) : option Z := lookup txid mined.

(** the model's reaction to an event *)
Definition model_event (s : mstate) (ev : event) : option (mstate * output) :=
  match ev with
  | ENoop => Some (s, OUnit)
  | EStoreProof id => Some (set_transaction_proved s id, OUnit)
  | EApplySig id => let '(s', b) := apply_signature s id in Some (s', OBool b)
  | EAdvance sc est answers dflt mined ages =>
    match advance (sat_of answers dflt) (mined_of mined) s (mk_targets sc est) (ages, O),
          advance_outlook (sat_of answers dflt) (mined_of mined) s (mk_targets sc est) (ages, O) with
    | ARes st s' dirty, Some nx => Some (s', OStep st dirty nx)
    | _, _ => None
    end
  | ERecordBroadcast id => Some (mark_broadcast s id, OUnit)
  | EMarkMined id h => Some (mark_mined s id h, OUnit)
  | ERollback h => Some (truncate_to_height s h, OUnit)
  | EReportFailure id tip => Some (report_broadcast_failure s id tip, OUnit)
  | ERecordSat sc est dets => Some (record_satisfiability s (mk_targets sc est) dets, OUnit)
  | ERebuild id tip grid_ok crypto_ok external sched anchor txid =>
    (* the observed new schedule determines the drawn delay, which must not be negative *)
    let target := sat_add tip 1 in
    let delay := sched - chain_base s target in
    if crypto_ok && ((delay <? 0) || (U32MAX <? sched)) then None
    else let '(s', r) := rebuild s id target grid_ok crypto_ok external delay anchor txid in Some (s', ORebuild r)
  | EStatuses sc est =>
    Some (s, OStatuses (transaction_statuses s (mk_targets sc est)) (expired_transactions s (mk_targets sc est)))
  | EWalletRewind _ achieved => Some (truncate_to_height s achieved, OUnit)
  | ECancel => Some (mark_cancelled s, OUnit)
  | ESupersede => Some (mark_superseded s, OUnit)
  | ERecompute => Some (recompute_status s, OUnit)
  end.

Definition run_case (c : case) : bool :=
  let '(Case pre ev post out p) := c in
  match model_event pre ev with
  | Some (s', o) => mstate_eqb s' post && output_eqb o out && rows_match post p
  | None => false
  end.

(* ------------------------------------------------------------------------------------------ *)
(** the property on the implementation's outcome *)
Definition is_notyet (a : answer) : bool := match a with NotYet _ => true | _ => false end.

(** a rebuild replaces at most the row with the given id, and only an unmined, unmarked transfer
    that is expired at the target; the replacement is a NEW transaction under the same id (same
    kind and dependencies): pre-signed or awaiting its signature, scheduled at or after the
    target and not expired there; every other row is untouched *)
Definition rebuild_exact_b (id target : Z) (pre post : list mtx) : bool :=
  forall2b (fun a b =>
    mtx_eqb a b
    || ((t_id a =? id) && (t_id b =? id) && sp_unmined a && sp_expired a target && is_transfer a
        && negb (is_some (t_unsat a)) && kind_eqb (t_kind a) (t_kind b) && list_eqb Z.eqb (t_deps a) (t_deps b)
        && (match t_state b with Signed | AwaitingSig => true | _ => false end)
        && (target <=? t_sched b) && negb (sp_expired b target))) pre post.

(** the status view, row by row: it never reports an unmined row silently (the row is ready with
    an action, or names what it is blocked on, or is in flight), a mined row carries neither, a
    row reported ready to broadcast is one the drive API may safely offer, and value that can no
    longer move (an unmined row that is marked or depends on a dead transaction) is reported as
    [Unsatisfiable], never as merely waiting *)
Definition row_dead_b (s : mstate) (tg : targets) (t : mtx) : bool :=
  sp_unmined t && (is_some (t_unsat t)
                   || existsb (fun d => mem d (sp_dead (m_txs s) (tg_scanned tg))) (t_deps t)).
Definition status_row_ok (s : mstate) (tg : targets) (t : mtx) (x : txstatus) : bool :=
  (if row_dead_b s tg t then option_eqb blocker_eqb (ts_blocked x) (Some BUnsatisfiable) else true) &&
  (ts_id x =? t_id t)
  && Bool.eqb (ts_ready x) (is_some (ts_action x))
  && (if ts_ready x then negb (is_some (ts_blocked x)) else true)
  && (if is_mined t then negb (ts_ready x) && negb (is_some (ts_blocked x))
      else ts_ready x || is_some (ts_blocked x) || txstate_eqb (t_state t) Bcast)
  && (match ts_action x with Some ABroadcast => offer_safe_b s tg (t_id t) | _ => true end).
Fixpoint forall2b' {A B} (f : A -> B -> bool) (x : list A) (y : list B) : bool :=
  match x, y with
  | [], [] => true
  | a :: x', b :: y' => f a b && forall2b' f x' y'
  | _, _ => false
  end.
Definition statuses_ok_b (s : mstate) (tg : targets) (l : list txstatus) : bool :=
  forall2b' (status_row_ok s tg) (m_txs s) l.

(** mark soundness of one step: a mark that appears in this step is backed by evidence.
    A new [Inherited] mark needs a direct dependency that — in the state the step RETURNS — is an
    unmined row that is itself marked or expired at the scanned target (a dead source; a source the
    same call promoted to [Mined] is not one).  A new directly observed mark needs the oracle's
    own answer for that row: the same height and the same kind. *)
Definition src_dead_b (txs : list mtx) (scanned : Z) (d : Z) : bool :=
  match find_tx d txs with
  | Some x => sp_unmined x && (is_some (t_unsat x) || sp_expired x scanned)
  | None => false
  end.
Definition answer_backs (a : answer) (h : Z) (k : ukind) : bool :=
  match a with
  | Unsat c h' => (h' =? h) && option_eqb ukind_eqb (cause_kind c) (Some k)
  | _ => false
  end.
Definition new_marks_sound_b (oracle : Z -> list answer) (scanned : Z) (pre post : list mtx) : bool :=
  forall2b (fun a b =>
    match t_unsat a, t_unsat b with
    | None, Some (_, KInherited) => existsb (src_dead_b post scanned) (t_deps b)
    | None, Some (h, k) => existsb (fun an => answer_backs an h k) (oracle (t_id b))
    | _, _ => true
    end) pre post.

Definition prop_event (pre : mstate) (ev : event) (post : mstate) (out : output) : bool :=
  (* lifecycle: forward only, a rollback un-mines exactly the rows mined above its height *)
  (match ev with
   | ERollback h | EWalletRewind _ h => rollback_exact_b h (m_txs pre) (m_txs post)
   | ERebuild id tip _ _ _ _ _ _ => rebuild_exact_b id (sat_add tip 1) (m_txs pre) (m_txs post)
   | _ => monotone_b (m_txs pre) (m_txs post)
   end)
  (* terminal statuses are never left *)
  && terminal_sticky_b (match ev with ERollback _ | EWalletRewind _ _ => true | _ => false end) pre post
  (* what the drive API offers *)
  && (match ev, out with
      | EAdvance sc est answers dflt _ _, OStep st _ _ =>
        let tg := mk_targets sc est in
        (match st with SBroadcast id => offer_safe_b post tg id | _ => true end)
        && no_strand_b post tg (is_notyet dflt || existsb (fun p => is_notyet (snd p)) answers) st
      | EAdvance _ _ _ _ _ _, _ => false
      | EStatuses sc est, OStatuses l _ => statuses_ok_b pre (mk_targets sc est) l
      | EStatuses _ _, _ => false
      | EWalletRewind req achieved, OUnit => true
      | EWalletRewind _ _, _ => false
      | _, _ => true
      end).

(** mark soundness of the steps that record marks (checked on the implementation's outcome; the
    [Inherited] half is proved of the model for every store in ProofsMarks.v, the bridge theorem
    covers [prop_event]) *)
Definition prop_marks (pre : mstate) (ev : event) (post : mstate) : bool :=
  match ev with
  | EAdvance sc est answers dflt _ _ =>
    new_marks_sound_b (fun id => [match lookup id answers with Some a => a | None => dflt end])
                      (tg_scanned (mk_targets sc est)) (m_txs pre) (m_txs post)
  | ERecordSat sc est dets =>
    new_marks_sound_b (fun id => map snd (filter (fun p => fst p =? id) dets))
                      (tg_scanned (mk_targets sc est)) (m_txs pre) (m_txs post)
  | _ => true
  end.

Definition prop_case (c : case) : bool :=
  let '(Case pre ev post out p) := c in
  prop_event pre ev post out && prop_marks pre ev post
  && match p with PNone => true | PFull a b c m _ _ _ => a && b && c && m end.

(** Classes of the two recordings that used to demote a row (1: a broadcast recorded on a row
    that is already mined; 2: a proof stored on a row that is already in flight or mined). Both
    were repaired in /repo, so no class is mapped to a finding any more: a failing [prop_case] in
    either class is a regression and is reported as a violation. *)
Definition state_of (s : mstate) (id : Z) : option txstate := option_map t_state (find_tx id (m_txs s)).
Definition known_class (c : case) : N :=
  let '(Case pre ev _ _ _) := c in
  match ev with
  | ERecordBroadcast id => match state_of pre id with Some (Mined _) => 1%N | _ => 0%N end
  | EStoreProof id => match state_of pre id with Some Bcast | Some (Mined _) => 2%N | _ => 0%N end
  | _ => 0%N
  end.

(** path tags: event kind, and for Advance the step kind / whether anything was persisted *)
Definition tag_case (c : case) : N :=
  let '(Case pre ev post out p) := c in
  (match p with PNone => 0 | PFull _ _ _ _ _ _ _ => 100 end +
  match ev, out with
  | ENoop, _ => 1
  | EStoreProof id, _ => match state_of pre id with Some Signed => 2 | None => 3 | _ => 4 end
  | EApplySig _, OBool true => 5
  | EApplySig _, _ => 6
  | EAdvance _ _ _ _ _ _, OStep st d _ =>
    (match st with SProve _ => 10 | SBroadcast _ => 11 | SRebuild _ => 12 | SReplan => 13
                 | SReevaluate => 14 | SWaiting => 15 | SComplete => 16 end)
    + (if d then 10 else 0)
    + (if list_eqb Z.eqb (map t_sched (m_txs pre)) (map t_sched (m_txs post)) then 0 else 20)
  | EAdvance _ _ _ _ _ _, _ => 9
  | ERecordBroadcast id, _ => match state_of pre id with Some Proved => 50 | Some (Mined _) => 51 | None => 52 | _ => 53 end
  | EMarkMined _ _, _ => 54
  | ERollback _, _ => if list_eqb txstate_eqb (map t_state (m_txs pre)) (map t_state (m_txs post)) then 55
                      else match m_status pre, m_status post with Complete, InProgress => 57 | _, _ => 56 end
  | EReportFailure id _, _ => match state_of pre id with Some Proved => 58 | _ => 59 end
  | ERecordSat _ _ _, _ => if mstate_eqb pre post then 60 else 61
  | ERebuild _ _ _ _ _ _ _ _, ORebuild RbOk => 65
  | ERebuild _ _ _ _ _ _ _ _, ORebuild RbLate => 66
  | ERebuild _ _ _ _ _ _ _ _, ORebuild (RbErr e) =>
    match e with RMismatch => 67 | RUnknown => 68 | RNotTransfer => 69 | RUnsatisfiable => 70 | RNotExpired => 71 end
  | ERebuild _ _ _ _ _ _ _ _, _ => 72
  | EStatuses _ _, _ => 73
  | EWalletRewind req achieved, _ =>
    (if Z.eqb req achieved then 74 else 75)
    + (if list_eqb txstate_eqb (map t_state (m_txs pre)) (map t_state (m_txs post)) then 0 else 2)
  | ECancel, _ => 62
  | ESupersede, _ => 63
  | ERecompute, _ => 64
  end)%N.
