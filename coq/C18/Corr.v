(** C18 — correspondence cases. One case per executed public API call: the canonical state
    before, the event (with the oracle tables of the scripted store), the canonical state after,
    what the call returned, and the verdicts of the SQLite save/load cycle.
    [run_case] compares model and implementation; [prop_case] evaluates the property (Spec.v) on
    the implementation's outcome alone. *)
From V.Lib Require Import Base.
From V.C18 Require Import Model Spec.
Local Open Scope Z_scope.

Inductive event :=
| ENoop
| EStoreProof (id : Z)
| EApplySig (id : Z)
| EAdvance (scanned est : Z) (answers : list (Z * answer)) (dflt : answer)
           (mined : list (Z * Z)) (ages : list Z)
| ERecordBroadcast (id : Z)
| EMarkMined (id h : Z)
| ERollback (h : Z)
| EReportFailure (id tip : Z)
| ERecordSat (scanned est : Z) (dets : list (Z * answer))
| ECancel | ESupersede | ERecompute.

Inductive output := OUnit | OBool (b : bool) | OStep (st : step) (persisted : bool) | OPanic.
Inductive pers := PNone | PRt (latest_ok get_ok one_live_ok : bool).

Inductive case := Case (pre : mstate) (ev : event) (post : mstate) (out : output) (p : pers).

(* ------------------------------------------------------------------------------------------ *)
(** equality tests *)
Definition oz_eqb := option_eqb Z.eqb.
Definition kind_eqb (a b : kind) : bool :=
  match a, b with
  | Prep l i, Prep l' i' => (l =? l') && (i =? i')
  | Transfer c, Transfer c' => c =? c'
  | _, _ => false
  end.
Definition ukind_eqb (a b : ukind) : bool :=
  match a, b with
  | KSpent, KSpent | KInvalidated, KInvalidated | KAnchor, KAnchor | KInherited, KInherited => true
  | _, _ => false
  end.
Definition mtx_eqb (a b : mtx) : bool :=
  (t_id a =? t_id b) && kind_eqb (t_kind a) (t_kind b) && list_eqb Z.eqb (t_deps a) (t_deps b)
  && (t_sched a =? t_sched b) && (t_expiry a =? t_expiry b) && oz_eqb (t_anchor a) (t_anchor b)
  && (t_txid a =? t_txid b) && option_eqb (pair_eqb Z.eqb ukind_eqb) (t_unsat a) (t_unsat b)
  && oz_eqb (t_fail a) (t_fail b) && txstate_eqb (t_state a) (t_state b).
Definition mstate_eqb (a b : mstate) : bool :=
  status_eqb (m_status a) (m_status b) && list_eqb mtx_eqb (m_txs a) (m_txs b)
  && list_eqb Z.eqb (m_cross a) (m_cross b) && (m_thr a =? m_thr b) && (m_ivl a =? m_ivl b).
Definition step_eqb (a b : step) : bool :=
  match a, b with
  | SProve l, SProve l' => list_eqb (pair_eqb Z.eqb kind_eqb) l l'
  | SBroadcast i, SBroadcast j | SRebuild i, SRebuild j => i =? j
  | SReplan, SReplan | SReevaluate, SReevaluate | SWaiting, SWaiting | SComplete, SComplete => true
  | _, _ => false
  end.
Definition output_eqb (a b : output) : bool :=
  match a, b with
  | OUnit, OUnit | OPanic, OPanic => true
  | OBool x, OBool y => Bool.eqb x y
  | OStep s p, OStep s' p' => step_eqb s s' && Bool.eqb p p'
  | _, _ => false
  end.

(* ------------------------------------------------------------------------------------------ *)
(** the scripted store as functions *)
Fixpoint lookup {A} (k : Z) (l : list (Z * A)) : option A :=
  match l with
  | [] => None
  | (k', v) :: r => if k' =? k then Some v else lookup k r
  end.
Definition sat_of (answers : list (Z * answer)) (dflt : answer) (t : mtx) : answer :=
  match lookup (t_id t) answers with Some a => a | None => dflt end.
Definition mined_of (mined : list (Z * Z)) (txid : Z) : option Z := lookup txid mined.

(** the model's reaction to an event *)
Definition model_event (s : mstate) (ev : event) : option (mstate * output) :=
  match ev with
  | ENoop => Some (s, OUnit)
  | EStoreProof id => Some (set_transaction_proved s id, OUnit)
  | EApplySig id => let '(s', b) := apply_signature s id in Some (s', OBool b)
  | EAdvance sc est answers dflt mined ages =>
    match advance (sat_of answers dflt) (mined_of mined) s (mk_targets sc est) (ages, O) with
    | ARes st s' dirty => Some (s', OStep st dirty)
    | AOutOfFuel => None
    end
  | ERecordBroadcast id => Some (mark_broadcast s id, OUnit)
  | EMarkMined id h => Some (mark_mined s id h, OUnit)
  | ERollback h => Some (truncate_to_height s h, OUnit)
  | EReportFailure id tip => Some (report_broadcast_failure s id tip, OUnit)
  | ERecordSat sc est dets => Some (record_satisfiability s (mk_targets sc est) dets, OUnit)
  | ECancel => Some (mark_cancelled s, OUnit)
  | ESupersede => Some (mark_superseded s, OUnit)
  | ERecompute => Some (recompute_status s, OUnit)
  end.

Definition run_case (c : case) : bool :=
  let '(Case pre ev post out _) := c in
  match model_event pre ev with
  | Some (s', o) => mstate_eqb s' post && output_eqb o out
  | None => false
  end.

(* ------------------------------------------------------------------------------------------ *)
(** the property on the implementation's outcome *)
Definition is_notyet (a : answer) : bool := match a with NotYet _ => true | _ => false end.

Definition prop_event (pre : mstate) (ev : event) (post : mstate) (out : output) : bool :=
  (* lifecycle: forward only, a rollback un-mines exactly the rows mined above its height *)
  (match ev with
   | ERollback h => rollback_exact_b h (m_txs pre) (m_txs post)
   | _ => monotone_b (m_txs pre) (m_txs post)
   end)
  (* terminal statuses are never left *)
  && terminal_sticky_b (match ev with ERollback _ => true | _ => false end) pre post
  (* what the drive API offers *)
  && (match ev, out with
      | EAdvance sc est answers dflt _ _, OStep st _ =>
        let tg := mk_targets sc est in
        (match st with SBroadcast id => offer_safe_b post tg id | _ => true end)
        && no_strand_b post tg (is_notyet dflt || existsb (fun p => is_notyet (snd p)) answers) st
      | EAdvance _ _ _ _ _ _, _ => false
      | _, _ => true
      end).

Definition prop_case (c : case) : bool :=
  let '(Case pre ev post out p) := c in
  prop_event pre ev post out
  && match p with PNone => true | PRt a b c => a && b && c end.

(** Classes of the two recordings that used to demote a row (1: a broadcast recorded on a row
    that is already mined; 2: a proof stored on a row that is already in flight or mined). Both
    were repaired in /repo, so no class is mapped to a finding any more: a failing [prop_case] in
    either class is a regression and is reported as a violation. *)
Definition state_of (s : mstate) (id : Z) : option txstate := option_map t_state (find_tx id (m_txs s)).
Definition known_class (c : case) : N :=
  let '(Case pre ev _ _ _) := c in
  match ev with
  | ERecordBroadcast id => match state_of pre id with Some (Mined _) => 1%N | _ => 0%N end
  | EStoreProof id => match state_of pre id with Some Bcast | Some (Mined _) => 2%N | _ => 0%N end
  | _ => 0%N
  end.

(** path tags: event kind, and for Advance the step kind / whether anything was persisted *)
Definition tag_case (c : case) : N :=
  let '(Case pre ev post out p) := c in
  (match p with PNone => 0 | PRt _ _ _ => 100 end +
  match ev, out with
  | ENoop, _ => 1
  | EStoreProof id, _ => match state_of pre id with Some Signed => 2 | None => 3 | _ => 4 end
  | EApplySig _, OBool true => 5
  | EApplySig _, _ => 6
  | EAdvance _ _ _ _ _ _, OStep st d =>
    (match st with SProve _ => 10 | SBroadcast _ => 11 | SRebuild _ => 12 | SReplan => 13
                 | SReevaluate => 14 | SWaiting => 15 | SComplete => 16 end)
    + (if d then 10 else 0)
    + (if list_eqb Z.eqb (map t_sched (m_txs pre)) (map t_sched (m_txs post)) then 0 else 20)
  | EAdvance _ _ _ _ _ _, _ => 9
  | ERecordBroadcast id, _ => match state_of pre id with Some Proved => 50 | Some (Mined _) => 51 | None => 52 | _ => 53 end
  | EMarkMined _ _, _ => 54
  | ERollback _, _ => if list_eqb txstate_eqb (map t_state (m_txs pre)) (map t_state (m_txs post)) then 55
                      else match m_status pre, m_status post with Complete, InProgress => 57 | _, _ => 56 end
  | EReportFailure id _, _ => match state_of pre id with Some Proved => 58 | _ => 59 end
  | ERecordSat _ _ _, _ => if mstate_eqb pre post then 60 else 61
  | ECancel, _ => 62
  | ESupersede, _ => 63
  | ERecompute, _ => 64
  end)%N.
