(** C18 — no silent stranding at the drive API: unless the store defers a candidate ("not yet
    satisfiable") or a broadcast-failure report is pending, the step [advance] returns is exactly
    the kernel's decision on the returned state with nothing set aside; so [Waiting] has live work
    behind it and a stranded migration surfaces [Replan] / [Rebuild]. *)
From V.Lib Require Import Base.
From V.C18 Require Import Model Spec ProofsDead ProofsKernel ProofsLife ProofsDrive.
From Coq Require Import ZifyBool.
Local Open Scope Z_scope.

Lemma find_tx_in : forall txs t, In t txs -> find_tx (t_id t) txs <> None.
Proof.
  unfold find_tx. induction txs as [|a l IH]; intros t I; [destruct I|]. simpl.
  destruct (t_id a =? t_id t) eqn:E; [discriminate|]. destruct I as [->|I]; [rewrite Z.eqb_refl in E; discriminate|].
  apply IH. exact I.
Qed.

Lemma all_some_map : forall A B (f : A -> option B) l, (forall x, In x l -> f x <> None) -> all_some (map f l) <> None.
Proof.
  intros A B f l. induction l as [|a l IH]; intros H; simpl; [discriminate|].
  destruct (f a) eqn:E; [|exfalso; apply (H a); [left; reflexivity | exact E]].
  destruct (all_some (map f l)) eqn:E2; simpl; [discriminate|].
  exfalso. apply IH; [intros x I; apply H; right; exact I | reflexivity].
Qed.

Lemma next_step_rebuild_inv : forall s tg sa id, next_step s tg sa = SRebuild id ->
  next_rebuildable s tg (dead_set s tg) sa = Some id.
Proof.
  intros s tg sa id H. unfold next_step in H. destruct (is_terminal s); [discriminate|].
  destruct (next_broadcastable _ _ _ _); [discriminate|]. destruct (replan_required s); [discriminate|].
  destruct (negb (is_nil (provable_targets _ _ _ _))); [discriminate|].
  destruct (next_rebuildable s tg (dead_set s tg) sa); [inversion H; reflexivity|].
  destruct (_ && _ && _); [discriminate|]. destruct (_ && _); discriminate.
Qed.

(** every candidate the kernel names is a row of the state (the "corrupt state" exit of the
    drive loop is unreachable) *)
Lemma candidates_found : forall s tg sa cands, candidates (next_step s tg sa) = Some cands ->
  all_some (map (fun id => find_tx id (m_txs s)) cands) <> None.
Proof.
  intros s tg sa cands C. apply all_some_map. intros id I.
  destruct (next_step s tg sa) eqn:N; simpl in C; try discriminate; inversion C; subst.
  - apply next_step_prove_inv in N. subst l. unfold provable_targets in I. rewrite map_map in I. simpl in I.
    apply in_map_iff in I. destruct I as [t [<- I]]. apply sort_by_in in I. apply filter_In in I.
    apply find_tx_in. tauto.
  - destruct I as [<-|[]]. apply next_step_broadcast_inv in N. destruct N as [_ N].
    apply next_broadcastable_spec in N. destruct N as [t [I [<- _]]]. apply find_tx_in. exact I.
  - destruct I as [<-|[]]. apply next_step_rebuild_inv in N. unfold next_rebuildable in N.
    destruct (min_first _ _) as [t|] eqn:E; [|discriminate]. simpl in N. inversion N; subst.
    apply min_first_in in E. apply filter_In in E. apply find_tx_in. tauto.
Qed.

Section NoDefer.
  Variable sat : mtx -> answer.
  Variable mined_at : Z -> option Z.
  (** the store never answers "not yet" *)
  Hypothesis no_defer : forall t h, sat t <> NotYet h.

  Lemma verify_no_defer : forall rows, snd (fst (verify sat rows)) = [].
  Proof.
    intros rows. unfold verify.
    assert (G : forall l acc, snd (fst acc) = [] ->
      snd (fst (fold_left (fun acc t => let '(kept, dfr, disc) := acc in
        match sat t with
        | Sat _ => (kept ++ [t_id t], dfr, disc)
        | NotYet _ => (kept, dfr ++ [t_id t], disc)
        | Unsat c h => if records (Unsat c h) then (kept, dfr, disc ++ [(t_id t, Unsat c h)])
                       else (kept ++ [t_id t], dfr, disc)
        end) l acc)) = []).
    { induction l as [|t l IH]; intros [[k d] c] H; simpl in *; [exact H|]. apply IH.
      destruct (sat t) eqn:E; simpl; try exact H; [exfalso; eapply no_defer; exact E|].
      destruct (is_some (cause_kind c0)); exact H. }
    apply G. reflexivity.
  Qed.

  Lemma plan_loop_no_defer : forall fuel tg s dirty r st s' d' sa',
    plan_loop sat fuel tg s [] dirty r = PDone st s' d' sa' -> st = next_step s' tg [].
  Proof.
    induction fuel as [|f IH]; intros tg s dirty r st s' d' sa' H; [discriminate|].
    cbn [plan_loop] in H.
    destruct (candidates (next_step s tg [])) as [cands|] eqn:C.
    2:{ inversion H; subst. reflexivity. }
    pose proof (candidates_found s tg [] cands C) as F.
    destruct (all_some _) as [rows|] eqn:A; [|congruence].
    destruct (overdue_shift (next_step s tg []) rows s tg) as [delta|].
    { destruct (shift_schedule s delta r) as [s1 r1]. eapply IH. exact H. }
    pose proof (verify_no_defer rows) as V. destruct (verify sat rows) as [[kept dfr] disc]. simpl in V. subst dfr.
    simpl in H. destruct (negb (is_nil disc)); [eapply IH; exact H|].
    inversion H; subst. reflexivity.
  Qed.

  Theorem advance_no_defer : forall s tg r st s' dirty,
    advance sat mined_at s tg r = ARes st s' dirty -> st = SReevaluate \/ st = next_step s' tg [].
  Proof.
    intros s tg r st s' dirty H. unfold advance in H.
    destruct (sweep sat mined_at s tg) as [s1 d1]. destruct (adjudicate sat s1 tg) as [[s2 d2] pending].
    destruct pending; [inversion H; left; reflexivity|].
    destruct (plan_loop sat (advance_fuel s2) tg s2 [] (d1 || d2) r) as [st3 s3 d3 sa3|] eqn:P; [|discriminate].
    inversion H; subst. right. eapply plan_loop_no_defer. exact P.
  Qed.

  (** [Waiting] from the drive API has live work behind it *)
  Theorem advance_waiting_live : forall s tg r s' dirty,
    advance sat mined_at s tg r = ARes SWaiting s' dirty -> m_txs s' <> [] ->
    exists t, In t (m_txs s') /\ unmined t /\ ~ Dead (m_txs s') (tg_scanned tg) (t_id t).
  Proof.
    intros s tg r s' dirty H NE. apply advance_no_defer in H. destruct H as [H|H]; [discriminate|].
    apply next_step_waiting_live; [symmetry; exact H | exact NE].
  Qed.

  (** a migration whose remaining value is all dead never ends silently *)
  Theorem advance_stranded_surfaces : forall s tg r st s' dirty,
    advance sat mined_at s tg r = ARes st s' dirty -> stranded s' tg ->
    st = SReevaluate \/ st = SReplan \/ exists id, st = SRebuild id.
  Proof.
    intros s tg r st s' dirty H S. apply advance_no_defer in H. destruct H as [H|H]; [left; exact H|]. right.
    destruct (next_step_stranded s' tg S) as [E|[id E]]; [left; congruence | right; exists id; congruence].
  Qed.
End NoDefer.
