(** C18 — termination of the drive loop, and what the drive API returns for EVERY store.

    Measure of the plan/verify/record loop (three counters over the rows, each at most [|txs|]):
      [cntA]  pending rows scheduled below the served target      (a shift brings its trigger row
                                                                   to the served target),
      [cntB]  rows carrying no unsatisfiability mark               (a recorded discovery marks at
                                                                   least the candidate that produced it),
      [cntC]  rows whose id is not set aside                       (a deferral sets a new candidate
                                                                   id aside).
    Every iteration that does not return strictly decreases one counter and increases none, so
    [3|txs| + 1 <= 4|txs| + 8] iterations always suffice. *)
From V.Lib Require Import Base.
From V.Gen Require Import C18Consts.
From V.C18 Require Import Model Spec ProofsDead ProofsKernel ProofsLife ProofsDrive ProofsStrand.
From Coq Require Import ZifyBool.
Local Open Scope Z_scope.

Definition count {A} (f : A -> bool) (l : list A) : nat := length (filter f l).

Lemma count_le_length : forall A (f : A -> bool) l, (count f l <= length l)%nat.
Proof.
  intros A f l. unfold count. induction l as [|a l IH]; [simpl; lia|].
  cbn [filter]. destruct (f a); cbn [length]; lia.
Qed.

(** pointwise comparison of counts along a row-by-row relation *)
Lemma count_rel_le : forall A (R : A -> A -> Prop) (f g : A -> bool) l l',
  Forall2 R l l' -> (forall a b, R a b -> g b = true -> f a = true) -> (count g l' <= count f l)%nat.
Proof.
  intros A R f g l l' H M. unfold count. induction H as [|a b l l' Rab _ IH]; [simpl; lia|].
  cbn [filter]. destruct (g b) eqn:G; [rewrite (M a b Rab G)|destruct (f a)]; cbn [length]; lia.
Qed.

Lemma count_rel_lt : forall A (R : A -> A -> Prop) (f g : A -> bool) l l',
  Forall2 R l l' -> (forall a b, R a b -> g b = true -> f a = true) ->
  (exists a, In a l /\ f a = true /\ forall b, R a b -> g b = false) -> (count g l' < count f l)%nat.
Proof.
  intros A R f g l l' H M. induction H as [|a b l l' Rab H IH]; intros [c [I [Fc Gc]]]; [destruct I|].
  unfold count in *. cbn [filter]. destruct I as [<-|I].
  - rewrite Fc, (Gc b Rab). cbn [length]. pose proof (count_rel_le _ R f g l l' H M). unfold count in *. lia.
  - assert (X : (length (filter g l') < length (filter f l))%nat) by (apply IH; exists c; tauto).
    destruct (g b) eqn:G; [rewrite (M a b Rab G)|destruct (f a)]; cbn [length]; lia.
Qed.

(* ---------------------------------------------------------------------------------------- *)
(** the three counters *)

Definition fA (tg : targets) (t : mtx) : bool := is_pending_state t && (t_sched t <? tg_eff tg).
Definition fB (t : mtx) : bool := negb (is_some (t_unsat t)).
Definition fC (sa : list Z) (t : mtx) : bool := negb (mem (t_id t) sa).
Definition cntA tg txs := count (fA tg) txs.
Definition cntB txs := count fB txs.
Definition cntC sa txs := count (fC sa) txs.
Definition measure tg sa txs : nat := (cntA tg txs + cntB txs + cntC sa txs)%nat.

Lemma measure_bound : forall tg sa txs, (measure tg sa txs <= 3 * length txs)%nat.
Proof.
  intros. unfold measure, cntA, cntB, cntC.
  pose proof (count_le_length _ (fA tg) txs). pose proof (count_le_length _ fB txs).
  pose proof (count_le_length _ (fC sa) txs). lia.
Qed.

(** row-by-row relation kept by every mutation inside the loop: id and lifecycle state stay,
    a mark is never removed, a pending schedule never moves back below the served target *)
Definition keeps (tg : targets) (a b : mtx) : Prop :=
  t_id a = t_id b /\ t_state a = t_state b
  /\ (t_unsat a <> None -> t_unsat b <> None)
  /\ (t_sched b < tg_eff tg -> t_sched a < tg_eff tg).

Lemma keeps_refl : forall tg a, keeps tg a a.
Proof. intros. unfold keeps. tauto. Qed.

Lemma keeps_trans : forall tg a b c, keeps tg a b -> keeps tg b c -> keeps tg a c.
Proof. unfold keeps. intros tg a b c [A1 [A2 [A3 A4]]] [B1 [B2 [B3 B4]]]. repeat split; try congruence; auto. Qed.

Lemma F2_refl : forall A (R : A -> A -> Prop), (forall a, R a a) -> forall l, Forall2 R l l.
Proof. intros A R H l. induction l; constructor; auto. Qed.
Lemma F2_trans : forall A (R : A -> A -> Prop), (forall a b c, R a b -> R b c -> R a c) ->
  forall x y z, Forall2 R x y -> Forall2 R y z -> Forall2 R x z.
Proof.
  intros A R H x y z H1. revert z. induction H1 as [|a b l l' Rab _ IH]; intros z H2; inversion H2; subst; constructor; eauto.
Qed.

Lemma pending_state_eq : forall a b, t_state a = t_state b -> is_pending_state a = is_pending_state b.
Proof. intros a b E. unfold is_pending_state. rewrite E. reflexivity. Qed.

Lemma keeps_counts : forall tg sa l l', Forall2 (keeps tg) l l' ->
  (cntA tg l' <= cntA tg l /\ cntB l' <= cntB l /\ cntC sa l' <= cntC sa l)%nat.
Proof.
  intros tg sa l l' H. split; [|split].
  - apply (count_rel_le _ (keeps tg)); [exact H|]. intros a b [_ [S [_ K]]] G. unfold fA in *.
    apply andb_true_iff in G. destruct G as [G1 G2]. rewrite (pending_state_eq a b S), G1. simpl.
    apply Z.ltb_lt. apply K. lia.
  - apply (count_rel_le _ (keeps tg)); [exact H|]. intros a b [_ [_ [U _]]] G. unfold fB in *.
    destruct (t_unsat a) eqn:E; [|reflexivity]. exfalso. apply negb_true_iff in G.
    assert (X : t_unsat b <> None) by (apply U; discriminate). destruct (t_unsat b); [discriminate|congruence].
  - apply (count_rel_le _ (keeps tg)); [exact H|]. intros a b [E _] G. unfold fC in *. rewrite E. exact G.
Qed.

Lemma keeps_ids : forall tg l l', Forall2 (keeps tg) l l' -> map t_id l = map t_id l'.
Proof. intros tg l l' H. induction H as [|a b l l' [E _] _ IH]; simpl; [reflexivity|rewrite E, IH; reflexivity]. Qed.

(* ---------------------------------------------------------------------------------------- *)
(** marks: [record_satisfiability] *)

Lemma update_first_keeps : forall tg p f, (forall t, p t = true -> keeps tg t (f t)) ->
  forall l, Forall2 (keeps tg) l (update_first p f l).
Proof.
  intros tg p f H l. induction l as [|t l IH]; simpl; [constructor|].
  destruct (p t) eqn:E; constructor; auto using keeps_refl. apply F2_refl. apply keeps_refl.
Qed.

Lemma set_unsat_keeps : forall tg t u, keeps tg t (set_unsat t (Some u)).
Proof. intros. unfold keeps. simpl. repeat split; auto. intros _. discriminate. Qed.

Lemma direct_mark_keeps : forall tg l d, Forall2 (keeps tg) l (direct_mark l d).
Proof.
  intros tg l d. unfold direct_mark. destruct (snd d); try (apply F2_refl; apply keeps_refl).
  destruct (cause_kind c); [|apply F2_refl; apply keeps_refl].
  apply update_first_keeps. intros t _. apply set_unsat_keeps.
Qed.
Lemma fold_direct_keeps : forall tg dets l, Forall2 (keeps tg) l (fold_left direct_mark dets l).
Proof.
  intros tg dets. induction dets as [|d dets IH]; intros l; simpl; [apply F2_refl; apply keeps_refl|].
  eapply F2_trans; [apply keeps_trans | apply direct_mark_keeps | apply IH].
Qed.
Lemma apply_inherited_keeps : forall tg i l, Forall2 (keeps tg) l (apply_inherited l i).
Proof.
  unfold apply_inherited. intros tg i. induction i as [|p i IH]; intros l; simpl; [apply F2_refl; apply keeps_refl|].
  eapply F2_trans; [apply keeps_trans | | apply IH]. apply update_first_keeps. intros t _. apply set_unsat_keeps.
Qed.
Lemma closure_keeps : forall tg fuel l sc, Forall2 (keeps tg) l (closure_loop fuel l sc).
Proof.
  intros tg fuel. induction fuel as [|f IH]; intros l sc; cbn [closure_loop]; [apply F2_refl; apply keeps_refl|].
  destruct (inherited l sc) eqn:E; [apply F2_refl; apply keeps_refl|].
  eapply F2_trans; [apply keeps_trans | apply apply_inherited_keeps | apply IH].
Qed.
Lemma record_sat_keeps : forall tg s tg' dets, Forall2 (keeps tg) (m_txs s) (m_txs (record_satisfiability s tg' dets)).
Proof.
  intros. unfold record_satisfiability. rewrite txs_set_txs.
  eapply F2_trans; [apply keeps_trans | apply fold_direct_keeps | apply closure_keeps].
Qed.

(** a direct mark on an unmarked row removes exactly one unmarked row *)
Lemma update_first_mark : forall p f l,
  (forall t, p t = true -> fB t = true /\ fB (f t) = false) ->
  (existsb p l = false -> update_first p f l = l)
  /\ (existsb p l = true -> (cntB (update_first p f l) < cntB l)%nat).
Proof.
  intros p f l H. unfold cntB, count. induction l as [|t l [IH1 IH2]]; simpl; [split; [reflexivity|discriminate]|].
  destruct (p t) eqn:E; simpl.
  - split; [discriminate|]. intros _. destruct (H t E) as [H1 H2]. rewrite H1, H2. simpl. lia.
  - split; [intros X; rewrite (IH1 X); reflexivity|]. intros X. specialize (IH2 X). destruct (fB t); simpl; lia.
Qed.

Definition markable (d : Z * answer) (t : mtx) : bool :=
  has_id (fst d) t && negb (is_some (t_unsat t)) && negb (is_mined t).

Lemma direct_mark_cases : forall l d,
  (direct_mark l d = l) \/ (cntB (direct_mark l d) < cntB l)%nat.
Proof.
  intros l d. unfold direct_mark. destruct (snd d); try (left; reflexivity).
  destruct (cause_kind c) as [k|]; [|left; reflexivity].
  destruct (update_first_mark (fun t => has_id (fst d) t && negb (is_some (t_unsat t)) && negb (is_mined t))
              (fun t => set_unsat t (Some (h, k))) l) as [U1 U2].
  { intros t P. apply andb_true_iff in P. destruct P as [P _]. apply andb_true_iff in P. destruct P as [_ P].
    unfold fB. simpl. split; [exact P | reflexivity]. }
  destruct (existsb _ l); [right; apply U2; reflexivity | left; apply U1; reflexivity].
Qed.

Lemma direct_mark_strict : forall l d, records (snd d) = true -> existsb (markable d) l = true ->
  (cntB (direct_mark l d) < cntB l)%nat.
Proof.
  intros l d R E. unfold direct_mark. unfold records in R. destruct (snd d); try discriminate.
  destruct (cause_kind c) as [k|]; [|discriminate].
  destruct (update_first_mark (fun t => has_id (fst d) t && negb (is_some (t_unsat t)) && negb (is_mined t))
              (fun t => set_unsat t (Some (h, k))) l) as [_ U2].
  { intros t P. apply andb_true_iff in P. destruct P as [P _]. apply andb_true_iff in P. destruct P as [_ P].
    unfold fB. simpl. split; [exact P | reflexivity]. }
  apply U2. exact E.
Qed.

Lemma fold_direct_le : forall dets l, (cntB (fold_left direct_mark dets l) <= cntB l)%nat.
Proof.
  intros dets l. destruct (keeps_counts (0, 0) [] l _ (fold_direct_keeps (0, 0) dets l)) as [_ [H _]]. exact H.
Qed.

Lemma fold_direct_strict : forall dets l,
  (exists d, In d dets /\ records (snd d) = true /\ existsb (markable d) l = true) ->
  (cntB (fold_left direct_mark dets l) < cntB l)%nat.
Proof.
  induction dets as [|d dets IH]; intros l [w [I [R E]]]; [destruct I|]. simpl.
  destruct I as [<-|I].
  - pose proof (direct_mark_strict l d R E). pose proof (fold_direct_le dets (direct_mark l d)). lia.
  - destruct (direct_mark_cases l d) as [Eq|Lt].
    + rewrite Eq. apply IH. exists w. tauto.
    + pose proof (fold_direct_le dets (direct_mark l d)). lia.
Qed.

Lemma record_sat_strict : forall s tg dets,
  (exists d, In d dets /\ records (snd d) = true /\ existsb (markable d) (m_txs s) = true) ->
  (cntB (m_txs (record_satisfiability s tg dets)) < cntB (m_txs s))%nat.
Proof.
  intros s tg dets W. unfold record_satisfiability. rewrite txs_set_txs.
  pose proof (fold_direct_strict dets (m_txs s) W).
  destruct (keeps_counts (0, 0) [] _ _ (closure_keeps (0, 0) (S (length (fold_left direct_mark dets (m_txs s))))
              (fold_left direct_mark dets (m_txs s)) (tg_scanned tg))) as [_ [H1 _]]. lia.
Qed.

(* ---------------------------------------------------------------------------------------- *)
(** the schedule shift *)

Definition shifted (delta : Z) (a b : mtx) : Prop :=
  t_id a = t_id b /\ t_state a = t_state b /\ t_unsat a = t_unsat b
  /\ t_sched b = (if is_pending_state a then sat_add (t_sched a) delta else t_sched a).

Lemma shift_fold_shifted : forall ivl delta l out r,
  exists l', fst (fold_left (shift_tx ivl delta) l (out, r)) = out ++ l' /\ Forall2 (shifted delta) l l'.
Proof.
  intros ivl delta l. induction l as [|t l IH]; intros out r; cbn [fold_left].
  - exists []. rewrite app_nil_r. split; [reflexivity|constructor].
  - assert (S : exists t' r', shift_tx ivl delta (out, r) t = (out ++ [t'], r') /\ shifted delta t t').
    { unfold shift_tx, shifted, is_pending_state. destruct (t_state t) eqn:St.
      - destruct (t_kind t); [eexists; eexists; split; [reflexivity|simpl; rewrite St; tauto]|].
        destruct (t_anchor t); [|eexists; eexists; split; [reflexivity|simpl; rewrite St; tauto]].
        destruct (redraw_anchor_boundary _ _ _ _) as [fresh r'].
        eexists; eexists; split; [reflexivity|simpl; rewrite St; tauto].
      - destruct (t_kind t); [eexists; eexists; split; [reflexivity|simpl; rewrite St; tauto]|].
        destruct (t_anchor t); [|eexists; eexists; split; [reflexivity|simpl; rewrite St; tauto]].
        destruct (redraw_anchor_boundary _ _ _ _) as [fresh r'].
        eexists; eexists; split; [reflexivity|simpl; rewrite St; tauto].
      - eexists; eexists; split; [reflexivity|simpl; rewrite St; tauto].
      - exists t, r. split; [reflexivity|rewrite St; tauto].
      - exists t, r. split; [reflexivity|rewrite St; tauto]. }
    destruct S as [t' [r' [E Sh]]]. rewrite E.
    destruct (IH (out ++ [t']) r') as [l' [F S]]. exists (t' :: l'). rewrite F, <- app_assoc. split; [reflexivity|].
    constructor; assumption.
Qed.

Lemma shift_shifted : forall s delta r, Forall2 (shifted delta) (m_txs s) (m_txs (fst (shift_schedule s delta r))).
Proof.
  intros. unfold shift_schedule.
  destruct (shift_fold_shifted (m_ivl s) delta (m_txs s) [] r) as [l' [F S]].
  destruct (fold_left _ _ _) as [txs r'] eqn:E. simpl in F. subst. simpl. exact S.
Qed.

Lemma shifted_keeps : forall tg delta a b, 0 <= delta -> tg_eff tg <= U32MAX -> shifted delta a b -> keeps tg a b.
Proof.
  intros tg delta a b D M [E1 [E2 [E3 E4]]]. unfold keeps. repeat split; try assumption; [congruence|].
  rewrite E4. destruct (is_pending_state a); [|tauto]. unfold sat_add. lia.
Qed.

(* ---------------------------------------------------------------------------------------- *)
(** what the kernel's candidates are *)

Lemma seed_in_dead : forall s tg t, In t (m_txs s) -> is_mined t = false -> t_unsat t <> None ->
  mem (t_id t) (dead_set s tg) = true.
Proof.
  intros s tg t I M U. apply dead_set_complete. apply Dead_seed; [exact I | apply is_mined_unmined; exact M | left; exact U].
Qed.

(** every candidate id names a row that is unmined, unmarked and not set aside; the members of a
    Prove or Broadcast step are moreover pending rows *)
Lemma candidate_row : forall s tg sa cands id, candidates (next_step s tg sa) = Some cands -> In id cands ->
  exists t, In t (m_txs s) /\ t_id t = id /\ is_mined t = false /\ t_unsat t = None /\ mem id sa = false
    /\ (shift_trigger (next_step s tg sa) = true -> is_pending_state t = true)
    /\ (is_prove (next_step s tg sa) = true ->
        forall b, t_anchor t = Some b -> b + PROVABLE_ANCHOR_DEPTH < tg_scanned tg \/ U32MAX < tg_scanned tg).
Proof.
  intros s tg sa cands id C I.
  destruct (next_step s tg sa) eqn:N; simpl in C; try discriminate; inversion C; subst; clear C.
  - (* Prove *)
    apply next_step_prove_inv in N. subst l. unfold provable_targets in I. rewrite map_map in I. simpl in I.
    apply in_map_iff in I. destruct I as [t [<- I]]. apply sort_by_in in I. apply filter_In in I. destruct I as [I P].
    unfold prove_ok in P. repeat (apply andb_true_iff in P; destruct P as [P ?]). rewrite negb_true_iff in *.
    apply is_signed_spec in P. exists t.
    assert (M : is_mined t = false) by (unfold is_mined; rewrite P; reflexivity).
    split; [exact I|]. split; [reflexivity|]. split; [exact M|]. split.
    { destruct (t_unsat t) eqn:U; [|reflexivity]. exfalso.
      assert (X : mem (t_id t) (dead_set s tg) = true) by (apply seed_in_dead; [exact I | exact M | congruence]). congruence. }
    split; [assumption|]. split; [intros _; unfold is_pending_state; rewrite P; reflexivity|].
    intros _ b Hb. unfold prove_ready in H. destruct (is_expired t (tg_eff tg)); [discriminate|].
    destruct (negb (deps_mined (m_txs s) (t_deps t))); [discriminate|]. rewrite Hb in H. unfold sat_add in H. lia.
  - (* Broadcast *)
    destruct I as [<-|[]]. apply next_step_broadcast_inv in N. destruct N as [_ N].
    apply next_broadcastable_spec in N. destruct N as [t [I [<- [B _]]]]. exists t.
    unfold bcast_ok in B. repeat (apply andb_true_iff in B; destruct B as [B ?]). rewrite negb_true_iff in *.
    apply is_proved_spec in B.
    assert (M : is_mined t = false) by (unfold is_mined; rewrite B; reflexivity).
    split; [exact I|]. split; [reflexivity|]. split; [exact M|]. split.
    { destruct (t_unsat t) eqn:U; [|reflexivity]. exfalso.
      assert (X : mem (t_id t) (dead_set s tg) = true) by (apply seed_in_dead; [exact I | exact M | congruence]). congruence. }
    split; [assumption|]. split; [intros _; unfold is_pending_state; rewrite B; reflexivity | discriminate].
  - (* Rebuild *)
    destruct I as [<-|[]]. apply next_step_rebuild_inv in N. unfold next_rebuildable in N.
    destruct (min_first _ _) as [t|] eqn:E; [|discriminate]. simpl in N. inversion N; subst.
    apply min_first_in in E. apply filter_In in E. destruct E as [I R]. exists t.
    unfold rebuild_ok in R. repeat (apply andb_true_iff in R; destruct R as [R ?]). rewrite negb_true_iff in *.
    split; [exact I|]. split; [reflexivity|]. split.
    { unfold is_expired in H2. destruct (is_mined t); [discriminate|reflexivity]. }
    split; [destruct (t_unsat t); [discriminate|reflexivity]|]. split; [assumption|]. split; discriminate.
Qed.

(** the plain [u32] addition of the overdue test cannot overflow on a member of a Prove step *)
Theorem prove_candidate_no_overflow : forall s tg sa l id k, next_step s tg sa = SProve l -> In (id, k) l ->
  tg_scanned tg <= U32MAX ->
  exists t, In t (m_txs s) /\ t_id t = id /\
    forall b, t_anchor t = Some b -> b + PROVABLE_ANCHOR_DEPTH + 1 <= U32MAX.
Proof.
  intros s tg sa l id k N I M.
  destruct (candidate_row s tg sa (map fst l) id) as [t [It [E [_ [_ [_ [_ P]]]]]]].
  - rewrite N. reflexivity.
  - apply in_map_iff. exists (id, k). tauto.
  - exists t. split; [exact It|]. split; [exact E|]. intros b Hb. rewrite N in P. destruct (P eq_refl b Hb); lia.
Qed.

Lemma all_some_rows : forall A B (f : A -> option B) l rows, all_some (map f l) = Some rows ->
  forall r, In r rows -> exists x, In x l /\ f x = Some r.
Proof.
  intros A B f l. induction l as [|a l IH]; intros rows H r I; simpl in H.
  - inversion H; subst. destruct I.
  - destruct (f a) as [b|] eqn:E; [|discriminate]. destruct (all_some (map f l)) as [rs|] eqn:E2; [|discriminate].
    simpl in H. inversion H; subst. destruct I as [<-|I]; [exists a; split; [left; reflexivity | exact E]|].
    destruct (IH rs eq_refl r I) as [x [Ix Fx]]. exists x. split; [right; exact Ix | exact Fx].
Qed.

Lemma find_tx_some : forall id txs t, find_tx id txs = Some t -> In t txs /\ t_id t = id.
Proof.
  intros id txs t H. unfold find_tx in H. apply find_some in H. destruct H as [H1 H2]. apply Z.eqb_eq in H2. tauto.
Qed.

Lemma nodup_find' : forall txs t, NoDup (map t_id txs) -> In t txs -> find_tx (t_id t) txs = Some t.
Proof.
  unfold find_tx. induction txs as [|a l IH]; intros t N I; [destruct I|]. simpl. inversion N; subst.
  destruct I as [->|I]; [rewrite Z.eqb_refl; reflexivity|].
  destruct (t_id a =? t_id t) eqn:E; [|apply IH; assumption].
  apply Z.eqb_eq in E. exfalso. apply H1. rewrite E. apply in_map. exact I.
Qed.

(* ---------------------------------------------------------------------------------------- *)
Section Term.
  Variable sat : mtx -> answer.
  Variable mined_at : Z -> option Z.

  Lemma verify_members : forall rows,
    let '(kept, dfr, disc) := verify sat rows in
    (forall id, In id dfr -> exists t h, In t rows /\ t_id t = id /\ sat t = NotYet h)
    /\ (forall d, In d disc -> records (snd d) = true /\ exists t, In t rows /\ t_id t = fst d).
  Proof.
    intros rows. unfold verify.
    set (step := fun (acc : list Z * list Z * list (Z * answer)) (t : mtx) =>
      let '(kept, dfr, disc) := acc in
      match sat t with
      | Sat _ => (kept ++ [t_id t], dfr, disc)
      | NotYet _ => (kept, dfr ++ [t_id t], disc)
      | Unsat c h => if records (Unsat c h) then (kept, dfr, disc ++ [(t_id t, Unsat c h)])
                     else (kept ++ [t_id t], dfr, disc)
      end).
    assert (G : forall l acc,
      (let '(kept, dfr, disc) := acc in
       (forall id, In id dfr -> exists t h, In t rows /\ t_id t = id /\ sat t = NotYet h)
       /\ (forall d, In d disc -> records (snd d) = true /\ exists t, In t rows /\ t_id t = fst d)) ->
      incl l rows ->
      (let '(kept, dfr, disc) := fold_left step l acc in
       (forall id, In id dfr -> exists t h, In t rows /\ t_id t = id /\ sat t = NotYet h)
       /\ (forall d, In d disc -> records (snd d) = true /\ exists t, In t rows /\ t_id t = fst d))).
    { induction l as [|t l IH]; intros [[k d] c] H Inc; simpl; [exact H|].
      apply IH; [|intros x Hx; apply Inc; right; exact Hx].
      assert (It : In t rows) by (apply Inc; left; reflexivity).
      unfold step. destruct H as [H1 H2]. destruct (sat t) eqn:E.
      - split; assumption.
      - split; [|assumption]. intros id Hid. apply in_app_or in Hid. destruct Hid as [Hid|[<-|[]]]; [apply H1; exact Hid|].
        exists t, h. tauto.
      - change (records (Unsat c0 h)) with (is_some (cause_kind c0)).
        destruct (is_some (cause_kind c0)) eqn:R; [|split; assumption].
        split; [assumption|]. intros x Hx. apply in_app_or in Hx. destruct Hx as [Hx|[<-|[]]]; [apply H2; exact Hx|].
        simpl. split; [exact R | exists t; tauto]. }
    apply (G rows ([], [], [])); [split; intros ? []| apply incl_refl].
  Qed.

  Lemma broaden_incl : forall s batch d, In d batch -> In d (broaden sat s batch).
  Proof.
    intros s batch d I. unfold broaden.
    assert (G : forall l b, In d b -> In d (fold_left (fun b t =>
      if negb (existsb (fun p => fst p =? t_id t) b) && is_pending_state t
         && negb (is_some (t_unsat t)) && deps_mined (m_txs s) (t_deps t)
      then let a := sat t in if records a then b ++ [(t_id t, a)] else b
      else b) l b)).
    { induction l as [|t l IH]; intros b Hb; simpl; [exact Hb|]. apply IH.
      destruct (_ && _ && _ && _); [|exact Hb]. destruct (records (sat t)); [apply in_or_app; left; exact Hb | exact Hb]. }
    apply G. exact I.
  Qed.

  Lemma mem_app : forall x a b, mem x (a ++ b) = mem x a || mem x b.
  Proof. intros. unfold mem. apply existsb_app. Qed.

  (** deferral evidence carried by the set-aside list *)
  Definition deferred (s : mstate) (id : Z) : Prop :=
    (exists t, In t (m_txs s) /\ t_id t = id /\ is_mined t = false)
    /\ (exists t0 h, t_id t0 = id /\ sat t0 = NotYet h).

  Lemma deferred_keeps : forall tg s s' id, Forall2 (keeps tg) (m_txs s) (m_txs s') -> deferred s id -> deferred s' id.
  Proof.
    intros tg s s' id H [[t [I [E M]]] Ev]. split; [|exact Ev]. clear Ev.
    induction H as [|a b l l' [E1 [E2 _]] _ IH]; [destruct I|].
    destruct I as [<-|I].
    - exists b. split; [left; reflexivity|]. split; [congruence|]. unfold is_mined in *. rewrite <- E2. exact M.
    - destruct (IH I) as [t' [I' X]]. exists t'. split; [right; exact I' | exact X].
  Qed.

  (** what a finished planning loop returned *)
  Definition drive_result (s : mstate) (tg : targets) (sa : list Z) (st : step) : Prop :=
    st = next_step s tg sa
    \/ exists sa0 l kept, next_step s tg sa0 = SProve l /\ kept <> [] /\ st = SProve (filter (fun p => mem (fst p) kept) l).

  Lemma plan_loop_total : forall fuel tg s sa dirty r,
    NoDup (map t_id (m_txs s)) -> tg_eff tg <= U32MAX ->
    (forall id, In id sa -> deferred s id) ->
    (measure tg sa (m_txs s) < fuel)%nat ->
    exists st s' d' sa', plan_loop sat fuel tg s sa dirty r = PDone st s' d' sa'
      /\ Forall2 (keeps tg) (m_txs s) (m_txs s') /\ m_status s' = m_status s
      /\ (forall id, In id sa' -> deferred s' id)
      /\ drive_result s' tg sa' st.
  Proof.
    induction fuel as [|f IH]; intros tg s sa dirty r ND EM INV F; [lia|].
    cbn [plan_loop].
    destruct (candidates (next_step s tg sa)) as [cands|] eqn:C.
    2:{ exists (next_step s tg sa), s, dirty, sa. split; [reflexivity|]. split; [apply F2_refl; apply keeps_refl|].
        split; [reflexivity|]. split; [exact INV | left; reflexivity]. }
    pose proof (candidates_found s tg sa cands C) as CF.
    destruct (all_some _) as [rows|] eqn:A; [|congruence].
    (* every named row is the kernel's row for its id *)
    assert (RW : forall t, In t rows -> In t (m_txs s) /\ In (t_id t) cands).
    { intros t It. destruct (all_some_rows _ _ _ _ _ A t It) as [id [Iid Fid]]. apply find_tx_some in Fid.
      destruct Fid as [F1 F2]. subst id. tauto. }
    assert (KR : forall t, In t rows -> is_mined t = false /\ t_unsat t = None /\ mem (t_id t) sa = false
                 /\ (shift_trigger (next_step s tg sa) = true -> is_pending_state t = true)).
    { intros t It. destruct (RW t It) as [I1 I2].
      destruct (candidate_row s tg sa cands (t_id t) C I2) as [t' [I' [E' [M [U [S [P _]]]]]]].
      assert (X : t' = t).
      { pose proof (nodup_find' _ _ ND I') as X1. pose proof (nodup_find' _ _ ND I1) as X2. rewrite E' in X1. congruence. }
      subst t'. tauto. }
    destruct (overdue_shift (next_step s tg sa) rows s tg) as [delta|] eqn:O.
    { (* shift *)
      unfold overdue_shift in O. destruct (shift_trigger (next_step s tg sa)) eqn:TR; [|discriminate].
      destruct (min_first key_lt _) as [[ofrom sched]|] eqn:MF; [|discriminate].
      destruct (sat_add ofrom (overdue_tolerance (m_ivl s)) <? tg_eff tg) eqn:LT; [|discriminate].
      inversion O; subst delta. apply min_first_in in MF. apply in_map_iff in MF. destruct MF as [c [Ec Ic]].
      inversion Ec; subst ofrom sched. destruct (KR c Ic) as [_ [_ [_ PC]]]. specialize (PC eq_refl).
      destruct (RW c Ic) as [IcS _].
      assert (OV : t_sched c <= overdue_from (next_step s tg sa) c).
      { unfold overdue_from. destruct (is_prove _); [destruct (t_anchor c); lia | lia]. }
      assert (TOL : 1 <= overdue_tolerance (m_ivl s)) by (unfold overdue_tolerance; lia).
      assert (SC : t_sched c < tg_eff tg) by (unfold sat_add in LT; lia).
      pose proof (shift_shifted s (tg_eff tg - t_sched c) r) as SH.
      pose proof (shift_status s (tg_eff tg - t_sched c) r) as ST.
      destruct (shift_schedule s (tg_eff tg - t_sched c) r) as [s1 r1]. simpl in SH, ST.
      assert (K1 : Forall2 (keeps tg) (m_txs s) (m_txs s1)).
      { clear -SH EM SC. induction SH; constructor; [eapply shifted_keeps; [|exact EM|eassumption]; lia | assumption]. }
      destruct (keeps_counts tg sa _ _ K1) as [_ [HB HC]].
      assert (HA : (cntA tg (m_txs s1) < cntA tg (m_txs s))%nat).
      { apply (count_rel_lt _ (shifted (tg_eff tg - t_sched c))); [exact SH | |].
        - intros a b Sab G. assert (DP : 0 <= tg_eff tg - t_sched c) by lia.
          destruct (shifted_keeps tg _ a b DP EM Sab) as [_ [S2 [_ K4]]].
          unfold fA in *. apply andb_true_iff in G. destruct G as [G1 G2].
          rewrite (pending_state_eq a b S2), G1. simpl. apply Z.ltb_lt. apply K4. lia.
        - exists c. split; [exact IcS|]. split; [unfold fA; rewrite PC; simpl; lia|].
          intros b [_ [_ [_ S4]]]. unfold fA. rewrite PC in S4. rewrite S4. unfold sat_add.
          apply andb_false_iff. right. lia. }
      destruct (IH tg s1 sa true r1) as [st [s' [d' [sa' [P [K2 [T2 [I2 D2]]]]]]]].
      - rewrite <- (keeps_ids tg _ _ K1). exact ND.
      - exact EM.
      - intros id Hid. eapply deferred_keeps; [exact K1 | apply INV; exact Hid].
      - unfold measure in *. lia.
      - exists st, s', d', sa'. split; [exact P|]. split; [eapply F2_trans; [apply keeps_trans | exact K1 | exact K2]|].
        split; [congruence|]. tauto. }
    (* verify *)
    pose proof (verify_members rows) as VM. destruct (verify sat rows) as [[kept dfr] disc]. destruct VM as [VD VX].
    assert (INV' : forall id, In id (sa ++ dfr) -> deferred s id).
    { intros id Hid. apply in_app_or in Hid. destruct Hid as [Hid|Hid]; [apply INV; exact Hid|].
      destruct (VD id Hid) as [t [h [It [Et Nt]]]]. destruct (KR t It) as [M _]. destruct (RW t It) as [I1 _].
      split; [exists t; tauto | exists t, h; tauto]. }
    assert (CM : (cntC (sa ++ dfr) (m_txs s) <= cntC sa (m_txs s))%nat).
    { apply (count_rel_le _ eq); [apply F2_refl; reflexivity|]. intros a b <- G. unfold fC in *.
      rewrite mem_app in G. destruct (mem (t_id a) sa); [discriminate|reflexivity]. }
    destruct (negb (is_nil disc)) eqn:DN.
    { (* a discovery is recorded *)
      destruct disc as [|d0 disc']; [discriminate|].
      destruct (VX d0 (or_introl eq_refl)) as [R0 [t0 [It0 Et0]]].
      destruct (KR t0 It0) as [M0 [U0 _]]. destruct (RW t0 It0) as [I0 _].
      set (s1 := record_satisfiability s tg (broaden sat s (d0 :: disc'))).
      pose proof (record_sat_keeps tg s tg (broaden sat s (d0 :: disc'))) as K1. fold s1 in K1.
      assert (HB : (cntB (m_txs s1) < cntB (m_txs s))%nat).
      { apply record_sat_strict. exists d0. split; [apply broaden_incl; left; reflexivity|]. split; [exact R0|].
        apply existsb_exists. exists t0. split; [exact I0|]. unfold markable, has_id. rewrite <- Et0, Z.eqb_refl, U0, M0. reflexivity. }
      destruct (keeps_counts tg (sa ++ dfr) _ _ K1) as [HA [_ HC]].
      destruct (IH tg s1 (sa ++ dfr) true r) as [st [s' [d' [sa' [P [K2 [T2 [I2 D2]]]]]]]].
      - rewrite <- (keeps_ids tg _ _ K1). exact ND.
      - exact EM.
      - intros id Hid. eapply deferred_keeps; [exact K1 | apply INV'; exact Hid].
      - unfold measure in *. lia.
      - exists st, s', d', sa'. split; [exact P|]. split; [eapply F2_trans; [apply keeps_trans | exact K1 | exact K2]|].
        split; [rewrite T2; reflexivity|]. tauto. }
    destruct (is_nil dfr) eqn:DF.
    { destruct dfr; [|discriminate]. rewrite app_nil_r in *.
      exists (next_step s tg sa), s, dirty, sa. split; [reflexivity|]. split; [apply F2_refl; apply keeps_refl|].
      split; [reflexivity|]. split; [exact INV | left; reflexivity]. }
    (* something was deferred: the set-aside list grows by a new candidate id *)
    assert (HC : (cntC (sa ++ dfr) (m_txs s) < cntC sa (m_txs s))%nat).
    { destruct dfr as [|i0 dfr']; [discriminate|].
      destruct (VD i0 (or_introl eq_refl)) as [t [h [It [Et _]]]]. destruct (KR t It) as [_ [_ [S _]]]. destruct (RW t It) as [I1 _].
      apply (count_rel_lt _ eq); [apply F2_refl; reflexivity| |].
      - intros a b <- G. unfold fC in *. rewrite mem_app in G. destruct (mem (t_id a) sa); [discriminate|reflexivity].
      - exists t. split; [exact I1|]. split; [unfold fC; rewrite S; reflexivity|].
        intros b <-. unfold fC. rewrite mem_app, Et. simpl. rewrite Z.eqb_refl. simpl. rewrite orb_true_r. reflexivity. }
    assert (REC : forall dirty', exists st s' d' sa', plan_loop sat f tg s (sa ++ dfr) dirty' r = PDone st s' d' sa'
      /\ Forall2 (keeps tg) (m_txs s) (m_txs s') /\ m_status s' = m_status s
      /\ (forall id, In id sa' -> deferred s' id) /\ drive_result s' tg sa' st).
    { intros dirty'. apply IH; [exact ND | exact EM | exact INV' | unfold measure in *; lia]. }
    destruct (next_step s tg sa) eqn:N; try apply REC.
    destruct (negb (is_nil kept)) eqn:KN; [|apply REC].
    exists (SProve (filter (fun p => mem (fst p) kept) l)), s, dirty, (sa ++ dfr).
    split; [reflexivity|]. split; [apply F2_refl; apply keeps_refl|]. split; [reflexivity|]. split; [exact INV'|].
    right. exists sa, l, kept. split; [exact N|]. split; [destruct kept; [discriminate|discriminate]|reflexivity].
  Qed.

  Lemma monotone_ids : forall a b, monotone a b -> map t_id a = map t_id b.
  Proof. intros a b H. induction H as [|x y l l' [E _] _ IH]; simpl; [reflexivity|rewrite E, IH; reflexivity]. Qed.

  (** * [advance] always returns: the fuel [4|txs|+8] is never exhausted *)
  Theorem advance_total : forall s tg r,
    NoDup (map t_id (m_txs s)) -> tg_eff tg <= U32MAX ->
    exists st s' dirty, advance sat mined_at s tg r = ARes st s' dirty.
  Proof.
    intros s tg r ND EM. unfold advance.
    pose proof (sweep_monotone sat mined_at s tg) as M1. destruct (sweep sat mined_at s tg) as [s1 d1]. simpl in M1.
    pose proof (adjudicate_same sat s1 tg) as M2. destruct (adjudicate sat s1 tg) as [[s2 d2] pending]. simpl in M2.
    destruct pending; [eexists; eexists; eexists; reflexivity|].
    destruct (plan_loop_total (advance_fuel s2) tg s2 [] (d1 || d2) r) as [st [s' [d' [sa' [P _]]]]].
    - rewrite <- (monotone_ids _ _ (same_monotone _ _ M2)), <- (monotone_ids _ _ M1). exact ND.
    - exact EM.
    - intros id [].
    - pose proof (measure_bound tg [] (m_txs s2)). unfold advance_fuel. lia.
    - rewrite P. eexists; eexists; eexists; reflexivity.
  Qed.

  (** * What [advance] returns, for every store *)
  Theorem advance_any_store : forall s tg r st s' dirty,
    NoDup (map t_id (m_txs s)) -> tg_eff tg <= U32MAX ->
    advance sat mined_at s tg r = ARes st s' dirty ->
    st = SReevaluate
    \/ exists sa, (forall id, In id sa -> deferred s' id) /\ drive_result s' tg sa st.
  Proof.
    intros s tg r st s' dirty ND EM H. unfold advance in H.
    pose proof (sweep_monotone sat mined_at s tg) as M1. destruct (sweep sat mined_at s tg) as [s1 d1]. simpl in M1.
    pose proof (adjudicate_same sat s1 tg) as M2. destruct (adjudicate sat s1 tg) as [[s2 d2] pending]. simpl in M2.
    destruct pending; [inversion H; left; reflexivity|]. right.
    destruct (plan_loop_total (advance_fuel s2) tg s2 [] (d1 || d2) r) as [st3 [s3 [d3 [sa3 [P [_ [_ [I3 D3]]]]]]]].
    - rewrite <- (monotone_ids _ _ (same_monotone _ _ M2)), <- (monotone_ids _ _ M1). exact ND.
    - exact EM.
    - intros id [].
    - pose proof (measure_bound tg [] (m_txs s2)). unfold advance_fuel. lia.
    - rewrite P in H. inversion H; subst. exists sa3. tauto.
  Qed.
End Term.

(* ---------------------------------------------------------------------------------------- *)
(** * No silent stranding at the drive API, for every store *)

Lemma next_step_waiting_gen : forall s tg sa, next_step s tg sa = SWaiting -> m_txs s <> [] ->
  (exists t, In t (m_txs s) /\ unmined t /\ ~ Dead (m_txs s) (tg_scanned tg) (t_id t)) \/ sa <> [].
Proof.
  intros s tg sa H NE. destruct sa as [|x sa]; [left; apply next_step_waiting_live; assumption | right; discriminate].
Qed.

Lemma next_step_stranded_gen : forall s tg, stranded s tg -> forall sa,
  next_step s tg sa = SReplan \/ (exists id, next_step s tg sa = SRebuild id)
  \/ (sa <> [] /\ next_step s tg sa = SWaiting).
Proof.
  intros s tg [T [[t0 [I0 U0]] A]] sa. unfold next_step. rewrite T.
  assert (DD : forall t, In t (m_txs s) -> is_mined t = false -> mem (t_id t) (dead_set s tg) = true).
  { intros t I M. apply dead_set_complete, A; [exact I | apply is_mined_unmined; exact M]. }
  assert (B : next_broadcastable s tg (dead_set s tg) sa = None).
  { unfold next_broadcastable. rewrite filter_nil; [reflexivity|].
    intros t I. unfold bcast_ok. destruct (is_proved t) eqn:P; [|reflexivity].
    assert (M : is_mined t = false) by (apply is_proved_spec in P; unfold is_mined; rewrite P; reflexivity).
    rewrite (DD t I M). simpl. rewrite andb_false_r. reflexivity. }
  rewrite B. destruct (replan_required s); [left; reflexivity|].
  assert (P : provable_targets s tg (dead_set s tg) sa = []).
  { unfold provable_targets. rewrite filter_nil; [reflexivity|].
    intros t I. unfold prove_ok. destruct (is_signed t) eqn:S; [|reflexivity].
    assert (M : is_mined t = false) by (apply is_signed_spec in S; unfold is_mined; rewrite S; reflexivity).
    rewrite (DD t I M). reflexivity. }
  rewrite P. simpl. destruct (next_rebuildable s tg (dead_set s tg) sa) as [id|]; [right; left; exists id; reflexivity|].
  assert (N : negb (is_nil (dead_set s tg)) = true).
  { apply is_mined_unmined in U0. specialize (DD t0 I0 U0). destruct (dead_set s tg); [discriminate|reflexivity]. }
  rewrite N. simpl.
  assert (F : forallb (fun t => is_mined t || mem (t_id t) (dead_set s tg)) (m_txs s) = true).
  { apply forallb_forall. intros t I. destruct (is_mined t) eqn:M; [reflexivity|]. simpl. apply DD; assumption. }
  rewrite F. destruct sa as [|x sa]; [left; reflexivity|]. right. right. split; [discriminate|]. simpl.
  assert (AM : all_mined (m_txs s) = false).
  { unfold all_mined. destruct (forallb is_mined (m_txs s)) eqn:Q; [|reflexivity].
    rewrite forallb_forall in Q. specialize (Q t0 I0). apply is_mined_unmined in U0. congruence. }
  rewrite AM, andb_false_r. reflexivity.
Qed.

Section EveryStore.
  Variable sat : mtx -> answer.
  Variable mined_at : Z -> option Z.

  (** [Waiting] always has a reason that can still move: a live unmined transaction, or a
      candidate the store deferred in this very call ("not yet satisfiable": retry after sync). *)
  Theorem advance_waiting_every_store : forall s tg r s' dirty,
    NoDup (map t_id (m_txs s)) -> tg_eff tg <= U32MAX ->
    advance sat mined_at s tg r = ARes SWaiting s' dirty -> m_txs s' <> [] ->
    (exists t, In t (m_txs s') /\ unmined t /\ ~ Dead (m_txs s') (tg_scanned tg) (t_id t))
    \/ (exists id, deferred sat s' id).
  Proof.
    intros s tg r s' dirty ND EM H NE.
    destruct (advance_any_store sat mined_at s tg r _ _ _ ND EM H) as [X|[sa [I [D|[sa0 [l [k [_ [_ D]]]]]]]]]; try discriminate.
    destruct (next_step_waiting_gen s' tg sa (eq_sym D) NE) as [L|N]; [left; exact L|].
    right. destruct sa as [|id sa]; [congruence|]. exists id. apply I. left. reflexivity.
  Qed.

  (** A migration whose remaining value is all dead never ends silently: the drive API returns
      [Reevaluate], [Replan] or [Rebuild] — or [Waiting] only with a candidate deferred this call. *)
  Theorem advance_stranded_every_store : forall s tg r st s' dirty,
    NoDup (map t_id (m_txs s)) -> tg_eff tg <= U32MAX ->
    advance sat mined_at s tg r = ARes st s' dirty -> stranded s' tg ->
    st = SReevaluate \/ st = SReplan \/ (exists id, st = SRebuild id)
    \/ (st = SWaiting /\ exists id, deferred sat s' id).
  Proof.
    intros s tg r st s' dirty ND EM H S.
    destruct (advance_any_store sat mined_at s tg r _ _ _ ND EM H) as [X|[sa [I [D|[sa0 [l [k [N _]]]]]]]].
    - left. exact X.
    - right. destruct (next_step_stranded_gen s' tg S sa) as [E|[[id E]|[NE E]]].
      + left. congruence.
      + right. left. exists id. congruence.
      + right. right. split; [congruence|]. destruct sa as [|id sa]; [congruence|]. exists id. apply I. left. reflexivity.
    - exfalso. destruct (next_step_stranded_gen s' tg S sa0) as [E|[[id E]|[_ E]]]; congruence.
  Qed.

  (** [Reevaluate] is only returned while a broadcast-failure report stands whose tip the store's
      answer does not reach yet. *)
  Lemma adjudicate_pending : forall s tg, snd (adjudicate sat s tg) = true ->
    exists t tip, In t (m_txs s) /\ t_fail t = Some tip /\ as_of (sat t) < tip.
  Proof.
    intros s tg H. unfold adjudicate in H. destruct (is_terminal s); [discriminate|].
    set (step := fun (acc : list Z * list (Z * answer) * bool) (t : mtx) =>
        let '(adj, vd, pend) := acc in
        match t_fail t with
        | None => acc
        | Some tip =>
          let a := sat t in
          if as_of a <? tip then (adj, vd, true)
          else (adj ++ [t_id t], (if records a then vd ++ [(t_id t, a)] else vd), pend)
        end) in *.
    assert (G : forall l acc, snd (fold_left step l acc) = true ->
      snd acc = true \/ exists t tip, In t l /\ t_fail t = Some tip /\ as_of (sat t) < tip).
    { induction l as [|t l IH]; intros [[adj vd] pend] X; simpl in *; [left; exact X|].
      destruct (IH _ X) as [Y|[t' [tip [I' R]]]]; [|right; exists t', tip; tauto].
      unfold step in Y. destruct (t_fail t) as [tip|] eqn:Ft; [|left; exact Y].
      destruct (as_of (sat t) <? tip) eqn:L; [right; exists t, tip; split; [left; reflexivity|split; [exact Ft|lia]] | left; exact Y]. }
    destruct (fold_left step (m_txs s) ([], [], false)) as [[adj vd] pend] eqn:E.
    simpl in H. assert (P : pend = true).
    { destruct pend; [reflexivity|]. simpl in H. destruct (is_nil vd); simpl in H; discriminate. }
    destruct (G (m_txs s) ([], [], false)) as [Y|Y]; [rewrite E; exact P | discriminate | exact Y].
  Qed.
End EveryStore.

Lemma next_step_not_reevaluate : forall s tg sa, next_step s tg sa <> SReevaluate.
Proof.
  intros s tg sa. unfold next_step. destruct (is_terminal s); [discriminate|].
  destruct (next_broadcastable _ _ _ _); [discriminate|]. destruct (replan_required s); [discriminate|].
  destruct (negb (is_nil (provable_targets _ _ _ _))); [discriminate|].
  destruct (next_rebuildable _ _ _ _); [discriminate|]. destruct (_ && _ && _); [discriminate|].
  destruct (_ && _); discriminate.
Qed.

(** [Reevaluate] names its reason: a standing broadcast-failure report whose tip the store's
    answer does not reach yet (on the state after the in-flight sweep). *)
Theorem advance_reevaluate_reason : forall sat mined_at s tg r s' dirty,
  NoDup (map t_id (m_txs s)) -> tg_eff tg <= U32MAX ->
  advance sat mined_at s tg r = ARes SReevaluate s' dirty ->
  exists t tip, In t (m_txs (fst (sweep sat mined_at s tg))) /\ t_fail t = Some tip /\ as_of (sat t) < tip.
Proof.
  intros sat mined_at s tg r s' dirty ND EM H. unfold advance in H.
  pose proof (sweep_monotone sat mined_at s tg) as M1.
  destruct (sweep sat mined_at s tg) as [s1 d1] eqn:SW. simpl in *.
  pose proof (adjudicate_pending sat s1 tg) as AP || pose proof (adjudicate_pending sat mined_at s1 tg) as AP. pose proof (adjudicate_same sat s1 tg) as M2.
  destruct (adjudicate sat s1 tg) as [[s2 d2] pending]. simpl in *.
  destruct pending; [apply AP; reflexivity|]. exfalso.
  destruct (plan_loop_total sat mined_at (advance_fuel s2) tg s2 [] (d1 || d2) r) as [st3 [s3 [d3 [sa3 [P [_ [_ [_ D3]]]]]]]].
  - rewrite <- (monotone_ids _ _ (same_monotone _ _ M2)), <- (monotone_ids _ _ M1). exact ND.
  - exact EM.
  - intros id [].
  - pose proof (measure_bound tg [] (m_txs s2)). unfold advance_fuel. lia.
  - rewrite P in H. inversion H; subst. destruct D3 as [D|[sa0 [l [k [_ [_ D]]]]]]; [|discriminate].
    symmetry in D. apply next_step_not_reevaluate in D. exact D.
Qed.

(* ---------------------------------------------------------------------------------------- *)
(** * The durable closure of [record_satisfiability] reaches its fixpoint within its fuel *)

Lemma inherited_members : forall txs sc p, In p (inherited txs sc) ->
  exists t, In t txs /\ t_id t = fst p /\ t_unsat t = None.
Proof.
  intros txs sc p H. unfold inherited in H. apply in_flat_map in H. destruct H as [t [I H]].
  destruct (negb (is_mined t) && negb (is_some (t_unsat t))) eqn:E; [|destruct H].
  destruct (inherited_stamp txs sc t); [|destruct H]. destruct H as [<-|[]]. exists t.
  apply andb_true_iff in E. destruct E as [_ E]. apply negb_true_iff in E.
  split; [exact I|]. split; [reflexivity|]. destruct (t_unsat t); [discriminate|reflexivity].
Qed.

Lemma update_first_id_mark : forall txs t u, NoDup (map t_id txs) -> In t txs -> t_unsat t = None ->
  (cntB (update_first (has_id (t_id t)) (fun x => set_unsat x (Some u)) txs) < cntB txs)%nat.
Proof.
  unfold cntB, count. induction txs as [|a l IH]; intros t u ND I U; [destruct I|].
  inversion ND; subst. simpl. unfold has_id at 1. destruct I as [->|I].
  - rewrite Z.eqb_refl. simpl. unfold fB at 2. rewrite U. simpl. lia.
  - destruct (t_id a =? t_id t) eqn:E.
    + exfalso. apply H1. apply Z.eqb_eq in E. rewrite E. apply in_map. exact I.
    + simpl. specialize (IH t u H2 I U). destruct (fB a); simpl; lia.
Qed.

Lemma apply_inherited_strict : forall txs sc, NoDup (map t_id txs) -> inherited txs sc <> [] ->
  (cntB (apply_inherited txs (inherited txs sc)) < cntB txs)%nat.
Proof.
  intros txs sc ND NE. destruct (inherited txs sc) as [|p l] eqn:E; [congruence|].
  destruct (inherited_members txs sc p) as [t [I [Ei U]]]; [rewrite E; left; reflexivity|].
  unfold apply_inherited. cbn [fold_left]. rewrite <- Ei.
  pose proof (update_first_id_mark txs t (snd p, KInherited) ND I U) as S.
  pose proof (apply_inherited_keeps (0, 0) l (update_first (has_id (t_id t)) (fun x => set_unsat x (Some (snd p, KInherited))) txs)) as K.
  destruct (keeps_counts (0, 0) [] _ _ K) as [_ [KB _]]. unfold apply_inherited in KB. lia.
Qed.

Theorem closure_fixpoint : forall fuel txs sc, NoDup (map t_id txs) -> (cntB txs < fuel)%nat ->
  inherited (closure_loop fuel txs sc) sc = [].
Proof.
  induction fuel as [|f IH]; intros txs sc ND F; [lia|]. cbn [closure_loop].
  destruct (inherited txs sc) as [|p l] eqn:E; [exact E|]. rewrite <- E.
  apply IH.
  - rewrite <- (keeps_ids (0, 0) _ _ (apply_inherited_keeps (0, 0) (inherited txs sc) txs)). exact ND.
  - pose proof (apply_inherited_strict txs sc ND). rewrite E in *. specialize (H ltac:(discriminate)). lia.
Qed.

(** with the fuel [record_satisfiability] gives it *)
Corollary record_sat_closed : forall s tg dets, NoDup (map t_id (m_txs s)) ->
  inherited (m_txs (record_satisfiability s tg dets)) (tg_scanned tg) = [].
Proof.
  intros s tg dets ND. unfold record_satisfiability. rewrite txs_set_txs. apply closure_fixpoint.
  - rewrite <- (keeps_ids (0, 0) _ _ (fold_direct_keeps (0, 0) dets (m_txs s))). exact ND.
  - pose proof (count_le_length _ fB (fold_left direct_mark dets (m_txs s))). unfold cntB. lia.
Qed.
