(** C18 — row-level model of ALL the normalised tables the SQLite store writes for one migration
    (store.rs [replace_migration_row] / [read_migration_row]): the parent row, the crossing
    values, the preparation plan (inputs, outputs, direct funding), the transactions with their
    two payload columns (PCZT bytes, lock owner), the dependency edges and the nullifier caches.

    Byte strings (PCZT, lock owner, nullifier) are opaque tokens [(length, FNV-1a-64 hash)]: the
    store copies them verbatim, and the harness computes the token of the in-memory value and of
    the dumped column the same way.  The transactions table's modelled columns are those of
    Store.v ([txrow]); its two payload columns travel in [txpay] rows, in the same row order. *)
From V.Lib Require Import Base.
From V.C18 Require Import Model Store.
Local Open Scope Z_scope.

Definition blob := (Z * Z)%type.
Record payload := MkPay { p_pczt : blob; p_lock : option blob; p_nfs : list blob }.

Inductive prepin := PWallet (index value : Z) | PPrior (layer tx output value : Z).
Inductive prole := RFunding | RIntermediate | RChange.
Definition prepout := (prole * Z)%type.
Definition preptx := (list prepin * list prepout)%type.

Record plan := MkPlan {
  pl_fee_buffer : Z; pl_change : option Z; pl_prep_fees : Z; pl_total_input : Z; pl_total_migratable : Z;
  pl_layers : list (list preptx); pl_direct : list (Z * Z) }.

(** everything [replace_migration] persists: the state Model.v carries, the per-transaction
    payloads (aligned with [m_txs]), and the rest of the denomination / preparation plan *)
Record fullmig := MkFull { f_state : mstate; f_pay : list payload; f_plan : plan }.

(* ------------------------------------------------------------------------------------------ *)
(** rows *)
Record parentrow := MkParent {
  pr_status : status; pr_fee_buffer : Z; pr_change : option Z; pr_prep_fees : Z; pr_total_input : Z;
  pr_total_migratable : Z; pr_ivl : Z; pr_thr : Z }.
Inductive srcname := SWallet | SPrior.
Record pinrow := MkPin {
  pi_layer : nat; pi_tx : nat; pi_ord : nat; pi_src : srcname;
  pi_widx : option Z; pi_pl : option Z; pi_pt : option Z; pi_po : option Z; pi_val : Z }.
Record poutrow := MkPout { po_layer : nat; po_tx : nat; po_ord : nat; po_role : prole; po_val : Z }.
Record ordrow := MkOrd { o_ord : nat; o_val : Z }.
Record dirrow := MkDir { dr_ord : nat; dr_widx : Z; dr_val : Z }.
Record nfrow := MkNf { n_tx : Z; n_ord : nat; n_blob : blob }.
Record txpay := MkTxPay { y_id : Z; y_pczt : blob; y_lock : option blob }.

Record tables := MkTables {
  tb_parent : parentrow; tb_cross : list ordrow; tb_pin : list pinrow; tb_pout : list poutrow;
  tb_direct : list dirrow; tb_tx : list txrow; tb_txpay : list txpay; tb_deps : list deprow;
  tb_nfs : list nfrow }.

(* ------------------------------------------------------------------------------------------ *)
(** write *)
Fixpoint enc_ord_from (n : nat) (l : list Z) : list ordrow :=
  match l with [] => [] | v :: r => MkOrd n v :: enc_ord_from (S n) r end.
Fixpoint enc_dir_from (n : nat) (l : list (Z * Z)) : list dirrow :=
  match l with [] => [] | (w, v) :: r => MkDir n w v :: enc_dir_from (S n) r end.
Fixpoint enc_nfs_from (id : Z) (n : nat) (l : list blob) : list nfrow :=
  match l with [] => [] | b :: r => MkNf id n b :: enc_nfs_from id (S n) r end.

Definition enc_in (l i o : nat) (x : prepin) : pinrow :=
  match x with
  | PWallet idx v => MkPin l i o SWallet (Some idx) None None None v
  | PPrior pl pt po v => MkPin l i o SPrior None (Some pl) (Some pt) (Some po) v
  end.
Fixpoint enc_ins_from (l i o : nat) (xs : list prepin) : list pinrow :=
  match xs with [] => [] | x :: r => enc_in l i o x :: enc_ins_from l i (S o) r end.
Fixpoint enc_outs_from (l i o : nat) (xs : list prepout) : list poutrow :=
  match xs with [] => [] | (ro, v) :: r => MkPout l i o ro v :: enc_outs_from l i (S o) r end.

Fixpoint pins_layer_from (l i : nat) (txs : list preptx) : list pinrow :=
  match txs with [] => [] | t :: r => enc_ins_from l i O (fst t) ++ pins_layer_from l (S i) r end.
Fixpoint pins_from (l : nat) (layers : list (list preptx)) : list pinrow :=
  match layers with [] => [] | ly :: r => pins_layer_from l O ly ++ pins_from (S l) r end.
Fixpoint pouts_layer_from (l i : nat) (txs : list preptx) : list poutrow :=
  match txs with [] => [] | t :: r => enc_outs_from l i O (snd t) ++ pouts_layer_from l (S i) r end.
Fixpoint pouts_from (l : nat) (layers : list (list preptx)) : list poutrow :=
  match layers with [] => [] | ly :: r => pouts_layer_from l O ly ++ pouts_from (S l) r end.

Fixpoint enc_pay (txs : list mtx) (pay : list payload) : list txpay * list nfrow :=
  match txs, pay with
  | t :: tr, p :: pr =>
    let '(a, b) := enc_pay tr pr in
    (MkTxPay (t_id t) (p_pczt p) (p_lock p) :: a, enc_nfs_from (t_id t) O (p_nfs p) ++ b)
  | _, _ => ([], [])
  end.

Definition save_full (f : fullmig) : tables :=
  let s := f_state f in
  let p := f_plan f in
  let '(rows, deps) := save_txs (m_txs s) in
  let '(pays, nfs) := enc_pay (m_txs s) (f_pay f) in
  MkTables
    (MkParent (m_status s) (pl_fee_buffer p) (pl_change p) (pl_prep_fees p) (pl_total_input p)
              (pl_total_migratable p) (m_ivl s) (m_thr s))
    (enc_ord_from O (m_cross s))
    (pins_from O (pl_layers p)) (pouts_from O (pl_layers p))
    (enc_dir_from O (pl_direct p))
    rows pays deps nfs.

(* ------------------------------------------------------------------------------------------ *)
(** read *)
Definition nat_lt_of {A} (key : A -> nat) (a b : A) : bool := Nat.ltb (key a) (key b).

Definition read_cross (l : list ordrow) : list Z := map o_val (sort_by (nat_lt_of o_ord) l).
Definition read_direct (l : list dirrow) : list (Z * Z) :=
  map (fun r => (dr_widx r, dr_val r)) (sort_by (nat_lt_of dr_ord) l).
Definition read_nfs (l : list nfrow) (id : Z) : list blob :=
  map n_blob (sort_by (nat_lt_of n_ord) (filter (fun r => n_tx r =? id) l)).

Definition dec_in (r : pinrow) : option prepin :=
  match pi_src r, pi_widx r, pi_pl r, pi_pt r, pi_po r with
  | SWallet, Some idx, _, _, _ => Some (PWallet idx (pi_val r))
  | SPrior, _, Some pl, Some pt, Some po => Some (PPrior pl pt po (pi_val r))
  | _, _, _, _, _ => None
  end.

Definition at_coord (l i : nat) (l' i' : nat) : bool := Nat.eqb l' l && Nat.eqb i' i.
Definition read_ins (pin : list pinrow) (l i : nat) : option (list prepin) :=
  all_some (map dec_in (sort_by (nat_lt_of pi_ord) (filter (fun r => at_coord l i (pi_layer r) (pi_tx r)) pin))).
Definition read_outs (pout : list poutrow) (l i : nat) : list prepout :=
  map (fun r => (po_role r, po_val r))
      (sort_by (nat_lt_of po_ord) (filter (fun r => at_coord l i (po_layer r) (po_tx r)) pout)).

(** the distinct (layer, tx_index) coordinates, [UNION ... ORDER BY layer, tx_index] *)
Definition coord := (nat * nat)%type.
Definition coord_eqb (a b : coord) : bool := Nat.eqb (fst a) (fst b) && Nat.eqb (snd a) (snd b).
Definition coord_lt (a b : coord) : bool :=
  Nat.ltb (fst a) (fst b) || (Nat.eqb (fst a) (fst b) && Nat.ltb (snd a) (snd b)).
Fixpoint dedup (l : list coord) : list coord :=
  match l with
  | [] => []
  | c :: r => if existsb (coord_eqb c) r then dedup r else c :: dedup r
  end.
Definition coords (pin : list pinrow) (pout : list poutrow) : list coord :=
  sort_by coord_lt (dedup (map (fun r => (pi_layer r, pi_tx r)) pin ++ map (fun r => (po_layer r, po_tx r)) pout)).

(** push one transaction at a coordinate, with the contiguity check of [read_preparation] *)
Definition push_tx (layers : list (list preptx)) (c : coord) (t : preptx) : option (list (list preptx)) :=
  let '(l, i) := c in
  if Nat.eqb l (length layers) && Nat.eqb i O then Some (layers ++ [[t]])
  else if Nat.eqb (S l) (length layers) && Nat.eqb i (length (last layers [])) then
    Some (removelast layers ++ [last layers [] ++ [t]])
  else None.

Fixpoint build_grid (cs : list coord) (pin : list pinrow) (pout : list poutrow) (layers : list (list preptx))
  : option (list (list preptx)) :=
  match cs with
  | [] => Some layers
  | (l, i) :: r =>
    match read_ins pin l i with
    | None => None
    | Some ins =>
      match push_tx layers (l, i) (ins, read_outs pout l i) with
      | None => None
      | Some layers' => build_grid r pin pout layers'
      end
    end
  end.

Definition pay_lt (a b : txpay) : bool := y_id a <? y_id b.

Definition load_full (tb : tables) : option fullmig :=
  match load_txs (tb_tx tb, tb_deps tb), build_grid (coords (tb_pin tb) (tb_pout tb)) (tb_pin tb) (tb_pout tb) [] with
  | Some txs, Some layers =>
    let pr := tb_parent tb in
    Some (MkFull
      (MkSt (pr_status pr) txs (read_cross (tb_cross tb)) (pr_thr pr) (pr_ivl pr))
      (map (fun y => MkPay (y_pczt y) (y_lock y) (read_nfs (tb_nfs tb) (y_id y))) (sort_by pay_lt (tb_txpay tb)))
      (MkPlan (pr_fee_buffer pr) (pr_change pr) (pr_prep_fees pr) (pr_total_input pr) (pr_total_migratable pr)
              layers (read_direct (tb_direct tb))))
  | _, _ => None
  end.

(** what the store can represent: rows in id order, one payload per transaction, and a plan whose
    layers are non-empty and whose transactions each have an input or an output (the write side
    rejects anything else as unrepresentable) *)
Definition plan_shape_ok (layers : list (list preptx)) : bool :=
  forallb (fun ly => negb (is_nil ly) && forallb (fun t => negb (is_nil (fst t)) || negb (is_nil (snd t))) ly) layers.
