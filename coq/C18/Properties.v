(** C18 — property theorems only. Each is closed by [exact] of a lemma from the Proofs files and
    audited by Print Assumptions in the generated Audit file. All of them hold for EVERY state
    (no well-formedness is needed unless stated), every targets pair, every store oracle
    ([sat], [mined_at] arbitrary functions) and every RNG script. *)
From V.Lib Require Import Base.
From V.Gen Require Import C18Consts.
From V.C18 Require Import Model Spec Corr Wf Store ProofsDead ProofsKernel ProofsLife ProofsDrive ProofsRebuild ProofsSeq ProofsStrand ProofsTerm ProofsTotal ProofsSampler ProofsStatus ProofsMarks ProofsMarks2 Bridge ProofsStore StoreFull ProofsStoreFull.
From Coq Require Import Sorted.
Local Open Scope Z_scope.

(** The drive API offers a broadcast only for a transaction that — in the state it returns — is
    Proved, has every dependency mined, is due at the served target, is not expired there, carries
    no broadcast-failure report and is not dead; and only for a non-terminal migration. *)
Theorem C18_broadcast_offer_safe : forall sat mined_at s tg r id s' dirty,
  advance sat mined_at s tg r = ARes (SBroadcast id) s' dirty ->
  is_terminal s' = false /\ offer_safe s' tg id.
Proof. exact advance_broadcast_safe. Qed.

(** the same at the planning kernel, for every set-aside list; a set-aside id is never offered *)
Theorem C18_kernel_broadcast_safe : forall s tg sa id, next_step s tg sa = SBroadcast id ->
  is_terminal s = false /\ offer_safe s tg id /\ mem id sa = false.
Proof. exact next_step_broadcast_safe. Qed.

(** One at a time: the single offered id is first in (scheduled height, id) order among all rows
    eligible for broadcast in the returned state; every other eligible row waits. *)
Theorem C18_one_at_a_time : forall sat mined_at s tg r id s' dirty,
  advance sat mined_at s tg r = ARes (SBroadcast id) s' dirty ->
  exists sa t, In t (m_txs s') /\ t_id t = id /\
    forall u, In u (m_txs s') -> bcast_ok s' tg (dead_set s' tg) sa u = true ->
      (t_sched t < t_sched u \/ (t_sched t = t_sched u /\ t_id t <= t_id u)).
Proof. exact advance_one_at_a_time. Qed.

(** A Prove offer names only pre-signed, unproved, non-dead rows. *)
Theorem C18_prove_offer : forall sat mined_at s tg r l s' dirty,
  advance sat mined_at s tg r = ARes (SProve l) s' dirty ->
  forall id k, In (id, k) l ->
    exists t, In t (m_txs s') /\ t_id t = id /\ t_kind t = k /\ t_state t = Signed
      /\ ~ Dead (m_txs s') (tg_scanned tg) id.
Proof. exact advance_prove_offer. Qed.

(** One drive call: rows keep place and id and only move forward; a terminal status is kept; the
    returned step was decided by the kernel on the returned state. *)
Theorem C18_advance_spec : forall sat mined_at s tg r st s' dirty,
  advance sat mined_at s tg r = ARes st s' dirty ->
  monotone (m_txs s) (m_txs s')
  /\ (is_terminal s = true -> m_status s' = m_status s)
  /\ from_kernel s' tg st.
Proof. exact advance_spec. Qed.

(** Termination: with unique transaction ids and a served target that fits [u32], the drive loop
    never exhausts its fuel [4|txs|+8] — [advance] always returns a step — and every event
    sequence runs to its end.  (Measure: pending rows scheduled below the served target + unmarked
    rows + rows not set aside; every iteration that does not return decreases it.)  So none of
    the theorems about [advance] / [grun] is vacuous for want of a result. *)
Theorem C18_advance_total : forall sat mined_at s tg r,
  NoDup (map t_id (m_txs s)) -> tg_eff tg <= U32MAX ->
  exists st s' dirty, advance sat mined_at s tg r = ARes st s' dirty.
Proof. exact advance_total. Qed.
Theorem C18_run_total : forall es s, NoDup (map t_id (m_txs s)) -> Forall event_ok es ->
  exists s', grun s es = Some s' /\ map t_id (m_txs s') = map t_id (m_txs s).
Proof. exact grun_total. Qed.

(** The inner loop of [record_satisfiability] (the durable dependency closure) also ends within
    its fuel: afterwards no unmarked, unmined row has a dead direct dependency left to inherit from. *)
Theorem C18_record_closure_fixpoint : forall s tg dets, NoDup (map t_id (m_txs s)) ->
  inherited (m_txs (record_satisfiability s tg dets)) (tg_scanned tg) = [].
Proof. exact record_sat_closed. Qed.

(** The plain [u32] addition left in the overdue test cannot overflow: it is only evaluated on
    members of a Prove step, whose anchor boundaries are at least [PROVABLE_ANCHOR_DEPTH+1] below
    [u32::MAX]. *)
Theorem C18_prove_candidate_no_overflow : forall s tg sa l id k, next_step s tg sa = SProve l -> In (id, k) l ->
  tg_scanned tg <= U32MAX ->
  exists t, In t (m_txs s) /\ t_id t = id /\
    forall b, t_anchor t = Some b -> b + PROVABLE_ANCHOR_DEPTH + 1 <= U32MAX.
Proof. exact prove_candidate_no_overflow. Qed.

(** Lifecycle: one event, whatever it records and for whichever row.  Every event moves rows
    forward only (they keep place and id) with two explicit exceptions: a rollback to [h] turns
    exactly the rows mined above [h] into [Bcast]; a rebuild replaces at most the one row with the
    given id, and only an unmined, unmarked transfer expired at the target, by a NEW transaction
    under the same id (same kind and dependencies) that is pre-signed or awaits its signature, is
    scheduled at or after the target and is not expired there. *)
Theorem C18_step_lifecycle : forall s e s', gstep s e = Some s' ->
  match e with
  | GRollback h => rows (fun a b => b = unmine h a) (m_txs s) (m_txs s')
  | GRebuild id target _ _ _ delay _ _ =>
    0 <= delay -> target <= U32MAX -> Forall2 (rebuilt_rel id target) (m_txs s) (m_txs s')
  | _ => monotone (m_txs s) (m_txs s')
  end.
Proof. exact step_lifecycle. Qed.

Theorem C18_rollback_exact : forall s h,
  rows (fun a b => b = unmine h a) (m_txs s) (m_txs (truncate_to_height s h)).
Proof. exact rollback_exact. Qed.

Theorem C18_rebuild_exact : forall s id target grid_ok crypto_ok external delay anchor txid,
  0 <= delay -> target <= U32MAX ->
  Forall2 (rebuilt_rel id target) (m_txs s)
          (m_txs (fst (rebuild s id target grid_ok crypto_ok external delay anchor txid))).
Proof. exact rebuild_exact. Qed.

(** What the kernel offers for rebuild passes the state guards of the rebuild (in a state whose
    mined rows carry no mark, as every state the API produces). *)
Theorem C18_rebuild_offer_passes_guards : forall s tg sa id, next_step s tg sa = SRebuild id ->
  NoDup (map t_id (m_txs s)) ->
  (forall x, In x (m_txs s) -> is_mined x = true -> t_unsat x = None) ->
  rebuild_guard s id (tg_scanned tg) true = None.
Proof. exact rebuild_offer_passes_guards. Qed.

(** Lifecycle: every event sequence free of the two exceptions is monotone. *)
Theorem C18_lifecycle_monotone : forall es s s',
  Forall (fun e => ~ is_rollback e /\ ~ is_rebuild e) es -> grun s es = Some s' ->
  monotone (m_txs s) (m_txs s').
Proof. exact lifecycle_monotone. Qed.

(** Lifecycle: every rebuild-free sequence, rollbacks included: a row ends below its starting
    rank only as a mined row that is back in flight ([Bcast]) or later. *)
Theorem C18_lifecycle_any_sequence : forall es s s', Forall (fun e => ~ is_rebuild e) es ->
  grun s es = Some s' -> rows fwd_or_unmined (m_txs s) (m_txs s').
Proof. exact lifecycle_any_sequence. Qed.

(** Only a rollback un-mines: over every rollback-free sequence (rebuilds included) a mined row
    stays mined, hence a fully mined migration stays fully mined. *)
Theorem C18_mined_stays_mined : forall es s s', Forall (fun e => ~ is_rollback e) es -> grun s es = Some s' ->
  Forall2 mined_kept (m_txs s) (m_txs s').
Proof. exact mined_stays_mined. Qed.
Theorem C18_complete_stays_all_mined : forall es s s', all_mined (m_txs s) = true ->
  Forall (fun e => ~ is_rollback e) es -> grun s es = Some s' -> all_mined (m_txs s') = true.
Proof. exact complete_stays_all_mined. Qed.

(** Terminal statuses: a policy determination survives ANY event sequence (rollbacks
    included); Complete survives every rollback-free sequence; one event leaves a terminal status
    only as Complete -> InProgress by a rollback that leaves a row unmined. *)
Theorem C18_terminal_sticky_policy : forall es s s', policy_terminal_status (m_status s) ->
  grun s es = Some s' -> m_status s' = m_status s.
Proof. exact terminal_sticky_policy. Qed.
Theorem C18_terminal_sticky_complete : forall es s s', m_status s = Complete ->
  Forall (fun e => ~ is_rollback e) es -> grun s es = Some s' -> m_status s' = Complete.
Proof. exact terminal_sticky_complete. Qed.
Theorem C18_terminal_step : forall s e s', gstep s e = Some s' -> is_terminal s = true ->
  m_status s' = m_status s
  \/ (exists h, e = GRollback h) /\ m_status s = Complete /\ m_status s' = InProgress
     /\ exists t, In t (m_txs s') /\ is_mined t = false.
Proof. exact step_status. Qed.

(** No silent stranding. *)
Theorem C18_waiting_has_live_work : forall s tg, next_step s tg [] = SWaiting -> m_txs s <> [] ->
  exists t, In t (m_txs s) /\ unmined t /\ ~ Dead (m_txs s) (tg_scanned tg) (t_id t).
Proof. exact next_step_waiting_live. Qed.
Theorem C18_complete_is_complete : forall sat mined_at s tg r s' dirty,
  advance sat mined_at s tg r = ARes SComplete s' dirty ->
  is_terminal s' = true \/ (m_txs s' <> [] /\ all_mined (m_txs s') = true).
Proof. exact advance_complete. Qed.
Theorem C18_stranded_surfaces : forall s tg, stranded s tg ->
  next_step s tg [] = SReplan \/ exists id, next_step s tg [] = SRebuild id.
Proof. exact next_step_stranded. Qed.

(** The same at the drive API, for every store that does not defer a candidate ("not yet
    satisfiable"; a deferral makes [Waiting] the documented honest report): the returned step is
    [Reevaluate] or exactly the kernel's decision on the returned state with nothing set aside;
    hence [Waiting] has live work behind it, and a stranded migration surfaces
    [Reevaluate] / [Replan] / [Rebuild]. *)
Theorem C18_advance_is_kernel_decision : forall sat mined_at, (forall t h, sat t <> NotYet h) ->
  forall s tg r st s' dirty,
  advance sat mined_at s tg r = ARes st s' dirty -> st = SReevaluate \/ st = next_step s' tg [].
Proof. exact advance_no_defer. Qed.
Theorem C18_drive_waiting_has_live_work : forall sat mined_at, (forall t h, sat t <> NotYet h) ->
  forall s tg r s' dirty,
  advance sat mined_at s tg r = ARes SWaiting s' dirty -> m_txs s' <> [] ->
  exists t, In t (m_txs s') /\ unmined t /\ ~ Dead (m_txs s') (tg_scanned tg) (t_id t).
Proof. exact advance_waiting_live. Qed.
Theorem C18_drive_stranded_surfaces : forall sat mined_at, (forall t h, sat t <> NotYet h) ->
  forall s tg r st s' dirty,
  advance sat mined_at s tg r = ARes st s' dirty -> stranded s' tg ->
  st = SReevaluate \/ st = SReplan \/ exists id, st = SRebuild id.
Proof. exact advance_stranded_surfaces. Qed.

(** ... and for EVERY store, deferring ones included (unique ids, served target in [u32]):
    [Waiting] always has a reason that can still move — a live unmined transaction, or a candidate
    row the store answered "not yet satisfiable" for in this very call; a stranded migration gets
    [Reevaluate], [Replan] or [Rebuild], and [Waiting] only with such a deferral; [Reevaluate]
    names a standing report whose tip the store's answer does not reach. *)
Theorem C18_waiting_every_store : forall sat mined_at s tg r s' dirty,
  NoDup (map t_id (m_txs s)) -> tg_eff tg <= U32MAX ->
  advance sat mined_at s tg r = ARes SWaiting s' dirty -> m_txs s' <> [] ->
  (exists t, In t (m_txs s') /\ unmined t /\ ~ Dead (m_txs s') (tg_scanned tg) (t_id t))
  \/ (exists id, deferred sat s' id).
Proof. exact advance_waiting_every_store. Qed.
Theorem C18_stranded_every_store : forall sat mined_at s tg r st s' dirty,
  NoDup (map t_id (m_txs s)) -> tg_eff tg <= U32MAX ->
  advance sat mined_at s tg r = ARes st s' dirty -> stranded s' tg ->
  st = SReevaluate \/ st = SReplan \/ (exists id, st = SRebuild id)
  \/ (st = SWaiting /\ exists id, deferred sat s' id).
Proof. exact advance_stranded_every_store. Qed.
Theorem C18_reevaluate_reason : forall sat mined_at s tg r s' dirty,
  NoDup (map t_id (m_txs s)) -> tg_eff tg <= U32MAX ->
  advance sat mined_at s tg r = ARes SReevaluate s' dirty ->
  exists t tip, In t (m_txs (fst (sweep sat mined_at s tg))) /\ t_fail t = Some tip /\ as_of (sat t) < tip.
Proof. exact advance_reevaluate_reason. Qed.

(** Mark soundness, for every store (unique ids): an [Inherited] mark that appears during one
    drive call — on a row unmarked before the call — has, in the state the call RETURNS, a direct
    dependency that is an unmined row which is itself marked or expired at the scanned target.  So
    a source the same call promoted to [Mined] never strands its dependents (the in-flight sweep
    promotes before it records), and a live transfer is never reported [Unsatisfiable/Inherited]
    behind a mined source by the call that mined it.  The same for one [record_satisfiability]. *)
Theorem C18_advance_marks_sound : forall sat mined_at s tg r st s' dirty, NoDup (map t_id (m_txs s)) ->
  advance sat mined_at s tg r = ARes st s' dirty -> marks_sound (tg_scanned tg) (m_txs s) (m_txs s').
Proof. exact advance_marks_sound. Qed.
Theorem C18_record_marks_sound : forall s tg dets, NoDup (map t_id (m_txs s)) ->
  step_ok (tg_scanned tg) (m_txs s) (m_txs (record_satisfiability s tg dets)).
Proof. exact record_sat_marks. Qed.

(** ... and the direct half: a directly observed mark that appears during one drive call (or one
    [record_satisfiability]) on a row unmarked before carries the oracle's own answer for a row
    with that id — the same height and the same kind ([said sat i a]: the store answered [a] for a
    row with id [i]).  Guard: unique ids. *)
Theorem C18_advance_marks_backed : forall sat mined_at s tg r st s' dirty, NoDup (map t_id (m_txs s)) ->
  advance sat mined_at s tg r = ARes st s' dirty -> marks_backed sat (m_txs s) (m_txs s').
Proof. exact advance_marks_backed. Qed.
Theorem C18_record_marks_backed : forall (P : Z -> answer -> Prop) s tg dets, NoDup (map t_id (m_txs s)) ->
  Forall (fun d => P (fst d) (snd d)) dets ->
  Forall2 (dir_ok P) (m_txs s) (m_txs (record_satisfiability s tg dets)).
Proof. exact record_sat_direct. Qed.

(** The dead set: the loop computes exactly the inductively specified set, it is the least set
    containing the seeds and closed under dependents, and it is a fixpoint of the pass (reached
    within the [|txs|+1] passes of fuel). *)
Theorem C18_dead_set_spec : forall s tg x, mem x (dead_set s tg) = true <-> Dead (m_txs s) (tg_scanned tg) x.
Proof. exact dead_set_spec. Qed.
(** ... independently of the ORDER in which the rows are held (dependents may precede their
    dependencies; a single forward pass would not have this property) *)
Theorem C18_dead_set_order_independent : forall s s' tg x, Permutation.Permutation (m_txs s) (m_txs s') ->
  mem x (dead_set s tg) = mem x (dead_set s' tg).
Proof. exact dead_set_order_independent. Qed.
Theorem C18_dead_set_fixpoint : forall s tg t, In t (m_txs s) -> dead_grows (dead_set s tg) t = false.
Proof. exact dead_set_closed. Qed.
Theorem C18_dead_set_least : forall s tg (P : Z -> Prop),
  (forall t, In t (m_txs s) -> unmined t -> (t_unsat t <> None \/ expired_at t (tg_scanned tg)) -> P (t_id t)) ->
  (forall t d, In t (m_txs s) -> unmined t -> In d (t_deps t) -> P d -> P (t_id t)) ->
  forall x, mem x (dead_set s tg) = true -> P x.
Proof. exact dead_set_least. Qed.

(** The status view ([transaction_statuses]) never reports an unmined row silently: the row is
    ready (with an action), or names what it is blocked on, or is in flight; every reason it names
    is true of the row (signature / schedule / anchor boundary / dependencies / re-evaluation /
    expiry / unsatisfiable); and "ready" agrees with the kernel's queues on states with unique ids,
    so a row reported ready to broadcast is exactly one the drive API may offer. *)
Theorem C18_status_never_silent : forall s tg dead t, is_mined t = false ->
  ts_ready (tx_status s tg dead t) = true \/ ts_blocked (tx_status s tg dead t) <> None \/ t_state t = Bcast.
Proof. exact status_never_silent. Qed.
Theorem C18_status_reason_truthful : forall s tg dead t b,
  ts_blocked (tx_status s tg dead t) = Some b -> blocker_true s tg dead t b.
Proof. exact status_reason_truthful. Qed.
Theorem C18_status_dead_is_unsatisfiable : forall s tg t, is_mined t = false ->
  (t_unsat t <> None \/ exists d, In d (t_deps t) /\ Dead (m_txs s) (tg_scanned tg) d) ->
  ts_blocked (tx_status s tg (dead_set s tg) t) = Some BUnsatisfiable
  /\ ts_ready (tx_status s tg (dead_set s tg) t) = false.
Proof. exact status_dead_is_unsatisfiable. Qed.
Theorem C18_status_ready_action : forall s tg dead t,
  (ts_ready (tx_status s tg dead t) = true <-> ts_action (tx_status s tg dead t) <> None)
  /\ (ts_ready (tx_status s tg dead t) = true -> ts_blocked (tx_status s tg dead t) = None).
Proof. exact status_ready_action. Qed.
Theorem C18_status_ready_broadcast_is_kernel : forall s tg t, NoDup (map t_id (m_txs s)) -> In t (m_txs s) ->
  (ts_action (tx_status s tg (dead_set s tg) t) = Some ABroadcast <-> bcast_ok s tg (dead_set s tg) [] t = true).
Proof. exact status_ready_broadcast_kernel. Qed.
Theorem C18_status_ready_prove_is_kernel : forall s tg t, NoDup (map t_id (m_txs s)) -> In t (m_txs s) -> t_fail t = None ->
  (ts_action (tx_status s tg (dead_set s tg) t) = Some AProve <-> prove_ok s tg (dead_set s tg) [] t = true).
Proof. exact status_ready_prove_kernel. Qed.

(** The outlook ([Advance::next]): its per-row floor only ever names an unmined, unmarked row with
    no dead dependency, under the kind of step that row itself is waiting for. *)
Theorem C18_outlook_floor_live : forall s tg dead t k h, step_floor s tg dead t = Some (k, h) ->
  is_mined t = false /\ t_unsat t = None /\ (forall d, In d (t_deps t) -> mem d dead = false)
  /\ match k with
     | KReevaluate => exists r, t_fail t = Some r /\ h = sat_add r 1
     | KRebuild => t_fail t = None /\ expired_at t (tg_scanned tg) /\ is_transfer t = true /\ h = sat_add (t_expiry t) 1
     | KProve => t_fail t = None /\ ~ expired_at t (tg_scanned tg) /\ (t_state t = Signed \/ t_state t = AwaitingSig)
     | KBroadcast => t_fail t = None /\ ~ expired_at t (tg_scanned tg) /\ t_state t = Proved /\ h = t_sched t
     | _ => False
     end.
Proof. exact step_floor_live. Qed.

(** The anchor rejection sampler: the model's 64 draws are as good as any larger fuel for an RNG
    script of at most 63 ages, past which every word is odd (the hypothesis of
    C17_anchor_terminates_on_odd_word: one odd word suffices); the script is never rewound. *)
Theorem C18_redraw_fuel_irrelevant : forall F ivl prior bh r, (64 <= F)%nat -> 1 <= ivl <= U32MAX ->
  (need r <= 63)%nat ->
  redraw_anchor_boundary_f F ivl prior bh r = redraw_anchor_boundary ivl prior bh r.
Proof. exact redraw_fuel_irrelevant. Qed.
Theorem C18_redraw_script_never_rewound : forall F ivl prior bh r,
  (need (snd (redraw_anchor_boundary_f F ivl prior bh r)) <= need r)%nat.
Proof. exact redraw_need. Qed.

(** Persistence, on the row-level model of the normalised tables (Store.v): transactions held in
    strictly increasing id order read back equal; the order is needed (rows come back by id); and
    over any sequence of persisted states the account holds at most one non-terminal migration,
    the newest row is the state last written, and the pending-only read returns it exactly when it
    is not terminal. *)
Theorem C18_store_roundtrip : forall txs, Sorted Z.lt (map t_id txs) -> load_txs (save_txs txs) = Some txs.
Proof. exact store_roundtrip_txs. Qed.
Theorem C18_store_roundtrip_needs_id_order :
  exists txs, NoDup (map t_id txs) /\ load_txs (save_txs txs) <> Some txs.
Proof. exact store_roundtrip_needs_id_order. Qed.
(** The same for ALL the normalised tables the store writes (parent row, crossing values,
    preparation inputs / outputs / direct funding, transactions with their PCZT and lock-owner
    columns, dependency edges, nullifier caches; byte strings as opaque tokens): every state the
    store can represent reads back equal. *)
Theorem C18_store_roundtrip_full : forall f, wf_full f -> load_full (save_full f) = Some f.
Proof. exact store_roundtrip_full. Qed.

Theorem C18_one_live_migration : forall ss,
  let st := fold_left replace_migration ss [] in
  history_terminal st /\ (live_count st <= 1)%nat
  /\ match rev ss with
     | [] => True
     | s :: _ => latest_migration st = Some s /\ get_migration st = (if is_terminal s then None else Some s)
     end.
Proof. exact one_live_migration. Qed.

(** Bridge: whenever the implementation agrees with the model on a case ([run_case]), the
    implementation's observed outcome satisfies the property checker — everything [prop_case]
    checks, mark soundness ([prop_marks]) included, except the SQLite / memory-backend verdicts,
    which are observations of the real stores.  ([wf_case] supplies the unique ids.) *)
Theorem C18_bridge : forall pre ev post out p,
  wf_case (Case pre ev post out p) = true ->
  run_case (Case pre ev post out p) = true ->
  prop_event pre ev post out && prop_marks pre ev post = true.
Proof. exact bridge_full. Qed.

(** non-vacuity: a state on which the kernel offers a broadcast, and a stranded one *)
Example C18_nonvacuous_broadcast :
  next_step (MkSt Committed [MkTx 0 (Transfer 0) [] 100 0 None 100 None None Proved] [5] 20 144) (100, 100) []
  = SBroadcast 0.
Proof. vm_compute. reflexivity. Qed.
Example C18_nonvacuous_stranded :
  next_step (MkSt Committed [MkTx 0 (Prep 0 0) [] 100 50 None 100 None None Signed;
                             MkTx 1 (Transfer 0) [0] 100 0 None 101 None None Signed] [5] 20 144) (100, 100) []
  = SReplan.
Proof. vm_compute. reflexivity. Qed.
