(** C18 — [store_roundtrip_full]: on the row-level model of ALL the normalised tables, what
    [replace_migration] writes is what [get_migration] reads back — for every state the store can
    represent (rows in id order, one payload per transaction, non-empty layers, every preparation
    transaction with an input or an output). *)
From V.Lib Require Import Base.
From V.C18 Require Import Model Store StoreFull ProofsStore.
From Coq Require Import Sorted ZifyBool.
Local Open Scope Z_scope.

(* ---------------------------------------------------------------------------------------- *)
(** flat ordinal-indexed child tables *)

Lemma enc_ord_sorted : forall l n, adj_sorted (nat_lt_of o_ord) (enc_ord_from n l).
Proof.
  induction l as [|v r IH]; intros n; [exact I|]. cbn [enc_ord_from]. destruct r as [|v' r']; [exact I|].
  split; [unfold nat_lt_of; simpl; apply Nat.ltb_lt; lia | apply IH].
Qed.
Lemma enc_ord_vals : forall l n, map o_val (enc_ord_from n l) = l.
Proof. induction l as [|v r IH]; intros n; simpl; [reflexivity | rewrite IH; reflexivity]. Qed.
Lemma read_cross_saved : forall l, read_cross (enc_ord_from O l) = l.
Proof. intros l. unfold read_cross. rewrite sort_by_sorted by apply enc_ord_sorted. apply enc_ord_vals. Qed.

Lemma enc_dir_sorted : forall l n, adj_sorted (nat_lt_of dr_ord) (enc_dir_from n l).
Proof.
  induction l as [|[w v] r IH]; intros n; [exact I|]. cbn [enc_dir_from]. destruct r as [|[w' v'] r']; [exact I|].
  split; [unfold nat_lt_of; simpl; apply Nat.ltb_lt; lia | apply IH].
Qed.
Lemma enc_dir_vals : forall l n, map (fun r => (dr_widx r, dr_val r)) (enc_dir_from n l) = l.
Proof. induction l as [|[w v] r IH]; intros n; simpl; [reflexivity | rewrite IH; reflexivity]. Qed.
Lemma read_direct_saved : forall l, read_direct (enc_dir_from O l) = l.
Proof. intros l. unfold read_direct. rewrite sort_by_sorted by apply enc_dir_sorted. apply enc_dir_vals. Qed.

(* ---------------------------------------------------------------------------------------- *)
(** payload columns and nullifier caches *)

Lemma enc_nfs_sorted : forall id l n, adj_sorted (nat_lt_of n_ord) (enc_nfs_from id n l).
Proof.
  intros id. induction l as [|v r IH]; intros n; [exact I|]. cbn [enc_nfs_from]. destruct r as [|v' r']; [exact I|].
  split; [unfold nat_lt_of; simpl; apply Nat.ltb_lt; lia | apply IH].
Qed.
Lemma enc_nfs_blobs : forall id l n, map n_blob (enc_nfs_from id n l) = l.
Proof. intros id. induction l as [|v r IH]; intros n; simpl; [reflexivity | rewrite IH; reflexivity]. Qed.
Lemma enc_nfs_filter : forall id id' l n,
  filter (fun r => n_tx r =? id') (enc_nfs_from id n l) = if id =? id' then enc_nfs_from id n l else [].
Proof.
  intros id id'. induction l as [|v r IH]; intros n; simpl; [destruct (id =? id'); reflexivity|].
  rewrite IH. destruct (id =? id'); reflexivity.
Qed.

Lemma enc_pay_no_id : forall txs pay id, ~ In id (map t_id txs) ->
  filter (fun r => n_tx r =? id) (snd (enc_pay txs pay)) = [].
Proof.
  induction txs as [|t tr IH]; intros pay id H; [reflexivity|]. destruct pay as [|p pr]; [reflexivity|].
  cbn [enc_pay]. destruct (enc_pay tr pr) as [a b] eqn:E. cbn [snd]. rewrite filter_app, enc_nfs_filter.
  destruct (t_id t =? id) eqn:Q; [exfalso; apply H; left; lia|]. cbn [app].
  specialize (IH pr id). rewrite E in IH. apply IH. intros X. apply H. right. exact X.
Qed.

Lemma enc_pay_roundtrip : forall txs pay pre, length pay = length txs -> NoDup (map t_id txs) ->
  (forall t, In t txs -> filter (fun r => n_tx r =? t_id t) pre = []) ->
  map (fun y => MkPay (y_pczt y) (y_lock y) (read_nfs (pre ++ snd (enc_pay txs pay)) (y_id y))) (fst (enc_pay txs pay)) = pay
  /\ map y_id (fst (enc_pay txs pay)) = map t_id txs.
Proof.
  induction txs as [|t tr IH]; intros pay pre L ND P.
  - destruct pay; [split; reflexivity | discriminate].
  - destruct pay as [|p pr]; [discriminate|]. cbn [enc_pay]. destruct (enc_pay tr pr) as [a b] eqn:E. cbn [fst snd map y_id y_pczt y_lock].
    inversion ND as [|? ? N1 N2]; subst. simpl in L.
    assert (R0 : read_nfs (pre ++ enc_nfs_from (t_id t) O (p_nfs p) ++ b) (t_id t) = p_nfs p).
    { unfold read_nfs. rewrite !filter_app, (P t (or_introl eq_refl)), enc_nfs_filter, Z.eqb_refl.
      pose proof (enc_pay_no_id tr pr (t_id t) N1) as Z0. rewrite E in Z0. simpl in Z0. rewrite Z0, app_nil_r. cbn [app].
      rewrite sort_by_sorted by apply enc_nfs_sorted. apply enc_nfs_blobs. }
    destruct (IH pr (pre ++ enc_nfs_from (t_id t) O (p_nfs p))) as [I1 I2]; [lia | exact N2 | |].
    { intros u Iu. rewrite filter_app, (P u (or_intror Iu)), enc_nfs_filter.
      destruct (t_id t =? t_id u) eqn:Q; [|reflexivity]. exfalso. apply N1. apply Z.eqb_eq in Q. rewrite Q. apply in_map. exact Iu. }
    rewrite E in I1, I2. cbn [fst snd] in I1, I2. rewrite <- app_assoc in I1.
    split; [rewrite R0, I1; destruct p; reflexivity | rewrite I2; reflexivity].
Qed.

(* ---------------------------------------------------------------------------------------- *)
(** one preparation transaction's rows *)

Lemma enc_ins_sorted : forall l i xs o, adj_sorted (nat_lt_of pi_ord) (enc_ins_from l i o xs).
Proof.
  intros l i. induction xs as [|x r IH]; intros o; [exact I|]. cbn [enc_ins_from]. destruct r as [|x' r']; [exact I|].
  split; [unfold nat_lt_of; destruct x, x'; simpl; apply Nat.ltb_lt; lia | apply IH].
Qed.
Lemma enc_ins_dec : forall l i xs o, all_some (map dec_in (enc_ins_from l i o xs)) = Some xs.
Proof.
  intros l i. induction xs as [|x r IH]; intros o; [reflexivity|]. cbn [enc_ins_from map all_some].
  rewrite IH. destruct x; reflexivity.
Qed.
Lemma enc_ins_filter : forall l i l' i' xs o,
  filter (fun r => at_coord l' i' (pi_layer r) (pi_tx r)) (enc_ins_from l i o xs)
  = if at_coord l' i' l i then enc_ins_from l i o xs else [].
Proof.
  intros l i l' i'. induction xs as [|x r IH]; intros o; cbn [enc_ins_from filter]; [destruct (at_coord l' i' l i); reflexivity|].
  rewrite IH. destruct x; simpl; destruct (at_coord l' i' l i); reflexivity.
Qed.

Lemma enc_outs_sorted : forall l i xs o, adj_sorted (nat_lt_of po_ord) (enc_outs_from l i o xs).
Proof.
  intros l i. induction xs as [|[ro v] r IH]; intros o; [exact I|]. cbn [enc_outs_from]. destruct r as [|[ro' v'] r']; [exact I|].
  split; [unfold nat_lt_of; simpl; apply Nat.ltb_lt; lia | apply IH].
Qed.
Lemma enc_outs_vals : forall l i xs o, map (fun r => (po_role r, po_val r)) (enc_outs_from l i o xs) = xs.
Proof. intros l i. induction xs as [|[ro v] r IH]; intros o; simpl; [reflexivity | rewrite IH; reflexivity]. Qed.
Lemma enc_outs_filter : forall l i l' i' xs o,
  filter (fun r => at_coord l' i' (po_layer r) (po_tx r)) (enc_outs_from l i o xs)
  = if at_coord l' i' l i then enc_outs_from l i o xs else [].
Proof.
  intros l i l' i'. induction xs as [|[ro v] r IH]; intros o; cbn [enc_outs_from filter]; [destruct (at_coord l' i' l i); reflexivity|].
  rewrite IH. simpl. destruct (at_coord l' i' l i); reflexivity.
Qed.

(** reading a coordinate out of the rows of a whole layer / of all layers *)
Lemma at_coord_spec : forall l i l' i', at_coord l i l' i' = true <-> l' = l /\ i' = i.
Proof. intros. unfold at_coord. rewrite andb_true_iff, !Nat.eqb_eq. tauto. Qed.

Lemma pins_layer_filter : forall l l' i' txs i,
  filter (fun r => at_coord l' i' (pi_layer r) (pi_tx r)) (pins_layer_from l i txs)
  = if Nat.eqb l l' && Nat.leb i i' && Nat.ltb i' (i + length txs)
    then enc_ins_from l i' O (fst (nth (i' - i) txs ([], []))) else [].
Proof.
  intros l l' i'. induction txs as [|t r IH]; intros i; cbn [pins_layer_from].
  - cbn [filter length]. rewrite Nat.add_0_r. destruct (Nat.eqb l l'); cbn [andb]; [|reflexivity].
    destruct (Nat.leb i i') eqn:A; cbn [andb]; [|reflexivity]. destruct (Nat.ltb i' i) eqn:B; [|reflexivity].
    apply Nat.leb_le in A. apply Nat.ltb_lt in B. lia.
  - rewrite filter_app, enc_ins_filter, IH. unfold at_coord. cbn [length].
    destruct (Nat.eqb l l') eqn:EL; cbn [andb]; [|reflexivity].
    destruct (Nat.eqb i i') eqn:EI.
    + apply Nat.eqb_eq in EI. subst i'.
      replace (Nat.leb (S i) i) with false by (symmetry; apply Nat.leb_gt; lia).
      replace (Nat.leb i i) with true by (symmetry; apply Nat.leb_le; lia).
      replace (Nat.ltb i (i + S (length r))) with true by (symmetry; apply Nat.ltb_lt; lia).
      cbn [andb]. rewrite Nat.sub_diag, app_nil_r. reflexivity.
    + apply Nat.eqb_neq in EI. cbn [app].
      destruct (Nat.leb (S i) i') eqn:A.
      * apply Nat.leb_le in A. replace (Nat.leb i i') with true by (symmetry; apply Nat.leb_le; lia). cbn [andb].
        replace (i + S (length r))%nat with (S i + length r)%nat by lia.
        destruct (Nat.ltb i' (S i + length r)); [|reflexivity].
        replace (i' - i)%nat with (S (i' - S i)) by lia. reflexivity.
      * apply Nat.leb_gt in A. replace (Nat.leb i i') with false by (symmetry; apply Nat.leb_gt; lia). reflexivity.
Qed.

Lemma pins_filter : forall l' i' layers l,
  filter (fun r => at_coord l' i' (pi_layer r) (pi_tx r)) (pins_from l layers)
  = if Nat.leb l l' && Nat.ltb l' (l + length layers) && Nat.ltb i' (length (nth (l' - l) layers []))
    then enc_ins_from l' i' O (fst (nth i' (nth (l' - l) layers []) ([], []))) else [].
Proof.
  intros l' i'. induction layers as [|ly r IH]; intros l; cbn [pins_from].
  - cbn [filter length]. rewrite Nat.add_0_r. destruct (Nat.leb l l') eqn:A; cbn [andb]; [|reflexivity].
    destruct (Nat.ltb l' l) eqn:B; [|reflexivity]. apply Nat.leb_le in A. apply Nat.ltb_lt in B. lia.
  - rewrite filter_app, pins_layer_filter, IH. cbn [length]. change (Nat.leb 0 i') with true. rewrite andb_true_r.
    destruct (Nat.eqb l l') eqn:EL.
    + apply Nat.eqb_eq in EL. subst l'.
      replace (Nat.leb (S l) l) with false by (symmetry; apply Nat.leb_gt; lia).
      replace (Nat.leb l l) with true by (symmetry; apply Nat.leb_le; lia).
      replace (Nat.ltb l (l + S (length r))) with true by (symmetry; apply Nat.ltb_lt; lia).
      cbn [andb]. rewrite Nat.sub_diag, app_nil_r, Nat.sub_0_r, Nat.add_0_l. reflexivity.
    + apply Nat.eqb_neq in EL. cbn [andb app].
      destruct (Nat.leb (S l) l') eqn:A.
      * apply Nat.leb_le in A. replace (Nat.leb l l') with true by (symmetry; apply Nat.leb_le; lia). cbn [andb].
        replace (l + S (length r))%nat with (S l + length r)%nat by lia.
        replace (l' - l)%nat with (S (l' - S l)) by lia. reflexivity.
      * apply Nat.leb_gt in A. replace (Nat.leb l l') with false by (symmetry; apply Nat.leb_gt; lia). reflexivity.
Qed.

Lemma pouts_layer_filter : forall l l' i' txs i,
  filter (fun r => at_coord l' i' (po_layer r) (po_tx r)) (pouts_layer_from l i txs)
  = if Nat.eqb l l' && Nat.leb i i' && Nat.ltb i' (i + length txs)
    then enc_outs_from l i' O (snd (nth (i' - i) txs ([], []))) else [].
Proof.
  intros l l' i'. induction txs as [|t r IH]; intros i; cbn [pouts_layer_from].
  - cbn [filter length]. rewrite Nat.add_0_r. destruct (Nat.eqb l l'); cbn [andb]; [|reflexivity].
    destruct (Nat.leb i i') eqn:A; cbn [andb]; [|reflexivity]. destruct (Nat.ltb i' i) eqn:B; [|reflexivity].
    apply Nat.leb_le in A. apply Nat.ltb_lt in B. lia.
  - rewrite filter_app, enc_outs_filter, IH. unfold at_coord. cbn [length].
    destruct (Nat.eqb l l') eqn:EL; cbn [andb]; [|reflexivity].
    destruct (Nat.eqb i i') eqn:EI.
    + apply Nat.eqb_eq in EI. subst i'.
      replace (Nat.leb (S i) i) with false by (symmetry; apply Nat.leb_gt; lia).
      replace (Nat.leb i i) with true by (symmetry; apply Nat.leb_le; lia).
      replace (Nat.ltb i (i + S (length r))) with true by (symmetry; apply Nat.ltb_lt; lia).
      cbn [andb]. rewrite Nat.sub_diag, app_nil_r. reflexivity.
    + apply Nat.eqb_neq in EI. cbn [app].
      destruct (Nat.leb (S i) i') eqn:A.
      * apply Nat.leb_le in A. replace (Nat.leb i i') with true by (symmetry; apply Nat.leb_le; lia). cbn [andb].
        replace (i + S (length r))%nat with (S i + length r)%nat by lia.
        destruct (Nat.ltb i' (S i + length r)); [|reflexivity].
        replace (i' - i)%nat with (S (i' - S i)) by lia. reflexivity.
      * apply Nat.leb_gt in A. replace (Nat.leb i i') with false by (symmetry; apply Nat.leb_gt; lia). reflexivity.
Qed.

Lemma pouts_filter : forall l' i' layers l,
  filter (fun r => at_coord l' i' (po_layer r) (po_tx r)) (pouts_from l layers)
  = if Nat.leb l l' && Nat.ltb l' (l + length layers) && Nat.ltb i' (length (nth (l' - l) layers []))
    then enc_outs_from l' i' O (snd (nth i' (nth (l' - l) layers []) ([], []))) else [].
Proof.
  intros l' i'. induction layers as [|ly r IH]; intros l; cbn [pouts_from].
  - cbn [filter length]. rewrite Nat.add_0_r. destruct (Nat.leb l l') eqn:A; cbn [andb]; [|reflexivity].
    destruct (Nat.ltb l' l) eqn:B; [|reflexivity]. apply Nat.leb_le in A. apply Nat.ltb_lt in B. lia.
  - rewrite filter_app, pouts_layer_filter, IH. cbn [length]. change (Nat.leb 0 i') with true. rewrite andb_true_r.
    destruct (Nat.eqb l l') eqn:EL.
    + apply Nat.eqb_eq in EL. subst l'.
      replace (Nat.leb (S l) l) with false by (symmetry; apply Nat.leb_gt; lia).
      replace (Nat.leb l l) with true by (symmetry; apply Nat.leb_le; lia).
      replace (Nat.ltb l (l + S (length r))) with true by (symmetry; apply Nat.ltb_lt; lia).
      cbn [andb]. rewrite Nat.sub_diag, app_nil_r, Nat.sub_0_r, Nat.add_0_l. reflexivity.
    + apply Nat.eqb_neq in EL. cbn [andb app].
      destruct (Nat.leb (S l) l') eqn:A.
      * apply Nat.leb_le in A. replace (Nat.leb l l') with true by (symmetry; apply Nat.leb_le; lia). cbn [andb].
        replace (l + S (length r))%nat with (S l + length r)%nat by lia.
        replace (l' - l)%nat with (S (l' - S l)) by lia. reflexivity.
      * apply Nat.leb_gt in A. replace (Nat.leb l l') with false by (symmetry; apply Nat.leb_gt; lia). reflexivity.
Qed.

(** reading back the transaction at a coordinate of the grid *)
Lemma read_tx_saved : forall layers l i, (l < length layers)%nat -> (i < length (nth l layers []))%nat ->
  read_ins (pins_from O layers) l i = Some (fst (nth i (nth l layers []) ([], [])))
  /\ read_outs (pouts_from O layers) l i = snd (nth i (nth l layers []) ([], [])).
Proof.
  intros layers l i HL HI. unfold read_ins, read_outs. rewrite pins_filter, pouts_filter. rewrite Nat.sub_0_r. simpl (Nat.leb 0 l).
  assert (A : Nat.ltb l (0 + length layers) = true) by (apply Nat.ltb_lt; lia).
  assert (B : Nat.ltb i (length (nth l layers [])) = true) by (apply Nat.ltb_lt; lia).
  rewrite A, B. simpl.
  rewrite sort_by_sorted by apply enc_ins_sorted. rewrite sort_by_sorted by apply enc_outs_sorted.
  split; [apply enc_ins_dec | apply enc_outs_vals].
Qed.

(* ---------------------------------------------------------------------------------------- *)
(** the coordinate order and its sort *)

Definition cR (a b : coord) : Prop := coord_lt a b = true.

Lemma coord_lt_spec : forall a b, coord_lt a b = true <-> (fst a < fst b \/ (fst a = fst b /\ snd a < snd b))%nat.
Proof.
  intros [a1 a2] [b1 b2]. unfold coord_lt. simpl. rewrite orb_true_iff, andb_true_iff, !Nat.ltb_lt, Nat.eqb_eq. tauto.
Qed.
Lemma cR_irrefl : forall a, ~ cR a a.
Proof. intros a H. apply coord_lt_spec in H. lia. Qed.
Lemma cR_trans : forall a b c, cR a b -> cR b c -> cR a c.
Proof. intros a b c H1 H2. apply coord_lt_spec in H1, H2. apply coord_lt_spec. lia. Qed.
Lemma cR_total : forall a b, a <> b -> coord_lt a b = false -> cR b a.
Proof.
  intros [a1 a2] [b1 b2] N H. apply coord_lt_spec. simpl.
  assert (X : ~ (a1 < b1 \/ (a1 = b1 /\ a2 < b2))%nat) by (intros Y; apply (coord_lt_spec (a1,a2) (b1,b2)) in Y; congruence).
  destruct (Nat.eq_dec a1 b1); [|lia]. subst. assert (a2 <> b2) by congruence. lia.
Qed.
Lemma coord_eqb_eq : forall a b, coord_eqb a b = true <-> a = b.
Proof.
  intros [a1 a2] [b1 b2]. unfold coord_eqb. simpl. rewrite andb_true_iff, !Nat.eqb_eq. split; [intros [-> ->]; reflexivity | intros H; inversion H; tauto].
Qed.

Lemma insert_in : forall (x : coord) l y, In y (insert_by coord_lt x l) <-> y = x \/ In y l.
Proof.
  intros x l y. induction l as [|a l IH]; simpl; [intuition congruence|].
  destruct (coord_lt x a); simpl; [intuition congruence|]. rewrite IH. intuition congruence.
Qed.
Lemma sort_in : forall (l : list coord) y, In y (sort_by coord_lt l) <-> In y l.
Proof.
  intros l y. unfold sort_by. induction l as [|a l IH]; simpl; [tauto|]. rewrite insert_in, IH. intuition congruence.
Qed.

Lemma insert_strong : forall x l, StronglySorted cR l -> ~ In x l -> StronglySorted cR (insert_by coord_lt x l).
Proof.
  intros x l S. induction S as [|a l S IH F]; intros N; simpl; [constructor; constructor|].
  destruct (coord_lt x a) eqn:E.
  - constructor; [constructor; assumption|]. constructor; [exact E|].
    rewrite Forall_forall in *. intros z Hz. eapply cR_trans; [exact E | apply F; exact Hz].
  - assert (Ra : cR a x) by (apply cR_total; [intros ->; apply N; left; reflexivity | exact E]).
    constructor; [apply IH; intros X; apply N; right; exact X|].
    rewrite Forall_forall in *. intros z Hz. apply insert_in in Hz. destruct Hz as [->|Hz]; [exact Ra | apply F; exact Hz].
Qed.

Lemma sort_strong : forall l, NoDup l -> StronglySorted cR (sort_by coord_lt l).
Proof.
  intros l N. unfold sort_by. induction N as [|x l NI N IH]; simpl; [constructor|].
  apply insert_strong; [exact IH|]. intros X. apply NI. apply (sort_in l x). exact X.
Qed.

Lemma dedup_in : forall l c, In c (dedup l) <-> In c l.
Proof.
  induction l as [|a l IH]; intros c; simpl; [tauto|].
  destruct (existsb (coord_eqb a) l) eqn:E.
  - rewrite IH. split; [tauto|]. intros [<-|H]; [|exact H].
    apply existsb_exists in E. destruct E as [y [Iy Ey]]. apply coord_eqb_eq in Ey. subst. exact Iy.
  - simpl. rewrite IH. tauto.
Qed.
Lemma dedup_nodup : forall l, NoDup (dedup l).
Proof.
  induction l as [|a l IH]; simpl; [constructor|]. destruct (existsb (coord_eqb a) l) eqn:E; [exact IH|].
  constructor; [|exact IH]. intros X. apply (proj1 (dedup_in l a)) in X.
  assert (Y : existsb (coord_eqb a) l = true) by (apply existsb_exists; exists a; split; [exact X | apply coord_eqb_eq; reflexivity]).
  congruence.
Qed.

Lemma strong_unique : forall a b, StronglySorted cR a -> StronglySorted cR b -> (forall c, In c a <-> In c b) -> a = b.
Proof.
  induction a as [|x a IH]; intros b Sa Sb M.
  - destruct b as [|y b]; [reflexivity|]. exfalso. apply (M y). left. reflexivity.
  - destruct b as [|y b]; [exfalso; apply (M x); left; reflexivity|].
    inversion Sa as [|? ? Sa' Fa]; subst. inversion Sb as [|? ? Sb' Fb]; subst. rewrite Forall_forall in Fa, Fb.
    assert (E : x = y).
    { destruct (proj1 (M x) (or_introl eq_refl)) as [E|I1]; [congruence|].
      destruct (proj2 (M y) (or_introl eq_refl)) as [E|I2]; [congruence|].
      exfalso. apply (cR_irrefl x). eapply cR_trans; [apply Fa; exact I2 | apply Fb; exact I1]. }
    subst y. f_equal. apply IH; try assumption. intros c. split; intros H.
    + destruct (proj1 (M c) (or_intror H)) as [E|I1]; [|exact I1]. subst c. exfalso. apply (cR_irrefl x). apply Fa. exact H.
    + destruct (proj2 (M c) (or_intror H)) as [E|I1]; [|exact I1]. subst c. exfalso. apply (cR_irrefl x). apply Fb. exact H.
Qed.

(* ---------------------------------------------------------------------------------------- *)
(** the grid's own enumeration of its coordinates *)

Definition coords_layer (l i n : nat) : list coord := map (fun k => (l, k)) (seq i n).
Fixpoint coords_from (l : nat) (layers : list (list preptx)) : list coord :=
  match layers with [] => [] | ly :: r => coords_layer l O (length ly) ++ coords_from (S l) r end.

Lemma coords_from_in : forall layers l a b, In (a, b) (coords_from l layers) <->
  (l <= a < l + length layers /\ b < length (nth (a - l) layers []))%nat.
Proof.
  induction layers as [|ly r IH]; intros l a b; simpl.
  - split; [tauto|]. intros [H _]. lia.
  - rewrite in_app_iff, IH. unfold coords_layer. rewrite in_map_iff. split.
    + intros [[k [E I]]|[H1 H2]].
      * inversion E; subst. apply in_seq in I. rewrite Nat.sub_diag. simpl. lia.
      * split; [lia|]. replace (a - l)%nat with (S (a - S l)) by lia. exact H2.
    + intros [H1 H2]. destruct (Nat.eq_dec a l) as [->|N].
      * left. exists b. split; [reflexivity|]. apply in_seq. rewrite Nat.sub_diag in H2. simpl in H2. lia.
      * right. split; [lia|]. replace (a - l)%nat with (S (a - S l)) in H2 by lia. exact H2.
Qed.

Lemma strong_app : forall a b, StronglySorted cR a -> StronglySorted cR b -> (forall x y, In x a -> In y b -> cR x y) ->
  StronglySorted cR (a ++ b).
Proof.
  induction a as [|x a IH]; intros b Sa Sb H; [exact Sb|]. simpl. inversion Sa as [|? ? Sa' Fa]; subst.
  constructor; [apply IH; try assumption; intros u v Iu Iv; apply H; [right; exact Iu | exact Iv]|].
  rewrite Forall_forall in *. intros z Hz. apply in_app_or in Hz. destruct Hz as [Hz|Hz]; [apply Fa; exact Hz | apply H; [left; reflexivity | exact Hz]].
Qed.

Lemma coords_layer_strong : forall l n i, StronglySorted cR (coords_layer l i n).
Proof.
  intros l. induction n as [|n IH]; intros i; unfold coords_layer in *; simpl; [constructor|].
  constructor; [apply IH|]. rewrite Forall_forall. intros z Hz. apply in_map_iff in Hz. destruct Hz as [k [<- Ik]].
  apply in_seq in Ik. apply coord_lt_spec. simpl. lia.
Qed.

Lemma coords_from_strong : forall layers l, StronglySorted cR (coords_from l layers).
Proof.
  induction layers as [|ly r IH]; intros l; simpl; [constructor|].
  apply strong_app; [apply coords_layer_strong | apply IH|].
  intros [a b] [c d] I1 I2. unfold coords_layer in I1. apply in_map_iff in I1. destruct I1 as [k [E _]]. inversion E; subst.
  apply coords_from_in in I2. apply coord_lt_spec. simpl. lia.
Qed.

(** membership of the rows' coordinates *)
Lemma in_map_filter : forall A (key : A -> coord) (l : list A) a b,
  In (a, b) (map key l) <-> filter (fun r => at_coord a b (fst (key r)) (snd (key r))) l <> [].
Proof.
  intros A key l a b. induction l as [|r l IH]; simpl; [split; [tauto|congruence]|].
  destruct (at_coord a b (fst (key r)) (snd (key r))) eqn:E.
  - split; [discriminate|]. intros _. left. apply at_coord_spec in E. destruct (key r); simpl in *. destruct E; subst. reflexivity.
  - rewrite <- IH. split; [|tauto]. intros [H|H]; [|exact H]. exfalso.
    assert (X : at_coord a b (fst (key r)) (snd (key r)) = true) by (apply at_coord_spec; rewrite H; simpl; tauto). congruence.
Qed.

Lemma enc_ins_nonempty : forall l i o xs, enc_ins_from l i o xs <> [] <-> xs <> [].
Proof. intros l i o [|x r]; simpl; split; congruence. Qed.
Lemma enc_outs_nonempty : forall l i o xs, enc_outs_from l i o xs <> [] <-> xs <> [].
Proof. intros l i o [|[ro v] r]; simpl; split; congruence. Qed.

Lemma shape_tx : forall layers l i, plan_shape_ok layers = true -> (l < length layers)%nat -> (i < length (nth l layers []))%nat ->
  fst (nth i (nth l layers []) ([], [])) <> [] \/ snd (nth i (nth l layers []) ([], [])) <> [].
Proof.
  intros layers l i S HL HI. unfold plan_shape_ok in S. rewrite forallb_forall in S.
  specialize (S (nth l layers []) (nth_In _ _ HL)). apply andb_true_iff in S. destruct S as [_ S].
  rewrite forallb_forall in S. specialize (S (nth i (nth l layers []) ([], [])) (nth_In _ _ HI)).
  destruct (nth i (nth l layers []) ([], [])) as [ins outs]. cbn [fst snd] in *.
  apply orb_true_iff in S. destruct S as [S|S]; [left; destruct ins | right; destruct outs]; simpl in S; congruence.
Qed.

Lemma coords_saved : forall layers, plan_shape_ok layers = true ->
  coords (pins_from O layers) (pouts_from O layers) = coords_from O layers.
Proof.
  intros layers S. unfold coords. apply strong_unique; [apply sort_strong, dedup_nodup | apply coords_from_strong|].
  intros [a b]. rewrite sort_in, dedup_in, in_app_iff, coords_from_in.
  rewrite (in_map_filter _ (fun r => (pi_layer r, pi_tx r))), (in_map_filter _ (fun r => (po_layer r, po_tx r))). cbn [fst snd].
  rewrite pins_filter, pouts_filter, Nat.sub_0_r. cbn [Nat.leb andb]. rewrite Nat.add_0_l.
  destruct (Nat.ltb a (length layers)) eqn:A; cbn [andb].
  - apply Nat.ltb_lt in A. destruct (Nat.ltb b (length (nth a layers []))) eqn:B.
    + apply Nat.ltb_lt in B. rewrite enc_ins_nonempty, enc_outs_nonempty.
      split; [intros _; lia | intros _; apply shape_tx; assumption].
    + apply Nat.ltb_ge in B. split; [intros [H|H]; congruence | lia].
  - apply Nat.ltb_ge in A. split; [intros [H|H]; congruence | lia].
Qed.

(* ---------------------------------------------------------------------------------------- *)
(** rebuilding the grid *)

Lemma build_grid_app : forall cs1 cs2 P Q L, build_grid (cs1 ++ cs2) P Q L =
  match build_grid cs1 P Q L with Some L' => build_grid cs2 P Q L' | None => None end.
Proof.
  induction cs1 as [|[l i] r IH]; intros cs2 P Q L; cbn [app build_grid]; [reflexivity|].
  destruct (read_ins P l i) as [ins|]; [|reflexivity]. destruct (push_tx L (l, i) (ins, read_outs Q l i)); [apply IH | reflexivity].
Qed.

(** one layer: after its first [j >= 1] transactions are in place, the remaining ones are appended *)
Lemma build_layer_rest : forall P Q done ly (read : forall i, (i < length ly)%nat ->
    read_ins P (length done) i = Some (fst (nth i ly ([], []))) /\ read_outs Q (length done) i = snd (nth i ly ([], []))),
  forall n j, (1 <= j)%nat -> (j + n = length ly)%nat ->
  build_grid (coords_layer (length done) j n) P Q (done ++ [firstn j ly]) = Some (done ++ [ly]).
Proof.
  intros P Q done ly read. induction n as [|n IH]; intros j J E.
  - unfold coords_layer. simpl. rewrite Nat.add_0_r in E. subst j. rewrite firstn_all. reflexivity.
  - unfold coords_layer. cbn [seq map build_grid]. destruct (read j ltac:(lia)) as [RI RO]. rewrite RI, RO.
    unfold push_tx. rewrite app_length. cbn [length].
    replace (Nat.eqb (length done) (length done + 1)) with false by (symmetry; apply Nat.eqb_neq; lia). cbn [andb].
    replace (Nat.eqb (S (length done)) (length done + 1)) with true by (symmetry; apply Nat.eqb_eq; lia).
    rewrite last_last, firstn_length_le by lia. rewrite Nat.eqb_refl. cbn [andb]. rewrite removelast_last.
    assert (F : firstn j ly ++ [(fst (nth j ly ([], [])), snd (nth j ly ([], [])))] = firstn (S j) ly).
    { rewrite <- surjective_pairing. clear -E. revert j E. induction ly as [|a ly IHl]; intros j E; [simpl in E; lia|].
      destruct j as [|j]; [reflexivity|]. simpl. f_equal. apply IHl. simpl in E. lia. }
    match goal with |- build_grid _ P Q (done ++ [?x]) = _ => replace x with (firstn (S j) ly) by (symmetry; exact F) end.
    apply (IH (S j)); lia.
Qed.

Lemma build_layer : forall P Q done ly, ly <> [] ->
  (forall i, (i < length ly)%nat ->
    read_ins P (length done) i = Some (fst (nth i ly ([], []))) /\ read_outs Q (length done) i = snd (nth i ly ([], []))) ->
  build_grid (coords_layer (length done) O (length ly)) P Q done = Some (done ++ [ly]).
Proof.
  intros P Q done ly NE read. destruct ly as [|t r] eqn:Ly; [congruence|]. rewrite <- Ly in *.
  assert (Len : length ly = S (length r)) by (rewrite Ly; reflexivity).
  rewrite Len. unfold coords_layer. cbn [seq map build_grid]. destruct (read O ltac:(lia)) as [RI RO]. rewrite RI, RO.
  unfold push_tx. rewrite !Nat.eqb_refl. cbn [andb].
  assert (F : [[(fst (nth 0 ly ([], [])), snd (nth 0 ly ([], [])))]] = [firstn 1 ly]) by (rewrite <- surjective_pairing, Ly; reflexivity).
  match goal with |- build_grid _ P Q (done ++ ?x) = _ => replace x with [firstn 1 ly] by (symmetry; exact F) end.
  apply (build_layer_rest P Q done ly read (length r) 1); lia.
Qed.

Lemma build_all : forall P Q rest done full, full = done ++ rest -> (forall ly, In ly rest -> ly <> []) ->
  (forall l i, (l < length full)%nat -> (i < length (nth l full []))%nat ->
     read_ins P l i = Some (fst (nth i (nth l full []) ([], []))) /\ read_outs Q l i = snd (nth i (nth l full []) ([], []))) ->
  build_grid (coords_from (length done) rest) P Q done = Some full.
Proof.
  intros P Q. induction rest as [|ly r IH]; intros done full E NE read; cbn [coords_from].
  - rewrite app_nil_r in E. subst. reflexivity.
  - rewrite build_grid_app, build_layer.
    + replace (S (length done)) with (length (done ++ [ly])) by (rewrite app_length; simpl; lia).
      apply IH; [rewrite <- app_assoc; exact E | intros x Ix; apply NE; right; exact Ix | exact read].
    + apply NE. left. reflexivity.
    + intros i Hi. assert (N : nth (length done) full [] = ly) by (subst full; rewrite app_nth2 by lia; rewrite Nat.sub_diag; reflexivity).
      rewrite <- N. apply read; [subst full; rewrite app_length; simpl; lia | rewrite N; exact Hi].
Qed.

Lemma plan_roundtrip : forall layers, plan_shape_ok layers = true ->
  build_grid (coords (pins_from O layers) (pouts_from O layers)) (pins_from O layers) (pouts_from O layers) [] = Some layers.
Proof.
  intros layers S. rewrite (coords_saved layers S). apply (build_all _ _ layers [] layers); [reflexivity| |].
  - intros ly I E. unfold plan_shape_ok in S. rewrite forallb_forall in S. specialize (S ly I). subst ly. discriminate.
  - intros l i HL HI. apply read_tx_saved; assumption.
Qed.

(* ---------------------------------------------------------------------------------------- *)
(** * The full round trip *)

Definition wf_full (f : fullmig) : Prop :=
  Sorted Z.lt (map t_id (m_txs (f_state f))) /\ length (f_pay f) = length (m_txs (f_state f))
  /\ plan_shape_ok (pl_layers (f_plan f)) = true.

Theorem store_roundtrip_full : forall f, wf_full f -> load_full (save_full f) = Some f.
Proof.
  intros [s pay pl] [SO [LP SH]]. cbn [f_state f_pay f_plan] in *. unfold save_full, load_full. cbn [f_state f_pay f_plan].
  destruct (save_txs (m_txs s)) as [rows deps] eqn:ST.
  destruct (enc_pay (m_txs s) pay) as [pays nfs] eqn:EP. cbn [tb_tx tb_deps tb_pin tb_pout tb_parent tb_cross tb_txpay tb_nfs tb_direct].
  rewrite <- ST, (store_roundtrip_txs (m_txs s) SO), (plan_roundtrip (pl_layers pl) SH).
  cbn [pr_status pr_thr pr_ivl pr_fee_buffer pr_change pr_prep_fees pr_total_input pr_total_migratable].
  rewrite read_cross_saved, read_direct_saved.
  destruct (enc_pay_roundtrip (m_txs s) pay [] LP (sorted_nodup _ SO) ltac:(intros; reflexivity)) as [R1 R2].
  rewrite EP in R1, R2. cbn [fst snd app] in R1, R2.
  assert (SP : sort_by pay_lt pays = pays).
  { apply sort_by_sorted. apply sorted_adj in SO. rewrite <- R2 in SO. clear -SO.
    induction pays as [|x l IH]; [exact I|]. destruct l as [|y r]; [exact I|]. cbn [map adj_sorted] in *.
    destruct SO as [S1 S2]. split; [exact S1 | apply IH; exact S2]. }
  rewrite SP, R1. destruct s, pl; reflexivity.
Qed.

(** the regenerated column lists of the remaining tables are the fields of the row records *)
From V.Gen Require Import C18Store.
From Coq Require Import String.
Lemma other_columns_are_modelled :
  CROSSING_VALUES_COLUMNS = ["migration_id"; "ordinal"; "value"]%string
  /\ PREP_INPUTS_COLUMNS = ["migration_id"; "layer"; "tx_index"; "ordinal"; "source"; "wallet_index"; "prior_layer";
                            "prior_transaction"; "prior_output"; "value"]%string
  /\ PREP_OUTPUTS_COLUMNS = ["migration_id"; "layer"; "tx_index"; "ordinal"; "role"; "value"]%string
  /\ PREP_DIRECT_FUNDING_COLUMNS = ["migration_id"; "ordinal"; "wallet_index"; "value"]%string
  /\ SPEND_NULLIFIERS_COLUMNS = ["migration_id"; "transfer_id"; "ordinal"; "nullifier"]%string
  /\ MIGRATIONS_COLUMNS = ["id"; "account_id"; "status"; "note_split_fee_buffer"; "note_split_change"; "note_split_prep_fees";
                           "note_split_total_input"; "note_split_total_migratable"; "anchor_bucket_interval";
                           "replan_threshold"; "uuid"; "committed_height"]%string.
Proof. vm_compute. repeat split; reflexivity. Qed.
