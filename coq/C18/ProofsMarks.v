(** C18 — mark soundness of the drive step, for every store: an [Inherited] mark that appears
    during one [advance] call has, in the state the call RETURNS, a direct dependency that is an
    unmined row which is itself marked or expired at the scanned target (a dead source).  In
    particular a source the same call promoted to [Mined] never strands its dependents: the
    in-flight sweep promotes before it records. *)
From V.Lib Require Import Base.
From V.Gen Require Import C18Consts.
From V.C18 Require Import Model Spec ProofsDead ProofsKernel ProofsLife ProofsDrive ProofsStrand ProofsTerm.
From Coq Require Import ZifyBool.
Local Open Scope Z_scope.

Definition src_dead (txs : list mtx) (sc : Z) (d : Z) : Prop :=
  exists x, find_tx d txs = Some x /\ is_mined x = false /\ (t_unsat x <> None \/ is_expired x sc = true).

(** rows only gain marks: identity, dependencies, expiry and lifecycle state stay *)
Definition grow (b c : mtx) : Prop :=
  t_id b = t_id c /\ t_deps b = t_deps c /\ t_expiry b = t_expiry c /\ t_state b = t_state c
  /\ (forall m, t_unsat b = Some m -> t_unsat c = Some m).

Lemma grow_refl : forall b, grow b b.
Proof. intros b. unfold grow. tauto. Qed.
Lemma grow_trans : forall a b c, grow a b -> grow b c -> grow a c.
Proof. unfold grow. intros a b c [A1 [A2 [A3 [A4 A5]]]] [B1 [B2 [B3 [B4 B5]]]]. repeat split; try congruence. auto. Qed.

Lemma grows_refl : forall l, Forall2 grow l l.
Proof. apply F2_refl, grow_refl. Qed.
Lemma grows_trans : forall x y z, Forall2 grow x y -> Forall2 grow y z -> Forall2 grow x z.
Proof. apply F2_trans, grow_trans. Qed.
Lemma grows_ids : forall x y, Forall2 grow x y -> map t_id x = map t_id y.
Proof. intros x y H. induction H as [|a b l l' [E _] _ IH]; simpl; [reflexivity|rewrite E, IH; reflexivity]. Qed.

Lemma grow_find : forall x y d u, Forall2 grow x y -> find_tx d x = Some u -> exists v, find_tx d y = Some v /\ grow u v.
Proof.
  intros x y d u H. unfold find_tx. induction H as [|a b l l' G _ IH]; simpl; [discriminate|].
  destruct G as [E G']. rewrite <- E. destruct (t_id a =? d); [|exact IH].
  intros X. inversion X; subst. exists b. split; [reflexivity|]. unfold grow. tauto.
Qed.

Lemma grow_expired : forall u v sc, grow u v -> is_expired v sc = is_expired u sc.
Proof. intros u v sc [_ [_ [E [S _]]]]. unfold is_expired, is_mined. rewrite E, S. reflexivity. Qed.

Lemma src_dead_grow : forall x y sc d, Forall2 grow x y -> src_dead x sc d -> src_dead y sc d.
Proof.
  intros x y sc d H [u [F [M D]]]. destruct (grow_find x y d u H F) as [v [Fv G]]. exists v. split; [exact Fv|].
  split; [destruct G as [_ [_ [_ [S _]]]]; unfold is_mined in *; rewrite <- S; exact M|].
  destruct D as [D|D]; [left|right; rewrite (grow_expired u v sc G); exact D].
  destruct (t_unsat u) as [m|] eqn:U; [|congruence]. destruct G as [_ [_ [_ [_ K]]]]. rewrite (K m U). discriminate.
Qed.

(** one step: rows grow, and every row newly carrying an [Inherited] mark has a dead source in
    the step's result *)
Definition fresh_ok (sc : Z) (nxt : list mtx) (b c : mtx) : Prop :=
  grow b c /\ (t_unsat b = None -> forall h, t_unsat c = Some (h, KInherited) ->
               exists d, In d (t_deps c) /\ src_dead nxt sc d).
Definition step_ok (sc : Z) (cur nxt : list mtx) : Prop := Forall2 (fresh_ok sc nxt) cur nxt.

Lemma fresh_grows : forall sc full cur nxt, Forall2 (fresh_ok sc full) cur nxt -> Forall2 grow cur nxt.
Proof. intros sc full cur nxt H. induction H as [|b c l l' [G _] _ IH]; constructor; assumption. Qed.
Lemma step_ok_grows : forall sc cur nxt, step_ok sc cur nxt -> Forall2 grow cur nxt.
Proof. intros sc cur nxt. apply fresh_grows. Qed.

(** a step that adds no [Inherited] mark *)
Lemma fresh_of_grows : forall sc full cur nxt, Forall2 grow cur nxt ->
  Forall2 (fun b c => t_unsat b = None -> forall h, t_unsat c <> Some (h, KInherited)) cur nxt ->
  Forall2 (fresh_ok sc full) cur nxt.
Proof.
  intros sc full cur nxt G. induction G as [|b c l l' Gb _ IH]; intros N; inversion N; subst; constructor; [|apply IH; assumption].
  split; [exact Gb|]. intros U h X. exfalso. eapply H2; eassumption.
Qed.

Lemma no_new_refl : forall l, Forall2 (fun b c : mtx => t_unsat b = None -> forall h, t_unsat c <> Some (h, KInherited)) l l.
Proof. induction l; constructor; [|assumption]. intros U h X. congruence. Qed.

Lemma step_ok_refl : forall sc l, step_ok sc l l.
Proof. intros sc l. apply fresh_of_grows; [apply grows_refl | apply no_new_refl]. Qed.

Lemma fresh_trans : forall sc full1 full2 a b c,
  (forall d, src_dead full1 sc d -> src_dead full2 sc d) ->
  Forall2 (fresh_ok sc full1) a b -> Forall2 (fresh_ok sc full2) b c -> Forall2 (fresh_ok sc full2) a c.
Proof.
  intros sc full1 full2 a b c W H1. revert c. induction H1 as [|x y l l' [Gx Fx] _ IH]; intros c H2;
    inversion H2 as [|y' z l2 l3 [Gy Fy] H2']; subst; constructor; [|apply IH; exact H2'].
  split; [eapply grow_trans; eassumption|]. intros U h X.
  destruct (t_unsat y) as [m|] eqn:Uy.
  - destruct Gy as [_ [Dy [_ [_ K]]]]. rewrite (K m Uy) in X. inversion X; subst.
    destruct (Fx U h eq_refl) as [d [Id D]]. exists d. split; [rewrite <- Dy; exact Id | apply W; exact D].
  - exact (Fy eq_refl h X).
Qed.

Lemma step_ok_trans : forall sc a b c, step_ok sc a b -> step_ok sc b c -> step_ok sc a c.
Proof.
  intros sc a b c H1 H2. unfold step_ok in *. eapply fresh_trans; [|exact H1|exact H2].
  intros d D. eapply src_dead_grow; [apply (fresh_grows _ _ _ _ H2) | exact D].
Qed.

(* ---------------------------------------------------------------------------------------- *)
(** the mutators *)

Lemma update_first_fresh : forall sc full p f l,
  (forall t, p t = true -> fresh_ok sc full t (f t)) -> Forall2 (fresh_ok sc full) l (update_first p f l).
Proof.
  intros sc full p f l H. induction l as [|t l IH]; simpl; [constructor|].
  assert (R : forall x, fresh_ok sc full x x) by (intros x; split; [apply grow_refl | intros U h X; congruence]).
  destruct (p t) eqn:E; constructor; auto. clear -R. induction l; constructor; auto.
Qed.

Lemma set_unsat_grow : forall t u, t_unsat t = None -> grow t (set_unsat t (Some u)).
Proof. intros t u U. unfold grow. simpl. repeat split; try reflexivity. intros m X. congruence. Qed.

Lemma direct_mark_fresh : forall sc full l d, Forall2 (fresh_ok sc full) l (direct_mark l d).
Proof.
  intros sc full l d. unfold direct_mark.
  assert (R : Forall2 (fresh_ok sc full) l l) by (apply fresh_of_grows; [apply grows_refl | apply no_new_refl]).
  destruct (snd d); try exact R. destruct (cause_kind c) as [k|] eqn:K; [|exact R].
  apply update_first_fresh. intros t P. apply andb_true_iff in P. destruct P as [P _]. apply andb_true_iff in P. destruct P as [_ P].
  assert (U : t_unsat t = None) by (destruct (t_unsat t); [discriminate|reflexivity]).
  split; [apply set_unsat_grow; exact U|]. intros _ h0 X. simpl in X. inversion X; subst. destruct c; discriminate.
Qed.

Lemma fold_direct_fresh : forall sc full dets l, Forall2 (fresh_ok sc full) l (fold_left direct_mark dets l).
Proof.
  intros sc full dets. induction dets as [|d dets IH]; intros l; simpl.
  - apply fresh_of_grows; [apply grows_refl | apply no_new_refl].
  - eapply fresh_trans; [intros x X; exact X | apply direct_mark_fresh | apply IH].
Qed.

(** what one pass of the durable closure is about to mark *)
Definition claim (sc : Z) (cur : list mtx) (p : Z * Z) : Prop :=
  exists t, find_tx (fst p) cur = Some t /\ t_unsat t = None /\ exists d, In d (t_deps t) /\ src_dead cur sc d.

Lemma opt_min_some : forall a b, opt_min a b <> None -> a <> None \/ b <> None.
Proof. intros [x|] [y|]; simpl; intros H; try (left; discriminate); try (right; discriminate). congruence. Qed.

Lemma inherited_stamp_src : forall txs sc t st, inherited_stamp txs sc t = Some st ->
  exists d, In d (t_deps t) /\ src_dead txs sc d.
Proof.
  intros txs sc t st. unfold inherited_stamp.
  assert (G : forall deps acc, fold_left (fun acc d => match find_tx d txs with
                          | Some x => opt_min acc (dep_stamp sc x) | None => acc end) deps acc <> None ->
            acc <> None \/ exists d, In d deps /\ src_dead txs sc d).
  { induction deps as [|d r IH]; intros acc H; simpl in H; [left; exact H|].
    destruct (IH _ H) as [A|[d' [I' D']]]; [|right; exists d'; split; [right; exact I'|exact D']].
    destruct (find_tx d txs) as [x|] eqn:F; [|left; exact A].
    destruct (opt_min_some _ _ A) as [B|B]; [left; exact B|]. right. exists d. split; [left; reflexivity|].
    exists x. split; [exact F|]. unfold dep_stamp in B. destruct (is_mined x) eqn:M; [congruence|]. split; [reflexivity|].
    destruct (is_expired x sc) eqn:E; [right; reflexivity|]. left. simpl in B. destruct (t_unsat x); [discriminate|].
    simpl in B. congruence. }
  intros H. destruct (G (t_deps t) None) as [A|A]; [rewrite H; discriminate | congruence | exact A].
Qed.

Lemma inherited_claims : forall txs sc, NoDup (map t_id txs) ->
  Forall (claim sc txs) (inherited txs sc) /\ NoDup (map fst (inherited txs sc)).
Proof.
  intros txs sc ND. unfold inherited.
  assert (G : forall l, incl l txs -> NoDup (map t_id l) ->
     Forall (claim sc txs) (flat_map (fun t => if negb (is_mined t) && negb (is_some (t_unsat t))
                     then match inherited_stamp txs sc t with Some st => [(t_id t, st)] | None => [] end else []) l)
     /\ NoDup (map fst (flat_map (fun t => if negb (is_mined t) && negb (is_some (t_unsat t))
                     then match inherited_stamp txs sc t with Some st => [(t_id t, st)] | None => [] end else []) l))
     /\ forall i, In i (map fst (flat_map (fun t => if negb (is_mined t) && negb (is_some (t_unsat t))
                     then match inherited_stamp txs sc t with Some st => [(t_id t, st)] | None => [] end else []) l)) -> In i (map t_id l)).
  { induction l as [|t l IH]; intros Inc N; simpl; [split; [constructor|split; [constructor|tauto]]|].
    inversion N; subst. destruct (IH (fun x Hx => Inc x (or_intror Hx)) H2) as [I1 [I2 I3]].
    destruct (negb (is_mined t) && negb (is_some (t_unsat t))) eqn:C; [|simpl; split; [exact I1|split; [exact I2|intros i Hi; right; apply I3; exact Hi]]].
    destruct (inherited_stamp txs sc t) as [st|] eqn:S; [|simpl; split; [exact I1|split; [exact I2|intros i Hi; right; apply I3; exact Hi]]].
    simpl. split; [|split].
    - constructor; [|exact I1]. exists t. simpl. split; [apply nodup_find'; [exact ND | apply Inc; left; reflexivity]|].
      apply andb_true_iff in C. destruct C as [_ C]. apply negb_true_iff in C.
      split; [destruct (t_unsat t); [discriminate|reflexivity] | eapply inherited_stamp_src; exact S].
    - constructor; [|exact I2]. intros X. apply H1. apply I3. exact X.
    - intros i [<-|Hi]; [left; reflexivity | right; apply I3; exact Hi]. }
  destruct (G txs (incl_refl _) ND) as [A [B _]]. split; assumption.
Qed.

Lemma find_tx_update_other : forall id0 id f l, id0 <> id -> (forall t, t_id (f t) = t_id t) ->
  find_tx id (update_first (has_id id0) f l) = find_tx id l.
Proof.
  intros id0 id f l N Hf. unfold find_tx. induction l as [|t l IH]; simpl; [reflexivity|].
  unfold has_id at 1. destruct (t_id t =? id0) eqn:E.
  - simpl. rewrite Hf. apply Z.eqb_eq in E. replace (t_id t =? id) with false by (symmetry; apply Z.eqb_neq; lia). reflexivity.
  - simpl. destruct (t_id t =? id); [reflexivity | exact IH].
Qed.

(** applying one claimed mark *)
Lemma apply_one_fresh : forall sc cur p, claim sc cur p ->
  let nxt := update_first (has_id (fst p)) (fun t => set_unsat t (Some (snd p, KInherited))) cur in
  step_ok sc cur nxt.
Proof.
  intros sc cur p [t [F [U [d [Id D]]]]] nxt.
  assert (G : Forall2 grow cur nxt).
  { subst nxt. clear D Id. revert F. unfold find_tx. induction cur as [|x l IH]; intros F; simpl in *; [constructor|].
    unfold has_id at 1. destruct (t_id x =? fst p) eqn:E.
    - inversion F; subst. constructor; [apply set_unsat_grow; exact U | apply grows_refl].
    - constructor; [apply grow_refl | apply IH; exact F]. }
  unfold step_ok. pose proof (src_dead_grow cur nxt sc d G D) as D'.
  subst nxt. revert F G D'. generalize (update_first (has_id (fst p)) (fun t0 => set_unsat t0 (Some (snd p, KInherited))) cur) at 2 3 as full.
  intros full F _ D'. clear D. unfold find_tx in F. induction cur as [|x l IH]; simpl in *; [constructor|].
  assert (R : forall y, fresh_ok sc full y y) by (intros y; split; [apply grow_refl | intros V h X; congruence]).
  unfold has_id at 1. destruct (t_id x =? fst p) eqn:E.
  - inversion F; subst. constructor; [|clear -R; induction l; constructor; auto].
    split; [apply set_unsat_grow; exact U|]. intros _ h X. exists d. simpl. split; [exact Id | exact D'].
  - constructor; [apply R | apply IH; exact F].
Qed.

Lemma claim_after : forall sc cur p q, fst p <> fst q -> claim sc cur p -> claim sc cur q ->
  claim sc (update_first (has_id (fst p)) (fun t => set_unsat t (Some (snd p, KInherited))) cur) q.
Proof.
  intros sc cur p q N Cp [t [F [U [d [Id D]]]]].
  exists t. split; [rewrite find_tx_update_other; [exact F | exact N | reflexivity]|]. split; [exact U|].
  exists d. split; [exact Id|]. eapply src_dead_grow; [|exact D]. apply (step_ok_grows sc). apply apply_one_fresh. exact Cp.
Qed.

Lemma apply_inherited_fresh : forall sc L cur, Forall (claim sc cur) L -> NoDup (map fst L) ->
  step_ok sc cur (apply_inherited cur L).
Proof.
  intros sc L. unfold apply_inherited. induction L as [|p L IH]; intros cur C N; simpl; [apply step_ok_refl|].
  inversion C as [|? ? Cp CL]; subst. inversion N as [|? ? N1 N2]; subst.
  eapply step_ok_trans; [apply apply_one_fresh; exact Cp|]. apply IH; [|exact N2].
  rewrite Forall_forall in *. intros q Iq. apply claim_after; [|exact Cp|apply CL; exact Iq].
  intros E. apply N1. rewrite E. apply in_map. exact Iq.
Qed.

Lemma closure_fresh : forall sc fuel txs, NoDup (map t_id txs) -> step_ok sc txs (closure_loop fuel txs sc).
Proof.
  intros sc fuel. induction fuel as [|f IH]; intros txs ND; cbn [closure_loop]; [apply step_ok_refl|].
  destruct (inherited_claims txs sc ND) as [C N].
  destruct (inherited txs sc) as [|p L] eqn:E; [apply step_ok_refl|]. rewrite <- E in *.
  pose proof (apply_inherited_fresh sc _ txs C N) as S1.
  eapply step_ok_trans; [exact S1|]. apply IH. rewrite <- (grows_ids _ _ (step_ok_grows _ _ _ S1)). exact ND.
Qed.

Theorem record_sat_marks : forall s tg dets, NoDup (map t_id (m_txs s)) ->
  step_ok (tg_scanned tg) (m_txs s) (m_txs (record_satisfiability s tg dets)).
Proof.
  intros s tg dets ND. unfold record_satisfiability. rewrite txs_set_txs.
  set (t1 := fold_left direct_mark dets (m_txs s)).
  assert (G1 : Forall2 grow (m_txs s) t1) by (apply (fresh_grows (tg_scanned tg) []); apply fold_direct_fresh).
  assert (S2 : step_ok (tg_scanned tg) t1 (closure_loop (S (length t1)) t1 (tg_scanned tg)))
    by (apply closure_fresh; rewrite <- (grows_ids _ _ G1); exact ND).
  unfold step_ok in *. eapply fresh_trans; [intros d D; exact D | apply fold_direct_fresh | exact S2].
Qed.

(* ---------------------------------------------------------------------------------------- *)
(** steps that record no mark *)

Lemma quiet_step : forall sc cur nxt, Forall2 (fun b c => grow b c /\ t_unsat c = t_unsat b) cur nxt -> step_ok sc cur nxt.
Proof.
  intros sc cur nxt H. apply fresh_of_grows.
  - induction H as [|b c l l' [G _] _ IH]; constructor; assumption.
  - induction H as [|b c l l' [_ E] _ IH]; constructor; [|assumption]. intros U h X. congruence.
Qed.

Lemma shift_fold_quiet : forall ivl delta l out r,
  exists l', fst (fold_left (shift_tx ivl delta) l (out, r)) = out ++ l' /\ Forall2 (fun b c => grow b c /\ t_unsat c = t_unsat b) l l'.
Proof.
  intros ivl delta l. induction l as [|t l IH]; intros out r; cbn [fold_left].
  - exists []. rewrite app_nil_r. split; [reflexivity|constructor].
  - assert (S : exists t' r', shift_tx ivl delta (out, r) t = (out ++ [t'], r') /\ grow t t' /\ t_unsat t' = t_unsat t).
    { assert (Q : forall s a, grow t (set_sched_anchor t s a) /\ t_unsat (set_sched_anchor t s a) = t_unsat t)
        by (intros; unfold grow; simpl; repeat split; auto).
      unfold shift_tx. destruct (t_state t) eqn:St.
      - destruct (t_kind t); [eexists; eexists; split; [reflexivity|apply Q]|].
        destruct (t_anchor t); [|eexists; eexists; split; [reflexivity|apply Q]].
        destruct (redraw_anchor_boundary _ _ _ _) as [fresh r']. eexists; eexists; split; [reflexivity|apply Q].
      - destruct (t_kind t); [eexists; eexists; split; [reflexivity|apply Q]|].
        destruct (t_anchor t); [|eexists; eexists; split; [reflexivity|apply Q]].
        destruct (redraw_anchor_boundary _ _ _ _) as [fresh r']. eexists; eexists; split; [reflexivity|apply Q].
      - eexists; eexists; split; [reflexivity|apply Q].
      - exists t, r. split; [reflexivity|split; [apply grow_refl|reflexivity]].
      - exists t, r. split; [reflexivity|split; [apply grow_refl|reflexivity]]. }
    destruct S as [t' [r' [E Sh]]]. rewrite E.
    destruct (IH (out ++ [t']) r') as [l' [F S]]. exists (t' :: l'). rewrite F, <- app_assoc. split; [reflexivity|].
    constructor; assumption.
Qed.

Lemma shift_marks : forall sc s delta r, step_ok sc (m_txs s) (m_txs (fst (shift_schedule s delta r))).
Proof.
  intros. apply quiet_step. unfold shift_schedule.
  destruct (shift_fold_quiet (m_ivl s) delta (m_txs s) [] r) as [l' [F S]].
  destruct (fold_left _ _ _) as [txs r'] eqn:E. simpl in F. subst. simpl. exact S.
Qed.

Lemma clear_failure_marks : forall sc s id, step_ok sc (m_txs s) (m_txs (clear_broadcast_failure s id)).
Proof.
  intros. apply quiet_step. unfold clear_broadcast_failure. rewrite txs_set_txs.
  induction (m_txs s) as [|t l IH]; simpl; [constructor|].
  assert (R : forall (l : list mtx), Forall2 (fun b c => grow b c /\ t_unsat c = t_unsat b) l l)
    by (induction l0; constructor; [split; [apply grow_refl|reflexivity]|assumption]).
  destruct (has_id id t); constructor; auto; [split; [unfold grow; simpl; tauto | reflexivity] | split; [apply grow_refl|reflexivity]].
Qed.

Section MarksDrive.
  Variable sat : mtx -> answer.
  Variable mined_at : Z -> option Z.

  Lemma plan_loop_marks : forall fuel tg s sa dirty r st s' d' sa', NoDup (map t_id (m_txs s)) ->
    plan_loop sat fuel tg s sa dirty r = PDone st s' d' sa' -> step_ok (tg_scanned tg) (m_txs s) (m_txs s').
  Proof.
    induction fuel as [|f IH]; intros tg s sa dirty r st s' d' sa' ND H; [discriminate|].
    cbn [plan_loop] in H.
    destruct (candidates (next_step s tg sa)) as [cands|]; [|inversion H; subst; apply step_ok_refl].
    destruct (all_some _) as [rows|]; [|inversion H; subst; apply step_ok_refl].
    destruct (overdue_shift (next_step s tg sa) rows s tg) as [delta|].
    { pose proof (shift_marks (tg_scanned tg) s delta r) as SM. destruct (shift_schedule s delta r) as [s1 r1]. simpl in SM.
      eapply step_ok_trans; [exact SM|]. eapply IH; [|exact H]. rewrite <- (grows_ids _ _ (step_ok_grows _ _ _ SM)). exact ND. }
    destruct (verify sat rows) as [[kept dfr] disc].
    destruct (negb (is_nil disc)).
    { pose proof (record_sat_marks s tg (broaden sat s disc) ND) as RM.
      eapply step_ok_trans; [exact RM|]. eapply IH; [|exact H]. rewrite <- (grows_ids _ _ (step_ok_grows _ _ _ RM)). exact ND. }
    destruct (is_nil dfr); [inversion H; subst; apply step_ok_refl|].
    destruct (next_step s tg sa); try (eapply IH; [exact ND|exact H]).
    destruct (negb (is_nil kept)); [inversion H; subst; apply step_ok_refl | eapply IH; [exact ND|exact H]].
  Qed.

  Lemma fold_step_ok : forall sc A (f : mstate -> A -> mstate),
    (forall s p, step_ok sc (m_txs s) (m_txs (f s p))) -> forall l s, step_ok sc (m_txs s) (m_txs (fold_left f l s)).
  Proof.
    intros sc A f H l. induction l as [|p l IH]; intros s; simpl; [apply step_ok_refl|].
    eapply step_ok_trans; [apply H | apply IH].
  Qed.

  Lemma adjudicate_marks : forall s tg, NoDup (map t_id (m_txs s)) ->
    step_ok (tg_scanned tg) (m_txs s) (m_txs (fst (fst (adjudicate sat s tg)))).
  Proof.
    intros s tg ND. unfold adjudicate. destruct (is_terminal s); [apply step_ok_refl|].
    destruct (fold_left _ _ _) as [[adj vd] pend]. simpl.
    eapply step_ok_trans; [|apply fold_step_ok; intros; apply clear_failure_marks].
    destruct (is_nil vd); [apply step_ok_refl | apply record_sat_marks; exact ND].
  Qed.

  (** promotions never add a mark: relative to the state before, whatever mark a row carries it
      already carried *)
  Definition calm (a b : mtx) : Prop :=
    t_id a = t_id b /\ t_deps a = t_deps b /\ (t_unsat b <> None -> t_unsat b = t_unsat a).
  Lemma calm_refl : forall l, Forall2 calm l l.
  Proof. induction l; constructor; [unfold calm; tauto | assumption]. Qed.
  Lemma calm_trans : forall x y z, Forall2 calm x y -> Forall2 calm y z -> Forall2 calm x z.
  Proof.
    apply F2_trans. unfold calm. intros a b c [A1 [A2 A3]] [B1 [B2 B3]]. repeat split; try congruence.
    intros N. rewrite (B3 N). apply A3. rewrite <- (B3 N). exact N.
  Qed.
  Lemma update_first_calm : forall p f l, (forall t, calm t (f t)) -> Forall2 calm l (update_first p f l).
  Proof.
    intros p f l H. induction l as [|t l IH]; simpl; [constructor|].
    destruct (p t); constructor; auto; [apply calm_refl | unfold calm; tauto].
  Qed.
  Lemma mark_mined_calm : forall s id h, Forall2 calm (m_txs s) (m_txs (mark_mined s id h)).
  Proof.
    intros. unfold mark_mined. rewrite txs_recompute, txs_set_txs. apply update_first_calm.
    intros t. unfold calm. simpl. repeat split; auto. congruence.
  Qed.
  Lemma mark_broadcast_calm : forall s id, Forall2 calm (m_txs s) (m_txs (mark_broadcast s id)).
  Proof.
    intros. unfold mark_broadcast. rewrite txs_recompute, txs_set_txs. apply update_first_calm.
    intros t. unfold calm. destruct (is_mined t); simpl; tauto.
  Qed.
  Lemma fold_calm : forall A (f : mstate -> A -> mstate), (forall s p, Forall2 calm (m_txs s) (m_txs (f s p))) ->
    forall l s, Forall2 calm (m_txs s) (m_txs (fold_left f l s)).
  Proof.
    intros A f H l. induction l as [|p l IH]; intros s; simpl; [apply calm_refl|]. eapply calm_trans; [apply H | apply IH].
  Qed.
  Lemma calm_ids : forall x y, Forall2 calm x y -> map t_id x = map t_id y.
  Proof. intros x y H. induction H as [|a b l l' [E _] _ IH]; simpl; [reflexivity|rewrite E, IH; reflexivity]. Qed.

  (** * Mark soundness of [advance] *)
  Definition marks_soundF (sc : Z) (full pre post : list mtx) : Prop :=
    Forall2 (fun a c => t_id a = t_id c /\
      (t_unsat a = None -> forall h, t_unsat c = Some (h, KInherited) ->
         exists d, In d (t_deps c) /\ src_dead full sc d)) pre post.
  Definition marks_sound (sc : Z) (pre post : list mtx) : Prop := marks_soundF sc post pre post.

  Lemma calm_then_fresh : forall sc full pre mid post, Forall2 calm pre mid -> Forall2 (fresh_ok sc full) mid post ->
    marks_soundF sc full pre post.
  Proof.
    intros sc full pre mid post C. revert post. induction C as [|a b l l' [E1 [E2 E3]] _ IH]; intros post S;
      inversion S as [|? c ? l3 [G F] S']; subst; constructor; [|apply IH; exact S'].
    split; [destruct G as [G1 _]; congruence|]. intros U h X.
    destruct (t_unsat b) as [m|] eqn:Ub.
    - exfalso. assert (Y : Some m = t_unsat a) by (apply E3; discriminate). congruence.
    - exact (F eq_refl h X).
  Qed.

  Theorem advance_marks_sound : forall s tg r st s' dirty, NoDup (map t_id (m_txs s)) ->
    advance sat mined_at s tg r = ARes st s' dirty -> marks_sound (tg_scanned tg) (m_txs s) (m_txs s').
  Proof.
    intros s tg r st s' dirty ND H. unfold advance in H.
    (* the in-flight sweep: promotions (calm), then one recording *)
    assert (SW : exists mid, Forall2 calm (m_txs s) (m_txs mid)
                 /\ step_ok (tg_scanned tg) (m_txs mid) (m_txs (fst (sweep sat mined_at s tg)))).
    { unfold sweep. destruct (fold_left (sweep_tx sat mined_at) (m_txs s) ([], [], [])) as [[unrec mn] fnd]. simpl.
      set (s1 := fold_left (fun s p => mark_mined (mark_broadcast s (fst p)) (fst p) (snd p)) unrec s).
      set (s2 := fold_left (fun s p => mark_mined s (fst p) (snd p)) mn s1).
      assert (C1 : Forall2 calm (m_txs s) (m_txs s1)).
      { apply (fold_calm _ (fun s p => mark_mined (mark_broadcast s (fst p)) (fst p) (snd p))).
        intros x p. eapply calm_trans; [apply mark_broadcast_calm | apply mark_mined_calm]. }
      assert (C2 : Forall2 calm (m_txs s1) (m_txs s2)).
      { apply (fold_calm _ (fun s p => mark_mined s (fst p) (snd p))). intros x p. apply mark_mined_calm. }
      exists s2. split; [eapply calm_trans; eassumption|].
      destruct (is_nil fnd); [apply step_ok_refl|]. apply record_sat_marks.
      rewrite <- (calm_ids _ _ C2), <- (calm_ids _ _ C1). exact ND. }
    destruct SW as [mid [CM S1]].
    destruct (sweep sat mined_at s tg) as [s1 d1]. simpl in S1.
    assert (ND1 : NoDup (map t_id (m_txs s1))).
    { rewrite <- (grows_ids _ _ (step_ok_grows _ _ _ S1)), <- (calm_ids _ _ CM). exact ND. }
    pose proof (adjudicate_marks s1 tg ND1) as S2.
    destruct (adjudicate sat s1 tg) as [[s2 d2] pending]. simpl in S2.
    assert (ND2 : NoDup (map t_id (m_txs s2))) by (rewrite <- (grows_ids _ _ (step_ok_grows _ _ _ S2)); exact ND1).
    destruct pending.
    - inversion H; subst. unfold marks_sound. eapply calm_then_fresh; [exact CM|].
      exact (step_ok_trans _ _ _ _ S1 S2).
    - destruct (plan_loop sat (advance_fuel s2) tg s2 [] (d1 || d2) r) as [st3 s3 d3 sa3|] eqn:P; [|discriminate].
      inversion H; subst. pose proof (plan_loop_marks _ _ _ _ _ _ _ _ _ _ ND2 P) as S3.
      unfold marks_sound. eapply calm_then_fresh; [exact CM|].
      exact (step_ok_trans _ _ _ _ (step_ok_trans _ _ _ _ S1 S2) S3).
  Qed.
End MarksDrive.
