(** C18 — the direct-mark half of mark soundness, for every store: a directly observed mark that
    appears during one [advance] call (or one [record_satisfiability]) on a row unmarked before
    carries the oracle's own answer for that row — same height, same kind.  ([P i a]: "the oracle
    answered [a] for a row with id [i]".) *)
From V.Lib Require Import Base.
From V.Gen Require Import C18Consts.
From V.C18 Require Import Model Spec Store StoreFull Corr ProofsDead ProofsKernel ProofsLife ProofsDrive ProofsStrand ProofsTerm ProofsMarks.
From Coq Require Import ZifyBool.
Local Open Scope Z_scope.

Definition dir_ok (P : Z -> answer -> Prop) (b c : mtx) : Prop :=
  grow b c /\ (t_unsat b = None -> forall h k, t_unsat c = Some (h, k) -> k <> KInherited ->
               exists a, P (t_id c) a /\ answer_backs a h k = true).

Lemma dir_refl : forall P l, Forall2 (dir_ok P) l l.
Proof. intros P l. induction l; constructor; [|assumption]. split; [apply grow_refl|]. intros U h k X. congruence. Qed.

Lemma dir_trans : forall P x y z, Forall2 (dir_ok P) x y -> Forall2 (dir_ok P) y z -> Forall2 (dir_ok P) x z.
Proof.
  intros P x y z H1. revert z. induction H1 as [|a b l l' [Ga Fa] _ IH]; intros z H2;
    inversion H2 as [|? c ? l3 [Gb Fb] H2']; subst; constructor; [|apply IH; exact H2'].
  split; [eapply grow_trans; eassumption|]. intros U h k X NK.
  destruct (t_unsat b) as [m|] eqn:Ub.
  - destruct Gb as [Ib [_ [_ [_ K]]]]. rewrite (K m Ub) in X. inversion X; subst.
    destruct (Fa U h k eq_refl NK) as [an [Pa Ba]]. exists an. rewrite <- Ib. tauto.
  - exact (Fb eq_refl h k X NK).
Qed.

Lemma dir_grows : forall P x y, Forall2 (dir_ok P) x y -> Forall2 grow x y.
Proof. intros P x y H. induction H as [|a b l l' [G _] _ IH]; constructor; assumption. Qed.

Lemma ukind_eqb_refl : forall k, ukind_eqb k k = true.
Proof. intros []; reflexivity. Qed.

Lemma direct_mark_dir : forall (P : Z -> answer -> Prop) l d, P (fst d) (snd d) -> Forall2 (dir_ok P) l (direct_mark l d).
Proof.
  intros P l d Pd. unfold direct_mark. destruct (snd d) as [h0|h0|c h0] eqn:S; try apply dir_refl.
  destruct (cause_kind c) as [k0|] eqn:K; [|apply dir_refl].
  induction l as [|t l IH]; simpl; [constructor|].
  destruct (has_id (fst d) t && negb (is_some (t_unsat t)) && negb (is_mined t)) eqn:M.
  - constructor; [|apply dir_refl]. apply andb_true_iff in M. destruct M as [M _]. apply andb_true_iff in M. destruct M as [M1 M2].
    assert (U : t_unsat t = None) by (destruct (t_unsat t); [discriminate|reflexivity]).
    split; [apply set_unsat_grow; exact U|]. intros _ h k X NK. simpl in X. inversion X; subst.
    exists (Unsat c h). simpl. unfold has_id in M1. apply Z.eqb_eq in M1. rewrite M1. split; [exact Pd|].
    rewrite Z.eqb_refl, K. simpl. apply ukind_eqb_refl.
  - constructor; [|exact IH]. split; [apply grow_refl|]. intros U h k X. congruence.
Qed.

Lemma fold_direct_dir : forall (P : Z -> answer -> Prop) dets l, Forall (fun d => P (fst d) (snd d)) dets ->
  Forall2 (dir_ok P) l (fold_left direct_mark dets l).
Proof.
  intros P dets. induction dets as [|d dets IH]; intros l F; simpl; [apply dir_refl|]. inversion F as [|? ? F1 F2]; subst.
  eapply dir_trans; [apply direct_mark_dir; exact F1 | apply IH; exact F2].
Qed.

(** the closure only writes [Inherited] marks *)
Definition inh_or_same (b c : mtx) : Prop := t_unsat c = t_unsat b \/ exists st, t_unsat c = Some (st, KInherited).
Lemma ios_refl : forall l, Forall2 inh_or_same l l.
Proof. induction l; constructor; [left; reflexivity | assumption]. Qed.
Lemma ios_trans : forall x y z, Forall2 inh_or_same x y -> Forall2 inh_or_same y z -> Forall2 inh_or_same x z.
Proof.
  apply F2_trans. unfold inh_or_same. intros a b c [A|A] [B|B]; [left; congruence | right; exact B | right; rewrite B; exact A | right; exact B].
Qed.
Lemma apply_inherited_ios : forall L l, Forall2 inh_or_same l (apply_inherited l L).
Proof.
  unfold apply_inherited. induction L as [|p L IH]; intros l; simpl; [apply ios_refl|].
  eapply ios_trans; [|apply IH]. induction l as [|t l IHl]; simpl; [constructor|].
  destruct (has_id (fst p) t); constructor; [right; eexists; reflexivity | apply ios_refl | left; reflexivity | exact IHl].
Qed.
Lemma closure_ios : forall fuel l sc, Forall2 inh_or_same l (closure_loop fuel l sc).
Proof.
  induction fuel as [|f IH]; intros l sc; cbn [closure_loop]; [apply ios_refl|].
  destruct (inherited l sc) eqn:E; [apply ios_refl|]. eapply ios_trans; [apply apply_inherited_ios | apply IH].
Qed.

Lemma grow_ios_dir : forall P x y, Forall2 grow x y -> Forall2 inh_or_same x y -> Forall2 (dir_ok P) x y.
Proof.
  intros P x y G. induction G as [|a b l l' Ga _ IH]; intros I; inversion I; subst; constructor; [|apply IH; assumption].
  split; [exact Ga|]. intros U h k X NK. exfalso. destruct H2 as [E|[st E]]; [congruence|]. rewrite E in X. inversion X; subst. apply NK. reflexivity.
Qed.

Theorem record_sat_direct : forall (P : Z -> answer -> Prop) s tg dets, NoDup (map t_id (m_txs s)) ->
  Forall (fun d => P (fst d) (snd d)) dets ->
  Forall2 (dir_ok P) (m_txs s) (m_txs (record_satisfiability s tg dets)).
Proof.
  intros P s tg dets ND F. unfold record_satisfiability. rewrite txs_set_txs.
  pose proof (fold_direct_dir P dets (m_txs s) F) as D1.
  eapply dir_trans; [exact D1|]. apply grow_ios_dir; [|apply closure_ios].
  apply (step_ok_grows (tg_scanned tg)). apply closure_fresh. rewrite <- (grows_ids _ _ (dir_grows _ _ _ D1)). exact ND.
Qed.

Lemma quiet_dir : forall P cur nxt, Forall2 (fun b c => grow b c /\ t_unsat c = t_unsat b) cur nxt -> Forall2 (dir_ok P) cur nxt.
Proof.
  intros P cur nxt H. induction H as [|b c l l' [G E] _ IH]; constructor; [|exact IH].
  split; [exact G|]. intros U h k X. congruence.
Qed.

Lemma shift_dir : forall P s delta r, Forall2 (dir_ok P) (m_txs s) (m_txs (fst (shift_schedule s delta r))).
Proof.
  intros. apply quiet_dir. unfold shift_schedule.
  destruct (shift_fold_quiet (m_ivl s) delta (m_txs s) [] r) as [l' [F S]].
  destruct (fold_left _ _ _) as [txs r'] eqn:E. simpl in F. subst. simpl. exact S.
Qed.

Lemma clear_failure_dir : forall P s id, Forall2 (dir_ok P) (m_txs s) (m_txs (clear_broadcast_failure s id)).
Proof.
  intros. apply quiet_dir. unfold clear_broadcast_failure. rewrite txs_set_txs.
  assert (R : forall (l : list mtx), Forall2 (fun b c => grow b c /\ t_unsat c = t_unsat b) l l)
    by (induction l; constructor; [split; [apply grow_refl|reflexivity]|assumption]).
  induction (m_txs s) as [|t l IH]; simpl; [constructor|].
  destruct (has_id id t); constructor; auto; [split; [unfold grow; simpl; tauto | reflexivity] | split; [apply grow_refl|reflexivity]].
Qed.

Section DirectDrive.
  Variable sat : mtx -> answer.
  Variable mined_at : Z -> option Z.

  (** what the oracle said, by row id *)
  Definition said (i : Z) (a : answer) : Prop := exists t, t_id t = i /\ sat t = a.
  Definition all_said (l : list (Z * answer)) : Prop := Forall (fun d => said (fst d) (snd d)) l.

  Lemma all_said_app : forall a b, all_said a -> all_said b -> all_said (a ++ b).
  Proof. intros a b A B. unfold all_said in *. apply Forall_app. tauto. Qed.

  Lemma verify_said : forall rows, all_said (snd (verify sat rows)).
  Proof.
    intros rows. unfold verify.
    assert (G : forall l acc, all_said (snd acc) -> all_said (snd (fold_left (fun acc t =>
      let '(kept, dfr, disc) := acc in
      match sat t with
      | Sat _ => (kept ++ [t_id t], dfr, disc)
      | NotYet _ => (kept, dfr ++ [t_id t], disc)
      | Unsat c h => if records (Unsat c h) then (kept, dfr, disc ++ [(t_id t, Unsat c h)])
                     else (kept ++ [t_id t], dfr, disc)
      end) l acc))).
    { induction l as [|t l IH]; intros [[k d] c] H; simpl in *; [exact H|]. apply IH.
      destruct (sat t) eqn:E; simpl; try exact H.
      change (records (Unsat c0 h)) with (is_some (cause_kind c0)). destruct (is_some (cause_kind c0)); simpl; [|exact H].
      apply all_said_app; [exact H|]. constructor; [|constructor]. exists t. simpl. tauto. }
    apply (G rows ([], [], [])). apply Forall_nil.
  Qed.

  Lemma broaden_said : forall s batch, all_said batch -> all_said (broaden sat s batch).
  Proof.
    intros s batch H. unfold broaden.
    assert (G : forall l b, all_said b -> all_said (fold_left (fun b t =>
      if negb (existsb (fun p => fst p =? t_id t) b) && is_pending_state t
         && negb (is_some (t_unsat t)) && deps_mined (m_txs s) (t_deps t)
      then let a := sat t in if records a then b ++ [(t_id t, a)] else b
      else b) l b)).
    { induction l as [|t l IH]; intros b Hb; simpl; [exact Hb|]. apply IH.
      destruct (_ && _ && _ && _); [|exact Hb]. destruct (records (sat t)); [|exact Hb].
      apply all_said_app; [exact Hb|]. constructor; [|constructor]. exists t. simpl. tauto. }
    apply G. exact H.
  Qed.

  Lemma plan_loop_direct : forall fuel tg s sa dirty r st s' d' sa', NoDup (map t_id (m_txs s)) ->
    plan_loop sat fuel tg s sa dirty r = PDone st s' d' sa' -> Forall2 (dir_ok said) (m_txs s) (m_txs s').
  Proof.
    induction fuel as [|f IH]; intros tg s sa dirty r st s' d' sa' ND H; [discriminate|].
    cbn [plan_loop] in H.
    destruct (candidates (next_step s tg sa)) as [cands|]; [|inversion H; subst; apply dir_refl].
    destruct (all_some _) as [rows|]; [|inversion H; subst; apply dir_refl].
    destruct (overdue_shift (next_step s tg sa) rows s tg) as [delta|].
    { pose proof (shift_dir said s delta r) as SM. destruct (shift_schedule s delta r) as [s1 r1]. simpl in SM.
      eapply dir_trans; [exact SM|]. eapply IH; [|exact H]. rewrite <- (grows_ids _ _ (dir_grows _ _ _ SM)). exact ND. }
    pose proof (verify_said rows) as VS. destruct (verify sat rows) as [[kept dfr] disc]. simpl in VS.
    destruct (negb (is_nil disc)).
    { pose proof (record_sat_direct said s tg (broaden sat s disc) ND (broaden_said s disc VS)) as RM.
      eapply dir_trans; [exact RM|]. eapply IH; [|exact H]. rewrite <- (grows_ids _ _ (dir_grows _ _ _ RM)). exact ND. }
    destruct (is_nil dfr); [inversion H; subst; apply dir_refl|].
    destruct (next_step s tg sa); try (eapply IH; [exact ND|exact H]).
    destruct (negb (is_nil kept)); [inversion H; subst; apply dir_refl | eapply IH; [exact ND|exact H]].
  Qed.

  Lemma fold_dir : forall A (f : mstate -> A -> mstate),
    (forall s p, Forall2 (dir_ok said) (m_txs s) (m_txs (f s p))) -> forall l s, Forall2 (dir_ok said) (m_txs s) (m_txs (fold_left f l s)).
  Proof.
    intros A f H l. induction l as [|p l IH]; intros s; simpl; [apply dir_refl|]. eapply dir_trans; [apply H | apply IH].
  Qed.

  Lemma adjudicate_direct : forall s tg, NoDup (map t_id (m_txs s)) ->
    Forall2 (dir_ok said) (m_txs s) (m_txs (fst (fst (adjudicate sat s tg)))).
  Proof.
    intros s tg ND. unfold adjudicate. destruct (is_terminal s); [apply dir_refl|].
    set (step := fun (acc : list Z * list (Z * answer) * bool) (t : mtx) =>
        let '(adj, vd, pend) := acc in
        match t_fail t with
        | None => acc
        | Some tip =>
          let a := sat t in
          if as_of a <? tip then (adj, vd, true)
          else (adj ++ [t_id t], (if records a then vd ++ [(t_id t, a)] else vd), pend)
        end).
    assert (G : forall l acc, all_said (snd (fst acc)) -> all_said (snd (fst (fold_left step l acc)))).
    { induction l as [|t l IH]; intros [[adj vd] pend] H; simpl in *; [exact H|]. apply IH. unfold step.
      destruct (t_fail t); [|exact H]. destruct (as_of (sat t) <? z); [exact H|]. simpl.
      destruct (records (sat t)); [|exact H]. apply all_said_app; [exact H|]. constructor; [|constructor]. exists t. simpl. tauto. }
    assert (VS := G (m_txs s) ([], [], false) (Forall_nil _)).
    destruct (fold_left step (m_txs s) ([], [], false)) as [[adj vd] pend]. simpl in VS |- *.
    eapply dir_trans; [|apply fold_dir; intros; apply clear_failure_dir].
    destruct (is_nil vd); [apply dir_refl | apply record_sat_direct; [exact ND | apply broaden_said; exact VS]].
  Qed.

  Lemma sweep_findings_said : forall l acc, all_said (snd acc) -> all_said (snd (fold_left (sweep_tx sat mined_at) l acc)).
  Proof.
    induction l as [|t l IH]; intros [[u m] f] H; simpl in *; [exact H|]. apply IH. unfold sweep_tx.
    destruct (t_state t); try exact H.
    - destruct (mined_at (t_txid t)); exact H.
    - destruct (mined_at (t_txid t)); [exact H|]. destruct (is_some (t_unsat t)); [exact H|].
      destruct (sat t) as [h0|h0|c h0] eqn:E; try exact H. destruct c; try exact H; simpl;
        (apply all_said_app; [exact H|]; constructor; [|constructor]; exists t; simpl; tauto).
  Qed.

  Definition marks_backed (pre post : list mtx) : Prop :=
    Forall2 (fun a c => t_id a = t_id c /\
      (t_unsat a = None -> forall h k, t_unsat c = Some (h, k) -> k <> KInherited ->
         exists an, said (t_id c) an /\ answer_backs an h k = true)) pre post.

  Lemma calm_then_dir : forall pre mid post, Forall2 calm pre mid -> Forall2 (dir_ok said) mid post -> marks_backed pre post.
  Proof.
    intros pre mid post C. revert post. induction C as [|a b l l' [E1 [E2 E3]] _ IH]; intros post S;
      inversion S as [|? c ? l3 [G F] S']; subst; constructor; [|apply IH; exact S'].
    split; [destruct G as [G1 _]; congruence|]. intros U h k X NK.
    destruct (t_unsat b) as [m|] eqn:Ub.
    - exfalso. assert (Y : Some m = t_unsat a) by (apply E3; discriminate). congruence.
    - exact (F eq_refl h k X NK).
  Qed.

  Theorem advance_marks_backed : forall s tg r st s' dirty, NoDup (map t_id (m_txs s)) ->
    advance sat mined_at s tg r = ARes st s' dirty -> marks_backed (m_txs s) (m_txs s').
  Proof.
    intros s tg r st s' dirty ND H. unfold advance in H.
    assert (SW : exists mid, Forall2 calm (m_txs s) (m_txs mid)
                 /\ Forall2 (dir_ok said) (m_txs mid) (m_txs (fst (sweep sat mined_at s tg)))).
    { unfold sweep. assert (FS := sweep_findings_said (m_txs s) ([], [], []) (Forall_nil _)).
      destruct (fold_left (sweep_tx sat mined_at) (m_txs s) ([], [], [])) as [[unrec mn] fnd]. simpl in FS |- *.
      set (s1 := fold_left (fun s p => mark_mined (mark_broadcast s (fst p)) (fst p) (snd p)) unrec s).
      set (s2 := fold_left (fun s p => mark_mined s (fst p) (snd p)) mn s1).
      assert (C1 : Forall2 calm (m_txs s) (m_txs s1)).
      { apply (fold_calm sat _ (fun s p => mark_mined (mark_broadcast s (fst p)) (fst p) (snd p))).
        intros x p. eapply calm_trans; [apply (mark_broadcast_calm sat) | apply (mark_mined_calm sat)]. all: exact mined_at. }
      assert (C2 : Forall2 calm (m_txs s1) (m_txs s2)).
      { apply (fold_calm sat _ (fun s p => mark_mined s (fst p) (snd p))). intros x p. apply (mark_mined_calm sat). }
      exists s2. split; [eapply calm_trans; eassumption|].
      destruct (is_nil fnd); [apply dir_refl|]. apply record_sat_direct; [|exact FS].
      rewrite <- (calm_ids _ _ C2), <- (calm_ids _ _ C1). exact ND. }
    destruct SW as [mid [CM S1]].
    destruct (sweep sat mined_at s tg) as [s1 d1]. simpl in S1.
    assert (ND1 : NoDup (map t_id (m_txs s1))).
    { rewrite <- (grows_ids _ _ (dir_grows _ _ _ S1)), <- (calm_ids _ _ CM). exact ND. }
    pose proof (adjudicate_direct s1 tg ND1) as S2.
    destruct (adjudicate sat s1 tg) as [[s2 d2] pending]. simpl in S2.
    assert (ND2 : NoDup (map t_id (m_txs s2))) by (rewrite <- (grows_ids _ _ (dir_grows _ _ _ S2)); exact ND1).
    destruct pending.
    - inversion H; subst. eapply calm_then_dir; [exact CM|]. exact (dir_trans _ _ _ _ S1 S2).
    - destruct (plan_loop sat (advance_fuel s2) tg s2 [] (d1 || d2) r) as [st3 s3 d3 sa3|] eqn:P; [|discriminate].
      inversion H; subst. pose proof (plan_loop_direct _ _ _ _ _ _ _ _ _ _ ND2 P) as S3.
      eapply calm_then_dir; [exact CM|]. exact (dir_trans _ _ _ _ (dir_trans _ _ _ _ S1 S2) S3).
  Qed.
End DirectDrive.
