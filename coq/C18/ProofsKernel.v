(** C18 — the planning kernel [next_step]: what an offered broadcast satisfies, that it is the
    single earliest-scheduled eligible one, and that stranded value is never hidden behind
    [Waiting]/[Complete]. *)
From V.Lib Require Import Base.
From V.C18 Require Import Model Spec ProofsDead.
From Coq Require Import ZifyBool.
Local Open Scope Z_scope.

Lemma min_first_in : forall A (lt : A -> A -> bool) l x, min_first lt l = Some x -> In x l.
Proof.
  intros A lt l. induction l as [|a l IH]; intros x H; simpl in H; [discriminate|].
  destruct (min_first lt l) as [y|] eqn:E.
  - destruct (lt y a); inversion H; subst; [right; apply IH; reflexivity | left; reflexivity].
  - inversion H. left. reflexivity.
Qed.

Lemma min_first_none : forall A (lt : A -> A -> bool) l, min_first lt l = None -> l = [].
Proof.
  intros A lt [|a l] H; [reflexivity|]. simpl in H. destruct (min_first lt l) as [y|]; [destruct (lt y a)|]; discriminate.
Qed.

(** [key_lt] is a strict total order on pairs *)
Lemma key_lt_trans : forall a b c, key_lt a b = true -> key_lt b c = true -> key_lt a c = true.
Proof. intros [a1 a2] [b1 b2] [c1 c2]. unfold key_lt. simpl. lia. Qed.
Lemma key_lt_total : forall a b, key_lt a b = false -> key_lt b a = false -> a = b.
Proof. intros [a1 a2] [b1 b2]. unfold key_lt. simpl. intros. f_equal; lia. Qed.
Lemma key_lt_irrefl : forall a, key_lt a a = false.
Proof. intros [a1 a2]. unfold key_lt. simpl. lia. Qed.

(** the element [min_first] returns is minimal: nothing in the list is strictly below it *)
Lemma min_first_minimal : forall l x, min_first sched_lt l = Some x ->
  forall y, In y l -> sched_lt y x = false.
Proof.
  induction l as [|a l IH]; intros x H y I; [destruct I|].
  simpl in H. destruct (min_first sched_lt l) as [m|] eqn:E.
  - specialize (IH m eq_refl). destruct (sched_lt m a) eqn:L; inversion H; subst.
    + destruct I as [<-|I]; [|apply IH; exact I].
      unfold sched_lt in *. destruct (key_lt (sched_key a) (sched_key x)) eqn:K; [|reflexivity].
      pose proof (key_lt_trans _ _ _ L K) as T. rewrite key_lt_irrefl in T. discriminate.
    + destruct I as [<-|I]; [unfold sched_lt; apply key_lt_irrefl|].
      specialize (IH y I). unfold sched_lt in *.
      destruct (key_lt (sched_key y) (sched_key x)) eqn:K; [|reflexivity].
      destruct (key_lt (sched_key y) (sched_key m)) eqn:K2; [discriminate|].
      destruct (key_lt (sched_key m) (sched_key y)) eqn:K3.
      * pose proof (key_lt_trans _ _ _ K3 K). congruence.
      * pose proof (key_lt_total _ _ K2 K3) as Q. rewrite Q in K. congruence.
  - apply min_first_none in E. subst. inversion H; subst. destruct I as [<-|[]]. unfold sched_lt. apply key_lt_irrefl.
Qed.

(* ---------------------------------------------------------------------------------------- *)

Lemma deps_mined_spec : forall txs deps, deps_mined txs deps = true <-> forall d, In d deps -> dep_mined txs d.
Proof.
  intros txs deps. unfold deps_mined, dep_mined. rewrite forallb_forall. split; intros H d I; specialize (H d I).
  - destruct (find_tx d txs) as [x|]; [exists x; tauto | discriminate].
  - destruct H as [x [-> M]]. exact M.
Qed.

Lemma is_proved_spec : forall t, is_proved t = true <-> t_state t = Proved.
Proof. intros t. unfold is_proved. destruct (t_state t); split; congruence. Qed.
Lemma is_signed_spec : forall t, is_signed t = true <-> t_state t = Signed.
Proof. intros t. unfold is_signed. destruct (t_state t); split; congruence. Qed.

Lemma next_broadcastable_spec : forall s tg dead sa id,
  next_broadcastable s tg dead sa = Some id ->
  exists t, In t (m_txs s) /\ t_id t = id /\ bcast_ok s tg dead sa t = true
    /\ forall u, In u (m_txs s) -> bcast_ok s tg dead sa u = true -> sched_lt u t = false.
Proof.
  intros s tg dead sa id H. unfold next_broadcastable in H.
  destruct (min_first sched_lt (filter (bcast_ok s tg dead sa) (m_txs s))) as [t|] eqn:E; [|discriminate].
  simpl in H. inversion H; subst. exists t.
  pose proof (min_first_in _ _ _ _ E) as I. apply filter_In in I. destruct I as [I B].
  repeat split; try assumption.
  intros u Iu Bu. apply (min_first_minimal _ _ E). apply filter_In. tauto.
Qed.

(** only the broadcast queue produces [SBroadcast] *)
Lemma next_step_broadcast_inv : forall s tg sa id, next_step s tg sa = SBroadcast id ->
  is_terminal s = false /\ next_broadcastable s tg (dead_set s tg) sa = Some id.
Proof.
  intros s tg sa id H. unfold next_step in H.
  destruct (is_terminal s); [discriminate|]. split; [reflexivity|].
  destruct (next_broadcastable s tg (dead_set s tg) sa) as [i|]; [inversion H; reflexivity|].
  destruct (replan_required s); [discriminate|].
  destruct (negb (is_nil (provable_targets s tg (dead_set s tg) sa))); [discriminate|].
  destruct (next_rebuildable s tg (dead_set s tg) sa); [discriminate|].
  destruct (_ && _ && _); [discriminate|]. destruct (_ && _); discriminate.
Qed.

Lemma bcast_ok_safe : forall s tg sa t, In t (m_txs s) -> bcast_ok s tg (dead_set s tg) sa t = true ->
  offer_safe s tg (t_id t) /\ mem (t_id t) sa = false.
Proof.
  intros s tg sa t I B. unfold bcast_ok in B.
  repeat (apply andb_true_iff in B; destruct B as [B ?]).
  rewrite negb_true_iff in *. split; [|assumption].
  exists t. split; [exact I|]. split; [reflexivity|]. split; [apply is_proved_spec; exact B|].
  split; [apply deps_mined_spec; assumption|]. split; [lia|].
  split; [intros E; apply is_expired_spec in E; congruence|].
  split; [destruct (t_fail t); [discriminate|reflexivity]|].
  intros D. apply dead_set_complete in D. congruence.
Qed.

(** [broadcast_offer_safe] at the kernel, for every state, targets and set-aside list *)
Theorem next_step_broadcast_safe : forall s tg sa id, next_step s tg sa = SBroadcast id ->
  is_terminal s = false /\ offer_safe s tg id /\ mem id sa = false.
Proof.
  intros s tg sa id H. apply next_step_broadcast_inv in H. destruct H as [T H].
  apply next_broadcastable_spec in H. destruct H as [t [I [<- [B _]]]].
  destruct (bcast_ok_safe s tg sa t I B). tauto.
Qed.

(** [one_at_a_time]: the step names one transaction, and it is the first in (scheduled height, id)
    order among ALL rows eligible for broadcast — every other eligible row waits for a later call. *)
Theorem next_step_one_at_a_time : forall s tg sa id, next_step s tg sa = SBroadcast id ->
  exists t, In t (m_txs s) /\ t_id t = id /\
    forall u, In u (m_txs s) -> bcast_ok s tg (dead_set s tg) sa u = true ->
      (t_sched t < t_sched u \/ (t_sched t = t_sched u /\ t_id t <= t_id u)).
Proof.
  intros s tg sa id H. apply next_step_broadcast_inv in H. destruct H as [_ H].
  apply next_broadcastable_spec in H. destruct H as [t [I [E [_ M]]]]. exists t. repeat split; try assumption.
  intros u Iu Bu. specialize (M u Iu Bu). unfold sched_lt, key_lt, sched_key in M. simpl in M. lia.
Qed.

(* ---------------------------------------------------------------------------------------- *)
(** stranded value *)

Lemma next_step_complete : forall s tg sa, next_step s tg sa = SComplete ->
  is_terminal s = true \/ (m_txs s <> [] /\ all_mined (m_txs s) = true).
Proof.
  intros s tg sa H. unfold next_step in H. destruct (is_terminal s); [left; reflexivity|]. right.
  destruct (next_broadcastable _ _ _ _); [discriminate|].
  destruct (replan_required s); [discriminate|].
  destruct (negb (is_nil (provable_targets _ _ _ _))); [discriminate|].
  destruct (next_rebuildable _ _ _ _); [discriminate|].
  destruct (_ && _ && _); [discriminate|].
  destruct (negb (is_nil (m_txs s)) && all_mined (m_txs s)) eqn:E; [|discriminate].
  apply andb_true_iff in E. destruct E as [E1 E2]. split; [|exact E2].
  destruct (m_txs s); [discriminate|congruence].
Qed.

Lemma forallb_false_ex : forall A (f : A -> bool) l, forallb f l = false -> exists x, In x l /\ f x = false.
Proof.
  intros A f l. induction l as [|a l IH]; simpl; [discriminate|].
  destruct (f a) eqn:E; simpl; intros H; [destruct (IH H) as [x [I F]]; exists x; tauto | exists a; tauto].
Qed.

(** [Waiting] (nothing set aside) always has a live unmined transaction behind it. *)
Theorem next_step_waiting_live : forall s tg, next_step s tg [] = SWaiting -> m_txs s <> [] ->
  exists t, In t (m_txs s) /\ unmined t /\ ~ Dead (m_txs s) (tg_scanned tg) (t_id t).
Proof.
  intros s tg H NE. unfold next_step in H. destruct (is_terminal s); [discriminate|].
  destruct (next_broadcastable _ _ _ _); [discriminate|].
  destruct (replan_required s); [discriminate|].
  destruct (negb (is_nil (provable_targets _ _ _ _))); [discriminate|].
  destruct (next_rebuildable _ _ _ _); [discriminate|].
  destruct (negb (is_nil (dead_set s tg)) && is_nil (@nil Z)
            && forallb (fun t => is_mined t || mem (t_id t) (dead_set s tg)) (m_txs s)) eqn:L; [discriminate|].
  destruct (negb (is_nil (m_txs s)) && all_mined (m_txs s)) eqn:C; [discriminate|].
  assert (NN : negb (is_nil (m_txs s)) = true) by (destruct (m_txs s); [congruence|reflexivity]).
  rewrite NN in C. simpl in C. simpl in L. rewrite andb_true_r in L.
  destruct (forallb (fun t => is_mined t || mem (t_id t) (dead_set s tg)) (m_txs s)) eqn:F.
  - (* every row mined or dead, so the dead set is empty: a non-mined row is not dead *)
    rewrite andb_true_r in L. apply negb_false_iff in L.
    apply forallb_false_ex in C. destruct C as [t [I M]].
    exists t. split; [exact I|]. split; [apply is_mined_unmined; exact M|].
    intros D. apply dead_set_complete in D. destruct (dead_set s tg); [discriminate|discriminate].
  - apply forallb_false_ex in F. destruct F as [t [I M]]. apply orb_false_iff in M. destruct M as [M1 M2].
    exists t. split; [exact I|]. split; [apply is_mined_unmined; exact M1|].
    intros D. apply dead_set_complete in D. congruence.
Qed.

(** value that can no longer move: not terminal, some row unmined, every unmined row dead *)
Definition stranded (s : mstate) (tg : targets) : Prop :=
  is_terminal s = false /\ (exists t, In t (m_txs s) /\ unmined t) /\
  forall t, In t (m_txs s) -> unmined t -> Dead (m_txs s) (tg_scanned tg) (t_id t).

Lemma filter_nil : forall A (f : A -> bool) l, (forall x, In x l -> f x = false) -> filter f l = [].
Proof.
  intros A f l. induction l as [|a l IH]; intros H; simpl; [reflexivity|].
  rewrite (H a (or_introl eq_refl)). apply IH. intros x I. apply H. right. exact I.
Qed.

(** A stranded migration always surfaces [Replan] (or the [Rebuild] of an expired transfer that a
    rebuild can still cure) — never [Waiting], [Complete], [Prove] or [Broadcast]. *)
Theorem next_step_stranded : forall s tg, stranded s tg ->
  next_step s tg [] = SReplan \/ exists id, next_step s tg [] = SRebuild id.
Proof.
  intros s tg [T [[t0 [I0 U0]] A]]. unfold next_step. rewrite T.
  assert (DD : forall t, In t (m_txs s) -> is_mined t = false -> mem (t_id t) (dead_set s tg) = true).
  { intros t I M. apply dead_set_complete, A; [exact I | apply is_mined_unmined; exact M]. }
  assert (B : next_broadcastable s tg (dead_set s tg) [] = None).
  { unfold next_broadcastable. rewrite filter_nil; [reflexivity|].
    intros t I. unfold bcast_ok. destruct (is_proved t) eqn:P; [|reflexivity].
    assert (M : is_mined t = false) by (apply is_proved_spec in P; unfold is_mined; rewrite P; reflexivity).
    rewrite (DD t I M). simpl. rewrite andb_false_r. reflexivity. }
  rewrite B. destruct (replan_required s); [left; reflexivity|].
  assert (P : provable_targets s tg (dead_set s tg) [] = []).
  { unfold provable_targets. rewrite filter_nil; [reflexivity|].
    intros t I. unfold prove_ok. destruct (is_signed t) eqn:S; [|reflexivity].
    assert (M : is_mined t = false) by (apply is_signed_spec in S; unfold is_mined; rewrite S; reflexivity).
    rewrite (DD t I M). reflexivity. }
  rewrite P. simpl. destruct (next_rebuildable s tg (dead_set s tg) []) as [id|]; [right; exists id; reflexivity|].
  left.
  assert (N : negb (is_nil (dead_set s tg)) = true).
  { apply is_mined_unmined in U0. specialize (DD t0 I0 U0). destruct (dead_set s tg); [discriminate|reflexivity]. }
  rewrite N. simpl.
  assert (F : forallb (fun t => is_mined t || mem (t_id t) (dead_set s tg)) (m_txs s) = true).
  { apply forallb_forall. intros t I. destruct (is_mined t) eqn:M; [reflexivity|]. simpl. apply DD; assumption. }
  rewrite F. reflexivity.
Qed.
