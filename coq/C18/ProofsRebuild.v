(** C18 — the rebuild of an expired transfer: the one event besides a rollback after which a row
    may stand earlier in the lifecycle than before.  It is stated as an explicit exception: the
    row then holds a NEW transaction (the code: "an entirely new transaction must be constructed
    and signed anew"; new txid) under the same transfer id.  This file says exactly which row may
    change, under which conditions, and into what. *)
From V.Lib Require Import Base.
From V.Gen Require Import C18Consts.
From V.C18 Require Import Model Spec ProofsDead ProofsKernel ProofsLife.
From Coq Require Import ZifyBool.
Local Open Scope Z_scope.

(** row relation of one rebuild of [id] judged at [target] *)
Definition rebuilt_rel (id target : Z) (a b : mtx) : Prop :=
  a = b
  \/ (t_id a = id /\ t_id b = id /\ unmined a /\ expired_at a target /\ is_transfer a = true
      /\ t_unsat a = None /\ t_kind b = t_kind a /\ t_deps b = t_deps a
      /\ (t_state b = Signed \/ t_state b = AwaitingSig)
      /\ target <= t_sched b /\ ~ expired_at b target).

Lemma update_first_found : forall id f txs t, find_tx id txs = Some t ->
  Forall2 (fun a b => a = b \/ (a = t /\ b = f t)) txs (update_first (has_id id) f txs).
Proof.
  intros id f txs t. unfold find_tx. induction txs as [|x l IH]; intros H; simpl in *; [discriminate|].
  unfold has_id at 1. destruct (t_id x =? id) eqn:E.
  - inversion H; subst. constructor; [right; tauto|]. clear. induction l; constructor; auto.
  - constructor; [left; reflexivity | apply IH; exact H].
Qed.

Lemma Forall2_impl : forall A B (R R' : A -> B -> Prop) l l', (forall a b, R a b -> R' a b) -> Forall2 R l l' -> Forall2 R' l l'.
Proof. intros A B R R' l l' H F. induction F; constructor; auto. Qed.

Lemma chain_base_ge : forall s target, target <= chain_base s target.
Proof.
  intros s target. unfold chain_base.
  assert (G : forall l m, target <= m -> target <= fold_left (fun m t =>
     if is_transfer t && negb (is_mined t) && negb (is_some (t_unsat t)) then Z.max m (t_sched t) else m) l m).
  { induction l as [|t l IH]; intros m H; simpl; [exact H|]. apply IH. destruct (_ && _ && _); lia. }
  apply G. lia.
Qed.

Lemma expiry_height_gt : forall h, h <= U32MAX -> h < expiry_height h \/ expiry_height h = U32MAX.
Proof.
  intros h H. unfold expiry_height, sat_add.
  assert (M : 0 <= h mod EXPIRY_MODULUS < EXPIRY_MODULUS) by (apply Z.mod_pos_bound; reflexivity).
  unfold EXPIRY_WINDOW, EXPIRY_MODULUS in *. lia.
Qed.

Theorem rebuild_exact : forall s id target grid_ok crypto_ok external delay anchor txid,
  0 <= delay -> target <= U32MAX ->
  Forall2 (rebuilt_rel id target) (m_txs s)
          (m_txs (fst (rebuild s id target grid_ok crypto_ok external delay anchor txid))).
Proof.
  intros s id target grid_ok crypto_ok external delay anchor txid D T. unfold rebuild.
  assert (R : Forall2 (rebuilt_rel id target) (m_txs s) (m_txs s)) by (induction (m_txs s); constructor; [left; reflexivity|assumption]).
  destruct (rebuild_guard s id target grid_ok) as [e|] eqn:G; [exact R|].
  destruct crypto_ok; [|exact R]. simpl.
  unfold rebuild_guard in G. destruct (negb grid_ok); [discriminate|].
  destruct (find_tx id (m_txs s)) as [t|] eqn:F; [|discriminate].
  destruct (negb (is_transfer t)) eqn:K; [discriminate|].
  destruct (is_some (t_unsat t) || existsb (dep_marked (m_txs s)) (t_deps t)) eqn:U; [discriminate|].
  destruct (negb (is_expired t target)) eqn:X; [discriminate|].
  apply negb_false_iff in K, X. apply orb_false_iff in U. destruct U as [U _].
  pose proof (update_first_found id (fun t => rebuilt_row t external (sat_add (chain_base s target) delay) anchor txid) _ _ F) as W.
  unfold rebuild_apply; rewrite ?txs_set_txs; cbn [m_txs set_txs fst].
  assert (Ft : t_id t = id) by (unfold find_tx in F; apply find_some in F; destruct F as [_ F]; apply Z.eqb_eq in F; exact F).
  pose proof (chain_base_ge s target) as CB.
  set (sched := sat_add (chain_base s target) delay) in *.
  assert (S1 : target <= sched) by (unfold sched, sat_add; lia).
  assert (S2 : sched <= U32MAX) by (unfold sched, sat_add; lia).
  eapply Forall2_impl; [|exact W]. intros a b [->|[-> ->]]; [left; reflexivity|]. right.
  apply is_expired_spec in X.
  split; [exact Ft|]. split; [exact Ft|]. split; [destruct X; assumption|]. split; [exact X|]. split; [exact K|].
  split; [destruct (t_unsat t); [discriminate|reflexivity]|]. split; [reflexivity|]. split; [reflexivity|].
  split; [simpl; destruct external; [right|left]; reflexivity|]. split; [exact S1|].
  intros [_ [_ E]]. simpl in E. destruct (expiry_height_gt sched S2); lia.
Qed.

(** with no side condition at all: a rebuild never touches a mined row, a marked row, or any
    row but the first one carrying the id *)
Lemma rebuild_keeps_mined : forall s id target grid_ok crypto_ok external delay anchor txid,
  Forall2 (fun a b => t_id a = t_id b /\ (is_mined a = true -> b = a))
          (m_txs s) (m_txs (fst (rebuild s id target grid_ok crypto_ok external delay anchor txid))).
Proof.
  intros s id target grid_ok crypto_ok external delay anchor txid. unfold rebuild.
  assert (R : Forall2 (fun a b => t_id a = t_id b /\ (is_mined a = true -> b = a)) (m_txs s) (m_txs s))
    by (induction (m_txs s); constructor; [tauto|assumption]).
  destruct (rebuild_guard s id target grid_ok) as [e|] eqn:G; [exact R|].
  destruct crypto_ok; [|exact R]. simpl.
  unfold rebuild_guard in G. destruct (negb grid_ok); [discriminate|].
  destruct (find_tx id (m_txs s)) as [t|] eqn:F; [|discriminate].
  destruct (negb (is_transfer t)); [discriminate|].
  destruct (is_some (t_unsat t) || existsb (dep_marked (m_txs s)) (t_deps t)); [discriminate|].
  destruct (negb (is_expired t target)) eqn:X; [discriminate|]. apply negb_false_iff in X.
  pose proof (update_first_found id (fun t => rebuilt_row t external (sat_add (chain_base s target) delay) anchor txid) _ _ F) as W.
  unfold rebuild_apply; rewrite ?txs_set_txs; cbn [m_txs set_txs fst].
  eapply Forall2_impl; [|exact W]. intros a b [->|[-> ->]]; [tauto|]. split; [reflexivity|].
  intros M. unfold is_expired in X. rewrite M in X. discriminate.
Qed.

Lemma rebuild_status : forall s id target grid_ok crypto_ok external delay anchor txid,
  m_status (fst (rebuild s id target grid_ok crypto_ok external delay anchor txid)) = m_status s.
Proof.
  intros. unfold rebuild. destruct (rebuild_guard _ _ _ _); [reflexivity|]. destruct crypto_ok; reflexivity.
Qed.

(** A successful rebuild is what [Rebuild] asks for: the kernel only offers a row that passes the
    state guards of the rebuild (grid permitting), so acting on the offer never fails for a reason
    the state could have shown. *)
Theorem rebuild_offer_passes_guards : forall s tg sa id, next_step s tg sa = SRebuild id ->
  NoDup (map t_id (m_txs s)) ->
  (forall x, In x (m_txs s) -> is_mined x = true -> t_unsat x = None) ->
  rebuild_guard s id (tg_scanned tg) true = None.
Proof.
  intros s tg sa id N ND MK. unfold next_step in N. destruct (is_terminal s); [discriminate|].
  destruct (next_broadcastable _ _ _ _); [discriminate|]. destruct (replan_required s); [discriminate|].
  destruct (negb (is_nil (provable_targets _ _ _ _))); [discriminate|].
  destruct (next_rebuildable s tg (dead_set s tg) sa) as [i|] eqn:R; [|destruct (_ && _ && _); [discriminate|destruct (_ && _); discriminate]].
  inversion N; subst i. unfold next_rebuildable in R.
  destruct (min_first _ _) as [t|] eqn:E; [|discriminate]. simpl in R. inversion R; subst id.
  apply min_first_in in E. apply filter_In in E. destruct E as [I K].
  unfold rebuild_ok in K. repeat (apply andb_true_iff in K; destruct K as [K ?]). rewrite negb_true_iff in *.
  unfold rebuild_guard. simpl.
  assert (F : find_tx (t_id t) (m_txs s) = Some t).
  { clear -ND I. unfold find_tx. induction (m_txs s) as [|a l IH]; [destruct I|]. simpl. inversion ND; subst.
    destruct I as [->|I]; [rewrite Z.eqb_refl; reflexivity|].
    destruct (t_id a =? t_id t) eqn:E; [|apply IH; assumption].
    apply Z.eqb_eq in E. exfalso. apply H1. rewrite E. apply in_map. exact I. }
  rewrite F, K, H2. simpl. destruct (t_unsat t) eqn:U; [discriminate|]. simpl.
  assert (DM : existsb (dep_marked (m_txs s)) (t_deps t) = false).
  { destruct (existsb (dep_marked (m_txs s)) (t_deps t)) eqn:Q; [|reflexivity]. exfalso.
    apply existsb_exists in Q. destruct Q as [d [Id Md]]. unfold dep_marked in Md. apply existsb_exists in Md.
    destruct Md as [x [Ix Px]]. apply andb_true_iff in Px. destruct Px as [P1 P2]. apply Z.eqb_eq in P1. apply is_some_spec in P2.
    assert (Mx : is_mined x = false) by (destruct (is_mined x) eqn:Mq; [exfalso; apply P2; apply MK; assumption | reflexivity]).
    assert (DD : mem d (dead_set s tg) = true) by (rewrite <- P1; apply dead_set_complete, Dead_seed; [exact Ix | apply is_mined_unmined; exact Mx | left; exact P2]).
    assert (EX : existsb (fun d => mem d (dead_set s tg)) (t_deps t) = true) by (apply existsb_exists; exists d; tauto).
    congruence. }
  rewrite DM. reflexivity.
Qed.
