(** C18 — the drive API [advance]: for every store oracle ([sat], [mined_at] arbitrary functions)
    the step it returns was decided by the kernel on the very state it returns, rows only move
    forward, and a terminal status is kept. *)
From V.Lib Require Import Base.
From V.C18 Require Import Model Spec ProofsDead ProofsKernel ProofsLife.
From Coq Require Import ZifyBool.
Local Open Scope Z_scope.

(** the returned step comes from the kernel, evaluated on the returned state *)
Definition from_kernel (s : mstate) (tg : targets) (st : step) : Prop :=
  match st with
  | SProve l' => exists sa l, next_step s tg sa = SProve l /\ incl l' l
  | SWaiting | SReevaluate => True
  | _ => exists sa, next_step s tg sa = st
  end.

Lemma from_kernel_exact : forall s tg sa, from_kernel s tg (next_step s tg sa).
Proof.
  intros s tg sa. unfold from_kernel. destruct (next_step s tg sa) eqn:E; try exact I; try (exists sa; exact E).
  exists sa, l. split; [exact E | apply incl_refl].
Qed.

Section Drive.
  Variable sat : mtx -> answer.
  Variable mined_at : Z -> option Z.

  Lemma fold_monotone : forall A (f : mstate -> A -> mstate),
    (forall s p, monotone (m_txs s) (m_txs (f s p))) ->
    forall l s, monotone (m_txs s) (m_txs (fold_left f l s)).
  Proof.
    intros A f H l. induction l as [|p l IH]; intros s; simpl; [apply monotone_refl|].
    eapply monotone_trans; [apply H | apply IH].
  Qed.

  Lemma fold_same : forall A (f : mstate -> A -> mstate),
    (forall s p, same (m_txs s) (m_txs (f s p))) ->
    forall l s, same (m_txs s) (m_txs (fold_left f l s)).
  Proof.
    intros A f H l. induction l as [|p l IH]; intros s; simpl; [apply same_refl|].
    eapply same_trans; [apply H | apply IH].
  Qed.

  Lemma fold_status : forall A (f : mstate -> A -> mstate),
    (forall p, keeps_terminal (fun s => f s p)) ->
    forall l, keeps_terminal (fun s => fold_left f l s).
  Proof.
    intros A f H l. induction l as [|p l IH]; intros s T; simpl; [reflexivity|].
    rewrite IH; [apply H; exact T|]. unfold is_terminal in *. rewrite (H p s T). exact T.
  Qed.

  Lemma sweep_monotone : forall s tg, monotone (m_txs s) (m_txs (fst (sweep sat mined_at s tg))).
  Proof.
    intros s tg. unfold sweep. destruct (fold_left _ _ _) as [[unrec mn] fnd]. simpl.
    eapply monotone_trans; [apply fold_monotone with (l := unrec); intros; apply promote_monotone|].
    eapply monotone_trans; [apply fold_monotone with (l := mn); intros; apply mark_mined_monotone|].
    destruct (is_nil fnd); [apply monotone_refl | apply same_monotone, record_sat_same].
  Qed.

  Lemma sweep_status : forall tg, keeps_terminal (fun s => fst (sweep sat mined_at s tg)).
  Proof.
    intros tg s T. unfold sweep. destruct (fold_left _ _ _) as [[unrec mn] fnd]. simpl.
    set (s1 := fold_left _ unrec s). set (s2 := fold_left _ mn s1).
    assert (E1 : m_status s1 = m_status s).
    { apply (fold_status _ (fun s p => mark_mined (mark_broadcast s (fst p)) (fst p) (snd p))); [|exact T].
      intros p x Tx. rewrite mark_mined_status; [apply mark_broadcast_status; exact Tx|].
      unfold is_terminal in *. rewrite (mark_broadcast_status (fst p) x Tx). exact Tx. }
    assert (T1 : is_terminal s1 = true) by (unfold is_terminal in *; rewrite E1; exact T).
    assert (E2 : m_status s2 = m_status s1).
    { apply (fold_status _ (fun s p => mark_mined s (fst p) (snd p))); [|exact T1]. intros p. apply mark_mined_status. }
    destruct (is_nil fnd); [congruence | rewrite record_sat_status; congruence].
  Qed.

  Lemma adjudicate_same : forall s tg, same (m_txs s) (m_txs (fst (fst (adjudicate sat s tg)))).
  Proof.
    intros s tg. unfold adjudicate. destruct (is_terminal s); [apply same_refl|].
    destruct (fold_left _ _ _) as [[adj vd] pend]. simpl.
    eapply same_trans; [|apply fold_same; intros; apply clear_failure_same].
    destruct (is_nil vd); [apply same_refl | apply record_sat_same].
  Qed.

  Lemma adjudicate_status : forall s tg, m_status (fst (fst (adjudicate sat s tg))) = m_status s.
  Proof.
    intros s tg. unfold adjudicate. destruct (is_terminal s); [reflexivity|].
    destruct (fold_left _ _ _) as [[adj vd] pend]. simpl.
    set (s1 := if is_nil vd then s else _).
    assert (E : m_status s1 = m_status s) by (subst s1; destruct (is_nil vd); reflexivity).
    rewrite <- E. generalize s1. induction adj as [|a adj IH]; intros x; simpl; [reflexivity|].
    rewrite IH. reflexivity.
  Qed.

  Lemma candidates_none : forall st, candidates st = None ->
    st = SReplan \/ st = SReevaluate \/ st = SWaiting \/ st = SComplete.
  Proof. intros [] H; simpl in H; try discriminate; tauto. Qed.

  (** the plan/verify/record loop *)
  Lemma plan_loop_spec : forall fuel tg s sa dirty r st s' d' sa',
    plan_loop sat fuel tg s sa dirty r = PDone st s' d' sa' ->
    same (m_txs s) (m_txs s') /\ m_status s' = m_status s /\ from_kernel s' tg st.
  Proof.
    induction fuel as [|f IH]; intros tg s sa dirty r st s' d' sa' H; [discriminate|].
    cbn [plan_loop] in H.
    destruct (candidates (next_step s tg sa)) as [cands|] eqn:C.
    2:{ inversion H; subst. split; [apply same_refl|]. split; [reflexivity|]. apply from_kernel_exact. }
    destruct (all_some _) as [rows|] eqn:A.
    2:{ inversion H; subst. split; [apply same_refl|]. split; [reflexivity|]. exact I. }
    destruct (overdue_shift (next_step s tg sa) rows s tg) as [delta|] eqn:O.
    { pose proof (shift_same s delta r) as SS. pose proof (shift_status s delta r) as ST.
      destruct (shift_schedule s delta r) as [s1 r1]. simpl in SS, ST.
      apply IH in H. destruct H as [H1 [H2 H3]]. split; [eapply same_trans; eassumption|]. split; [congruence | exact H3]. }
    destruct (verify sat rows) as [[kept dfr] disc].
    destruct (negb (is_nil disc)).
    { apply IH in H. destruct H as [H1 [H2 H3]].
      split; [eapply same_trans; [apply record_sat_same | exact H1]|]. split; [rewrite H2; apply record_sat_status | exact H3]. }
    destruct (is_nil dfr).
    { inversion H; subst. split; [apply same_refl|]. split; [reflexivity|]. apply from_kernel_exact. }
    destruct (next_step s tg sa) eqn:N; try (apply IH in H; exact H).
    destruct (negb (is_nil kept)); [|apply IH in H; exact H].
    inversion H; subst. split; [apply same_refl|]. split; [reflexivity|].
    exists sa, l. split; [exact N|]. intros x Hx. apply filter_In in Hx. tauto.
  Qed.

  (** * The drive call as a whole *)
  Theorem advance_spec : forall s tg r st s' dirty,
    advance sat mined_at s tg r = ARes st s' dirty ->
    monotone (m_txs s) (m_txs s')
    /\ (is_terminal s = true -> m_status s' = m_status s)
    /\ from_kernel s' tg st.
  Proof.
    intros s tg r st s' dirty H. unfold advance in H.
    pose proof (sweep_monotone s tg) as M1. pose proof (sweep_status tg s) as T1. cbv beta in T1.
    destruct (sweep sat mined_at s tg) as [s1 d1]. simpl in M1, T1.
    pose proof (adjudicate_same s1 tg) as M2. pose proof (adjudicate_status s1 tg) as T2.
    destruct (adjudicate sat s1 tg) as [[s2 d2] pending]. simpl in M2, T2.
    destruct pending.
    - inversion H; subst. split; [eapply monotone_trans; [exact M1 | apply same_monotone; exact M2]|].
      split; [intros T; rewrite T2; apply T1; exact T | exact I].
    - destruct (plan_loop sat (advance_fuel s2) tg s2 [] (d1 || d2) r) as [st3 s3 d3 sa3|] eqn:P; [|discriminate].
      inversion H; subst. apply plan_loop_spec in P. destruct P as [P1 [P2 P3]].
      split; [eapply monotone_trans; [exact M1 | apply same_monotone; eapply same_trans; eassumption]|].
      split; [intros T; rewrite P2, T2; apply T1; exact T | exact P3].
  Qed.

  (** [broadcast_offer_safe]: every broadcast the drive API offers — for every state, every
      targets pair, every store oracle — is safe on the state it returns. *)
  Theorem advance_broadcast_safe : forall s tg r id s' dirty,
    advance sat mined_at s tg r = ARes (SBroadcast id) s' dirty ->
    is_terminal s' = false /\ offer_safe s' tg id.
  Proof.
    intros s tg r id s' dirty H. apply advance_spec in H. destruct H as [_ [_ [sa K]]].
    apply next_step_broadcast_safe in K. tauto.
  Qed.

  Theorem advance_one_at_a_time : forall s tg r id s' dirty,
    advance sat mined_at s tg r = ARes (SBroadcast id) s' dirty ->
    exists sa t, In t (m_txs s') /\ t_id t = id /\
      forall u, In u (m_txs s') -> bcast_ok s' tg (dead_set s' tg) sa u = true ->
        (t_sched t < t_sched u \/ (t_sched t = t_sched u /\ t_id t <= t_id u)).
  Proof.
    intros s tg r id s' dirty H. apply advance_spec in H. destruct H as [_ [_ [sa K]]].
    exists sa. apply next_step_one_at_a_time. exact K.
  Qed.

  Theorem advance_complete : forall s tg r s' dirty,
    advance sat mined_at s tg r = ARes SComplete s' dirty ->
    is_terminal s' = true \/ (m_txs s' <> [] /\ all_mined (m_txs s') = true).
  Proof.
    intros s tg r s' dirty H. apply advance_spec in H. destruct H as [_ [_ [sa K]]].
    eapply next_step_complete. exact K.
  Qed.

  (** what a [Prove] offer names is pre-signed, unproved, not dead *)
  Lemma insert_by_in : forall A (lt : A -> A -> bool) x l y, In y (insert_by lt x l) <-> y = x \/ In y l.
  Proof.
    intros A lt x l y. induction l as [|a l IH]; simpl; [intuition congruence|].
    destruct (lt x a); simpl; [intuition congruence|]. rewrite IH. intuition congruence.
  Qed.
  Lemma sort_by_in : forall A (lt : A -> A -> bool) l y, In y (sort_by lt l) <-> In y l.
  Proof.
    intros A lt l y. unfold sort_by. induction l as [|a l IH]; simpl; [tauto|].
    rewrite insert_by_in, IH. intuition congruence.
  Qed.

  Lemma next_step_prove_inv : forall s tg sa l, next_step s tg sa = SProve l ->
    l = provable_targets s tg (dead_set s tg) sa.
  Proof.
    intros s tg sa l H. unfold next_step in H. destruct (is_terminal s); [discriminate|].
    destruct (next_broadcastable _ _ _ _); [discriminate|]. destruct (replan_required s); [discriminate|].
    destruct (negb (is_nil (provable_targets s tg (dead_set s tg) sa))); [inversion H; reflexivity|].
    destruct (next_rebuildable _ _ _ _); [discriminate|]. destruct (_ && _ && _); [discriminate|].
    destruct (_ && _); discriminate.
  Qed.

  Theorem advance_prove_offer : forall s tg r l s' dirty,
    advance sat mined_at s tg r = ARes (SProve l) s' dirty ->
    forall id k, In (id, k) l ->
      exists t, In t (m_txs s') /\ t_id t = id /\ t_kind t = k /\ t_state t = Signed
        /\ ~ Dead (m_txs s') (tg_scanned tg) id.
  Proof.
    intros s tg r l s' dirty H id k I. apply advance_spec in H. destruct H as [_ [_ [sa [l0 [K Inc]]]]].
    apply next_step_prove_inv in K. subst l0. apply Inc in I. unfold provable_targets in I.
    apply in_map_iff in I. destruct I as [t [E I]]. inversion E; subst.
    apply sort_by_in in I. apply filter_In in I. destruct I as [I P]. exists t.
    unfold prove_ok in P. repeat (apply andb_true_iff in P; destruct P as [P ?]).
    repeat split; try assumption; try reflexivity; [apply is_signed_spec; exact P|].
    intros D. apply dead_set_complete in D. rewrite negb_true_iff in *. congruence.
  Qed.
End Drive.
