(** C18 — event sequences. Events carry their oracles as arbitrary functions, so the theorems
    quantify over every store answer; [gstep] is [None] only when the drive loop's fuel runs out
    (termination of the loop is not proved). *)
From V.Lib Require Import Base.
From V.C18 Require Import Model Spec ProofsDead ProofsKernel ProofsLife ProofsDrive ProofsRebuild.
From Coq Require Import ZifyBool.
Local Open Scope Z_scope.

Inductive gevent :=
| GStoreProof (id : Z)
| GApplySig (id : Z)
| GAdvance (sat : mtx -> answer) (mined_at : Z -> option Z) (tg : targets) (r : rng)
| GRecordBroadcast (id : Z)
| GMarkMined (id h : Z)
| GRollback (h : Z)
| GReportFailure (id tip : Z)
| GRecordSat (tg : targets) (dets : list (Z * answer))
| GRebuild (id target : Z) (grid_ok crypto_ok external : bool) (delay anchor txid : Z)
| GCancel | GSupersede | GRecompute.

Definition gstep (s : mstate) (e : gevent) : option mstate :=
  match e with
  | GStoreProof id => Some (set_transaction_proved s id)
  | GApplySig id => Some (fst (apply_signature s id))
  | GAdvance sat mined_at tg r =>
    match advance sat mined_at s tg r with ARes _ s' _ => Some s' | AOutOfFuel => None end
  | GRecordBroadcast id => Some (mark_broadcast s id)
  | GMarkMined id h => Some (mark_mined s id h)
  | GRollback h => Some (truncate_to_height s h)
  | GReportFailure id tip => Some (report_broadcast_failure s id tip)
  | GRecordSat tg dets => Some (record_satisfiability s tg dets)
  | GRebuild id target g c e delay anchor txid => Some (fst (rebuild s id target g c e delay anchor txid))
  | GCancel => Some (mark_cancelled s)
  | GSupersede => Some (mark_superseded s)
  | GRecompute => Some (recompute_status s)
  end.

Fixpoint grun (s : mstate) (es : list gevent) : option mstate :=
  match es with
  | [] => Some s
  | e :: r => match gstep s e with Some s' => grun s' r | None => None end
  end.

Definition is_rollback (e : gevent) : Prop := match e with GRollback _ => True | _ => False end.
Definition is_rebuild (e : gevent) : Prop := match e with GRebuild _ _ _ _ _ _ _ _ => True | _ => False end.

Lemma cancel_txs : forall s, m_txs (mark_cancelled s) = m_txs s.
Proof. intros s. unfold mark_cancelled. destruct (is_terminal s); reflexivity. Qed.
Lemma supersede_txs : forall s, m_txs (mark_superseded s) = m_txs s.
Proof. intros s. unfold mark_superseded. destruct (is_terminal s); reflexivity. Qed.

(** one event — whatever is recorded, for whichever row *)
Theorem step_lifecycle : forall s e s', gstep s e = Some s' ->
  match e with
  | GRollback h => rows (fun a b => b = unmine h a) (m_txs s) (m_txs s')
  | GRebuild id target _ _ _ delay _ _ =>
    0 <= delay -> target <= U32MAX -> Forall2 (rebuilt_rel id target) (m_txs s) (m_txs s')
  | _ => monotone (m_txs s) (m_txs s')
  end.
Proof.
  intros s e s' H. destruct e; simpl in H; try (injection H as <-).
  - apply store_proof_monotone.
  - apply apply_signature_monotone.
  - destruct (advance sat mined_at s tg r) as [st s1 d|] eqn:A; [|discriminate]. inversion H; subst.
    apply advance_spec in A. tauto.
  - apply mark_broadcast_monotone.
  - apply mark_mined_monotone.
  - apply rollback_exact.
  - apply same_monotone, report_failure_same.
  - apply same_monotone, record_sat_same.
  - intros D T. apply rebuild_exact; assumption.
  - rewrite cancel_txs. apply monotone_refl.
  - rewrite supersede_txs. apply monotone_refl.
  - rewrite txs_recompute. apply monotone_refl.
Qed.

(** every event sequence free of the two exceptions (rollback, rebuild) *)
Theorem lifecycle_monotone : forall es s s',
  Forall (fun e => ~ is_rollback e /\ ~ is_rebuild e) es -> grun s es = Some s' ->
  monotone (m_txs s) (m_txs s').
Proof.
  induction es as [|e es IH]; intros s s' F H; simpl in H.
  - inversion H; subst. apply monotone_refl.
  - destruct (gstep s e) as [s1|] eqn:G; [|discriminate].
    inversion F; subst. pose proof (step_lifecycle s e s1 G) as L.
    eapply monotone_trans; [|apply IH; eassumption].
    destruct H2 as [R1 R2]. destruct e; try exact L; exfalso; [apply R1 | apply R2]; exact I.
Qed.

(** every event sequence, rollbacks included: rows keep place and id, and the only way a row
    ends below its starting rank is from [Mined] down to [Bcast] or later (un-mined by a rollback) *)
Definition fwd_or_unmined (a b : txstate) : Prop := Z.min (rank a) 3 <= rank b.

Lemma unmine_rank : forall h a, Z.min (rank a) 3 <= rank (unmine h a).
Proof. intros h a. destruct a; simpl; try lia. destruct (h <? h0); simpl; lia. Qed.

Lemma monotone_fwdu : forall a b, monotone a b -> rows fwd_or_unmined a b.
Proof.
  intros a b M. induction M as [|x y l l' [E R] _ IHM]; constructor; [|exact IHM].
  split; [exact E|]. unfold fwd_or_unmined, fwd in *. lia.
Qed.
Lemma unmine_fwdu : forall h a b, rows (fun x y => y = unmine h x) a b -> rows fwd_or_unmined a b.
Proof.
  intros h a b L. induction L as [|x y l l' [E R] _ IHL]; constructor; [|exact IHL].
  split; [exact E|]. unfold fwd_or_unmined. rewrite R. apply unmine_rank.
Qed.

Theorem lifecycle_any_sequence : forall es s s', Forall (fun e => ~ is_rebuild e) es -> grun s es = Some s' ->
  rows fwd_or_unmined (m_txs s) (m_txs s').
Proof.
  induction es as [|e es IH]; intros s s' NR H; simpl in H.
  - inversion H; subst. apply rows_refl. intros x. unfold fwd_or_unmined. lia.
  - destruct (gstep s e) as [s1|] eqn:G; [|discriminate].
    inversion NR; subst.
    pose proof (step_lifecycle s e s1 G) as L. specialize (IH s1 s' H3 H).
    assert (L' : rows fwd_or_unmined (m_txs s) (m_txs s1)).
    { destruct e; try (apply monotone_fwdu; exact L); [eapply unmine_fwdu; exact L | exfalso; apply H2; exact I]. }
    eapply rows_trans; [|exact L'|exact IH]. intros x y z. unfold fwd_or_unmined. lia.
Qed.

(* ---------------------------------------------------------------------------------------- *)
(** terminal statuses *)

Lemma step_status : forall s e s', gstep s e = Some s' -> is_terminal s = true ->
  m_status s' = m_status s
  \/ (exists h, e = GRollback h) /\ m_status s = Complete /\ m_status s' = InProgress
     /\ exists t, In t (m_txs s') /\ is_mined t = false.
Proof.
  intros s e s' H T. destruct e; simpl in H; try (injection H as <-); try (left; reflexivity).
  - left. unfold apply_signature. destruct (existsb _ _); reflexivity.
  - destruct (advance sat mined_at s tg r) as [st s1 d|] eqn:A; [|discriminate]. inversion H; subst.
    apply advance_spec in A. left. apply A. exact T.
  - left. apply mark_broadcast_status. exact T.
  - left. apply mark_mined_status. exact T.
  - destruct (truncate_status s h) as [E|[E1 [E2 E3]]]; [left; exact E|]. right. split; [exists h; reflexivity|]. tauto.
  - left. apply rebuild_status.
  - left. unfold mark_cancelled. rewrite T. reflexivity.
  - left. unfold mark_superseded. rewrite T. reflexivity.
  - left. rewrite recompute_terminal; [reflexivity|exact T].
Qed.

Definition policy_terminal_status (st : status) : Prop := st = Failed \/ st = Superseded \/ st = Cancelled.

(** [terminal_sticky]: over ANY event sequence (rollbacks included) a policy determination is
    never left ... *)
Theorem terminal_sticky_policy : forall es s s', policy_terminal_status (m_status s) ->
  grun s es = Some s' -> m_status s' = m_status s.
Proof.
  induction es as [|e es IH]; intros s s' P H; simpl in H; [inversion H; reflexivity|].
  destruct (gstep s e) as [s1|] eqn:G; [|discriminate].
  assert (T : is_terminal s = true) by (unfold is_terminal; destruct P as [->|[->| ->]]; reflexivity).
  destruct (step_status s e s1 G T) as [E|[_ [E _]]].
  - rewrite <- E. apply IH; [rewrite E; exact P | exact H].
  - destruct P as [P|[P|P]]; congruence.
Qed.

(** ... and the chain-derived [Complete] is left only by a rollback. *)
Theorem terminal_sticky_complete : forall es s s', m_status s = Complete ->
  Forall (fun e => ~ is_rollback e) es -> grun s es = Some s' -> m_status s' = Complete.
Proof.
  induction es as [|e es IH]; intros s s' P F H; simpl in H; [inversion H; subst; exact P|].
  destruct (gstep s e) as [s1|] eqn:G; [|discriminate]. inversion F; subst.
  assert (T : is_terminal s = true) by (unfold is_terminal; rewrite P; reflexivity).
  destruct (step_status s e s1 G T) as [E|[[h ->] _]].
  - apply (IH s1); [congruence | assumption | exact H].
  - exfalso. apply H2. exact I.
Qed.

(** Only a rollback un-mines: over every rollback-free event sequence (rebuilds included) a
    mined row stays a mined row, so a fully mined migration stays fully mined and a [Complete]
    status never comes to sit on an unmined row. *)
Definition mined_kept (a b : mtx) : Prop := t_id a = t_id b /\ (is_mined a = true -> is_mined b = true).

Lemma mined_kept_trans : forall x y z, Forall2 mined_kept x y -> Forall2 mined_kept y z -> Forall2 mined_kept x z.
Proof.
  intros x y z H1. revert z. induction H1 as [|a b l l' [E M] _ IH]; intros z H2; inversion H2 as [|b' c l2 l3 [E2 M2] H4]; subst; constructor.
  - split; [congruence | auto].
  - apply IH. assumption.
Qed.

Lemma monotone_mined_kept : forall a b, monotone a b -> Forall2 mined_kept a b.
Proof.
  intros a b M. induction M as [|x y l l' [E R] _ IH]; constructor; [|exact IH]. split; [exact E|].
  unfold is_mined, fwd in *. destruct (t_state x); try discriminate. destruct (t_state y); simpl in R; try lia; reflexivity.
Qed.

Theorem mined_stays_mined : forall es s s', Forall (fun e => ~ is_rollback e) es -> grun s es = Some s' ->
  Forall2 mined_kept (m_txs s) (m_txs s').
Proof.
  induction es as [|e es IH]; intros s s' F H; simpl in H.
  - inversion H; subst. induction (m_txs s'); constructor; [split; tauto | assumption].
  - destruct (gstep s e) as [s1|] eqn:G; [|discriminate]. inversion F; subst.
    eapply mined_kept_trans; [|apply IH; eassumption].
    pose proof (step_lifecycle s e s1 G) as L.
    destruct e; try (apply monotone_mined_kept; exact L); [exfalso; apply H2; exact I|].
    simpl in G. inversion G; subst.
    pose proof (rebuild_keeps_mined s id target grid_ok crypto_ok external delay anchor txid) as K.
    clear -K. induction K as [|a b l l' [E M] _ IHK]; constructor; [|exact IHK]. split; [exact E|].
    intros Ma. rewrite (M Ma). exact Ma.
Qed.

Theorem complete_stays_all_mined : forall es s s', all_mined (m_txs s) = true ->
  Forall (fun e => ~ is_rollback e) es -> grun s es = Some s' -> all_mined (m_txs s') = true.
Proof.
  intros es s s' A F H. pose proof (mined_stays_mined es s s' F H) as K. revert A. unfold all_mined.
  induction K as [|a b l l' [E M] _ IH]; simpl; [tauto|]. intros X. apply andb_true_iff in X. destruct X as [X1 X2].
  rewrite (M X1), (IH X2). reflexivity.
Qed.

(** ids stay unique (rows keep their ids) *)
Lemma rows_ids : forall (R : txstate -> txstate -> Prop) a b, rows R a b -> map t_id a = map t_id b.
Proof. intros R a b H. induction H as [|x y l l' [E _] _ IH]; simpl; [reflexivity | rewrite E, IH; reflexivity]. Qed.
