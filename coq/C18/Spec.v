(** C18 — the property, stated independently of the model's algorithms.

    Only the data types and the trivial accessors of Model.v are reused ([is_mined], [find_tx],
    [mem]); the dead set is specified inductively ([Dead]) and computed here by a different
    procedure than the code's (a fixed number of monotone rounds, no early exit). *)
From V.Lib Require Import Base.
From V.C18 Require Import Model.
Local Open Scope Z_scope.

(** lifecycle rank *)
Definition rank (st : txstate) : Z :=
  match st with AwaitingSig => 0 | Signed => 1 | Proved => 2 | Bcast => 3 | Mined _ => 4 end.

Definition unmined (t : mtx) : Prop := forall h, t_state t <> Mined h.
Definition expired_at (t : mtx) (target : Z) : Prop :=
  unmined t /\ t_expiry t <> 0 /\ t_expiry t < target.

(** A transaction id is DEAD at the scanned target: some unmined row with this id is marked
    unsatisfiable or expired, or some unmined row with this id depends on a dead id. *)
Inductive Dead (txs : list mtx) (scanned : Z) : Z -> Prop :=
| Dead_seed t : In t txs -> unmined t -> (t_unsat t <> None \/ expired_at t scanned) -> Dead txs scanned (t_id t)
| Dead_dep t d : In t txs -> unmined t -> In d (t_deps t) -> Dead txs scanned d -> Dead txs scanned (t_id t).

Definition dep_mined (txs : list mtx) (d : Z) : Prop :=
  exists x, find_tx d txs = Some x /\ is_mined x = true.

(** What it means for an offered broadcast to be safe. *)
Definition offer_safe (s : mstate) (tg : targets) (id : Z) : Prop :=
  exists t, In t (m_txs s) /\ t_id t = id /\ t_state t = Proved
    /\ (forall d, In d (t_deps t) -> dep_mined (m_txs s) d)
    /\ t_sched t <= tg_eff tg
    /\ ~ expired_at t (tg_eff tg)
    /\ t_fail t = None
    /\ ~ Dead (m_txs s) (tg_scanned tg) id.

(* ------------------------------------------------------------------------------------------ *)
(** boolean checkers, evaluated on the implementation's observed outcome *)

Definition sp_unmined (t : mtx) : bool := negb (is_mined t).
Definition sp_expired (t : mtx) (target : Z) : bool :=
  sp_unmined t && negb (t_expiry t =? 0) && (t_expiry t <? target).
Definition sp_seed (scanned : Z) (t : mtx) : bool :=
  sp_unmined t && (is_some (t_unsat t) || sp_expired t scanned).
Definition sp_round (txs : list mtx) (d : list Z) : list Z :=
  d ++ map t_id (filter (fun t => sp_unmined t && existsb (fun x => mem x d) (t_deps t)) txs).
Definition sp_dead (txs : list mtx) (scanned : Z) : list Z :=
  Nat.iter (length txs) (sp_round txs) (map t_id (filter (sp_seed scanned) txs)).

Definition offer_safe_b (s : mstate) (tg : targets) (id : Z) : bool :=
  existsb (fun t =>
    (t_id t =? id) && is_proved t
    && forallb (fun d => match find_tx d (m_txs s) with Some x => is_mined x | None => false end) (t_deps t)
    && (t_sched t <=? tg_eff tg) && negb (sp_expired t (tg_eff tg)) && negb (is_some (t_fail t))
    && negb (mem id (sp_dead (m_txs s) (tg_scanned tg)))) (m_txs s).

Fixpoint forall2b {A} (f : A -> A -> bool) (x y : list A) : bool :=
  match x, y with
  | [], [] => true
  | a :: x', b :: y' => f a b && forall2b f x' y'
  | _, _ => false
  end.

Definition txstate_eqb (a b : txstate) : bool :=
  match a, b with
  | AwaitingSig, AwaitingSig | Signed, Signed | Proved, Proved | Bcast, Bcast => true
  | Mined x, Mined y => x =? y
  | _, _ => false
  end.

(** rows keep their position and id; no row's rank decreases *)
Definition monotone_b (pre post : list mtx) : bool :=
  forall2b (fun a b => (t_id a =? t_id b) && (rank (t_state a) <=? rank (t_state b))) pre post.

(** a rollback to [h] demotes exactly the rows mined above [h], to [Bcast] *)
Definition unmine (h : Z) (st : txstate) : txstate :=
  match st with Mined mh => if h <? mh then Bcast else Mined mh | x => x end.
Definition rollback_exact_b (h : Z) (pre post : list mtx) : bool :=
  forall2b (fun a b => (t_id a =? t_id b) && txstate_eqb (t_state b) (unmine h (t_state a))) pre post.

Definition status_eqb (a b : status) : bool :=
  match a, b with
  | Planning, Planning | Committed, Committed | InProgress, InProgress | Complete, Complete
  | Failed, Failed | Superseded, Superseded | Cancelled, Cancelled => true
  | _, _ => false
  end.
Definition policy_terminal (s : status) : bool :=
  match s with Failed | Superseded | Cancelled => true | _ => false end.

(** terminal statuses are never left; [rollback] says whether the event was a chain rollback, the
    one event that may revoke the chain-derived [Complete] — and then only to [InProgress], and
    only when some transaction is left unmined. *)
Definition terminal_sticky_b (rollback : bool) (pre post : mstate) : bool :=
  if is_terminal_status (m_status pre) then
    status_eqb (m_status pre) (m_status post)
    || (rollback && status_eqb (m_status pre) Complete && status_eqb (m_status post) InProgress
        && existsb sp_unmined (m_txs post))
  else true.

Definition live_unmined_b (s : mstate) (tg : targets) : bool :=
  let dead := sp_dead (m_txs s) (tg_scanned tg) in
  existsb (fun t => sp_unmined t && negb (mem (t_id t) dead)) (m_txs s).
Definition stranded_b (s : mstate) (tg : targets) : bool :=
  negb (is_terminal s) && existsb sp_unmined (m_txs s) && negb (live_unmined_b s tg).

(** The step returned for state [s] never hides stranded value. [deferred] says whether the store
    answered "not yet" to anything this call (then [Waiting] is the honest report). *)
Definition no_strand_b (s : mstate) (tg : targets) (deferred : bool) (st : step) : bool :=
  match st with
  | SWaiting => is_nil (m_txs s) || deferred || live_unmined_b s tg
  | SComplete => is_terminal s || (negb (is_nil (m_txs s)) && forallb is_mined (m_txs s))
  | _ => true
  end
  && (if stranded_b s tg && negb deferred
      then match st with SReplan | SRebuild _ | SReevaluate => true | _ => false end
      else true).
