(** C18 — the status view [transaction_statuses]: no unmined row is reported silently, every
    reported reason is true of the row, and "ready" agrees with the kernel's queues (so a row
    reported ready to broadcast is one the drive API may safely offer). *)
From V.Lib Require Import Base.
From V.Gen Require Import C18Consts.
From V.C18 Require Import Model Spec ProofsDead ProofsKernel ProofsLife ProofsTerm.
From Coq Require Import ZifyBool.
Local Open Scope Z_scope.

(** for an unmined row of a state with unique ids: "not in the dead set" is exactly "unmarked, not
    expired at the scanned target, and no dead dependency" *)
Lemma not_dead_iff : forall s tg t, NoDup (map t_id (m_txs s)) -> In t (m_txs s) -> is_mined t = false ->
  (mem (t_id t) (dead_set s tg) = false <->
   t_unsat t = None /\ is_expired t (tg_scanned tg) = false
   /\ existsb (fun d => mem d (dead_set s tg)) (t_deps t) = false).
Proof.
  intros s tg t ND I M. split.
  - intros H. split; [|split].
    + destruct (t_unsat t) eqn:U; [|reflexivity]. exfalso.
      assert (X : mem (t_id t) (dead_set s tg) = true) by (apply seed_in_dead; [exact I|exact M|congruence]). congruence.
    + destruct (is_expired t (tg_scanned tg)) eqn:E; [|reflexivity]. exfalso.
      assert (X : mem (t_id t) (dead_set s tg) = true).
      { apply dead_set_complete. apply Dead_seed; [exact I | apply is_mined_unmined; exact M | right; apply is_expired_spec; exact E]. }
      congruence.
    + pose proof (dead_set_closed s tg t I) as C. unfold dead_grows in C. rewrite M, H in C. simpl in C. exact C.
  - intros [U [E D]]. destruct (mem (t_id t) (dead_set s tg)) eqn:X; [|reflexivity]. exfalso.
    apply dead_set_sound in X. inversion X as [t' I' U' S' Eq | t' d I' U' Hd D' Eq].
    + assert (t' = t).
      { pose proof (nodup_find' _ _ ND I') as F1. pose proof (nodup_find' _ _ ND I) as F2. rewrite Eq in F1. congruence. }
      subst t'. destruct S' as [S'|S']; [congruence|]. apply is_expired_spec in S'. congruence.
    + assert (t' = t).
      { pose proof (nodup_find' _ _ ND I') as F1. pose proof (nodup_find' _ _ ND I) as F2. rewrite Eq in F1. congruence. }
      subst t'. apply dead_set_complete in D'.
      assert (Y : existsb (fun d => mem d (dead_set s tg)) (t_deps t) = true) by (apply existsb_exists; exists d; tauto).
      congruence.
Qed.

Section Status.
  Variable s : mstate.
  Variable tg : targets.
  Variable dead : list Z.

  (** a mined row carries neither action nor blocker *)
  Lemma status_mined : forall t, is_mined t = true ->
    ts_ready (tx_status s tg dead t) = false /\ ts_action (tx_status s tg dead t) = None
    /\ ts_blocked (tx_status s tg dead t) = None.
  Proof.
    intros t M. unfold tx_status, row_unsatisfiable, is_expired. rewrite M. simpl.
    unfold is_mined in M. destruct (t_state t); try discriminate. simpl. tauto.
  Qed.

  (** ready exactly when an action is named, and then nothing blocks *)
  Lemma status_ready_action : forall t,
    (ts_ready (tx_status s tg dead t) = true <-> ts_action (tx_status s tg dead t) <> None)
    /\ (ts_ready (tx_status s tg dead t) = true -> ts_blocked (tx_status s tg dead t) = None).
  Proof.
    intros t. unfold tx_status.
    destruct (row_unsatisfiable dead t); [simpl; split; [split; [discriminate|congruence]|discriminate]|].
    destruct (negb (is_mined t) && is_some (t_fail t)); [simpl; split; [split; [discriminate|congruence]|discriminate]|].
    destruct (is_expired t (tg_scanned tg)); [simpl; split; [split; [discriminate|congruence]|discriminate]|].
    destruct (is_expired t (tg_eff tg)); [simpl; split; [split; [discriminate|congruence]|discriminate]|].
    destruct (t_state t); simpl; try (split; [split; [discriminate|congruence]|discriminate]).
    - destruct (negb (deps_mined (m_txs s) (t_deps t))); [simpl; split; [split; [discriminate|congruence]|discriminate]|].
      destruct (prove_ready s tg t); simpl; [split; [split; [discriminate|reflexivity]|reflexivity] | split; [split; [discriminate|congruence]|discriminate]].
    - destruct (negb (deps_mined (m_txs s) (t_deps t))); [simpl; split; [split; [discriminate|congruence]|discriminate]|].
      destruct (t_sched t <=? tg_eff tg); simpl; [split; [split; [discriminate|reflexivity]|reflexivity] | split; [split; [discriminate|congruence]|discriminate]].
  Qed.

  (** [never silent]: an unmined row is ready, or names what it is blocked on, or is in flight *)
  Theorem status_never_silent : forall t, is_mined t = false ->
    ts_ready (tx_status s tg dead t) = true \/ ts_blocked (tx_status s tg dead t) <> None \/ t_state t = Bcast.
  Proof.
    intros t M. unfold tx_status.
    destruct (row_unsatisfiable dead t); [right; left; simpl; discriminate|].
    destruct (negb (is_mined t) && is_some (t_fail t)); [right; left; simpl; discriminate|].
    destruct (is_expired t (tg_scanned tg)); [right; left; simpl; discriminate|].
    destruct (is_expired t (tg_eff tg)); [right; left; simpl; discriminate|].
    unfold is_mined in M. destruct (t_state t) eqn:St; try discriminate; simpl.
    - right; left; discriminate.
    - destruct (negb (deps_mined (m_txs s) (t_deps t))); [right; left; simpl; discriminate|].
      destruct (prove_ready s tg t); simpl; [left; reflexivity | right; left; discriminate].
    - destruct (negb (deps_mined (m_txs s) (t_deps t))); [right; left; simpl; discriminate|].
      destruct (t_sched t <=? tg_eff tg); simpl; [left; reflexivity | right; left; discriminate].
    - right; right; reflexivity.
  Qed.

  (** every reported reason is true of the row *)
  Definition blocker_true (t : mtx) (b : blocker) : Prop :=
    match b with
    | BUnsatisfiable => is_mined t = false /\ (t_unsat t <> None \/ exists d, In d (t_deps t) /\ mem d dead = true)
    | BAwaitingReevaluation => is_mined t = false /\ t_fail t <> None
    | BExpired => expired_at t (tg_scanned tg)
    | BExpiryImminent => expired_at t (tg_eff tg) /\ ~ expired_at t (tg_scanned tg)
    | BSignature => t_state t = AwaitingSig
    | BDependencies => (t_state t = Signed \/ t_state t = Proved) /\ deps_mined (m_txs s) (t_deps t) = false
    | BAnchorBoundary => t_state t = Signed /\ exists b, t_anchor t = Some b /\ tg_scanned tg <= sat_add b PROVABLE_ANCHOR_DEPTH
    | BSchedule => tg_eff tg < t_sched t /\ ((t_state t = Signed /\ t_anchor t = None) \/ t_state t = Proved)
    end.

  Theorem status_reason_truthful : forall t b, ts_blocked (tx_status s tg dead t) = Some b -> blocker_true t b.
  Proof.
    intros t b H. unfold tx_status in H.
    destruct (row_unsatisfiable dead t) eqn:U.
    { simpl in H. inversion H; subst. unfold row_unsatisfiable in U. apply andb_true_iff in U. destruct U as [U1 U2].
      apply negb_true_iff in U1. split; [exact U1|]. apply orb_true_iff in U2. destruct U2 as [U2|U2].
      - left. apply is_some_spec. exact U2.
      - right. apply existsb_exists in U2. exact U2. }
    destruct (negb (is_mined t) && is_some (t_fail t)) eqn:A.
    { simpl in H. inversion H; subst. apply andb_true_iff in A. destruct A as [A1 A2]. apply negb_true_iff in A1.
      split; [exact A1 | apply is_some_spec; exact A2]. }
    destruct (is_expired t (tg_scanned tg)) eqn:E1.
    { simpl in H. inversion H; subst. apply is_expired_spec. exact E1. }
    destruct (is_expired t (tg_eff tg)) eqn:E2.
    { simpl in H. inversion H; subst. split; [apply is_expired_spec; exact E2|]. intros X. apply is_expired_spec in X. congruence. }
    assert (NE : forall X, ~ (is_expired t (tg_eff tg) = true) -> X -> X) by auto.
    destruct (t_state t) eqn:St; simpl in H; try discriminate.
    - inversion H; subst. exact St.
    - destruct (negb (deps_mined (m_txs s) (t_deps t))) eqn:D.
      { simpl in H. inversion H; subst. split; [left; exact St | apply negb_true_iff; exact D]. }
      destruct (prove_ready s tg t) eqn:P; simpl in H; [discriminate|]. inversion H; subst.
      unfold prove_ready in P. rewrite E2, D in P.
      destruct (t_anchor t) as [bd|] eqn:An.
      + split; [exact St|]. exists bd. split; [exact An | lia].
      + split; [lia|]. left. split; [exact St | exact An].
    - destruct (negb (deps_mined (m_txs s) (t_deps t))) eqn:D.
      { simpl in H. inversion H; subst. split; [right; exact St | apply negb_true_iff; exact D]. }
      destruct (t_sched t <=? tg_eff tg) eqn:P; simpl in H; [discriminate|]. inversion H; subst.
      split; [lia | right; exact St].
  Qed.
End Status.

(** "ready" agrees with the kernel's queues (nothing set aside), on states with unique ids *)
Theorem status_ready_broadcast_kernel : forall s tg t, NoDup (map t_id (m_txs s)) -> In t (m_txs s) ->
  (ts_action (tx_status s tg (dead_set s tg) t) = Some ABroadcast <-> bcast_ok s tg (dead_set s tg) [] t = true).
Proof.
  intros s tg t ND I. unfold tx_status, bcast_ok, row_unsatisfiable.
  destruct (is_proved t) eqn:P.
  2:{ simpl. split; [|discriminate]. intros H.
      destruct (negb (is_mined t) && _); [discriminate|]. destruct (negb (is_mined t) && _); [discriminate|].
      destruct (is_expired t (tg_scanned tg)); [discriminate|]. destruct (is_expired t (tg_eff tg)); [discriminate|].
      unfold is_proved in P. destruct (t_state t); simpl in H; try discriminate.
      destruct (negb _); [discriminate|]. destruct (prove_ready s tg t); discriminate. }
  apply is_proved_spec in P.
  assert (M : is_mined t = false) by (unfold is_mined; rewrite P; reflexivity).
  pose proof (not_dead_iff s tg t ND I M) as ND'. rewrite M, P. simpl.
  destruct (t_unsat t) eqn:U; simpl.
  { split; [discriminate|]. intros H. exfalso. destruct (mem (t_id t) (dead_set s tg)) eqn:X.
    - rewrite andb_false_r in H. discriminate.
    - destruct (proj1 ND' eq_refl) as [? [? ?]]; congruence. }
  destruct (existsb (fun d => mem d (dead_set s tg)) (t_deps t)) eqn:DD; simpl.
  { split; [discriminate|]. intros H. exfalso. destruct (mem (t_id t) (dead_set s tg)) eqn:X.
    - rewrite andb_false_r in H. discriminate.
    - destruct (proj1 ND' eq_refl) as [? [? ?]]; congruence. }
  destruct (t_fail t) eqn:F; simpl.
  { split; [discriminate|]. rewrite !andb_false_r. discriminate. }
  destruct (is_expired t (tg_scanned tg)) eqn:E1; simpl.
  { split; [discriminate|]. intros H. exfalso. destruct (mem (t_id t) (dead_set s tg)) eqn:X.
    - rewrite andb_false_r in H. discriminate.
    - destruct (proj1 ND' eq_refl) as [? [? ?]]; congruence. }
  assert (X : mem (t_id t) (dead_set s tg) = false) by (apply ND'; tauto). rewrite X. simpl.
  destruct (is_expired t (tg_eff tg)) eqn:E2; simpl; [rewrite !andb_false_r; split; discriminate|].
  destruct (deps_mined (m_txs s) (t_deps t)) eqn:D; simpl; [|rewrite !andb_false_r; split; discriminate].
  destruct (t_sched t <=? tg_eff tg); simpl; split; congruence.
Qed.

(** (for proving, on rows carrying no broadcast-failure report: the prove queue does not look at
    reports — inside [advance] every report is adjudicated or answered with [Reevaluate] before the
    kernel is asked — while the view withholds a reported row whatever its state) *)
Theorem status_ready_prove_kernel : forall s tg t, NoDup (map t_id (m_txs s)) -> In t (m_txs s) -> t_fail t = None ->
  (ts_action (tx_status s tg (dead_set s tg) t) = Some AProve <-> prove_ok s tg (dead_set s tg) [] t = true).
Proof.
  intros s tg t ND I NF. unfold tx_status, prove_ok, row_unsatisfiable.
  destruct (is_signed t) eqn:P.
  2:{ simpl. split; [|discriminate]. intros H.
      destruct (negb (is_mined t) && _); [discriminate|]. destruct (negb (is_mined t) && _); [discriminate|].
      destruct (is_expired t (tg_scanned tg)); [discriminate|]. destruct (is_expired t (tg_eff tg)); [discriminate|].
      unfold is_signed in P. destruct (t_state t); simpl in H; try discriminate.
      destruct (negb _); [discriminate|]. destruct (t_sched t <=? tg_eff tg); discriminate. }
  apply is_signed_spec in P.
  assert (M : is_mined t = false) by (unfold is_mined; rewrite P; reflexivity).
  pose proof (not_dead_iff s tg t ND I M) as ND'. rewrite M, P. simpl.
  assert (PR : prove_ready s tg t = true -> is_expired t (tg_eff tg) = false /\ deps_mined (m_txs s) (t_deps t) = true).
  { unfold prove_ready. destruct (is_expired t (tg_eff tg)); [discriminate|]. destruct (deps_mined _ _); simpl; [tauto|discriminate]. }
  destruct (t_unsat t) eqn:U; simpl.
  { split; [discriminate|]. intros H. exfalso. destruct (mem (t_id t) (dead_set s tg)) eqn:X; [discriminate|].
    destruct (proj1 ND' eq_refl) as [? [? ?]]; congruence. }
  destruct (existsb (fun d => mem d (dead_set s tg)) (t_deps t)) eqn:DD; simpl.
  { split; [discriminate|]. intros H. exfalso. destruct (mem (t_id t) (dead_set s tg)) eqn:X; [discriminate|].
    destruct (proj1 ND' eq_refl) as [? [? ?]]; congruence. }
  destruct (is_expired t (tg_scanned tg)) eqn:E1.
  { rewrite NF; simpl; (split; [discriminate|]); intros H; exfalso;
      (destruct (mem (t_id t) (dead_set s tg)) eqn:X; [discriminate|]); destruct (proj1 ND' eq_refl) as [? [? ?]]; congruence. }
  assert (X : mem (t_id t) (dead_set s tg) = false) by (apply ND'; tauto). rewrite X. simpl.
  rewrite NF. simpl.
  destruct (is_expired t (tg_eff tg)) eqn:E2.
  { split; [discriminate|]. intros H. destruct (PR H); congruence. }
  destruct (deps_mined (m_txs s) (t_deps t)) eqn:D; simpl.
  - destruct (prove_ready s tg t); simpl; split; congruence.
  - split; [discriminate|]. intros H. destruct (PR H); congruence.
Qed.

(** the outlook's per-row floor only ever names an unmined, unmarked row with no dead dependency,
    and the kind of step it announces is the row's own next step *)
Theorem step_floor_live : forall s tg dead t k h, step_floor s tg dead t = Some (k, h) ->
  is_mined t = false /\ t_unsat t = None /\ (forall d, In d (t_deps t) -> mem d dead = false)
  /\ match k with
     | KReevaluate => exists r, t_fail t = Some r /\ h = sat_add r 1
     | KRebuild => t_fail t = None /\ expired_at t (tg_scanned tg) /\ is_transfer t = true /\ h = sat_add (t_expiry t) 1
     | KProve => t_fail t = None /\ ~ expired_at t (tg_scanned tg) /\ (t_state t = Signed \/ t_state t = AwaitingSig)
     | KBroadcast => t_fail t = None /\ ~ expired_at t (tg_scanned tg) /\ t_state t = Proved /\ h = t_sched t
     | _ => False
     end.
Proof.
  intros s tg dead t k h H. unfold step_floor in H.
  destruct (is_mined t) eqn:M; [discriminate|].
  destruct (is_some (t_unsat t) || existsb (fun d => mem d dead) (t_deps t)) eqn:U; [discriminate|].
  apply orb_false_iff in U. destruct U as [U1 U2].
  split; [reflexivity|]. split; [destruct (t_unsat t); [discriminate|reflexivity]|].
  split.
  { intros d Id. destruct (mem d dead) eqn:Q; [|reflexivity]. exfalso.
    assert (X : existsb (fun d => mem d dead) (t_deps t) = true) by (apply existsb_exists; exists d; tauto). congruence. }
  destruct (t_fail t) as [r|] eqn:F.
  { inversion H; subst. exists r. tauto. }
  destruct (is_expired t (tg_scanned tg)) eqn:E.
  { destruct (is_transfer t) eqn:T; [|discriminate]. inversion H; subst.
    split; [reflexivity|]. split; [apply is_expired_spec; exact E|]. tauto. }
  assert (NE : ~ expired_at t (tg_scanned tg)) by (intros X; apply is_expired_spec in X; congruence).
  destruct (t_state t) eqn:St; try discriminate; inversion H; subst; repeat split; auto.
Qed.

(** value that can no longer move is never rendered as merely waiting: an unmined row that is
    marked, or that depends on a dead transaction, is reported [Unsatisfiable] *)
Theorem status_dead_is_unsatisfiable : forall s tg t, is_mined t = false ->
  (t_unsat t <> None \/ exists d, In d (t_deps t) /\ Dead (m_txs s) (tg_scanned tg) d) ->
  ts_blocked (tx_status s tg (dead_set s tg) t) = Some BUnsatisfiable
  /\ ts_ready (tx_status s tg (dead_set s tg) t) = false.
Proof.
  intros s tg t M H.
  assert (RU : row_unsatisfiable (dead_set s tg) t = true).
  { unfold row_unsatisfiable. rewrite M. simpl. destruct H as [H|[d [Id Dd]]].
    - destruct (t_unsat t); [reflexivity|congruence].
    - apply orb_true_iff. right. apply existsb_exists. exists d. split; [exact Id | apply dead_set_complete; exact Dd]. }
  unfold tx_status. rewrite RU. split; reflexivity.
Qed.
