(** C18 — row-level model of the normalised SQLite store
    (/repo/zcash_client_sqlite/src/pool_migration/store.rs: [replace_migration_row],
    [read_migration_row], [read_transactions], [read_deps], [resolve_migration_id]).

    Transactions are written one row each into the transactions table (the lifecycle state split
    into a discriminant column plus the [mined_height] column, the kind into a discriminant plus
    three index columns, the unsatisfiability mark into two columns), the dependency edges into a
    child table keyed by (transfer id, ordinal); they are read back [ORDER BY transfer_id] /
    [ORDER BY ordinal] and reassembled with [from_stored]; a combination of columns that
    [from_stored] rejects is [None] (the store's [Corrupt] error).  Text discriminants are an
    enumeration here (their wire names are pairwise distinct constants).  The PCZT, lock owner and
    nullifier columns are opaque payloads and omitted, like in Model.v.

    One account's migrations are a list of parent rows in insertion (row id) order; "the account's
    migration" is resolved PENDING-ONLY (the first row whose status is not terminal). *)
From V.Lib Require Import Base.
From V.C18 Require Import Model.
Local Open Scope Z_scope.

Inductive kname := NPrep | NTransfer.
Inductive sname := NAwaiting | NSigned | NProved | NBroadcast | NMined.

Record txrow := MkRow {
  c_id : Z; c_kind : kname; c_layer : option Z; c_index : option Z; c_crossing : option Z;
  c_sched : Z; c_expiry : Z; c_anchor : option Z; c_state : sname; c_txid : option Z;
  c_mined : option Z; c_unsat_at : option Z; c_unsat_kind : option ukind; c_fail : option Z }.

Record deprow := MkDep { d_tx : Z; d_ord : nat; d_on : Z }.

(** write *)
Definition enc_tx (t : mtx) : txrow :=
  let '(k, l, i, c) := match t_kind t with
                       | Prep l i => (NPrep, Some l, Some i, None)
                       | Transfer c => (NTransfer, None, None, Some c)
                       end in
  let '(st, mh) := match t_state t with
                   | AwaitingSig => (NAwaiting, None) | Signed => (NSigned, None) | Proved => (NProved, None)
                   | Bcast => (NBroadcast, None) | Mined h => (NMined, Some h)
                   end in
  MkRow (t_id t) k l i c (t_sched t) (t_expiry t) (t_anchor t) st (Some (t_txid t)) mh
        (option_map fst (t_unsat t)) (option_map snd (t_unsat t)) (t_fail t).

Fixpoint enc_deps_from (id : Z) (n : nat) (deps : list Z) : list deprow :=
  match deps with
  | [] => []
  | d :: r => MkDep id n d :: enc_deps_from id (S n) r
  end.
Definition enc_deps (t : mtx) : list deprow := enc_deps_from (t_id t) O (t_deps t).

Definition save_txs (txs : list mtx) : list txrow * list deprow :=
  (map enc_tx txs, flat_map enc_deps txs).

(** read *)
Definition dec_kind (r : txrow) : option kind :=
  match c_kind r, c_layer r, c_index r, c_crossing r with
  | NPrep, Some l, Some i, _ => Some (Prep l i)
  | NTransfer, _, _, Some c => Some (Transfer c)
  | _, _, _, _ => None
  end.
Definition dec_state (r : txrow) : option txstate :=
  match c_state r, c_txid r, c_mined r with
  | NAwaiting, _, _ => Some AwaitingSig
  | NSigned, _, _ => Some Signed
  | NProved, _, _ => Some Proved
  | NBroadcast, Some _, _ => Some Bcast
  | NMined, Some _, Some h => Some (Mined h)
  | _, _, _ => None
  end.
Definition dec_unsat (r : txrow) : option (option (Z * ukind)) :=
  match c_unsat_at r, c_unsat_kind r with
  | Some a, Some k => Some (Some (a, k))
  | None, None => Some None
  | _, _ => None
  end.

(** the deps of one transaction, [ORDER BY ordinal] *)
Definition ord_lt (a b : deprow) : bool := Nat.ltb (d_ord a) (d_ord b).
Definition read_deps (deps : list deprow) (id : Z) : list Z :=
  map d_on (sort_by ord_lt (filter (fun d => d_tx d =? id) deps)).

Definition dec_tx (deps : list deprow) (r : txrow) : option mtx :=
  match dec_kind r, c_txid r, dec_state r, dec_unsat r with
  | Some k, Some txid, Some st, Some u =>
    Some (MkTx (c_id r) k (read_deps deps (c_id r)) (c_sched r) (c_expiry r) (c_anchor r) txid u (c_fail r) st)
  | _, _, _, _ => None
  end.

Definition row_lt (a b : txrow) : bool := c_id a <? c_id b.
(** [ORDER BY transfer_id] *)
Definition load_txs (tables : list txrow * list deprow) : option (list mtx) :=
  all_some (map (dec_tx (snd tables)) (sort_by row_lt (fst tables))).

(* ------------------------------------------------------------------------------------------ *)
(** the parent table of one account *)

Record mrow := MkMig { g_rowid : Z; g_state : mstate }.
Definition g_pending (r : mrow) : bool := negb (is_terminal (g_state r)).

Definition next_rowid (st : list mrow) : Z := fold_left (fun m r => Z.max m (g_rowid r + 1)) st 1.

Fixpoint update_pending (st : list mrow) (s : mstate) : option (list mrow) :=
  match st with
  | [] => None
  | r :: rest => if g_pending r then Some (MkMig (g_rowid r) s :: rest)
                 else option_map (cons r) (update_pending rest s)
  end.

(** [replace_migration]: rewrite the pending row in place, or insert a fresh row *)
Definition replace_migration (st : list mrow) (s : mstate) : list mrow :=
  match update_pending st s with
  | Some st' => st'
  | None => st ++ [MkMig (next_rowid st) s]
  end.

(** [get_migration]: pending-only *)
Definition get_migration (st : list mrow) : option mstate := option_map g_state (find g_pending st).
(** [latest_migration]: the newest row whatever its status *)
Definition latest_migration (st : list mrow) : option mstate := option_map g_state (last (map Some st) None).
Definition live_count (st : list mrow) : nat := length (filter g_pending st).
