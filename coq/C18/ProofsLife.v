(** C18 — lifecycle: rows keep their place and id, their rank never decreases except through a
    rollback, a rollback un-mines exactly the rows mined above its height, and terminal statuses
    are never left. *)
From V.Lib Require Import Base.
From V.C18 Require Import Model Spec ProofsDead.
From Coq Require Import ZifyBool.
Local Open Scope Z_scope.

(** [rel R pre post]: same length, row by row the same id and [R] on the lifecycle states *)
Definition rows (R : txstate -> txstate -> Prop) (pre post : list mtx) : Prop :=
  Forall2 (fun a b => t_id a = t_id b /\ R (t_state a) (t_state b)) pre post.
Definition fwd (a b : txstate) : Prop := rank a <= rank b.
Definition monotone := rows fwd.
Definition same := rows eq.

Lemma rows_refl : forall R : txstate -> txstate -> Prop, (forall x, R x x) -> forall l, rows R l l.
Proof. intros R H l. induction l; constructor; auto. Qed.

Lemma rows_trans : forall R : txstate -> txstate -> Prop, (forall x y z, R x y -> R y z -> R x z) ->
  forall a b c, rows R a b -> rows R b c -> rows R a c.
Proof.
  intros R H a b c H1. revert c. induction H1 as [|x y l l' [E1 R1] _ IH]; intros c H2; inversion H2; subst; constructor.
  - destruct H3 as [E2 R2]. split; [congruence | eauto].
  - apply IH. assumption.
Qed.

Lemma same_monotone : forall a b, same a b -> monotone a b.
Proof.
  intros a b H. induction H as [|x y l l' [E R] _ IH]; constructor; [|exact IH].
  split; [exact E | unfold fwd; rewrite R; lia].
Qed.

Lemma fwd_refl : forall x, fwd x x. Proof. intros; unfold fwd; lia. Qed.
Lemma fwd_trans : forall x y z, fwd x y -> fwd y z -> fwd x z. Proof. unfold fwd; intros; lia. Qed.
Lemma monotone_refl : forall l, monotone l l. Proof. apply rows_refl, fwd_refl. Qed.
Lemma monotone_trans : forall a b c, monotone a b -> monotone b c -> monotone a c.
Proof. apply rows_trans, fwd_trans. Qed.
Lemma same_refl : forall l, same l l. Proof. apply rows_refl. reflexivity. Qed.
Lemma same_trans : forall a b c, same a b -> same b c -> same a c.
Proof. apply rows_trans. intros; congruence. Qed.

Lemma update_first_rows : forall (R : txstate -> txstate -> Prop) p f, (forall x, R x x) ->
  (forall t, p t = true -> t_id (f t) = t_id t /\ R (t_state t) (t_state (f t))) ->
  forall l, rows R l (update_first p f l).
Proof.
  intros R p f HR H l. induction l as [|t l IH]; simpl; [constructor|].
  destruct (p t) eqn:E.
  - constructor; [destruct (H t E) as [E1 E2]; split; [symmetry; exact E1 | exact E2] | apply rows_refl; exact HR].
  - constructor; [split; [reflexivity | apply HR] | exact IH].
Qed.

Lemma txs_set_txs : forall s l, m_txs (set_txs s l) = l. Proof. reflexivity. Qed.
Lemma txs_set_status : forall s st, m_txs (set_status s st) = m_txs s. Proof. reflexivity. Qed.
Lemma txs_recompute : forall s, m_txs (recompute_status s) = m_txs s.
Proof.
  intros s. unfold recompute_status. destruct (is_terminal s); [reflexivity|].
  destruct (_ && _); [reflexivity|]. destruct (existsb _ _); reflexivity.
Qed.

(* ---------------------------------------------------------------------------------------- *)
(** the individual mutators *)

Lemma mark_mined_monotone : forall s id h, monotone (m_txs s) (m_txs (mark_mined s id h)).
Proof.
  intros. unfold mark_mined. rewrite txs_recompute, txs_set_txs. apply update_first_rows; [apply fwd_refl|].
  intros t _. split; [reflexivity|]. unfold fwd. simpl. destruct (t_state t); simpl; lia.
Qed.

(** recording a broadcast is forward for every row *)
Lemma mark_broadcast_monotone : forall s id, monotone (m_txs s) (m_txs (mark_broadcast s id)).
Proof.
  intros s id. unfold mark_broadcast. rewrite txs_recompute, txs_set_txs.
  apply update_first_rows; [apply fwd_refl|]. intros t _.
  unfold is_mined. destruct (t_state t) eqn:E; simpl; unfold fwd; rewrite ?E; simpl; split; try reflexivity; lia.
Qed.

(** storing a proof is forward for every row *)
Lemma store_proof_monotone : forall s id, monotone (m_txs s) (m_txs (set_transaction_proved s id)).
Proof.
  intros s id. unfold set_transaction_proved. rewrite txs_set_txs.
  apply update_first_rows; [apply fwd_refl|]. intros t _.
  unfold in_flight_or_mined. destruct (t_state t) eqn:E; simpl; unfold fwd; rewrite ?E; simpl; split; try reflexivity; lia.
Qed.

Lemma update_first_twice : forall p f g l, (forall t, p t = true -> p (f t) = true) ->
  update_first p g (update_first p f l) = update_first p (fun t => g (f t)) l.
Proof.
  intros p f g l H. induction l as [|t l IH]; simpl; [reflexivity|].
  destruct (p t) eqn:E; simpl; [rewrite (H t E); reflexivity | rewrite E, IH; reflexivity].
Qed.

Lemma promote_monotone : forall s id h, monotone (m_txs s) (m_txs (mark_mined (mark_broadcast s id) id h)).
Proof.
  intros. eapply monotone_trans; [apply mark_broadcast_monotone | apply mark_mined_monotone].
Qed.

Lemma apply_signature_monotone : forall s id, monotone (m_txs s) (m_txs (fst (apply_signature s id))).
Proof.
  intros. unfold apply_signature. destruct (existsb _ _); simpl; [|apply monotone_refl].
  apply update_first_rows; [apply fwd_refl|]. intros t H. split; [reflexivity|].
  apply andb_true_iff in H. destruct H as [_ H]. unfold is_awaiting in H. unfold fwd. simpl.
  destruct (t_state t); try discriminate; simpl; lia.
Qed.

Lemma report_failure_same : forall s id tip, same (m_txs s) (m_txs (report_broadcast_failure s id tip)).
Proof. intros. apply update_first_rows; [reflexivity|]. intros t _. split; reflexivity. Qed.
Lemma clear_failure_same : forall s id, same (m_txs s) (m_txs (clear_broadcast_failure s id)).
Proof. intros. apply update_first_rows; [reflexivity|]. intros t _. split; reflexivity. Qed.

Lemma direct_mark_same : forall l d, same l (direct_mark l d).
Proof.
  intros l d. unfold direct_mark. destruct (snd d); try apply same_refl.
  destruct (cause_kind c); [|apply same_refl].
  apply update_first_rows; [reflexivity|]. intros t _. split; reflexivity.
Qed.
Lemma fold_direct_same : forall dets l, same l (fold_left direct_mark dets l).
Proof.
  induction dets as [|d dets IH]; intros l; simpl; [apply same_refl|].
  eapply same_trans; [apply direct_mark_same | apply IH].
Qed.
Lemma apply_inherited_same : forall i l, same l (apply_inherited l i).
Proof.
  unfold apply_inherited. induction i as [|p i IH]; intros l; simpl; [apply same_refl|].
  eapply same_trans; [|apply IH]. apply update_first_rows; [reflexivity|]. intros t _. split; reflexivity.
Qed.
Lemma closure_same : forall fuel l sc, same l (closure_loop fuel l sc).
Proof.
  induction fuel as [|f IH]; intros l sc; cbn [closure_loop]; [apply same_refl|].
  destruct (inherited l sc) eqn:E; [apply same_refl|].
  eapply same_trans; [apply apply_inherited_same | apply IH].
Qed.
Lemma record_sat_same : forall s tg dets, same (m_txs s) (m_txs (record_satisfiability s tg dets)).
Proof.
  intros. unfold record_satisfiability. rewrite txs_set_txs.
  eapply same_trans; [apply fold_direct_same | apply closure_same].
Qed.

Lemma shift_fold_same : forall ivl delta l out r,
  exists l', fst (fold_left (shift_tx ivl delta) l (out, r)) = out ++ l' /\ same l l'.
Proof.
  intros ivl delta l. induction l as [|t l IH]; intros out r; cbn [fold_left].
  - exists []. rewrite app_nil_r. split; [reflexivity|constructor].
  - assert (S : exists t' r', shift_tx ivl delta (out, r) t = (out ++ [t'], r') /\ t_id t = t_id t' /\ t_state t = t_state t').
    { unfold shift_tx. destruct (t_state t) eqn:St.
      - destruct (t_kind t); [eexists; eexists; split; [reflexivity|split; [reflexivity|simpl; congruence]]|].
        destruct (t_anchor t); [|eexists; eexists; split; [reflexivity|split; [reflexivity|simpl; congruence]]].
        destruct (redraw_anchor_boundary _ _ _ _) as [fresh r'].
        eexists; eexists; split; [reflexivity|split; [reflexivity|simpl; congruence]].
      - destruct (t_kind t); [eexists; eexists; split; [reflexivity|split; [reflexivity|simpl; congruence]]|].
        destruct (t_anchor t); [|eexists; eexists; split; [reflexivity|split; [reflexivity|simpl; congruence]]].
        destruct (redraw_anchor_boundary _ _ _ _) as [fresh r'].
        eexists; eexists; split; [reflexivity|split; [reflexivity|simpl; congruence]].
      - eexists; eexists; split; [reflexivity|split; [reflexivity|simpl; congruence]].
      - exists t, r. split; [reflexivity|split; [reflexivity|congruence]].
      - exists t, r. split; [reflexivity|split; [reflexivity|congruence]]. }
    destruct S as [t' [r' [E [E1 E2]]]]. rewrite E.
    destruct (IH (out ++ [t']) r') as [l' [F S]]. exists (t' :: l'). rewrite F, <- app_assoc. split; [reflexivity|].
    constructor; [split; assumption | exact S].
Qed.

Lemma shift_same : forall s delta r, same (m_txs s) (m_txs (fst (shift_schedule s delta r))).
Proof.
  intros. unfold shift_schedule.
  destruct (shift_fold_same (m_ivl s) delta (m_txs s) [] r) as [l' [F S]].
  destruct (fold_left _ _ _) as [txs r'] eqn:E. simpl in F. subst. simpl. exact S.
Qed.

(* ---------------------------------------------------------------------------------------- *)
(** rollback: exactly the rows mined above the height are demoted, to [Bcast] *)

Lemma truncate_tx_state : forall h t, t_id (truncate_tx h t) = t_id t /\ t_state (truncate_tx h t) = unmine h (t_state t).
Proof.
  intros h t. unfold truncate_tx.
  set (t1 := match t_unsat t with Some (a, _) => if h <? a then set_unsat t None else t | None => t end).
  assert (E1 : t_id t1 = t_id t /\ t_state t1 = t_state t).
  { subst t1. destruct (t_unsat t) as [[a k]|]; [destruct (h <? a)|]; split; reflexivity. }
  set (t2 := match t_fail t1 with Some a => if h <? a then set_fail t1 None else t1 | None => t1 end).
  assert (E2 : t_id t2 = t_id t /\ t_state t2 = t_state t).
  { subst t2. destruct (t_fail t1) as [a|]; [destruct (h <? a)|]; simpl; tauto. }
  destruct E2 as [I2 S2]. rewrite <- S2. unfold unmine.
  destruct (t_state t2) eqn:S; try (split; [exact I2 | exact S]).
  destruct (h <? h0); simpl; [split; [exact I2 | reflexivity] | split; [exact I2 | exact S]].
Qed.

Theorem rollback_exact : forall s h,
  rows (fun a b => b = unmine h a) (m_txs s) (m_txs (truncate_to_height s h)).
Proof.
  intros s h. unfold truncate_to_height.
  assert (R : rows (fun a b => b = unmine h a) (m_txs s) (map (truncate_tx h) (m_txs s))).
  { induction (m_txs s) as [|t l IH]; simpl; constructor; [|exact IH].
    destruct (truncate_tx_state h t) as [E1 E2]. split; [symmetry; exact E1 | exact E2]. }
  destruct (m_status s); try exact R. destruct (existsb _ _); exact R.
Qed.

(* ---------------------------------------------------------------------------------------- *)
(** terminal statuses *)

Lemma status_set_txs : forall s l, m_status (set_txs s l) = m_status s. Proof. reflexivity. Qed.
Lemma recompute_terminal : forall s, is_terminal s = true -> recompute_status s = s.
Proof. intros s H. unfold recompute_status. rewrite H. reflexivity. Qed.

Definition keeps_terminal (f : mstate -> mstate) : Prop :=
  forall s, is_terminal s = true -> m_status (f s) = m_status s.

Lemma term_set_txs : forall s l, is_terminal (set_txs s l) = is_terminal s. Proof. reflexivity. Qed.

Lemma mark_broadcast_status : forall id, keeps_terminal (fun s => mark_broadcast s id).
Proof. intros id s H. unfold mark_broadcast. rewrite recompute_terminal; [reflexivity|exact H]. Qed.
Lemma mark_mined_status : forall id h, keeps_terminal (fun s => mark_mined s id h).
Proof. intros id h s H. unfold mark_mined. rewrite recompute_terminal; [reflexivity|exact H]. Qed.
Lemma record_sat_status : forall s tg d, m_status (record_satisfiability s tg d) = m_status s.
Proof. reflexivity. Qed.
Lemma shift_status : forall s delta r, m_status (fst (shift_schedule s delta r)) = m_status s.
Proof. intros. unfold shift_schedule. destruct (fold_left _ _ _). reflexivity. Qed.
Lemma clear_failure_status : forall s id, m_status (clear_broadcast_failure s id) = m_status s.
Proof. reflexivity. Qed.

Lemma truncate_status : forall s h,
  m_status (truncate_to_height s h) = m_status s
  \/ (m_status s = Complete /\ m_status (truncate_to_height s h) = InProgress
      /\ exists t, In t (m_txs (truncate_to_height s h)) /\ is_mined t = false).
Proof.
  intros s h. unfold truncate_to_height. destruct (m_status s) eqn:S; try (left; simpl; congruence).
  destruct (existsb _ _) eqn:E; [|left; simpl; congruence]. right. split; [reflexivity|]. split; [reflexivity|].
  apply existsb_exists in E. destruct E as [t [I M]]. exists t. split; [exact I | apply negb_true_iff; exact M].
Qed.
