(** C18 — totality: with unique ids and served targets that fit [u32], every event sequence
    runs to the end (the drive loop never exhausts its fuel), so the sequence theorems of
    ProofsSeq.v hold for all sequences, not only for those whose drive calls "return". *)
From V.Lib Require Import Base.
From V.C18 Require Import Model Spec ProofsDead ProofsKernel ProofsLife ProofsDrive ProofsRebuild ProofsSeq ProofsStrand ProofsTerm.
From Coq Require Import ZifyBool.
Local Open Scope Z_scope.

Definition event_ok (e : gevent) : Prop :=
  match e with GAdvance _ _ tg _ => tg_eff tg <= U32MAX | _ => True end.

Lemma gstep_ids : forall s e s', gstep s e = Some s' -> map t_id (m_txs s') = map t_id (m_txs s).
Proof.
  intros s e s' G.
  assert (R : forall (P : txstate -> txstate -> Prop), rows P (m_txs s) (m_txs s') -> map t_id (m_txs s') = map t_id (m_txs s))
    by (intros P H; symmetry; eapply rows_ids; exact H).
  pose proof (step_lifecycle s e s' G) as L.
  destruct e; try (exact (R _ L)).
  simpl in G. inversion G; subst.
  pose proof (rebuild_keeps_mined s id target grid_ok crypto_ok external delay anchor txid) as K.
  clear -K. induction K as [|a b l l' [E _] _ IH]; simpl; [reflexivity|rewrite E, IH; reflexivity].
Qed.

Lemma gstep_total : forall s e, NoDup (map t_id (m_txs s)) -> event_ok e -> exists s', gstep s e = Some s'.
Proof.
  intros s e ND OK. destruct e; simpl; try (eexists; reflexivity).
  destruct (advance_total sat mined_at s tg r ND OK) as [st [s' [d H]]]. rewrite H. eexists; reflexivity.
Qed.

Theorem grun_total : forall es s, NoDup (map t_id (m_txs s)) -> Forall event_ok es ->
  exists s', grun s es = Some s' /\ map t_id (m_txs s') = map t_id (m_txs s).
Proof.
  induction es as [|e es IH]; intros s ND F; simpl; [exists s; tauto|].
  inversion F; subst. destruct (gstep_total s e ND H1) as [s1 G]. rewrite G.
  pose proof (gstep_ids s e s1 G) as I1.
  destruct (IH s1) as [s' [R I2]]; [rewrite I1; exact ND | exact H2|].
  exists s'. split; [exact R | congruence].
Qed.
