(** C18 — the dead set: the loop of [dead_set] computes exactly the inductively specified set
    [Dead], and reaches its fixpoint within the [|txs|+1] passes the code comment promises. *)
From V.Lib Require Import Base.
From V.C18 Require Import Model Spec.
From Coq Require Import ZifyBool.
Local Open Scope Z_scope.

Lemma mem_In : forall x l, mem x l = true <-> In x l.
Proof.
  intros x l. unfold mem. rewrite existsb_exists. split.
  - intros [y [H1 H2]]. apply Z.eqb_eq in H2. subst. exact H1.
  - intros H. exists x. split; [exact H | apply Z.eqb_refl].
Qed.

Lemma mem_cons : forall x y l, mem x (y :: l) = (x =? y) || mem x l.
Proof. reflexivity. Qed.

Lemma is_mined_unmined : forall t, is_mined t = false <-> unmined t.
Proof.
  intros t. unfold is_mined, unmined. destruct (t_state t); split; intros H; try reflexivity; try discriminate;
    try (intros h0 E; discriminate).
  exfalso. apply (H h). reflexivity.
Qed.

Lemma is_expired_spec : forall t h, is_expired t h = true <-> expired_at t h.
Proof.
  intros t h. unfold is_expired, expired_at. destruct (is_mined t) eqn:M.
  - split; [discriminate|]. intros [U _]. apply is_mined_unmined in U. congruence.
  - apply is_mined_unmined in M. split.
    + intros H. apply andb_true_iff in H. destruct H as [H1 H2]. repeat split; try assumption; lia.
    + intros [_ [H1 H2]]. apply andb_true_iff. split; lia.
Qed.

Lemma is_some_spec : forall A (o : option A), is_some o = true <-> o <> None.
Proof. intros A [a|]; simpl; split; congruence. Qed.

Lemma dead_seed_spec : forall sc t, dead_seed sc t = true <->
  unmined t /\ (t_unsat t <> None \/ expired_at t sc).
Proof.
  intros sc t. unfold dead_seed. rewrite andb_true_iff, orb_true_iff, negb_true_iff,
    is_mined_unmined, is_some_spec, is_expired_spec. tauto.
Qed.

(* ---------------------------------------------------------------------------------------- *)
(** monotonicity *)

Lemma add_id_mem : forall x id d, mem x (add_id id d) = true <-> x = id \/ mem x d = true.
Proof.
  intros x id d. unfold add_id. destruct (mem id d) eqn:E.
  - split; [tauto|]. intros [->|H]; assumption.
  - rewrite mem_cons, orb_true_iff, Z.eqb_eq. tauto.
Qed.

Lemma seeds_fold_mem : forall sc l d x,
  mem x (fold_left (fun d t => if dead_seed sc t then add_id (t_id t) d else d) l d) = true
  <-> mem x d = true \/ exists t, In t l /\ dead_seed sc t = true /\ t_id t = x.
Proof.
  intros sc l. induction l as [|t l IH]; intros d x; simpl.
  - split; [tauto|]. intros [H|[t [[] _]]]. exact H.
  - rewrite IH. destruct (dead_seed sc t) eqn:S.
    + rewrite add_id_mem. split.
      * intros [[->|H]|[t' [H1 H2]]]; [right; exists t; tauto | tauto | right; exists t'; tauto].
      * intros [H|[t' [[->|H1] [H2 H3]]]]; [tauto | left; left; congruence | right; exists t'; tauto].
    + split.
      * intros [H|[t' [H1 H2]]]; [tauto | right; exists t'; tauto].
      * intros [H|[t' [[->|H1] [H2 H3]]]]; [tauto | congruence | right; exists t'; tauto].
Qed.

Lemma dead_seeds_mem : forall txs sc x,
  mem x (dead_seeds txs sc) = true <-> exists t, In t txs /\ dead_seed sc t = true /\ t_id t = x.
Proof.
  intros txs sc x. unfold dead_seeds. rewrite seeds_fold_mem. simpl. split; [intros [H|H]; [discriminate|exact H] | tauto].
Qed.

Definition pass_step (d : list Z) (t : mtx) : list Z := if dead_grows d t then t_id t :: d else d.

Lemma pass_fold_mono : forall l d x, mem x d = true -> mem x (fold_left pass_step l d) = true.
Proof.
  induction l as [|t l IH]; intros d x H; simpl; [exact H|].
  apply IH. unfold pass_step. destruct (dead_grows d t); [|exact H].
  rewrite mem_cons, H. apply orb_true_r.
Qed.

Lemma dead_pass_mono : forall txs d x, mem x d = true -> mem x (dead_pass txs d) = true.
Proof. intros. apply pass_fold_mono. assumption. Qed.

Lemma dead_loop_mono : forall fuel txs d x, mem x d = true -> mem x (dead_loop fuel txs d) = true.
Proof.
  induction fuel as [|f IH]; intros txs d x H; simpl; [exact H|].
  destruct (Nat.eqb _ _); [apply dead_pass_mono; exact H | apply IH, dead_pass_mono; exact H].
Qed.

(* ---------------------------------------------------------------------------------------- *)
(** soundness: everything in the computed set is [Dead] *)

Definition sound (txs : list mtx) (sc : Z) (d : list Z) : Prop := forall x, mem x d = true -> Dead txs sc x.

Lemma dead_grows_spec : forall d t, dead_grows d t = true ->
  unmined t /\ mem (t_id t) d = false /\ exists x, In x (t_deps t) /\ mem x d = true.
Proof.
  intros d t H. unfold dead_grows in H. apply andb_true_iff in H. destruct H as [H H3].
  apply andb_true_iff in H. destruct H as [H1 H2]. apply negb_true_iff in H1, H2.
  apply is_mined_unmined in H1. apply existsb_exists in H3. tauto.
Qed.

Lemma pass_fold_sound : forall txs sc l d, incl l txs -> sound txs sc d -> sound txs sc (fold_left pass_step l d).
Proof.
  intros txs sc l. induction l as [|t l IH]; intros d I S; simpl; [exact S|].
  apply IH; [intros y Hy; apply I; right; exact Hy|].
  unfold pass_step. destruct (dead_grows d t) eqn:G; [|exact S].
  apply dead_grows_spec in G. destruct G as [U [_ [x [Hx Mx]]]].
  intros y Hy. rewrite mem_cons, orb_true_iff, Z.eqb_eq in Hy. destruct Hy as [->|Hy]; [|apply S; exact Hy].
  apply Dead_dep with (d := x); [apply I; left; reflexivity | exact U | exact Hx | apply S; exact Mx].
Qed.

Lemma dead_loop_sound : forall fuel txs sc d, sound txs sc d -> sound txs sc (dead_loop fuel txs d).
Proof.
  induction fuel as [|f IH]; intros txs sc d S; simpl; [exact S|].
  assert (S' : sound txs sc (dead_pass txs d)) by (apply pass_fold_sound; [apply incl_refl | exact S]).
  destruct (Nat.eqb _ _); [exact S' | apply IH; exact S'].
Qed.

Lemma dead_seeds_sound : forall txs sc, sound txs sc (dead_seeds txs sc).
Proof.
  intros txs sc x H. apply dead_seeds_mem in H. destruct H as [t [I [S <-]]].
  apply dead_seed_spec in S. destruct S as [U S]. apply Dead_seed; assumption.
Qed.

(* ---------------------------------------------------------------------------------------- *)
(** the fixpoint is reached within the fuel *)

Definition free (txs : list mtx) (d : list Z) : nat :=
  length (filter (fun t => negb (mem (t_id t) d)) txs).

Lemma free_cons_le : forall txs x d, (free txs (x :: d) <= free txs d)%nat.
Proof.
  intros txs x d. unfold free. induction txs as [|t txs IH]; [simpl; lia|].
  cbn [filter]. rewrite mem_cons. destruct (t_id t =? x); destruct (mem (t_id t) d); cbn [orb negb length]; lia.
Qed.

Lemma free_cons_lt : forall txs t d, In t txs -> mem (t_id t) d = false ->
  (free txs (t_id t :: d) < free txs d)%nat.
Proof.
  intros txs t d. unfold free. induction txs as [|u txs IH]; intros I M; [destruct I|].
  cbn [filter]. rewrite mem_cons. destruct I as [->|I].
  - rewrite Z.eqb_refl, M. cbn [orb negb length]. pose proof (free_cons_le txs (t_id t) d) as L. unfold free in L. lia.
  - specialize (IH I M). destruct (t_id u =? t_id t); destruct (mem (t_id u) d); cbn [orb negb length]; lia.
Qed.

Lemma pass_fold_measure : forall txs l d, incl l txs ->
  (length (fold_left pass_step l d) + free txs (fold_left pass_step l d) <= length d + free txs d)%nat.
Proof.
  intros txs l. induction l as [|t l IH]; intros d I; simpl; [lia|].
  assert (I' : incl l txs) by (intros y Hy; apply I; right; exact Hy).
  specialize (IH (pass_step d t) I'). unfold pass_step in *. destruct (dead_grows d t) eqn:G; [|exact IH].
  apply dead_grows_spec in G. destruct G as [_ [M _]].
  pose proof (free_cons_lt txs t d (I t (or_introl eq_refl)) M). simpl in IH. lia.
Qed.

Lemma pass_fold_length : forall l d, (length d <= length (fold_left pass_step l d))%nat.
Proof.
  induction l as [|t l IH]; intros d; simpl; [lia|].
  specialize (IH (pass_step d t)). unfold pass_step in *. destruct (dead_grows d t); simpl in *; lia.
Qed.

(** a pass that does not grow the set changed nothing, and no row could have grown it *)
Lemma pass_fold_stable : forall l d, length (fold_left pass_step l d) = length d ->
  fold_left pass_step l d = d /\ forall t, In t l -> dead_grows d t = false.
Proof.
  induction l as [|t l IH]; intros d H; simpl in *; [split; [reflexivity | intros t []]|].
  unfold pass_step in H at 2. unfold pass_step at 2. destruct (dead_grows d t) eqn:G.
  - pose proof (pass_fold_length l (t_id t :: d)). simpl in *. lia.
  - destruct (IH d H) as [E F]. split; [exact E|]. intros u [<-|Hu]; [exact G | apply F; exact Hu].
Qed.

Definition closed (txs : list mtx) (d : list Z) : Prop := forall t, In t txs -> dead_grows d t = false.

Lemma dead_loop_closed : forall fuel txs d, (free txs d < fuel)%nat -> closed txs (dead_loop fuel txs d).
Proof.
  induction fuel as [|f IH]; intros txs d F; [lia|]. cbn [dead_loop].
  change (dead_pass txs d) with (fold_left pass_step txs d).
  destruct (Nat.eqb _ _) eqn:E.
  - apply Nat.eqb_eq in E. destruct (pass_fold_stable txs d E) as [E' C]. rewrite E'. exact C.
  - apply Nat.eqb_neq in E. apply IH.
    pose proof (pass_fold_measure txs txs d (incl_refl _)). pose proof (pass_fold_length txs d). lia.
Qed.

Lemma free_le : forall txs d, (free txs d <= length txs)%nat.
Proof.
  intros txs d. unfold free. induction txs as [|t txs IH]; [simpl; lia|].
  cbn [filter]. destruct (negb (mem (t_id t) d)); cbn [length]; lia.
Qed.

(** [dead_set_fixpoint]: with the [|txs|+1] passes of fuel the loop ends in a set no further
    pass can grow (the loop of the code always exits through its [!grew] test). *)
Lemma dead_set_closed : forall s tg, closed (m_txs s) (dead_set s tg).
Proof.
  intros s tg. unfold dead_set. apply dead_loop_closed.
  pose proof (free_le (m_txs s) (dead_seeds (m_txs s) (tg_scanned tg))). lia.
Qed.

(* ---------------------------------------------------------------------------------------- *)
(** completeness, and the characterisation *)

Lemma dead_set_complete : forall s tg x, Dead (m_txs s) (tg_scanned tg) x -> mem x (dead_set s tg) = true.
Proof.
  intros s tg x D. induction D as [t I U S | t d I U Hd D IH].
  - unfold dead_set. apply dead_loop_mono. apply dead_seeds_mem. exists t. split; [exact I|].
    split; [|reflexivity]. apply dead_seed_spec. tauto.
  - pose proof (dead_set_closed s tg t I) as C. unfold dead_grows in C.
    apply is_mined_unmined in U. rewrite U in C. simpl in C.
    destruct (mem (t_id t) (dead_set s tg)) eqn:M; [reflexivity|]. simpl in C.
    assert (E : existsb (fun x => mem x (dead_set s tg)) (t_deps t) = true)
      by (apply existsb_exists; exists d; tauto).
    congruence.
Qed.

Lemma dead_set_sound : forall s tg x, mem x (dead_set s tg) = true -> Dead (m_txs s) (tg_scanned tg) x.
Proof. intros s tg. unfold dead_set. apply dead_loop_sound, dead_seeds_sound. Qed.

Theorem dead_set_spec : forall s tg x, mem x (dead_set s tg) = true <-> Dead (m_txs s) (tg_scanned tg) x.
Proof. intros; split; [apply dead_set_sound | apply dead_set_complete]. Qed.

(** least: any set containing the seeds and closed under dependents contains the dead set *)
Theorem dead_set_least : forall s tg (P : Z -> Prop),
  (forall t, In t (m_txs s) -> unmined t -> (t_unsat t <> None \/ expired_at t (tg_scanned tg)) -> P (t_id t)) ->
  (forall t d, In t (m_txs s) -> unmined t -> In d (t_deps t) -> P d -> P (t_id t)) ->
  forall x, mem x (dead_set s tg) = true -> P x.
Proof.
  intros s tg P HS HD x M. apply dead_set_sound in M. induction M; eauto.
Qed.

(** a mined row never contributes: every dead id belongs to some unmined row *)
Lemma dead_has_unmined_row : forall txs sc x, Dead txs sc x -> exists t, In t txs /\ t_id t = x /\ unmined t.
Proof. intros txs sc x D. destruct D as [t I U _ | t d I U _ _]; exists t; tauto. Qed.

(** The dead set does not depend on the ORDER of the rows: for two states holding the same rows
    in any order the loop computes the same set (one forward pass would not). *)
From Coq Require Import Permutation.
Lemma Dead_perm : forall txs txs' sc x, Permutation txs txs' -> Dead txs sc x -> Dead txs' sc x.
Proof.
  intros txs txs' sc x P D. induction D as [t I U S | t d I U Hd D IH].
  - apply Dead_seed; [eapply Permutation_in; eassumption | exact U | exact S].
  - eapply Dead_dep; [eapply Permutation_in; eassumption | exact U | exact Hd | exact IH].
Qed.

Theorem dead_set_order_independent : forall s s' tg x, Permutation (m_txs s) (m_txs s') ->
  mem x (dead_set s tg) = mem x (dead_set s' tg).
Proof.
  intros s s' tg x P.
  destruct (mem x (dead_set s tg)) eqn:A; destruct (mem x (dead_set s' tg)) eqn:B; try reflexivity.
  - apply dead_set_sound in A. apply (Dead_perm _ _ _ _ P) in A. apply dead_set_complete in A. congruence.
  - apply dead_set_sound in B. apply (Dead_perm _ _ _ _ (Permutation_sym P)) in B. apply dead_set_complete in B. congruence.
Qed.
