(** C18 — executable model of the committed-migration state machine.

    Transcribed from /repo/zcash_pool_migration/src/state.rs (kernel: [deps_mined], [is_expired],
    [dead_set], [next_broadcastable], [provable_targets], [next_rebuildable], [replan_required],
    [next_step], [recompute_status], the [mark_*] mutators, [report_broadcast_failure],
    [record_satisfiability], [truncate_to_height], [apply_signature], [shift_schedule]),
    engine.rs ([set_transaction_proved]) and satisfiability.rs ([advance_migration]: in-flight
    sweep, adjudication of broadcast-failure reports, plan/verify/record loop with the overdue
    shift, [broaden_after_discovery]).  Same branches, same order of checks.

    Not modelled: PCZT bytes, lock owners, spend-nullifier caches (opaque payloads that no
    decision reads), the advisory outlook [Advance::next] / [upcoming_step] / [step_floor],
    [sync_wakeup_schedule]; of the rebuild functions of engine.rs the state-level part is modelled
    ([rebuild]), their wallet/crypto part is an oracle.

    Heights are [Z] in [0, 2^32); [BlockHeight + u32] saturates at [u32::MAX] as in the code, and
    so does [boundary + PROVABLE_ANCHOR_DEPTH] in [prove_ready] (repaired: it was a plain [u32]
    addition that panicked in a debug build for a boundary above [u32::MAX - 10], reachable through
    [advance_migration]; known_findings.d/C18.json C18-F3).  The remaining plain addition
    [boundary + PROVABLE_ANCHOR_DEPTH + 1] of the overdue test is only evaluated on the members of
    a [Prove] step, whose boundaries satisfy [boundary + PROVABLE_ANCHOR_DEPTH < scanned <= u32::MAX]
    ([prove_candidate_no_overflow] in ProofsTerm.v), so it never overflows and is modelled in [Z].

    No proofs in this file. *)
From V.Lib Require Import Base.
From V.Gen Require Import C18Consts.
Local Open Scope Z_scope.

(* ------------------------------------------------------------------------------------------ *)
(** * Types *)

Inductive txstate := AwaitingSig | Signed | Proved | Bcast | Mined (h : Z).
Inductive kind := Prep (layer index : Z) | Transfer (crossing : Z).
Inductive ukind := KSpent | KInvalidated | KAnchor | KInherited.
Inductive status := Planning | Committed | InProgress | Complete | Failed | Superseded | Cancelled.

Record mtx := MkTx {
  t_id : Z; t_kind : kind; t_deps : list Z; t_sched : Z; t_expiry : Z;
  t_anchor : option Z; t_txid : Z; t_unsat : option (Z * ukind); t_fail : option Z;
  t_state : txstate }.

Record mstate := MkSt {
  m_status : status; m_txs : list mtx; m_cross : list Z; m_thr : Z; m_ivl : Z }.

(** The two targets (scanned, effective); [DuenessTargets::new] clamps the estimate up. *)
Definition targets := (Z * Z)%type.
Definition mk_targets (scanned est : Z) : targets := (scanned, Z.max scanned est).
Definition tg_scanned (tg : targets) := fst tg.
Definition tg_eff (tg : targets) := snd tg.

Inductive cause := CSpent | CInvalidated | CExpired | CAnchor.
Inductive answer := Sat (h : Z) | NotYet (h : Z) | Unsat (c : cause) (h : Z).

Inductive step :=
| SProve (l : list (Z * kind)) | SBroadcast (id : Z) | SRebuild (id : Z)
| SReplan | SReevaluate | SWaiting | SComplete.

Definition U32MAX : Z := 4294967295.
Definition sat_add (a b : Z) : Z := Z.min (a + b) U32MAX.

(* ------------------------------------------------------------------------------------------ *)
(** * Small helpers *)

Definition is_mined (t : mtx) : bool := match t_state t with Mined _ => true | _ => false end.
Definition is_terminal_status (s : status) : bool :=
  match s with Complete | Failed | Superseded | Cancelled => true | _ => false end.
Definition is_terminal (s : mstate) : bool := is_terminal_status (m_status s).
Definition mem (x : Z) (l : list Z) : bool := existsb (Z.eqb x) l.
Definition find_tx (id : Z) (txs : list mtx) : option mtx := find (fun t => t_id t =? id) txs.
Definition is_some {A} (o : option A) : bool := match o with Some _ => true | None => false end.

Definition set_state (t : mtx) (st : txstate) : mtx :=
  MkTx (t_id t) (t_kind t) (t_deps t) (t_sched t) (t_expiry t) (t_anchor t) (t_txid t) (t_unsat t) (t_fail t) st.
Definition set_unsat (t : mtx) (u : option (Z * ukind)) : mtx :=
  MkTx (t_id t) (t_kind t) (t_deps t) (t_sched t) (t_expiry t) (t_anchor t) (t_txid t) u (t_fail t) (t_state t).
Definition set_fail (t : mtx) (f : option Z) : mtx :=
  MkTx (t_id t) (t_kind t) (t_deps t) (t_sched t) (t_expiry t) (t_anchor t) (t_txid t) (t_unsat t) f (t_state t).
Definition set_sched_anchor (t : mtx) (s : Z) (a : option Z) : mtx :=
  MkTx (t_id t) (t_kind t) (t_deps t) s (t_expiry t) a (t_txid t) (t_unsat t) (t_fail t) (t_state t).
Definition set_txs (s : mstate) (txs : list mtx) : mstate :=
  MkSt (m_status s) txs (m_cross s) (m_thr s) (m_ivl s).
Definition set_status (s : mstate) (st : status) : mstate :=
  MkSt st (m_txs s) (m_cross s) (m_thr s) (m_ivl s).

(** [iter_mut().find(p)] then mutate: the FIRST row satisfying [p] is rewritten. *)
Fixpoint update_first (p : mtx -> bool) (f : mtx -> mtx) (txs : list mtx) : list mtx :=
  match txs with
  | [] => []
  | t :: r => if p t then f t :: r else t :: update_first p f r
  end.

(** [Iterator::min_by_key]: the first of the minimal elements. [lt a b] = key a < key b. *)
Fixpoint min_first {A} (lt : A -> A -> bool) (l : list A) : option A :=
  match l with
  | [] => None
  | x :: r => match min_first lt r with
              | None => Some x
              | Some y => if lt y x then Some y else Some x
              end
  end.

Definition key_lt (a b : Z * Z) : bool :=
  (fst a <? fst b) || ((fst a =? fst b) && (snd a <? snd b)).
Definition sched_key (t : mtx) : Z * Z := (t_sched t, t_id t).
Definition sched_lt (a b : mtx) : bool := key_lt (sched_key a) (sched_key b).

(** stable insertion sort ([sort_by_key] is stable) *)
Fixpoint insert_by {A} (lt : A -> A -> bool) (x : A) (l : list A) : list A :=
  match l with
  | [] => [x]
  | y :: r => if lt x y then x :: y :: r else y :: insert_by lt x r
  end.
Definition sort_by {A} (lt : A -> A -> bool) (l : list A) : list A :=
  fold_right (insert_by lt) [] l.

(* ------------------------------------------------------------------------------------------ *)
(** * Kernel queries (state.rs) *)

Definition deps_mined (txs : list mtx) (deps : list Z) : bool :=
  forallb (fun d => match find_tx d txs with Some t => is_mined t | None => false end) deps.

Definition is_expired (t : mtx) (target : Z) : bool :=
  if is_mined t then false else negb (t_expiry t =? 0) && (t_expiry t <? target).

(** dead set: seeds, then passes over the transactions until a pass adds nothing *)
Definition dead_seed (scanned : Z) (t : mtx) : bool :=
  negb (is_mined t) && (is_some (t_unsat t) || is_expired t scanned).
Definition add_id (id : Z) (d : list Z) : list Z := if mem id d then d else id :: d.
Definition dead_seeds (txs : list mtx) (scanned : Z) : list Z :=
  fold_left (fun d t => if dead_seed scanned t then add_id (t_id t) d else d) txs [].
Definition dead_grows (d : list Z) (t : mtx) : bool :=
  negb (is_mined t) && negb (mem (t_id t) d) && existsb (fun x => mem x d) (t_deps t).
Definition dead_pass (txs : list mtx) (d : list Z) : list Z :=
  fold_left (fun d t => if dead_grows d t then t_id t :: d else d) txs d.
Fixpoint dead_loop (fuel : nat) (txs : list mtx) (d : list Z) : list Z :=
  match fuel with
  | O => d
  | S f => let d' := dead_pass txs d in
           if (length d' =? length d)%nat then d' else dead_loop f txs d'
  end.
Definition dead_set (s : mstate) (tg : targets) : list Z :=
  dead_loop (S (length (m_txs s))) (m_txs s) (dead_seeds (m_txs s) (tg_scanned tg)).

Definition is_transfer (t : mtx) : bool := match t_kind t with Transfer _ => true | _ => false end.
Definition is_proved (t : mtx) : bool := match t_state t with Proved => true | _ => false end.
Definition is_signed (t : mtx) : bool := match t_state t with Signed => true | _ => false end.

Definition rebuild_ok (s : mstate) (tg : targets) (dead set_aside : list Z) (t : mtx) : bool :=
  is_transfer t && is_expired t (tg_scanned tg) && negb (is_some (t_unsat t))
  && negb (existsb (fun d => mem d dead) (t_deps t)) && negb (mem (t_id t) set_aside).
Definition next_rebuildable (s : mstate) (tg : targets) (dead set_aside : list Z) : option Z :=
  option_map t_id (min_first sched_lt (filter (rebuild_ok s tg dead set_aside) (m_txs s))).

Definition prove_ready (s : mstate) (tg : targets) (t : mtx) : bool :=
  if is_expired t (tg_eff tg) then false
  else if negb (deps_mined (m_txs s) (t_deps t)) then false
  else match t_anchor t with
       | Some b => sat_add b PROVABLE_ANCHOR_DEPTH <? tg_scanned tg
       | None => t_sched t <=? tg_eff tg
       end.

Definition prove_key (t : mtx) : Z * Z :=
  (match t_anchor t with Some b => b | None => t_sched t end, t_id t).
Definition prove_ok (s : mstate) (tg : targets) (dead set_aside : list Z) (t : mtx) : bool :=
  is_signed t && negb (mem (t_id t) dead) && negb (mem (t_id t) set_aside) && prove_ready s tg t.
Definition provable_targets (s : mstate) (tg : targets) (dead set_aside : list Z) : list (Z * kind) :=
  map (fun t => (t_id t, t_kind t))
      (sort_by (fun a b => key_lt (prove_key a) (prove_key b))
               (filter (prove_ok s tg dead set_aside) (m_txs s))).

Definition bcast_ok (s : mstate) (tg : targets) (dead set_aside : list Z) (t : mtx) : bool :=
  is_proved t && (t_sched t <=? tg_eff tg) && negb (mem (t_id t) dead)
  && negb (mem (t_id t) set_aside) && negb (is_some (t_fail t))
  && deps_mined (m_txs s) (t_deps t) && negb (is_expired t (tg_eff tg)).
Definition next_broadcastable (s : mstate) (tg : targets) (dead set_aside : list Z) : option Z :=
  option_map t_id (min_first sched_lt (filter (bcast_ok s tg dead set_aside) (m_txs s))).

Definition crossing_value (s : mstate) (t : mtx) : option Z :=
  match t_kind t with
  | Transfer c => nth_error (m_cross s) (Z.to_nat c)
  | Prep _ _ => None
  end.
Definition sumZ (l : list Z) : Z := fold_left Z.add l 0.
Definition replan_required (s : mstate) : bool :=
  let unsat := sumZ (map (fun t => match crossing_value s t with Some v => v | None => 0 end)
                         (filter (fun t => is_some (t_unsat t) && negb (is_mined t)) (m_txs s))) in
  let total := sumZ (m_cross s) in
  m_thr s * total <? 100 * unsat.

Definition all_mined (txs : list mtx) : bool := forallb is_mined txs.
Definition is_nil {A} (l : list A) : bool := match l with [] => true | _ => false end.

Definition next_step (s : mstate) (tg : targets) (set_aside : list Z) : step :=
  if is_terminal s then SComplete else
  let dead := dead_set s tg in
  match next_broadcastable s tg dead set_aside with
  | Some id => SBroadcast id
  | None =>
    if replan_required s then SReplan else
    let pv := provable_targets s tg dead set_aside in
    if negb (is_nil pv) then SProve pv else
    match next_rebuildable s tg dead set_aside with
    | Some id => SRebuild id
    | None =>
      if negb (is_nil dead) && is_nil set_aside
         && forallb (fun t => is_mined t || mem (t_id t) dead) (m_txs s)
      then SReplan
      else if negb (is_nil (m_txs s)) && all_mined (m_txs s) then SComplete
      else SWaiting
    end
  end.

(* ------------------------------------------------------------------------------------------ *)
(** * The status view (state.rs, [transaction_statuses], [expired_transactions]) *)

Inductive action := AProve | ABroadcast.
Inductive blocker :=
| BDependencies | BSchedule | BAnchorBoundary | BSignature
| BExpiryImminent | BExpired | BAwaitingReevaluation | BUnsatisfiable.

Record txstatus := MkStatus {
  ts_id : Z; ts_ready : bool; ts_action : option action; ts_blocked : option blocker;
  ts_ukind : option ukind; ts_mined : option Z }.

Definition row_unsatisfiable (dead : list Z) (t : mtx) : bool :=
  negb (is_mined t) && (is_some (t_unsat t) || existsb (fun d => mem d dead) (t_deps t)).

Definition tx_status (s : mstate) (tg : targets) (dead : list Z) (t : mtx) : txstatus :=
  let deps_ok := deps_mined (m_txs s) (t_deps t) in
  let unsat := row_unsatisfiable dead t in
  let uk := if unsat then Some (match t_unsat t with Some (_, k) => k | None => KInherited end) else None in
  let awaiting := negb (is_mined t) && is_some (t_fail t) in
  let '(ready, act, blk) :=
    if unsat then (false, None, Some BUnsatisfiable)
    else if awaiting then (false, None, Some BAwaitingReevaluation)
    else if is_expired t (tg_scanned tg) then (false, None, Some BExpired)
    else if is_expired t (tg_eff tg) then (false, None, Some BExpiryImminent)
    else match t_state t with
         | AwaitingSig => (false, None, Some BSignature)
         | Signed =>
           if negb deps_ok then (false, None, Some BDependencies)
           else if prove_ready s tg t then (true, Some AProve, None)
           else (false, None, Some (match t_anchor t with Some _ => BAnchorBoundary | None => BSchedule end))
         | Proved =>
           if negb deps_ok then (false, None, Some BDependencies)
           else if t_sched t <=? tg_eff tg then (true, Some ABroadcast, None)
           else (false, None, Some BSchedule)
         | Bcast => (false, None, None)
         | Mined _ => (false, None, None)
         end in
  MkStatus (t_id t) ready act blk uk (match t_state t with Mined h => Some h | _ => None end).

Definition transaction_statuses (s : mstate) (tg : targets) : list txstatus :=
  map (tx_status s tg (dead_set s tg)) (m_txs s).

Definition expired_transactions (s : mstate) (tg : targets) : list Z :=
  map t_id (filter (fun t => is_expired t (tg_scanned tg)) (m_txs s)).

(* ------------------------------------------------------------------------------------------ *)
(** * Mutators (state.rs, engine.rs) *)

Definition recompute_status (s : mstate) : mstate :=
  if is_terminal s then s else
  let am := negb (is_nil (m_txs s)) && all_mined (m_txs s) in
  let started := existsb (fun t => match t_state t with Bcast | Mined _ => true | _ => false end) (m_txs s) in
  if am then set_status s Complete
  else if started then set_status s InProgress
  else s.

Definition mark_superseded (s : mstate) : mstate := if is_terminal s then s else set_status s Superseded.
Definition mark_cancelled (s : mstate) : mstate := if is_terminal s then s else set_status s Cancelled.

Definition has_id (id : Z) (t : mtx) : bool := t_id t =? id.

(** a row that is already [Mined] stays mined (only a rollback un-mines) *)
Definition mark_broadcast (s : mstate) (id : Z) : mstate :=
  recompute_status (set_txs s (update_first (has_id id)
     (fun t => if is_mined t then t else set_state t Bcast) (m_txs s))).

Definition mark_mined (s : mstate) (id h : Z) : mstate :=
  recompute_status (set_txs s (update_first (has_id id)
     (fun t => set_fail (set_unsat (set_state t (Mined h)) None) None) (m_txs s))).

(** a proof arriving for a row already in flight or mined is stale and is not recorded *)
Definition in_flight_or_mined (t : mtx) : bool :=
  match t_state t with Bcast | Mined _ => true | _ => false end.
Definition set_transaction_proved (s : mstate) (id : Z) : mstate :=
  set_txs s (update_first (has_id id)
     (fun t => if in_flight_or_mined t then t else set_state t Proved) (m_txs s)).

Definition report_broadcast_failure (s : mstate) (id tip : Z) : mstate :=
  set_txs s (update_first (fun t => has_id id t && is_proved t) (fun t => set_fail t (Some tip)) (m_txs s)).

Definition clear_broadcast_failure (s : mstate) (id : Z) : mstate :=
  set_txs s (update_first (has_id id) (fun t => set_fail t None) (m_txs s)).

Definition is_awaiting (t : mtx) : bool := match t_state t with AwaitingSig => true | _ => false end.
Definition apply_signature (s : mstate) (id : Z) : mstate * bool :=
  if existsb (fun t => has_id id t && is_awaiting t) (m_txs s)
  then (set_txs s (update_first (fun t => has_id id t && is_awaiting t) (fun t => set_state t Signed) (m_txs s)), true)
  else (s, false).

Definition truncate_tx (h : Z) (t : mtx) : mtx :=
  let t1 := match t_unsat t with Some (a, _) => if h <? a then set_unsat t None else t | None => t end in
  let t2 := match t_fail t1 with Some a => if h <? a then set_fail t1 None else t1 | None => t1 end in
  match t_state t2 with
  | Mined mh => if h <? mh then set_state t2 Bcast else t2
  | _ => t2
  end.
Definition truncate_to_height (s : mstate) (h : Z) : mstate :=
  let txs := map (truncate_tx h) (m_txs s) in
  let s1 := set_txs s txs in
  match m_status s with
  | Complete => if existsb (fun t => negb (is_mined t)) txs then set_status s1 InProgress else s1
  | _ => s1
  end.

(** [UnsatisfiableCause::kind] *)
Definition cause_kind (c : cause) : option ukind :=
  match c with CSpent => Some KSpent | CInvalidated => Some KInvalidated
             | CAnchor => Some KAnchor | CExpired => None end.
Definition records (a : answer) : bool :=
  match a with Unsat c _ => is_some (cause_kind c) | _ => false end.
Definition as_of (a : answer) : Z := match a with Sat h | NotYet h | Unsat _ h => h end.

Definition direct_mark (txs : list mtx) (d : Z * answer) : list mtx :=
  match snd d with
  | Unsat c h =>
    match cause_kind c with
    | Some k => update_first (fun t => has_id (fst d) t && negb (is_some (t_unsat t)) && negb (is_mined t))
                             (fun t => set_unsat t (Some (h, k))) txs
    | None => txs
    end
  | _ => txs
  end.

Definition opt_min (a b : option Z) : option Z :=
  match a, b with
  | Some x, Some y => Some (Z.min x y)
  | Some x, None => Some x
  | None, y => y
  end.
(** the stamp one dead dependency row contributes *)
Definition dep_stamp (scanned : Z) (d : mtx) : option Z :=
  if is_mined d then None else
  let expired := if is_expired d scanned then Some (t_expiry d) else None in
  opt_min (option_map fst (t_unsat d)) expired.
Definition inherited_stamp (txs : list mtx) (scanned : Z) (t : mtx) : option Z :=
  fold_left (fun acc d => match find_tx d txs with
                          | Some x => opt_min acc (dep_stamp scanned x)
                          | None => acc end) (t_deps t) None.
Definition inherited (txs : list mtx) (scanned : Z) : list (Z * Z) :=
  flat_map (fun t => if negb (is_mined t) && negb (is_some (t_unsat t))
                     then match inherited_stamp txs scanned t with Some st => [(t_id t, st)] | None => [] end
                     else []) txs.
Definition apply_inherited (txs : list mtx) (l : list (Z * Z)) : list mtx :=
  fold_left (fun txs p => update_first (has_id (fst p)) (fun t => set_unsat t (Some (snd p, KInherited))) txs) l txs.
Fixpoint closure_loop (fuel : nat) (txs : list mtx) (scanned : Z) : list mtx :=
  match fuel with
  | O => txs
  | S f => match inherited txs scanned with
           | [] => txs
           | l => closure_loop f (apply_inherited txs l) scanned
           end
  end.
Definition record_satisfiability (s : mstate) (tg : targets) (dets : list (Z * answer)) : mstate :=
  let txs1 := fold_left direct_mark dets (m_txs s) in
  set_txs s (closure_loop (S (length txs1)) txs1 (tg_scanned tg)).

(* ------------------------------------------------------------------------------------------ *)
(** * The outlook (state.rs [step_floor], [upcoming_step]; satisfiability.rs [upcoming_after]) *)

Inductive skind := KProve | KBroadcast | KRebuild | KReplan | KReevaluate | KWaiting | KComplete.

Definition step_floor (s : mstate) (tg : targets) (dead : list Z) (t : mtx) : option (skind * Z) :=
  if is_mined t then None
  else if is_some (t_unsat t) || existsb (fun d => mem d dead) (t_deps t) then None
  else match t_fail t with
       | Some reported => Some (KReevaluate, sat_add reported 1)
       | None =>
         if is_expired t (tg_scanned tg) then
           (if is_transfer t then Some (KRebuild, sat_add (t_expiry t) 1) else None)
         else match t_state t with
              | Signed | AwaitingSig =>
                Some (KProve, match t_anchor t with
                              | Some b => sat_add b (PROVABLE_ANCHOR_DEPTH + 1)
                              | None => t_sched t end)
              | Proved => Some (KBroadcast, t_sched t)
              | Bcast | Mined _ => None
              end
       end.

Definition floor_of_id (s : mstate) (tg : targets) (id : Z) : option (Z * skind) :=
  match find_tx id (m_txs s) with
  | Some t => option_map (fun p => (snd p, fst p)) (step_floor s tg (dead_set s tg) t)
  | None => None
  end.

Definition kind_rank (k : skind) : Z := match k with KBroadcast => 0 | KProve => 1 | KRebuild => 2 | _ => 3 end.
(** key (height, rank, id) *)
Definition outlook_lt (a b : Z * (skind * Z)) : bool :=
  let ka := (snd (snd a), kind_rank (fst (snd a)), fst a) in
  let kb := (snd (snd b), kind_rank (fst (snd b)), fst b) in
  (fst (fst ka) <? fst (fst kb))
  || ((fst (fst ka) =? fst (fst kb)) && ((snd (fst ka) <? snd (fst kb))
      || ((snd (fst ka) =? snd (fst kb)) && (snd ka <? snd kb)))).

Definition upcoming_step (s : mstate) (tg : targets) (set_aside : list Z) : option (Z * skind) :=
  match next_step s tg set_aside with
  | SComplete | SReevaluate => None
  | SReplan => Some (tg_eff tg, KReplan)
  | SProve l => match l with (id, _) :: _ => floor_of_id s tg id | [] => None end
  | SBroadcast id | SRebuild id => floor_of_id s tg id
  | SWaiting =>
    let dead := dead_set s tg in
    let cands := flat_map (fun t =>
        if negb (mem (t_id t) set_aside) && deps_mined (m_txs s) (t_deps t) && negb (is_expired t (tg_eff tg))
        then match step_floor s tg dead t with Some f => [(t_id t, f)] | None => [] end
        else []) (m_txs s) in
    option_map (fun p => (snd (snd p), fst (snd p))) (min_first outlook_lt cands)
  end.

Definition upcoming_after (s : mstate) (st : step) (tg : targets) (set_aside : list Z) : option (Z * skind) :=
  match st with
  | SComplete | SReplan | SReevaluate | SRebuild _ => None
  | SWaiting => upcoming_step s tg set_aside
  | SProve l =>
    upcoming_step (set_txs s (map (fun t => if existsb (fun p => fst p =? t_id t) l then set_state t Proved else t) (m_txs s)))
                  tg set_aside
  | SBroadcast id => upcoming_step (mark_broadcast s id) tg set_aside
  end.

(* ------------------------------------------------------------------------------------------ *)
(** * Rebuild of an expired transfer (engine.rs, [rebuild_expired_transfer_inner])

    The state-level part: the guards decided from the persisted state (in the order the code
    checks them), and the replacement of the row.  The new scheduled height is the chain base plus
    a drawn delay, the new expiry is the canonical [expiry_height] of that schedule; the drawn
    delay, the drawn anchor boundary and the new transaction's id are oracle values (RNG, PCZT
    construction).  Everything the rebuild needs from the wallet after the guards (viewing key,
    the funding note, NU6.3 activation, a candidate anchor, PCZT construction) is one oracle bit
    [crypto_ok]: when it fails the state is left untouched. *)
Inductive rebuild_err := RMismatch | RUnknown | RNotTransfer | RUnsatisfiable | RNotExpired.

Definition dep_marked (txs : list mtx) (d : Z) : bool :=
  existsb (fun x => has_id d x && is_some (t_unsat x)) txs.

Definition rebuild_guard (s : mstate) (id target : Z) (grid_ok : bool) : option rebuild_err :=
  if negb grid_ok then Some RMismatch else
  match find_tx id (m_txs s) with
  | None => Some RUnknown
  | Some t =>
    if negb (is_transfer t) then Some RNotTransfer
    else if is_some (t_unsat t) || existsb (dep_marked (m_txs s)) (t_deps t) then Some RUnsatisfiable
    else if negb (is_expired t target) then Some RNotExpired
    else None
  end.

(** [zip318::expiry_height] *)
Definition expiry_height (h : Z) : Z := sat_add (h - h mod EXPIRY_MODULUS) EXPIRY_WINDOW.

(** the latest schedule among the still-pending transfers, clamped below by the target *)
Definition chain_base (s : mstate) (target : Z) : Z :=
  fold_left (fun m t => if is_transfer t && negb (is_mined t) && negb (is_some (t_unsat t))
                        then Z.max m (t_sched t) else m) (m_txs s) target.

Definition rebuilt_row (t : mtx) (external : bool) (sched anchor txid : Z) : mtx :=
  MkTx (t_id t) (t_kind t) (t_deps t) sched (expiry_height sched) (Some anchor) txid (t_unsat t) (t_fail t)
       (if external then AwaitingSig else Signed).

Definition rebuild_apply (s : mstate) (id : Z) (external : bool) (sched anchor txid : Z) : mstate :=
  set_txs s (update_first (has_id id) (fun t => rebuilt_row t external sched anchor txid) (m_txs s)).

Inductive rebuild_res := RbOk | RbErr (e : rebuild_err) | RbLate.

(** [delay >= 0] is the drawn inter-arrival delay *)
Definition rebuild (s : mstate) (id target : Z) (grid_ok crypto_ok external : bool) (delay anchor txid : Z)
  : mstate * rebuild_res :=
  match rebuild_guard s id target grid_ok with
  | Some e => (s, RbErr e)
  | None => if crypto_ok
            then (rebuild_apply s id external (sat_add (chain_base s target) delay) anchor txid, RbOk)
            else (s, RbLate)
  end.

(* ------------------------------------------------------------------------------------------ *)
(** * Anchor redraw (scheduling.rs) under a scripted RNG

    The harness drives [advance_migration] with an RNG whose n-th word is [1 << (age_n - 1)], so
    [draw_anchor_age] returns [age_n] and consumes exactly one word; past the end of the script
    every word is [1] (odd: age 1, which the sampler always accepts). *)
Definition rng := (list Z * nat)%type.
Definition rng_next (r : rng) : Z * rng :=
  let '(ages, pos) := r in (nth pos ages 1, (ages, S pos)).

Fixpoint sample_boundary (fuel : nat) (ivl lowest highest most_recent : Z) (r : rng) : Z * rng :=
  match fuel with
  | O => (highest, r)
  | S f =>
    let '(age, r') := rng_next r in
    if ANCHOR_AGE_CAP <? age then sample_boundary f ivl lowest highest most_recent r'
    else
      let off := age * ivl in
      if (U32MAX <? off) || (most_recent <? off) then sample_boundary f ivl lowest highest most_recent r'
      else let c := most_recent - off in
           if (lowest <=? c) && (c <=? highest) then (c, r')
           else sample_boundary f ivl lowest highest most_recent r'
  end.

Definition boundary_at_or_below (ivl h : Z) : Z := h - (h mod ivl).
Definition boundary_at_or_above (ivl h : Z) : Z :=
  let r := h mod ivl in if r =? 0 then h else sat_add h (ivl - r).

Definition redraw_anchor_boundary_f (fuel : nat) (ivl prior bh : Z) (r : rng) : option Z * rng :=
  let most_recent := boundary_at_or_below ivl bh in
  if most_recent <? ivl then (None, r) else
  let highest := most_recent - ivl in
  let lowest := boundary_at_or_above ivl prior in
  if highest <? lowest then (None, r) else
  let '(c, r') := sample_boundary fuel ivl lowest highest most_recent r in (Some c, r').
(** the rejection loop of the code is unbounded; 64 draws always suffice for a script of at most
    63 ages ([redraw_fuel_irrelevant] in ProofsSampler.v) *)
Definition redraw_anchor_boundary := redraw_anchor_boundary_f 64.

Definition shift_tx (ivl delta : Z) (acc : list mtx * rng) (t : mtx) : list mtx * rng :=
  let '(out, r) := acc in
  match t_state t with
  | Bcast | Mined _ => (out ++ [t], r)
  | AwaitingSig | Signed =>
    let sch := sat_add (t_sched t) delta in
    match t_kind t, t_anchor t with
    | Transfer _, Some prior =>
      let '(fresh, r') := redraw_anchor_boundary ivl prior sch r in
      (out ++ [set_sched_anchor t sch (match fresh with Some b => Some b | None => Some prior end)], r')
    | _, a => (out ++ [set_sched_anchor t sch a], r)
    end
  | Proved => (out ++ [set_sched_anchor t (sat_add (t_sched t) delta) (t_anchor t)], r)
  end.
Definition shift_schedule (s : mstate) (delta : Z) (r : rng) : mstate * rng :=
  let '(txs, r') := fold_left (shift_tx (m_ivl s) delta) (m_txs s) ([], r) in
  (set_txs s txs, r').

(** [overdue_shift_tolerance] of the transfer delay that
    [SchedulingParams::new_with_default_distributions(interval)] derives. *)
Definition scale_mean (ivl : Z) : Z :=
  let scaled := TRANSFER_DELAY_MEAN * ivl / ZIP318_INTERVAL in
  if U32MAX <? scaled then U32MAX else if scaled =? 0 then 1 else scaled.
Definition overdue_tolerance (ivl : Z) : Z := Z.max (scale_mean ivl / 4) 1.

(* ------------------------------------------------------------------------------------------ *)
(** * The drive API (satisfiability.rs, [advance_migration]) *)

Section Drive.
  (** the store as an oracle: arbitrary functions *)
  Variable sat : mtx -> answer.
  Variable mined_at : Z -> option Z.

  Definition sweep_tx (acc : list (Z * Z) * list (Z * Z) * list (Z * answer)) (t : mtx) :=
    let '(unrec, mn, fnd) := acc in
    match t_state t with
    | Proved => match mined_at (t_txid t) with
                | Some h => (unrec ++ [(t_id t, h)], mn, fnd)
                | None => acc end
    | Bcast =>
      match mined_at (t_txid t) with
      | Some h => (unrec, mn ++ [(t_id t, h)], fnd)
      | None =>
        if is_some (t_unsat t) then acc else
        match sat t with
        | Unsat CSpent h => (unrec, mn, fnd ++ [(t_id t, Unsat CSpent h)])
        | Unsat CAnchor h => (unrec, mn, fnd ++ [(t_id t, Unsat CAnchor h)])
        | _ => acc
        end
      end
    | _ => acc
    end.

  Definition sweep (s : mstate) (tg : targets) : mstate * bool :=
    let '(unrec, mn, fnd) := fold_left sweep_tx (m_txs s) ([], [], []) in
    let s1 := fold_left (fun s p => mark_mined (mark_broadcast s (fst p)) (fst p) (snd p)) unrec s in
    let s2 := fold_left (fun s p => mark_mined s (fst p) (snd p)) mn s1 in
    let s3 := if is_nil fnd then s2 else record_satisfiability s2 tg fnd in
    (s3, negb (is_nil unrec) || negb (is_nil mn) || negb (is_nil fnd)).

  Definition is_pending_state (t : mtx) : bool :=
    match t_state t with Bcast | Mined _ => false | _ => true end.
  Definition broaden (s : mstate) (batch : list (Z * answer)) : list (Z * answer) :=
    fold_left (fun b t =>
      if negb (existsb (fun p => fst p =? t_id t) b) && is_pending_state t
         && negb (is_some (t_unsat t)) && deps_mined (m_txs s) (t_deps t)
      then let a := sat t in if records a then b ++ [(t_id t, a)] else b
      else b) (m_txs s) batch.

  Definition adjudicate (s : mstate) (tg : targets) : mstate * bool * bool :=
    if is_terminal s then (s, false, false) else
    let '(adj, verdicts, pending) :=
      fold_left (fun acc t =>
        let '(adj, vd, pend) := acc in
        match t_fail t with
        | None => acc
        | Some tip =>
          let a := sat t in
          if as_of a <? tip then (adj, vd, true)
          else (adj ++ [t_id t], (if records a then vd ++ [(t_id t, a)] else vd), pend)
        end) (m_txs s) ([], [], false) in
    let s1 := if is_nil verdicts then s else record_satisfiability s tg (broaden s verdicts) in
    let s2 := fold_left clear_broadcast_failure adj s1 in
    (s2, negb (is_nil adj), pending).

  Definition candidates (st : step) : option (list Z) :=
    match st with
    | SProve l => Some (map fst l)
    | SBroadcast id | SRebuild id => Some [id]
    | _ => None
    end.
  Definition is_prove (st : step) : bool := match st with SProve _ => true | _ => false end.
  Definition shift_trigger (st : step) : bool :=
    match st with SProve _ | SBroadcast _ => true | _ => false end.

  Definition overdue_from (st : step) (t : mtx) : Z :=
    match is_prove st, t_anchor t with
    | true, Some b => Z.max (t_sched t) (b + PROVABLE_ANCHOR_DEPTH + 1)
    | _, _ => t_sched t
    end.

  (** verification of the named candidates: (kept, deferred, discoveries) *)
  Definition verify (rows : list mtx) : list Z * list Z * list (Z * answer) :=
    fold_left (fun acc t =>
      let '(kept, dfr, disc) := acc in
      match sat t with
      | Sat _ => (kept ++ [t_id t], dfr, disc)
      | NotYet _ => (kept, dfr ++ [t_id t], disc)
      | Unsat c h => if records (Unsat c h) then (kept, dfr, disc ++ [(t_id t, Unsat c h)])
                     else (kept ++ [t_id t], dfr, disc)
      end) rows ([], [], []).

  Inductive plan_result := PDone (st : step) (s : mstate) (dirty : bool) (set_aside : list Z) | POutOfFuel.

  Fixpoint all_some {A} (l : list (option A)) : option (list A) :=
    match l with
    | [] => Some []
    | Some x :: r => option_map (cons x) (all_some r)
    | None :: _ => None
    end.

  (** the overdue shift: [Some delta] when the most overdue named candidate lags the served
      target by more than the tolerance *)
  Definition overdue_shift (st : step) (rows : list mtx) (s : mstate) (tg : targets) : option Z :=
    if shift_trigger st then
      match min_first key_lt (map (fun t => (overdue_from st t, t_sched t)) rows) with
      | Some (ofrom, sched) =>
        if sat_add ofrom (overdue_tolerance (m_ivl s)) <? tg_eff tg then Some (tg_eff tg - sched) else None
      | None => None
      end
    else None.

  Fixpoint plan_loop (fuel : nat) (tg : targets) (s : mstate) (set_aside : list Z) (dirty : bool) (r : rng)
    : plan_result :=
    match fuel with
    | O => POutOfFuel
    | S f =>
      let st := next_step s tg set_aside in
      match candidates st with
      | None => PDone st s dirty set_aside
      | Some cands =>
        match all_some (map (fun id => find_tx id (m_txs s)) cands) with
        | None => PDone SWaiting s dirty set_aside
        | Some rows =>
          match overdue_shift st rows s tg with
          | Some delta =>
            let '(s', r') := shift_schedule s delta r in plan_loop f tg s' set_aside true r'
          | None =>
            let '(kept, dfr, disc) := verify rows in
            let sa := set_aside ++ dfr in
            if negb (is_nil disc) then
              plan_loop f tg (record_satisfiability s tg (broaden s disc)) sa true r
            else if is_nil dfr then PDone st s dirty sa
            else match st with
                 | SProve l =>
                   if negb (is_nil kept)
                   then PDone (SProve (filter (fun p => mem (fst p) kept) l)) s dirty sa
                   else plan_loop f tg s sa dirty r
                 | _ => plan_loop f tg s sa dirty r
                 end
          end
        end
      end
    end.

  Inductive adv_result := ARes (st : step) (s : mstate) (dirty : bool) | AOutOfFuel.

  Definition advance_fuel (s : mstate) : nat := (4 * length (m_txs s) + 8)%nat.

  Definition advance (s : mstate) (tg : targets) (r : rng) : adv_result :=
    let '(s1, d1) := sweep s tg in
    let '(s2, d2, pending) := adjudicate s1 tg in
    if pending then ARes SReevaluate s2 (d1 || d2)
    else match plan_loop (advance_fuel s2) tg s2 [] (d1 || d2) r with
         | PDone st s3 dirty _ => ARes st s3 dirty
         | POutOfFuel => AOutOfFuel
         end.
  (** [Advance::next]: the same call, projected on the outlook ([None] = out of fuel) *)
  Definition advance_outlook (s : mstate) (tg : targets) (r : rng) : option (option (Z * skind)) :=
    let '(s1, d1) := sweep s tg in
    let '(s2, d2, pending) := adjudicate s1 tg in
    if pending then Some None
    else match plan_loop (advance_fuel s2) tg s2 [] (d1 || d2) r with
         | PDone st s3 _ sa => Some (upcoming_after s3 st tg sa)
         | POutOfFuel => None
         end.
End Drive.
