(** C18 — the anchor rejection sampler's fuel is irrelevant: the loop of the code is unbounded,
    the model gives it 64 draws, and for an RNG script of at most 63 ages (past which every word
    is odd, i.e. age 1 — the hypothesis of C17_anchor_terminates_on_odd_word: one odd word
    suffices) every call returns by ACCEPTING a candidate, whatever larger fuel it is given. *)
From V.Lib Require Import Base.
From V.Gen Require Import C18Consts.
From V.C18 Require Import Model.
From Coq Require Import ZifyBool.
Local Open Scope Z_scope.

Definition need (r : rng) : nat := (length (fst r) - snd r)%nat.

Lemma rng_next_need : forall r, need (snd (rng_next r)) = (need r - 1)%nat.
Proof. intros [ages pos]. unfold need, rng_next. simpl. lia. Qed.

Lemma rng_next_past_end : forall r, need r = O -> fst (rng_next r) = 1.
Proof.
  intros [ages pos] H. unfold need in H. simpl in *. apply nth_overflow. lia.
Qed.

Lemma rng_next_script : forall r, fst (snd (rng_next r)) = fst r.
Proof. intros [ages pos]. reflexivity. Qed.

(** age 1 is always accepted *)
Lemma age_one_accepted : forall f ivl lo hi mr r, 1 <= ivl <= U32MAX -> ivl <= mr -> hi = mr - ivl -> lo <= hi ->
  fst (rng_next r) = 1 ->
  sample_boundary (S f) ivl lo hi mr r = (hi, snd (rng_next r)).
Proof.
  intros f ivl lo hi mr r I M H L A. cbn [sample_boundary]. destruct (rng_next r) as [age r'] eqn:E. cbn [fst snd] in *. subst age.
  change (ANCHOR_AGE_CAP <? 1) with false. cbv iota. rewrite Z.mul_1_l.
  destruct ((U32MAX <? ivl) || (mr <? ivl)) eqn:Q; [lia|].
  destruct ((lo <=? mr - ivl) && (mr - ivl <=? hi)) eqn:Q2; [subst; reflexivity | lia].
Qed.

Lemma sample_stable : forall f1 f2 ivl lo hi mr r, 1 <= ivl <= U32MAX -> ivl <= mr -> hi = mr - ivl -> lo <= hi ->
  (need r < f1)%nat -> (need r < f2)%nat ->
  sample_boundary f1 ivl lo hi mr r = sample_boundary f2 ivl lo hi mr r.
Proof.
  induction f1 as [|f1 IH]; intros f2 ivl lo hi mr r I M H L N1 N2; [lia|].
  destruct f2 as [|f2]; [lia|].
  destruct (need r) as [|n] eqn:Nr.
  - rewrite !age_one_accepted by (try assumption; apply rng_next_past_end; exact Nr). reflexivity.
  - cbn [sample_boundary]. pose proof (rng_next_need r) as NN. destruct (rng_next r) as [age r']. simpl in NN.
    assert (R : sample_boundary f1 ivl lo hi mr r' = sample_boundary f2 ivl lo hi mr r') by (apply IH; try assumption; lia).
    destruct (ANCHOR_AGE_CAP <? age); [exact R|].
    destruct ((U32MAX <? age * ivl) || (mr <? age * ivl)); [exact R|].
    destruct ((lo <=? mr - age * ivl) && (mr - age * ivl <=? hi)); [reflexivity | exact R].
Qed.

Lemma boundary_below_le : forall ivl h, 1 <= ivl -> boundary_at_or_below ivl h <= h /\ 0 <= h - boundary_at_or_below ivl h.
Proof.
  intros ivl h I. unfold boundary_at_or_below. pose proof (Z.mod_pos_bound h ivl ltac:(lia)). lia.
Qed.

(** [redraw_fuel_irrelevant]: any fuel of at least 64 gives the same result as the model's 64 *)
Theorem redraw_fuel_irrelevant : forall F ivl prior bh r, (64 <= F)%nat -> 1 <= ivl <= U32MAX ->
  (need r <= 63)%nat ->
  redraw_anchor_boundary_f F ivl prior bh r = redraw_anchor_boundary ivl prior bh r.
Proof.
  intros F ivl prior bh r HF I N. unfold redraw_anchor_boundary, redraw_anchor_boundary_f.
  destruct (boundary_at_or_below ivl bh <? ivl) eqn:Q1; [reflexivity|].
  destruct (boundary_at_or_below ivl bh - ivl <? boundary_at_or_above ivl prior) eqn:Q2; [reflexivity|].
  rewrite (sample_stable F 64 ivl _ _ _ r); try lia. reflexivity.
Qed.

(** the script is never rewound: the number of scripted ages still ahead only decreases *)
Lemma sample_need : forall f ivl lo hi mr r, (need (snd (sample_boundary f ivl lo hi mr r)) <= need r)%nat
  /\ fst (snd (sample_boundary f ivl lo hi mr r)) = fst r.
Proof.
  induction f as [|f IH]; intros ivl lo hi mr r; cbn [sample_boundary]; [simpl; split; [lia|reflexivity]|].
  pose proof (rng_next_need r) as NN. pose proof (rng_next_script r) as NS. destruct (rng_next r) as [age r']. simpl in NN, NS.
  destruct (IH ivl lo hi mr r') as [I1 I2].
  destruct (ANCHOR_AGE_CAP <? age); [split; [lia|congruence]|].
  destruct ((U32MAX <? age * ivl) || (mr <? age * ivl)); [split; [lia|congruence]|].
  destruct ((lo <=? mr - age * ivl) && (mr - age * ivl <=? hi)); simpl; [split; [lia|exact NS] | split; [lia|congruence]].
Qed.

Lemma redraw_need : forall F ivl prior bh r, (need (snd (redraw_anchor_boundary_f F ivl prior bh r)) <= need r)%nat.
Proof.
  intros. unfold redraw_anchor_boundary_f.
  destruct (_ <? ivl); [simpl; lia|]. destruct (_ <? _); [simpl; lia|].
  pose proof (sample_need F ivl (boundary_at_or_above ivl prior) (boundary_at_or_below ivl bh - ivl) (boundary_at_or_below ivl bh) r) as [S _].
  destruct (sample_boundary _ _ _ _ _ _). simpl in *. exact S.
Qed.
