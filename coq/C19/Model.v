(** C19 — executable model of [equihash::is_valid_solution]
    (components/equihash/src/{params.rs, minimal.rs, verify.rs}), same branches and order of
    checks; every [assert!], slice bound, division by zero and (debug-profile) overflow that the
    Rust can hit is a [Panic] here.  The BLAKE2b call is the Section variable [H]:
    [H g] = digest of [input ‖ nonce ‖ le32 g] under personalisation ["ZcashPoW" ‖ le32 n ‖ le32 k]
    with output length [hash_output n].  No proofs in this file. *)
From V.Lib Require Import Base Hex.
From V.Gen Require Import C19Params.
From V.C19 Require Import Compact.
Local Open Scope N_scope.

Inductive ekind := EInvalidParams | ECollision | EOutOfOrder | EDuplicateIdxs | ENonZeroRootHash | EOther.

Definition ekind_eqb (a b : ekind) : bool :=
  match a, b with
  | EInvalidParams, EInvalidParams | ECollision, ECollision | EOutOfOrder, EOutOfOrder
  | EDuplicateIdxs, EDuplicateIdxs | ENonZeroRootHash, ENonZeroRootHash | EOther, EOther => true
  | _, _ => false
  end.

Definition len {A} (l : list A) : N := N.of_nat (length l).

(** ** params.rs *)
(** [Params::new(n, k).is_some()]; [k + 1] cannot overflow [u32] where it is evaluated ([k < n]). *)
Definition params_new (n k : N) : bool :=
  (n mod 8 =? 0) && (K_MIN <=? k) && (k <? n) && (n mod (k + 1) =? 0) && (n <=? N_MAX) &&
  (let c := n / (k + 1) in (C_MIN <=? c) && (c + 1 <=? C1_MAX) && (k <=? c + 1)).

Definition indices_per_hash_output (n : N) : N := 512 / n.
Definition hash_output (n : N) : N := indices_per_hash_output n * n / 8.
Definition collision_bit_length (n k : N) : N := n / (k + 1).
Definition collision_byte_length (n k : N) : N := (collision_bit_length n k + 7) / 8.

(** ** minimal.rs *)
Definition u32_mask : N := 4294967295.

(** [x] ranges over [byte_pad .. out_width]. *)
Definition nrange (lo hi : N) : list N := map (fun i => lo + N.of_nat i) (seq 0 (N.to_nat (hi - lo))).

(** The bytes written for one output element: [byte_pad] untouched zeros, then
    [vout[j + x] = ((acc >> (acc_bits + 8(out_width-x-1))) & ((mask >> 8(out_width-x-1)) & 0xFF)) as u8].
    The shift amount is below 32 whenever the two asserts of [expand_array] hold. *)
Definition elem_bytes (acc acc_bits mask out_width byte_pad : N) : bytes :=
  repeat 0 (N.to_nat byte_pad) ++
  map (fun x => N.land (N.shiftr acc (acc_bits + 8 * (out_width - x - 1)))
                       (N.land (N.shiftr mask (8 * (out_width - x - 1))) 255))
      (nrange byte_pad out_width).

(** The [for b in vin] loop; the result is the written prefix of [vout]. *)
Fixpoint expand_loop (bit_len mask out_width byte_pad : N) (vin : bytes) (acc acc_bits : N) : bytes :=
  match vin with
  | [] => []
  | b :: r =>
      let acc := N.lor (N.land (N.shiftl acc 8) u32_mask) b in
      let acc_bits := acc_bits + 8 in
      if bit_len <=? acc_bits then
        let acc_bits := acc_bits - bit_len in
        elem_bytes acc acc_bits mask out_width byte_pad
          ++ expand_loop bit_len mask out_width byte_pad r acc acc_bits
      else expand_loop bit_len mask out_width byte_pad r acc acc_bits
  end.

Definition expand_array (vin : bytes) (bit_len byte_pad : N) : outcome bytes ekind :=
  if bit_len <? 8 then Panic                      (* assert!(bit_len >= 8) *)
  else if 32 <? 7 + bit_len then Panic            (* assert!(u32::BITS as usize >= 7 + bit_len) *)
  else
    let out_width := (bit_len + 7) / 8 + byte_pad in
    let out_len := 8 * out_width * len vin / bit_len in
    if out_len =? len vin then Ok vin             (* shortcut *)
    else
      let mask := N.shiftl 1 bit_len - 1 in
      let body := expand_loop bit_len mask out_width byte_pad vin 0 0 in
      if out_len <? len body then Panic           (* vout[j + x] out of bounds *)
      else Ok (body ++ repeat 0 (N.to_nat (out_len - len body))).

(** [while let Ok(i) = read_u32_be(&mut csr)]: big-endian words while 4 bytes remain. *)
Fixpoint read_u32s (l : bytes) : list N :=
  match l with
  | a :: b :: c :: d :: r => (((a * 256 + b) * 256 + c) * 256 + d) :: read_u32s r
  | _ => []
  end.

Definition usize_lim : N := 18446744073709551616.

(** [Ok None] is Rust's [None] (wrong length).  [(1 << p.k) * (c_bit_len + 1)] is [usize]
    arithmetic: overflow panics in the debug profile. *)
Definition indices_from_minimal (n k : N) (minimal : bytes) : outcome (option (list N)) ekind :=
  let c := collision_bit_length n k in
  if 64 <=? k then Panic
  else if usize_lim <=? 2 ^ k * (c + 1) then Panic
  else if negb (len minimal =? 2 ^ k * (c + 1) / 8) then Ok None
  else if 4 <? (c + 1 + 7) / 8 then Panic         (* assert!((c_bit_len + 1).div_ceil(8) <= size_of::<u32>()) *)
  else
    let byte_pad := 4 - (c + 1 + 7) / 8 in
    match expand_array minimal (c + 1) byte_pad with
    | Ok e => Ok (Some (read_u32s e))
    | _ => Panic
    end.

(** ** verify.rs *)
Record node := { hash : bytes; indices : list N }.

Section WithHash.
Variable H : N -> bytes.
Variables n k : N.

Definition slice (l : bytes) (s e : N) : bytes := firstn (N.to_nat (e - s)) (skipn (N.to_nat s) l).

Definition node_new (i : N) : outcome node ekind :=
  let iph := indices_per_hash_output n in
  if iph =? 0 then Panic                          (* i / 0 *)
  else
    let d := H (i / iph) in
    let start := (i mod iph) * n / 8 in
    let end_ := start + n / 8 in
    if len d <? end_ then Panic                   (* slice index out of range *)
    else match expand_array (slice d start end_) (collision_bit_length n k) 0 with
         | Ok h => Ok {| hash := h; indices := [i] |}
         | _ => Panic
         end.

(** [indices[0]]: nodes built by [node_new]/[from_children] never have an empty index list. *)
Definition indices_before (a b : node) : bool := hd 0 (indices a) <? hd 0 (indices b).

Definition from_children (a b : node) (trim : N) : node :=
  {| hash := map (fun p => N.lxor (fst p) (snd p)) (skipn (N.to_nat trim) (combine (hash a) (hash b)));
     indices := if indices_before a b then indices a ++ indices b else indices b ++ indices a |}.

Definition is_zero (a : node) (l : N) : bool := forallb (fun v => v =? 0) (firstn (N.to_nat l) (hash a)).

Definition has_collision (a b : node) (l : N) : bool :=
  forallb (fun p => fst p =? snd p) (firstn (N.to_nat l) (combine (hash a) (hash b))).

Definition distinct_indices (a b : node) : bool :=
  forallb (fun i => forallb (fun j => negb (i =? j)) (indices b)) (indices a).

Definition validate_subtrees (a b : node) : option ekind :=
  if negb (has_collision a b (collision_byte_length n k)) then Some ECollision
  else if indices_before b a then Some EOutOfOrder
  else if negb (distinct_indices a b) then Some EDuplicateIdxs
  else None.

(** Recursion on the slice length, with [fuel] > length (never exhausted, see Proofs). *)
Fixpoint tree_validator (fuel : nat) (idxs : list N) : outcome node ekind :=
  match fuel with
  | O => Panic
  | S f =>
      if (1 <? length idxs)%nat then
        let mid := (length idxs / 2)%nat in
        match tree_validator f (firstn mid idxs) with
        | Ok a =>
            match tree_validator f (skipn mid idxs) with
            | Ok b =>
                match validate_subtrees a b with
                | Some e => Err e
                | None => Ok (from_children a b (collision_byte_length n k))
                end
            | o => o
            end
        | o => o
        end
      else match idxs with
           | i :: _ => node_new i
           | [] => Panic                          (* indices[0] on an empty slice *)
           end
  end.

Definition is_valid_solution_recursive (idxs : list N) : outcome unit ekind :=
  if hash_output n =? 0 then Panic                (* Blake2bParams::hash_length(0) *)
  else match tree_validator (S (length idxs)) idxs with
       | Ok root => if is_zero root (collision_byte_length n k) then Ok tt else Err ENonZeroRootHash
       | Err e => Err e
       | Panic => Panic
       end.

Definition is_valid (soln : bytes) : outcome unit ekind :=
  if negb (params_new n k) then Err EInvalidParams
  else match indices_from_minimal n k soln with
       | Ok (Some idxs) => is_valid_solution_recursive idxs
       | Ok None => Err EInvalidParams
       | Err e => Err e
       | Panic => Panic
       end.
End WithHash.

(** ** zcash_primitives/src/block.rs: BlockHeader::read
    A sequence of [read_exact]s on a cursor, then [Vector::read(.., read_u8)]: CompactSize length and
    that many single-byte reads.  [Read::read_exact] delivers the next bytes of the stream whatever
    the sizes in which the underlying reader hands them over, so the fragmentation is not a
    parameter of the model.  Result: (Equihash input = the six fields before the nonce as
    [write] re-serialises them, nonce, solution); [None] = io error. *)
Definition take (m : nat) (cur : bytes) : option (bytes * bytes) :=
  if (length cur <? m)%nat then None else Some (firstn m cur, skipn m cur).

Definition read_header (raw : bytes) : option (bytes * bytes * bytes) :=
  match take 4 raw with None => None | Some (version, c1) =>
  match take 32 c1 with None => None | Some (prev, c2) =>
  match take 32 c2 with None => None | Some (merkle, c3) =>
  match take 32 c3 with None => None | Some (root, c4) =>
  match take 4 c4 with None => None | Some (time, c5) =>
  match take 4 c5 with None => None | Some (bits, c6) =>
  match take 32 c6 with None => None | Some (nonce, c7) =>
  match read_compact c7 with None => None | Some (l, c8) =>
  match take (N.to_nat l) c8 with None => None | Some (soln, _) =>
    Some (version ++ prev ++ merkle ++ root ++ time ++ bits, nonce, soln)
  end end end end end end end end end.
