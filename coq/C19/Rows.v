(** C19 — big-endian byte rows: recomposition, XOR, and the two uses of [expand_array]
    (decoding the indices, expanding a hash into collision segments). *)
From Coq Require Import ZifyBool Btauto.
From V.Lib Require Import Base Hex.
From V.C19 Require Import Model Spec Bits Expand.
Local Open Scope N_scope.

Fixpoint be_bytesn (w : nat) (e : N) : bytes :=
  match w with
  | O => []
  | S w' => lo (hi e (8 * N.of_nat w')) 8 :: be_bytesn w' e
  end.

Lemma be_bytes_n w e : be_bytes (N.of_nat w) e = be_bytesn w e.
Proof.
  unfold be_bytes, nrange. rewrite N.sub_0_r, Nat2N.id, map_map.
  induction w as [|w IH].
  - reflexivity.
  - cbn [seq map be_bytesn]. f_equal.
    + f_equal. f_equal. lia.
    + rewrite <- IH, <- seq_shift, map_map. apply map_ext. intro i.
      f_equal. f_equal. lia.
Qed.

Lemma be_bytesn_length w e : length (be_bytesn w e) = w.
Proof. induction w; cbn [be_bytesn length]; auto. Qed.

Lemma be_bytesn_bytes w e : bytesP (be_bytesn w e).
Proof.
  induction w; cbn [be_bytesn]; constructor; auto.
  change 256 with (2 ^ 8). apply lo_lt.
Qed.

Lemma lo_split e s t : lo e (s + t) = lo (hi e s) t * 2 ^ s + lo e s.
Proof.
  apply N.bits_inj. intro i. rewrite tb_cat by apply lo_lt. rewrite !tb_lo, tb_hi.
  destruct (i <? s) eqn:E.
  - replace (i <? s + t) with true by lia. reflexivity.
  - replace (i - s + s) with i by lia. replace (i - s <? t) with (i <? s + t) by lia. reflexivity.
Qed.

Lemma be_N_be_bytesn w e : be_N (be_bytesn w e) = lo e (8 * N.of_nat w).
Proof.
  induction w as [|w IH].
  - cbn [be_bytesn]. replace (8 * N.of_nat 0) with 0 by lia. unfold lo. change (N.ones 0) with 0.
    rewrite N.land_0_r. reflexivity.
  - cbn [be_bytesn]. rewrite be_N_cons, IH. unfold len. rewrite be_bytesn_length.
    replace (8 * N.of_nat (S w)) with (8 * N.of_nat w + 8) by lia. rewrite lo_split. reflexivity.
Qed.

Lemma be_bytesn_inj w a b : a < 2 ^ (8 * N.of_nat w) -> b < 2 ^ (8 * N.of_nat w) ->
  be_bytesn w a = be_bytesn w b -> a = b.
Proof.
  intros Ha Hb E. apply (f_equal be_N) in E. rewrite !be_N_be_bytesn, !lo_small in E; assumption.
Qed.

Lemma be_bytesn_lxor w a b :
  be_bytesn w (N.lxor a b) = map (fun p => N.lxor (fst p) (snd p)) (combine (be_bytesn w a) (be_bytesn w b)).
Proof.
  induction w as [|w IH]; [reflexivity|].
  cbn [be_bytesn combine map fst snd]. rewrite IH, hi_lxor, lo_lxor. reflexivity.
Qed.

Lemma be_bytesn_0 w : be_bytesn w 0 = repeat 0 w.
Proof. induction w as [|w IH]; [reflexivity|]. cbn [be_bytesn repeat]. rewrite IH, hi_0, lo_0. reflexivity. Qed.

(** bytes below position [8w] only *)
Lemma be_bytesn_cat w' : forall w x y, (w' <= w)%nat -> y < 2 ^ (8 * N.of_nat w) ->
  be_bytesn w' (x * 2 ^ (8 * N.of_nat w) + y) = be_bytesn w' y.
Proof.
  induction w' as [|w' IH]; intros w x y Hw Hy; [reflexivity|].
  cbn [be_bytesn]. rewrite IH by (assumption || lia). f_equal.
  apply N.bits_inj. intro i. rewrite !tb_lo, !tb_hi, tb_cat by assumption.
  destruct (i <? 8) eqn:E; [|rewrite !andb_false_r; reflexivity].
  replace (i + 8 * N.of_nat w' <? 8 * N.of_nat w) with true by lia. reflexivity.
Qed.

Lemma be_bytesn_be_N a : bytesP a -> be_bytesn (length a) (be_N a) = a.
Proof.
  induction 1 as [|x r Hx Hr IH]; [reflexivity|].
  cbn [length be_bytesn]. rewrite be_N_cons. unfold len.
  rewrite be_bytesn_cat by (try lia; apply (be_N_lt r Hr)). rewrite IH. f_equal.
  replace (8 * N.of_nat (length r)) with (0 + 8 * N.of_nat (length r)) at 2 by lia.
  rewrite hi_cat by (apply (be_N_lt r Hr)).
  change (hi x 0) with x. apply lo_small. assumption.
Qed.

Lemma be_N_app a b : be_N (a ++ b) = be_N a * 2 ^ (8 * len b) + be_N b.
Proof. unfold be_N at 1. rewrite fold_left_app. fold (be_N a). apply be_N_acc. Qed.

Lemma be_N_zeros m l : be_N (repeat 0 m ++ l) = be_N l.
Proof.
  rewrite be_N_app. replace (be_N (repeat 0 m)) with 0; [lia|].
  induction m; [reflexivity|]. cbn [repeat]. rewrite be_N_cons. lia.
Qed.

(** ** digits *)
Lemma digits_length b cnt : forall T tot, length (digits b cnt T tot) = cnt.
Proof. induction cnt; intros; cbn [digits length]; auto. Qed.

Lemma digits_lt b cnt : forall T tot, Forall (fun d => d < 2 ^ b) (digits b cnt T tot).
Proof. induction cnt; intros; cbn [digits]; constructor; auto. apply lo_lt. Qed.

Lemma digits_lxor b cnt : forall A B tot,
  digits b cnt (N.lxor A B) tot = map (fun p => N.lxor (fst p) (snd p)) (combine (digits b cnt A tot) (digits b cnt B tot)).
Proof.
  induction cnt as [|cnt IH]; intros; [reflexivity|].
  cbn [digits combine map fst snd]. rewrite !lo_lxor, hi_lxor, lo_lxor, IH. reflexivity.
Qed.

Lemma digits_0 b cnt : forall tot, digits b cnt 0 tot = repeat 0 cnt.
Proof. induction cnt as [|cnt IH]; intros; [reflexivity|]. cbn [digits repeat]. rewrite hi_0, !lo_0, IH. reflexivity. Qed.

(** byte-aligned digits of a byte string are the string itself (the [expand_array] shortcut) *)
Lemma digits_aligned W cnt : forall vin, bytesP vin -> length vin = (cnt * W)%nat ->
  flat_map (be_bytesn W) (digits (8 * N.of_nat W) cnt (be_N vin) (8 * len vin)) = vin.
Proof.
  induction cnt as [|cnt IH]; intros vin Hv Hl.
  - destruct vin; [reflexivity | discriminate].
  - cbn [digits flat_map].
    rewrite <- (firstn_skipn W vin) in Hv. apply Forall_app in Hv. destruct Hv as [Ha Hr].
    assert (La : length (firstn W vin) = W) by (rewrite firstn_length; lia).
    assert (Lr : length (skipn W vin) = (cnt * W)%nat) by (rewrite skipn_length; lia).
    set (a := firstn W vin) in *. set (r := skipn W vin) in *.
    assert (E : 8 * len vin - 8 * N.of_nat W = 8 * len r).
    { unfold len. rewrite Lr, Hl. lia. }
    rewrite E.
    assert (Ev : be_N vin = be_N a * 2 ^ (8 * len r) + be_N r).
    { rewrite <- (firstn_skipn W vin) at 1. fold a r. apply be_N_app. }
    rewrite Ev.
    pose proof (be_N_lt r Hr) as Br.
    assert (Ba : be_N a < 2 ^ (8 * N.of_nat W)).
    { pose proof (be_N_lt a Ha) as B. unfold len in B. rewrite La in B. exact B. }
    assert (H1 : hi (be_N a * 2 ^ (8 * len r) + be_N r) (8 * len r) = be_N a).
    { replace (8 * len r) with (0 + 8 * len r) at 2 by lia. rewrite hi_cat by assumption. reflexivity. }
    assert (H2 : lo (be_N a * 2 ^ (8 * len r) + be_N r) (8 * len r) = be_N r).
    { replace (8 * len r) with (0 + 8 * len r) at 2 by lia. rewrite lo_cat by assumption.
      unfold lo at 1. change (N.ones 0) with 0. rewrite N.land_0_r. lia. }
    rewrite H1, H2, lo_small by assumption. rewrite IH by assumption.
    rewrite <- La at 1. rewrite be_bytesn_be_N by assumption.
    apply firstn_skipn.
Qed.
