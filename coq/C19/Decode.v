(** C19 — the two uses of [expand_array]: decoding the solution into indices and expanding a
    hash into collision segments; both equal the digit decomposition of Spec.v. *)
From Coq Require Import ZifyBool Btauto.
From V.Lib Require Import Base Hex.
From V.C19 Require Import Model Spec Bits Expand Rows.
Local Open Scope N_scope.
Ltac Zify.zify_post_hook ::= Z.to_euclidean_division_equations.

Lemma in_firstn {A} m (l : list A) x : In x (firstn m l) -> In x l.
Proof. intros. rewrite <- (firstn_skipn m l). apply in_or_app. left. assumption. Qed.
Lemma in_skipn {A} m (l : list A) x : In x (skipn m l) -> In x l.
Proof. intros. rewrite <- (firstn_skipn m l). apply in_or_app. right. assumption. Qed.

Lemma read4 a b c d r : read_u32s (a :: b :: c :: d :: r) = be_N [a; b; c; d] :: read_u32s r.
Proof. reflexivity. Qed.

Lemma read_elem pad w d rest : (pad + w = 4)%nat -> d < 2 ^ (8 * N.of_nat w) ->
  read_u32s ((repeat 0 pad ++ be_bytesn w d) ++ rest) = d :: read_u32s rest.
Proof.
  intros Hw Hd.
  assert (L : length (repeat 0 pad ++ be_bytesn w d) = 4%nat)
    by (rewrite app_length, repeat_length, be_bytesn_length; exact Hw).
  assert (V : be_N (repeat 0 pad ++ be_bytesn w d) = d)
    by (rewrite be_N_zeros, be_N_be_bytesn; apply lo_small; exact Hd).
  destruct (repeat 0 pad ++ be_bytesn w d) as [|a [|b [|c [|e [|]]]]]; try discriminate.
  cbn [app]. rewrite read4, V. reflexivity.
Qed.

Lemma read_elems pad w ds : (pad + w = 4)%nat -> Forall (fun d => d < 2 ^ (8 * N.of_nat w)) ds ->
  read_u32s (flat_map (fun d => repeat 0 pad ++ be_bytesn w d) ds) = ds.
Proof.
  intros Hw. induction 1 as [|d r Hd _ IH]; [reflexivity|].
  cbn [flat_map]. rewrite read_elem by assumption. f_equal. exact IH.
Qed.

Lemma flat_map_length_const {A B} (f : A -> list B) w l :
  (forall x, length (f x) = w) -> length (flat_map f l) = (length l * w)%nat.
Proof.
  intros Hf. induction l as [|x r IH]; [reflexivity|].
  cbn [flat_map length]. rewrite app_length, Hf, IH. lia.
Qed.

Lemma elem_eq W pad e : pad <= W ->
  elem W pad e = repeat 0 (N.to_nat pad) ++ be_bytesn (N.to_nat (W - pad)) e.
Proof. intros. unfold elem. rewrite <- be_bytes_n, N2Nat.id. reflexivity. Qed.

(** [expand_array] outside the shortcut, when the output length is exactly [count * width]. *)
Lemma expand_array_digits vin b pad cnt :
  8 <= b -> b <= 25 -> bytesP vin ->
  8 * len vin = cnt * b ->
  (b + 7) / 8 + pad <> b / 8 \/ b mod 8 <> 0 ->
  cnt <> 0 ->
  expand_array vin b pad =
    Ok (flat_map (fun d => repeat 0 (N.to_nat pad) ++ be_bytesn (N.to_nat ((b + 7) / 8)) d)
                 (digits b (N.to_nat cnt) (be_N vin) (8 * len vin))).
Proof.
  intros Hb1 Hb2 Hv Hl Hns Hc. unfold expand_array.
  replace (b <? 8) with false by lia. replace (32 <? 7 + b) with false by lia.
  set (W := (b + 7) / 8 + pad).
  assert (HW : 8 * W * len vin / b = W * cnt).
  { replace (8 * W * len vin) with (W * cnt * b) by nia. apply N.div_mul. lia. }
  rewrite HW.
  assert (Hne : (W * cnt =? len vin) = false).
  { apply N.eqb_neq. intro E.
    assert (8 * W * cnt = cnt * b) by lia.
    assert (8 * W = b) by nia.
    assert (b / 8 = W) by (symmetry; apply N.div_unique_exact; lia).
    assert (b mod 8 = 0) by (apply N.mod_divide; [lia | exists W; lia]).
    destruct Hns as [Hns|Hns]; apply Hns; [fold W; lia | assumption]. }
  rewrite Hne. rewrite ones_mask.
  rewrite (expand_loop_spec b W pad Hb1 Hb2 ltac:(unfold W; lia) vin 0 0 Hv ltac:(lia)).
  change (lo 0 0) with 0. rewrite N.mul_0_l, !N.add_0_l.
  rewrite Hl, N.div_mul by lia.
  assert (EL : forall d, elem W pad d = repeat 0 (N.to_nat pad) ++ be_bytesn (N.to_nat ((b + 7) / 8)) d).
  { intro d. rewrite elem_eq by (unfold W; lia). f_equal. f_equal. unfold W. lia. }
  rewrite (flat_map_ext _ _ EL).
  set (body := flat_map _ _).
  assert (LB : len body = W * cnt).
  { unfold len, body. rewrite (flat_map_length_const _ (N.to_nat W)).
    - rewrite digits_length. lia.
    - intro d. rewrite app_length, repeat_length, be_bytesn_length. unfold W. lia. }
  rewrite LB. replace (W * cnt <? W * cnt) with false by lia.
  rewrite N.sub_diag. cbn [N.to_nat repeat]. rewrite app_nil_r. reflexivity.
Qed.

Section D.
Variable H : N -> bytes.
Variables n k : N.
Hypothesis PO : params_ok n k.

Let c := cbits n k.
Let q := n / 8.

Lemma n_8q : n = 8 * q.
Proof. destruct PO as (A & _). unfold q. apply N.div_exact in A; lia. Qed.
Lemma n_kc : n = (k + 1) * c.
Proof. destruct PO as (_ & _ & _ & A & _). unfold c, cbits. apply N.div_exact in A; lia. Qed.
Lemma c_bounds : 8 <= c /\ c + 1 <= 25 /\ 3 <= k /\ k <= c + 1 /\ n <= 512 /\ 0 < n.
Proof. destruct PO as (_ & A & B & _ & C & D & E & F). fold c in D, E, F. lia. Qed.

Lemma pow_k : exists P, 2 ^ k = 8 * P /\ 0 < P /\ 2 ^ k <= 33554432.
Proof.
  pose proof c_bounds as (A & B & C & D & _).
  exists (2 ^ (k - 3)). replace k with (3 + (k - 3)) at 1 by lia. rewrite N.pow_add_r.
  split; [reflexivity|]. split.
  - apply N.neq_0_lt_0, N.pow_nonzero. lia.
  - change 33554432 with (2 ^ 25). apply N.pow_le_mono_r; lia.
Qed.

Lemma soln_len_eq : exists P, 2 ^ k = 8 * P /\ 0 < P /\ soln_len n k = P * (c + 1).
Proof.
  destruct pow_k as (P & E & HP & _). exists P. repeat split; try assumption.
  unfold soln_len. fold c. rewrite E. replace (8 * P * (c + 1)) with (P * (c + 1) * 8) by lia.
  apply N.div_mul. lia.
Qed.

Lemma ifm_spec soln : bytesP soln ->
  indices_from_minimal n k soln =
    if nlen soln =? soln_len n k then Ok (Some (soln_indices n k soln)) else Ok None.
Proof.
  intros Hs. pose proof c_bounds as (A & B & C & D & _).
  destruct pow_k as (P0 & E0 & HP0 & Hk).
  destruct soln_len_eq as (P & E & HP & SL).
  unfold indices_from_minimal. cbv zeta. change (collision_bit_length n k) with c.
  replace (64 <=? k) with false by lia.
  replace (usize_lim <=? 2 ^ k * (c + 1)) with false by (unfold usize_lim; nia).
  change (2 ^ k * (c + 1) / 8) with (soln_len n k). rewrite len_nlen.
  destruct (nlen soln =? soln_len n k) eqn:L; [|reflexivity]. cbn [negb].
  apply N.eqb_eq in L.
  replace (4 <? (c + 1 + 7) / 8) with false by lia.
  rewrite (expand_array_digits soln (c + 1) (4 - (c + 1 + 7) / 8) (2 ^ k)); try lia; try assumption.
  - f_equal. f_equal. rewrite read_elems.
    + unfold soln_indices. fold c. rewrite N2Nat.inj_pow. reflexivity.
    + lia.
    + eapply Forall_impl; [|apply digits_lt]. intros d Hd. cbv beta in Hd.
      eapply N.lt_le_trans; [exact Hd|]. apply N.pow_le_mono_r; lia.
  - rewrite len_nlen, L, SL, E. lia.
Qed.

(** *** Leaf rows *)
Definition Wn : nat := N.to_nat ((c + 7) / 8).
Definition enc (segs : list N) : bytes := flat_map (be_bytesn Wn) segs.
Definition segs_of (T : N) : list N := digits c (S (N.to_nat k)) T n.

Definition digest_ok (i : N) : Prop :=
  nlen (H (i / (512 / n))) = hash_output n /\ bytesP (H (i / (512 / n))).

Lemma node_new_spec i : digest_ok i ->
  node_new H n k i = Ok {| hash := enc (segs_of (X H n i)); indices := [i] |}.
Proof.
  intros [DL DB]. pose proof c_bounds as (A & B & C & D & E & F).
  pose proof n_8q as Nq. pose proof n_kc as Nk.
  unfold node_new, indices_per_hash_output. set (m := 512 / n) in *.
  assert (Hm : 0 < m) by (unfold m; apply N.div_str_pos; lia).
  replace (m =? 0) with false by lia.
  assert (S1 : (i mod m) * n / 8 = (i mod m) * q).
  { rewrite Nq. replace (i mod m * (8 * q)) with (i mod m * q * 8) by lia. apply N.div_mul. lia. }
  rewrite S1. fold q.
  assert (HO : hash_output n = m * q).
  { unfold hash_output, indices_per_hash_output. fold m. rewrite Nq at 1.
    replace (m * (8 * q)) with (m * q * 8) by lia. apply N.div_mul. lia. }
  pose proof (N.mod_lt i m ltac:(lia)) as Hi.
  set (d := H (i / m)) in *. rewrite len_nlen, DL, HO.
  replace (m * q <? i mod m * q + q) with false by nia.
  unfold slice. replace (i mod m * q + q - i mod m * q) with q by lia.
  set (vin := firstn (N.to_nat q) (skipn (N.to_nat (i mod m * q)) d)).
  assert (XE : X H n i = be_N vin) by reflexivity.
  assert (Lv : length vin = N.to_nat q).
  { unfold vin. rewrite firstn_length, skipn_length. unfold nlen in DL. nia. }
  assert (Bv : bytesP vin).
  { unfold vin. apply Forall_forall. intros x Hx. apply in_firstn, in_skipn in Hx.
    revert x Hx. apply Forall_forall. exact DB. }
  change (collision_bit_length n k) with c.
  assert (L8 : 8 * len vin = (k + 1) * c) by (unfold len; rewrite Lv; lia).
  set (W := (c + 7) / 8).
  assert (WW : N.of_nat Wn = W) by (unfold Wn; fold W; lia).
  unfold enc, segs_of. rewrite XE.
  replace (S (N.to_nat k)) with (N.to_nat (k + 1)) by lia.
  replace (digits c (N.to_nat (k + 1)) (be_N vin) n)
    with (digits c (N.to_nat (k + 1)) (be_N vin) (8 * len vin)) by (f_equal; lia).
  destruct (N.eq_dec (c mod 8) 0) as [Z|NZ].
  - (* expansion is the identity *)
    assert (C8 : c = 8 * W) by (unfold W; lia).
    unfold expand_array. replace (c <? 8) with false by lia. replace (32 <? 7 + c) with false by lia.
    fold W. rewrite N.add_0_r.
    replace (8 * W * len vin / c) with (len vin).
    2:{ apply N.div_unique_exact; [lia|]. rewrite C8 in L8 |- *. nia. }
    rewrite N.eqb_refl. f_equal. f_equal.
    rewrite C8 at 1. rewrite <- WW. symmetry. apply digits_aligned; [assumption|].
    assert (len vin = (k + 1) * W) by nia. unfold len in *. nia.
  - rewrite (expand_array_digits vin c 0 (k + 1)); try lia; try assumption.
    reflexivity.
Qed.
End D.
