(** C19 — bit-level facts about [hi] (shift right) and [lo] (mask) used by the proofs. *)
From Coq Require Import ZifyBool Btauto.
From V.Lib Require Import Base Hex.
From V.C19 Require Import Spec.
Local Open Scope N_scope.

Lemma hi_div T m : hi T m = T / 2 ^ m.
Proof. apply N.shiftr_div_pow2. Qed.
Lemma lo_mod T m : lo T m = T mod 2 ^ m.
Proof. apply N.land_ones. Qed.

Lemma tb_hi a s i : N.testbit (hi a s) i = N.testbit a (i + s).
Proof. apply N.shiftr_spec'. Qed.
Lemma tb_ones n i : N.testbit (N.ones n) i = (i <? n).
Proof.
  destruct (i <? n) eqn:E.
  - apply N.ones_spec_low. lia.
  - apply N.ones_spec_high. lia.
Qed.
Lemma tb_lo a m i : N.testbit (lo a m) i = N.testbit a i && (i <? m).
Proof. unfold lo. rewrite N.land_spec, tb_ones. reflexivity. Qed.
Lemma tb_shiftl a s i : N.testbit (N.shiftl a s) i = (s <=? i) && N.testbit a (i - s).
Proof.
  destruct (s <=? i) eqn:E.
  - rewrite N.shiftl_spec_high' by lia. reflexivity.
  - rewrite N.shiftl_spec_low by lia. reflexivity.
Qed.
Lemma tb_small a m i : a < 2 ^ m -> m <= i -> N.testbit a i = false.
Proof.
  intros Ha Hi. destruct (N.eq_dec a 0) as [->|Hz]; [apply N.bits_0|].
  apply N.bits_above_log2. apply N.log2_lt_pow2 in Ha; lia.
Qed.
Lemma lo_small a m : a < 2 ^ m -> lo a m = a.
Proof. intros. rewrite lo_mod. apply N.mod_small. assumption. Qed.
Lemma lo_lt a m : lo a m < 2 ^ m.
Proof. rewrite lo_mod. apply N.mod_lt. apply N.pow_nonzero. lia. Qed.
Lemma hi_lt a s m : a < 2 ^ (s + m) -> hi a s < 2 ^ m.
Proof.
  intros. rewrite hi_div. apply N.div_lt_upper_bound; [apply N.pow_nonzero; lia|].
  rewrite <- N.pow_add_r. assumption.
Qed.

(** [x * 2^m + y] with [y < 2^m] is a concatenation of bit strings. *)
Lemma tb_cat x y m i : y < 2 ^ m ->
  N.testbit (x * 2 ^ m + y) i = if i <? m then N.testbit y i else N.testbit x (i - m).
Proof.
  intros Hy.
  assert (E : x * 2 ^ m + y = N.lor (N.shiftl x m) y).
  { rewrite <- N.shiftl_mul_pow2. rewrite N.add_nocarry_lxor; [apply N.lxor_lor|];
    apply N.bits_inj; intro j; rewrite N.land_spec, tb_shiftl, N.bits_0;
    destruct (m <=? j) eqn:F; cbn [andb]; try reflexivity;
    rewrite (tb_small y m j) by (assumption || lia); apply andb_false_r. }
  rewrite E, N.lor_spec, tb_shiftl.
  destruct (i <? m) eqn:F.
  - replace (m <=? i) with false by lia. reflexivity.
  - replace (m <=? i) with true by lia. rewrite (tb_small y m i) by (assumption || lia).
    cbn [andb]. apply orb_false_r.
Qed.

Lemma hi_cat x y m s : y < 2 ^ m -> hi (x * 2 ^ m + y) (s + m) = hi x s.
Proof.
  intros Hy. apply N.bits_inj. intro i. rewrite !tb_hi, tb_cat by assumption.
  replace (i + (s + m) <? m) with false by lia. f_equal. lia.
Qed.
Lemma lo_cat x y m s : y < 2 ^ m -> lo (x * 2 ^ m + y) (s + m) = lo x s * 2 ^ m + y.
Proof.
  intros Hy. apply N.bits_inj. intro i. rewrite tb_lo, !tb_cat, tb_lo by assumption.
  destruct (i <? m) eqn:F.
  - replace (i <? s + m) with true by lia. apply andb_true_r.
  - f_equal. lia.
Qed.
Lemma hi_lo a s b : hi (lo a (s + b)) s = lo (hi a s) b.
Proof.
  apply N.bits_inj. intro i. rewrite tb_hi, !tb_lo, tb_hi. f_equal. lia.
Qed.
Lemma lo_lo a s t : s <= t -> lo (lo a t) s = lo a s.
Proof.
  intros. apply N.bits_inj. intro i. rewrite !tb_lo.
  destruct (i <? s) eqn:E; [replace (i <? t) with true by lia | ]; btauto.
Qed.
Lemma hi_hi a s t : hi (hi a s) t = hi a (s + t).
Proof. apply N.bits_inj. intro i. rewrite !tb_hi. f_equal. lia. Qed.
Lemma hi_lxor a b s : hi (N.lxor a b) s = N.lxor (hi a s) (hi b s).
Proof. apply N.shiftr_lxor. Qed.
Lemma lo_lxor a b s : lo (N.lxor a b) s = N.lxor (lo a s) (lo b s).
Proof.
  apply N.bits_inj. intro i. rewrite tb_lo, !N.lxor_spec, !tb_lo. btauto.
Qed.
Lemma hi_0 s : hi 0 s = 0.
Proof. apply N.shiftr_0_l. Qed.
Lemma lo_0 s : lo 0 s = 0.
Proof. apply N.land_0_l. Qed.
