(** C19 — CompactSize decoding (zcash_encoding::CompactSize::read), shared by the header reader of
    Model.v and the header layout of Spec.v. *)
From V.Lib Require Import Base Hex.
Local Open Scope N_scope.

Definition le_N (l : bytes) : N := fold_right (fun b a => b + 256 * a) 0 l.
Definition MAX_COMPACT : N := 33554432.

(** value and remaining bytes; [None] = read error (short input, non-canonical, too large) *)
Definition read_compact (l : bytes) : option (N * bytes) :=
  match l with
  | [] => None
  | f :: r =>
      let w := if f <? 253 then 0%nat else if f =? 253 then 2%nat else if f =? 254 then 4%nat else 8%nat in
      let least := if f <? 253 then 0 else if f =? 253 then 253 else if f =? 254 then 65536 else 4294967296 in
      if (length r <? w)%nat then None
      else
        let v := if f <? 253 then f else le_N (firstn w r) in
        if v <? least then None                 (* non-canonical *)
        else if MAX_COMPACT <? v then None      (* too large *)
        else Some (v, skipn w r)
  end.
