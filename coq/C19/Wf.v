(** C19 — domain of the theorems as a boolean on cases: [u32] parameters, byte strings of bytes,
    and a digest of the right length for every index the solution decodes to. *)
From V.Lib Require Import Base Hex.
From V.C19 Require Import Model Spec Corr.
Local Open Scope N_scope.

Definition digest_okb (n : N) (d : bytes) : bool := (nlen d =? hash_output n) && is_bytes d.

Definition wf_case (c : case) : bool :=
  match c with
  | Eh n k input nonce soln t _ =>
      (n <? 2 ^ 32) && (k <? 2 ^ 32) && is_bytes input && is_bytes nonce && is_bytes soln &&
      forallb (fun e => is_bytes (snd e)) t &&
      (* nested [if]s: [&&] would evaluate [soln_len] (a power of two) for absurd [k] *)
      (if params_okb n k
       then if nlen soln =? soln_len n k
            then forallb (fun i => digest_okb n (lookup t (i / (512 / n)))) (soln_indices n k soln)
            else true
       else true)
  | Hd raw frag _ => is_bytes raw && (frag <? 2 ^ 32)
  end.
