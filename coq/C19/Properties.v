(** C19 — property theorems only. Each is closed by [exact] of a lemma from Main.v / Proofs.v
    and audited by Print Assumptions. *)
From Coq Require Import Uint63.
From V.Lib Require Import Base Hex.
From V.C19 Require Import Model Spec Bits Expand Decode Corr Wf Proofs Main Extra.
Local Open Scope N_scope.

(** The verifier accepts exactly the valid solutions — soundness and completeness of the recursive
    validator (expanded byte rows, trimmed hashes, sibling-only ordering and distinctness checks)
    against the declarative definition [Valid] of Spec.v, for every hash function [H] whose
    digests have [hash_output n] bytes. *)
Theorem C19_is_valid_iff : forall H n k soln,
  params_ok n k -> bytesP soln -> digests_good H n ->
  (is_valid H n k soln = Ok tt <-> Valid H n k soln).
Proof. exact is_valid_iff. Qed.

(** The same when only the digests of the indices the solution decodes to are known to be
    well-formed (what a finite digest table provides). *)
Theorem C19_is_valid_iff_local : forall H n k, params_ok n k -> forall soln, bytesP soln ->
  (nlen soln = soln_len n k -> digests_ok H n (soln_indices n k soln)) ->
  (is_valid H n k soln = Ok tt <-> Valid H n k soln).
Proof. exact is_valid_iff_local. Qed.

(** Parameters outside [params_ok] are an error, whatever the solution. *)
Theorem C19_bad_params_err : forall H n k soln, ~ params_ok n k -> is_valid H n k soln = Err EInvalidParams.
Proof. exact bad_params_err. Qed.

(** A solution of the wrong length is an error, whatever the parameters. *)
Theorem C19_bad_length_err : forall H n k soln, bytesP soln -> nlen soln <> soln_len n k ->
  is_valid H n k soln = Err EInvalidParams.
Proof. exact bad_length_err. Qed.

(** No [assert!], slice bound, division by zero, overflow or index in the verifier can fire:
    for all [u32] parameters, all solutions, all inputs. *)
Theorem C19_is_valid_no_panic : forall H n k soln, bytesP soln ->
  (params_ok n k -> nlen soln = soln_len n k -> digests_ok H n (soln_indices n k soln)) ->
  is_valid H n k soln <> Panic.
Proof. exact is_valid_no_panic. Qed.

(** The model's [Params::new] is the declarative [params_ok]. *)
Theorem C19_params_new_ok : forall n k, params_new n k = true <-> params_ok n k.
Proof. intros n k. rewrite params_new_okb. apply params_okb_iff. Qed.

(** [expand_array]'s accumulator loop on a truncated [u32] peels big-endian digits. *)
Theorem C19_expand_loop_digits : forall b W pad, 8 <= b -> b <= 25 -> pad <= W ->
  forall vin acc ab, bytesP vin -> ab < b ->
    expand_loop b (N.ones b) W pad vin acc ab =
    flat_map (elem W pad)
      (digits b (N.to_nat ((ab + 8 * len vin) / b)) (lo acc ab * 2 ^ (8 * len vin) + be_N vin) (ab + 8 * len vin)).
Proof. exact expand_loop_spec. Qed.

(** [indices_from_minimal] decodes exactly the [2^k] digits of [c+1] bits, or reports a wrong length. *)
Theorem C19_indices_from_minimal : forall (H : N -> bytes) n k, params_ok n k -> forall soln, bytesP soln ->
  indices_from_minimal n k soln =
    if nlen soln =? soln_len n k then Ok (Some (soln_indices n k soln)) else Ok None.
Proof. exact ifm_spec. Qed.

(** The shifts and masks of Spec.v are division and remainder by powers of two. *)
Theorem C19_hi_div : forall T m, hi T m = T / 2 ^ m.
Proof. exact hi_div. Qed.
Theorem C19_lo_mod : forall T m, lo T m = T mod 2 ^ m.
Proof. exact lo_mod. Qed.

(** The boolean used by [prop_case] decides [Valid]. *)
Theorem C19_validb_iff : forall H n k soln, validb H n k soln = true <-> Valid H n k soln.
Proof. exact validb_iff. Qed.

(** Bridge: on a well-formed case, agreement of the implementation with the model implies the
    property on the implementation's outcome. *)
Theorem C19_bridge : forall c, wf_case c = true -> run_case c = true -> prop_case c = true.
Proof. exact bridge. Qed.

(** Solutions of the right length that differ (in any bit) decode to different index lists. *)
Theorem C19_solution_encoding_injective : forall n k s1 s2, params_ok n k -> bytesP s1 -> bytesP s2 ->
  nlen s1 = soln_len n k -> nlen s2 = soln_len n k ->
  soln_indices n k s1 = soln_indices n k s2 -> s1 = s2.
Proof. exact solution_encoding_injective. Qed.

(** Distinctness between siblings at every level makes all [2^k] indices distinct (for any n, k). *)
Theorem C19_valid_indices_distinct : forall H n k soln, Valid H n k soln -> NoDup (soln_indices n k soln).
Proof. exact valid_distinct. Qed.

(** Hence no valid solution exists unless [k <= n/(k+1) + 1]: the last bound of the repaired
    [Params::new] rejects no parameter pair for which some solution could verify. *)
Theorem C19_valid_needs_k_le : forall H n k soln, Valid H n k soln -> k <= cbits n k + 1.
Proof. exact valid_k_bound. Qed.

(** Header level: [BlockHeader::read]'s sequence of reads yields exactly the slices of the header
    layout (input = first 108 bytes, nonce = next 32, solution = the [len] bytes after the CompactSize
    prefix), or an error when the bytes are short / the prefix is not canonical. *)
Theorem C19_read_header_layout : forall raw, read_header raw = hdr_fields raw.
Proof. exact read_header_eq. Qed.

(** Non-vacuity: a solution found by the harness's solver for (n,k) = (32,3) is [Valid] and accepted. *)
Local Open Scope uint63_scope.
Definition ex_soln : bytes := (bw 9 [0x735e1bbd67fc2;0xbfd40000000000]).
Definition ex_table : table := [(0%N, (bw 64 [0x7900dc0be4874b;0x3554e66c72068d;0xe3c316189a1ff8;0xee4dd854949f2f;0xaec3e26018ec08;0x8821aeea1ddcb8;0x4cdd5d4bb59bb7;0x4b18ef596e58bb;0xec0c963baa8473;0x3b000000000000])); (12%N, (bw 64 [0x24e7baaaac4487;0x5d9863bda13616;0x6799b2119a68ab;0x9dc398f3f236d;0x3c3e2cadee7961;0x46bf8cd570f997;0xc5f99fe67a31e7;0xef360db1be2e31;0x4f134cc54acf93;0xe000000000000])); (13%N, (bw 64 [0x5a735510d28033;0x86b9f6130421ef;0x960770388cae02;0x68bfe992413a07;0xece30612f08c9a;0xf1bdceef08fd13;0xae802d579621ab;0xb3aa70ef6c3dd8;0x7822bf9bfee6e8;0x96000000000000])); (16%N, (bw 64 [0x17db6e5a94a2cc;0xa3fbc5df539ace;0xe6f86f4571786d;0xad8988c9e4b77d;0x19274924aed18;0xdec3b0ff5cc17a;0xbf699cdc13f122;0xfe9bd2d955fde1;0x29d20fa69086a8;0x4b000000000000])); (21%N, (bw 64 [0x90d48fcc66f924;0x7738b3f4c455e4;0xa33ec857ecce6c;0xf48c6fedae4ffb;0x5498d57722bbeb;0x2cde8bf27d606f;0x9bc115dddbb973;0x1cde8acf3a3e12;0x5e9db96e7ad491;0xb1000000000000])); (27%N, (bw 64 [0xbbe959eb5a790e;0x190ce548ae8917;0x899b24f5e465f5;0xb0aac3c89840ab;0xaee499598369a0;0xf569ba05adcd8e;0x8a3b8dbaa7b85b;0xa5c1d6d9ba782b;0x5a6015c1aef339;0xa5000000000000])); (29%N, (bw 64 [0xe97c0988c96bb8;0x97aebed452f35f;0xfe2b7a47498f9d;0x4c667d8b02ee48;0xbd5b13ea568650;0xd02873fe61e867;0x1351cc582dee50;0x1fb9357485faad;0x3300ed27fd4c6;0xcd000000000000])); (31%N, (bw 64 [0x4a5c5ed3a1e112;0x5f5cafb91dc7e3;0x3f4fcccca6ab95;0x6da9d02443ff07;0x930a0e8a2234a0;0xc6f03b4d0f5096;0x896127a310332a;0xbac793970387a7;0xaf042b8fb42eab;0xd5000000000000]))].
Example C19_nonvacuous : Valid (lookup ex_table) 32%N 3%N ex_soln /\ is_valid (lookup ex_table) 32%N 3%N ex_soln = Ok tt.
Proof. split; [apply validb_iff|]; vm_compute; reflexivity. Qed.
