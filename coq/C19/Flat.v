(** C19 — the recursive tree condition is the flat "every level, every aligned block" condition. *)
From Coq Require Import ZifyBool.
From V.Lib Require Import Base Hex.
From V.C19 Require Import Spec.

Section F.
Variable P : nat -> list N -> Prop.

Fixpoint TreeP (r : nat) (l : list N) : Prop :=
  match r with
  | O => True
  | S r' => TreeP r' (firstn (2 ^ r') l) /\ TreeP r' (skipn (2 ^ r') l) /\ P (S r') l
  end.

Lemma skipn_skipn' {A} x : forall y (l : list A), skipn x (skipn y l) = skipn (y + x) l.
Proof.
  intros y. revert x. induction y as [|y IH]; intros x l; [reflexivity|].
  destruct l as [|a l]; [rewrite !skipn_nil; reflexivity|]. cbn [skipn plus]. apply IH.
Qed.

Lemma block_firstn {A} M r b (l : list A) : (b * 2 ^ r + 2 ^ r <= M)%nat ->
  block r b (firstn M l) = block r b l.
Proof.
  intros Hb. unfold block. rewrite skipn_firstn_comm, firstn_firstn. f_equal. lia.
Qed.
Lemma block_skipn {A} M r b (l : list A) :
  block r b (skipn M l) = firstn (2 ^ r) (skipn (M + b * 2 ^ r) l).
Proof. unfold block. rewrite skipn_skipn'. reflexivity. Qed.

Lemma pow2_pos r : (0 < 2 ^ r)%nat.
Proof. induction r; cbn; lia. Qed.

Lemma pow_split r0 r' : (r' <= r0)%nat -> (2 ^ (r0 - r') * 2 ^ r' = 2 ^ r0)%nat.
Proof. intros. rewrite <- Nat.pow_add_r. f_equal. lia. Qed.

Lemma treeP_flat : forall r l, length l = (2 ^ r)%nat ->
  (TreeP r l <-> forall r' b, (1 <= r' <= r)%nat -> (b < 2 ^ (r - r'))%nat -> P r' (block r' b l)).
Proof.
  induction r as [|r IH]; intros l Hl.
  - cbn [TreeP]. split; [intros _ r' b Hr; lia | auto].
  - cbn [TreeP].
    pose proof (pow2_pos r) as Pp.
    assert (Hl2 : length l = (2 ^ r + 2 ^ r)%nat) by (rewrite Hl; cbn [Nat.pow]; lia).
    assert (La : length (firstn (2 ^ r) l) = (2 ^ r)%nat) by (rewrite firstn_length; lia).
    assert (Lb : length (skipn (2 ^ r) l) = (2 ^ r)%nat) by (rewrite skipn_length; lia).
    rewrite (IH _ La), (IH _ Lb).
    assert (Top : block (S r) 0 l = l).
    { unfold block. cbn [Nat.mul skipn]. rewrite <- Hl. apply firstn_all. }
    split.
    + intros (Ha & Hb & Ht) r' b Hr Hb'.
      destruct (Nat.eq_dec r' (S r)) as [->|Hne].
      * replace (S r - S r)%nat with 0%nat in Hb' by lia. cbn in Hb'.
        replace b with 0%nat by lia. rewrite Top. exact Ht.
      * pose proof (pow_split r r' ltac:(lia)) as Ps.
        replace (S r - r')%nat with (S (r - r')) in Hb' by lia. cbn [Nat.pow] in Hb'.
        destruct (Nat.lt_ge_cases b (2 ^ (r - r'))) as [Hlt|Hge].
        -- rewrite <- (block_firstn (2 ^ r)) by nia. apply Ha; lia.
        -- specialize (Hb r' (b - 2 ^ (r - r'))%nat ltac:(lia) ltac:(lia)).
           rewrite block_skipn in Hb. unfold block.
           replace (b * 2 ^ r')%nat with (2 ^ r + (b - 2 ^ (r - r')) * 2 ^ r')%nat by nia. exact Hb.
    + intros Hall. repeat split.
      * intros r' b Hr Hb. pose proof (pow_split r r' ltac:(lia)) as Ps.
        rewrite block_firstn by nia. apply Hall; [lia|].
        replace (S r - r')%nat with (S (r - r')) by lia. cbn [Nat.pow]. lia.
      * intros r' b Hr Hb. pose proof (pow_split r r' ltac:(lia)) as Ps.
        rewrite block_skipn.
        specialize (Hall r' (2 ^ (r - r') + b)%nat ltac:(lia)).
        unfold block in Hall.
        replace ((2 ^ (r - r') + b) * 2 ^ r')%nat with (2 ^ r + b * 2 ^ r')%nat in Hall by nia.
        apply Hall. replace (S r - r')%nat with (S (r - r')) by lia. cbn [Nat.pow]. lia.
      * rewrite <- Top. apply Hall; [lia|]. replace (S r - S r)%nat with 0%nat by lia. cbn. lia.
Qed.
End F.
