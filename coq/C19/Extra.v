(** C19 — two supporting facts: the solution encoding is injective (a changed solution bit changes
    the index list), and a valid solution can only exist when [k <= c + 1] (all [2^k] indices are
    distinct numbers below [2^(c+1)]), which is the last clause of the repaired [Params::new]. *)
From Coq Require Import ZifyBool.
From V.Lib Require Import Base Hex.
From V.C19 Require Import Model Spec Bits Expand Rows Decode Tree Flat Main.
Local Open Scope N_scope.
Ltac Zify.zify_post_hook ::= Z.to_euclidean_division_equations.

Lemma hi_lo_recompose T s : T = hi T s * 2 ^ s + lo T s.
Proof. rewrite hi_div, lo_mod. pose proof (N.div_mod T (2 ^ s) ltac:(apply N.pow_nonzero; lia)). lia. Qed.

Lemma digits_inj b cnt : forall T1 T2 tot, tot = N.of_nat cnt * b -> T1 < 2 ^ tot -> T2 < 2 ^ tot ->
  digits b cnt T1 tot = digits b cnt T2 tot -> T1 = T2.
Proof.
  induction cnt as [|cnt IH]; intros T1 T2 tot Ht H1 H2 E.
  - rewrite Ht in *. cbn in H1, H2. lia.
  - cbn [digits] in E. injection E as E0 E1.
    assert (Hb1 : hi T1 (tot - b) < 2 ^ b) by (apply hi_lt; replace (tot - b + b) with tot by nia; assumption).
    assert (Hb2 : hi T2 (tot - b) < 2 ^ b) by (apply hi_lt; replace (tot - b + b) with tot by nia; assumption).
    rewrite !lo_small in E0 by assumption.
    apply IH in E1; [| nia | apply lo_lt | apply lo_lt].
    rewrite (hi_lo_recompose T1 (tot - b)), (hi_lo_recompose T2 (tot - b)). congruence.
Qed.

Lemma be_N_inj a b : bytesP a -> bytesP b -> length a = length b -> be_N a = be_N b -> a = b.
Proof.
  intros Ha Hb L E. rewrite <- (be_bytesn_be_N a Ha), <- (be_bytesn_be_N b Hb), L, E. reflexivity.
Qed.

Lemma solution_encoding_injective n k s1 s2 : params_ok n k -> bytesP s1 -> bytesP s2 ->
  nlen s1 = soln_len n k -> nlen s2 = soln_len n k ->
  soln_indices n k s1 = soln_indices n k s2 -> s1 = s2.
Proof.
  intros PO B1 B2 L1 L2 E.
  destruct (soln_len_eq (fun _ => []) n k PO) as (P & EP & HP & SL).
  assert (L : length s1 = length s2) by (unfold nlen in *; lia).
  apply be_N_inj; try assumption.
  unfold soln_indices in E. replace (nlen s2) with (nlen s1) in E by lia.
  eapply digits_inj; [| | |exact E].
  - rewrite Nat2N.inj_pow. unfold kk. rewrite N2Nat.id. change (N.of_nat 2) with 2. rewrite L1, SL, EP. lia.
  - apply (be_N_lt s1 B1).
  - pose proof (be_N_lt s2 B2) as Q. unfold len in Q. unfold nlen. rewrite L. exact Q.
Qed.

(** ** distinctness and the bound on [k] *)
Lemma nodup_app {A} (a b : list A) : NoDup a -> NoDup b -> (forall x, In x a -> ~ In x b) -> NoDup (a ++ b).
Proof.
  induction 1 as [|x a Hx Ha IH]; intros Hb Hd; [exact Hb|].
  cbn [app]. constructor.
  - intro Hi. apply in_app_or in Hi. destruct Hi as [Hi|Hi]; [contradiction|].
    apply (Hd x); [left; reflexivity | exact Hi].
  - apply IH; [exact Hb|]. intros y Hy. apply Hd. right. exact Hy.
Qed.

Lemma nodup_bounded (M : nat) (l : list N) : NoDup l -> (forall x, In x l -> x < N.of_nat M) -> (length l <= M)%nat.
Proof.
  intros Hn Hb. rewrite <- (seq_length M 0), <- (map_length N.of_nat).
  apply NoDup_incl_length; [exact Hn|]. intros x Hx. apply in_map_iff.
  exists (N.to_nat x). split; [lia|]. apply in_seq. specialize (Hb x Hx). lia.
Qed.

Section D.
Variable H : N -> bytes.
Variables n k : N.

Lemma treeP_nodup r : forall l, length l = (2 ^ r)%nat -> TreeP (LevelOk H n k) r l -> NoDup l.
Proof.
  induction r as [|r IH]; intros l Hl Ht.
  - destruct l as [|x [|]]; try discriminate. constructor; [intros []|constructor].
  - cbn [TreeP] in Ht. destruct Ht as (Ta & Tb & (_ & _ & Hd)).
    pose proof (Flat.pow2_pos r) as Pp.
    assert (Hl2 : length l = (2 ^ r + 2 ^ r)%nat) by (rewrite Hl; cbn [Nat.pow]; lia).
    replace (S r - 1)%nat with r in Hd by lia.
    rewrite <- (firstn_skipn (2 ^ r) l).
    apply nodup_app.
    + apply IH; [rewrite firstn_length; lia | assumption].
    + apply IH; [rewrite skipn_length; lia | assumption].
    + exact Hd.
Qed.

Lemma valid_distinct soln : Valid H n k soln -> NoDup (soln_indices n k soln).
Proof.
  intros (_ & Hf & _). apply (treeP_nodup (kk k)); [apply digits_length|].
  apply treeP_flat; [apply digits_length | exact Hf].
Qed.

Lemma valid_k_bound soln : Valid H n k soln -> k <= cbits n k + 1.
Proof.
  intros V. pose proof (valid_distinct soln V) as ND.
  pose proof (nodup_bounded (2 ^ N.to_nat (cbits n k + 1)) _ ND) as B.
  rewrite (digits_length _ _ _ _ : length (soln_indices n k soln) = (2 ^ kk k)%nat) in B.
  assert (2 ^ kk k <= 2 ^ N.to_nat (cbits n k + 1))%nat.
  { apply B. intros x Hx. rewrite Nat2N.inj_pow, N2Nat.id. change (N.of_nat 2) with 2.
    pose proof (digits_lt (cbits n k + 1) (2 ^ kk k) (be_N soln) (8 * nlen soln)) as F.
    rewrite Forall_forall in F. apply F. exact Hx. }
  apply Nat.pow_le_mono_r_iff in H0; [unfold kk in H0; lia | lia].
Qed.
End D.
