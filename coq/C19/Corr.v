(** C19 — correspondence cases.  One line per call of [equihash::is_valid_solution]: parameters,
    input, nonce, solution, the BLAKE2b digests the call needs (computed by the harness with
    blake2b_simd directly) and the observed outcome. *)
From Coq Require Import Uint63.
From V.Lib Require Import Base Hex.
From V.C19 Require Import Model Spec.
Local Open Scope N_scope.

(** Byte strings are printed as 7-byte big-endian words (primitive integers parse fast). *)
Definition byte_of (w : int) (s : int) : N := Z.to_N (Uint63.to_Z (Uint63.land (Uint63.lsr w s) 255%uint63)).
Definition word7 (w : int) : bytes :=
  [byte_of w 48%uint63; byte_of w 40%uint63; byte_of w 32%uint63; byte_of w 24%uint63;
   byte_of w 16%uint63; byte_of w 8%uint63; byte_of w 0%uint63].
Definition bw (l : nat) (ws : list int) : bytes := firstn l (flat_map word7 ws).
Arguments bw l%nat ws%uint63.

Definition table := list (N * bytes).
Fixpoint lookup (t : table) (g : N) : bytes :=
  match t with
  | [] => []
  | (g', d) :: r => if g' =? g then d else lookup r g
  end.

Definition res := outcome unit ekind.
Definition unit_eqb (_ _ : unit) := true.
Definition res_eqb : res -> res -> bool := outcome_eqb unit_eqb ekind_eqb.

(** Header cases: raw bytes, how the reader delivered them ([frag] = most bytes per [read] call,
    0 = contiguous slice, 9999 = TCP-like segments), and the parsed (input, nonce, solution) or error. *)
Definition hres := outcome (bytes * bytes * bytes) unit.
Definition f3_eqb (a b : bytes * bytes * bytes) : bool :=
  bytes_eqb (fst (fst a)) (fst (fst b)) && bytes_eqb (snd (fst a)) (snd (fst b)) && bytes_eqb (snd a) (snd b).
Definition hres_eqb : hres -> hres -> bool := outcome_eqb f3_eqb unit_eqb.
Definition of_opt (o : option (bytes * bytes * bytes)) : hres := match o with Some f => Ok f | None => Err tt end.

Inductive case :=
| Eh (n k : N) (input nonce soln : bytes) (t : table) (o : res)
| Hd (raw : bytes) (frag : N) (o : hres).

(** Model = implementation (error kind included: the order of checks is part of the model). *)
Definition run_case (c : case) : bool :=
  match c with
  | Eh n k _ _ soln t o => res_eqb (is_valid (lookup t) n k soln) o
  | Hd raw _ o => hres_eqb (of_opt (read_header raw)) o
  end.

(** The property on the implementation's outcome, evaluated with Spec.v only:
    never a panic; bad parameters / bad length ⇒ an error; otherwise accepted iff [Valid]. *)
Definition is_ok (o : res) : bool := match o with Ok _ => true | _ => false end.
Definition is_err (o : res) : bool := match o with Err _ => true | _ => false end.
Definition prop_case (c : case) : bool :=
  match c with
  | Eh n k _ _ soln t o =>
      if negb (params_okb n k) then res_eqb o (Err EInvalidParams)
      else if negb (nlen soln =? soln_len n k) then res_eqb o (Err EInvalidParams)
      else if validb (lookup t) n k soln then is_ok o
      else is_err o
  | Hd raw _ o => hres_eqb (of_opt (hdr_fields raw)) o
  end.

Definition known_class (c : case) : N := 0.

Definition ocode (o : res) : N :=
  match o with
  | Ok _ => 0 | Err EInvalidParams => 1 | Err ECollision => 2 | Err EOutOfOrder => 3
  | Err EDuplicateIdxs => 4 | Err ENonZeroRootHash => 5 | Err EOther => 6 | Panic => 7
  end.
(** outcome + 10 * (0 bad parameters, 1 wrong length, 2 right length with several indices per
    digest, 3 right length with one index per digest) + 100 * (hash expansion is the identity). *)
Definition tag_case (c : case) : N :=
  match c with
  | Eh n k _ _ soln _ o =>
      ocode o +
      10 * (if negb (params_okb n k) then 0
            else if negb (nlen soln =? soln_len n k) then 1
            else if 1 <? 512 / n then 2 else 3) +
      100 * (if params_okb n k && (cbits n k mod 8 =? 0) then 1 else 0)
  | Hd _ _ o => 200 + match o with Ok _ => 0 | Err _ => 1 | Panic => 2 end
  end.
