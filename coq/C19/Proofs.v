(** C19 — lemmas. *)
From Coq Require Import ZifyBool.
From V.Lib Require Import Base Hex.
From V.Gen Require Import C19Params.
From V.C19 Require Import Model Spec.
Local Open Scope N_scope.

Lemma params_new_okb n k : params_new n k = params_okb n k.
Proof.
  unfold params_new, params_okb, K_MIN, N_MAX, C_MIN, C1_MAX, cbits. cbv zeta.
  rewrite !andb_assoc. reflexivity.
Qed.

Lemma params_okb_iff n k : params_okb n k = true <-> params_ok n k.
Proof.
  unfold params_okb, params_ok. rewrite !andb_true_iff, !N.eqb_eq, !N.leb_le, N.ltb_lt. tauto.
Qed.

Section P.
Variable H : N -> bytes.

Lemma bad_params_err n k soln : ~ params_ok n k -> is_valid H n k soln = Err EInvalidParams.
Proof.
  intros Hn. unfold is_valid. rewrite params_new_okb.
  destruct (params_okb n k) eqn:E; [apply params_okb_iff in E; contradiction | reflexivity].
Qed.
End P.
