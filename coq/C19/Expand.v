(** C19 — [expand_array] computes the big-endian digits of its input (accumulator loop on a
    truncated [u32] = peeling [bit_len]-bit digits off the top of the big-endian number). *)
From Coq Require Import ZifyBool Btauto.
From V.Lib Require Import Base Hex.
From V.C19 Require Import Model Spec Bits.
Local Open Scope N_scope.

Definition bytesP (l : bytes) : Prop := Forall (fun b => b < 256) l.

(** [w] big-endian bytes of [e]. *)
Definition be_bytes (w e : N) : bytes := map (fun j => lo (hi e (8 * (w - 1 - j))) 8) (nrange 0 w).
Definition elem (W pad e : N) : bytes := repeat 0 (N.to_nat pad) ++ be_bytes (W - pad) e.

Lemma len_nlen {A} (l : list A) : len l = nlen l.
Proof. reflexivity. Qed.
Lemma len_cons {A} (x : A) l : len (x :: l) = len l + 1.
Proof. unfold len. cbn [length]. lia. Qed.
Lemma len_app {A} (a b : list A) : len (a ++ b) = len a + len b.
Proof. unfold len. rewrite app_length. lia. Qed.

Lemma be_N_acc l : forall a, fold_left (fun a b => a * 256 + b) l a = a * 2 ^ (8 * len l) + be_N l.
Proof.
  unfold be_N. induction l as [|x r IH]; intros a.
  - cbn. lia.
  - cbn [fold_left]. rewrite IH, (IH (0 * 256 + x)), len_cons.
    replace (8 * (len r + 1)) with (8 + 8 * len r) by lia. rewrite N.pow_add_r.
    change (2 ^ 8) with 256. lia.
Qed.
Lemma be_N_cons x r : be_N (x :: r) = x * 2 ^ (8 * len r) + be_N r.
Proof. unfold be_N at 1. cbn [fold_left]. rewrite be_N_acc. lia. Qed.
Lemma be_N_lt l : bytesP l -> be_N l < 2 ^ (8 * len l).
Proof.
  induction 1 as [|x r Hx _ IH].
  - cbn. lia.
  - rewrite be_N_cons, len_cons. replace (8 * (len r + 1)) with (8 + 8 * len r) by lia.
    rewrite N.pow_add_r. change (2 ^ 8) with 256. nia.
Qed.

Lemma ones_mask b : N.shiftl 1 b - 1 = N.ones b.
Proof. unfold N.ones. rewrite N.sub_1_r. reflexivity. Qed.

Lemma elem_bytes_spec acc ab b W pad : pad <= W ->
  elem_bytes acc ab (N.ones b) W pad = elem W pad (lo (hi acc ab) b).
Proof.
  intros Hp. unfold elem_bytes, elem, be_bytes, nrange. f_equal.
  rewrite !map_map. replace (W - pad - 0) with (W - pad) by lia.
  apply map_ext. intro i.
  replace (W - (pad + N.of_nat i) - 1) with (W - pad - 1 - (0 + N.of_nat i)) by lia.
  set (s := 8 * (W - pad - 1 - (0 + N.of_nat i))).
  apply N.bits_inj. intro j.
  change 255 with (N.ones 8).
  rewrite !N.land_spec, !N.shiftr_spec', !tb_ones, tb_lo, tb_hi, tb_lo, tb_hi.
  replace (j + (ab + s)) with (j + s + ab) by lia. btauto.
Qed.

Lemma acc_step acc ab x : x < 256 -> ab + 8 <= 32 ->
  lo (N.lor (N.land (N.shiftl acc 8) u32_mask) x) (ab + 8) = lo acc ab * 256 + x.
Proof.
  intros Hx Hab. change 256 with (2 ^ 8). apply N.bits_inj. intro i.
  rewrite tb_cat by assumption. rewrite tb_lo, N.lor_spec, N.land_spec, tb_shiftl.
  change u32_mask with (N.ones 32). rewrite tb_ones, tb_lo.
  destruct (i <? 8) eqn:E.
  - replace (8 <=? i) with false by lia. replace (i <? ab + 8) with true by lia.
    cbn [andb orb]. apply andb_true_r.
  - replace (8 <=? i) with true by lia. rewrite (tb_small x 8 i) by (assumption || lia).
    replace (i - 8 <? ab) with (i <? ab + 8) by lia.
    destruct (i <? ab + 8) eqn:F; [replace (i <? 32) with true by lia|]; btauto.
Qed.

Lemma expand_loop_spec b W pad : 8 <= b -> b <= 25 -> pad <= W ->
  forall vin acc ab, bytesP vin -> ab < b ->
    expand_loop b (N.ones b) W pad vin acc ab =
    flat_map (elem W pad)
      (digits b (N.to_nat ((ab + 8 * len vin) / b)) (lo acc ab * 2 ^ (8 * len vin) + be_N vin) (ab + 8 * len vin)).
Proof.
  intros Hb1 Hb2 Hp. induction vin as [|x r IH]; intros acc ab Hv Hab.
  - cbn [expand_loop]. replace (len (@nil N)) with 0 by reflexivity.
    rewrite N.mul_0_r, N.add_0_r, N.div_small by lia. reflexivity.
  - inversion Hv as [|? ? Hx Hr]; subst.
    cbn [expand_loop]. cbv zeta.
    set (acc' := N.lor (N.land (N.shiftl acc 8) u32_mask) x).
    assert (Q : lo acc' (ab + 8) = lo acc ab * 256 + x) by (apply acc_step; lia).
    pose proof (be_N_lt r Hr) as Hlt.
    set (L := len r) in *.
    assert (T : lo acc ab * 2 ^ (8 * len (x :: r)) + be_N (x :: r) = lo acc' (ab + 8) * 2 ^ (8 * L) + be_N r).
    { rewrite be_N_cons, len_cons, Q. fold L. replace (8 * (L + 1)) with (8 + 8 * L) by lia.
      rewrite N.pow_add_r. change (2 ^ 8) with 256. lia. }
    rewrite T. rewrite len_cons. fold L.
    destruct (b <=? ab + 8) eqn:E.
    + set (ab2 := ab + 8 - b).
      replace (ab + 8 * (L + 1)) with (ab2 + 8 * L + 1 * b) by lia.
      rewrite N.div_add by lia. replace (N.to_nat ((ab2 + 8 * L) / b + 1)) with (S (N.to_nat ((ab2 + 8 * L) / b))) by lia.
      cbn [digits flat_map]. replace (ab2 + 8 * L + 1 * b - b) with (ab2 + 8 * L) by lia.
      replace (ab + 8) with (ab2 + b) by lia.
      rewrite hi_cat, hi_lo, lo_lo, lo_cat, lo_lo by (assumption || lia).
      rewrite elem_bytes_spec by assumption. f_equal.
      apply IH; [assumption | lia].
    + replace (ab + 8 * (L + 1)) with (ab + 8 + 8 * L) by lia.
      apply IH; [assumption | lia].
Qed.
