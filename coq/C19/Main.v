(** C19 — assembling: [is_valid] accepts exactly the [Valid] solutions; errors, no panic;
    the boolean [validb] reflects [Valid]; bridge from correspondence to the property. *)
From Coq Require Import ZifyBool Btauto.
From V.Lib Require Import Base Hex.
From V.C19 Require Import Compact Model Spec Bits Expand Rows Decode Tree Flat Corr Wf Proofs.
Local Open Scope N_scope.
Ltac Zify.zify_post_hook ::= Z.to_euclidean_division_equations.

Lemma forallb_zero l : forallb (fun v => v =? 0) l = true <-> l = repeat 0 (length l).
Proof.
  induction l as [|x l IH]; [split; reflexivity|].
  cbn [forallb length repeat]. rewrite andb_true_iff, N.eqb_eq, IH.
  split; [intros [-> <-]; reflexivity | intros E; inversion E as [[E1 E2]]; rewrite <- E2; auto].
Qed.

Section M.
Variable H : N -> bytes.
Variables n k : N.
Hypothesis PO : params_ok n k.
Notation K := (N.to_nat k).
Notation W := (Wn n k).
Let c := cbits n k.

Definition digests_ok (l : list N) : Prop := forall i, In i l -> digest_ok H n i.

Lemma TreeOkF_TreeP r : forall l, TreeOkF H n k r l <-> TreeP (LevelOk H n k) r l.
Proof.
  induction r as [|r IH]; intros l; [reflexivity|]. cbn [TreeOkF TreeP]. rewrite !IH. reflexivity.
Qed.

Lemma idx_length soln : length (soln_indices n k soln) = (2 ^ K)%nat.
Proof. apply digits_length. Qed.

Lemma total_zero l : digests_ok l -> (xorl (map (X H n) l) = 0 <-> Forall (fun d => d = 0) (DD H n k l)).
Proof.
  intros Hd. pose proof (level_top H n k PO (S K) l Hd ltac:(lia)) as L.
  pose proof (n_kc H n k PO) as Nk. fold c in Nk.
  replace (n - N.of_nat (S K) * cbits n k) with 0 in L by (fold c; lia).
  change (hi (xorl (map (X H n) l)) 0) with (xorl (map (X H n) l)) in L.
  rewrite firstn_all2 in L by (rewrite DD_length; lia). exact L.
Qed.

Lemma root_zero l : digests_ok l -> TreeOkF H n k K l ->
  (is_zero (node_of H n k K l) (collision_byte_length n k) = true <-> xorl (map (X H n) l) = 0).
Proof.
  intros Hd Ht. rewrite (total_zero l Hd).
  pose proof (treeok_zero H n k PO K l Hd ltac:(lia) Ht) as Z.
  pose proof (DD_length H n k l) as LD.
  set (D := DD H n k l) in *.
  assert (ED : D = firstn K D ++ [nth K D 0]).
  { rewrite <- (firstn_S_nth 0) by lia. symmetry. apply firstn_all2. lia. }
  assert (SK : skipn K D = [nth K D 0]).
  { rewrite (skipn_nth_cons 0) by lia. f_equal. apply skipn_all2. lia. }
  set (s := nth K D 0) in *.
  assert (Hs : s < 2 ^ (8 * N.of_nat W)).
  { eapply N.lt_le_trans; [|apply N.pow_le_mono_r; [lia | apply (Wc H n k)]].
    pose proof (DD_lt H n k l) as F. rewrite Forall_forall in F. apply F. apply nth_In. fold D. lia. }
  unfold is_zero, node_of. cbn [hash]. fold D. rewrite SK.
  replace (N.to_nat (collision_byte_length n k)) with W by reflexivity.
  unfold enc. cbn [flat_map]. rewrite app_nil_r.
  rewrite firstn_all2 by (rewrite be_bytesn_length; lia).
  rewrite forallb_zero, be_bytesn_length, <- be_bytesn_0.
  split.
  - intros E. apply be_bytesn_inj in E; [|assumption|apply N.neq_0_lt_0, N.pow_nonzero; lia].
    rewrite ED. apply Forall_app. split; [assumption|]. constructor; [assumption|constructor].
  - intros F. rewrite ED in F. apply Forall_app in F. destruct F as [_ F]. apply Forall_inv in F.
    rewrite F. reflexivity.
Qed.

Lemma hash_output_pos : hash_output n <> 0.
Proof.
  pose proof (c_bounds H n k PO) as (_ & _ & _ & _ & E & F). pose proof (n_8q H n k PO) as Nq.
  unfold hash_output, indices_per_hash_output.
  assert (0 < 512 / n) by (apply N.div_str_pos; lia).
  assert (n <= 512 / n * n) by nia.
  intro Z. assert (512 / n * n < 8) by (apply N.div_small_iff in Z; lia). lia.
Qed.

(** Total characterisation of the verifier on a solution of the right length. *)
Lemma is_valid_char soln : bytesP soln -> nlen soln = soln_len n k ->
  digests_ok (soln_indices n k soln) ->
  match is_valid H n k soln with
  | Ok _ => TreeOkF H n k K (soln_indices n k soln) /\ xorl (map (X H n) (soln_indices n k soln)) = 0
  | Err e => ~ (TreeOkF H n k K (soln_indices n k soln) /\ xorl (map (X H n) (soln_indices n k soln)) = 0)
  | Panic => False
  end.
Proof.
  intros Hs Hl Hd. unfold is_valid. rewrite params_new_okb.
  replace (params_okb n k) with true by (symmetry; apply params_okb_iff; exact PO). cbn [negb].
  rewrite (ifm_spec H n k PO soln Hs). replace (nlen soln =? soln_len n k) with true by lia.
  set (idxs := soln_indices n k soln) in *.
  unfold is_valid_solution_recursive.
  replace (hash_output n =? 0) with false by (pose proof hash_output_pos; lia).
  pose proof (idx_length soln) as Li. fold idxs in Li.
  pose proof (tv_spec H n k PO K (S (length idxs)) idxs) as T.
  specialize (T ltac:(rewrite Li; pose proof (Nat.pow_gt_lin_r 2 K); lia) Li ltac:(lia) Hd).
  destruct (tree_validator H n k (S (length idxs)) idxs) as [root|e|]; [| |exact T].
  - destruct T as [Tk ->]. pose proof (root_zero idxs Hd Tk) as R.
    destruct (is_zero (node_of H n k K idxs) (collision_byte_length n k)).
    + split; [assumption | apply R; reflexivity].
    + intros [_ Z]. apply R in Z. discriminate.
  - tauto.
Qed.

Lemma valid_tree soln : nlen soln = soln_len n k ->
  (Valid H n k soln <->
   TreeOkF H n k K (soln_indices n k soln) /\ xorl (map (X H n) (soln_indices n k soln)) = 0).
Proof.
  intros Hl. unfold Valid. rewrite TreeOkF_TreeP, (treeP_flat _ K _ (idx_length soln)).
  unfold kk. tauto.
Qed.

Lemma bad_length_po soln : bytesP soln -> nlen soln <> soln_len n k -> is_valid H n k soln = Err EInvalidParams.
Proof.
  intros Hs Hl. unfold is_valid. rewrite params_new_okb.
  replace (params_okb n k) with true by (symmetry; apply params_okb_iff; exact PO). cbn [negb].
  rewrite (ifm_spec H n k PO soln Hs). replace (nlen soln =? soln_len n k) with false by lia. reflexivity.
Qed.

Lemma is_valid_iff_local soln : bytesP soln ->
  (nlen soln = soln_len n k -> digests_ok (soln_indices n k soln)) ->
  (is_valid H n k soln = Ok tt <-> Valid H n k soln).
Proof.
  intros Hs Hd. destruct (N.eq_dec (nlen soln) (soln_len n k)) as [Hl|Hl].
  - rewrite (valid_tree soln Hl). pose proof (is_valid_char soln Hs Hl (Hd Hl)) as C.
    destruct (is_valid H n k soln) as [[]|e|].
    + split; [intros _; exact C | reflexivity].
    + split; [discriminate | intros V; contradiction].
    + contradiction.
  - rewrite (bad_length_po soln Hs Hl). split; [discriminate|]. intros [V _]. contradiction.
Qed.

Lemma no_panic_po soln : bytesP soln ->
  (nlen soln = soln_len n k -> digests_ok (soln_indices n k soln)) ->
  is_valid H n k soln <> Panic.
Proof.
  intros Hs Hd. destruct (N.eq_dec (nlen soln) (soln_len n k)) as [Hl|Hl].
  - pose proof (is_valid_char soln Hs Hl (Hd Hl)) as C. intro E. rewrite E in C. exact C.
  - rewrite (bad_length_po soln Hs Hl). discriminate.
Qed.
End M.

(** ** Statements for all parameters *)
Definition digests_good (H : N -> bytes) (n : N) : Prop :=
  forall g, nlen (H g) = hash_output n /\ bytesP (H g).

Lemma digests_good_ok H n l : digests_good H n -> digests_ok H n l.
Proof. intros G i _. apply G. Qed.

Lemma is_valid_iff H n k soln : params_ok n k -> bytesP soln -> digests_good H n ->
  (is_valid H n k soln = Ok tt <-> Valid H n k soln).
Proof. intros PO Hs G. apply is_valid_iff_local; auto. intros _. apply digests_good_ok. exact G. Qed.

Lemma params_dec n k : params_ok n k \/ ~ params_ok n k.
Proof. destruct (params_okb n k) eqn:E; [left; apply params_okb_iff; exact E | right; intro P; apply params_okb_iff in P; congruence]. Qed.

Lemma bad_length_err H n k soln : bytesP soln -> nlen soln <> soln_len n k ->
  is_valid H n k soln = Err EInvalidParams.
Proof.
  intros Hs Hl. destruct (params_dec n k) as [PO|NP].
  - apply bad_length_po; assumption.
  - apply bad_params_err; assumption.
Qed.

Lemma is_valid_no_panic H n k soln : bytesP soln ->
  (params_ok n k -> nlen soln = soln_len n k -> digests_ok H n (soln_indices n k soln)) ->
  is_valid H n k soln <> Panic.
Proof.
  intros Hs Hd. destruct (params_dec n k) as [PO|NP].
  - apply no_panic_po; auto.
  - rewrite bad_params_err by assumption. discriminate.
Qed.

(** ** The boolean checker *)
Lemma block_map {A B} (f : A -> B) r b l : block r b (map f l) = map f (block r b l).
Proof. unfold block. rewrite skipn_map, firstn_map. reflexivity. Qed.

Lemma level_okb_iff H n k r blk : level_okb n k r blk (map (X H n) blk) = true <-> LevelOk H n k r blk.
Proof.
  unfold level_okb, LevelOk. rewrite !andb_true_iff, N.eqb_eq, N.ltb_lt, forallb_forall.
  split; [intros ((A & B) & C) | intros (A & B & C)]; repeat split; try assumption.
  - intros i Hi Hin. specialize (C i Hi). apply negb_true_iff in C.
    assert (existsb (N.eqb i) (skipn (2 ^ (r - 1)) blk) = true); [|congruence].
    apply existsb_exists. exists i. split; [assumption | apply N.eqb_refl].
  - intros i Hi. apply negb_true_iff. destruct (existsb _ _) eqn:E; [|reflexivity].
    apply existsb_exists in E. destruct E as (j & Hj & Ej). apply N.eqb_eq in Ej. subst j.
    exfalso. exact (C i Hi Hj).
Qed.

Lemma validb_iff H n k soln : validb H n k soln = true <-> Valid H n k soln.
Proof.
  unfold validb, Valid. cbv zeta. rewrite !andb_true_iff, !N.eqb_eq, forallb_forall.
  split.
  - intros ((A & B) & C). split; [exact A|]. split; [|exact C]. intros r b Hr Hb.
    specialize (B r ltac:(apply in_seq; lia)). rewrite forallb_forall in B.
    specialize (B b ltac:(apply in_seq; lia)). rewrite block_map in B. apply level_okb_iff in B. exact B.
  - intros (A & B & C). split; [split; [exact A|] | exact C]. intros r Hr. apply in_seq in Hr.
    apply forallb_forall. intros b Hb. apply in_seq in Hb. rewrite block_map. apply level_okb_iff.
    apply B; lia.
Qed.


(** ** Block header: the sequential reader yields exactly the slices of the layout *)
Lemma firstn_app_skipn {A} a b (l : list A) : firstn a l ++ firstn b (skipn a l) = firstn (a + b) l.
Proof.
  revert l. induction a as [|a IH]; intros l; [reflexivity|].
  destruct l as [|x l]; [cbn; rewrite firstn_nil; reflexivity|].
  cbn [firstn skipn plus app]. f_equal. apply IH.
Qed.
Lemma firstn_app_skipn_k {A} k a b (l : list A) :
  firstn a (skipn k l) ++ firstn b (skipn (k + a) l) = firstn (a + b) (skipn k l).
Proof. rewrite <- skipn_skipn'. apply firstn_app_skipn. Qed.

Lemma takek m k raw : (0 < m)%nat ->
  take m (skipn k raw) =
  if (length raw <? k + m)%nat then None else Some (firstn m (skipn k raw), skipn (k + m) raw).
Proof.
  intros Hm. unfold take. rewrite skipn_length, skipn_skipn'.
  destruct (Nat.ltb_spec (length raw - k) m), (Nat.ltb_spec (length raw) (k + m)); try lia; reflexivity.
Qed.

Lemma read_header_eq raw : read_header raw = hdr_fields raw.
Proof.
  unfold read_header, hdr_fields.
  change (take 4 raw) with (take 4 (skipn 0 raw)).
  Ltac hstep := rewrite takek by lia;
    match goal with |- context [(length ?r <? ?a + ?b)%nat] =>
      destruct (Nat.ltb_spec (length r) (a + b));
      [ replace (length r <? 140)%nat with true by (symmetry; apply Nat.ltb_lt; cbn in *; lia); reflexivity | ] end.
  hstep. hstep. hstep. hstep. hstep. hstep. hstep.
  cbn [plus] in *.
  replace (length raw <? 140)%nat with false by (symmetry; apply Nat.ltb_ge; lia).
  destruct (read_compact (skipn 140 raw)) as [[l c8]|]; [|reflexivity].
  unfold take. destruct (length c8 <? N.to_nat l)%nat; [reflexivity|].
  f_equal. f_equal. f_equal.
  change (firstn 4 (skipn 0 raw)) with (firstn 4 raw).
  change 104%nat with (100 + 4)%nat at 1. rewrite (firstn_app_skipn_k 100 4 4).
  change 100%nat with (68 + 32)%nat at 1. rewrite (firstn_app_skipn_k 68 32 8).
  change 68%nat with (36 + 32)%nat at 1. rewrite (firstn_app_skipn_k 36 32 40).
  change 36%nat with (4 + 32)%nat at 1. rewrite (firstn_app_skipn_k 4 32 72).
  apply (firstn_app_skipn 4 104).
Qed.

(** ** Bridge: correspondence on a well-formed case implies the property on that case *)
Lemma res_eqb_eq (a b : res) : res_eqb a b = true -> a = b.
Proof.
  destruct a as [[]|e1|], b as [[]|e2|]; cbn; try discriminate; try reflexivity.
  destruct e1, e2; cbn; try discriminate; reflexivity.
Qed.
Lemma res_eqb_refl (a : res) : res_eqb a a = true.
Proof. destruct a as [[]|[]|]; reflexivity. Qed.

Lemma is_bytes_P l : is_bytes l = true -> bytesP l.
Proof. unfold is_bytes, is_byte. intros E. apply Forall_forall. intros x Hx. rewrite forallb_forall in E. specialize (E x Hx). lia. Qed.

Theorem bridge c : wf_case c = true -> run_case c = true -> prop_case c = true.
Proof.
  destruct c as [n k input nonce soln t o | raw frag o]; cbn [wf_case run_case prop_case];
    [| intros _ R; rewrite <- read_header_eq; exact R].
  rewrite !andb_true_iff. intros ((((((_ & _) & _) & _) & Bs) & _) & Hd) R.
  apply res_eqb_eq in R. apply is_bytes_P in Bs.
  destruct (params_okb n k) eqn:P; cbn [negb andb] in *.
  2:{ rewrite <- R, bad_params_err; [reflexivity|]. intro Q. apply params_okb_iff in Q. congruence. }
  apply params_okb_iff in P.
  destruct (nlen soln =? soln_len n k) eqn:L; cbn [negb] in *.
  2:{ rewrite <- R, bad_length_err; [reflexivity | assumption | lia]. }
  assert (D : digests_ok (lookup t) n (soln_indices n k soln)).
  { intros i Hi. rewrite forallb_forall in Hd. specialize (Hd i Hi). unfold digest_okb in Hd.
    apply andb_true_iff in Hd. destruct Hd as [A B]. split; [lia | apply is_bytes_P; exact B]. }
  pose proof (is_valid_iff_local (lookup t) n k P soln Bs (fun _ => D)) as I.
  pose proof (no_panic_po (lookup t) n k P soln Bs (fun _ => D)) as NP.
  rewrite R in I, NP.
  destruct (validb (lookup t) n k soln) eqn:V.
  - apply validb_iff, I in V. rewrite V. reflexivity.
  - destruct o as [[]|e|]; [|reflexivity|contradiction].
    assert (Valid (lookup t) n k soln) by (apply I; reflexivity).
    apply validb_iff in H. congruence.
Qed.
