(** C19 — the recursive validator against the per-level conditions of Spec.v. *)
From Coq Require Import ZifyBool Btauto.
From V.Lib Require Import Base Hex.
From V.C19 Require Import Model Spec Bits Expand Rows Decode.
Local Open Scope N_scope.
Ltac Zify.zify_post_hook ::= Z.to_euclidean_division_equations.

(** ** pointwise XOR of byte / digit lists *)
Definition zx (a b : list N) : list N := map (fun p => N.lxor (fst p) (snd p)) (combine a b).

Lemma zx_cons x a y b : zx (x :: a) (y :: b) = N.lxor x y :: zx a b.
Proof. reflexivity. Qed.
Lemma zx_skipn m : forall a b, skipn m (zx a b) = zx (skipn m a) (skipn m b).
Proof.
  induction m as [|m IH]; intros a b; [reflexivity|].
  destruct a as [|x a]; [reflexivity|].
  destruct b as [|y b].
  - cbn [skipn]. unfold zx. rewrite !combine_nil. reflexivity.
  - rewrite zx_cons. cbn [skipn]. apply IH.
Qed.
Lemma zx_firstn m : forall a b, firstn m (zx a b) = zx (firstn m a) (firstn m b).
Proof.
  induction m as [|m IH]; intros a b; [reflexivity|].
  destruct a as [|x a]; [reflexivity|].
  destruct b as [|y b].
  - cbn [firstn]. unfold zx. rewrite !combine_nil. reflexivity.
  - cbn [firstn]. rewrite !zx_cons. cbn [firstn]. f_equal. apply IH.
Qed.
Lemma combine_app {A B} (a1 a2 : list A) (b1 b2 : list B) : length a1 = length b1 ->
  combine (a1 ++ a2) (b1 ++ b2) = combine a1 b1 ++ combine a2 b2.
Proof.
  revert b1. induction a1 as [|x a1 IH]; intros [|y b1] E; try discriminate; [reflexivity|].
  cbn [app combine]. f_equal. apply IH. injection E; auto.
Qed.
Lemma zx_app a1 a2 b1 b2 : length a1 = length b1 -> zx (a1 ++ a2) (b1 ++ b2) = zx a1 b1 ++ zx a2 b2.
Proof. intros E. unfold zx. rewrite combine_app by assumption. apply map_app. Qed.
Lemma zx_length a b : length a = length b -> length (zx a b) = length a.
Proof. intros. unfold zx. rewrite map_length, combine_length. lia. Qed.
Lemma zx_zeros m : zx (repeat 0 m) (repeat 0 m) = repeat 0 m.
Proof. induction m; [reflexivity|]. cbn [repeat]. rewrite zx_cons, IHm. reflexivity. Qed.

Lemma skipn_nth_cons {A} (d : A) m : forall l, (m < length l)%nat -> skipn m l = nth m l d :: skipn (S m) l.
Proof.
  induction m as [|m IH]; intros [|x l] Hl; cbn [length] in Hl; try lia; [reflexivity|].
  cbn [skipn nth]. rewrite IH by lia. reflexivity.
Qed.
Lemma firstn_S_nth {A} (d : A) m : forall l, (m < length l)%nat -> firstn (S m) l = firstn m l ++ [nth m l d].
Proof.
  induction m as [|m IH]; intros [|x l] Hl; cbn [length] in Hl; try lia; [reflexivity|].
  cbn [firstn nth app]. f_equal. rewrite <- IH by lia. reflexivity.
Qed.
Lemma zx_nth m : forall a b, length a = length b -> (m < length a)%nat ->
  nth m (zx a b) 0 = N.lxor (nth m a 0) (nth m b 0).
Proof.
  induction m as [|m IH]; intros [|x a] [|y b] E Hl; cbn [length] in *; try lia; [reflexivity|].
  rewrite zx_cons. cbn [nth]. apply IH; lia.
Qed.

Lemma hi_eq_0 T s : hi T s = 0 <-> T < 2 ^ s.
Proof. rewrite hi_div. apply N.div_small_iff. apply N.pow_nonzero. lia. Qed.

Lemma lxor_lt a b m : a < 2 ^ m -> b < 2 ^ m -> N.lxor a b < 2 ^ m.
Proof.
  intros Ha Hb. rewrite <- (lo_small a m), <- (lo_small b m), <- lo_lxor by assumption. apply lo_lt.
Qed.

Lemma xorl_app a b : xorl (a ++ b) = N.lxor (xorl a) (xorl b).
Proof.
  induction a as [|x a IH]; cbn [xorl app fold_right].
  - rewrite N.lxor_0_l. reflexivity.
  - fold (xorl (a ++ b)). fold (xorl a). rewrite IH, N.lxor_assoc. reflexivity.
Qed.
Lemma xorl_lt m l : Forall (fun x => x < 2 ^ m) l -> xorl l < 2 ^ m.
Proof.
  induction 1 as [|x r Hx _ IH]; cbn [xorl fold_right].
  - apply N.neq_0_lt_0, N.pow_nonzero. lia.
  - apply lxor_lt; assumption.
Qed.

(** top [r] digits zero = top [r*c] bits zero *)
Lemma top_zero c r : forall cnt T tot, T < 2 ^ tot -> tot = N.of_nat cnt * c -> (r <= cnt)%nat ->
  (hi T (tot - N.of_nat r * c) = 0 <-> Forall (fun d => d = 0) (firstn r (digits c cnt T tot))).
Proof.
  induction r as [|r IH]; intros cnt T tot HT Htot Hr.
  - cbn [firstn]. rewrite N.mul_0_l, N.sub_0_r, hi_eq_0. split; [constructor | intros; assumption].
  - destruct cnt as [|cnt]; [lia|]. cbn [digits firstn].
    assert (Hd : hi T (tot - c) < 2 ^ c) by (apply hi_lt; replace (tot - c + c) with tot by nia; assumption).
    rewrite (lo_small _ c Hd).
    replace (tot - N.of_nat (S r) * c) with (tot - c - N.of_nat r * c) by nia.
    split.
    + intros Hz. apply hi_eq_0 in Hz.
      assert (HT' : T < 2 ^ (tot - c)).
      { eapply N.lt_le_trans; [exact Hz|]. apply N.pow_le_mono_r; lia. }
      constructor; [apply hi_eq_0; assumption|].
      rewrite lo_small by assumption. apply IH; try assumption; try nia. apply hi_eq_0. assumption.
    + intros Hf. pose proof (Forall_inv Hf) as H0. pose proof (Forall_inv_tail Hf) as Hrest. cbv beta in H0.
      apply hi_eq_0 in H0. rewrite lo_small in Hrest by assumption.
      apply (IH cnt T (tot - c)); try assumption; nia.
Qed.

Section T.
Variable H : N -> bytes.
Variables n k : N.
Hypothesis PO : params_ok n k.

Let c := cbits n k.
Notation K := (N.to_nat k).
Notation W := (Wn n k).
Notation Xs l := (map (X H n) l).
Definition DD (l : list N) : list N := segs_of n k (xorl (Xs l)).
Definition node_of (r : nat) (l : list N) : node := {| hash := enc n k (skipn r (DD l)); indices := l |}.

Fixpoint TreeOkF (r : nat) (l : list N) : Prop :=
  match r with
  | O => True
  | S r' => TreeOkF r' (firstn (2 ^ r') l) /\ TreeOkF r' (skipn (2 ^ r') l) /\ LevelOk H n k (S r') l
  end.

Lemma DD_length l : length (DD l) = S K.
Proof. apply digits_length. Qed.
Lemma DD_lt l : Forall (fun d => d < 2 ^ c) (DD l).
Proof. apply digits_lt. Qed.
Lemma DD_app a b : DD (a ++ b) = zx (DD a) (DD b).
Proof. unfold DD, segs_of. rewrite map_app, xorl_app. apply digits_lxor. Qed.

Lemma Wc : c <= 8 * N.of_nat W.
Proof. unfold Wn. fold c. lia. Qed.

Lemma enc_cons s r : enc n k (s :: r) = be_bytesn W s ++ enc n k r.
Proof. reflexivity. Qed.
Lemma enc_length l : length (enc n k l) = (length l * W)%nat.
Proof. apply flat_map_length_const. intro. apply be_bytesn_length. Qed.
Lemma enc_zx : forall a b, length a = length b -> enc n k (zx a b) = zx (enc n k a) (enc n k b).
Proof.
  induction a as [|x a IH]; intros [|y b] E; try discriminate; [reflexivity|].
  rewrite zx_cons, !enc_cons, zx_app by (rewrite !be_bytesn_length; reflexivity).
  rewrite be_bytesn_lxor. fold (zx (be_bytesn W x) (be_bytesn W y)). f_equal. apply IH. injection E; auto.
Qed.

Lemma X_lt i : digest_ok H n i -> X H n i < 2 ^ n.
Proof.
  intros [DL DB]. unfold X.
  set (vin := firstn _ _).
  assert (Bv : bytesP vin).
  { unfold vin. apply Forall_forall. intros x Hx. apply in_firstn, in_skipn in Hx.
    revert x Hx. apply Forall_forall. exact DB. }
  eapply N.lt_le_trans; [apply be_N_lt; assumption|]. apply N.pow_le_mono_r; [lia|].
  unfold len, vin. rewrite firstn_length. pose proof (n_8q H n k PO). lia.
Qed.

Lemma xorl_X_lt l : (forall i, In i l -> digest_ok H n i) -> xorl (Xs l) < 2 ^ n.
Proof.
  intros Hd. apply xorl_lt. apply Forall_forall. intros x Hx. apply in_map_iff in Hx.
  destruct Hx as (i & <- & Hi). apply X_lt. auto.
Qed.

Lemma level_top r l : (forall i, In i l -> digest_ok H n i) -> (r <= S K)%nat ->
  (hi (xorl (Xs l)) (n - N.of_nat r * c) = 0 <-> Forall (fun d => d = 0) (firstn r (DD l))).
Proof.
  intros Hd Hr. apply top_zero; [apply xorl_X_lt; assumption | | assumption].
  pose proof (n_kc H n k PO). fold c in H0. lia.
Qed.

Lemma treeok_zero r l : (forall i, In i l -> digest_ok H n i) -> (r <= K)%nat ->
  TreeOkF r l -> Forall (fun d => d = 0) (firstn r (DD l)).
Proof.
  intros Hd Hr. destruct r as [|r]; [constructor|].
  cbn [TreeOkF]. intros (_ & _ & (L1 & _)). apply level_top; [assumption | lia | exact L1].
Qed.

Lemma all_zero_zx a b : Forall (fun d => d = 0) a -> Forall (fun d => d = 0) b -> Forall (fun d => d = 0) (zx a b).
Proof.
  intros Ha. revert b. induction Ha as [|x a Hx _ IH]; intros b Hb; [constructor|].
  destruct Hb as [|y b Hy Hb]; [constructor|]. rewrite zx_cons. constructor; [subst; reflexivity | auto].
Qed.

Lemma forallb_eq_combine : forall a b : list N, length a = length b ->
  (forallb (fun p => fst p =? snd p) (combine a b) = true <-> a = b).
Proof.
  induction a as [|x a IH]; intros [|y b] E; try discriminate; [split; reflexivity|].
  cbn [combine forallb fst snd]. rewrite andb_true_iff, N.eqb_eq, IH by (injection E; auto).
  split; [intros [-> ->]; reflexivity | intros E'; inversion E'; auto].
Qed.

Lemma firstn_combine_app (x y a b : list N) m : length x = m -> length y = m ->
  firstn m (combine (x ++ a) (y ++ b)) = combine x y.
Proof.
  intros Hx Hy. rewrite combine_app by lia. rewrite firstn_app.
  rewrite combine_length, Hx, Hy, Nat.min_id, Nat.sub_diag. cbn [firstn]. rewrite app_nil_r.
  apply firstn_all2. rewrite combine_length. lia.
Qed.
Lemma skipn_combine_app (x y a b : list N) m : length x = m -> length y = m ->
  skipn m (combine (x ++ a) (y ++ b)) = combine a b.
Proof.
  intros Hx Hy. rewrite combine_app by lia. rewrite skipn_app.
  rewrite combine_length, Hx, Hy, Nat.min_id, Nat.sub_diag. cbn [skipn].
  rewrite skipn_all2 by (rewrite combine_length; lia). reflexivity.
Qed.

Lemma distinct_spec (a b : list N) :
  forallb (fun i => forallb (fun j => negb (i =? j)) b) a = true <-> (forall i, In i a -> ~ In i b).
Proof.
  rewrite forallb_forall. split.
  - intros Hf i Hi Hb. specialize (Hf i Hi). rewrite forallb_forall in Hf. specialize (Hf i Hb).
    rewrite N.eqb_refl in Hf. discriminate.
  - intros Hn i Hi. apply forallb_forall. intros j Hj. destruct (i =? j) eqn:E; [|reflexivity].
    apply N.eqb_eq in E. subst. exfalso. eapply Hn; eassumption.
Qed.

Lemma pow2_pos r : (0 < 2 ^ r)%nat.
Proof. induction r; cbn; lia. Qed.

Theorem tv_spec : forall r fuel l, (r < fuel)%nat -> length l = (2 ^ r)%nat -> (r <= K)%nat ->
  (forall i, In i l -> digest_ok H n i) ->
  match tree_validator H n k fuel l with
  | Ok nd => TreeOkF r l /\ nd = node_of r l
  | Err _ => ~ TreeOkF r l
  | Panic => False
  end.
Proof.
  induction r as [|r IH]; intros fuel l Hf Hl Hr Hd; (destruct fuel as [|fuel]; [lia|]); cbn [tree_validator].
  - destruct l as [|i [|]]; try discriminate. cbn [length Nat.ltb Nat.leb].
    rewrite (node_new_spec H n k PO) by (apply Hd; left; reflexivity).
    split; [exact I|]. unfold node_of, DD. cbn [map xorl fold_right skipn]. rewrite N.lxor_0_r. reflexivity.
  - pose proof (pow2_pos r) as Pp.
    assert (Hl2 : length l = (2 ^ r + 2 ^ r)%nat) by (rewrite Hl; cbn [Nat.pow]; lia).
    replace (1 <? length l)%nat with true by (symmetry; apply Nat.ltb_lt; lia).
    assert (Hmid : (length l / 2 = 2 ^ r)%nat).
    { rewrite Hl2. replace (2 ^ r + 2 ^ r)%nat with (2 ^ r * 2)%nat by lia. apply Nat.div_mul. lia. }
    rewrite Hmid.
    set (a := firstn (2 ^ r) l). set (b := skipn (2 ^ r) l).
    assert (La : length a = (2 ^ r)%nat) by (unfold a; rewrite firstn_length; lia).
    assert (Lb : length b = (2 ^ r)%nat) by (unfold b; rewrite skipn_length; lia).
    assert (Eab : l = a ++ b) by (symmetry; apply firstn_skipn).
    assert (Hda : forall i, In i a -> digest_ok H n i) by (intros i Hi; apply Hd; eapply in_firstn; exact Hi).
    assert (Hdb : forall i, In i b -> digest_ok H n i) by (intros i Hi; apply Hd; eapply in_skipn; exact Hi).
    pose proof (IH fuel a ltac:(lia) La ltac:(lia) Hda) as IHa.
    pose proof (IH fuel b ltac:(lia) Lb ltac:(lia) Hdb) as IHb.
    cbn [TreeOkF]. fold a b.
    destruct (tree_validator H n k fuel a) as [na| |]; [|tauto|exact IHa].
    destruct IHa as [Ta ->].
    destruct (tree_validator H n k fuel b) as [nb| |]; [|tauto|exact IHb].
    destruct IHb as [Tb ->].
    (* the children *)
    pose proof (treeok_zero r a Hda ltac:(lia) Ta) as Za.
    pose proof (treeok_zero r b Hdb ltac:(lia) Tb) as Zb.
    pose proof (DD_length a) as LDa. pose proof (DD_length b) as LDb.
    pose (sa := nth r (DD a) 0). pose (sb := nth r (DD b) 0).
    assert (Ska : skipn r (DD a) = sa :: skipn (S r) (DD a)) by (apply skipn_nth_cons; lia).
    assert (Skb : skipn r (DD b) = sb :: skipn (S r) (DD b)) by (apply skipn_nth_cons; lia).
    assert (Hsa : sa < 2 ^ (8 * N.of_nat W)).
    { eapply N.lt_le_trans; [|apply N.pow_le_mono_r; [lia | apply Wc]].
      pose proof (DD_lt a) as F. rewrite Forall_forall in F. apply F. apply nth_In. lia. }
    assert (Hsb : sb < 2 ^ (8 * N.of_nat W)).
    { eapply N.lt_le_trans; [|apply N.pow_le_mono_r; [lia | apply Wc]].
      pose proof (DD_lt b) as F. rewrite Forall_forall in F. apply F. apply nth_In. lia. }
    (* level condition 1 in terms of the digits *)
    assert (L1 : hi (xorl (Xs l)) (n - N.of_nat (S r) * c) = 0 <-> sa = sb).
    { rewrite (level_top (S r) l Hd ltac:(lia)). rewrite Eab, DD_app.
      rewrite (firstn_S_nth 0) by (rewrite zx_length; lia).
      rewrite zx_firstn, zx_nth by lia. fold sa sb.
      split.
      - intros F. apply Forall_app in F. destruct F as [_ F]. apply Forall_inv in F.
        apply N.lxor_eq. exact F.
      - intros E. rewrite E. apply Forall_app. split; [apply all_zero_zx; assumption|].
        constructor; [apply N.lxor_nilpotent | constructor]. }
    assert (Ha0 : hd 0 l = hd 0 a) by (unfold a; destruct l; [cbn in Hl2; lia|]; destruct (2 ^ r)%nat; [lia|reflexivity]).
    unfold LevelOk. replace (S r - 1)%nat with r by lia. fold b. fold a. rewrite Ha0.
    unfold validate_subtrees, has_collision, indices_before, distinct_indices, node_of.
    cbn [hash indices]. rewrite Ska, Skb, !enc_cons.
    replace (N.to_nat (collision_byte_length n k)) with W by reflexivity.
    rewrite firstn_combine_app by apply be_bytesn_length.
    destruct (forallb (fun p => fst p =? snd p) (combine (be_bytesn W sa) (be_bytesn W sb))) eqn:Ec; cbn [negb].
    2:{ intros (_ & _ & (Hx & _)). apply L1 in Hx. subst sb.
        assert (forallb (fun p => fst p =? snd p) (combine (be_bytesn W sa) (be_bytesn W sa)) = true)
          by (apply forallb_eq_combine; reflexivity).
        rewrite Hx in *. congruence. }
    apply forallb_eq_combine in Ec; [|rewrite !be_bytesn_length; reflexivity].
    apply be_bytesn_inj in Ec; try assumption.
    destruct (hd 0 b <? hd 0 a) eqn:Eo.
    { intros (_ & _ & (_ & Hx & _)). lia. }
    destruct (forallb (fun i => forallb (fun j => negb (i =? j)) b) a) eqn:Edi; cbn [negb].
    2:{ intros (_ & _ & (_ & _ & Hx)). apply distinct_spec in Hx. congruence. }
    pose proof (proj1 (distinct_spec a b) Edi) as Edi'. clear Edi. rename Edi' into Edi.
    assert (Hlt : hd 0 a < hd 0 b).
    { destruct a as [|x a']; [cbn in La; lia|]. destruct b as [|y b']; [cbn in Lb; lia|].
      cbn [hd] in *. assert (x <> y) by (intro; subst; apply (Edi y); left; reflexivity). lia. }
    split.
    + repeat split; try assumption. apply L1. assumption.
    + unfold from_children, node_of, indices_before. cbn [hash indices].
      replace (hd 0 a <? hd 0 b) with true by lia. rewrite <- Eab. f_equal.
      replace (N.to_nat (collision_byte_length n k)) with W by reflexivity.
      rewrite skipn_combine_app by apply be_bytesn_length.
      fold (zx (enc n k (skipn (S r) (DD a))) (enc n k (skipn (S r) (DD b)))).
      rewrite <- enc_zx by (rewrite !skipn_length; lia).
      rewrite <- zx_skipn, <- DD_app, <- Eab. reflexivity.
Qed.
End T.
