(** C19 — what a valid Equihash solution is, stated without reference to the verifier:
    numbers and lists only (no accumulator loops, no expanded byte rows, no recursion on trees). *)
From V.Lib Require Import Base Hex.
From V.C19 Require Import Compact.
Local Open Scope N_scope.

Definition nlen {A} (l : list A) : N := N.of_nat (length l).

(** Big-endian value of a byte string. *)
Definition be_N (l : bytes) : N := fold_left (fun a b => a * 256 + b) l 0.

(** [hi T m = T / 2^m] and [lo T m = T mod 2^m] (see [hi_div], [lo_mod] in Properties.v), written
    with shifts and masks because [2 ^ m] is computed in time linear in [m]. *)
Definition hi (T m : N) : N := N.shiftr T m.
Definition lo (T m : N) : N := N.land T (N.ones m).

(** The top [cnt] digits of [b] bits of the [tot]-bit number [T], most significant first. *)
Fixpoint digits (b : N) (cnt : nat) (T tot : N) : list N :=
  match cnt with
  | O => []
  | S c => lo (hi T (tot - b)) b :: digits b c (lo T (tot - b)) (tot - b)
  end.

Definition xorl (l : list N) : N := fold_right N.lxor 0 l.

(** The [b]-th aligned block of [2^r] elements. *)
Definition block {A} (r b : nat) (l : list A) : list A := firstn (2 ^ r) (skipn (b * 2 ^ r) l).

Section Spec.
Variable H : N -> bytes.      (* g ↦ BLAKE2b digest of input ‖ nonce ‖ le32 g *)
Variables n k : N.

Definition cbits : N := n / (k + 1).
Definition kk : nat := N.to_nat k.

(** Parameters the (repaired) crate accepts. *)
Definition params_ok : Prop :=
  n mod 8 = 0 /\ 3 <= k /\ k < n /\ n mod (k + 1) = 0 /\ n <= 512 /\
  8 <= cbits /\ cbits + 1 <= 25 /\ k <= cbits + 1.

Definition params_okb : bool :=
  (n mod 8 =? 0) && (3 <=? k) && (k <? n) && (n mod (k + 1) =? 0) && (n <=? 512) &&
  (8 <=? cbits) && (cbits + 1 <=? 25) && (k <=? cbits + 1).

Definition soln_len : N := 2 ^ k * (cbits + 1) / 8.

(** The solution is the concatenation of [2^k] indices of [cbits + 1] bits. *)
Definition soln_indices (soln : bytes) : list N :=
  digits (cbits + 1) (2 ^ kk) (be_N soln) (8 * nlen soln).

(** The [n]-bit hash of index [i]: the [(i mod m)]-th [n]-bit piece of digest [i / m], [m = 512 / n]. *)
Definition X (i : N) : N :=
  let m := 512 / n in
  be_N (firstn (N.to_nat (n / 8)) (skipn (N.to_nat ((i mod m) * (n / 8))) (H (i / m)))).

(** Conditions on one aligned block of [2^r] indices (level [r >= 1]). *)
Definition LevelOk (r : nat) (blk : list N) : Prop :=
  hi (xorl (map X blk)) (n - N.of_nat r * cbits) = 0 /\
  hd 0 blk < hd 0 (skipn (2 ^ (r - 1)) blk) /\
  (forall i, In i (firstn (2 ^ (r - 1)) blk) -> ~ In i (skipn (2 ^ (r - 1)) blk)).

Definition Valid (soln : bytes) : Prop :=
  nlen soln = soln_len /\
  (forall r b, (1 <= r <= kk)%nat -> (b < 2 ^ (kk - r))%nat ->
               LevelOk r (block r b (soln_indices soln))) /\
  xorl (map X (soln_indices soln)) = 0.

(** The same as a boolean, for evaluation on concrete cases (indices and hashes computed once). *)
Definition level_okb (r : nat) (blk xblk : list N) : bool :=
  (hi (xorl xblk) (n - N.of_nat r * cbits) =? 0) &&
  (hd 0 blk <? hd 0 (skipn (2 ^ (r - 1)) blk)) &&
  forallb (fun i => negb (existsb (N.eqb i) (skipn (2 ^ (r - 1)) blk))) (firstn (2 ^ (r - 1)) blk).

Definition validb (soln : bytes) : bool :=
  let idxs := soln_indices soln in
  let xs := map X idxs in
  (nlen soln =? soln_len) &&
  forallb (fun r => forallb (fun b => level_okb r (block r b idxs) (block r b xs)) (seq 0 (2 ^ (kk - r))))
          (seq 1 kk) &&
  (xorl xs =? 0).
End Spec.

(** ** Block header layout (zcash_primitives::block::BlockHeader)
    version 4 ‖ prev 32 ‖ merkle 32 ‖ sapling root 32 ‖ time 4 ‖ bits 4 ‖ nonce 32 ‖ CompactSize len ‖ solution.
    The Equihash input is the first 108 bytes, the nonce the next 32, the solution the [len] bytes
    after the length prefix — exact slices of the bytes on the wire, however they were delivered. *)
Definition hdr_fields (raw : bytes) : option (bytes * bytes * bytes) :=
  if (length raw <? 140)%nat then None
  else match read_compact (skipn 140 raw) with
       | None => None
       | Some (l, rest) =>
           if (length rest <? N.to_nat l)%nat then None
           else Some (firstn 108 raw, firstn 32 (skipn 108 raw), firstn (N.to_nat l) rest)
       end.
