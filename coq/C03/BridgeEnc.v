(** C03 — the encoder-only specifications of CompactSize / Vector<u8> / Optional<u32> in Spec.v
    coincide with the codecs, hence the bridge also holds for those cases. *)
From Coq Require Import List NArith ZArith Bool Lia.
From V.Lib Require Import Base Hex.
From V.Gen Require Import C03Tables.
From V.C03 Require Import Codec Model Spec Corr Wf Proofs Bridge.
Import ListNotations.
Local Open Scope N_scope.

Definition cs_len (f : N) : nat :=
  if f <? 253 then 1%nat else if f =? 253 then 3%nat else if f =? 254 then 5%nat else 9%nat.

(** shape of an encoding: head byte, tail, and the value read back from the tail *)
Lemma enc_compact_shape v : v < 18446744073709551616 ->
  exists f t, enc_compact v = f :: t /\ length (f :: t) = cs_len f /\
              (match t with [] => f | _ => of_le t end) = v.
Proof.
  intros Hv. unfold enc_compact.
  destruct (v <? 253) eqn:E1.
  - exists v, []. unfold cs_len. rewrite E1. auto.
  - apply N.ltb_ge in E1. destruct (v <=? 65535) eqn:E2.
    + apply N.leb_le in E2. exists 253, (le 2 v). split; [reflexivity|]. split; [cbn [length]; rewrite le_length; reflexivity|].
      rewrite of_le_le by (rewrite pow256_2; lia). reflexivity.
    + apply N.leb_gt in E2. destruct (v <=? 4294967295) eqn:E3.
      * apply N.leb_le in E3. exists 254, (le 4 v). split; [reflexivity|]. split; [cbn [length]; rewrite le_length; reflexivity|].
        rewrite of_le_le by (rewrite pow256_4; lia). reflexivity.
      * exists 255, (le 8 v). split; [reflexivity|]. split; [cbn [length]; rewrite le_length; reflexivity|].
        rewrite of_le_le by (rewrite pow256_8; lia). reflexivity.
Qed.

(** without the bound: the length is still determined by the head *)
Lemma enc_compact_len v : exists f t, enc_compact v = f :: t /\ length (f :: t) = cs_len f.
Proof.
  unfold enc_compact. destruct (v <? 253) eqn:E1.
  - exists v, []. unfold cs_len. rewrite E1. auto.
  - destruct (v <=? 65535); [exists 253, (le 2 v) | destruct (v <=? 4294967295); [exists 254, (le 4 v) | exists 255, (le 8 v)]];
      (split; [reflexivity | cbn [length]; rewrite le_length; reflexivity]).
Qed.

Lemma cand_some k b v : cs_candidate k b = Some v ->
  exists rest, b = enc_compact v ++ rest /\ length (enc_compact v) = k.
Proof.
  unfold cs_candidate. destruct (take k b) as [[p rest]|] eqn:T; [|discriminate].
  cbv zeta. destruct (bytes_eqb _ p) eqn:E; [|discriminate]. intros H. inversion H; subst v. clear H.
  apply bytes_eqb_eq in E. apply take_some in T as [-> L]. exists rest. rewrite E. auto.
Qed.

Lemma cand_ok b v rest : v < 18446744073709551616 -> b = enc_compact v ++ rest ->
  cs_candidate (length (enc_compact v)) b = Some v.
Proof.
  intros Hv ->. unfold cs_candidate. rewrite take_app. cbv zeta.
  destruct (enc_compact_shape v Hv) as (f & t & E & _ & V). rewrite E. rewrite V.
  rewrite <- E, bytes_eqb_refl. reflexivity.
Qed.

Lemma cand_none k b v rest : b = enc_compact v ++ rest -> length (enc_compact v) <> k ->
  cs_candidate k b = None.
Proof.
  intros Hb Hk. destruct (cs_candidate k b) as [v'|] eqn:C; [|reflexivity]. exfalso.
  apply cand_some in C as (rest' & Hb' & L'). apply Hk. rewrite <- L'.
  destruct (enc_compact_len v) as (f & t & E & Lf). destruct (enc_compact_len v') as (f' & t' & E' & Lf').
  rewrite E, E' in *. rewrite Hb in Hb'. cbn [app] in Hb'. inversion Hb'; subst f'. congruence.
Qed.

Lemma cand_bound k b v : cs_candidate k b = Some v -> v < 18446744073709551616.
Proof.
  unfold cs_candidate. destruct (take k b) as [[p rest]|]; [|discriminate]. cbv zeta.
  destruct (bytes_eqb _ p) eqn:E; [|discriminate]. intros H. injection H as V.
  apply bytes_eqb_eq in E. rewrite V in E.
  destruct p as [|f t]; [subst; lia|]. destruct t as [|x t'].
  - (* one byte: enc_compact v = [v] with v < 253 *)
    subst f. unfold enc_compact in E. destruct (v <? 253) eqn:E1; [apply N.ltb_lt in E1; lia|].
    destruct (v <=? 65535); [discriminate|]. destruct (v <=? 4294967295); discriminate.
  - change (of_le (x :: t') = v) in V. unfold enc_compact in E.
    destruct (v <? 253); [discriminate|].
    destruct (v <=? 65535); [|destruct (v <=? 4294967295)];
      apply (f_equal (@tl N)) in E; cbn [tl] in E; rewrite <- V, <- E;
      match goal with |- of_le (le ?j ?w) < _ =>
        pose proof (of_le_bound (le j w) (le_bytes j w)) as B; rewrite le_length in B end.
    + rewrite pow256_2 in B. lia.
    + rewrite pow256_4 in B. lia.
    + rewrite pow256_8 in B. exact B.
Qed.

Definition consumed_view {A} (b : bytes) (o : option (A * bytes)) : option (A * N) :=
  match o with Some (v, r) => Some (v, nlen b - nlen r) | None => None end.

Lemma enc_compact_lengths v : let L := length (enc_compact v) in L = 1%nat \/ L = 3%nat \/ L = 5%nat \/ L = 9%nat.
Proof.
  destruct (enc_compact_len v) as (f & t & E & Lf). cbv zeta. rewrite E, Lf. unfold cs_len.
  destruct (f <? 253); [auto|]. destruct (f =? 253); [auto|]. destruct (f =? 254); auto.
Qed.

Theorem cs_first_raw b : cs_first b = consumed_view b (dec c_compact_raw b).
Proof.
  destruct (dec c_compact_raw b) as [[v r]|] eqn:D; cbn [consumed_view].
  - pose proof (canon _ c_compact_raw_ok _ _ _ D) as [E W]. cbn [c_compact_raw wf enc] in E, W.
    apply N.ltb_lt in W.
    assert (HC : nlen b - nlen r = N.of_nat (length (enc_compact v))).
    { rewrite E, nlen_app. unfold nlen. lia. }
    rewrite HC. pose proof (cand_ok b v r W E) as OK.
    unfold cs_first.
    destruct (enc_compact_lengths v) as [L|[L|[L|L]]]; rewrite L in *.
    + rewrite OK. reflexivity.
    + rewrite (cand_none 1 b v r E) by lia. rewrite OK. reflexivity.
    + rewrite (cand_none 1 b v r E), (cand_none 3 b v r E) by lia. rewrite OK. reflexivity.
    + rewrite (cand_none 1 b v r E), (cand_none 3 b v r E), (cand_none 5 b v r E) by lia. rewrite OK. reflexivity.
  - unfold cs_first.
    assert (N : forall k, cs_candidate k b = None).
    { intros k. destruct (cs_candidate k b) as [v|] eqn:C; [|reflexivity]. exfalso.
      pose proof (cand_bound _ _ _ C) as B. apply cand_some in C as (rest & -> & _).
      rewrite (rt _ c_compact_raw_ok) in D; [discriminate|]. cbn [c_compact_raw wf]. apply N.ltb_lt. exact B. }
    rewrite !N. reflexivity.
Qed.

Theorem cs_spec_raw b : cs_spec None b = consumed_view b (dec c_compact_raw b).
Proof. unfold cs_spec. rewrite cs_first_raw. destruct (dec c_compact_raw b) as [[v r]|]; reflexivity. Qed.

Theorem cs_spec_bounded mx b : cs_spec (Some mx) b = consumed_view b (dec (c_compact mx) b).
Proof.
  unfold cs_spec. rewrite cs_first_raw. cbn [c_compact c_refine dec].
  destruct (dec c_compact_raw b) as [[v r]|]; cbn [consumed_view]; [|reflexivity].
  destruct (v <=? mx); reflexivity.
Qed.

(** consumed length as reported by [run_case] *)
Lemma consumed_eq (b r : bytes) n : (n + nlen r =? nlen b) = true -> nlen b - nlen r = n.
Proof. intros H. apply N.eqb_eq in H. lia. Qed.

Lemma take_firstn_skipn n : forall l : bytes, (n <= length l)%nat -> take n l = Some (firstn n l, skipn n l).
Proof.
  induction n as [|n IH]; intros l H; [reflexivity|].
  destruct l as [|x l]; [cbn in H; lia|]. cbn [take firstn skipn]. rewrite IH by (cbn in H; lia). reflexivity.
Qed.

Lemma is_bytes_app a b : is_bytes (a ++ b) = is_bytes a && is_bytes b.
Proof. unfold is_bytes. apply forallb_app. Qed.

(** Vector<u8> *)
Theorem vec_spec_correct b : vec_spec b = consumed_view b (dec (c_bytevec MX) b).
Proof.
  unfold vec_spec. change MAX_COMPACT_SIZE with MX. rewrite cs_spec_bounded. cbn [c_bytevec dec].
  destruct (dec (c_compact MX) b) as [[len r1]|] eqn:D; cbn [consumed_view]; [|reflexivity].
  pose proof (canon _ (c_compact_ok MX) _ _ _ D) as [E _].
  assert (K : nlen b - nlen r1 = nlen (enc (c_compact MX) len)) by (rewrite E at 1; rewrite nlen_app; lia).
  assert (S : skipn (N.to_nat (nlen b - nlen r1)) b = r1).
  { rewrite K. unfold nlen. rewrite Nat2N.id. rewrite E at 1. rewrite skipn_app, skipn_all, Nat.sub_diag. reflexivity. }
  cbv zeta. rewrite S, takeN_take. destruct (len <=? nlen r1) eqn:L.
  2:{ apply N.leb_gt in L. rewrite take_short by (unfold nlen in L; lia). reflexivity. }
  apply N.leb_le in L. rewrite take_firstn_skipn by (unfold nlen in L; lia). cbn [consumed_view]. f_equal. f_equal.
  assert (nlen (skipn (N.to_nat len) r1) = nlen r1 - len).
  { unfold nlen in *. rewrite skipn_length. lia. }
  assert (nlen b = nlen (enc (c_compact MX) len) + nlen r1) by (rewrite E at 1; apply nlen_app).
  lia.
Qed.

(** Optional<u32le> *)
Theorem opt_spec_correct b : is_bytes b = true -> opt_spec b = consumed_view b (dec (c_flagopt c_u32le) b).
Proof.
  intros B. destruct b as [|f t]; [reflexivity|].
  cbn [is_bytes forallb] in B. unfold is_bytes in B. cbn [forallb] in B. apply andb_true_iff in B as [Bf Bt].
  unfold c_flagopt. cbn [c_iso c_dep c_refine dec c_u8 c_uint take]. cbn [forallb]. rewrite Bf. cbn [andb of_le].
  rewrite N.mul_0_r, N.add_0_r.
  destruct f as [|p].
  - (* 0 *) cbn [N.ltb N.compare N.eqb c_opt c_none dec consumed_view snd opt_spec].
    f_equal. f_equal. unfold nlen. cbn [length]. lia.
  - destruct p as [p|p|].
    + (* >= 3, odd *) replace (N.pos p~1 <? 2) with false by (symmetry; apply N.ltb_ge; lia). reflexivity.
    + (* >= 2, even *) replace (N.pos p~0 <? 2) with false by (symmetry; apply N.ltb_ge; lia). reflexivity.
    + (* 1 *) change (1 <? 2) with true. cbv iota. change (1 =? 1) with true. cbn [c_opt c_some dec c_u32le c_uint opt_spec].
      destruct (take 4 t) as [[x t2]|] eqn:T; [|reflexivity].
      apply take_some in T as [-> L]. fold (is_bytes (x ++ t2)) in Bt. rewrite is_bytes_app in Bt.
      apply andb_true_iff in Bt as [Bx _]. unfold is_bytes in Bx. rewrite Bx. cbn [consumed_view snd].
      f_equal. f_equal. unfold nlen. cbn [length]. rewrite app_length, L. lia.
Qed.

Definition is_enc_case (c : case) : bool :=
  match c with Tx _ _ _ _ _ _ | Hdr _ _ _ _ => false | _ => true end.

Theorem bridge_enc : forall H c,
  is_enc_case c = true -> wf_case c = true -> run_caseH H c = true -> prop_caseH H c = true.
Proof.
  intros H [ | | which b o | which n o | b o | b o | w b o | api b fill o | count b fill o] K W R; try discriminate K; clear K;
    cbn [wf_case] in W; cbn [run_caseH] in R; cbn [prop_caseH].
  - (* CsRead *)
    destruct (which =? 0).
    + rewrite cs_spec_bounded. destruct (dec (c_compact MX) b) as [[v r]|]; destruct o as [[v' n]| |]; try discriminate R; [|reflexivity].
      apply andb_true_iff in R as [R1 R2]. cbn [consumed_view cs_out_eqb]. rewrite (consumed_eq _ _ _ R2), R1, N.eqb_refl. reflexivity.
    + rewrite cs_spec_raw. destruct (dec c_compact_raw b) as [[v r]|]; destruct o as [[v' n]| |]; try discriminate R; [|reflexivity].
      apply andb_true_iff in R as [R1 R2]. cbn [consumed_view cs_out_eqb]. rewrite (consumed_eq _ _ _ R2), R1, N.eqb_refl. reflexivity.
  - (* CsWrite *)
    destruct o as [w| |]; [|exact R|discriminate R].
    apply andb_true_iff in W as [_ Wn]. apply N.ltb_lt in Wn.
    apply andb_true_iff in R as [R1 R2]. apply bytes_eqb_eq in R1. subst w.
    destruct (which =? 0) eqn:Wh.
    + apply N.eqb_eq in Wh. subst which. cbn [N.eqb orb] in R2.
      rewrite cs_spec_bounded. rewrite <- (app_nil_r (enc_compact n)) at 2.
      change (enc_compact n) with (enc (c_compact MX) n) at 2.
      rewrite (rt _ (c_compact_ok MX)).
      * cbn [consumed_view cs_out_eqb]. unfold nlen at 2. cbn [length]. rewrite N.sub_0_r, !N.eqb_refl. reflexivity.
      * cbn [c_compact c_refine c_compact_raw wf]. rewrite R2, andb_true_r. apply N.ltb_lt. exact Wn.
    + rewrite cs_spec_raw. rewrite <- (app_nil_r (enc_compact n)) at 2.
      change (enc_compact n) with (enc c_compact_raw n) at 2.
      rewrite (rt _ c_compact_raw_ok).
      * cbn [consumed_view cs_out_eqb]. unfold nlen at 2. cbn [length]. rewrite N.sub_0_r, !N.eqb_refl. reflexivity.
      * cbn [c_compact_raw wf]. apply N.ltb_lt. exact Wn.
  - (* VecU8 *)
    rewrite vec_spec_correct. destruct (dec (c_bytevec MX) b) as [[v r]|]; destruct o as [[v' n]| |]; try discriminate R; [|reflexivity].
    apply andb_true_iff in R as [R1 R2]. cbn [consumed_view]. rewrite (consumed_eq _ _ _ R2), R1, N.eqb_refl. reflexivity.
  - (* OptU32 *)
    rewrite (opt_spec_correct b W). destruct (dec (c_flagopt c_u32le) b) as [[v r]|]; destruct o as [[v' n]| |]; try discriminate R; [|reflexivity].
    apply andb_true_iff in R as [R1 R2]. cbn [consumed_view]. rewrite (consumed_eq _ _ _ R2), R1, N.eqb_refl. reflexivity.
  - (* ReadT *)
    unfold readt_spec. change MAX_COMPACT_SIZE with MX. rewrite cs_spec_bounded. cbn [c_read_t c_refine dec] in R.
    destruct (dec (c_compact MX) b) as [[v r]|]; cbn [consumed_view].
    + destruct (v <? 2 ^ target_bits w); [|destruct o; try discriminate R; reflexivity].
      destruct o as [[v' n]| |]; try discriminate R.
      apply andb_true_iff in R as [R1 R2]. cbn [cs_out_eqb]. rewrite (consumed_eq _ _ _ R2), R1, N.eqb_refl. reflexivity.
    + destruct o; try discriminate R; reflexivity.
  - (* VecFill *)
    apply andb_true_iff in R as [R _]. unfold vecfill_prop. change MAX_COMPACT_SIZE with MX. rewrite cs_spec_bounded.
    unfold vecfill_model in R. cbv zeta in R.
    destruct (dec (c_compact MX) (stream_head b fill)) as [[n r]|]; cbn [consumed_view].
    + destruct (n <=? nlen b + fill - (nlen (stream_head b fill) - nlen r)) eqn:L.
      * destruct o as [[n' c]|c|]; try discriminate R. unfold fill_eqb in R. cbn [outcome_eqb pair_eqb fst snd] in R.
        apply andb_true_iff in R as [R1 R2]. apply N.eqb_eq in R1, R2. cbn [fst snd] in R1, R2. subst. rewrite ?L, !N.eqb_refl. reflexivity.
      * destruct o as [[n' c]|c|]; try discriminate R. unfold fill_eqb in R. cbn [outcome_eqb] in R.
        apply N.eqb_eq in R. subst c. apply N.leb_gt in L. rewrite (proj2 (N.ltb_lt _ _) L), N.leb_refl. reflexivity.
    + destruct o as [[n' c]|c|]; try discriminate R. unfold fill_eqb in R. cbn [outcome_eqb] in R.
      apply N.eqb_eq in R. subst c. destruct (stream_head b fill) as [|f t]; [apply andb_true_iff; split; apply N.leb_le; lia|].
      assert (cs_width f <= 9) by (unfold cs_width; destruct (f <? 253); [lia|]; destruct (f =? 253); [lia|]; destruct (f =? 254); lia).
      apply andb_true_iff. split; apply N.leb_le; lia.
  - (* ArrFill *)
    apply andb_true_iff in R as [R _]. unfold arrfill_prop. unfold arrfill_model in R. cbv zeta in R.
    destruct (count <=? nlen b + fill) eqn:L.
    + destruct o as [[n' c]|c|]; try discriminate R. unfold fill_eqb in R. cbn [outcome_eqb pair_eqb fst snd] in R.
      apply andb_true_iff in R as [R1 R2]. apply N.eqb_eq in R1, R2. cbn [fst snd] in R1, R2. subst. rewrite ?L, !N.eqb_refl. reflexivity.
    + destruct o as [[n' c]|c|]; try discriminate R. unfold fill_eqb in R. cbn [outcome_eqb] in R.
      apply N.eqb_eq in R. subst c. apply N.leb_gt in L. rewrite (proj2 (N.ltb_lt _ _) L), N.leb_refl. reflexivity.
Qed.

(* ---------------------------------------------------------------------------------------- *)
(** * The arithmetic model used for long readers is the vector codec [c_vec MX c_u8] applied to
      the whole stream [b ++ 0^fill], whatever [fill] is. *)

Lemma dec_u8_byte x r : x < 256 -> dec c_u8 (x :: r) = Some (x, r).
Proof.
  intros Hx. cbn [c_u8 c_uint dec take forallb]. unfold is_byte. rewrite (proj2 (N.ltb_lt _ _) Hx).
  cbn [andb of_le]. rewrite N.mul_0_r, N.add_0_r. reflexivity.
Qed.

Lemma dec_rep_u8 n : forall l : bytes, is_bytes l = true -> (n <= length l)%nat ->
  dec_rep c_u8 n l = Some (firstn n l, skipn n l).
Proof.
  induction n as [|n IH]; intros l B L; [reflexivity|].
  destruct l as [|x l]; [cbn in L; lia|]. unfold is_bytes in B. cbn [forallb] in B.
  apply andb_true_iff in B as [Bx Bl]. unfold is_byte in Bx. apply N.ltb_lt in Bx.
  cbn [dec_rep]. rewrite dec_u8_byte by exact Bx. rewrite IH by (try exact Bl; cbn in L; lia). reflexivity.
Qed.

Lemma is_bytes_zeros k : is_bytes (repeat 0 k) = true.
Proof. induction k; [reflexivity|]. cbn. exact IHk. Qed.

(** the CompactSize decoder looks at no more than nine bytes *)
Lemma compact_none_extend mx (s x : bytes) : (9 <= length s)%nat ->
  dec (c_compact mx) s = None -> dec (c_compact mx) (s ++ x) = None.
Proof.
  intros L D. destruct (dec (c_compact mx) (s ++ x)) as [[n r]|] eqn:E; [|reflexivity]. exfalso.
  pose proof (canon _ (c_compact_ok mx) _ _ _ E) as [Eq W].
  cbn [c_compact c_refine c_compact_raw enc] in Eq.
  assert (Le : (length (enc_compact n) <= 9)%nat).
  { destruct (enc_compact_lengths n) as [A|[A|[A|A]]]; cbv zeta in A; rewrite A; lia. }
  assert (P : s = enc_compact n ++ firstn (length s - length (enc_compact n)) r).
  { pose proof (f_equal (firstn (length s)) Eq) as F.
    rewrite firstn_app, Nat.sub_diag, firstn_all, firstn_O, app_nil_r in F.
    rewrite firstn_app in F. rewrite (firstn_all2 (enc_compact n)) in F by lia. exact F. }
  rewrite P in D. change (enc_compact n) with (enc (c_compact mx) n) in D at 1.
  rewrite (rt _ (c_compact_ok mx)) in D by exact W. discriminate.
Qed.

Lemma stream_split (b : bytes) fill :
  b ++ repeat 0 (N.to_nat fill) = stream_head b fill ++ repeat 0 (N.to_nat (fill - N.min fill 9)).
Proof.
  unfold stream_head. rewrite <- app_assoc, <- repeat_app. f_equal. f_equal. lia.
Qed.

Theorem vecfill_model_is_c_vec : forall (b : bytes) fill, is_bytes b = true ->
  match vecfill_model b fill with
  | Ok (n, c) => exists l r, dec (c_vec MX c_u8) (b ++ repeat 0 (N.to_nat fill)) = Some (l, r) /\
                             nlen l = n /\ c + nlen r = nlen b + fill
  | Err _ => dec (c_vec MX c_u8) (b ++ repeat 0 (N.to_nat fill)) = None
  | Panic => False
  end.
Proof.
  intros b fill B. unfold vecfill_model. cbv zeta.
  pose proof (stream_split b fill) as SP.
  assert (TS : nlen (b ++ repeat 0 (N.to_nat fill)) = nlen b + fill).
  { rewrite nlen_app. unfold nlen at 2. rewrite repeat_length. lia. }
  assert (BS : is_bytes (b ++ repeat 0 (N.to_nat fill)) = true) by (rewrite is_bytes_app, B, is_bytes_zeros; reflexivity).
  rewrite SP in TS, BS. rewrite SP. clear SP.
  set (s9 := stream_head b fill) in *. set (x := repeat 0 (N.to_nat (fill - N.min fill 9))) in *.
  destruct (dec (c_compact MX) s9) as [[n r]|] eqn:D.
  - pose proof (canon_length _ (c_compact_ok MX) _ _ _ D) as CL.
    assert (K : nlen b + fill - (nlen s9 - nlen r) = nlen (r ++ x)).
    { rewrite <- TS, !nlen_app. unfold nlen in *. lia. }
    rewrite K.
    assert (DV : dec (c_vec MX c_u8) (s9 ++ x) =
                 if n <=? nlen (r ++ x) then dec_rep c_u8 (N.to_nat n) (r ++ x) else None).
    { cbn [c_vec dec]. rewrite (dec_extend _ (c_compact_ok MX) _ _ _ x D). reflexivity. }
    destruct (n <=? nlen (r ++ x)) eqn:L; [|exact DV].
    apply N.leb_le in L.
    assert (BR : is_bytes (r ++ x) = true).
    { apply (canon _ (c_compact_ok MX)) in D as [E _]. rewrite E, <- app_assoc in BS.
      rewrite is_bytes_app in BS. apply andb_true_iff in BS as [_ BS]. exact BS. }
    rewrite dec_rep_u8 in DV by (try exact BR; unfold nlen in L; lia).
    eexists _, _. split; [exact DV|]. split.
    + unfold nlen in *. rewrite firstn_length. lia.
    + rewrite <- TS, nlen_app. unfold nlen in *. rewrite skipn_length, !app_length in *. lia.
  - cbn [c_vec dec]. destruct (N.leb_spec fill 9) as [F|F].
    + assert (x = []) as -> by (unfold x; replace (fill - N.min fill 9) with 0 by lia; reflexivity).
      rewrite app_nil_r, D. reflexivity.
    + rewrite compact_none_extend; [reflexivity| |exact D].
      unfold s9, stream_head. rewrite app_length, repeat_length. lia.
Qed.
