(** C03 — the encoder-only specifications of CompactSize / Vector<u8> / Optional<u32> in Spec.v
    coincide with the codecs, hence the bridge also holds for those cases. *)
From Coq Require Import List NArith ZArith Bool Lia.
From V.Lib Require Import Base Hex.
From V.Gen Require Import C03Tables.
From V.C03 Require Import Codec Model Spec Corr Wf Proofs Bridge.
Import ListNotations.
Local Open Scope N_scope.

Definition cs_len (f : N) : nat :=
  if f <? 253 then 1%nat else if f =? 253 then 3%nat else if f =? 254 then 5%nat else 9%nat.

(** shape of an encoding: head byte, tail, and the value read back from the tail *)
Lemma enc_compact_shape v : v < 18446744073709551616 ->
  exists f t, enc_compact v = f :: t /\ length (f :: t) = cs_len f /\
              (match t with [] => f | _ => of_le t end) = v.
Proof.
  intros Hv. unfold enc_compact.
  destruct (v <? 253) eqn:E1.
  - exists v, []. unfold cs_len. rewrite E1. auto.
  - apply N.ltb_ge in E1. destruct (v <=? 65535) eqn:E2.
    + apply N.leb_le in E2. exists 253, (le 2 v). split; [reflexivity|]. split; [cbn [length]; rewrite le_length; reflexivity|].
      rewrite of_le_le by (rewrite pow256_2; lia). reflexivity.
    + apply N.leb_gt in E2. destruct (v <=? 4294967295) eqn:E3.
      * apply N.leb_le in E3. exists 254, (le 4 v). split; [reflexivity|]. split; [cbn [length]; rewrite le_length; reflexivity|].
        rewrite of_le_le by (rewrite pow256_4; lia). reflexivity.
      * exists 255, (le 8 v). split; [reflexivity|]. split; [cbn [length]; rewrite le_length; reflexivity|].
        rewrite of_le_le by (rewrite pow256_8; lia). reflexivity.
Qed.

(** without the bound: the length is still determined by the head *)
Lemma enc_compact_len v : exists f t, enc_compact v = f :: t /\ length (f :: t) = cs_len f.
Proof.
  unfold enc_compact. destruct (v <? 253) eqn:E1.
  - exists v, []. unfold cs_len. rewrite E1. auto.
  - destruct (v <=? 65535); [exists 253, (le 2 v) | destruct (v <=? 4294967295); [exists 254, (le 4 v) | exists 255, (le 8 v)]];
      (split; [reflexivity | cbn [length]; rewrite le_length; reflexivity]).
Qed.

Lemma cand_some k b v : cs_candidate k b = Some v ->
  exists rest, b = enc_compact v ++ rest /\ length (enc_compact v) = k.
Proof.
  unfold cs_candidate. destruct (take k b) as [[p rest]|] eqn:T; [|discriminate].
  cbv zeta. destruct (bytes_eqb _ p) eqn:E; [|discriminate]. intros H. inversion H; subst v. clear H.
  apply bytes_eqb_eq in E. apply take_some in T as [-> L]. exists rest. rewrite E. auto.
Qed.

Lemma cand_ok b v rest : v < 18446744073709551616 -> b = enc_compact v ++ rest ->
  cs_candidate (length (enc_compact v)) b = Some v.
Proof.
  intros Hv ->. unfold cs_candidate. rewrite take_app. cbv zeta.
  destruct (enc_compact_shape v Hv) as (f & t & E & _ & V). rewrite E. rewrite V.
  rewrite <- E, bytes_eqb_refl. reflexivity.
Qed.

Lemma cand_none k b v rest : b = enc_compact v ++ rest -> length (enc_compact v) <> k ->
  cs_candidate k b = None.
Proof.
  intros Hb Hk. destruct (cs_candidate k b) as [v'|] eqn:C; [|reflexivity]. exfalso.
  apply cand_some in C as (rest' & Hb' & L'). apply Hk. rewrite <- L'.
  destruct (enc_compact_len v) as (f & t & E & Lf). destruct (enc_compact_len v') as (f' & t' & E' & Lf').
  rewrite E, E' in *. rewrite Hb in Hb'. cbn [app] in Hb'. inversion Hb'; subst f'. congruence.
Qed.

Lemma cand_bound k b v : cs_candidate k b = Some v -> v < 18446744073709551616.
Proof.
  unfold cs_candidate. destruct (take k b) as [[p rest]|]; [|discriminate]. cbv zeta.
  destruct (bytes_eqb _ p) eqn:E; [|discriminate]. intros H. injection H as V.
  apply bytes_eqb_eq in E. rewrite V in E.
  destruct p as [|f t]; [subst; lia|]. destruct t as [|x t'].
  - (* one byte: enc_compact v = [v] with v < 253 *)
    subst f. unfold enc_compact in E. destruct (v <? 253) eqn:E1; [apply N.ltb_lt in E1; lia|].
    destruct (v <=? 65535); [discriminate|]. destruct (v <=? 4294967295); discriminate.
  - change (of_le (x :: t') = v) in V. unfold enc_compact in E.
    destruct (v <? 253); [discriminate|].
    destruct (v <=? 65535); [|destruct (v <=? 4294967295)];
      apply (f_equal (@tl N)) in E; cbn [tl] in E; rewrite <- V, <- E;
      match goal with |- of_le (le ?j ?w) < _ =>
        pose proof (of_le_bound (le j w) (le_bytes j w)) as B; rewrite le_length in B end.
    + rewrite pow256_2 in B. lia.
    + rewrite pow256_4 in B. lia.
    + rewrite pow256_8 in B. exact B.
Qed.

Definition consumed_view {A} (b : bytes) (o : option (A * bytes)) : option (A * N) :=
  match o with Some (v, r) => Some (v, nlen b - nlen r) | None => None end.

Lemma enc_compact_lengths v : let L := length (enc_compact v) in L = 1%nat \/ L = 3%nat \/ L = 5%nat \/ L = 9%nat.
Proof.
  destruct (enc_compact_len v) as (f & t & E & Lf). cbv zeta. rewrite E, Lf. unfold cs_len.
  destruct (f <? 253); [auto|]. destruct (f =? 253); [auto|]. destruct (f =? 254); auto.
Qed.

Theorem cs_first_raw b : cs_first b = consumed_view b (dec c_compact_raw b).
Proof.
  destruct (dec c_compact_raw b) as [[v r]|] eqn:D; cbn [consumed_view].
  - pose proof (canon _ c_compact_raw_ok _ _ _ D) as [E W]. cbn [c_compact_raw wf enc] in E, W.
    apply N.ltb_lt in W.
    assert (HC : nlen b - nlen r = N.of_nat (length (enc_compact v))).
    { rewrite E, nlen_app. unfold nlen. lia. }
    rewrite HC. pose proof (cand_ok b v r W E) as OK.
    unfold cs_first.
    destruct (enc_compact_lengths v) as [L|[L|[L|L]]]; rewrite L in *.
    + rewrite OK. reflexivity.
    + rewrite (cand_none 1 b v r E) by lia. rewrite OK. reflexivity.
    + rewrite (cand_none 1 b v r E), (cand_none 3 b v r E) by lia. rewrite OK. reflexivity.
    + rewrite (cand_none 1 b v r E), (cand_none 3 b v r E), (cand_none 5 b v r E) by lia. rewrite OK. reflexivity.
  - unfold cs_first.
    assert (N : forall k, cs_candidate k b = None).
    { intros k. destruct (cs_candidate k b) as [v|] eqn:C; [|reflexivity]. exfalso.
      pose proof (cand_bound _ _ _ C) as B. apply cand_some in C as (rest & -> & _).
      rewrite (rt _ c_compact_raw_ok) in D; [discriminate|]. cbn [c_compact_raw wf]. apply N.ltb_lt. exact B. }
    rewrite !N. reflexivity.
Qed.

Theorem cs_spec_raw b : cs_spec None b = consumed_view b (dec c_compact_raw b).
Proof. unfold cs_spec. rewrite cs_first_raw. destruct (dec c_compact_raw b) as [[v r]|]; reflexivity. Qed.

Theorem cs_spec_bounded mx b : cs_spec (Some mx) b = consumed_view b (dec (c_compact mx) b).
Proof.
  unfold cs_spec. rewrite cs_first_raw. cbn [c_compact c_refine dec].
  destruct (dec c_compact_raw b) as [[v r]|]; cbn [consumed_view]; [|reflexivity].
  destruct (v <=? mx); reflexivity.
Qed.

(** consumed length as reported by [run_case] *)
Lemma consumed_eq (b r : bytes) n : (n + nlen r =? nlen b) = true -> nlen b - nlen r = n.
Proof. intros H. apply N.eqb_eq in H. lia. Qed.

Lemma take_firstn_skipn n : forall l : bytes, (n <= length l)%nat -> take n l = Some (firstn n l, skipn n l).
Proof.
  induction n as [|n IH]; intros l H; [reflexivity|].
  destruct l as [|x l]; [cbn in H; lia|]. cbn [take firstn skipn]. rewrite IH by (cbn in H; lia). reflexivity.
Qed.

Lemma is_bytes_app a b : is_bytes (a ++ b) = is_bytes a && is_bytes b.
Proof. unfold is_bytes. apply forallb_app. Qed.

(** Vector<u8> *)
Theorem vec_spec_correct b : vec_spec b = consumed_view b (dec (c_bytevec MX) b).
Proof.
  unfold vec_spec. change MAX_COMPACT_SIZE with MX. rewrite cs_spec_bounded. cbn [c_bytevec dec].
  destruct (dec (c_compact MX) b) as [[len r1]|] eqn:D; cbn [consumed_view]; [|reflexivity].
  pose proof (canon _ (c_compact_ok MX) _ _ _ D) as [E _].
  assert (K : nlen b - nlen r1 = nlen (enc (c_compact MX) len)) by (rewrite E at 1; rewrite nlen_app; lia).
  assert (S : skipn (N.to_nat (nlen b - nlen r1)) b = r1).
  { rewrite K. unfold nlen. rewrite Nat2N.id. rewrite E at 1. rewrite skipn_app, skipn_all, Nat.sub_diag. reflexivity. }
  cbv zeta. rewrite S. destruct (len <=? nlen r1) eqn:L; [|reflexivity].
  apply N.leb_le in L. rewrite take_firstn_skipn by (unfold nlen in L; lia). cbn [consumed_view]. f_equal. f_equal.
  assert (nlen (skipn (N.to_nat len) r1) = nlen r1 - len).
  { unfold nlen in *. rewrite skipn_length. lia. }
  assert (nlen b = nlen (enc (c_compact MX) len) + nlen r1) by (rewrite E at 1; apply nlen_app).
  lia.
Qed.

(** Optional<u32le> *)
Theorem opt_spec_correct b : is_bytes b = true -> opt_spec b = consumed_view b (dec (c_flagopt c_u32le) b).
Proof.
  intros B. destruct b as [|f t]; [reflexivity|].
  cbn [is_bytes forallb] in B. unfold is_bytes in B. cbn [forallb] in B. apply andb_true_iff in B as [Bf Bt].
  unfold c_flagopt. cbn [c_iso c_dep c_refine dec c_u8 c_uint take]. cbn [forallb]. rewrite Bf. cbn [andb of_le].
  rewrite N.mul_0_r, N.add_0_r.
  destruct f as [|p].
  - (* 0 *) cbn [N.ltb N.compare N.eqb c_opt c_none dec consumed_view snd opt_spec].
    f_equal. f_equal. unfold nlen. cbn [length]. lia.
  - destruct p as [p|p|].
    + (* >= 3, odd *) replace (N.pos p~1 <? 2) with false by (symmetry; apply N.ltb_ge; lia). reflexivity.
    + (* >= 2, even *) replace (N.pos p~0 <? 2) with false by (symmetry; apply N.ltb_ge; lia). reflexivity.
    + (* 1 *) change (1 <? 2) with true. cbv iota. change (1 =? 1) with true. cbn [c_opt c_some dec c_u32le c_uint opt_spec].
      destruct (take 4 t) as [[x t2]|] eqn:T; [|reflexivity].
      apply take_some in T as [-> L]. fold (is_bytes (x ++ t2)) in Bt. rewrite is_bytes_app in Bt.
      apply andb_true_iff in Bt as [Bx _]. unfold is_bytes in Bx. rewrite Bx. cbn [consumed_view snd].
      f_equal. f_equal. unfold nlen. cbn [length]. rewrite app_length, L. lia.
Qed.

Definition is_enc_case (c : case) : bool :=
  match c with Tx _ _ _ _ _ _ | Hdr _ _ _ _ => false | _ => true end.

Theorem bridge_enc : forall H c,
  is_enc_case c = true -> wf_case c = true -> run_caseH H c = true -> prop_caseH H c = true.
Proof.
  intros H [ | | which b o | which n o | b o | b o] K W R; try discriminate K; clear K;
    cbn [wf_case] in W; cbn [run_caseH] in R; cbn [prop_caseH].
  - (* CsRead *)
    destruct (which =? 0).
    + rewrite cs_spec_bounded. destruct (dec (c_compact MX) b) as [[v r]|]; destruct o as [[v' n]| |]; try discriminate R; [|reflexivity].
      apply andb_true_iff in R as [R1 R2]. cbn [consumed_view cs_out_eqb]. rewrite (consumed_eq _ _ _ R2), R1, N.eqb_refl. reflexivity.
    + rewrite cs_spec_raw. destruct (dec c_compact_raw b) as [[v r]|]; destruct o as [[v' n]| |]; try discriminate R; [|reflexivity].
      apply andb_true_iff in R as [R1 R2]. cbn [consumed_view cs_out_eqb]. rewrite (consumed_eq _ _ _ R2), R1, N.eqb_refl. reflexivity.
  - (* CsWrite *)
    destruct o as [w| |]; [|exact R|discriminate R].
    apply andb_true_iff in W as [_ Wn]. apply N.ltb_lt in Wn.
    apply andb_true_iff in R as [R1 R2]. apply bytes_eqb_eq in R1. subst w.
    destruct (which =? 0) eqn:Wh.
    + apply N.eqb_eq in Wh. subst which. cbn [N.eqb orb] in R2.
      rewrite cs_spec_bounded. rewrite <- (app_nil_r (enc_compact n)) at 2.
      change (enc_compact n) with (enc (c_compact MX) n) at 2.
      rewrite (rt _ (c_compact_ok MX)).
      * cbn [consumed_view cs_out_eqb]. unfold nlen at 2. cbn [length]. rewrite N.sub_0_r, !N.eqb_refl. reflexivity.
      * cbn [c_compact c_refine c_compact_raw wf]. rewrite R2, andb_true_r. apply N.ltb_lt. exact Wn.
    + rewrite cs_spec_raw. rewrite <- (app_nil_r (enc_compact n)) at 2.
      change (enc_compact n) with (enc c_compact_raw n) at 2.
      rewrite (rt _ c_compact_raw_ok).
      * cbn [consumed_view cs_out_eqb]. unfold nlen at 2. cbn [length]. rewrite N.sub_0_r, !N.eqb_refl. reflexivity.
      * cbn [c_compact_raw wf]. apply N.ltb_lt. exact Wn.
  - (* VecU8 *)
    rewrite vec_spec_correct. destruct (dec (c_bytevec MX) b) as [[v r]|]; destruct o as [[v' n]| |]; try discriminate R; [|reflexivity].
    apply andb_true_iff in R as [R1 R2]. cbn [consumed_view]. rewrite (consumed_eq _ _ _ R2), R1, N.eqb_refl. reflexivity.
  - (* OptU32 *)
    rewrite (opt_spec_correct b W). destruct (dec (c_flagopt c_u32le) b) as [[v r]|]; destruct o as [[v' n]| |]; try discriminate R; [|reflexivity].
    apply andb_true_iff in R as [R1 R2]. cbn [consumed_view]. rewrite (consumed_eq _ _ _ R2), R1, N.eqb_refl. reflexivity.
Qed.
