(** C03 — bridge: for a transaction or block-header case inside the domain ([wf_case]), agreement
    of every observed quantity with the model's prediction ([run_case]) implies the property on
    the implementation's observation ([prop_case]). *)
From Coq Require Import List NArith ZArith Bool Lia.
From V.Lib Require Import Base Hex.
From V.Gen Require Import C03Tables.
From V.C03 Require Import Codec Model Spec Corr Wf Proofs.
Import ListNotations.
Local Open Scope N_scope.

Lemma bytes_eqb_eq : forall a b, bytes_eqb a b = true -> a = b.
Proof.
  induction a as [|x a IH]; intros [|y b] H; cbn in H; try discriminate; [reflexivity|].
  apply andb_true_iff in H as [H1 H2]. apply N.eqb_eq in H1. subst. f_equal. apply IH. exact H2.
Qed.
Lemma bytes_eqb_refl : forall a, bytes_eqb a a = true.
Proof. induction a as [|x a IH]; cbn; [reflexivity|]. rewrite N.eqb_refl. exact IH. Qed.

Lemma firstn_enc {A} (c : codec A) (t : A) r n :
  n + nlen r = nlen (enc c t ++ r) -> firstn (N.to_nat n) (enc c t ++ r) = enc c t.
Proof.
  intros H. rewrite nlen_app in H. assert (n = nlen (enc c t)) as -> by lia.
  unfold nlen. rewrite Nat2N.id. rewrite firstn_app, Nat.sub_diag, firstn_all. cbn. apply app_nil_r.
Qed.

(** reading a little-endian u32 back out of an encoding *)
Lemma u32_at_app pre x rest off :
  length pre = off -> x < 4294967296 -> u32_at off (pre ++ le 4 x ++ rest) = x.
Proof.
  intros <- Hx. unfold u32_at.
  rewrite skipn_app, skipn_all, Nat.sub_diag. cbn [app skipn].
  rewrite firstn_app, le_length, Nat.sub_diag, firstn_O, app_nil_r.
  rewrite firstn_all2 by (rewrite le_length; lia).
  apply of_le_le. rewrite pow256_4. exact Hx.
Qed.

Lemma u32_at_head x rest : x < 4294967296 -> u32_at 0 (le 4 x ++ rest) = x.
Proof. intros Hx. exact (u32_at_app [] x rest 0%nat eq_refl Hx). Qed.

Lemma wf_u32 x : wf c_u32le x = true -> x < 4294967296.
Proof. cbn [c_u32le c_uint wf]. rewrite pow256_4. apply N.ltb_lt. Qed.

Section BridgeTx.
  Variable valid : N -> bytes -> bool.
  Notation cd := (c_tx valid).

  (** the first header word of an encoding *)
  Lemma enc_tx_head (t : tx_t) :
    wf cd t = true ->
    exists rest, enc cd t = le 4 (fst (hdr_to (fst t))) ++ rest /\ fst (hdr_to (fst t)) < 4294967296.
  Proof.
    destruct t as [v body]. unfold c_tx. cbn [c_pair c_dep c_refine c_vec wf]. cbn [fst snd]. intros H.
    apply andb_true_iff in H as [Hv _].
    unfold c_version in Hv. cbn [c_iso wf] in Hv. apply andb_true_iff in Hv as [_ Hv].
    unfold c_hdr_raw in Hv. cbn [c_pair c_dep c_refine c_vec wf] in Hv.
    apply andb_true_iff in Hv as [Hv _]. apply andb_true_iff in Hv as [Hh _].
    apply wf_u32 in Hh.
    eexists. split; [|exact Hh].
    cbn [c_tx c_dep enc fst snd c_version c_iso c_hdr_raw c_refine c_u32le c_uint].
    rewrite <- !app_assoc. reflexivity.
  Qed.

  Lemma legacy_hdr_enc (t : tx_t) r :
    wf cd t = true -> legacy_hdr (enc cd t ++ r) = is_legacy (fst t).
  Proof.
    intros W. pose proof W as W'. destruct (enc_tx_head t W) as (rest & E & Hh).
    unfold legacy_hdr. rewrite E, <- app_assoc.
    rewrite (u32_at_head _ _ Hh).
    destruct t as [v body]. cbn [fst] in *.
    unfold c_tx in W'. cbn [c_pair c_dep c_refine c_vec wf] in W'. cbn [fst snd] in W'. apply andb_true_iff in W' as [Hv _].
    unfold c_version in Hv. cbn [c_iso wf] in Hv. apply andb_true_iff in Hv as [Hv _].
    destruct v as [n| | | |]; [| vm_compute; reflexivity ..].
    cbn [hdr_to fst is_legacy]. unfold txv_ok in Hv. apply andb_true_iff in Hv as [_ Hv].
    unfold OVW in Hv. rewrite Hv. reflexivity.
  Qed.

  (** a well-formed value has the body shape of its version *)
  Lemma body_shape (t : tx_t) :
    wf cd t = true ->
    match fst t, snd t with
    | V5, inr (inl _) => True
    | V6, inr (inr _) => True
    | V5, _ | V6, _ => False
    | _, inl _ => True
    | _, _ => False
    end.
  Proof.
    destruct t as [v body]. unfold c_tx. cbn [c_pair c_dep c_refine c_vec wf]. cbn [fst snd]. intros H.
    apply andb_true_iff in H as [_ H].
    destruct v; cbn [c_body] in H; destruct body as [x|[x|x]]; cbn [c_inl c_inr wf] in H;
      try discriminate; exact I.
  Qed.

  Lemma legacy_branch ctx (t : tx_t) :
    wf cd t = true -> is_legacy (fst t) = true -> effective_branch ctx t = ctx.
  Proof.
    intros W L. pose proof (body_shape t W) as S. unfold effective_branch.
    destruct t as [v body]. cbn [fst snd] in *.
    destruct v; try discriminate L; destruct body as [x|[x|x]]; try contradiction; reflexivity.
  Qed.

  Lemma encoded_branch ctx (t : tx_t) r :
    wf cd t = true -> is_legacy (fst t) = false ->
    u32_at 8 (enc cd t ++ r) = effective_branch ctx t.
  Proof.
    intros W L. pose proof (body_shape t W) as S. unfold effective_branch.
    destruct t as [v body]. cbn [fst snd] in *.
    unfold c_tx in W. cbn [c_pair c_dep c_refine c_vec wf] in W. cbn [fst snd] in W. apply andb_true_iff in W as [_ W].
    destruct v; try discriminate L; destruct body as [x|[x|x]]; try contradiction;
      cbn [c_body c_inl c_inr wf] in W.
    - unfold c_v5 in W. cbn [c_pair c_dep c_refine c_vec wf] in W. apply andb_true_iff in W as [W _].
      unfold c_hdrfrag in W. cbn [c_pair c_dep c_refine c_vec wf] in W.
      apply andb_true_iff in W as [W _]. apply andb_true_iff in W as [W _]. apply wf_u32 in W.
      cbn [c_tx c_dep enc fst snd c_body c_inr c_inl c_v5 c_hdrfrag c_pair c_refine
           c_version c_iso c_hdr_raw hdr_to c_u32le c_uint c_opt].
      change (OVW <=? OVW + V5_TX_VERSION) with true.
      change (enc (c_opt true c_u32le) (Some V5_VERSION_GROUP_ID)) with (le 4 V5_VERSION_GROUP_ID).
      rewrite <- !app_assoc.
      rewrite (app_assoc (le 4 _) (le 4 _)).
      apply u32_at_app; [rewrite app_length, !le_length; reflexivity | exact W].
    - unfold c_v6 in W. cbn [c_pair c_dep c_refine c_vec wf] in W. apply andb_true_iff in W as [W _].
      unfold c_hdrfrag in W. cbn [c_pair c_dep c_refine c_vec wf] in W.
      apply andb_true_iff in W as [W _]. apply andb_true_iff in W as [W _]. apply wf_u32 in W.
      cbn [c_tx c_dep enc fst snd c_body c_inr c_inl c_v6 c_hdrfrag c_pair c_refine
           c_version c_iso c_hdr_raw hdr_to c_u32le c_uint c_opt].
      change (OVW <=? OVW + V6_TX_VERSION) with true.
      change (enc (c_opt true c_u32le) (Some V6_VERSION_GROUP_ID)) with (le 4 V6_VERSION_GROUP_ID).
      rewrite <- !app_assoc.
      rewrite (app_assoc (le 4 _) (le 4 _)).
      apply u32_at_app; [rewrite app_length, !le_length; reflexivity | exact W].
  Qed.
End BridgeTx.

Definition is_tx_or_hdr (c : case) : bool :=
  match c with Tx _ _ _ _ _ _ | Hdr _ _ _ _ => true | _ => false end.

Theorem bridge : forall H c,
  is_tx_or_hdr c = true -> wf_case c = true -> run_caseH H c = true -> prop_caseH H c = true.
Proof.
  intros H [src ctx b bad o alts | src b o alts | | | | | | | ] K Wc R; try discriminate K; clear K.
  - (* transactions *)
    cbn [wf_case] in Wc. cbn [run_caseH] in R. cbn [prop_caseH]. unfold tx_prop.
    apply andb_true_iff in Wc as [Wc L].
    destruct (dec (c_tx (table_valid bad)) b) as [[t r]|] eqn:D.
    + destruct o as [[n rw txid br same gen]| |]; try discriminate R.
      pose proof (canon _ (c_tx_ok (table_valid bad)) _ _ _ D) as [E W].
      repeat match type of R with (_ && _ = true) => let X := fresh "R" in apply andb_true_iff in R as [R X] end.
      apply N.eqb_eq in R. apply bytes_eqb_eq in R5. apply N.eqb_eq in R4.
      unfold label_ok in L. apply andb_true_iff in L as [L1 L2].
      assert (F : firstn (N.to_nat n) b = enc (c_tx (table_valid bad)) t).
      { rewrite E. apply firstn_enc. rewrite <- E. exact R. }
      rewrite L1, R2, R1, R0. cbn [andb].
      rewrite (proj2 (N.leb_le n (nlen b))) by lia. cbn [andb].
      replace (negb (generated src) || (n =? nlen b)) with true.
      2:{ symmetry. apply orb_true_iff in L2 as [L2|L2]; [rewrite L2; reflexivity|].
          destruct r; [|discriminate L2]. unfold nlen in R at 1. cbn in R.
          rewrite (proj2 (N.eqb_eq n (nlen b))) by lia. apply orb_true_r. }
      cbn [andb]. rewrite F, <- R5, bytes_eqb_refl. cbn [andb].
      assert (HL : legacy_hdr b = is_legacy (fst t)) by (rewrite E; apply legacy_hdr_enc; exact W).
      rewrite HL. destruct (is_legacy (fst t)) eqn:Lg.
      * cbn [negb orb] in R3. apply bytes_eqb_eq in R3. unfold legacy_txid, tx_write in R3.
        rewrite R3, bytes_eqb_refl. rewrite <- R4, (legacy_branch _ ctx t W Lg), N.eqb_refl. reflexivity.
      * assert (HB : u32_at 8 b = effective_branch ctx t) by (rewrite E; apply encoded_branch; assumption).
        rewrite HB, R4, N.eqb_refl. reflexivity.
    + destruct o as [x|e|]; try discriminate R. unfold label_ok in L. rewrite L, R. reflexivity.
  - (* block headers *)
    cbn [wf_case] in Wc. cbn [run_caseH] in R. cbn [prop_caseH]. unfold hdr_prop.
    apply andb_true_iff in Wc as [Wc L].
    destruct (dec c_header b) as [[t r]|] eqn:D.
    + destruct o as [[n rw hash same]| |]; try discriminate R.
      pose proof (canon _ c_header_ok _ _ _ D) as [E W].
      repeat match type of R with (_ && _ = true) => let X := fresh "R" in apply andb_true_iff in R as [R X] end.
      apply N.eqb_eq in R. apply bytes_eqb_eq in R3. apply bytes_eqb_eq in R2.
      unfold label_ok in L. apply andb_true_iff in L as [L1 L2].
      assert (F : firstn (N.to_nat n) b = enc c_header t).
      { rewrite E. apply firstn_enc. rewrite <- E. exact R. }
      rewrite L1, R1, R0. cbn [andb].
      rewrite (proj2 (N.leb_le n (nlen b))) by lia. cbn [andb].
      replace (negb (generated src) || (n =? nlen b)) with true.
      2:{ symmetry. apply orb_true_iff in L2 as [L2|L2]; [rewrite L2; reflexivity|].
          destruct r; [|discriminate L2]. unfold nlen in R at 1. cbn in R.
          rewrite (proj2 (N.eqb_eq n (nlen b))) by lia. apply orb_true_r. }
      cbn [andb]. rewrite F, <- R3, bytes_eqb_refl. cbn [andb].
      unfold header_hash, header_write in R2. rewrite <- R2, bytes_eqb_refl. reflexivity.
    + destruct o as [x|e|]; try discriminate R. unfold label_ok in L. rewrite L, R. reflexivity.
Qed.

(** Agreement never coexists with a panic. *)
Lemma no_panic_bridge : forall H src ctx b bad alts, run_caseH H (Tx src ctx b bad Panic alts) = false.
Proof. intros. cbn [run_caseH]. destruct (dec _ b) as [[t r]|]; reflexivity. Qed.

(** What an agreeing, accepting transaction case says about the accepted bytes: the consumed
    prefix is the unique encoding of a well-formed model transaction, so all its length prefixes
    are canonical and bounded and all its amounts are in range. *)
Lemma tx_bridge_model : forall H src ctx b bad n rw txid br s g alts,
  run_caseH H (Tx src ctx b bad (Ok (TxOk n rw txid br s g)) alts) = true ->
  exists t r, dec (c_tx (table_valid bad)) b = Some (t, r) /\
              firstn (N.to_nat n) b = enc (c_tx (table_valid bad)) t /\
              wf (c_tx (table_valid bad)) t = true /\
              Forall amount_in_range (tx_unsigned_amounts t) /\
              Forall balance_in_range (tx_signed_amounts t).
Proof.
  intros H src ctx b bad n rw txid br s g alts R. cbn [run_caseH] in R.
  destruct (dec (c_tx (table_valid bad)) b) as [[t r]|] eqn:D; [|discriminate].
  repeat match type of R with (_ && _ = true) => let X := fresh "R" in apply andb_true_iff in R as [R X] end.
  apply N.eqb_eq in R.
  pose proof (canon _ (c_tx_ok (table_valid bad)) _ _ _ D) as [E W].
  exists t, r. repeat split; try assumption.
  - rewrite E. apply firstn_enc. rewrite <- E. exact R.
  - apply (tx_amounts_in_range (table_valid bad) t W).
  - apply (tx_amounts_in_range (table_valid bad) t W).
Qed.
