(** C03 — what agreement between model and implementation on one case implies for the
    implementation's observation (the clauses of the property that the model can vouch for). *)
From Coq Require Import List NArith ZArith Bool Lia.
From V.Lib Require Import Base Hex.
From V.Gen Require Import C03Tables.
From V.C03 Require Import Codec Model Spec Corr Proofs.
Import ListNotations.
Local Open Scope N_scope.

Lemma bytes_eqb_eq : forall a b, bytes_eqb a b = true -> a = b.
Proof.
  induction a as [|x a IH]; intros [|y b] H; cbn in H; try discriminate; [reflexivity|].
  apply andb_true_iff in H as [H1 H2]. apply N.eqb_eq in H1. subst. f_equal. apply IH. exact H2.
Qed.

Lemma firstn_enc {A} (c : codec A) (t : A) r n :
  n + nlen r = nlen (enc c t ++ r) -> firstn (N.to_nat n) (enc c t ++ r) = enc c t.
Proof.
  intros H. rewrite nlen_app in H. assert (n = nlen (enc c t)) as -> by lia.
  unfold nlen. rewrite Nat2N.id. rewrite firstn_app, Nat.sub_diag, firstn_all. cbn. apply app_nil_r.
Qed.

(** If the model agrees with an accepting observation then: the reader consumed no more than it
    was given, what [write] produced is exactly the consumed prefix, that prefix is the unique
    encoding of a well-formed model transaction (so every length prefix in it is canonical and at
    most MAX_COMPACT_SIZE), and every amount field is within its money range. *)
Lemma tx_bridge : forall src b bad n rw s h g,
  run_case (Tx src b bad (Ok (TxOk n rw s h g))) = true ->
  n <= nlen b /\
  prefix_or b n rw = firstn (N.to_nat n) b /\
  exists t r, dec (c_tx (table_valid bad)) b = Some (t, r) /\
              firstn (N.to_nat n) b = enc (c_tx (table_valid bad)) t /\
              wf (c_tx (table_valid bad)) t = true /\
              Forall amount_in_range (tx_unsigned_amounts t) /\
              Forall balance_in_range (tx_signed_amounts t).
Proof.
  intros src b bad n rw s h g H. cbn [run_case] in H.
  destruct (dec (c_tx (table_valid bad)) b) as [[t r]|] eqn:D; [|discriminate].
  apply andb_true_iff in H as [H1 H2]. apply N.eqb_eq in H1. apply bytes_eqb_eq in H2.
  pose proof (canon _ (c_tx_ok (table_valid bad)) _ _ _ D) as [E W].
  assert (F : firstn (N.to_nat n) b = enc (c_tx (table_valid bad)) t).
  { rewrite E. apply firstn_enc. rewrite <- E. exact H1. }
  split; [lia|]. split; [congruence|].
  exists t, r. repeat split; try assumption; apply (tx_amounts_in_range (table_valid bad) t W).
Qed.

Lemma hdr_bridge : forall src b n rw s h,
  run_case (Hdr src b (Ok (HdrOk n rw s h))) = true ->
  n <= nlen b /\ prefix_or b n rw = firstn (N.to_nat n) b /\
  exists hd r, dec c_header b = Some (hd, r) /\ firstn (N.to_nat n) b = enc c_header hd.
Proof.
  intros src b n rw s h H. cbn [run_case] in H.
  destruct (dec c_header b) as [[t r]|] eqn:D; [|discriminate].
  apply andb_true_iff in H as [H1 H2]. apply N.eqb_eq in H1. apply bytes_eqb_eq in H2.
  pose proof (canon _ c_header_ok _ _ _ D) as [E W].
  assert (F : firstn (N.to_nat n) b = enc c_header t).
  { rewrite E. apply firstn_enc. rewrite <- E. exact H1. }
  split; [lia|]. split; [congruence|]. exists t, r. auto.
Qed.

(** Agreement never coexists with a panic. *)
Lemma no_panic_bridge : forall src b bad, run_case (Tx src b bad Panic) = false.
Proof. intros. cbn [run_case]. destruct (dec _ b) as [[t r]|]; reflexivity. Qed.
