(** C03 — compact byte-string literals for the generated case files.  A string literal in scope
    [hx] denotes the list of its characters as [Byte.byte] constants (one constructor per
    character, about three times cheaper for Coq to read than a [string] literal); [hb] turns a
    hexadecimal literal into bytes.  Malformed digits cannot occur: the harness prints with
    [{:02x}]; a stray character would make the value differ from the implementation's input and
    show up as a disagreement. *)
From Coq Require Import List NArith Init.Byte.
From V.Lib Require Import Hex.
Import ListNotations.

Inductive hexlit := HexLit (l : list Byte.byte).
Definition hl_parse (l : list Byte.byte) : hexlit := HexLit l.
Definition hl_print (h : hexlit) : list Byte.byte := match h with HexLit l => l end.
Declare Scope hexlit_scope.
Delimit Scope hexlit_scope with hx.
String Notation hexlit hl_parse hl_print : hexlit_scope.

Local Open Scope N_scope.
Definition hv (b : Byte.byte) : N :=
  let n := Byte.to_N b in
  if n <? 58 then n - 48 else if n <? 71 then n - 55 else n - 87.

Fixpoint hb_go (l : list Byte.byte) : bytes :=
  match l with
  | a :: b :: r => (16 * hv a + hv b) :: hb_go r
  | _ => []
  end.
Definition hb (h : hexlit) : bytes := match h with HexLit l => hb_go l end.
