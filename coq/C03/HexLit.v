(** C03 — compact byte-string literals for the generated case files.  A string literal in scope
    [hx] denotes the list of its characters as [Byte.byte] constants (one constructor per
    character, about three times cheaper for Coq to read than a [string] literal); [hb] turns a
    hexadecimal literal into bytes.  Malformed digits cannot occur: the harness prints with
    [{:02x}]; a stray character would make the value differ from the implementation's input and
    show up as a disagreement. *)
From Coq Require Import List NArith Init.Byte.
From V.Lib Require Import Hex.
Import ListNotations.

Inductive hexlit := HexLit (l : list Byte.byte).
Definition hl_parse (l : list Byte.byte) : hexlit := HexLit l.
Definition hl_print (h : hexlit) : list Byte.byte := match h with HexLit l => l end.
Declare Scope hexlit_scope.
Delimit Scope hexlit_scope with hx.
String Notation hexlit hl_parse hl_print : hexlit_scope.

Local Open Scope N_scope.
Definition hv (b : Byte.byte) : N :=
  let n := Byte.to_N b in
  if n <? 58 then n - 48 else if n <? 71 then n - 55 else n - 87.

Fixpoint hb_go (l : list Byte.byte) : bytes :=
  match l with
  | a :: b :: r => (16 * hv a + hv b) :: hb_go r
  | _ => []
  end.
Definition hb (h : hexlit) : bytes := match h with HexLit l => hb_go l end.

(** Word literals: 7 bytes per primitive integer, big-endian, the last word right-aligned;
    [wb len words].  One constructor per 7 bytes: an order of magnitude cheaper to read than
    the character literals above. *)
From Coq Require Import Uint63 ZArith.
Definition byteN (x : int) : N := Z.to_N (Uint63.to_Z x).
Fixpoint push (k : nat) (sh : int) (w : int) (acc : bytes) : bytes :=
  match k with
  | O => acc
  | S k' => push k' (sh - 8)%uint63 w (byteN ((w >> sh) land 255)%uint63 :: acc)
  end.
Fixpoint wb_go (len : N) (ws : list int) (acc : bytes) : bytes :=
  match ws with
  | [] => acc
  | w :: r =>
      if len <=? 7 then push (N.to_nat len) (Uint63.of_Z (8 * (Z.of_N len - 1))) w acc
      else wb_go (len - 7) r (push 7 48%uint63 w acc)
  end.
Definition wb (len : N) (ws : list int) : bytes := rev' (wb_go len ws []).
Arguments wb len%N ws%uint63.

Example wb_example : wb 9 [283686952306183; 2057]%uint63 = [1; 2; 3; 4; 5; 6; 7; 8; 9].
Proof. vm_compute. reflexivity. Qed.
