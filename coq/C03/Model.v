(** C03 — executable model of the transaction and block-header wire formats, built only from
    the combinators of Codec.v, one combinator per field in the order of
    [Transaction::write_v4 / write_v5 / write_v6] and [BlockHeader::write].  No proofs here.

    Numbers are [N]; curve points, field elements, proofs, signatures and ciphertexts are opaque
    fixed-length byte strings.  Whether an opaque 32-byte string is an acceptable point / field
    element / verification key is the Section predicate [valid kind bytes]: the decoder consults it
    exactly where the Rust parser calls a primitive decoder. *)
From Coq Require Import List NArith ZArith Bool.
From V.Lib Require Import Base Hex.
From V.Gen Require Import C03Tables.
From V.C03 Require Import Codec.
Import ListNotations.
Local Open Scope N_scope.

Definition MX : N := MAX_COMPACT_SIZE.
Definition ty {A} (c : codec A) : Type := A.

(** kinds of opaque blobs checked by a primitive decoder *)
Definition K_SAP_CV : N := 1.      (* sapling ValueCommitment::from_bytes_not_small_order *)
Definition K_JUB_BASE : N := 2.    (* jubjub::Base::from_repr (anchor) *)
Definition K_SAP_RK : N := 3.      (* redjubjub::VerificationKey::try_from *)
Definition K_SAP_CMU : N := 4.     (* ExtractedNoteCommitment::from_bytes *)
Definition K_ORC_CV : N := 5.      (* orchard ValueCommitment::from_bytes *)
Definition K_ORC_NF : N := 6.      (* orchard Nullifier::from_bytes *)
Definition K_ORC_RK : N := 7.      (* redpallas VerificationKey::try_from + not identity *)
Definition K_ORC_CMX : N := 8.     (* orchard ExtractedNoteCommitment::from_bytes *)
Definition K_ORC_EPK : N := 9.     (* Action::from_parts: epk is a non-identity point *)
Definition K_ORC_ANCHOR : N := 10. (* orchard Anchor::from_bytes *)

Definition is_nil {A} (l : list A) : bool := match l with [] => true | _ => false end.
Definition groth : nat := N.to_nat GROTH_PROOF_SIZE.
Definition phgr : nat := N.to_nat PHGR_PROOF_SIZE.
(* zcash_note_encryption: ENC_CIPHERTEXT_SIZE, OUT_CIPHERTEXT_SIZE (external crate) *)
Definition enc_ct : nat := 580.
Definition out_ct : nat := 80.

(* ---------------------------------------------------------------------------------------- *)
(** * Amounts *)

(** [Zatoshis::from_nonnegative_i64_le_bytes], [ZatBalance::from_u64_le_bytes]: 0..=MAX_MONEY *)
Definition c_amount : codec N := c_refine c_u64le (fun x => x <=? MAX_MONEY).

(** [ZatBalance::from_i64_le_bytes]: the 8 bytes read as a two's complement i64 within
    -MAX_MONEY..=MAX_MONEY.  The model keeps the raw u64; [i64_of] is its signed reading. *)
Definition two63 : N := 9223372036854775808.
Definition two64 : N := 18446744073709551616.
Definition i64_of (x : N) : Z := if x <? two63 then Z.of_N x else (Z.of_N x - Z.of_N two64)%Z.
Definition balance_ok (x : N) : bool := (x <=? MAX_MONEY) || (two64 - MAX_MONEY <=? x).
Definition c_balance : codec N := c_refine c_u64le balance_ok.

(* ---------------------------------------------------------------------------------------- *)
(** * Transaction version header (TxVersion::read / write) *)

Inductive txv := VSprout (v : N) | V3 | V4 | V5 | V6.

Definition OVW : N := 2147483648. (* 1 << 31 *)

Definition hdr_of (h : N) (g : option N) : option txv :=
  match g with
  | None => if 1 <=? h then Some (VSprout h) else None
  | Some g =>
      let v := h - OVW in
      if (v =? V3_TX_VERSION) && (g =? V3_VERSION_GROUP_ID) then Some V3
      else if (v =? V4_TX_VERSION) && (g =? V4_VERSION_GROUP_ID) then Some V4
      else if (v =? V5_TX_VERSION) && (g =? V5_VERSION_GROUP_ID) then Some V5
      else if (v =? V6_TX_VERSION) && (g =? V6_VERSION_GROUP_ID) then Some V6
      else None
  end.

Definition hdr_to (v : txv) : N * option N :=
  match v with
  | VSprout n => (n, None)
  | V3 => (OVW + V3_TX_VERSION, Some V3_VERSION_GROUP_ID)
  | V4 => (OVW + V4_TX_VERSION, Some V4_VERSION_GROUP_ID)
  | V5 => (OVW + V5_TX_VERSION, Some V5_VERSION_GROUP_ID)
  | V6 => (OVW + V6_TX_VERSION, Some V6_VERSION_GROUP_ID)
  end.

Definition hdr_from (p : N * option N) : txv :=
  match hdr_of (fst p) (snd p) with Some v => v | None => VSprout 0 end.

Definition txv_ok (v : txv) : bool :=
  match v with VSprout n => (1 <=? n) && (n <? OVW) | _ => true end.

(** header word; version group id iff the overwintered bit is set *)
Definition c_hdr_raw : codec (N * option N) :=
  c_refine (c_dep c_u32le (fun h => c_opt (OVW <=? h) c_u32le))
           (fun p => match hdr_of (fst p) (snd p) with Some _ => true | None => false end).

Definition c_version : codec txv := c_iso c_hdr_raw hdr_to hdr_from txv_ok.

Definition has_sprout (v : txv) : bool :=
  match v with VSprout n => 2 <=? n | V3 | V4 => true | V5 | V6 => false end.
Definition has_overwinter (v : txv) : bool :=
  match v with VSprout _ => false | _ => true end.
Definition has_sapling (v : txv) : bool :=
  match v with VSprout _ | V3 => false | _ => true end.

(* ---------------------------------------------------------------------------------------- *)
(** * Consensus branch ids and Orchard bundle versions *)

Fixpoint lookup (k : N) (t : list (N * N)) : option N :=
  match t with
  | [] => None
  | (k', v) :: r => if k =? k' then Some v else lookup k r
  end.

Definition is_branch (b : N) : bool :=
  match lookup b branch_table with Some _ => true | None => false end.

(** [bundle_version_for_branch]: pool 0 = Orchard, 1 = Ironwood; result (pool, revision) *)
Definition bundle_version (branch pool : N) : option (N * N) :=
  match lookup branch branch_table with
  | None | Some 0 => None
  | Some rev => if pool =? 0 then Some (0, rev)
                else if rev =? 3 then Some (1, 3) else None
  end.

(** [Flags::from_byte]: bits 3..7 clear; bit 2 only in the Ironwood pool *)
Definition flags_ok (bv : N * N) (f : N) : bool :=
  (f <? 8) && ((negb (fst bv =? 0)) || (f <? 4)).

(** [Bundle::try_from_parts]: canonical proof length except for the historical revision 1;
    [Proof::expected_proof_size] (orchard 0.15.3) *)
Definition expected_proof_size (n : N) : N := 2720 + 2272 * n.
Definition proof_ok (bv : N * N) (n_actions : N) (p : bytes) : bool :=
  (snd bv =? 1) || (nlen p =? expected_proof_size n_actions).


(* ---------------------------------------------------------------------------------------- *)
(** * Value types: numbers ([N]) and byte strings, nested in wire order *)
Definition txin_t : Type := (bytes * N) * (bytes * N).            (* (prevout hash, n), (scriptSig, sequence) *)
Definition txout_t : Type := N * bytes.                            (* value, scriptPubKey *)
Definition transparent_t : Type := list txin_t * list txout_t.
Definition spend4_t : Type := bytes * (bytes * (bytes * (bytes * (bytes * bytes)))).   (* cv anchor nf rk proof sig *)
Definition output4_t : Type := bytes * (bytes * (bytes * (bytes * (bytes * bytes)))).  (* cv cmu epk enc out proof *)
Definition sapling4_t : Type := N * (list spend4_t * list output4_t).                  (* valueBalance spends outputs *)
Definition js_t : Type :=
  N * (N * (bytes * (list bytes * (list bytes * (bytes * (bytes * (list bytes * (bytes * list bytes)))))))).
Definition sprout_t : Type := list js_t * option (bytes * bytes).  (* joinsplits, (pubkey, sig) *)
Definition legacy_t : Type :=
  transparent_t * (N * (option N * (option sapling4_t * (option sprout_t * option bytes)))).
Definition spend5_t : Type := bytes * (bytes * bytes).
Definition output5_t : Type := bytes * (bytes * (bytes * (bytes * bytes))).
Definition sapling5_t : Type :=
  (list spend5_t * list output5_t)
  * (option N * (option bytes * (list bytes * (list bytes * (list bytes * option bytes))))).
Definition action_t : Type := bytes * (bytes * (bytes * (bytes * (bytes * (bytes * bytes))))).
Definition orchard_rest_t : Type := N * (N * (bytes * (bytes * (list bytes * bytes)))).  (* flags vb anchor proof sigs bsig *)
Definition orchard_t : Type := list action_t * option orchard_rest_t.
Definition hdrfrag_t : Type := N * (N * N).                        (* branch id, lock_time, expiry_height *)
Definition v5_t : Type := hdrfrag_t * (transparent_t * (sapling5_t * orchard_t)).
Definition v6_t : Type := hdrfrag_t * (transparent_t * (sapling5_t * (orchard_t * orchard_t))).
Definition body_t : Type := legacy_t + (v5_t + v6_t).

(* ---------------------------------------------------------------------------------------- *)
Section Tx.
  Variable valid : N -> bytes -> bool.

  Definition c_blob (k : N) : codec bytes := c_refine (c_fixed 32) (valid k).

  (** ** Transparent *)
  Definition c_outpoint := c_pair (c_fixed 32) c_u32le.
  Definition c_script := c_bytevec MX.
  Definition c_txin : codec txin_t := c_pair c_outpoint (c_pair c_script c_u32le).
  Definition c_txout : codec txout_t := c_pair c_amount c_script.
  Definition c_transparent : codec transparent_t := c_pair (c_vec MX c_txin) (c_vec MX c_txout).

  (** ** Sapling, v4 layout: valueBalance, spends, outputs (binding signature at the very end) *)
  Definition c_spend4 : codec spend4_t :=
    c_pair (c_blob K_SAP_CV) (c_pair (c_blob K_JUB_BASE) (c_pair (c_fixed 32)
      (c_pair (c_blob K_SAP_RK) (c_pair (c_fixed groth) (c_fixed 64))))).
  Definition c_output4 : codec output4_t :=
    c_pair (c_blob K_SAP_CV) (c_pair (c_blob K_SAP_CMU) (c_pair (c_fixed 32)
      (c_pair (c_fixed enc_ct) (c_pair (c_fixed out_ct) (c_fixed groth))))).
  (** [read_v4]: with no spends and no outputs the bundle is dropped, and [write_v4] then
      writes a zero valueBalance; the reader insists on that zero (see SAPLING4_ZERO_VB below). *)
  Definition sap4_shape (p : sapling4_t) : bool :=
    negb (is_nil (fst (snd p)) && is_nil (snd (snd p))) || (fst p =? 0).
  Definition c_sapling4_raw : codec sapling4_t := c_pair c_balance (c_pair (c_vec MX c_spend4) (c_vec MX c_output4)).
  Definition sap4_nonempty (o : option sapling4_t) : bool :=
    match o with
    | Some (_, (ss, os)) => negb (is_nil ss && is_nil os)
    | None => false
    end.

  (** ** Sprout JoinSplits *)
  Definition c_js (use_groth : bool) : codec js_t :=
    c_pair c_amount (c_pair c_amount (c_pair (c_fixed 32) (c_pair (c_rep (c_fixed 32) 2)
      (c_pair (c_rep (c_fixed 32) 2) (c_pair (c_fixed 32) (c_pair (c_fixed 32)
        (c_pair (c_rep (c_fixed 32) 2) (c_pair (c_fixed (if use_groth then groth else phgr))
          (c_rep (c_fixed 601) 2))))))))).
  Definition c_sprout (use_groth : bool) : codec sprout_t :=
    c_dep (c_vec MX (c_js use_groth))
          (fun js => c_opt (negb (is_nil js)) (c_pair (c_fixed 32) (c_fixed 64))).

  (** ** Sapling, v5 layout *)
  Definition c_spend5 : codec spend5_t := c_pair (c_blob K_SAP_CV) (c_pair (c_fixed 32) (c_blob K_SAP_RK)).
  Definition c_output5 : codec output5_t :=
    c_pair (c_blob K_SAP_CV) (c_pair (c_blob K_SAP_CMU) (c_pair (c_fixed 32)
      (c_pair (c_fixed enc_ct) (c_fixed out_ct)))).
  Definition c_sapling5 : codec sapling5_t :=
    c_dep (c_pair (c_vec MX c_spend5) (c_vec MX c_output5))
          (fun so =>
             let ns := length (fst so) in
             let no := length (snd so) in
             let any := negb (is_nil (fst so) && is_nil (snd so)) in
             c_pair (c_opt any c_balance)
               (c_pair (c_opt (negb (is_nil (fst so))) (c_blob K_JUB_BASE))
                 (c_pair (c_rep (c_fixed groth) ns)
                   (c_pair (c_rep (c_fixed 64) ns)
                     (c_pair (c_rep (c_fixed groth) no) (c_opt any (c_fixed 64))))))).

  (** ** Orchard-shaped bundles (Orchard and Ironwood slots) *)
  Definition c_action : codec action_t :=
    c_pair (c_blob K_ORC_CV) (c_pair (c_blob K_ORC_NF) (c_pair (c_blob K_ORC_RK)
      (c_pair (c_blob K_ORC_CMX) (c_pair (c_blob K_ORC_EPK) (c_pair (c_fixed enc_ct) (c_fixed out_ct)))))).
  Definition c_orchard_rest (bv : N * N) (n : nat) : codec orchard_rest_t :=
    c_pair (c_refine c_u8 (flags_ok bv))
      (c_pair c_balance (c_pair (c_blob K_ORC_ANCHOR)
        (c_pair (c_refine (c_bytevec MX) (proof_ok bv (N.of_nat n)))
          (c_pair (c_rep (c_fixed 64) n) (c_fixed 64))))).
  Definition c_orchard (bv : option (N * N)) : codec orchard_t :=
    c_dep (c_vec MX c_action)
          (fun acts => c_opt (negb (is_nil acts))
                         (match bv with
                          | Some v => c_orchard_rest v (length acts)
                          | None => c_fail
                          end)).

  (** ** Bodies *)
  Definition c_legacy (v : txv) : codec legacy_t :=
    c_pair c_transparent
      (c_pair c_u32le
        (c_pair (c_opt (has_overwinter v) c_u32le)
          (c_dep (c_opt (has_sapling v) (c_refine c_sapling4_raw sap4_shape))
                 (fun sap =>
                    c_pair (c_opt (has_sprout v) (c_sprout (has_sapling v)))
                           (c_opt (sap4_nonempty sap) (c_fixed 64)))))).

  Definition c_hdrfrag : codec hdrfrag_t := c_pair (c_refine c_u32le is_branch) (c_pair c_u32le c_u32le).

  Definition c_v5 : codec v5_t :=
    c_dep c_hdrfrag
          (fun h => c_pair c_transparent
                      (c_pair c_sapling5 (c_orchard (bundle_version (fst h) 0)))).

  Definition c_v6 : codec v6_t :=
    c_dep c_hdrfrag
          (fun h => c_pair c_transparent
                      (c_pair c_sapling5
                        (c_pair (c_orchard (bundle_version (fst h) 0))
                                (c_orchard (bundle_version (fst h) 1))))).


  Definition c_body (v : txv) : codec body_t :=
    match v with
    | V5 => c_inr (c_inl c_v5)
    | V6 => c_inr (c_inr c_v6)
    | _ => c_inl (c_legacy v)
    end.

  (** the transaction codec *)
  Definition c_tx : codec (txv * body_t) := c_dep c_version c_body.
End Tx.

(** The value types do not depend on the validity predicate. *)
Definition novalid : N -> bytes -> bool := fun _ _ => true.
Definition tx_t : Type := txv * body_t.

(** * Block header: 140 fixed bytes and the CompactSize-prefixed Equihash solution *)
Definition c_header :=
  c_pair c_u32le (c_pair (c_fixed 32) (c_pair (c_fixed 32) (c_pair (c_fixed 32)
    (c_pair c_u32le (c_pair c_u32le (c_pair (c_fixed 32) (c_bytevec MX))))))).
Definition header_t : Type := ty c_header.

(* ---------------------------------------------------------------------------------------- *)
(** * The API as outcomes: the model has no partial operation, so there is no Panic branch. *)

Definition tx_read (valid : N -> bytes -> bool) (b : bytes) : outcome (tx_t * bytes) unit :=
  match dec (c_tx valid) b with Some x => Ok x | None => Err tt end.
Definition tx_write (valid : N -> bytes -> bool) (t : tx_t) : bytes := enc (c_tx valid) t.
Definition header_read (b : bytes) : outcome (header_t * bytes) unit :=
  match dec c_header b with Some x => Ok x | None => Err tt end.
Definition header_write (h : header_t) : bytes := enc c_header h.

(** * zcash_encoding: [CompactSize::read_t::<T>] and the counted-vector readers
    [read_t] is [read] (canonical, at most MAX_COMPACT_SIZE) followed by the conversion to the
    target integer type.  [Vector::read / read_collected / read_collected_mut] take their element
    count through [read_t::<usize>], so the bound applies to every vector ([c_vec MX]). *)
Definition target_bits (w : N) : N := if w =? 0 then 64 else w.   (* 0 = usize *)
Definition c_read_t (w : N) : codec N := c_refine (c_compact MX) (fun n => n <? 2 ^ target_bits w).

Definition cs_width (f : N) : N :=
  if f <? 253 then 1 else if f =? 253 then 3 else if f =? 254 then 5 else 9.

(** A vector of u8 elements read from the stream [b ++ 0^fill] (the harness's reader delivers the
    bytes of [b] and then [fill] zero bytes): number of elements and bytes taken on success,
    bytes taken on failure.  Only the first bytes are materialised, so [fill] may be huge. *)
Definition stream_head (b : bytes) (fill : N) : bytes := b ++ repeat 0 (N.to_nat (N.min fill 9)).
Definition vecfill_model (b : bytes) (fill : N) : outcome (N * N) N :=
  let T := nlen b + fill in
  let s9 := stream_head b fill in
  match dec (c_compact MX) s9 with
  | Some (n, r) => let k := nlen s9 - nlen r in if n <=? T - k then Ok (n, k + n) else Err T
  | None => Err (match s9 with [] => 0 | f :: _ => N.min T (cs_width f) end)
  end.
(** [Array::read] with an explicit count: no prefix, no bound *)
Definition arrfill_model (count : N) (b : bytes) (fill : N) : outcome (N * N) N :=
  let T := nlen b + fill in if count <=? T then Ok (count, count) else Err T.

(** * Context and identifiers
    [Transaction::read(reader, ctx)] stores the caller's branch id in a v1–v4 transaction (it is
    not on the wire) and the encoded one in v5/v6.  The v1–v4 txid is SHA-256d of the encoding
    (the v5+ txid is the subject of C04); the block hash is SHA-256d of the header encoding. *)
Definition is_legacy (v : txv) : bool := match v with V5 | V6 => false | _ => true end.
Definition effective_branch (ctx : N) (t : tx_t) : N :=
  match snd t with
  | inl _ => ctx
  | inr (inl x) => fst (fst x)
  | inr (inr x) => fst (fst x)
  end.
(** [H] is the identifier hash (SHA-256d in the implementation; any function for the theorems). *)
Definition legacy_txid (H : bytes -> bytes) (valid : N -> bytes -> bool) (t : tx_t) : bytes := H (tx_write valid t).
Definition header_hash (H : bytes -> bytes) (h : header_t) : bytes := H (header_write h).

(** * Amount fields of a decoded transaction (for [amount_fields_in_range]) *)
Definition txout_values (tp : transparent_t) : list N := map fst (snd tp).
