(** C03 — the codecs of Model.v satisfy the two laws, and consequences. *)
From Coq Require Import List NArith ZArith Bool Lia.
From V.Lib Require Import Base Hex.
From V.Gen Require Import C03Tables.
From V.C03 Require Import Codec Model.
Import ListNotations.
Local Open Scope N_scope.

Ltac ok_tac :=
  repeat first
    [ apply c_pair_ok | apply c_refine_ok | apply c_opt_ok | apply c_fixed_ok | apply c_uint_ok
    | apply c_bytevec_ok | apply c_rep_ok | apply c_compact_ok | apply c_fail_ok | apply c_unit_ok ].

Ltac min1_tac :=
  repeat first
    [ apply c_pair_min1 | apply c_refine_min1 | apply c_uint_min1; lia | apply c_fixed_min1; lia ].

Lemma wf_pair {A B} (ca : codec A) (cb : codec B) p :
  wf (c_pair ca cb) p = wf ca (fst p) && wf cb (snd p).
Proof. reflexivity. Qed.
Lemma wf_dep {A B} (ca : codec A) (f : A -> codec B) p :
  wf (c_dep ca f) p = wf ca (fst p) && wf (f (fst p)) (snd p).
Proof. reflexivity. Qed.
Lemma wf_refine {A} (c : codec A) p a : wf (c_refine c p) a = wf c a && p a.
Proof. reflexivity. Qed.
Lemma wf_vec {A} mx (c : codec A) l :
  wf (c_vec mx c) l = wf (c_compact mx) (nlen l) && forallb (wf c) l.
Proof. reflexivity. Qed.

(* ---------------------------------------------------------------------------------------- *)
(** * Amounts *)

Lemma c_amount_ok : codec_ok c_amount.
Proof. unfold c_amount. ok_tac. Qed.
Lemma c_balance_ok : codec_ok c_balance.
Proof. unfold c_balance. ok_tac. Qed.

Lemma wf_amount x : wf c_amount x = true -> x <= MAX_MONEY.
Proof. intros H. apply c_refine_wf in H. apply N.leb_le. exact H. Qed.

Definition balance_in_range (x : N) : Prop :=
  (- Z.of_N MAX_MONEY <= i64_of x <= Z.of_N MAX_MONEY)%Z.

Lemma wf_balance x : wf c_balance x = true -> balance_in_range x.
Proof.
  unfold c_balance. cbn [c_pair c_dep c_refine c_vec wf]. intros H. apply andb_true_iff in H as [H1 H2].
  cbn [c_u64le c_uint wf] in H1. apply N.ltb_lt in H1. rewrite pow256_8 in H1.
  unfold balance_ok in H2. unfold balance_in_range, i64_of.
  apply orb_true_iff in H2 as [H2|H2].
  - apply N.leb_le in H2. unfold MAX_MONEY, two63, two64 in *.
    destruct (x <? 9223372036854775808) eqn:E; [lia|]. apply N.ltb_ge in E. lia.
  - apply N.leb_le in H2. unfold MAX_MONEY, two63, two64 in *.
    destruct (x <? 9223372036854775808) eqn:E; [apply N.ltb_lt in E; lia|]. lia.
Qed.

(** conversely every in-range i64 is accepted: the range check is exact *)
Lemma balance_ok_exact x : x < two64 -> (balance_ok x = true <-> balance_in_range x).
Proof.
  intros Hx. unfold balance_ok, balance_in_range, i64_of. rewrite orb_true_iff, !N.leb_le.
  unfold MAX_MONEY, two63, two64 in *.
  destruct (x <? 9223372036854775808) eqn:E; [apply N.ltb_lt in E | apply N.ltb_ge in E]; lia.
Qed.

(* ---------------------------------------------------------------------------------------- *)
(** * Version header *)

Lemma c_hdr_raw_ok : codec_ok c_hdr_raw.
Proof.
  unfold c_hdr_raw. apply c_refine_ok. apply c_dep_ok; [apply c_uint_ok|].
  intros. apply c_opt_ok, c_uint_ok.
Qed.

Lemma c_version_ok : codec_ok c_version.
Proof.
  unfold c_version. apply c_iso_ok; [apply c_hdr_raw_ok| |].
  - intros [n| | | |] P; try (vm_compute; reflexivity).
    unfold txv_ok in P. apply andb_true_iff in P as [P1 _].
    unfold hdr_from, hdr_to, hdr_of. cbn [fst snd]. rewrite P1. reflexivity.
  - intros [h g] W. unfold c_hdr_raw in W. cbn [c_pair c_dep c_refine c_vec wf] in W.
    apply andb_true_iff in W as [W1 W2]. cbn [c_pair c_dep c_refine c_vec wf] in W1. cbn [fst snd] in W1, W2.
    apply andb_true_iff in W1 as [_ Wg]. apply c_opt_wf in Wg.
    unfold hdr_from. cbn [fst snd].
    destruct g as [g|].
    + destruct Wg as [Wo _]. apply N.leb_le in Wo. unfold hdr_of in *.
      repeat match goal with
      | |- context [if ?c then _ else _] =>
          let E := fresh "E" in destruct c eqn:E;
          [ apply andb_true_iff in E as [Ea Eb]; apply N.eqb_eq in Ea; apply N.eqb_eq in Eb; subst g;
            split; [cbn [hdr_to]; f_equal; lia | reflexivity] | ]
      end.
      discriminate W2.
    + apply N.leb_gt in Wg. unfold hdr_of in *. destruct (1 <=? h) eqn:E; [|discriminate].
      split; [reflexivity|]. unfold txv_ok. rewrite E. apply N.ltb_lt. exact Wg.
Qed.

(* ---------------------------------------------------------------------------------------- *)
Section TxProofs.
  Variable valid : N -> bytes -> bool.

  Lemma c_blob_ok k : codec_ok (c_blob valid k).
  Proof. unfold c_blob. ok_tac. Qed.
  Lemma c_blob_min1 k : min1 (c_blob valid k).
  Proof. unfold c_blob. min1_tac. Qed.

  Hint Resolve c_blob_ok c_amount_ok c_balance_ok : c03.

  Lemma c_txin_ok : codec_ok c_txin.
  Proof. unfold c_txin, c_outpoint, c_script. ok_tac. Qed.
  Lemma c_txout_ok : codec_ok c_txout.
  Proof. unfold c_txout, c_script. apply c_pair_ok; [apply c_amount_ok | apply c_bytevec_ok]. Qed.
  Lemma c_transparent_ok : codec_ok c_transparent.
  Proof.
    unfold c_transparent. apply c_pair_ok; apply c_vec_ok.
    - apply c_txin_ok.
    - unfold c_txin, c_outpoint. min1_tac.
    - apply c_txout_ok.
    - unfold c_txout, c_amount, c_u64le. min1_tac.
  Qed.

  Lemma groth_pos : (1 <= groth)%nat. Proof. vm_compute. lia. Qed.

  Lemma c_spend4_ok : codec_ok (c_spend4 valid).
  Proof. unfold c_spend4. repeat (apply c_pair_ok; [first [apply c_blob_ok | apply c_fixed_ok]|]). apply c_fixed_ok. Qed.
  Lemma c_output4_ok : codec_ok (c_output4 valid).
  Proof. unfold c_output4. repeat (apply c_pair_ok; [first [apply c_blob_ok | apply c_fixed_ok]|]). apply c_fixed_ok. Qed.
  Lemma c_sapling4_raw_ok : codec_ok (c_sapling4_raw valid).
  Proof.
    unfold c_sapling4_raw. apply c_pair_ok; [apply c_balance_ok|]. apply c_pair_ok; apply c_vec_ok.
    - apply c_spend4_ok.
    - unfold c_spend4. apply c_pair_min1, c_blob_min1.
    - apply c_output4_ok.
    - unfold c_output4. apply c_pair_min1, c_blob_min1.
  Qed.

  Lemma c_js_ok g : codec_ok (c_js g).
  Proof.
    unfold c_js. apply c_pair_ok; [apply c_amount_ok|]. apply c_pair_ok; [apply c_amount_ok|]. ok_tac.
  Qed.
  Lemma c_sprout_ok g : codec_ok (c_sprout g).
  Proof.
    unfold c_sprout. apply c_dep_ok.
    - apply c_vec_ok; [apply c_js_ok|]. unfold c_js, c_amount, c_u64le. min1_tac.
    - intros. ok_tac.
  Qed.

  Lemma c_spend5_ok : codec_ok (c_spend5 valid).
  Proof. unfold c_spend5. repeat (apply c_pair_ok; [first [apply c_blob_ok | apply c_fixed_ok]|]). apply c_blob_ok. Qed.
  Lemma c_output5_ok : codec_ok (c_output5 valid).
  Proof. unfold c_output5. repeat (apply c_pair_ok; [first [apply c_blob_ok | apply c_fixed_ok]|]). apply c_fixed_ok. Qed.
  Lemma c_sapling5_ok : codec_ok (c_sapling5 valid).
  Proof.
    unfold c_sapling5. apply c_dep_ok.
    - apply c_pair_ok; apply c_vec_ok.
      + apply c_spend5_ok.
      + unfold c_spend5. apply c_pair_min1, c_blob_min1.
      + apply c_output5_ok.
      + unfold c_output5. apply c_pair_min1, c_blob_min1.
    - intros so. cbv zeta.
      apply c_pair_ok; [apply c_opt_ok, c_balance_ok|].
      apply c_pair_ok; [apply c_opt_ok, c_blob_ok|]. ok_tac.
  Qed.

  Lemma c_action_ok : codec_ok (c_action valid).
  Proof. unfold c_action. repeat (apply c_pair_ok; [first [apply c_blob_ok | apply c_fixed_ok]|]). apply c_fixed_ok. Qed.
  Lemma c_orchard_rest_ok bv n : codec_ok (c_orchard_rest valid bv n).
  Proof.
    unfold c_orchard_rest. apply c_pair_ok; [apply c_refine_ok, c_uint_ok|].
    apply c_pair_ok; [apply c_balance_ok|]. apply c_pair_ok; [apply c_blob_ok|]. ok_tac.
  Qed.
  Lemma c_orchard_ok bv : codec_ok (c_orchard valid bv).
  Proof.
    unfold c_orchard. apply c_dep_ok.
    - apply c_vec_ok; [apply c_action_ok|]. unfold c_action. apply c_pair_min1, c_blob_min1.
    - intros acts. apply c_opt_ok. destruct bv; [apply c_orchard_rest_ok | apply c_fail_ok].
  Qed.

  Lemma c_legacy_ok v : codec_ok (c_legacy valid v).
  Proof.
    unfold c_legacy. apply c_pair_ok; [apply c_transparent_ok|].
    apply c_pair_ok; [apply c_uint_ok|]. apply c_pair_ok; [apply c_opt_ok, c_uint_ok|].
    apply c_dep_ok; [apply c_opt_ok, c_refine_ok, c_sapling4_raw_ok|].
    intros sap. apply c_pair_ok; [apply c_opt_ok, c_sprout_ok | apply c_opt_ok, c_fixed_ok].
  Qed.

  Lemma c_hdrfrag_ok : codec_ok c_hdrfrag.
  Proof. unfold c_hdrfrag. ok_tac. Qed.

  Lemma c_v5_ok : codec_ok (c_v5 valid).
  Proof.
    unfold c_v5. apply c_dep_ok; [apply c_hdrfrag_ok|]. intros h.
    apply c_pair_ok; [apply c_transparent_ok|]. apply c_pair_ok; [apply c_sapling5_ok | apply c_orchard_ok].
  Qed.
  Lemma c_v6_ok : codec_ok (c_v6 valid).
  Proof.
    unfold c_v6. apply c_dep_ok; [apply c_hdrfrag_ok|]. intros h.
    apply c_pair_ok; [apply c_transparent_ok|]. apply c_pair_ok; [apply c_sapling5_ok|].
    apply c_pair_ok; apply c_orchard_ok.
  Qed.

  Lemma c_body_ok v : codec_ok (c_body valid v).
  Proof.
    destruct v; cbn [c_body];
      first [ apply c_inl_ok, c_legacy_ok
            | apply c_inr_ok, c_inl_ok, c_v5_ok
            | apply c_inr_ok, c_inr_ok, c_v6_ok ].
  Qed.

  Theorem c_tx_ok : codec_ok (c_tx valid).
  Proof. unfold c_tx. apply c_dep_ok; [apply c_version_ok | apply c_body_ok]. Qed.

  (* -------------------------------------------------------------------------------------- *)
  (** ** The property theorems for transactions *)

  Lemma tx_roundtrip : forall t r,
    wf (c_tx valid) t = true -> dec (c_tx valid) (enc (c_tx valid) t ++ r) = Some (t, r).
  Proof. exact (rt _ c_tx_ok). Qed.

  Lemma tx_reencode : forall b t r,
    dec (c_tx valid) b = Some (t, r) ->
    b = enc (c_tx valid) t ++ r /\ wf (c_tx valid) t = true /\
    length b = (length (enc (c_tx valid) t) + length r)%nat.
  Proof.
    intros b t r H. pose proof (canon _ c_tx_ok _ _ _ H) as [E W]. repeat split; try assumption.
    rewrite E at 1. apply app_length.
  Qed.

  Lemma tx_reparse : forall b t r,
    dec (c_tx valid) b = Some (t, r) -> dec (c_tx valid) (enc (c_tx valid) t) = Some (t, []).
  Proof. exact (reparse _ c_tx_ok). Qed.

  Lemma tx_trailing_ignored : forall b t r x,
    dec (c_tx valid) b = Some (t, r) -> dec (c_tx valid) (b ++ x) = Some (t, r ++ x).
  Proof. exact (dec_extend _ c_tx_ok). Qed.

  Lemma tx_encoding_unique : forall b1 b2 t r,
    dec (c_tx valid) b1 = Some (t, r) -> dec (c_tx valid) b2 = Some (t, r) -> b1 = b2.
  Proof. exact (dec_inj _ c_tx_ok). Qed.

  Lemma tx_read_total : forall b, tx_read valid b <> Panic.
  Proof. intros b. unfold tx_read. destruct (dec (c_tx valid) b); discriminate. Qed.

  (* -------------------------------------------------------------------------------------- *)
  (** ** Amount fields *)

  Definition amount_in_range (x : N) : Prop := x <= MAX_MONEY.

  Lemma wf_transparent tp :
    wf c_transparent tp = true -> Forall amount_in_range (txout_values tp).
  Proof.
    unfold c_transparent. cbn [c_pair c_dep c_refine c_vec wf]. intros H. apply andb_true_iff in H as [_ H].
    cbn [c_pair c_dep c_refine c_vec wf] in H. apply andb_true_iff in H as [_ H]. unfold txout_values.
    induction (snd tp) as [|o l IH]; [constructor|].
    cbn [forallb] in H. apply andb_true_iff in H as [H1 H2]. cbn [map]. constructor; [|auto].
    unfold c_txout in H1. cbn [c_pair c_dep c_refine c_vec wf] in H1. apply andb_true_iff in H1 as [H1 _].
    apply wf_amount. exact H1.
  Qed.
End TxProofs.

(** Amount fields of a transaction value, by position. *)
Definition opt_list {A} (o : option A) : list A := match o with Some a => [a] | None => [] end.

Definition js_amounts (js : js_t) : list N := [fst js; fst (snd js)].
Definition sprout_amounts (s : sprout_t) : list N := flat_map js_amounts (fst s).
Definition sap5_balances (s : sapling5_t) : list N := opt_list (fst (snd s)).
Definition orch_balances (o : orchard_t) : list N :=
  match snd o with Some r => [fst (snd r)] | None => [] end.

Definition legacy_unsigned (x : legacy_t) : list N :=
  txout_values (fst x)
  ++ match fst (snd (snd (snd (snd x)))) with Some s => sprout_amounts s | None => [] end.
Definition legacy_signed (x : legacy_t) : list N :=
  match fst (snd (snd (snd x))) with Some s => [fst s] | None => [] end.

Definition tx_unsigned_amounts (t : tx_t) : list N :=
  match snd t with
  | inl x => legacy_unsigned x
  | inr (inl x) => txout_values (fst (snd x))
  | inr (inr x) => txout_values (fst (snd x))
  end.
Definition tx_signed_amounts (t : tx_t) : list N :=
  match snd t with
  | inl x => legacy_signed x
  | inr (inl x) => sap5_balances (fst (snd (snd x))) ++ orch_balances (snd (snd (snd x)))
  | inr (inr x) => sap5_balances (fst (snd (snd x)))
                   ++ orch_balances (fst (snd (snd (snd x))))
                   ++ orch_balances (snd (snd (snd (snd x))))
  end.

Section AmountProofs.
  Variable valid : N -> bytes -> bool.

  Lemma wf_sprout g (s : sprout_t) :
    wf (c_sprout g) s = true -> Forall amount_in_range (sprout_amounts s).
  Proof.
    unfold c_sprout. cbn [c_pair c_dep c_refine c_vec wf]. intros H. apply andb_true_iff in H as [H _].
    cbn [c_pair c_dep c_refine c_vec wf] in H. apply andb_true_iff in H as [_ H]. unfold sprout_amounts.
    induction (fst s) as [|j l IH]; [constructor|].
    cbn [forallb] in H. apply andb_true_iff in H as [H1 H2]. cbn [flat_map].
    unfold c_js in H1. cbn [c_pair c_dep c_refine c_vec wf] in H1.
    apply andb_true_iff in H1 as [Ha H1]. apply andb_true_iff in H1 as [Hb _].
    unfold js_amounts. cbn [app]. constructor; [apply wf_amount; exact Ha|].
    constructor; [apply wf_amount; exact Hb | auto].
  Qed.

  Lemma wf_sap5 (s : sapling5_t) :
    wf (c_sapling5 valid) s = true -> Forall balance_in_range (sap5_balances s).
  Proof.
    unfold c_sapling5. cbn [c_pair c_dep c_refine c_vec wf]. intros H. apply andb_true_iff in H as [_ H]. cbv zeta in H.
    cbn [c_pair c_dep c_refine c_vec wf] in H. apply andb_true_iff in H as [H _]. unfold sap5_balances.
    destruct (fst (snd s)) as [vb|]; [|constructor]. apply c_opt_wf in H as [_ H].
    constructor; [apply wf_balance; exact H | constructor].
  Qed.

  Lemma wf_orch bv (o : orchard_t) :
    wf (c_orchard valid bv) o = true -> Forall balance_in_range (orch_balances o).
  Proof.
    unfold c_orchard. cbn [c_pair c_dep c_refine c_vec wf]. intros H. apply andb_true_iff in H as [_ H].
    unfold orch_balances. destruct (snd o) as [r|]; [|constructor].
    apply c_opt_wf in H as [_ H]. destruct bv as [v|]; [|discriminate].
    unfold c_orchard_rest in H. cbn [c_pair c_dep c_refine c_vec wf] in H.
    apply andb_true_iff in H as [_ H]. apply andb_true_iff in H as [H _].
    constructor; [apply wf_balance; exact H | constructor].
  Qed.

  Lemma wf_legacy v (x : legacy_t) :
    wf (c_legacy valid v) x = true ->
    Forall amount_in_range (legacy_unsigned x) /\ Forall balance_in_range (legacy_signed x).
  Proof.
    unfold c_legacy. intros H. cbn [c_pair c_dep wf] in H.
    apply andb_true_iff in H as [Ht H]. apply andb_true_iff in H as [_ H].
    apply andb_true_iff in H as [_ H]. apply andb_true_iff in H as [Hs H].
    apply andb_true_iff in H as [Hj _]. split.
    - unfold legacy_unsigned. apply Forall_app. split; [apply wf_transparent; exact Ht|].
      destruct (fst (snd (snd (snd (snd x))))) as [s|]; [|constructor].
      apply c_opt_wf in Hj as [_ Hj]. apply (wf_sprout _ _ Hj).
    - unfold legacy_signed. destruct (fst (snd (snd (snd x)))) as [s|]; [|constructor].
      apply c_opt_wf in Hs as [_ Hs]. cbn [c_pair c_dep c_refine c_vec wf] in Hs. apply andb_true_iff in Hs as [Hs _].
      unfold c_sapling4_raw in Hs. cbn [c_pair c_dep c_refine c_vec wf] in Hs. apply andb_true_iff in Hs as [Hs _].
      constructor; [apply wf_balance; exact Hs | constructor].
  Qed.

  Lemma tx_amounts_in_range (t : tx_t) :
    wf (c_tx valid) t = true ->
    Forall amount_in_range (tx_unsigned_amounts t) /\ Forall balance_in_range (tx_signed_amounts t).
  Proof.
    unfold c_tx. cbn [c_pair c_dep c_refine c_vec wf]. intros H. apply andb_true_iff in H as [_ H].
    unfold tx_unsigned_amounts, tx_signed_amounts.
    destruct t as [v body]. cbn [fst snd] in *.
    destruct v; cbn [c_body] in H; destruct body as [x|[x|x]]; cbn [c_inl c_inr wf] in H; try discriminate.
    1-3: apply (wf_legacy _ _ H).
    - unfold c_v5 in H. cbn [c_pair c_dep c_refine c_vec wf] in H.
      apply andb_true_iff in H as [_ H]. apply andb_true_iff in H as [Ht H].
      apply andb_true_iff in H as [Hs Ho]. split; [apply wf_transparent; exact Ht|].
      apply Forall_app. split; [apply (wf_sap5 _ Hs) | apply (wf_orch _ _ Ho)].
    - unfold c_v6 in H. cbn [c_pair c_dep c_refine c_vec wf] in H.
      apply andb_true_iff in H as [_ H]. apply andb_true_iff in H as [Ht H].
      apply andb_true_iff in H as [Hs H]. apply andb_true_iff in H as [Ho Hi].
      split; [apply wf_transparent; exact Ht|].
      apply Forall_app. split; [apply (wf_sap5 _ Hs)|].
      apply Forall_app. split; [apply (wf_orch _ _ Ho) | apply (wf_orch _ _ Hi)].
  Qed.

  Lemma amount_fields_in_range : forall b t r,
    dec (c_tx valid) b = Some (t, r) ->
    Forall amount_in_range (tx_unsigned_amounts t) /\ Forall balance_in_range (tx_signed_amounts t).
  Proof.
    intros b t r H. apply tx_amounts_in_range. apply (canon _ (c_tx_ok valid) _ _ _ H).
  Qed.
End AmountProofs.

(* ---------------------------------------------------------------------------------------- *)
(** * Block header *)

Theorem c_header_ok : codec_ok c_header.
Proof. unfold c_header. ok_tac. Qed.

Lemma header_roundtrip : forall h r,
  wf c_header h = true -> dec c_header (enc c_header h ++ r) = Some (h, r).
Proof. exact (rt _ c_header_ok). Qed.

Lemma header_reencode : forall b h r,
  dec c_header b = Some (h, r) ->
  b = enc c_header h ++ r /\ wf c_header h = true /\
  length b = (length (enc c_header h) + length r)%nat.
Proof.
  intros b h r H. pose proof (canon _ c_header_ok _ _ _ H) as [E W]. repeat split; try assumption.
  rewrite E at 1. apply app_length.
Qed.

Lemma header_read_total : forall b, header_read b <> Panic.
Proof. intros b. unfold header_read. destruct (dec c_header b); discriminate. Qed.

(** the fixed part of a header is 140 bytes *)
Lemma header_fixed_part : forall h,
  wf c_header h = true ->
  exists fixed, length fixed = 140%nat /\
    enc c_header h = fixed ++ enc (c_bytevec MX) (snd (snd (snd (snd (snd (snd (snd h))))))).
Proof.
  intros [v [p [m [f [t [bi [n s]]]]]]] H. unfold c_header in H. cbn [c_pair c_dep c_refine c_vec wf] in H. cbn [fst snd] in *.
  repeat match type of H with (_ && _ = true) => let A := fresh "W" in apply andb_true_iff in H as [A H] end.
  cbn [c_fixed wf] in *. repeat match goal with W : Nat.eqb _ _ = true |- _ => apply Nat.eqb_eq in W end.
  exists (le 4 v ++ p ++ m ++ f ++ le 4 t ++ le 4 bi ++ n). split.
  - rewrite !app_length, !le_length. lia.
  - unfold c_header. cbn [c_pair enc fst snd c_u32le c_uint c_fixed]. rewrite <- !app_assoc. reflexivity.
Qed.

(* ---------------------------------------------------------------------------------------- *)
(** * CompactSize: non-canonical and oversized prefixes are rejected *)

Lemma compact_canonical mx : forall b n r,
  dec (c_compact mx) b = Some (n, r) -> b = enc_compact n ++ r /\ n <= mx.
Proof.
  intros b n r H. split; [apply (canon _ (c_compact_ok mx) _ _ _ H) | apply (c_compact_bound mx b n r H)].
Qed.

(** Any byte string that starts with a longer-than-necessary encoding of [n] is rejected. *)
Lemma compact_rejects_noncanonical mx : forall b n r,
  dec (c_compact mx) b = Some (n, r) ->
  forall b', b' <> b -> forall r', dec (c_compact mx) b' = Some (n, r') -> r' <> r.
Proof.
  intros b n r H b' Hne r' H' ->. apply Hne. apply (dec_inj _ (c_compact_ok mx) _ _ _ _ H' H).
Qed.

Lemma vec_count_bounded {A} mx (c : codec A) : codec_ok c -> min1 c -> forall b l r,
  dec (c_vec mx c) b = Some (l, r) -> nlen l <= mx.
Proof.
  intros Hc M b l r H. apply c_vec_bound with (c := c). apply (canon _ (c_vec_ok mx c Hc M) _ _ _ H).
Qed.

(* ---------------------------------------------------------------------------------------- *)
(** * Conditional fields: present exactly when the bundle they belong to is non-empty
    (this is what makes "bundle = None iff empty" a bijection with the wire form) *)

Lemma c_opt_none_iff {A} b (c : codec A) o : wf (c_opt b c) o = true -> (o = None <-> b = false).
Proof.
  intros H. apply c_opt_wf in H. destruct o as [a|].
  - destruct H as [-> _]. split; discriminate.
  - subst. split; reflexivity.
Qed.
Lemma is_nil_iff {A} (l : list A) : is_nil l = true <-> l = [].
Proof. destruct l; cbn; split; congruence. Qed.
Lemma wf_rep_length {A} (c : codec A) n l : wf (c_rep c n) l = true -> length l = n.
Proof. cbn [c_rep wf]. intros H. apply andb_true_iff in H as [H _]. apply Nat.eqb_eq. exact H. Qed.

Section Presence.
  Variable valid : N -> bytes -> bool.

  (** v5 Sapling: valueBalance and binding signature iff spends or outputs; anchor iff spends;
      one spend proof and one spend signature per spend, one output proof per output *)
  Lemma sapling5_presence (s : sapling5_t) :
    wf (c_sapling5 valid) s = true ->
    let ss := fst (fst s) in let os := snd (fst s) in
    let vb := fst (snd s) in let anchor := fst (snd (snd s)) in
    let sproofs := fst (snd (snd (snd s))) in let ssigs := fst (snd (snd (snd (snd s)))) in
    let oproofs := fst (snd (snd (snd (snd (snd s))))) in let bsig := snd (snd (snd (snd (snd (snd s))))) in
    (vb = None <-> ss = [] /\ os = []) /\ (anchor = None <-> ss = []) /\
    (bsig = None <-> ss = [] /\ os = []) /\
    length sproofs = length ss /\ length ssigs = length ss /\ length oproofs = length os.
  Proof.
    unfold c_sapling5. cbn [c_pair c_dep c_refine c_vec wf]. intros H. apply andb_true_iff in H as [_ H]. cbv zeta in H.
    cbn [c_pair c_dep c_refine c_vec wf] in H.
    repeat match type of H with (_ && _ = true) => let X := fresh "P" in apply andb_true_iff in H as [X H] end.
    cbv zeta.
    apply c_opt_none_iff in P. apply c_opt_none_iff in P0. apply c_opt_none_iff in H.
    apply wf_rep_length in P1. apply wf_rep_length in P2. apply wf_rep_length in P3.
    rewrite negb_false_iff, andb_true_iff, !is_nil_iff in P, H. rewrite negb_false_iff, is_nil_iff in P0.
    repeat split; try tauto; assumption.
  Qed.

  (** Orchard-shaped bundle: flags, valueBalance, anchor, proof and signatures iff there is an
      action (and then the pool exists under the branch); one spend-auth signature per action *)
  Lemma orchard_presence bv (o : orchard_t) :
    wf (c_orchard valid bv) o = true ->
    (snd o = None <-> fst o = []) /\
    (forall r, snd o = Some r -> bv <> None /\ length (fst (snd (snd (snd (snd r))))) = length (fst o)).
  Proof.
    unfold c_orchard. cbn [c_pair c_dep c_refine c_vec wf]. intros H. apply andb_true_iff in H as [_ H]. split.
    - apply c_opt_none_iff in H. rewrite negb_false_iff, is_nil_iff in H. exact H.
    - intros r E. rewrite E in H. apply c_opt_wf in H as [_ H]. destruct bv as [v|]; [|discriminate].
      split; [discriminate|]. unfold c_orchard_rest in H. cbn [c_pair c_dep c_refine c_vec wf] in H.
      repeat match type of H with (_ && _ = true) => let X := fresh "P" in apply andb_true_iff in H as [X H] end.
      apply wf_rep_length in P3. exact P3.
  Qed.

  (** v1-v4: the Sapling binding signature iff there are Sapling spends or outputs; the JoinSplit
      public key and signature iff there are JoinSplits; optional parts follow the version *)
  Lemma legacy_presence v (x : legacy_t) :
    wf (c_legacy valid v) x = true ->
    let expiry := fst (snd (snd x)) in let sap := fst (snd (snd (snd x))) in
    let spr := fst (snd (snd (snd (snd x)))) in let bsig := snd (snd (snd (snd (snd x)))) in
    (expiry = None <-> has_overwinter v = false) /\ (sap = None <-> has_sapling v = false) /\
    (spr = None <-> has_sprout v = false) /\
    (bsig = None <-> sap4_nonempty sap = false) /\
    (forall js, spr = Some js -> (snd js = None <-> fst js = [])).
  Proof.
    unfold c_legacy. cbn [c_pair c_dep c_refine c_vec wf]. intros H.
    repeat match type of H with (_ && _ = true) => let X := fresh "P" in apply andb_true_iff in H as [X H] end.
    cbv zeta. apply c_opt_none_iff in P1. apply c_opt_none_iff in P2. pose proof P3 as P3'.
    apply c_opt_none_iff in P3. apply c_opt_none_iff in H.
    split; [tauto|]. split; [tauto|]. split; [tauto|]. split; [tauto|].
    intros js E. rewrite E in P3'. apply c_opt_wf in P3' as [_ W]. unfold c_sprout in W. cbn [c_pair c_dep c_refine c_vec wf] in W.
    apply andb_true_iff in W as [_ W]. apply c_opt_none_iff in W. rewrite negb_false_iff, is_nil_iff in W. exact W.
  Qed.
End Presence.
