(** C03 — correspondence cases.  [run_case]: model = implementation (accept/reject, consumed
    length, re-serialisation).  [prop_case]: the property of Spec.v on the implementation's
    observation alone. *)
From Coq Require Import List NArith Bool.
From V.Lib Require Import Base Hex.
From V.Gen Require Import C03Tables.
From V.C03 Require Import Codec Sha256 Model Spec.
Import ListNotations.
Local Open Scope N_scope.

Inductive case :=
| Tx (src ctx : N) (b : bytes) (bad : list (N * bytes)) (o : outcome txobs unit) (alts : list altobs)
| Hdr (src : N) (b : bytes) (o : outcome hdrobs unit) (alts : list altobs)
| CsRead (which : N) (b : bytes) (o : outcome (N * N) unit)
| CsWrite (which : N) (n : N) (o : outcome bytes unit)
| VecU8 (b : bytes) (o : outcome (bytes * N) unit)
| OptU32 (b : bytes) (o : outcome (option N * N) unit)
| ReadT (w : N) (b : bytes) (o : outcome (N * N) unit)
| VecFill (api : N) (b : bytes) (fill : N) (o : outcome (N * N) N)
| ArrFill (count : N) (b : bytes) (fill : N) (o : outcome (N * N) N).

(** The validity oracle of a case: the blobs listed by the harness are those a primitive decoder
    (jubjub, bls12_381, pasta_curves, redjubjub) rejected; everything else counts as valid. *)
Definition table_valid (bad : list (N * bytes)) (k : N) (x : bytes) : bool :=
  negb (existsb (fun p => (fst p =? k) && bytes_eqb (snd p) x) bad).

(** What the model predicts for an accepting call, compared field by field with the observation:
    consumed length, re-serialisation, stored branch id, v1-v4 txid; a re-parse of the
    re-serialisation is the same transaction (theorem [tx_reparse]) and a generated transaction
    parses to itself (theorem [tx_roundtrip]), so both flags are predicted [true]; the model is a
    function of the bytes only, so every reader kind must give the same result. *)
Definition fill_eqb : outcome (N * N) N -> outcome (N * N) N -> bool :=
  outcome_eqb (pair_eqb N.eqb N.eqb) N.eqb.

Definition run_caseH (H : bytes -> bytes) (c : case) : bool :=
  match c with
  | Tx _ ctx b bad o alts =>
      let cd := c_tx (table_valid bad) in
      match dec cd b, o with
      | Some (t, r), Ok (TxOk n rw txid br same gen_same) =>
          (n + nlen r =? nlen b) && bytes_eqb (enc cd t) (prefix_or b n rw)
          && (effective_branch ctx t =? br)
          && (negb (is_legacy (fst t)) || bytes_eqb (legacy_txid H (table_valid bad) t) txid)
          && same && gen_same
          && forallb (alt_agrees n) alts
      | None, Err _ => forallb alt_rejects alts
      | _, _ => false
      end
  | Hdr _ b o alts =>
      match dec c_header b, o with
      | Some (h, r), Ok (HdrOk n rw hash same) =>
          (n + nlen r =? nlen b) && bytes_eqb (enc c_header h) (prefix_or b n rw)
          && bytes_eqb (header_hash H h) hash && same
          && forallb (alt_agrees n) alts
      | None, Err _ => forallb alt_rejects alts
      | _, _ => false
      end
  | CsRead which b o =>
      let cd := if which =? 0 then c_compact MX else c_compact_raw in
      match dec cd b, o with
      | Some (v, r), Ok (v', n) => (v =? v') && (n + nlen r =? nlen b)
      | None, Err _ => true
      | _, _ => false
      end
  | CsWrite which n o =>
      match o with
      | Ok w => bytes_eqb (enc_compact n) w && ((which =? 1) || (n <=? MX))
      | Err _ => (which =? 0) && (MX <? n)
      | Panic => false
      end
  | VecU8 b o =>
      match dec (c_bytevec MX) b, o with
      | Some (v, r), Ok (v', n) => bytes_eqb v v' && (n + nlen r =? nlen b)
      | None, Err _ => true
      | _, _ => false
      end
  | OptU32 b o =>
      match dec (c_flagopt c_u32le) b, o with
      | Some (v, r), Ok (v', n) => option_eqb N.eqb v v' && (n + nlen r =? nlen b)
      | None, Err _ => true
      | _, _ => false
      end
  | ReadT w b o =>
      match dec (c_read_t w) b, o with
      | Some (v, r), Ok (v', n) => (v =? v') && (n + nlen r =? nlen b)
      | None, Err _ => true
      | _, _ => false
      end
  | VecFill _ b fill o =>
      fill_eqb (vecfill_model b fill) o
      && (* short streams: also through the vector codec itself *)
         (if 2048 <? nlen b + fill then true else
          match dec (c_vec MX c_u8) (b ++ repeat 0 (N.to_nat fill)), o with
          | Some (l, r), Ok (n, c) => (nlen l =? n) && (c + nlen r =? nlen b + fill)
          | None, Err _ => true
          | _, _ => false
          end)
  | ArrFill count b fill o =>
      fill_eqb (arrfill_model count b fill) o
      && (if (2048 <? nlen b + fill) || (2048 <? count) then true else
          match dec (c_rep c_u8 (N.to_nat count)) (b ++ repeat 0 (N.to_nat fill)), o with
          | Some (l, r), Ok (n, c) => (nlen l =? n) && (c + nlen r =? nlen b + fill)
          | None, Err _ => true
          | _, _ => false
          end)
  end.

Definition cs_out_eqb (a : option (N * N)) (o : outcome (N * N) unit) : bool :=
  match a, o with
  | Some (v, k), Ok (v', k') => (v =? v') && (k =? k')
  | None, Err _ => true
  | _, _ => false
  end.

Definition prop_caseH (H : bytes -> bytes) (c : case) : bool :=
  match c with
  | Tx src ctx b _ o alts => tx_prop H src ctx b o alts
  | Hdr src b o alts => hdr_prop H src b o alts
  | CsRead which b o => cs_out_eqb (cs_spec (if which =? 0 then Some MX else None) b) o
  | CsWrite which n o =>
      match o with
      | Ok w => cs_out_eqb (cs_spec (if which =? 0 then Some MX else None) w) (Ok (n, nlen w))
      | Err _ => (which =? 0) && (MX <? n)
      | Panic => false
      end
  | VecU8 b o =>
      match vec_spec b, o with
      | Some (v, n), Ok (v', n') => bytes_eqb v v' && (n =? n')
      | None, Err _ => true
      | _, _ => false
      end
  | OptU32 b o =>
      match opt_spec b, o with
      | Some (v, n), Ok (v', n') => option_eqb N.eqb v v' && (n =? n')
      | None, Err _ => true
      | _, _ => false
      end
  | ReadT w b o => cs_out_eqb (readt_spec (target_bits w) b) o
  | VecFill _ b fill o => vecfill_prop (nlen b + fill) (stream_head b fill) o
  | ArrFill count b fill o => arrfill_prop count (nlen b + fill) o
  end.

(** what the generated case files evaluate: the identifier hash is SHA-256d *)
Definition run_case : case -> bool := run_caseH sha256d.
Definition prop_case : case -> bool := prop_caseH sha256d.

Definition known_class (c : case) : N := 0.

Definition version_code (b : bytes) : N :=
  match dec c_version b with
  | Some (VSprout _, _) => 1 | Some (V3, _) => 2 | Some (V4, _) => 3 | Some (V5, _) => 4 | Some (V6, _) => 5
  | None => 6
  end.

(** path tag: origin of the input x outcome (reject / accepted version / panic) *)
Definition tag_case (c : case) : N :=
  match c with
  | Tx src _ b _ o _ => src * 10 + match o with Err _ => 0 | Ok _ => version_code b | Panic => 9 end
  | Hdr src _ o _ => 200 + src * 3 + match o with Err _ => 0 | Ok _ => 1 | Panic => 2 end
  | CsRead which _ o => 300 + which * 3 + match o with Err _ => 0 | Ok _ => 1 | Panic => 2 end
  | CsWrite which _ o => 310 + which * 3 + match o with Err _ => 0 | Ok _ => 1 | Panic => 2 end
  | VecU8 _ o => 320 + match o with Err _ => 0 | Ok _ => 1 | Panic => 2 end
  | ReadT w _ o => 340 + w + match o with Err _ => 0 | Ok _ => 1 | Panic => 2 end
  | VecFill api b fill o => 420 + api * 6 + match o with Err c => if c <=? 9 then 0 else 1 | Ok _ => 2 | Panic => 3 end + (if 1000000 <? fill then 3 else 0)
  | ArrFill _ _ _ o => 450 + match o with Err _ => 0 | Ok _ => 1 | Panic => 2 end
  | OptU32 _ o => 330 + match o with Err _ => 0 | Ok (None, _) => 1 | Ok (Some _, _) => 2 | Panic => 3 end
  end.
