(** C03 — domain of the cases: inputs are byte strings, oracle entries are 32-byte strings. *)
From Coq Require Import List NArith Bool.
From V.Lib Require Import Base Hex.
From V.C03 Require Import Codec Model Spec Corr.
Import ListNotations.
Local Open Scope N_scope.

Definition wf_case (c : case) : bool :=
  match c with
  | Tx _ b bad _ => is_bytes b && forallb (fun p => is_bytes (snd p) && (nlen (snd p) =? 32)) bad
  | Hdr _ b _ => is_bytes b
  | CsRead which b _ => is_bytes b && (which <? 2)
  | CsWrite which n _ => (which <? 2) && (n <? 18446744073709551616)
  | VecU8 b _ | OptU32 b _ => is_bytes b
  end.
