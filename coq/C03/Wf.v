(** C03 — domain of the cases: inputs are byte strings, oracle entries are 32-byte strings. *)
From Coq Require Import List NArith Bool.
From V.Lib Require Import Base Hex.
From V.C03 Require Import Codec Model Spec Corr.
Import ListNotations.
Local Open Scope N_scope.

(** The origin label of a case is a claim of the harness about how the bytes were made.  It is
    admitted only when the (proved canonical) model confirms it: inputs labelled as generated are
    accepted entirely, inputs labelled as non-canonical / out-of-range are rejected. *)
Definition label_ok (src : N) (model : option bytes) : bool :=
  match model with
  | Some r => negb (must_reject src) && (negb (generated src) || is_nil r)
  | None => negb (generated src)
  end.

Definition wf_case (c : case) : bool :=
  match c with
  | Tx src ctx b bad o _ =>
      is_bytes b && forallb (fun p => is_bytes (snd p) && (nlen (snd p) =? 32)) bad
      && is_branch ctx
      && label_ok src (match dec (c_tx (table_valid bad)) b with Some (_, r) => Some r | None => None end)
  | Hdr src b _ _ =>
      is_bytes b && label_ok src (match dec c_header b with Some (_, r) => Some r | None => None end)
  | CsRead which b _ => is_bytes b && (which <? 2)
  | CsWrite which n _ => (which <? 2) && (n <? 18446744073709551616)
  | VecU8 b _ | OptU32 b _ => is_bytes b
  | ReadT w b _ => is_bytes b && ((w =? 0) || (w =? 8) || (w =? 16) || (w =? 32) || (w =? 64))
  | VecFill api b fill _ => is_bytes b && (api <? 3) && (fill <? 1099511627776)
  | ArrFill count b fill _ => is_bytes b && (fill <? 1099511627776) && (count <? 18446744073709551616)
  end.
