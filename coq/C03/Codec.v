(** C03 — a small verified library of wire-format combinators.

    A codec packs an encoder, a decoder returning the unread rest, and a boolean
    well-formedness predicate.  The two laws are

      RT    : wf a -> dec (enc a ++ r) = Some (a, r)
      CANON : dec b = Some (a, r) -> b = enc a ++ r /\ wf a

    CANON says at once that the decoder accepts only the canonical encoding, that it never looks
    at (or consumes) more than [enc a], and that every accepted value is well formed.  Every
    combinator below comes with a law-preservation lemma; the transaction and block-header codecs
    of Model.v are built only from these combinators. *)
From Coq Require Import List NArith Bool Lia Arith.
From V.Lib Require Import Hex.
Import ListNotations.
Local Open Scope N_scope.

Record codec (A : Type) : Type := mkCodec {
  enc : A -> bytes;
  dec : bytes -> option (A * bytes);
  wf : A -> bool }.
Arguments mkCodec {A}.
Arguments enc {A}.
Arguments dec {A}.
Arguments wf {A}.

Record codec_ok {A} (c : codec A) : Prop := mkOk {
  rt : forall a r, wf c a = true -> dec c (enc c a ++ r) = Some (a, r);
  canon : forall b a r, dec c b = Some (a, r) -> b = enc c a ++ r /\ wf c a = true }.

(** every well-formed value encodes to at least one byte (needed for counted vectors) *)
Definition min1 {A} (c : codec A) : Prop :=
  forall a, wf c a = true -> (1 <= length (enc c a))%nat.

(* ---------------------------------------------------------------------------------------- *)
(** * Splitting off a fixed number of bytes *)

Fixpoint take (k : nat) (bs : bytes) : option (bytes * bytes) :=
  match k with
  | O => Some ([], bs)
  | S k' => match bs with
            | [] => None
            | b :: r => match take k' r with
                        | Some (h, t) => Some (b :: h, t)
                        | None => None
                        end
            end
  end.

Lemma take_app h : forall r, take (length h) (h ++ r) = Some (h, r).
Proof. induction h as [|x h IH]; intros r; cbn; [reflexivity | now rewrite IH]. Qed.

Lemma take_some k : forall bs h t, take k bs = Some (h, t) -> bs = h ++ t /\ length h = k.
Proof.
  induction k as [|k IH]; intros bs h t H; cbn in H.
  - inversion H; subst; auto.
  - destruct bs as [|b r]; [discriminate|].
    destruct (take k r) as [[h' t']|] eqn:E; [|discriminate].
    inversion H; subst. apply IH in E as [-> <-]. auto.
Qed.

Lemma take_short k bs : (length bs < k)%nat -> take k bs = None.
Proof.
  revert bs; induction k as [|k IH]; intros bs H; [lia|].
  destruct bs as [|b r]; cbn; [reflexivity|]. cbn in H. rewrite IH by lia. reflexivity.
Qed.

(* ---------------------------------------------------------------------------------------- *)
(** * Little-endian unsigned integers *)

Fixpoint le (k : nat) (x : N) : bytes :=
  match k with
  | O => []
  | S k' => (x mod 256) :: le k' (x / 256)
  end.

Fixpoint of_le (l : bytes) : N :=
  match l with
  | [] => 0
  | b :: r => b + 256 * of_le r
  end.

Lemma le_length k : forall x, length (le k x) = k.
Proof. induction k; intros; cbn; [reflexivity | now rewrite IHk]. Qed.

Lemma le_bytes k : forall x, forallb is_byte (le k x) = true.
Proof.
  induction k; intros x; cbn [le forallb]; [reflexivity|].
  rewrite IHk, andb_true_r. unfold is_byte. apply N.ltb_lt. apply N.mod_lt. lia.
Qed.

Lemma of_le_le k : forall x, x < 256 ^ N.of_nat k -> of_le (le k x) = x.
Proof.
  induction k as [|k IH]; intros x H.
  - cbn in *. lia.
  - cbn [le of_le]. rewrite IH.
    + pose proof (N.div_mod x 256 ltac:(lia)). lia.
    + rewrite Nat2N.inj_succ, N.pow_succ_r' in H.
      apply N.div_lt_upper_bound; lia.
Qed.

Lemma le_of_le l : forallb is_byte l = true -> le (length l) (of_le l) = l.
Proof.
  induction l as [|b r IH]; intros H; [reflexivity|].
  cbn [forallb] in H. apply andb_true_iff in H as [Hb Hr]. unfold is_byte in Hb. apply N.ltb_lt in Hb.
  cbn [length le of_le].
  replace (b + 256 * of_le r) with (b + of_le r * 256) by lia.
  rewrite N.mod_add, N.div_add by lia.
  rewrite N.mod_small, (N.div_small b) by lia.
  cbn. rewrite IH by exact Hr. reflexivity.
Qed.

Lemma of_le_bound l : forallb is_byte l = true -> of_le l < 256 ^ N.of_nat (length l).
Proof.
  induction l as [|b r IH]; intros H; [cbn; lia|].
  cbn [forallb] in H. apply andb_true_iff in H as [Hb Hr]. unfold is_byte in Hb. apply N.ltb_lt in Hb.
  cbn [length of_le]. rewrite Nat2N.inj_succ, N.pow_succ_r'. specialize (IH Hr). lia.
Qed.

(* ---------------------------------------------------------------------------------------- *)
(** * Primitive codecs *)

Definition c_fixed (n : nat) : codec bytes :=
  mkCodec (fun a => a) (take n) (fun a => Nat.eqb (length a) n).

Lemma c_fixed_ok n : codec_ok (c_fixed n).
Proof.
  split; cbn.
  - intros a r H. apply Nat.eqb_eq in H. subst. apply take_app.
  - intros b a r H. apply take_some in H as [-> <-]. split; [reflexivity | apply Nat.eqb_refl].
Qed.

Lemma c_fixed_min1 n : (1 <= n)%nat -> min1 (c_fixed n).
Proof. intros Hn a H. cbn in *. apply Nat.eqb_eq in H. lia. Qed.

Definition c_uint (k : nat) : codec N :=
  mkCodec (le k)
          (fun bs => match take k bs with
                     | Some (h, t) => if forallb is_byte h then Some (of_le h, t) else None
                     | None => None
                     end)
          (fun x => x <? 256 ^ N.of_nat k).

Lemma c_uint_ok k : codec_ok (c_uint k).
Proof.
  split; cbn.
  - intros a r H. apply N.ltb_lt in H.
    rewrite <- (le_length k a) at 1. rewrite take_app, le_bytes, of_le_le by exact H. reflexivity.
  - intros b a r H. destruct (take k b) as [[h t]|] eqn:E; [|discriminate].
    destruct (forallb is_byte h) eqn:F; [|discriminate]. inversion H; subst.
    apply take_some in E as [-> <-]. rewrite le_of_le by exact F. split; [reflexivity|].
    apply N.ltb_lt. apply of_le_bound. exact F.
Qed.

Lemma uint_rt k n r : n < 256 ^ N.of_nat k -> dec (c_uint k) (le k n ++ r) = Some (n, r).
Proof. intros H. apply (rt _ (c_uint_ok k)). cbn. apply N.ltb_lt. exact H. Qed.

Lemma c_uint_min1 k : (1 <= k)%nat -> min1 (c_uint k).
Proof. intros Hk a _. cbn. rewrite le_length. exact Hk. Qed.

Definition c_u8 := c_uint 1.
Definition c_u16le := c_uint 2.
Definition c_u32le := c_uint 4.
Definition c_u64le := c_uint 8.

Definition c_unit : codec unit :=
  mkCodec (fun _ => []) (fun bs => Some (tt, bs)) (fun _ => true).
Lemma c_unit_ok : codec_ok c_unit.
Proof. split; cbn; [intros [] r _; reflexivity | intros b [] r H; inversion H; subst; auto]. Qed.

Definition c_fail {A} : codec A :=
  mkCodec (fun _ => []) (fun _ => None) (fun _ => false).
Lemma c_fail_ok {A} : codec_ok (@c_fail A).
Proof. split; cbn; intros; discriminate. Qed.

(* ---------------------------------------------------------------------------------------- *)
(** * Sequencing *)

Definition c_pair {A B} (ca : codec A) (cb : codec B) : codec (A * B) :=
  mkCodec (fun p => enc ca (fst p) ++ enc cb (snd p))
          (fun bs => match dec ca bs with
                     | Some (a, r) => match dec cb r with
                                      | Some (b, r') => Some ((a, b), r')
                                      | None => None
                                      end
                     | None => None
                     end)
          (fun p => wf ca (fst p) && wf cb (snd p)).

(** second codec chosen by the first value (counts, versions, presence conditions) *)
Definition c_dep {A B} (ca : codec A) (f : A -> codec B) : codec (A * B) :=
  mkCodec (fun p => enc ca (fst p) ++ enc (f (fst p)) (snd p))
          (fun bs => match dec ca bs with
                     | Some (a, r) => match dec (f a) r with
                                      | Some (b, r') => Some ((a, b), r')
                                      | None => None
                                      end
                     | None => None
                     end)
          (fun p => wf ca (fst p) && wf (f (fst p)) (snd p)).

Lemma c_dep_ok {A B} (ca : codec A) (f : A -> codec B) :
  codec_ok ca -> (forall a, codec_ok (f a)) -> codec_ok (c_dep ca f).
Proof.
  intros Ha Hf. split; cbn.
  - intros [a b] r H. cbn in *. apply andb_true_iff in H as [H1 H2].
    rewrite <- app_assoc, (rt _ Ha) by exact H1. rewrite (rt _ (Hf a)) by exact H2. reflexivity.
  - intros bs [a b] r H.
    destruct (dec ca bs) as [[a' r1]|] eqn:E1; [|discriminate].
    destruct (dec (f a') r1) as [[b' r2]|] eqn:E2; [|discriminate].
    inversion H; subst. cbn.
    apply (canon _ Ha) in E1 as [-> W1]. apply (canon _ (Hf a)) in E2 as [-> W2].
    rewrite <- app_assoc, W1, W2. auto.
Qed.

Lemma c_pair_ok {A B} (ca : codec A) (cb : codec B) :
  codec_ok ca -> codec_ok cb -> codec_ok (c_pair ca cb).
Proof. intros Ha Hb. exact (c_dep_ok ca (fun _ => cb) Ha (fun _ => Hb)). Qed.

Lemma c_dep_min1 {A B} (ca : codec A) (f : A -> codec B) : min1 ca -> min1 (c_dep ca f).
Proof.
  intros M [a b] H. cbn in *. apply andb_true_iff in H as [H1 _]. specialize (M a H1).
  rewrite app_length. lia.
Qed.
Lemma c_pair_min1 {A B} (ca : codec A) (cb : codec B) : min1 ca -> min1 (c_pair ca cb).
Proof. exact (c_dep_min1 ca (fun _ => cb)). Qed.

(* ---------------------------------------------------------------------------------------- *)
(** * Refinement by a decidable predicate (range checks, validity of opaque blobs, tables) *)

Definition c_refine {A} (c : codec A) (p : A -> bool) : codec A :=
  mkCodec (enc c)
          (fun bs => match dec c bs with
                     | Some (a, r) => if p a then Some (a, r) else None
                     | None => None
                     end)
          (fun a => wf c a && p a).

Lemma c_refine_ok {A} (c : codec A) p : codec_ok c -> codec_ok (c_refine c p).
Proof.
  intros Hc. split; cbn.
  - intros a r H. apply andb_true_iff in H as [H1 H2]. rewrite (rt _ Hc), H2 by exact H1. reflexivity.
  - intros b a r H. destruct (dec c b) as [[a' r']|] eqn:E; [|discriminate].
    destruct (p a') eqn:P; [|discriminate]. inversion H; subst.
    apply (canon _ Hc) in E as [-> W]. rewrite W, P. auto.
Qed.
Lemma c_refine_min1 {A} (c : codec A) p : min1 c -> min1 (c_refine c p).
Proof. intros M a H. cbn in *. apply andb_true_iff in H as [H _]. auto. Qed.

(** the refinement is visible in [wf] *)
Lemma c_refine_wf {A} (c : codec A) p a : wf (c_refine c p) a = true -> p a = true.
Proof. cbn. intros H. apply andb_true_iff in H. tauto. Qed.

(* ---------------------------------------------------------------------------------------- *)
(** * Change of representation *)

Definition c_iso {A B} (c : codec A) (to : B -> A) (from : A -> B) (p : B -> bool) : codec B :=
  mkCodec (fun b => enc c (to b))
          (fun bs => match dec c bs with
                     | Some (a, r) => Some (from a, r)
                     | None => None
                     end)
          (fun b => p b && wf c (to b)).

Lemma c_iso_ok {A B} (c : codec A) (to : B -> A) (from : A -> B) p :
  codec_ok c ->
  (forall b, p b = true -> from (to b) = b) ->
  (forall a, wf c a = true -> to (from a) = a /\ p (from a) = true) ->
  codec_ok (c_iso c to from p).
Proof.
  intros Hc H1 H2. split; cbn.
  - intros b r H. apply andb_true_iff in H as [P W]. rewrite (rt _ Hc) by exact W.
    rewrite H1 by exact P. reflexivity.
  - intros bs b r H. destruct (dec c bs) as [[a r']|] eqn:E; [|discriminate].
    inversion H; subst. apply (canon _ Hc) in E as [-> W].
    destruct (H2 a W) as [T P]. rewrite T, P, W. auto.
Qed.
Lemma c_iso_min1 {A B} (c : codec A) (to : B -> A) from p : min1 c -> min1 (c_iso c to from p).
Proof. intros M b H. cbn in *. apply andb_true_iff in H as [_ H]. auto. Qed.

(* ---------------------------------------------------------------------------------------- *)
(** * Optional fields whose presence is decided by earlier data, and tagged unions *)

Definition c_some {A} (c : codec A) : codec (option A) :=
  mkCodec (fun o => match o with Some a => enc c a | None => [] end)
          (fun bs => match dec c bs with
                     | Some (a, r) => Some (Some a, r)
                     | None => None
                     end)
          (fun o => match o with Some a => wf c a | None => false end).

Definition c_none {A} : codec (option A) :=
  mkCodec (fun _ => [])
          (fun bs => Some (None, bs))
          (fun o => match o with Some _ => false | None => true end).

(** conditional field: present iff [b] *)
Definition c_opt {A} (b : bool) (c : codec A) : codec (option A) :=
  if b then c_some c else c_none.

Lemma c_some_ok {A} (c : codec A) : codec_ok c -> codec_ok (c_some c).
Proof.
  intros Hc. split; cbn.
  - intros [a|] r H; [|discriminate]. rewrite (rt _ Hc) by exact H. reflexivity.
  - intros bs o r H. destruct (dec c bs) as [[a r']|] eqn:E; [|discriminate].
    inversion H; subst. apply (canon _ Hc) in E as [-> W]. auto.
Qed.
Lemma c_none_ok {A} : codec_ok (@c_none A).
Proof.
  split; cbn.
  - intros [a|] r H; [discriminate | reflexivity].
  - intros bs o r H. inversion H; subst. auto.
Qed.
Lemma c_opt_ok {A} b (c : codec A) : codec_ok c -> codec_ok (c_opt b c).
Proof. intros Hc. destruct b; cbn; [apply c_some_ok; exact Hc | apply c_none_ok]. Qed.

(** presence agrees with the condition *)
Lemma c_opt_wf {A} b (c : codec A) o :
  wf (c_opt b c) o = true -> match o with Some a => b = true /\ wf c a = true | None => b = false end.
Proof. destruct b, o; cbn; intros; try discriminate; auto. Qed.

(** option on an explicit flag byte (zcash_encoding::Optional): 0 = None, 1 = Some, anything
    else is rejected *)
Definition c_flagopt {A} (c : codec A) : codec (option A) :=
  c_iso (c_dep (c_refine c_u8 (fun f => f <? 2)) (fun f => c_opt (N.eqb f 1) c))
        (fun o => match o with Some a => (1, Some a) | None => (0, None) end)
        (fun p => snd p)
        (fun _ => true).

Lemma c_flagopt_ok {A} (c : codec A) : codec_ok c -> codec_ok (c_flagopt c).
Proof.
  intros Hc. apply c_iso_ok.
  - apply c_dep_ok; [apply c_refine_ok, c_uint_ok | intros; apply c_opt_ok; exact Hc].
  - intros [a|] _; reflexivity.
  - intros [f o] W. cbn [c_dep wf fst snd] in W. apply andb_true_iff in W as [W1 W2].
    apply c_refine_wf in W1. apply N.ltb_lt in W1. apply c_opt_wf in W2.
    split; [|reflexivity]. destruct o as [a|]; cbn [snd].
    + destruct W2 as [E _]. apply N.eqb_eq in E. subst. reflexivity.
    + apply N.eqb_neq in W2. f_equal. lia.
Qed.

Definition c_inl {A B} (c : codec A) : codec (A + B) :=
  mkCodec (fun s => match s with inl a => enc c a | inr _ => [] end)
          (fun bs => match dec c bs with
                     | Some (a, r) => Some (inl a, r)
                     | None => None
                     end)
          (fun s => match s with inl a => wf c a | inr _ => false end).
Definition c_inr {A B} (c : codec B) : codec (A + B) :=
  mkCodec (fun s => match s with inr a => enc c a | inl _ => [] end)
          (fun bs => match dec c bs with
                     | Some (a, r) => Some (inr a, r)
                     | None => None
                     end)
          (fun s => match s with inr a => wf c a | inl _ => false end).

Lemma c_inl_ok {A B} (c : codec A) : codec_ok c -> codec_ok (@c_inl A B c).
Proof.
  intros Hc. split; cbn.
  - intros [a|b] r H; [|discriminate]. rewrite (rt _ Hc) by exact H. reflexivity.
  - intros bs o r H. destruct (dec c bs) as [[a r']|] eqn:E; [|discriminate].
    inversion H; subst. apply (canon _ Hc) in E as [-> W]. auto.
Qed.
Lemma c_inr_ok {A B} (c : codec B) : codec_ok c -> codec_ok (@c_inr A B c).
Proof.
  intros Hc. split; cbn.
  - intros [a|b] r H; [discriminate|]. rewrite (rt _ Hc) by exact H. reflexivity.
  - intros bs o r H. destruct (dec c bs) as [[a r']|] eqn:E; [|discriminate].
    inversion H; subst. apply (canon _ Hc) in E as [-> W]. auto.
Qed.

(* ---------------------------------------------------------------------------------------- *)
(** * Arrays: a number of elements known from elsewhere *)

Section Rep.
  Context {A : Type} (c : codec A).

  Fixpoint enc_rep (l : list A) : bytes :=
    match l with
    | [] => []
    | a :: l' => enc c a ++ enc_rep l'
    end.

  Fixpoint dec_rep (n : nat) (bs : bytes) : option (list A * bytes) :=
    match n with
    | O => Some ([], bs)
    | S n' => match dec c bs with
              | Some (a, r) => match dec_rep n' r with
                               | Some (l, r') => Some (a :: l, r')
                               | None => None
                               end
              | None => None
              end
    end.

  Definition c_rep (n : nat) : codec (list A) :=
    mkCodec enc_rep (dec_rep n) (fun l => Nat.eqb (length l) n && forallb (wf c) l).

  Hypothesis Hc : codec_ok c.

  Lemma dec_rep_rt l : forall r, forallb (wf c) l = true -> dec_rep (length l) (enc_rep l ++ r) = Some (l, r).
  Proof.
    induction l as [|a l IH]; intros r H; [reflexivity|].
    cbn [forallb] in H. apply andb_true_iff in H as [H1 H2].
    cbn [length enc_rep dec_rep]. rewrite <- app_assoc, (rt _ Hc) by exact H1.
    rewrite IH by exact H2. reflexivity.
  Qed.

  Lemma dec_rep_canon n : forall bs l r, dec_rep n bs = Some (l, r) ->
    bs = enc_rep l ++ r /\ length l = n /\ forallb (wf c) l = true.
  Proof.
    induction n as [|n IH]; intros bs l r H; cbn in H.
    - inversion H; subst. auto.
    - destruct (dec c bs) as [[a r1]|] eqn:E1; [|discriminate].
      destruct (dec_rep n r1) as [[l' r2]|] eqn:E2; [|discriminate].
      inversion H; subst. apply (canon _ Hc) in E1 as [-> W]. apply IH in E2 as (-> & <- & F).
      cbn [enc_rep length forallb]. rewrite <- app_assoc, W, F. auto.
  Qed.

  Lemma c_rep_ok n : codec_ok (c_rep n).
  Proof.
    split; cbn.
    - intros l r H. apply andb_true_iff in H as [H1 H2]. apply Nat.eqb_eq in H1. subst.
      apply dec_rep_rt. exact H2.
    - intros bs l r H. apply dec_rep_canon in H as (-> & <- & F). rewrite F, Nat.eqb_refl. auto.
  Qed.

  Lemma enc_rep_length l : min1 c -> forallb (wf c) l = true -> (length l <= length (enc_rep l))%nat.
  Proof.
    intros M. induction l as [|a l IH]; intros H; [cbn; lia|].
    cbn [forallb] in H. apply andb_true_iff in H as [H1 H2].
    cbn [enc_rep length]. rewrite app_length. specialize (M a H1). specialize (IH H2). lia.
  Qed.
End Rep.

(* ---------------------------------------------------------------------------------------- *)
(** * CompactSize (zcash_encoding): canonical encodings only, value at most [mx] *)

Definition enc_compact (n : N) : bytes :=
  if n <? 253 then [n]
  else if n <=? 65535 then 253 :: le 2 n
  else if n <=? 4294967295 then 254 :: le 4 n
  else 255 :: le 8 n.

Definition dec_compact (bs : bytes) : option (N * bytes) :=
  match bs with
  | [] => None
  | flag :: r =>
      if flag <? 253 then Some (flag, r)
      else if flag =? 253 then
        match dec (c_uint 2) r with
        | Some (n, t) => if n <? 253 then None else Some (n, t)
        | None => None
        end
      else if flag =? 254 then
        match dec (c_uint 4) r with
        | Some (n, t) => if n <? 65536 then None else Some (n, t)
        | None => None
        end
      else if flag =? 255 then
        match dec (c_uint 8) r with
        | Some (n, t) => if n <? 4294967296 then None else Some (n, t)
        | None => None
        end
      else None
  end.

(** [read_unbounded]/[write_unbounded]: the whole u64 range *)
Definition c_compact_raw : codec N :=
  mkCodec enc_compact dec_compact (fun n => n <? 18446744073709551616).

Lemma pow256_2 : 256 ^ N.of_nat 2 = 65536. Proof. vm_compute. reflexivity. Qed.
Lemma pow256_4 : 256 ^ N.of_nat 4 = 4294967296. Proof. vm_compute. reflexivity. Qed.
Lemma pow256_8 : 256 ^ N.of_nat 8 = 18446744073709551616. Proof. vm_compute. reflexivity. Qed.

Lemma c_compact_raw_ok : codec_ok c_compact_raw.
Proof.
  split; cbn.
  - intros n r H. apply N.ltb_lt in H. unfold enc_compact, dec_compact.
    destruct (n <? 253) eqn:E1.
    + cbn. rewrite E1. reflexivity.
    + apply N.ltb_ge in E1. destruct (n <=? 65535) eqn:E2.
      * apply N.leb_le in E2. cbn [app]. change (253 <? 253) with false. change (253 =? 253) with true. cbv iota.
        rewrite uint_rt by (rewrite pow256_2; lia).
        replace (n <? 253) with false by (symmetry; apply N.ltb_ge; lia). reflexivity.
      * apply N.leb_gt in E2. destruct (n <=? 4294967295) eqn:E3.
        -- apply N.leb_le in E3. cbn [app]. change (254 <? 253) with false. change (254 =? 253) with false.
           change (254 =? 254) with true. cbv iota.
           rewrite uint_rt by (rewrite pow256_4; lia).
           replace (n <? 65536) with false by (symmetry; apply N.ltb_ge; lia). reflexivity.
        -- apply N.leb_gt in E3. cbn [app]. change (255 <? 253) with false. change (255 =? 253) with false.
           change (255 =? 254) with false. change (255 =? 255) with true. cbv iota.
           rewrite uint_rt by (rewrite pow256_8; lia).
           replace (n <? 4294967296) with false by (symmetry; apply N.ltb_ge; lia). reflexivity.
  - intros bs n r H. unfold dec_compact in H. destruct bs as [|flag t]; [discriminate|].
    destruct (flag <? 253) eqn:F0.
    + inversion H; subst. unfold enc_compact. rewrite F0. apply N.ltb_lt in F0.
      split; [reflexivity | apply N.ltb_lt; lia].
    + destruct (flag =? 253) eqn:F1.
      * apply N.eqb_eq in F1. subst flag.
        destruct (dec (c_uint 2) t) as [[m t']|] eqn:E; [|discriminate].
        destruct (m <? 253) eqn:M; [discriminate|]. inversion H; subst.
        apply (canon _ (c_uint_ok 2)) in E as [-> W]. cbn [c_uint wf] in W. apply N.ltb_lt in W.
        rewrite pow256_2 in W. apply N.ltb_ge in M.
        unfold enc_compact. rewrite (proj2 (N.ltb_ge n 253)) by lia.
        rewrite (proj2 (N.leb_le n 65535)) by lia. split; [reflexivity | apply N.ltb_lt; lia].
      * destruct (flag =? 254) eqn:F2.
        -- apply N.eqb_eq in F2. subst flag.
           destruct (dec (c_uint 4) t) as [[m t']|] eqn:E; [|discriminate].
           destruct (m <? 65536) eqn:M; [discriminate|]. inversion H; subst.
           apply (canon _ (c_uint_ok 4)) in E as [-> W]. cbn [c_uint wf] in W. apply N.ltb_lt in W.
           rewrite pow256_4 in W. apply N.ltb_ge in M.
           unfold enc_compact. rewrite (proj2 (N.ltb_ge n 253)) by lia.
           rewrite (proj2 (N.leb_gt n 65535)) by lia.
           rewrite (proj2 (N.leb_le n 4294967295)) by lia. split; [reflexivity | apply N.ltb_lt; lia].
        -- destruct (flag =? 255) eqn:F3; [|discriminate].
           apply N.eqb_eq in F3. subst flag.
           destruct (dec (c_uint 8) t) as [[m t']|] eqn:E; [|discriminate].
           destruct (m <? 4294967296) eqn:M; [discriminate|]. inversion H; subst.
           apply (canon _ (c_uint_ok 8)) in E as [-> W]. cbn [c_uint wf] in W. apply N.ltb_lt in W.
           rewrite pow256_8 in W. apply N.ltb_ge in M.
           unfold enc_compact. rewrite (proj2 (N.ltb_ge n 253)) by lia.
           rewrite (proj2 (N.leb_gt n 65535)) by lia.
           rewrite (proj2 (N.leb_gt n 4294967295)) by lia. split; [reflexivity | apply N.ltb_lt; exact W].
Qed.

Lemma enc_compact_nonempty n : (1 <= length (enc_compact n))%nat.
Proof. unfold enc_compact. repeat match goal with |- context [if ?b then _ else _] => destruct b end; cbn; lia. Qed.

(** [CompactSize::read]: additionally at most [mx] (MAX_COMPACT_SIZE) *)
Definition c_compact (mx : N) : codec N := c_refine c_compact_raw (fun n => n <=? mx).
Lemma c_compact_ok mx : codec_ok (c_compact mx).
Proof. apply c_refine_ok, c_compact_raw_ok. Qed.
Lemma c_compact_min1 mx : min1 (c_compact mx).
Proof. intros a _. apply enc_compact_nonempty. Qed.

(** A decoded CompactSize never exceeds the bound, and its encoding is the shortest one. *)
Lemma c_compact_bound mx b n r : dec (c_compact mx) b = Some (n, r) -> n <= mx.
Proof.
  intros H. apply (canon _ (c_compact_ok mx)) in H as [_ W]. apply c_refine_wf in W.
  apply N.leb_le. exact W.
Qed.

(* ---------------------------------------------------------------------------------------- *)
(** * CompactSize-prefixed byte strings and vectors *)

Definition nlen {A} (l : list A) : N := N.of_nat (length l).

(** Vector<u8>: scripts, Orchard proofs, Equihash solutions. *)
(** [take] with a binary counter: structural on the bytes, so an absurd length costs nothing and
    no length of the rest is ever computed *)
Fixpoint takeN (bs : bytes) (n : N) : option (bytes * bytes) :=
  if n =? 0 then Some ([], bs)
  else match bs with
       | [] => None
       | b :: r => match takeN r (N.pred n) with
                   | Some (h, t) => Some (b :: h, t)
                   | None => None
                   end
       end.

Lemma takeN_take : forall bs n, takeN bs n = take (N.to_nat n) bs.
Proof.
  induction bs as [|b r IH]; intros n; cbn [takeN]; destruct (N.eqb_spec n 0) as [->|Hn]; try reflexivity.
  - destruct (N.to_nat n) eqn:E; [lia | reflexivity].
  - rewrite IH. replace (N.to_nat n) with (S (N.to_nat (N.pred n))) by lia. reflexivity.
Qed.

Definition c_bytevec (mx : N) : codec bytes :=
  mkCodec (fun b => enc (c_compact mx) (nlen b) ++ b)
          (fun bs => match dec (c_compact mx) bs with
                     | Some (n, r) => takeN r n
                     | None => None
                     end)
          (fun b => wf (c_compact mx) (nlen b)).

Lemma nlen_app {A} (a b : list A) : nlen (a ++ b) = nlen a + nlen b.
Proof. unfold nlen. rewrite app_length. lia. Qed.

Lemma c_bytevec_ok mx : codec_ok (c_bytevec mx).
Proof.
  split; cbn [c_bytevec enc dec wf].
  - intros b r H. rewrite <- app_assoc.
    rewrite (rt _ (c_compact_ok mx)) by exact H.
    rewrite takeN_take. unfold nlen. rewrite Nat2N.id. apply take_app.
  - intros bs b r H.
    destruct (dec (c_compact mx) bs) as [[n r1]|] eqn:E; [|discriminate].
    rewrite takeN_take in H.
    apply take_some in H as [-> Hl]. apply (canon _ (c_compact_ok mx)) in E as [-> W].
    assert (nlen b = n) as -> by (unfold nlen; rewrite Hl; apply N2Nat.id).
    rewrite <- app_assoc. auto.
Qed.

Lemma c_bytevec_min1 mx : min1 (c_bytevec mx).
Proof.
  intros a _. cbn [c_bytevec enc]. rewrite app_length.
  pose proof (enc_compact_nonempty (nlen a)). cbn [c_compact c_refine c_compact_raw enc]. lia.
Qed.

(** Vector<T>: CompactSize count, then that many elements.  Every element occupies at least one
    byte, so a count larger than the number of bytes left is rejected before iterating. *)
Definition c_vec {A} (mx : N) (c : codec A) : codec (list A) :=
  mkCodec (fun l => enc (c_compact mx) (nlen l) ++ enc_rep c l)
          (fun bs => match dec (c_compact mx) bs with
                     | Some (n, r) => if n <=? nlen r then dec_rep c (N.to_nat n) r else None
                     | None => None
                     end)
          (fun l => wf (c_compact mx) (nlen l) && forallb (wf c) l).

Lemma c_vec_ok {A} mx (c : codec A) : codec_ok c -> min1 c -> codec_ok (c_vec mx c).
Proof.
  intros Hc M. split; cbn [c_vec enc dec wf].
  - intros l r H. apply andb_true_iff in H as [H1 H2]. rewrite <- app_assoc.
    rewrite (rt _ (c_compact_ok mx)) by exact H1.
    pose proof (enc_rep_length c l M H2) as L.
    rewrite (proj2 (N.leb_le _ _)) by (rewrite nlen_app; unfold nlen; lia).
    unfold nlen. rewrite Nat2N.id. apply dec_rep_rt; assumption.
  - intros bs l r H.
    destruct (dec (c_compact mx) bs) as [[n r1]|] eqn:E; [|discriminate].
    destruct (n <=? nlen r1) eqn:L; [|discriminate].
    apply (dec_rep_canon c Hc) in H as (-> & Hl & F).
    apply (canon _ (c_compact_ok mx)) in E as [-> W].
    assert (nlen l = n) as -> by (unfold nlen; rewrite Hl; apply N2Nat.id).
    rewrite <- app_assoc, W, F. auto.
Qed.

Lemma c_vec_min1 {A} mx (c : codec A) : min1 (c_vec mx c).
Proof.
  intros a _. cbn [c_vec enc]. rewrite app_length.
  pose proof (enc_compact_nonempty (nlen a)). cbn [c_compact c_refine c_compact_raw enc]. lia.
Qed.

(** What CANON buys for a vector: the count prefix is bounded and canonical. *)
Lemma c_vec_bound {A} mx (c : codec A) l : wf (c_vec mx c) l = true -> nlen l <= mx.
Proof.
  cbn [c_vec wf]. intros H. apply andb_true_iff in H as [H _].
  apply c_refine_wf in H. apply N.leb_le. exact H.
Qed.

(* ---------------------------------------------------------------------------------------- *)
(** * Consequences of the laws used by the property theorems *)

(** The decoder reports exactly what it consumed: the rest is a suffix and the lengths add up. *)
Lemma canon_length {A} (c : codec A) : codec_ok c ->
  forall b a r, dec c b = Some (a, r) -> length b = (length (enc c a) + length r)%nat.
Proof. intros Hc b a r H. apply (canon _ Hc) in H as [-> _]. apply app_length. Qed.

(** Bytes after the consumed prefix never influence the result. *)
Lemma dec_extend {A} (c : codec A) : codec_ok c ->
  forall b a r x, dec c b = Some (a, r) -> dec c (b ++ x) = Some (a, r ++ x).
Proof.
  intros Hc b a r x H. apply (canon _ Hc) in H as [-> W]. rewrite <- app_assoc. apply (rt _ Hc). exact W.
Qed.

(** Two different byte strings never decode to the same value with the same rest
    (injectivity of the accepted language = no malleability at the wire level). *)
Lemma dec_inj {A} (c : codec A) : codec_ok c ->
  forall b1 b2 a r, dec c b1 = Some (a, r) -> dec c b2 = Some (a, r) -> b1 = b2.
Proof.
  intros Hc b1 b2 a r H1 H2. apply (canon _ Hc) in H1 as [-> _]. apply (canon _ Hc) in H2 as [-> _].
  reflexivity.
Qed.

(** decode-encode-decode is stable *)
Lemma reparse {A} (c : codec A) : codec_ok c ->
  forall b a r, dec c b = Some (a, r) -> dec c (enc c a) = Some (a, []).
Proof.
  intros Hc b a r H. apply (canon _ Hc) in H as [_ W].
  rewrite <- (app_nil_r (enc c a)). apply (rt _ Hc). exact W.
Qed.
