(** C03 — the property, stated on observations of the implementation only (no model of the
    parser is consulted here).  One observation = one call of [Transaction::read] (or
    [BlockHeader::read]) on a byte string together with what the harness then did with the
    result: re-serialise, re-parse, recompute the identifier with an independent SHA-256. *)
From Coq Require Import List NArith Bool.
From V.Lib Require Import Base Hex.
From V.Gen Require Import C03Tables.
From V.C03 Require Import Codec.
Import ListNotations.
Local Open Scope N_scope.

(** What the harness reports about one call [Transaction::read(&bytes[..], ctx)] that accepted:
    - [consumed]: bytes the reader took from the stream;
    - [rw]: [None] when [write] reproduced exactly the consumed prefix, else what it wrote;
    - [txid]: the 32 bytes of [txid()];
    - [branch]: [consensus_branch_id()] as u32;
    - [same]: parsing the re-serialisation gives a transaction with identical fields (rendered
      through accessors and the primitive encoders), identical txid and identical authorising-data
      commitment, and serialising that once more gives identical bytes;
    - [gen_same]: (generated inputs) the parsed transaction equals the generated one in fields,
      txid and authorising-data commitment.
    The same bytes are then parsed again through other [Read] implementations (at most k bytes per
    call; a chain of two slices split at p; at most k bytes per call with trailing garbage), and
    for each of them: the bytes handed out, whether fields + re-serialisation are identical to
    those of the slice parse, and the txid when it differs from that of the slice parse. *)
Inductive txobs := TxOk (consumed : N) (rw : option bytes) (txid : bytes) (branch : N) (same gen_same : bool).
Inductive hdrobs := HdrOk (consumed : N) (rw : option bytes) (hash : bytes) (same : bool).
Inductive altres := AltOk (consumed : N) (ser_same : bool) (id : option bytes) | AltErr | AltPanic.
Definition altobs : Type := N * N * altres. (* reader kind, parameter, result *)

(** origins of an input *)
Definition S_GEN : N := 0.        (* generated well-formed transaction / header *)
Definition S_EDGE : N := 1.       (* generated, forced edge shape *)
Definition S_NONCANON : N := 6.   (* a length prefix of a valid encoding re-encoded non-canonically *)
Definition S_AMOUNT_BAD : N := 7. (* an amount field of a valid encoding overwritten out of range *)
Definition S_V4_VB : N := 12.     (* v4, no Sapling spends/outputs, non-zero valueBalanceSapling *)

Definition generated (src : N) : bool := (src =? S_GEN) || (src =? S_EDGE).
Definition must_reject (src : N) : bool := (src =? S_NONCANON) || (src =? S_AMOUNT_BAD) || (src =? S_V4_VB).

(** little-endian u32 at a byte offset of the raw input *)
Definition u32_at (off : nat) (b : bytes) : N := of_le (firstn 4 (skipn off b)).
(** v1–v4 header: overwintered bit clear, or version number below 5 *)
Definition legacy_hdr (b : bytes) : bool :=
  let h := u32_at 0 b in (h <? 2147483648) || (h - 2147483648 <? V5_TX_VERSION).

Definition alt_agrees (c : N) (a : altobs) : bool :=
  match snd a with AltOk c' ss None => (c' =? c) && ss | _ => false end.
Definition alt_rejects (a : altobs) : bool :=
  match snd a with AltErr => true | _ => false end.

Definition prefix_or (b : bytes) (c : N) (rw : option bytes) : bytes :=
  match rw with None => firstn (N.to_nat c) b | Some w => w end.

(** The property on one transaction observation; [H] is the identifier hash (SHA-256d). *)
Definition tx_prop (H : bytes -> bytes) (src ctx : N) (b : bytes) (o : outcome txobs unit) (alts : list altobs) : bool :=
  match o with
  | Panic => false                                             (* never panics *)
  | Err _ => negb (generated src)                              (* generated => accepted *)
             && forallb alt_rejects alts                       (* every reader rejects as well *)
  | Ok (TxOk c rw txid br same gen_same) =>
      negb (must_reject src)                                   (* non-canonical prefix / bad amount rejected *)
      && (c <=? nlen b)                                        (* never reads past the input *)
      && (negb (generated src) || (c =? nlen b))               (* generated => consumed entirely *)
      && bytes_eqb (prefix_or b c rw) (firstn (N.to_nat c) b)  (* re-serialises to the consumed prefix *)
      && same                                                  (* and that parses back to the same value *)
      && gen_same                                              (* generated => identical fields, txid, auth digest *)
      && (if legacy_hdr b
          then bytes_eqb txid (H (firstn (N.to_nat c) b)) (* v1-v4: txid = SHA-256d of the encoding *)
               && (br =? ctx)                                  (*        branch id is the caller's *)
          else br =? u32_at 8 b)                               (* v5+:   branch id is the encoded one *)
      && forallb (alt_agrees c) alts                           (* same outcome through every reader *)
  end.

Definition hdr_prop (H : bytes -> bytes) (src : N) (b : bytes) (o : outcome hdrobs unit) (alts : list altobs) : bool :=
  match o with
  | Panic => false
  | Err _ => negb (generated src) && forallb alt_rejects alts
  | Ok (HdrOk c rw hash same) =>
      negb (must_reject src) && (c <=? nlen b) && (negb (generated src) || (c =? nlen b))
      && bytes_eqb (prefix_or b c rw) (firstn (N.to_nat c) b) && same
      && bytes_eqb hash (H (firstn (N.to_nat c) b))      (* block hash = SHA-256d of the encoding *)
      && forallb (alt_agrees c) alts
  end.

(** CompactSize, specified through the encoder only: a prefix of the input is accepted iff it is
    the encoding of the number it denotes (and that number is within the bound). *)
Definition cs_candidate (k : nat) (b : bytes) : option N :=
  match take k b with
  | Some (p, _) =>
      let v := match p with [] => 0 | f :: t => match t with [] => f | _ => of_le t end end in
      if bytes_eqb (enc_compact v) p then Some v else None
  | None => None
  end.

Definition cs_first (b : bytes) : option (N * N) :=
  let try k := match cs_candidate k b with Some v => Some (v, N.of_nat k) | None => None end in
  match try 1%nat with Some x => Some x | None =>
  match try 3%nat with Some x => Some x | None =>
  match try 5%nat with Some x => Some x | None => try 9%nat end end end.

Definition cs_spec (bound : option N) (b : bytes) : option (N * N) :=
  match cs_first b, bound with
  | Some (v, k), Some mx => if v <=? mx then Some (v, k) else None
  | r, _ => r
  end.

(** Vector<u8> and Optional<u32le> of zcash_encoding, specified directly on the bytes. *)
Definition vec_spec (b : bytes) : option (bytes * N) :=
  match cs_spec (Some MAX_COMPACT_SIZE) b with
  | Some (len, k) =>
      let rest := skipn (N.to_nat k) b in
      if len <=? nlen rest then Some (firstn (N.to_nat len) rest, k + len) else None
  | None => None
  end.

Definition opt_spec (b : bytes) : option (option N * N) :=
  match b with
  | 0 :: _ => Some (None, 1)
  | 1 :: r => match take 4 r with
              | Some (x, _) => Some (Some (of_le x), 5)
              | None => None
              end
  | _ => None
  end.

(** [read_t::<T>]: the canonical bounded prefix, and the value must fit the target type. *)
Definition readt_spec (bits : N) (b : bytes) : option (N * N) :=
  match cs_spec (Some MAX_COMPACT_SIZE) b with
  | Some (v, k) => if v <? 2 ^ bits then Some (v, k) else None
  | None => None
  end.

(** Counted vector of one-byte elements read from a stream of [T] bytes whose first bytes are
    [s9]: with an acceptable count prefix (n, k bytes long) the reader yields exactly n elements
    and takes k + n bytes, or fails when fewer than n bytes follow; with an unacceptable prefix
    (non-canonical, above MAX_COMPACT_SIZE, truncated) it fails having taken at most the prefix. *)
Definition vecfill_prop (T : N) (s9 : bytes) (o : outcome (N * N) N) : bool :=
  match cs_spec (Some MAX_COMPACT_SIZE) s9, o with
  | Some (n, k), Ok (n', c) => (n <=? T - k) && (n' =? n) && (c =? k + n)
  | Some (n, k), Err c => (T - k <? n) && (c <=? T)
  | None, Err c => (c <=? 9) && (c <=? T)
  | _, _ => false
  end.
Definition arrfill_prop (count T : N) (o : outcome (N * N) N) : bool :=
  match o with
  | Ok (n, c) => (count <=? T) && (n =? count) && (c =? count)
  | Err c => (T <? count) && (c <=? T)
  | Panic => false
  end.
