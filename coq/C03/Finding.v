(** C03-F1 — why [read_v4] must insist on a zero valueBalanceSapling when there are no Sapling
    spends and outputs.  This file models the reader *before* commit 8b0ad7b: the same grammar
    without the [sap4_shape] check, followed by what the Rust code did with the result (the
    Sapling bundle becomes [None] when it has no spends and no outputs, and [write_v4] writes a
    zero balance for [None]).  The witness shows that this reader accepted bytes which its own
    writer did not reproduce. *)
From Coq Require Import List NArith Bool.
From V.Lib Require Import Base Hex.
From V.Gen Require Import C03Tables.
From V.C03 Require Import HexLit Codec Model.
Import ListNotations.
Local Open Scope N_scope.

Section Unrepaired.
  Variable valid : N -> bytes -> bool.

  Definition c_legacy_unrepaired (v : txv) : codec legacy_t :=
    c_pair c_transparent
      (c_pair c_u32le
        (c_pair (c_opt (has_overwinter v) c_u32le)
          (c_dep (c_opt (has_sapling v) (c_sapling4_raw valid))
                 (fun sap =>
                    c_pair (c_opt (has_sprout v) (c_sprout (has_sapling v)))
                           (c_opt (sap4_nonempty sap) (c_fixed 64)))))).

  (** [sapling_bundle: binding_sig.and_then(..)] = None, then [write_v4_components] with [None] *)
  Definition drop_empty (x : legacy_t) : legacy_t :=
    let '(tp, (lock, (exp, (sap, rest)))) := x in
    let sap' := match sap with
                | Some (vb, (ss, os)) => if is_nil ss && is_nil os then Some (0, (ss, os)) else sap
                | None => None
                end in
    (tp, (lock, (exp, (sap', rest)))).

  Definition read_v4_unrepaired (b : bytes) :=
    match dec (c_dep c_version (fun v => c_legacy_unrepaired v)) b with
    | Some ((v, x), r) => Some ((v, drop_empty x), r)
    | None => None
    end.
  Definition write_v4_unrepaired (t : txv * legacy_t) : bytes :=
    enc (c_dep c_version (fun v => c_legacy_unrepaired v)) t.
End Unrepaired.

Definition witness : bytes :=
  hb "0400008085202f89000200912acf997f010000000000000000000001c442b1ba47010000000040075af0750700000000"%hx.

(** The old reader accepts the witness entirely, and writing the result back gives other bytes. *)
Lemma C03_F1_unrepaired_refuted :
  exists t, read_v4_unrepaired novalid witness = Some (t, []) /\
            write_v4_unrepaired novalid t <> witness.
Proof.
  destruct (read_v4_unrepaired novalid witness) as [[t r]|] eqn:E; [|vm_compute in E; discriminate].
  exists t. vm_compute in E. inversion E; subst. split; [reflexivity|].
  vm_compute. intros H. discriminate H.
Qed.

(** The repaired reader (Model.c_tx) rejects it. *)
Lemma C03_F1_repaired_rejects : dec (c_tx novalid) witness = None.
Proof. vm_compute. reflexivity. Qed.
