(** C03 — FIPS 180-4 SHA-256 over primitive 63-bit integers (32-bit words masked after every
    addition / rotation), and SHA-256d.  Not verified against a specification: it is pinned by the
    FIPS test vectors below and, in every run, by the correspondence with the identifiers the
    implementation computes through the [sha2] crate. *)
From Coq Require Import Uint63 List NArith ZArith String.
From V.Lib Require Import Hex.
Import ListNotations.
Local Open Scope uint63_scope.

Definition m32 : int := 4294967295.
Definition add32 (a b : int) : int := (a + b) land m32.
Definition rotr (n : int) (x : int) : int := ((x >> n) lor (x << (32 - n))) land m32.
Definition not32 (x : int) : int := x lxor m32.
Definition ch (x y z : int) := (x land y) lxor (not32 x land z).
Definition maj (x y z : int) := (x land y) lxor (x land z) lxor (y land z).
Definition bsig0 x := rotr 2 x lxor rotr 13 x lxor rotr 22 x.
Definition bsig1 x := rotr 6 x lxor rotr 11 x lxor rotr 25 x.
Definition ssig0 x := rotr 7 x lxor rotr 18 x lxor (x >> 3).
Definition ssig1 x := rotr 17 x lxor rotr 19 x lxor (x >> 10).

Definition K256 : list int :=
  [0x428a2f98; 0x71374491; 0xb5c0fbcf; 0xe9b5dba5; 0x3956c25b; 0x59f111f1; 0x923f82a4; 0xab1c5ed5;
   0xd807aa98; 0x12835b01; 0x243185be; 0x550c7dc3; 0x72be5d74; 0x80deb1fe; 0x9bdc06a7; 0xc19bf174;
   0xe49b69c1; 0xefbe4786; 0x0fc19dc6; 0x240ca1cc; 0x2de92c6f; 0x4a7484aa; 0x5cb0a9dc; 0x76f988da;
   0x983e5152; 0xa831c66d; 0xb00327c8; 0xbf597fc7; 0xc6e00bf3; 0xd5a79147; 0x06ca6351; 0x14292967;
   0x27b70a85; 0x2e1b2138; 0x4d2c6dfc; 0x53380d13; 0x650a7354; 0x766a0abb; 0x81c2c92e; 0x92722c85;
   0xa2bfe8a1; 0xa81a664b; 0xc24b8b70; 0xc76c51a3; 0xd192e819; 0xd6990624; 0xf40e3585; 0x106aa070;
   0x19a4c116; 0x1e376c08; 0x2748774c; 0x34b0bcb5; 0x391c0cb3; 0x4ed8aa4a; 0x5b9cca4f; 0x682e6ff3;
   0x748f82ee; 0x78a5636f; 0x84c87814; 0x8cc70208; 0x90befffa; 0xa4506ceb; 0xbef9a3f7; 0xc67178f2].

Definition H0 : list int :=
  [0x6a09e667; 0xbb67ae85; 0x3c6ef372; 0xa54ff53a; 0x510e527f; 0x9b05688c; 0x1f83d9ab; 0x5be0cd19].

Definition nth0 (n : nat) (l : list int) : int := nth n l 0.

(** one round: working variables (a..h) and the window of the 16 most recent schedule words,
    oldest first *)
Definition round (s : list int * list int) (k : int) : list int * list int :=
  let (v, w) := s in
  match v, w with
  | [a; b; c; d; e; f; g; h], w0 :: wt =>
      let t1 := add32 (add32 (add32 (add32 h (bsig1 e)) (ch e f g)) k) w0 in
      let t2 := add32 (bsig0 a) (maj a b c) in
      let nw := add32 (add32 (add32 (ssig1 (nth0 14 w)) (nth0 9 w)) (ssig0 (nth0 1 w))) w0 in
      ([add32 t1 t2; a; b; c; add32 d t1; e; f; g], (wt ++ [nw])%list)
  | _, _ => s
  end.

Definition compress (st : list int) (block : list int) : list int :=
  let (v, _) := fold_left round K256 (st, block) in
  map (fun p => add32 (fst p) (snd p)) (combine st v).

Definition byte_int (b : N) : int := Uint63.of_Z (Z.of_N b).

(** big-endian 32-bit words of a byte string whose length is a multiple of 4 *)
Fixpoint words (l : bytes) : list int :=
  match l with
  | a :: b :: c :: d :: r =>
      ((byte_int a << 24) lor (byte_int b << 16) lor (byte_int c << 8) lor byte_int d) :: words r
  | _ => []
  end.

Fixpoint blocks (fuel : nat) (st : list int) (ws : list int) : list int :=
  match fuel with
  | O => st
  | S f => match ws with
           | [] => st
           | _ => blocks f (compress st (firstn 16 ws)) (skipn 16 ws)
           end
  end.

Definition be_bytes8 (n : N) : bytes :=
  map (fun i => N.land (N.shiftr n (8 * i)) 255) [7; 6; 5; 4; 3; 2; 1; 0]%N.

Definition pad (m : bytes) : bytes :=
  let len := N.of_nat (List.length m) in
  let z := N.to_nat ((119 - len mod 64) mod 64)%N in
  (m ++ 128%N :: repeat 0%N z ++ be_bytes8 (8 * len))%list.

Definition word_out (w : int) : bytes :=
  map (fun s => Z.to_N (Uint63.to_Z ((w >> s) land 255))) [24; 16; 8; 0].

Definition sha256 (m : bytes) : bytes :=
  let ws := words (pad m) in
  flat_map word_out (blocks (S (List.length ws)) H0 ws).

Definition sha256d (m : bytes) : bytes := sha256 (sha256 m).

(** FIPS 180-4 / NIST test vectors *)
Example sha256_empty :
  sha256 [] = hex "e3b0c44298fc1c149afbf4c8996fb92427ae41e4649b934ca495991b7852b855"%string.
Proof. vm_compute. reflexivity. Qed.
Example sha256_abc :
  sha256 (str "abc"%string) = hex "ba7816bf8f01cfea414140de5dae2223b00361a396177a9cb410ff61f20015ad"%string.
Proof. vm_compute. reflexivity. Qed.
Example sha256_two_blocks :
  sha256 (str "abcdbcdecdefdefgefghfghighijhijkijkljklmklmnlmnomnopnopq"%string)
  = hex "248d6a61d20638b8e5c026930c3e6039a33ce45964ff2167f6ecedd419db06c1"%string.
Proof. vm_compute. reflexivity. Qed.
