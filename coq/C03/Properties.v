(** C03 — property theorems only; each closed by [exact] of a lemma from Proofs.v / Bridge.v. *)
From Coq Require Import List NArith ZArith Bool.
From V.Lib Require Import Base Hex.
From V.Gen Require Import C03Tables.
From V.C03 Require Import HexLit Codec Model Spec Corr Wf Proofs Bridge BridgeEnc Finding.
Import ListNotations.
Local Open Scope N_scope.

(** The transaction codec (any validity oracle for opaque blobs) satisfies both codec laws. *)
Theorem C03_tx_codec_laws : forall valid, codec_ok (c_tx valid).
Proof. exact c_tx_ok. Qed.

(** serialise-then-parse gives back the same transaction and leaves the rest untouched *)
Theorem C03_tx_roundtrip : forall valid t r,
  wf (c_tx valid) t = true -> dec (c_tx valid) (enc (c_tx valid) t ++ r) = Some (t, r).
Proof. exact tx_roundtrip. Qed.

(** canonicity + never reads past what it reports + accepted values are well formed *)
Theorem C03_tx_reencode : forall valid b t r,
  dec (c_tx valid) b = Some (t, r) ->
  b = enc (c_tx valid) t ++ r /\ wf (c_tx valid) t = true /\
  length b = (length (enc (c_tx valid) t) + length r)%nat.
Proof. exact tx_reencode. Qed.

(** whatever is accepted re-serialises to bytes that parse back to the same value *)
Theorem C03_tx_reparse : forall valid b t r,
  dec (c_tx valid) b = Some (t, r) -> dec (c_tx valid) (enc (c_tx valid) t) = Some (t, []).
Proof. exact tx_reparse. Qed.

(** bytes after the consumed prefix never influence the result *)
Theorem C03_tx_trailing_ignored : forall valid b t r x,
  dec (c_tx valid) b = Some (t, r) -> dec (c_tx valid) (b ++ x) = Some (t, r ++ x).
Proof. exact tx_trailing_ignored. Qed.

(** no two byte strings decode to the same transaction (no wire-level malleability) *)
Theorem C03_tx_encoding_unique : forall valid b1 b2 t r,
  dec (c_tx valid) b1 = Some (t, r) -> dec (c_tx valid) b2 = Some (t, r) -> b1 = b2.
Proof. exact tx_encoding_unique. Qed.

(** every amount field of an accepted transaction lies in its money range *)
Theorem C03_amount_fields_in_range : forall valid b t r,
  dec (c_tx valid) b = Some (t, r) ->
  Forall amount_in_range (tx_unsigned_amounts t) /\ Forall balance_in_range (tx_signed_amounts t).
Proof. exact amount_fields_in_range. Qed.

(** conditional fields are present exactly when their bundle is non-empty (so "bundle = None
    iff empty" loses nothing): v5 Sapling, Orchard-shaped bundles, v1-v4 *)
Theorem C03_sapling5_presence : forall valid (s : sapling5_t),
  wf (c_sapling5 valid) s = true ->
  let ss := fst (fst s) in let os := snd (fst s) in
  let vb := fst (snd s) in let anchor := fst (snd (snd s)) in
  let sproofs := fst (snd (snd (snd s))) in let ssigs := fst (snd (snd (snd (snd s)))) in
  let oproofs := fst (snd (snd (snd (snd (snd s))))) in let bsig := snd (snd (snd (snd (snd (snd s))))) in
  (vb = None <-> ss = [] /\ os = []) /\ (anchor = None <-> ss = []) /\
  (bsig = None <-> ss = [] /\ os = []) /\
  length sproofs = length ss /\ length ssigs = length ss /\ length oproofs = length os.
Proof. exact sapling5_presence. Qed.
Theorem C03_orchard_presence : forall valid bv (o : orchard_t),
  wf (c_orchard valid bv) o = true ->
  (snd o = None <-> fst o = []) /\
  (forall r, snd o = Some r -> bv <> None /\ length (fst (snd (snd (snd (snd r))))) = length (fst o)).
Proof. exact orchard_presence. Qed.
Theorem C03_legacy_presence : forall valid v (x : legacy_t),
  wf (c_legacy valid v) x = true ->
  let expiry := fst (snd (snd x)) in let sap := fst (snd (snd (snd x))) in
  let spr := fst (snd (snd (snd (snd x)))) in let bsig := snd (snd (snd (snd (snd x)))) in
  (expiry = None <-> has_overwinter v = false) /\ (sap = None <-> has_sapling v = false) /\
  (spr = None <-> has_sprout v = false) /\
  (bsig = None <-> sap4_nonempty sap = false) /\
  (forall js, spr = Some js -> (snd js = None <-> fst js = [])).
Proof. exact legacy_presence. Qed.

(** the signed range check is exact (accepts precisely -MAX_MONEY..=MAX_MONEY as i64) *)
Theorem C03_balance_check_exact : forall x, x < two64 -> (balance_ok x = true <-> balance_in_range x).
Proof. exact balance_ok_exact. Qed.

(** the model reader has no panic branch *)
Theorem C03_dec_total : forall valid b, tx_read valid b <> Panic.
Proof. exact tx_read_total. Qed.

(** block headers *)
Theorem C03_header_roundtrip : forall h r,
  wf c_header h = true -> dec c_header (enc c_header h ++ r) = Some (h, r).
Proof. exact header_roundtrip. Qed.
Theorem C03_header_reencode : forall b h r,
  dec c_header b = Some (h, r) ->
  b = enc c_header h ++ r /\ wf c_header h = true /\
  length b = (length (enc c_header h) + length r)%nat.
Proof. exact header_reencode. Qed.
Theorem C03_header_fixed_part : forall h,
  wf c_header h = true ->
  exists fixed, length fixed = 140%nat /\
    enc c_header h = fixed ++ enc (c_bytevec MX) (snd (snd (snd (snd (snd (snd (snd h))))))).
Proof. exact header_fixed_part. Qed.
Theorem C03_header_dec_total : forall b, header_read b <> Panic.
Proof. exact header_read_total. Qed.

(** CompactSize: only the canonical encoding of a value at most the bound is accepted *)
Theorem C03_compact_canonical : forall mx b n r,
  dec (c_compact mx) b = Some (n, r) -> b = enc_compact n ++ r /\ n <= mx.
Proof. exact compact_canonical. Qed.
Theorem C03_compact_roundtrip : forall mx n r,
  wf (c_compact mx) n = true -> dec (c_compact mx) (enc_compact n ++ r) = Some (n, r).
Proof. exact (fun mx => rt _ (c_compact_ok mx)). Qed.
Theorem C03_vec_count_bounded : forall A mx (c : codec A), codec_ok c -> min1 c -> forall b l r,
  dec (c_vec mx c) b = Some (l, r) -> nlen l <= mx.
Proof. exact (@vec_count_bounded). Qed.
Theorem C03_optional_laws : forall A (c : codec A), codec_ok c -> codec_ok (c_flagopt c).
Proof. exact (@c_flagopt_ok). Qed.

(** Bridge: for every transaction / block-header case whose origin label the model confirms
    ([wf_case]), agreement of all observed quantities with the model's predictions ([run_case]:
    accept/reject, consumed length, re-serialisation, stored branch id, v1-v4 txid / block hash =
    SHA-256d of the encoding, re-parse and generated-equality flags, and the same outcome through
    every alternative reader) implies the property on the implementation's observation.  [H] is
    the identifier hash: the generated case files evaluate [run_case = run_caseH sha256d] and
    [prop_case = prop_caseH sha256d]. *)
Theorem C03_bridge : forall H c,
  is_tx_or_hdr c = true -> wf_case c = true -> run_caseH H c = true -> prop_caseH H c = true.
Proof. exact bridge. Qed.

(** the same for the CompactSize / Vector<u8> / Optional<u32> cases of the in-tree encoding crate:
    the encoder-only specifications of Spec.v coincide with the codecs *)
Theorem C03_bridge_enc : forall H c,
  is_enc_case c = true -> wf_case c = true -> run_caseH H c = true -> prop_caseH H c = true.
Proof. exact bridge_enc. Qed.
Theorem C03_compact_spec : forall mx b,
  cs_spec (Some mx) b = consumed_view b (dec (c_compact mx) b) /\
  cs_spec None b = consumed_view b (dec c_compact_raw b).
Proof. exact (fun mx b => conj (cs_spec_bounded mx b) (cs_spec_raw b)). Qed.

(** [read_t::<T>] and every counted-vector reader carry the MAX_COMPACT_SIZE bound; the
    arithmetic model used for readers longer than the bound is the vector codec on the whole
    stream [b ++ 0^fill], for every [fill] *)
Theorem C03_read_t_bounded : forall w b n r,
  dec (c_read_t w) b = Some (n, r) ->
  b = enc_compact n ++ r /\ n <= MX /\ n < 2 ^ target_bits w.
Proof.
  exact (fun w b n r D =>
    let C := canon _ (c_refine_ok (c_compact MX) (fun n => n <? 2 ^ target_bits w) (c_compact_ok MX)) _ _ _ D in
    conj (proj1 C) (conj (c_compact_bound MX (enc_compact n ++ r) n r
                            (rt _ (c_compact_ok MX) n r (proj1 (andb_prop _ _ (proj2 C)))))
                         (proj1 (N.ltb_lt _ _) (c_refine_wf _ _ _ (proj2 C))))).
Qed.
Theorem C03_vecfill_model_is_c_vec : forall (b : bytes) fill, is_bytes b = true ->
  match vecfill_model b fill with
  | Ok (n, c) => exists l r, dec (c_vec MX c_u8) (b ++ repeat 0 (N.to_nat fill)) = Some (l, r) /\
                             nlen l = n /\ c + nlen r = nlen b + fill
  | Err _ => dec (c_vec MX c_u8) (b ++ repeat 0 (N.to_nat fill)) = None
  | Panic => False
  end.
Proof. exact vecfill_model_is_c_vec. Qed.

(** ... and the accepted prefix is the unique encoding of a well-formed model transaction
    (canonical, bounded length prefixes) whose amounts are all in range. *)
Theorem C03_tx_bridge_model : forall H src ctx b bad n rw txid br s g alts,
  run_caseH H (Tx src ctx b bad (Ok (TxOk n rw txid br s g)) alts) = true ->
  exists t r, dec (c_tx (table_valid bad)) b = Some (t, r) /\
              firstn (N.to_nat n) b = enc (c_tx (table_valid bad)) t /\
              wf (c_tx (table_valid bad)) t = true /\
              Forall amount_in_range (tx_unsigned_amounts t) /\
              Forall balance_in_range (tx_signed_amounts t).
Proof. exact tx_bridge_model. Qed.
Theorem C03_no_panic_bridge : forall H src ctx b bad alts, run_caseH H (Tx src ctx b bad Panic alts) = false.
Proof. exact no_panic_bridge. Qed.

(** The consensus branch id of a parsed transaction: the caller's for v1-v4 (not on the wire),
    the encoded one (bytes 8..12) for v5 / v6, whatever the caller passed. *)
Theorem C03_branch_context_legacy : forall valid ctx t,
  wf (c_tx valid) t = true -> is_legacy (fst t) = true -> effective_branch ctx t = ctx.
Proof. exact legacy_branch. Qed.
Theorem C03_branch_context_v5 : forall valid ctx t r,
  wf (c_tx valid) t = true -> is_legacy (fst t) = false ->
  u32_at 8 (enc (c_tx valid) t ++ r) = effective_branch ctx t.
Proof. exact encoded_branch. Qed.
(** the version class of an encoding is readable from its first word *)
Theorem C03_legacy_header : forall valid t r,
  wf (c_tx valid) t = true -> legacy_hdr (enc (c_tx valid) t ++ r) = is_legacy (fst t).
Proof. exact legacy_hdr_enc. Qed.

(** C03-F1 (fixed by /repo commit 8b0ad7b): the reader without the zero-balance check accepted a
    v4 encoding that its own writer did not reproduce; the repaired grammar rejects it. *)
Theorem C03_F1_unrepaired_reader_refuted :
  exists t, read_v4_unrepaired novalid witness = Some (t, []) /\
            write_v4_unrepaired novalid t <> witness.
Proof. exact C03_F1_unrepaired_refuted. Qed.
Theorem C03_F1_repaired_reader_rejects : dec (c_tx novalid) witness = None.
Proof. exact C03_F1_repaired_rejects. Qed.

(** Non-vacuity: a concrete v5 transaction (no inputs, no bundles) is well formed, and the model
    accepts its 25-byte encoding. *)
Example C03_nonvacuous :
  let t : tx_t := (V5, inr (inl ((3268858036, (0, 0)), (([], []), ((([], []), (None, (None, ([], ([], ([], None)))))), ([], None)))))) in
  wf (c_tx novalid) t = true /\
  nlen (enc (c_tx novalid) t) = 25 /\
  dec (c_tx novalid) (enc (c_tx novalid) t) = Some (t, []).
Proof. vm_compute. repeat split; reflexivity. Qed.
