(** C11 — correspondence cases for zcash_keys::encoding (every public function, all three
    networks). *)
From V.Lib Require Import Base Hex.
From V.Gen Require Import C11Consts C11Legacy.
From V.C11 Require Import Model Tab Legacy.
Local Open Scope N_scope.

Definition berr_eqb (a b : berr) : bool :=
  match a, b with BechErr, BechErr | BHrpMismatch, BHrpMismatch | BReadError, BReadError => true | _, _ => false end.
Definition terr_eqb (a b : terr) : bool :=
  match a, b with TBase58, TBase58 | TUnsupported, TUnsupported => true | _, _ => false end.
Definition taddr_eqb (a b : taddr) : bool :=
  match a, b with PKH x, PKH y | SH x, SH y => bytes_eqb x y | _, _ => false end.
Definition benc_eqb (a b : bytes * bytes) : bool := bytes_eqb (fst a) (fst b) && bytes_eqb (snd a) (snd b).
Definition lunit_eqb (_ _ : unit) := true.

(** primitive readers: table ids 19 ExtendedSpendingKey::read, 20 ExtendedFullViewingKey::read,
    21 PaymentAddress::from_bytes *)
Definition prim_of (t : otab) (k : lkind) : bytes -> ores :=
  fun d => look_ores t (match k with LSk => 19 | LFvk => 20 | LAddr => 21 end) d 0.

Inductive lcase :=
(* encode_extended_spending_key / encode_extended_full_viewing_key / encode_payment_address *)
| LEnc (k : lkind) (hrp payload : bytes) (o : bytes * bytes)
(* encode_payment_address_p, AddressCodec::encode for PaymentAddress (which = 0 / 1) *)
| LEncP (which : N) (net : N) (payload : bytes) (o : bytes * bytes)
(* decode_* with an explicit HRP; [orig]: the string is the encoding of this key under [hrp_of_string] *)
| LDec (t : otab) (k : lkind) (hrp : bytes) (i : binput) (orig : option bytes) (o : outcome bytes berr)
(* AddressCodec::decode for PaymentAddress *)
| LDecP (t : otab) (net : N) (i : binput) (orig : option bytes) (o : outcome bytes berr)
(* decode_extfvk_with_network; [orig] = (network whose NetworkConstants HRP the key was encoded with, key) *)
| LFvkNet (t : otab) (i : binput) (orig : option (N * bytes)) (o : outcome (N * bytes) berr)
(* encode_transparent_address, encode_transparent_address_p / AddressCodec::encode (which = 0 / 1) *)
| LTEnc (pk sh : bytes) (a : taddr) (o : bytes)
| LTEncP (which : N) (net : N) (a : taddr) (o : bytes)
(* decode_transparent_address; [orig] = (network it was encoded for, address) *)
| LTDec (net : N) (pk sh : bytes) (i : option bytes) (orig : option (N * taddr)) (o : outcome (option taddr) unit)
(* AddressCodec::decode for TransparentAddress *)
| LTDecP (net : N) (i : option bytes) (orig : option (N * taddr)) (o : outcome taddr terr).

Definition lrun (c : lcase) : bool :=
  match c with
  | LEnc k hrp p o => benc_eqb (legacy_encode hrp p) o
  | LEncP _ net p o => benc_eqb (legacy_encode (nc_hrp LAddr net) p) o
  | LDec t k hrp i _ o => outcome_eqb bytes_eqb berr_eqb (legacy_decode k (prim_of t k) hrp i) o
  | LDecP t net i _ o =>
      outcome_eqb bytes_eqb berr_eqb (legacy_decode LAddr (prim_of t LAddr) (nc_hrp LAddr net) i) o
  | LFvkNet t i _ o =>
      outcome_eqb (pair_eqb N.eqb bytes_eqb) berr_eqb (decode_extfvk_with_network (prim_of t LFvk) i) o
  | LTEnc pk sh a o => bytes_eqb (t_encode pk sh a) o
  | LTEncP _ net a o => bytes_eqb (t_encode (nc_pubkey net) (nc_script net) a) o
  | LTDec _ pk sh i _ o => outcome_eqb (option_eqb taddr_eqb) lunit_eqb (t_decode pk sh i) o
  | LTDecP net i _ o => outcome_eqb taddr_eqb terr_eqb (t_codec_decode net i) o
  end.

(** The property on the implementation's outcome:
    decode (encode k) = k under the encoding HRP; the reported network is the encoding network;
    a string carrying another HRP is rejected with BHrpMismatch; a non-Bech32 string with BechErr;
    transparent addresses decode to themselves under the prefixes of their own network family
    and to nothing under the other family's. *)
Definition lprop (c : lcase) : bool :=
  match c with
  | LEnc k hrp p o => benc_eqb (hrp, p) o
  | LEncP _ net p o => benc_eqb (nc_hrp LAddr net, p) o
  | LDec t k hrp i orig o =>
      match i with
      | BNot => outcome_eqb bytes_eqb berr_eqb (Err BechErr) o
      | BStr h d =>
          if negb (bytes_eqb h hrp) then outcome_eqb bytes_eqb berr_eqb (Err BHrpMismatch) o
          else match orig with
               | Some key => outcome_eqb bytes_eqb berr_eqb (Ok key) o
               | None => match o with
                         | Ok key => match reader k (prim_of t k) d with OSome key' => bytes_eqb key key' | _ => false end
                         | Err e => berr_eqb e BReadError
                         | Panic => match reader k (prim_of t k) d with OPanic => true | _ => false end
                         end
               end
      end
  | LDecP t net i orig o =>
      match i with
      | BNot => outcome_eqb bytes_eqb berr_eqb (Err BechErr) o
      | BStr h d =>
          if negb (bytes_eqb h (nc_hrp LAddr net)) then outcome_eqb bytes_eqb berr_eqb (Err BHrpMismatch) o
          else match orig with
               | Some key => outcome_eqb bytes_eqb berr_eqb (Ok key) o
               | None => match o with
                         | Ok key => match reader LAddr (prim_of t LAddr) d with OSome key' => bytes_eqb key key' | _ => false end
                         | Err e => berr_eqb e BReadError
                         | Panic => match reader LAddr (prim_of t LAddr) d with OPanic => true | _ => false end
                         end
               end
      end
  | LFvkNet t i orig o =>
      match i with
      | BNot => outcome_eqb (pair_eqb N.eqb bytes_eqb) berr_eqb (Err BechErr) o
      | BStr h d =>
          match spec_extfvk_network h with
          | None => outcome_eqb (pair_eqb N.eqb bytes_eqb) berr_eqb (Err BHrpMismatch) o
          | Some net =>
              match orig with
              | Some (n0, key) =>
                  (n0 =? net) && outcome_eqb (pair_eqb N.eqb bytes_eqb) berr_eqb (Ok (net, key)) o
              | None => match o with
                        | Ok (n, _) => n =? net
                        | Err e => berr_eqb e BReadError
                        | Panic => match prim_of t LFvk d with OPanic => true | _ => false end
                        end
              end
          end
      end
  | LTEnc pk sh a o => bytes_eqb (match a with PKH h => pk ++ h | SH h => sh ++ h end) o
  | LTEncP _ net a o => bytes_eqb (match a with PKH h => nc_pubkey net ++ h | SH h => nc_script net ++ h end) o
  | LTDec net pk sh i orig o =>
      match i, orig with
      | None, _ => outcome_eqb (option_eqb taddr_eqb) lunit_eqb (Err tt) o
      | Some _, Some (n0, a) =>
          (* encoded for network n0 with that network's prefixes, decoded with those of [net] *)
          if bytes_eqb pk (nc_pubkey net) && bytes_eqb sh (nc_script net) then
            if same_t_family n0 net then outcome_eqb (option_eqb taddr_eqb) lunit_eqb (Ok (Some a)) o
            else outcome_eqb (option_eqb taddr_eqb) lunit_eqb (Ok None) o
          else true
      | Some _, None => match o with Ok _ => true | _ => false end
      end
  | LTDecP net i orig o =>
      match i, orig with
      | None, _ => outcome_eqb taddr_eqb terr_eqb (Err TBase58) o
      | Some _, Some (n0, a) =>
          if same_t_family n0 net then outcome_eqb taddr_eqb terr_eqb (Ok a) o
          else outcome_eqb taddr_eqb terr_eqb (Err TUnsupported) o
      | Some _, None => match o with Panic => false | Err TBase58 => false | _ => true end
      end
  end.

Definition taddr_ok (a : taddr) : bool :=
  match a with PKH h | SH h => is_bytes h && (length h =? 20)%nat end.
Definition binput_ok (i : binput) : bool :=
  match i with BNot => true | BStr h d => is_bytes h && is_bytes d end.
Definition ltab_ok (t : otab) : bool :=
  forallb (fun e => match e with
                    | (f, k, i, r) => (1 <=? f) && (f <=? 21) && is_bytes k
                                      && match r with OSome b => is_bytes b | _ => true end
                    end) t.

Definition ores_is (r : ores) (b : bytes) : bool := match r with OSome x => bytes_eqb x b | _ => false end.

(** what the harness claims with [orig]: the input is the encoding of that value *)
Definition dec_claim (t : otab) (k : lkind) (hrp : bytes) (i : binput) (orig : option bytes) : bool :=
  match orig with
  | None => true
  | Some key => match i with
                | BStr h d => bytes_eqb h hrp && ores_is (reader k (prim_of t k) d) key
                | BNot => false
                end
  end.
Definition fvknet_claim (t : otab) (i : binput) (orig : option (N * bytes)) : bool :=
  match orig with
  | None => true
  | Some (n0, key) => match i with
                      | BStr h d => (n0 <? 3) && bytes_eqb h (nc_hrp LFvk n0) && ores_is (prim_of t LFvk d) key
                      | BNot => false
                      end
  end.
Definition t_claim (i : option bytes) (orig : option (N * taddr)) : bool :=
  match orig with
  | None => true
  | Some (n0, a) => match i with
                    | Some d => (n0 <? 3) && taddr_ok a && bytes_eqb d (t_encode (nc_pubkey n0) (nc_script n0) a)
                    | None => false
                    end
  end.

Definition lwf (c : lcase) : bool :=
  match c with
  | LEnc _ hrp p _ => is_bytes hrp && is_bytes p
  | LEncP w net p _ => (w <? 2) && (net <? 3) && is_bytes p
  | LDec t k hrp i orig _ => ltab_ok t && is_bytes hrp && binput_ok i && dec_claim t k hrp i orig
  | LDecP t net i orig _ => ltab_ok t && (net <? 3) && binput_ok i && dec_claim t LAddr (nc_hrp LAddr net) i orig
  | LFvkNet t i orig _ => ltab_ok t && binput_ok i && fvknet_claim t i orig
  | LTEnc pk sh a _ => is_bytes pk && is_bytes sh && taddr_ok a
  | LTEncP w net a _ => (w <? 2) && (net <? 3) && taddr_ok a
  | LTDec net pk sh i orig _ =>
      (net <? 3) && is_bytes pk && is_bytes sh && match i with Some d => is_bytes d | None => true end
      && t_claim i orig
  | LTDecP net i orig _ =>
      (net <? 3) && match i with Some d => is_bytes d | None => true end && t_claim i orig
  end.

Definition lk_n (k : lkind) : N := match k with LSk => 0 | LFvk => 1 | LAddr => 2 end.
Definition boc {A E} (o : outcome A E) : N := match o with Ok _ => 0 | Err _ => 1 | Panic => 2 end.
Definition berr_n (o : outcome bytes berr) : N :=
  match o with Ok _ => 0 | Err BechErr => 1 | Err BHrpMismatch => 2 | Err BReadError => 3 | Panic => 4 end.

Definition ltag (c : lcase) : N :=
  match c with
  | LEnc k _ _ _ => 4000 + lk_n k
  | LEncP w net _ _ => 4010 + 3 * w + net
  | LDec _ k _ _ orig o => 4100 + 20 * lk_n k + (match orig with Some _ => 0 | None => 10 end) + berr_n o
  | LDecP _ net _ orig o => 4200 + 20 * net + (match orig with Some _ => 0 | None => 10 end) + berr_n o
  | LFvkNet _ _ orig o =>
      4300 + (match orig with Some _ => 0 | None => 10 end)
      + match o with Ok (n, _) => n | Err BechErr => 4 | Err BHrpMismatch => 5 | Err BReadError => 6 | Panic => 7 end
  | LTEnc _ _ a _ => 4400 + match a with PKH _ => 0 | SH _ => 1 end
  | LTEncP w net a _ => 4410 + 3 * w + net
  | LTDec net _ _ _ orig o =>
      4500 + 10 * net + match o with Ok (Some (PKH _)) => 0 | Ok (Some (SH _)) => 1 | Ok None => 2 | Err _ => 3 | Panic => 4 end
  | LTDecP net _ _ o =>
      4600 + 10 * net + match o with Ok _ => 0 | Err TBase58 => 1 | Err TUnsupported => 2 | Panic => 3 end
  end.
