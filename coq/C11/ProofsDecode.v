(** C11 — the decoding direction of the ZIP 316 container: an accepted payload is the raw
    encoding of the items read from it (canonicity), an accepted item list is the canonical item
    list of the key parsed from it, a decoded key always re-encodes, and decoding never panics
    unless a primitive decoder does. For all oracles. *)
From V.Lib Require Import Base Hex.
From V.Gen Require Import C11Consts.
From V.C11 Require Import Model Spec ProofsAddr ProofsCodec.
From Coq Require Import ZifyBool.
Local Open Scope N_scope.

(* ------------------------------------------------------------------------------------------ *)
(** * bytes *)

Lemma is_bytes_app a b : is_bytes (a ++ b) = is_bytes a && is_bytes b.
Proof. unfold is_bytes. apply forallb_app. Qed.

Lemma is_bytes_firstn n b : is_bytes b = true -> is_bytes (firstn n b) = true.
Proof. intros H. rewrite <- (firstn_skipn n b), is_bytes_app in H. apply andb_true_iff in H. tauto. Qed.
Lemma is_bytes_skipn n b : is_bytes b = true -> is_bytes (skipn n b) = true.
Proof. intros H. rewrite <- (firstn_skipn n b), is_bytes_app in H. apply andb_true_iff in H. tauto. Qed.

Lemma take_split n b x r : take n b = Some (x, r) -> b = x ++ r /\ length x = n.
Proof.
  unfold take. destruct (length b <? n)%nat eqn:E; [discriminate|]. apply Nat.ltb_ge in E.
  intros H. injection H as <- <-. split; [symmetry; apply firstn_skipn | apply firstn_length_le; exact E].
Qed.

Lemma le_bytes_of_le : forall x, is_bytes x = true -> le_bytes (length x) (of_le x) = x.
Proof.
  induction x as [|b x IH]; intros H; [reflexivity|].
  cbn in H. apply andb_true_iff in H. destruct H as [Hb Hx]. unfold is_byte in Hb.
  cbn [length le_bytes of_le].
  assert (M : (b + 256 * of_le x) mod 256 = b)
    by (rewrite (N.mul_comm 256), N.mod_add by lia; apply N.mod_small; lia).
  assert (D : (b + 256 * of_le x) / 256 = of_le x)
    by (rewrite (N.mul_comm 256), N.div_add by lia; rewrite N.div_small by lia; lia).
  rewrite M, D.
  rewrite IH by exact Hx. reflexivity.
Qed.

Lemma of_le_bound : forall x, is_bytes x = true -> of_le x < 256 ^ N.of_nat (length x).
Proof.
  induction x as [|b x IH]; intros H; [cbn; lia|].
  cbn in H. apply andb_true_iff in H. destruct H as [Hb Hx]. unfold is_byte in Hb.
  specialize (IH Hx). cbn [length of_le]. rewrite Nat2N.inj_succ, N.pow_succ_r'. lia.
Qed.

(** CompactSize reading is canonical: what was read is what [cs_write] writes *)
Theorem cs_read_canonical b v r :
  is_bytes b = true -> cs_read b = Some (v, r) -> b = cs_write v ++ r /\ is_bytes r = true.
Proof.
  destruct b as [|f b]; [discriminate|]. intros HB. cbn in HB. apply andb_true_iff in HB.
  destruct HB as [Hf Hb]. unfold is_byte in Hf. cbn [cs_read]. unfold cs_write.
  destruct (f <? 253) eqn:A.
  - destruct (MAX_COMPACT_SIZE <? f); [discriminate|]. intros H; inversion H; subst.
    rewrite A. split; [reflexivity | exact Hb].
  - destruct (f =? 253) eqn:B.
    + destruct (take 2 b) as [[x rest]|] eqn:T; [|discriminate].
      apply take_split in T. destruct T as [-> Lx]. rewrite is_bytes_app in Hb.
      apply andb_true_iff in Hb. destruct Hb as [Hx Hr].
      destruct (of_le x <? 253) eqn:C; [discriminate|].
      destruct (MAX_COMPACT_SIZE <? of_le x); [discriminate|]. intros H; inversion H; subst.
      rewrite C. pose proof (of_le_bound x Hx) as Bd. rewrite Lx in Bd. change (256 ^ N.of_nat 2) with 65536 in Bd.
      destruct (of_le x <=? 65535) eqn:D; [|lia].
      rewrite <- Lx at 1. rewrite le_bytes_of_le by exact Hx.
      assert (f = 253) as -> by lia. split; [reflexivity | exact Hr].
    + destruct (f =? 254) eqn:B2.
      * destruct (take 4 b) as [[x rest]|] eqn:T; [|discriminate].
        apply take_split in T. destruct T as [-> Lx]. rewrite is_bytes_app in Hb.
        apply andb_true_iff in Hb. destruct Hb as [Hx Hr].
        destruct (of_le x <? 65536) eqn:C; [discriminate|].
        destruct (MAX_COMPACT_SIZE <? of_le x) eqn:M; [discriminate|]. intros H; inversion H; subst.
        rewrite max_cs_val in M.
        destruct (of_le x <? 253) eqn:C1; [lia|]. destruct (of_le x <=? 65535) eqn:C2; [lia|].
        destruct (of_le x <=? 4294967295) eqn:C3; [|lia].
        rewrite <- Lx at 1. rewrite le_bytes_of_le by exact Hx.
        assert (f = 254) as -> by lia. split; [reflexivity | exact Hr].
      * destruct (take 8 b) as [[x rest]|] eqn:T; [|discriminate].
        destruct (of_le x <? 4294967296) eqn:C; [discriminate|].
        destruct (MAX_COMPACT_SIZE <? of_le x) eqn:M; [discriminate|]. rewrite max_cs_val in M. lia.
Qed.

(* ------------------------------------------------------------------------------------------ *)
(** * items *)

Definition tc_valid (c : N) : Prop := c = 0 \/ c = 2 \/ c = 3 \/ (4 <= c <= MAX_TYPECODE).

Lemma item_try_from_ok kd c d it :
  item_try_from kd c d = Ok it -> it = (c, d) /\ tc_valid c.
Proof.
  unfold item_try_from, tc_of_u32, tc_valid.
  destruct (c =? 0) eqn:E0.
  { destruct (item_len kd TcP2pkh); [|discriminate]. destruct (blen d =? n); [|discriminate].
    intros H; inversion H; split; [reflexivity | lia]. }
  destruct (c =? 1) eqn:E1; [discriminate|].
  destruct (c =? 2) eqn:E2.
  { destruct (item_len kd TcSapling); [|discriminate]. destruct (blen d =? n); [|discriminate].
    intros H; inversion H; split; [reflexivity | lia]. }
  destruct (c =? 3) eqn:E3.
  { destruct (item_len kd TcOrchard); [|discriminate]. destruct (blen d =? n); [|discriminate].
    intros H; inversion H; split; [reflexivity | lia]. }
  destruct (c <=? MAX_TYPECODE) eqn:E4; [|discriminate].
  intros H; inversion H; split; [reflexivity | lia].
Qed.

Lemma item_try_from_never_panics kd c d : item_try_from kd c d <> Panic.
Proof.
  unfold item_try_from. destruct (tc_of_u32 c) as [[]|]; try discriminate;
    destruct (item_len kd _); try discriminate; destruct (blen d =? _); discriminate.
Qed.

(** what was read re-encodes to the buffer *)
Theorem read_items_sound kd : forall fuel buf l,
  is_bytes buf = true -> read_items kd fuel buf = Ok l ->
  items_raw l = buf /\ Forall (fun it => tc_valid (fst it)) l.
Proof.
  induction fuel as [|fuel IH]; intros buf l HB H.
  - destruct buf; [inversion H; split; [reflexivity | constructor] | discriminate].
  - destruct buf as [|b0 buf0] eqn:EB; [inversion H; split; [reflexivity | constructor]|].
    rewrite <- EB in *. cbn [read_items] in H. rewrite EB in H at 1.
    destruct (cs_read buf) as [[c b1]|] eqn:R1; [|discriminate].
    destruct (cs_read_canonical _ _ _ HB R1) as [E1 HB1].
    destruct (cs_read b1) as [[len b2]|] eqn:R2; [|discriminate].
    destruct (cs_read_canonical _ _ _ HB1 R2) as [E2 HB2].
    destruct (take (N.to_nat len) b2) as [[data rest]|] eqn:T; [|discriminate].
    apply take_split in T. destruct T as [E3 Ld].
    assert (HR : is_bytes rest = true)
      by (rewrite E3, is_bytes_app in HB2; apply andb_true_iff in HB2; tauto).
    destruct (item_try_from kd c data) as [it| |] eqn:I; try discriminate.
    destruct (read_items kd fuel rest) as [tl| |] eqn:RR; try discriminate.
    inversion H; subst l. destruct (IH rest tl HR RR) as [A B].
    apply item_try_from_ok in I. destruct I as [-> V]. split.
    + unfold items_raw. cbn [flat_map]. fold (items_raw tl). rewrite A.
      unfold item_raw. cbn [fst snd]. rewrite E1, E2, E3. unfold blen. rewrite Ld, N2Nat.id.
      repeat rewrite <- app_assoc. reflexivity.
    + constructor; [exact V | exact B].
Qed.

Lemma read_items_never_panics kd : forall fuel buf, read_items kd fuel buf <> Panic.
Proof.
  induction fuel as [|fuel IH]; intros buf; destruct buf as [|b0 buf0]; cbn [read_items]; try discriminate.
  destruct (cs_read (b0 :: buf0)) as [[c b1]|]; [|discriminate].
  destruct (cs_read b1) as [[len b2]|]; [|discriminate].
  destruct (take (N.to_nat len) b2) as [[data rest]|]; [|discriminate].
  pose proof (item_try_from_never_panics kd c data).
  destruct (item_try_from kd c data); try discriminate; [|congruence].
  specialize (IH rest). destruct (read_items kd fuel rest); try discriminate. congruence.
Qed.

(** strictly ascending typecodes *)
Fixpoint asc (prev : option N) (l : list item) : Prop :=
  match l with
  | [] => True
  | (c, _) :: r => match prev with Some p => p < c | None => True end /\ asc (Some c) r
  end.

Lemma tfi_loop_sound : forall l prev b b',
  tfi_loop l prev b = Ok b' ->
  asc prev l /\ b' = b && forallb (fun it => match tc_of_u32 (fst it) with Some c => tc_is_transparent c | None => false end) l.
Proof.
  induction l as [|[c d] l IH]; intros prev b b' H; cbn [tfi_loop] in H.
  - inversion H. split; [exact I | rewrite andb_true_r; reflexivity].
  - destruct (match prev with Some p => c <? p | None => false end) eqn:E1; [discriminate|].
    destruct (match prev with Some p => c =? p | None => false end) eqn:E2; [discriminate|].
    destruct ((c =? 1) && match prev with Some 0 => true | _ => false end); [discriminate|].
    apply IH in H. destruct H as [A B]. split.
    + cbn [asc]. split; [destruct prev; [lia | exact I] | exact A].
    + rewrite B. cbn [forallb fst]. rewrite andb_assoc. reflexivity.
Qed.

Lemma tfi_loop_never_panics : forall l prev b, tfi_loop l prev b <> Panic.
Proof.
  induction l as [|[c d] l IH]; intros prev b; cbn [tfi_loop]; [discriminate|].
  repeat match goal with |- context [if ?x then _ else _] => destruct x end; try discriminate. apply IH.
Qed.

(* ------------------------------------------------------------------------------------------ *)
(** * from an accepted item list to the key *)

Definition rel (dec : bytes -> ores) (raw dec' : option bytes) : Prop :=
  match raw, dec' with
  | Some d, Some k => dec d = OSome k
  | None, None => True
  | _, _ => False
  end.

Lemma canon_items_bound t s o u c :
  Forall (fun it => fst it < c) (canon_items t s o u) ->
  (c <= 0 -> t = None) /\ (c <= 2 -> s = None) /\ (c <= 3 -> o = None)
  /\ Forall (fun it => fst it < c) u.
Proof.
  unfold canon_items. intros F. rewrite !Forall_app in F. destruct F as (Ft & Fs & Fo & Fu).
  repeat split; try exact Fu; intros L.
  - destruct t; [inversion Ft as [|? ? X]; cbn in X; lia | reflexivity].
  - destruct s; [inversion Fs as [|? ? X]; cbn in X; lia | reflexivity].
  - destruct o; [inversion Fo as [|? ? X]; cbn in X; lia | reflexivity].
Qed.

Lemma head_bound prev l c : asc prev ((c, [] : bytes) :: l) -> True.
Proof. auto. Qed.

Section Loop.
Variables dt ds do_ : bytes -> ores.

Lemma parse_loop_inv : forall l t s o unk t0 s0 o0 t' s' o' u' prev,
  rel dt t0 t -> rel ds s0 s -> rel do_ o0 o ->
  Forall (fun it => 4 <= fst it <= MAX_TYPECODE) unk ->
  asc prev l -> Forall (fun it => tc_valid (fst it)) l ->
  Forall (fun it => match prev with Some p => fst it <= p | None => False end) (canon_items t0 s0 o0 (rev unk)) ->
  parse_loop dt ds do_ l t s o unk = Ok (t', s', o', u') ->
  exists t1 s1 o1,
    rel dt t1 t' /\ rel ds s1 s' /\ rel do_ o1 o'
    /\ canon_items t1 s1 o1 u' = canon_items t0 s0 o0 (rev unk) ++ l
    /\ Forall (fun it => 4 <= fst it <= MAX_TYPECODE) u'.
Proof.
  induction l as [|[c d] l IH]; intros t s o unk t0 s0 o0 t' s' o' u' prev Rt Rs Ro Fu A V P H.
  - cbn [parse_loop] in H. inversion H; subst. exists t0, s0, o0. rewrite app_nil_r.
    repeat split; try assumption. apply Forall_rev. exact Fu.
  - cbn [asc] in A. destruct A as [A1 A2]. inversion V as [|? ? Vc Vl]; subst. cbn [fst] in Vc.
    assert (PB : Forall (fun it => fst it < c) (canon_items t0 s0 o0 (rev unk))).
    { eapply Forall_impl; [|exact P]. intros it. cbn beta. destruct prev as [p|]; [lia | tauto]. }
    destruct (canon_items_bound _ _ _ _ _ PB) as (B0 & B2 & B3 & BU).
    cbn [parse_loop] in H.
    destruct Vc as [-> | [-> | [-> | Vc]]].
    + (* transparent item *)
      change (tc_of_u32 0) with (Some TcP2pkh) in H. cbv iota in H.
      destruct (dt d) as [k| |] eqn:D; try discriminate.
      rewrite (B0 ltac:(lia)), (B2 ltac:(lia)), (B3 ltac:(lia)) in *.
      assert (RU : rev unk = []).
      { pose proof (Forall_rev Fu) as FR. destruct (rev unk) as [|x r]; [reflexivity|].
        inversion BU as [|? ? X]; inversion FR as [|? ? Y]; lia. }
      assert (unk = []) as -> by (rewrite <- (rev_involutive unk), RU; reflexivity).
      assert (P' : Forall (fun it : item => match Some 0 with Some p => fst it <= p | None => False end)
                     (canon_items (Some d) None None (rev []))).
      { cbn. constructor; [cbn; lia | constructor]. }
      destruct (IH (Some k) s o [] (Some d) None None t' s' o' u' (Some 0) D Rs Ro Fu A2 Vl P' H)
        as (t1 & s1 & o1 & R1 & R2 & R3 & E & F).
      exists t1, s1, o1. repeat split; try assumption.
    + change (tc_of_u32 2) with (Some TcSapling) in H. cbv iota in H.
      destruct (ds d) as [k| |] eqn:D; try discriminate.
      rewrite (B2 ltac:(lia)), (B3 ltac:(lia)) in *.
      assert (RU : rev unk = []).
      { pose proof (Forall_rev Fu) as FR. destruct (rev unk) as [|x r]; [reflexivity|].
        inversion BU as [|? ? X]; inversion FR as [|? ? Y]; lia. }
      assert (unk = []) as -> by (rewrite <- (rev_involutive unk), RU; reflexivity).
      assert (P' : Forall (fun it : item => match Some 2 with Some p => fst it <= p | None => False end)
                     (canon_items t0 (Some d) None (rev []))).
      { unfold canon_items in *. cbn [rev oapp option_map app] in *. rewrite !app_nil_r in *.
        apply Forall_app. split; [|constructor; [cbn; lia | constructor]].
        eapply Forall_impl; [|exact PB]. cbn beta. intros; lia. }
      destruct (IH t (Some k) o [] t0 (Some d) None t' s' o' u' (Some 2) Rt D Ro Fu A2 Vl P' H)
        as (t1 & s1 & o1 & R1 & R2 & R3 & E & F).
      exists t1, s1, o1. repeat split; try assumption. rewrite E.
      unfold canon_items. cbn [rev oapp option_map app]. rewrite !app_nil_r, <- !app_assoc. reflexivity.
    + change (tc_of_u32 3) with (Some TcOrchard) in H. cbv iota in H.
      destruct (do_ d) as [k| |] eqn:D; try discriminate.
      rewrite (B3 ltac:(lia)) in *.
      assert (RU : rev unk = []).
      { pose proof (Forall_rev Fu) as FR. destruct (rev unk) as [|x r]; [reflexivity|].
        inversion BU as [|? ? X]; inversion FR as [|? ? Y]; lia. }
      assert (unk = []) as -> by (rewrite <- (rev_involutive unk), RU; reflexivity).
      assert (P' : Forall (fun it : item => match Some 3 with Some p => fst it <= p | None => False end)
                     (canon_items t0 s0 (Some d) (rev []))).
      { unfold canon_items in *. cbn [rev oapp option_map app] in *. rewrite !app_nil_r in *.
        rewrite app_assoc. apply Forall_app. split; [|constructor; [cbn; lia | constructor]].
        eapply Forall_impl; [|exact PB]. cbn beta. intros; lia. }
      destruct (IH t s (Some k) [] t0 s0 (Some d) t' s' o' u' (Some 3) Rt Rs D Fu A2 Vl P' H)
        as (t1 & s1 & o1 & R1 & R2 & R3 & E & F).
      exists t1, s1, o1. repeat split; try assumption. rewrite E.
      unfold canon_items. cbn [rev oapp option_map app]. rewrite !app_nil_r, <- !app_assoc. reflexivity.
    + rewrite tc_of_u32_unknown in H by lia.
      assert (Fu' : Forall (fun it : item => 4 <= fst it <= MAX_TYPECODE) ((c, d) :: unk))
        by (constructor; [cbn; lia | exact Fu]).
      assert (P' : Forall (fun it : item => match Some c with Some p => fst it <= p | None => False end)
                     (canon_items t0 s0 o0 (rev ((c, d) :: unk)))).
      { cbn [rev]. unfold canon_items in *. rewrite !app_assoc in *. apply Forall_app.
        split; [|constructor; [cbn; lia | constructor]].
        eapply Forall_impl; [|exact PB]. cbn beta. intros; lia. }
      destruct (IH t s o ((c, d) :: unk) t0 s0 o0 t' s' o' u' (Some c) Rt Rs Ro Fu' A2 Vl P' H)
        as (t1 & s1 & o1 & R1 & R2 & R3 & E & F).
      exists t1, s1, o1. repeat split; try assumption. rewrite E. cbn [rev].
      unfold canon_items. rewrite <- !app_assoc. reflexivity.
Qed.

Lemma parse_loop_never_panics : forall l t s o unk,
  (forall x, dt x <> OPanic) -> (forall x, ds x <> OPanic) -> (forall x, do_ x <> OPanic) ->
  parse_loop dt ds do_ l t s o unk <> Panic.
Proof.
  induction l as [|[c d] l IH]; intros t s o unk Ht Hs Ho; cbn [parse_loop]; [discriminate|].
  destruct (tc_of_u32 c) as [[]|]; try (apply IH; assumption).
  - pose proof (Ht d) as Hd. destruct (dt d); [apply IH; assumption | discriminate | congruence].
  - pose proof (Hs d) as Hd. destruct (ds d); [apply IH; assumption | discriminate | congruence].
  - pose proof (Ho d) as Hd. destruct (do_ d); [apply IH; assumption | discriminate | congruence].
Qed.

End Loop.

(* ------------------------------------------------------------------------------------------ *)
(** * accepted payloads *)

Lemma asc_suffix : forall a b prev, asc prev (a ++ b) -> exists p, asc p b.
Proof.
  induction a as [|[c d] a IH]; intros b prev H; [exists prev; exact H|].
  cbn [app asc] in H. destruct H as [_ H]. eapply IH; exact H.
Qed.

Lemma asc_strict : forall u p q,
  asc p u -> Forall (fun it : item => 4 <= fst it <= MAX_TYPECODE) u ->
  match u with [] => True | x :: _ => q < fst x end -> strictly_ascending q u.
Proof.
  induction u as [|[c d] u IH]; intros p q A F Hq; [exact I|].
  cbn [asc] in A. destruct A as [_ A]. inversion F as [|? ? Fc Fu]; subst. cbn [fst] in *.
  cbn [strictly_ascending]. split; [exact Hq|]. split; [lia|].
  apply (IH (Some c)); [exact A | exact Fu|]. destruct u as [|[c' d'] u]; [exact I|].
  cbn [asc] in A. cbn. tauto.
Qed.

Lemma rel_none dec x : rel dec x None -> x = None.
Proof. destruct x; [contradiction | reflexivity]. Qed.

Lemma accepted_items_key dt ds do_ l t s o u :
  asc None l -> Forall (fun it => tc_valid (fst it)) l -> tfi_loop l None true = Ok false ->
  parse_loop dt ds do_ l None None None [] = Ok (t, s, o, u) ->
  unknown_ok u /\ has_non_transparent s o u = true
  /\ exists t1 s1 o1, rel dt t1 t /\ rel ds s1 s /\ rel do_ o1 o /\ canon_items t1 s1 o1 u = l.
Proof.
  intros A V T H.
  destruct (parse_loop_inv dt ds do_ l None None None [] None None None t s o u None
              I I I (Forall_nil _) A V (Forall_nil _) H) as (t1 & s1 & o1 & R1 & R2 & R3 & E & F).
  cbn [canon_items rev oapp option_map app] in E.
  split; [|split].
  - unfold unknown_ok. rewrite <- E in A. unfold canon_items in A. rewrite !app_assoc in A.
    apply asc_suffix in A. destruct A as [p A]. apply (asc_strict u p 3 A F).
    destruct u as [|x u]; [exact I|]. inversion F; lia.
  - apply tfi_loop_sound in T. destruct T as [_ T]. cbn [andb] in T.
    destruct (has_non_transparent s o u) eqn:N; [reflexivity|]. exfalso.
    unfold has_non_transparent in N. apply orb_false_iff in N. destruct N as [N Nu].
    apply orb_false_iff in N. destruct N as [Ns No].
    destruct s; [discriminate|]. destruct o; [discriminate|]. destruct u; [|discriminate].
    apply rel_none in R2, R3. subst s1 o1. rewrite <- E in T.
    destruct t1; cbn in T; discriminate.
  - exists t1, s1, o1. auto.
Qed.

Lemma bytes_eqb_true a b : bytes_eqb a b = true -> a = b.
Proof.
  revert b. induction a as [|x a IH]; intros [|y b] H; try discriminate; [reflexivity|].
  cbn in H. apply andb_true_iff in H. destruct H as [H1 H2]. apply N.eqb_eq in H1.
  rewrite (IH b H2), H1. reflexivity.
Qed.

Lemma hrp_network_sound kd hrp net : hrp_network kd hrp = Some net -> hrp = hrp_of kd net /\ net < 3.
Proof.
  unfold hrp_network.
  destruct (bytes_eqb hrp (hrp_of kd 0)) eqn:E0; [intros H; inversion H; subst; split; [apply bytes_eqb_true; exact E0 | lia]|].
  destruct (bytes_eqb hrp (hrp_of kd 1)) eqn:E1; [intros H; inversion H; subst; split; [apply bytes_eqb_true; exact E1 | lia]|].
  destruct (bytes_eqb hrp (hrp_of kd 2)) eqn:E2; [intros H; inversion H; subst; split; [apply bytes_eqb_true; exact E2 | lia]|].
  discriminate.
Qed.

Lemma parse_internal_sound kd hrp raw l :
  is_bytes raw = true -> parse_internal kd hrp raw = Ok l ->
  raw = container_raw hrp l /\ asc None l /\ Forall (fun it => tc_valid (fst it)) l
  /\ tfi_loop l None true = Ok false.
Proof.
  intros HB. unfold parse_internal, parse_items.
  destruct (length raw <? 16)%nat eqn:L; [discriminate|].
  destruct (bytes_eqb (skipn (length raw - 16) raw) (padding hrp)) eqn:P; [|discriminate].
  apply bytes_eqb_true in P.
  destruct (read_items kd (length raw - 16) (firstn (length raw - 16) raw)) as [l0| |] eqn:R; try discriminate.
  unfold try_from_items_internal. destruct (tfi_loop l0 None true) as [[|]| |] eqn:T; try discriminate.
  intros H; inversion H; subst l0.
  destruct (read_items_sound kd _ _ _ (is_bytes_firstn _ _ HB) R) as [E V].
  split; [|split; [|split]].
  - unfold container_raw. rewrite E, <- P. symmetry. apply firstn_skipn.
  - apply tfi_loop_sound in T. tauto.
  - exact V.
  - exact T.
Qed.

Lemma parse_internal_never_panics kd hrp raw : (16 <= length raw)%nat -> parse_internal kd hrp raw <> Panic.
Proof.
  intros L. unfold parse_internal, parse_items.
  destruct (length raw <? 16)%nat eqn:E; [apply Nat.ltb_lt in E; lia|].
  destruct (bytes_eqb _ _); [|discriminate].
  pose proof (read_items_never_panics kd (length raw - 16) (firstn (length raw - 16) raw)) as RP.
  destruct (read_items kd _ _) as [l| |]; try discriminate; [|congruence].
  unfold try_from_items_internal. pose proof (tfi_loop_never_panics l None true).
  destruct (tfi_loop l None true) as [[|]| |]; try discriminate. congruence.
Qed.

Definition dinput_ok (i : dinput) : Prop :=
  match i with
  | NotBech32 => True
  | Bech _ (Some raw) => is_bytes raw = true /\ (16 <= length raw)%nat
  | Bech _ None => True
  end.

Section Top.
Variable O : oracles.

(** component-wise: the decoder's answer for the bytes it was given is those bytes *)
Definition canon_on (dec : bytes -> ores) (comp : option bytes) : Prop :=
  forall d kk, dec d = OSome kk -> comp = Some kk -> kk = d.

Lemma rel_canon dec x y : rel dec x y -> canon_on dec y -> x = y.
Proof.
  unfold rel, canon_on. destruct x as [d|], y as [k|]; try contradiction; [|reflexivity].
  intros R C. rewrite (C d k R eq_refl). reflexivity.
Qed.

Theorem ufvk_decode_sound net hrp raw k :
  is_bytes raw = true -> ufvk_decode O net (Bech hrp (Some raw)) = Ok k ->
  net < 3 /\ hrp = hrp_of KFvk net /\ unknown_ok (fvk_unknown k) /\ ufvk_encodable k = true
  /\ exists t1 s1 o1, rel (dec_t_fvk O) t1 (fvk_t k) /\ rel (dec_s_fvk O) s1 (fvk_s k)
       /\ rel (dec_o_fvk O) o1 (fvk_o k) /\ raw = container_raw hrp (canon_items t1 s1 o1 (fvk_unknown k)).
Proof.
  intros HB. unfold ufvk_decode, container_decode.
  destruct (hrp_network KFvk hrp) as [n|] eqn:HN; [|discriminate].
  destruct (parse_internal KFvk hrp raw) as [l| |] eqn:PI; try discriminate.
  destruct (negb (n =? net)) eqn:NE; [discriminate|]. apply negb_false_iff, N.eqb_eq in NE. subst n.
  destruct (hrp_network_sound _ _ _ HN) as [Eh Ln].
  destruct (parse_internal_sound _ _ _ _ HB PI) as (ER & A & V & T).
  unfold ufvk_parse.
  destruct (parse_loop (dec_t_fvk O) (dec_s_fvk O) (dec_o_fvk O) l None None None []) as [[[[t s] o] u]| |] eqn:PL; try discriminate.
  destruct (ufvk_from_checked_parts O t s o u) as [k0| |] eqn:FC; try discriminate.
  intros H; inversion H; subst k0.
  apply ufvk_from_checked_parts_derivable in FC. destruct FC as [_ ->]. cbn [fvk_t fvk_s fvk_o fvk_unknown].
  destruct (accepted_items_key _ _ _ _ _ _ _ _ A V T PL) as (U & N & t1 & s1 & o1 & R1 & R2 & R3 & E).
  split; [exact Ln|]. split; [exact Eh|]. split; [exact U|]. split; [exact N|].
  exists t1, s1, o1. rewrite E. auto.
Qed.

(** a decoded key always re-encodes (no panic in [encode]) *)
Theorem ufvk_decode_reencodes net hrp raw k :
  is_bytes raw = true -> ufvk_decode O net (Bech hrp (Some raw)) = Ok k ->
  exists e, ufvk_encode net k = Ok e.
Proof.
  intros HB H. destruct (ufvk_decode_sound _ _ _ _ HB H) as (_ & _ & U & N & _).
  unfold ufvk_encode. rewrite ufvk_container by exact U. rewrite N. eauto.
Qed.

(** accepted strings are canonical: re-encoding the decoded key gives the same payload *)
Theorem ufvk_decode_canonical net hrp raw k :
  is_bytes raw = true -> ufvk_decode O net (Bech hrp (Some raw)) = Ok k ->
  canon_on (dec_t_fvk O) (fvk_t k) -> canon_on (dec_s_fvk O) (fvk_s k) -> canon_on (dec_o_fvk O) (fvk_o k) ->
  ufvk_encode net k = Ok (hrp, raw).
Proof.
  intros HB H Ct Cs Co.
  destruct (ufvk_decode_sound _ _ _ _ HB H) as (_ & Eh & U & N & t1 & s1 & o1 & R1 & R2 & R3 & ER).
  apply rel_canon in R1, R2, R3; try assumption. subst t1 s1 o1.
  unfold ufvk_encode. rewrite ufvk_container by exact U. rewrite N. rewrite <- Eh, <- ER. reflexivity.
Qed.

Theorem uivk_decode_sound net hrp raw k :
  is_bytes raw = true -> uivk_decode O net (Bech hrp (Some raw)) = Ok k ->
  net < 3 /\ hrp = hrp_of KIvk net /\ unknown_ok (ivk_unknown k) /\ uivk_encodable k = true
  /\ exists t1 s1 o1, rel (dec_t_ivk O) t1 (ivk_t k) /\ rel (dec_s_ivk O) s1 (ivk_s k)
       /\ rel (dec_o_ivk O) o1 (ivk_o k) /\ raw = container_raw hrp (canon_items t1 s1 o1 (ivk_unknown k)).
Proof.
  intros HB. unfold uivk_decode, container_decode.
  destruct (hrp_network KIvk hrp) as [n|] eqn:HN; [|discriminate].
  destruct (parse_internal KIvk hrp raw) as [l| |] eqn:PI; try discriminate.
  destruct (negb (n =? net)) eqn:NE; [discriminate|]. apply negb_false_iff, N.eqb_eq in NE. subst n.
  destruct (hrp_network_sound _ _ _ HN) as [Eh Ln].
  destruct (parse_internal_sound _ _ _ _ HB PI) as (ER & A & V & T).
  unfold uivk_parse.
  destruct (parse_loop (dec_t_ivk O) (dec_s_ivk O) (dec_o_ivk O) l None None None []) as [[[[t s] o] u]| |] eqn:PL; try discriminate.
  intros H; inversion H; subst k. cbn [ivk_t ivk_s ivk_o ivk_unknown].
  destruct (accepted_items_key _ _ _ _ _ _ _ _ A V T PL) as (U & N & t1 & s1 & o1 & R1 & R2 & R3 & E).
  split; [exact Ln|]. split; [exact Eh|]. split; [exact U|]. split; [exact N|].
  exists t1, s1, o1. rewrite E. auto.
Qed.

Theorem uivk_decode_reencodes net hrp raw k :
  is_bytes raw = true -> uivk_decode O net (Bech hrp (Some raw)) = Ok k ->
  exists e, uivk_encode net k = Ok e.
Proof.
  intros HB H. destruct (uivk_decode_sound _ _ _ _ HB H) as (_ & _ & U & N & _).
  unfold uivk_encode. rewrite uivk_container by exact U. rewrite N. eauto.
Qed.

Theorem uivk_decode_canonical net hrp raw k :
  is_bytes raw = true -> uivk_decode O net (Bech hrp (Some raw)) = Ok k ->
  canon_on (dec_t_ivk O) (ivk_t k) -> canon_on (dec_s_ivk O) (ivk_s k) -> canon_on (dec_o_ivk O) (ivk_o k) ->
  uivk_encode net k = Ok (hrp, raw).
Proof.
  intros HB H Ct Cs Co.
  destruct (uivk_decode_sound _ _ _ _ HB H) as (_ & Eh & U & N & t1 & s1 & o1 & R1 & R2 & R3 & ER).
  apply rel_canon in R1, R2, R3; try assumption. subst t1 s1 o1.
  unfold uivk_encode. rewrite uivk_container by exact U. rewrite N. rewrite <- Eh, <- ER. reflexivity.
Qed.

(** no panic unless a primitive decoder panics *)
Theorem ufvk_decode_total net i :
  dinput_ok i ->
  (forall x, dec_t_fvk O x <> OPanic) -> (forall x, dec_s_fvk O x <> OPanic) -> (forall x, dec_o_fvk O x <> OPanic) ->
  ufvk_decode O net i <> Panic.
Proof.
  intros DI Ht Hs Ho. unfold ufvk_decode, container_decode. destruct i as [|hrp [raw|]]; try discriminate;
    [|destruct (hrp_network KFvk hrp); discriminate].
  destruct (hrp_network KFvk hrp); [|discriminate].
  destruct DI as [_ L]. pose proof (parse_internal_never_panics KFvk hrp raw L) as PP.
  destruct (parse_internal KFvk hrp raw) as [l| |]; try discriminate; [|congruence].
  destruct (negb (n =? net)); [discriminate|].
  unfold ufvk_parse. pose proof (parse_loop_never_panics _ _ _ l None None None [] Ht Hs Ho) as LP.
  destruct (parse_loop _ _ _ l None None None []) as [[[[t s] o] u]| |]; try discriminate; [|congruence].
  destruct (ufvk_from_checked_parts O t s o u); discriminate.
Qed.

Theorem uivk_decode_total net i :
  dinput_ok i ->
  (forall x, dec_t_ivk O x <> OPanic) -> (forall x, dec_s_ivk O x <> OPanic) -> (forall x, dec_o_ivk O x <> OPanic) ->
  uivk_decode O net i <> Panic.
Proof.
  intros DI Ht Hs Ho. unfold uivk_decode, container_decode. destruct i as [|hrp [raw|]]; try discriminate;
    [|destruct (hrp_network KIvk hrp); discriminate].
  destruct (hrp_network KIvk hrp); [|discriminate].
  destruct DI as [_ L]. pose proof (parse_internal_never_panics KIvk hrp raw L) as PP.
  destruct (parse_internal KIvk hrp raw) as [l| |]; try discriminate; [|congruence].
  destruct (negb (n =? net)); [discriminate|].
  unfold uivk_parse. pose proof (parse_loop_never_panics _ _ _ l None None None [] Ht Hs Ho) as LP.
  destruct (parse_loop _ _ _ l None None None []) as [[[[t s] o] u]| |]; try discriminate. congruence.
Qed.

End Top.
