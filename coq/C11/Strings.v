(** C11 — string level: the Bech32m / F4Jumble / Bech32 / Base58Check layers instantiated with the
    proved model of property C10 (coq/C10, imported read-only). With them the round-trip theorems
    hold for the actual strings, without oracle hypotheses on these layers. F4Jumble's hash
    functions (BLAKE2b) remain parameters [H], [G], as in C10, for which only "outputs are byte
    strings" is assumed. *)
From V.Lib Require Import Base Hex.
From V.Gen Require Import C11Consts C11Legacy.
From V.Gen Require C10Consts.
From V.C10 Require Model PF4 PB32b PRegroup PB58 PTop2.
From V.C11 Require Import Model Spec Legacy ProofsAddr ProofsCodec ProofsLegacy.
Local Open Scope N_scope.

Module X := V.C10.Model.

Section Strings.
Variable H : N -> nat -> bytes -> bytes.
Variable G : N -> N -> bytes -> bytes.
Hypothesis H_bytes : forall i l x, is_bytes (H i l x) = true.
Hypothesis G_bytes : forall i j x, is_bytes (G i j x) = true.

(** ** the two external layers of a unified string, as modelled and proved in C10 *)

(** what [Encoding::decode] sees of a string: Bech32m with the ZIP 316 code length, 5-to-8-bit
    regrouping, then [f4jumble_inv] *)
Definition dinput_of (s : list N) : dinput :=
  match X.b32_decode X.B32m C10Consts.ZIP316_CODE_LENGTH s with
  | None => NotBech32
  | Some (hrp, fes) =>
      Bech hrp match X.fes_to_bytes fes with
               | None => None
               | Some data => match X.f4jumble_inv H G data with Ok raw => Some raw | _ => None end
               end
  end.

(** [Encoding::encode] below the item level: [f4jumble], then Bech32m; both failures are panics *)
Definition string_of (e : bytes * bytes) : outcome (list N) unit :=
  match X.f4jumble H G (snd e) with
  | Ok j => match X.b32_encode X.B32m C10Consts.ZIP316_CODE_LENGTH (fst e) j with
            | Some s => Ok s
            | None => Panic
            end
  | _ => Panic
  end.

Theorem string_layer_roundtrip hrp raw s :
  PB32b.hrp_okb hrp = true -> is_bytes raw = true ->
  string_of (hrp, raw) = Ok s -> dinput_of s = Bech hrp (Some raw).
Proof.
  intros Hh Hr. unfold string_of, dinput_of. cbn [fst snd].
  destruct (X.f4jumble H G raw) as [j| |] eqn:F; try discriminate.
  destruct (X.b32_encode X.B32m C10Consts.ZIP316_CODE_LENGTH hrp j) as [s0|] eqn:E; [|discriminate].
  intros Q; inversion Q; subst s0.
  rewrite (PB32b.b32_decode_encode _ _ _ _ _ Hh E).
  pose proof (PTop2.f4jumble_is_bytes H G H_bytes G_bytes raw j Hr F) as Hj.
  rewrite (PRegroup.regroup_roundtrip j Hj).
  assert (V : X.f4_valid_len (length raw) = true)
    by (unfold X.f4jumble in F; destruct (X.f4_valid_len (length raw)); [reflexivity | discriminate]).
  destruct (PF4.f4jumble_bijection H G raw V) as [(y & Fy & _ & Iy) _].
  rewrite F in Fy. inversion Fy; subst y. rewrite Iy. reflexivity.
Qed.

(** ** UFVK / UIVK strings *)
Variable O : oracles.

Definition ufvk_encode_str (net : N) (k : ufvk) : outcome (list N) unit :=
  match ufvk_encode net k with Ok e => string_of e | Err e => Err e | Panic => Panic end.
Definition ufvk_decode_str (net : N) (s : list N) : outcome ufvk derr := ufvk_decode O net (dinput_of s).
Definition uivk_encode_str (net : N) (k : uivk) : outcome (list N) unit :=
  match uivk_encode net k with Ok e => string_of e | Err e => Err e | Panic => Panic end.
Definition uivk_decode_str (net : N) (s : list N) : outcome uivk derr := uivk_decode O net (dinput_of s).

Lemma hrp_of_okb kd net : PB32b.hrp_okb (hrp_of kd net) = true.
Proof. unfold hrp_of. destruct kd; destruct (net =? 0); try reflexivity; destruct (net =? 1); reflexivity. Qed.

Lemma hrp_of_bytes kd net : is_bytes (hrp_of kd net) = true.
Proof. unfold hrp_of. destruct kd; destruct (net =? 0); try reflexivity; destruct (net =? 1); reflexivity. Qed.

Fixpoint items_bytes (l : list item) : Prop :=
  match l with [] => True | (_, d) :: r => is_bytes d = true /\ items_bytes r end.
Definition obytes (o : option bytes) : Prop := match o with Some b => is_bytes b = true | None => True end.

Lemma is_bytes_app a b : is_bytes a = true -> is_bytes b = true -> is_bytes (a ++ b) = true.
Proof. unfold is_bytes. rewrite forallb_app. intros -> ->. reflexivity. Qed.

Lemma le_bytes_is_bytes k : forall x, is_bytes (le_bytes k x) = true.
Proof.
  induction k as [|k IH]; intros x; [reflexivity|]. cbn [le_bytes is_bytes forallb]. fold (is_bytes (le_bytes k (x / 256))).
  rewrite IH. unfold is_byte. pose proof (N.mod_lt x 256). destruct (x mod 256 <? 256) eqn:E; [reflexivity | lia].
Qed.

Lemma cs_write_is_bytes n : n <= MAX_COMPACT_SIZE -> is_bytes (cs_write n) = true.
Proof.
  rewrite max_cs_val. intros L. unfold cs_write.
  destruct (n <? 253) eqn:A; [cbn; unfold is_byte; destruct (n <? 256) eqn:B; [reflexivity | lia]|].
  destruct (n <=? 65535); [|destruct (n <=? 4294967295)]; cbn [is_bytes forallb];
    fold (is_bytes (le_bytes 2 n)); fold (is_bytes (le_bytes 4 n)); fold (is_bytes (le_bytes 8 n));
    rewrite le_bytes_is_bytes; reflexivity.
Qed.

Lemma items_raw_is_bytes : forall l,
  Forall (fun it : item => fst it <= MAX_COMPACT_SIZE /\ blen (snd it) <= MAX_COMPACT_SIZE) l ->
  items_bytes l -> is_bytes (items_raw l) = true.
Proof.
  induction l as [|[c d] l IH]; intros F B; [reflexivity|].
  inversion F as [|? ? [Fc Fd] Fl]; subst. destruct B as [Bd Bl]. cbn [fst snd] in *.
  unfold items_raw. cbn [flat_map]. fold (items_raw l). unfold item_raw. cbn [fst snd].
  repeat apply is_bytes_app; try (apply cs_write_is_bytes; assumption); try assumption. apply IH; assumption.
Qed.

Lemma padding_is_bytes hrp : is_bytes hrp = true -> is_bytes (padding hrp) = true.
Proof.
  intros Hh. unfold padding. apply is_bytes_app; [exact Hh|].
  induction (16 - length hrp)%nat; [reflexivity | cbn; exact IHn].
Qed.

(** string-level round trip of a UFVK: for every network, [decode (encode k) = k]; the only
    hypotheses beyond those of the container-level theorem are that the key's bytes are bytes and
    that [encode] did not panic (the payload has an F4Jumble-valid length) *)
Theorem ufvk_string_roundtrip net k s :
  net < 3 -> ufvk_wf O k -> ufvk_encodable k = true ->
  comp_len_ok KFvk (fvk_t k) (fvk_s k) (fvk_o k) -> unknown_sizes_ok (fvk_unknown k) ->
  obytes (fvk_t k) -> obytes (fvk_s k) -> obytes (fvk_o k) -> items_bytes (fvk_unknown k) ->
  ufvk_encode_str net k = Ok s ->
  ufvk_decode_str net s = Ok k
  /\ forall net', net' <> net -> ufvk_decode_str net' s = Err ENetwork.
Proof.
  intros N W E L S Bt Bs Bo Bu ES.
  destruct (ufvk_roundtrip O net k N W E L S) as (hrp & raw & A & B & C).
  unfold ufvk_encode_str in ES. rewrite A in ES.
  assert (Hh : hrp = hrp_of KFvk net /\ raw = container_raw (hrp_of KFvk net)
                 (canon_items (fvk_t k) (fvk_s k) (fvk_o k) (fvk_unknown k))).
  { destruct W as (_ & _ & _ & U & _). unfold ufvk_encode in A. rewrite ufvk_container in A by exact U.
    rewrite E in A. inversion A; auto. }
  destruct Hh as [-> ER].
  assert (HR : is_bytes raw = true).
  { rewrite ER. unfold container_raw. apply is_bytes_app; [|apply padding_is_bytes, hrp_of_bytes].
    destruct W as (_ & _ & _ & U & _).
    pose proof (canon_items_ok KFvk _ _ _ _ L U S) as IO.
    apply items_raw_is_bytes.
    - eapply Forall_impl; [|exact IO]. intros it (A1 & A2 & _). rewrite max_cs_val. rewrite max_tc_val in A1. split; [exact A1 | rewrite <- max_cs_val; exact A2].
    - unfold canon_items. clear -Bt Bs Bo Bu.
      destruct (fvk_t k), (fvk_s k), (fvk_o k); cbn in *; repeat split; assumption. }
  pose proof (string_layer_roundtrip _ _ _ (hrp_of_okb KFvk net) HR ES) as D.
  unfold ufvk_decode_str. rewrite D. split; [exact B | exact C].
Qed.

Theorem uivk_string_roundtrip net k s :
  net < 3 -> uivk_wf O k -> uivk_encodable k = true ->
  comp_len_ok KIvk (ivk_t k) (ivk_s k) (ivk_o k) -> unknown_sizes_ok (ivk_unknown k) ->
  obytes (ivk_t k) -> obytes (ivk_s k) -> obytes (ivk_o k) -> items_bytes (ivk_unknown k) ->
  uivk_encode_str net k = Ok s ->
  uivk_decode_str net s = Ok k
  /\ forall net', net' <> net -> uivk_decode_str net' s = Err ENetwork.
Proof.
  intros N W E L S Bt Bs Bo Bu ES.
  destruct (uivk_roundtrip O net k N W E L S) as (hrp & raw & A & B & C).
  unfold uivk_encode_str in ES. rewrite A in ES.
  assert (Hh : hrp = hrp_of KIvk net /\ raw = container_raw (hrp_of KIvk net)
                 (canon_items (ivk_t k) (ivk_s k) (ivk_o k) (ivk_unknown k))).
  { destruct W as (_ & _ & _ & U). unfold uivk_encode in A. rewrite uivk_container in A by exact U.
    rewrite E in A. inversion A; auto. }
  destruct Hh as [-> ER].
  assert (HR : is_bytes raw = true).
  { rewrite ER. unfold container_raw. apply is_bytes_app; [|apply padding_is_bytes, hrp_of_bytes].
    destruct W as (_ & _ & _ & U).
    pose proof (canon_items_ok KIvk _ _ _ _ L U S) as IO.
    apply items_raw_is_bytes.
    - eapply Forall_impl; [|exact IO]. intros it (A1 & A2 & _). rewrite max_cs_val. rewrite max_tc_val in A1. split; [exact A1 | rewrite <- max_cs_val; exact A2].
    - unfold canon_items. clear -Bt Bs Bo Bu.
      destruct (ivk_t k), (ivk_s k), (ivk_o k); cbn in *; repeat split; assumption. }
  pose proof (string_layer_roundtrip _ _ _ (hrp_of_okb KIvk net) HR ES) as D.
  unfold uivk_decode_str. rewrite D. split; [exact B | exact C].
Qed.

End Strings.

(* ------------------------------------------------------------------------------------------ *)
(** * legacy encodings as strings *)

(** Bech32 (not Bech32m) with the standard code length *)
Definition binput_of (s : list N) : binput :=
  match X.b32_decode X.B32 X.BECH32_CODE_LENGTH s with
  | None => BNot
  | Some (hrp, fes) => match X.fes_to_bytes fes with Some d => BStr hrp d | None => BNot end
  end.
Definition legacy_encode_str (hrp payload : bytes) : option (list N) :=
  X.b32_encode X.B32 X.BECH32_CODE_LENGTH hrp payload.

Theorem legacy_string_roundtrip k prim hrp payload key s :
  PB32b.hrp_okb hrp = true -> is_bytes payload = true ->
  reader k prim payload = OSome key ->
  legacy_encode_str hrp payload = Some s ->
  legacy_decode k prim hrp (binput_of s) = Ok key
  /\ forall hrp', bytes_eqb hrp hrp' = false -> legacy_decode k prim hrp' (binput_of s) = Err BHrpMismatch.
Proof.
  intros Hh Hp R E. unfold legacy_encode_str in E. unfold binput_of.
  rewrite (PB32b.b32_decode_encode _ _ _ _ _ Hh E), (PRegroup.regroup_roundtrip payload Hp).
  exact (legacy_roundtrip k prim hrp payload key R).
Qed.

Lemma nc_hrp_okb k net : net < 3 -> PB32b.hrp_okb (nc_hrp k net) = true.
Proof. intros L. nets; destruct k; vm_compute; reflexivity. Qed.

Theorem extfvk_string_roundtrip prim net payload key s :
  net < 3 -> is_bytes payload = true -> prim payload = OSome key ->
  legacy_encode_str (nc_hrp LFvk net) payload = Some s ->
  decode_extfvk_with_network prim (binput_of s) = Ok (net, key).
Proof.
  intros L Hp R E. unfold legacy_encode_str in E. unfold binput_of.
  rewrite (PB32b.b32_decode_encode _ _ _ _ _ (nc_hrp_okb LFvk net L) E), (PRegroup.regroup_roundtrip payload Hp).
  exact (proj1 (extfvk_with_network_roundtrip prim net payload key L R)).
Qed.

(** Base58Check *)
Definition t_encode_str (pk sh : bytes) (a : taddr) : list N := X.b58check_encode (t_encode pk sh a).
Definition t_decode_str (pk sh : bytes) (s : list N) : outcome (option taddr) unit :=
  t_decode pk sh (X.b58check_decode s).

Theorem transparent_string_roundtrip pk sh a :
  length pk = length sh -> bytes_eqb sh pk = false -> taddr_wf a ->
  is_bytes (t_encode pk sh a) = true ->
  t_decode_str pk sh (t_encode_str pk sh a) = Ok (Some a).
Proof.
  intros L N W B. unfold t_decode_str, t_encode_str. rewrite (PB58.b58check_roundtrip _ B).
  apply t_roundtrip; assumption.
Qed.
