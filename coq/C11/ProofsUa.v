(** C11 — the decode path of unified addresses: a receiver list accepted by the ZIP 316 container
    becomes an address with exactly those receivers (kind of the transparent receiver and unknown
    receivers included) and re-encodes to the same list. For all receiver decoders. *)
From V.Lib Require Import Base Hex.
From V.Gen Require Import C11Consts.
From V.C11 Require Import Model Spec Legacy Extra ProofsAddr ProofsCodec ProofsDecode ProofsNt.
From Coq Require Import ZifyBool.
Local Open Scope N_scope.

(** ascending typecodes, P2PKH never directly followed by P2SH (what [try_from_items_internal]
    guarantees) *)
Fixpoint asc_a (prev : option N) (l : list item) : Prop :=
  match l with
  | [] => True
  | (c, _) :: r =>
      match prev with Some p => p < c /\ ~ (c = 1 /\ p = 0) | None => True end /\ asc_a (Some c) r
  end.

Lemma tfi_loop_sound_a : forall l prev b b', tfi_loop l prev b = Ok b' -> asc_a prev l.
Proof.
  induction l as [|[c d] l IH]; intros prev b b' H; cbn [tfi_loop] in H; [exact I|].
  destruct (match prev with Some p => c <? p | None => false end) eqn:E1; [discriminate|].
  destruct (match prev with Some p => c =? p | None => false end) eqn:E2; [discriminate|].
  destruct ((c =? 1) && match prev with Some 0 => true | _ => false end) eqn:E3; [discriminate|].
  cbn [asc_a]. split; [|eapply IH; exact H].
  destruct prev as [p|]; [|exact I]. split; [lia|]. intros [-> ->]. discriminate E3.
Qed.

Lemma asc_a_asc : forall l prev, asc_a prev l -> asc prev l.
Proof.
  induction l as [|[c d] l IH]; intros prev H; [exact I|]. cbn [asc_a] in H. cbn [asc].
  destruct H as [H1 H2]. split; [destruct prev; tauto | apply IH; exact H2].
Qed.

(** the receiver list of accumulators, with the raw (undecoded) shielded receivers *)
Definition recv (t : option taddr) (s o : option bytes) (u : list item) : list item :=
  oapp (option_map taddr_item t) ++ oapp (option_map (pair 2) s) ++ oapp (option_map (pair 3) o) ++ u.

Lemma taddr_item_fst a : fst (taddr_item a) = 0 \/ fst (taddr_item a) = 1.
Proof. destruct a; cbn; auto. Qed.

Lemma recv_bound t s o u c :
  Forall (fun it : item => fst it < c) (recv t s o u) ->
  (c <= 0 -> t = None) /\ (c <= 2 -> s = None) /\ (c <= 3 -> o = None)
  /\ Forall (fun it : item => fst it < c) u.
Proof.
  unfold recv. intros F. rewrite !Forall_app in F. destruct F as (Ft & Fs & Fo & Fu).
  repeat split; try exact Fu; intros L.
  - destruct t as [a|]; [|reflexivity]. inversion Ft as [|? ? X]. pose proof (taddr_item_fst a). lia.
  - destruct s; [inversion Fs as [|? ? X]; cbn in X; lia | reflexivity].
  - destruct o; [inversion Fo as [|? ? X]; cbn in X; lia | reflexivity].
Qed.

Section Loop.
Variables doa dsa : bytes -> ores.

Lemma ua_loop_inv : forall l o s t unk o0 s0 a prev,
  rel doa o0 o -> rel dsa s0 s ->
  Forall (fun it : item => 4 <= fst it <= MAX_TYPECODE) unk ->
  asc_a prev l -> Forall (fun it : item => fst it <= MAX_TYPECODE) l ->
  Forall (fun it : item => match prev with Some p => fst it <= p | None => False end) (recv t s0 o0 (rev unk)) ->
  ua_loop doa dsa l o s t unk = Ok a ->
  exists o1 s1,
    rel doa o1 (uad_o a) /\ rel dsa s1 (uad_s a)
    /\ recv (uad_t a) s1 o1 (uad_unknown a) = recv t s0 o0 (rev unk) ++ l
    /\ Forall (fun it : item => 4 <= fst it <= MAX_TYPECODE) (uad_unknown a).
Proof.
  induction l as [|[c d] l IH]; intros o s t unk o0 s0 a prev Ro Rs Fu A V P H.
  - cbn [ua_loop] in H. inversion H; subst a. cbn [uad_o uad_s uad_t uad_unknown].
    exists o0, s0. rewrite app_nil_r. repeat split; try assumption. apply Forall_rev. exact Fu.
  - cbn [asc_a] in A. destruct A as [A1 A2]. inversion V as [|? ? Vc Vl]; subst. cbn [fst] in Vc.
    assert (PB : Forall (fun it : item => fst it < c) (recv t s0 o0 (rev unk))).
    { eapply Forall_impl; [|exact P]. intros it. cbn beta. destruct prev as [p|]; [lia | tauto]. }
    destruct (recv_bound _ _ _ _ _ PB) as (B0 & B2 & B3 & BU).
    assert (RU : c <= 3 -> unk = []).
    { intros L. pose proof (Forall_rev Fu) as FR.
      assert (rev unk = []) as X.
      { destruct (rev unk) as [|x r]; [reflexivity|]. inversion BU as [|? ? X]; inversion FR as [|? ? Y]; lia. }
      rewrite <- (rev_involutive unk), X. reflexivity. }
    cbn [ua_loop] in H.
    assert (CS : c = 0 \/ c = 1 \/ c = 2 \/ c = 3 \/ 4 <= c) by lia.
    destruct CS as [-> | [-> | [-> | [-> | C4]]]].
    + (* P2PKH *)
      change (tc_of_u32 0) with (Some TcP2pkh) in H. cbv iota in H.
      rewrite (B0 ltac:(lia)), (B2 ltac:(lia)), (B3 ltac:(lia)), (RU ltac:(lia)) in *.
      assert (P' : Forall (fun it : item => match Some 0 with Some p => fst it <= p | None => False end)
                     (recv (Some (PKH d)) None None (rev []))) by (cbn; constructor; [cbn; lia | constructor]).
      destruct (IH o s (Some (PKH d)) [] None None a (Some 0) Ro Rs Fu A2 Vl P' H) as (o1 & s1 & R1 & R2 & E & F).
      exists o1, s1. repeat split; assumption.
    + (* P2SH: nothing can precede it *)
      change (tc_of_u32 1) with (Some TcP2sh) in H. cbv iota in H.
      assert (PN : prev = None).
      { destruct prev as [p|]; [|reflexivity]. destruct A1 as [A1 A1']. exfalso. apply A1'. split; [reflexivity | lia]. }
      subst prev.
      assert (E0 : recv t s0 o0 (rev unk) = []) by (destruct (recv t s0 o0 (rev unk)); [reflexivity | inversion P; contradiction]).
      rewrite (B2 ltac:(lia)), (B3 ltac:(lia)), (RU ltac:(lia)) in *.
      assert (t = None) as -> by (destruct t; [discriminate E0 | reflexivity]).
      assert (P' : Forall (fun it : item => match Some 1 with Some p => fst it <= p | None => False end)
                     (recv (Some (SH d)) None None (rev []))) by (cbn; constructor; [cbn; lia | constructor]).
      destruct (IH o s (Some (SH d)) [] None None a (Some 1) Ro Rs Fu A2 Vl P' H) as (o1 & s1 & R1 & R2 & E & F).
      exists o1, s1. repeat split; assumption.
    + (* Sapling *)
      change (tc_of_u32 2) with (Some TcSapling) in H. cbv iota in H.
      destruct (dsa d) as [k| |] eqn:D; try discriminate.
      rewrite (B2 ltac:(lia)), (B3 ltac:(lia)), (RU ltac:(lia)) in *.
      assert (P' : Forall (fun it : item => match Some 2 with Some p => fst it <= p | None => False end)
                     (recv t (Some d) None (rev []))).
      { unfold recv in *. cbn [rev oapp option_map app] in *. rewrite !app_nil_r in *.
        apply Forall_app. split; [|constructor; [cbn; lia | constructor]].
        eapply Forall_impl; [|exact PB]. cbn beta. intros; lia. }
      destruct (IH o (Some k) t [] None (Some d) a (Some 2) Ro D Fu A2 Vl P' H) as (o1 & s1 & R1 & R2 & E & F).
      exists o1, s1. repeat split; try assumption. rewrite E.
      unfold recv. cbn [rev oapp option_map app]. rewrite !app_nil_r, <- !app_assoc. reflexivity.
    + (* Orchard *)
      change (tc_of_u32 3) with (Some TcOrchard) in H. cbv iota in H.
      destruct (doa d) as [k| |] eqn:D; try discriminate.
      rewrite (B3 ltac:(lia)), (RU ltac:(lia)) in *.
      assert (P' : Forall (fun it : item => match Some 3 with Some p => fst it <= p | None => False end)
                     (recv t s0 (Some d) (rev []))).
      { unfold recv in *. cbn [rev oapp option_map app] in *. rewrite !app_nil_r in *.
        rewrite app_assoc. apply Forall_app. split; [|constructor; [cbn; lia | constructor]].
        eapply Forall_impl; [|exact PB]. cbn beta. intros; lia. }
      destruct (IH (Some k) s t [] (Some d) s0 a (Some 3) D Rs Fu A2 Vl P' H) as (o1 & s1 & R1 & R2 & E & F).
      exists o1, s1. repeat split; try assumption. rewrite E.
      unfold recv. cbn [rev oapp option_map app]. rewrite !app_nil_r, <- !app_assoc. reflexivity.
    + rewrite tc_of_u32_unknown in H by lia.
      assert (Fu' : Forall (fun it : item => 4 <= fst it <= MAX_TYPECODE) ((c, d) :: unk))
        by (constructor; [cbn; lia | exact Fu]).
      assert (P' : Forall (fun it : item => match Some c with Some p => fst it <= p | None => False end)
                     (recv t s0 o0 (rev ((c, d) :: unk)))).
      { cbn [rev]. unfold recv in *. rewrite !app_assoc in *. apply Forall_app.
        split; [|constructor; [cbn; lia | constructor]].
        eapply Forall_impl; [|exact PB]. cbn beta. intros; lia. }
      destruct (IH o s t ((c, d) :: unk) o0 s0 a (Some c) Ro Rs Fu' A2 Vl P' H) as (o1 & s1 & R1 & R2 & E & F).
      exists o1, s1. repeat split; try assumption. rewrite E. cbn [rev].
      unfold recv. rewrite <- !app_assoc. reflexivity.
Qed.

Lemma ua_loop_err : forall l o s t unk,
  ua_loop doa dsa l o s t unk = Err tt ->
  existsb (fun it : item => ((fst it =? 3) && match doa (snd it) with ONone => true | _ => false end)
                            || ((fst it =? 2) && match dsa (snd it) with ONone => true | _ => false end)) l = true.
Proof.
  induction l as [|[c d] l IH]; intros o s t unk H; cbn [ua_loop] in H; [discriminate|].
  cbn [existsb fst snd]. unfold tc_of_u32 in H.
  destruct (c =? 0) eqn:E0; [rewrite (IH _ _ _ _ H); apply orb_true_r|].
  destruct (c =? 1) eqn:E1; [rewrite (IH _ _ _ _ H); apply orb_true_r|].
  destruct (c =? 2) eqn:E2.
  { destruct (dsa d); try discriminate; [rewrite (IH _ _ _ _ H); apply orb_true_r|].
    cbn [andb]. rewrite orb_true_r. reflexivity. }
  destruct (c =? 3) eqn:E3.
  { destruct (doa d); try discriminate; [rewrite (IH _ _ _ _ H); apply orb_true_r | reflexivity]. }
  destruct (c <=? MAX_TYPECODE); rewrite (IH _ _ _ _ H); apply orb_true_r.
Qed.

Lemma ua_loop_never_panics : forall l o s t unk,
  (forall x, doa x <> OPanic) -> (forall x, dsa x <> OPanic) -> ua_loop doa dsa l o s t unk <> Panic.
Proof.
  induction l as [|[c d] l IH]; intros o s t unk Ho Hs; cbn [ua_loop]; [discriminate|].
  destruct (tc_of_u32 c) as [[]|]; try (apply IH; assumption).
  - pose proof (Hs d) as Hd. destruct (dsa d); [apply IH; assumption | discriminate | congruence].
  - pose proof (Ho d) as Hd. destruct (doa d); [apply IH; assumption | discriminate | congruence].
Qed.

End Loop.

(** sorting the address's own item list gives the receiver list *)
Lemma ua_sort (a : uaddr) :
  unknown_ok (uad_unknown a) -> sort_items (ua_items a) = ua_receivers a.
Proof.
  intros U. unfold sort_items, ua_items, ua_receivers. rewrite fold_right_app.
  assert (HK : @fold_right (list item) (N * bytes) insert (@nil item)
                 (oapp (option_map (pair 3) (uad_o a)) ++ oapp (option_map (pair 2) (uad_s a))
                  ++ oapp (option_map taddr_item (uad_t a)))
               = oapp (option_map taddr_item (uad_t a)) ++ oapp (option_map (pair 2) (uad_s a))
                 ++ oapp (option_map (pair 3) (uad_o a)))
    by (destruct (uad_o a), (uad_s a), (uad_t a) as [[h|h]|]; reflexivity).
  assert (SU := sort_unknown (oapp (option_map taddr_item (uad_t a)) ++ oapp (option_map (pair 2) (uad_s a))
                              ++ oapp (option_map (pair 3) (uad_o a))) (uad_unknown a) 3 U).
  unfold item in *. rewrite HK, SU.
  - rewrite <- !app_assoc. reflexivity.
  - intros y Hy. destruct (uad_t a) as [[h|h]|], (uad_s a), (uad_o a); cbn in Hy;
      repeat (destruct Hy as [<-|Hy]; [cbn; lia|]); destruct Hy.
Qed.

(** [tfi_loop] looks at typecodes only *)
Lemma tfi_loop_fst : forall l l' prev b,
  map fst l = map fst l' ->
  match tfi_loop l prev b, tfi_loop l' prev b with
  | Ok x, Ok y => x = y
  | Err x, Err y => x = y
  | Panic, Panic => True
  | _, _ => False
  end.
Proof.
  induction l as [|[c d] l IH]; intros [|[c' d'] l'] prev b H; try discriminate; cbn [tfi_loop]; [reflexivity|].
  cbn [map fst] in H. inversion H; subst c'.
  repeat match goal with |- context [if ?x then _ else _] => destruct x end; try reflexivity.
  apply IH. assumption.
Qed.

Lemma rel_some_iff dec x y : rel dec x y -> is_some x = is_some y.
Proof. destruct x, y; cbn; tauto. Qed.

Section Top.
Variables doa dsa : bytes -> ores.

(** the container's guarantee on a receiver list *)
Definition addr_container (l : list item) : Prop :=
  Forall (fun it : item => fst it <= MAX_TYPECODE) l /\ try_from_items_internal l = Ok l.

Theorem ua_try_from_sound l a :
  addr_container l -> ua_try_from doa dsa l = Ok a ->
  exists o1 s1, rel doa o1 (uad_o a) /\ rel dsa s1 (uad_s a)
    /\ recv (uad_t a) s1 o1 (uad_unknown a) = l /\ unknown_ok (uad_unknown a).
Proof.
  intros [V T] H. unfold try_from_items_internal in T.
  destruct (tfi_loop l None true) as [[|]| |] eqn:TL; try discriminate.
  pose proof (tfi_loop_sound_a _ _ _ _ TL) as A.
  destruct (ua_loop_inv doa dsa l None None None [] None None a None I I (Forall_nil _) A V (Forall_nil _) H)
    as (o1 & s1 & R1 & R2 & E & F).
  cbn [recv rev oapp option_map app] in E. exists o1, s1. repeat split; try assumption.
  unfold unknown_ok. apply asc_a_asc in A. rewrite <- E in A. unfold recv in A. rewrite !app_assoc in A.
  apply asc_suffix in A. destruct A as [p A]. apply (asc_strict _ p 3 A F).
  destruct (uad_unknown a) as [|x u]; [exact I|]. inversion F; lia.
Qed.

(** a decoded address always re-encodes, to a list with the same typecodes *)
Theorem ua_reencodes l a :
  addr_container l -> ua_try_from doa dsa l = Ok a -> ua_to_items a = Ok (ua_receivers a).
Proof.
  intros C H. destruct (ua_try_from_sound l a C H) as (o1 & s1 & R1 & R2 & E & U).
  unfold ua_to_items, to_container, try_from_items. rewrite ua_sort by exact U.
  destruct C as [_ T]. unfold try_from_items_internal in *.
  assert (M : map fst (ua_receivers a) = map fst l).
  { rewrite <- E. unfold ua_receivers, recv. rewrite !map_app.
    apply rel_some_iff in R1, R2.
    destruct (uad_o a), o1, (uad_s a), s1; cbn in R1, R2; try discriminate; reflexivity. }
  pose proof (tfi_loop_fst _ _ None true M) as Q.
  destruct (tfi_loop l None true) as [[|]| |]; try discriminate.
  destruct (tfi_loop (ua_receivers a) None true) as [x| |]; try contradiction. subst x. reflexivity.
Qed.

(** with canonical receiver decoders: exactly the receivers of the encoding, and the same list
    when re-encoded *)
Theorem ua_roundtrip l a :
  addr_container l -> ua_try_from doa dsa l = Ok a ->
  canon_on doa (uad_o a) -> canon_on dsa (uad_s a) ->
  ua_receivers a = l /\ ua_to_items a = Ok l.
Proof.
  intros C H Co Cs. destruct (ua_try_from_sound l a C H) as (o1 & s1 & R1 & R2 & E & U).
  apply rel_canon in R1, R2; try assumption. subst o1 s1.
  assert (X : ua_receivers a = l) by exact E. split; [exact X|].
  rewrite (ua_reencodes l a C H), X. reflexivity.
Qed.

End Top.

(* ------------------------------------------------------------------------------------------ *)
(** * the profile without `orchard` *)

Definition lift_ns (x : item) (r : outcome uaddr unit) : outcome uaddr unit :=
  match r with
  | Ok a => Ok (mkUaddr (uad_o a) (uad_s a) (uad_t a) (x :: uad_unknown a))
  | Err e => Err e
  | Panic => Panic
  end.
Definition with_o (o : option bytes) (r : outcome uaddr unit) : outcome uaddr unit :=
  match r with
  | Ok a => Ok (mkUaddr o (uad_s a) (uad_t a) (uad_unknown a))
  | Err e => Err e
  | Panic => Panic
  end.
(** what the build without `orchard` makes of the main profile's result *)
Definition back_ns (r : outcome uaddr unit) : outcome uaddr unit :=
  match r with
  | Ok a => Ok (mkUaddr None (uad_s a) (uad_t a) (oapp (option_map (pair 3) (uad_o a)) ++ uad_unknown a))
  | Err e => Err e
  | Panic => Panic
  end.

Section Ns.
Variable dsa : bytes -> ores.

Lemma ns_acc : forall l s t unk x,
  ua_loop_ns dsa l s t (unk ++ [x]) = lift_ns x (ua_loop_ns dsa l s t unk).
Proof.
  induction l as [|[c d] l IH]; intros s t unk x; cbn [ua_loop_ns].
  - cbn. rewrite rev_app_distr. reflexivity.
  - destruct (tc_of_u32 c) as [[]|];
      try (change ((c, d) :: unk ++ [x]) with (((c, d) :: unk) ++ [x]); apply IH); try apply IH.
    destruct (dsa d); try reflexivity. apply IH.
Qed.
Lemma ns_acc0 l s t (x : item) : ua_loop_ns dsa l s t [x] = lift_ns x (ua_loop_ns dsa l s t []).
Proof. exact (ns_acc l s t [] x). Qed.

Lemma tc_orchard c : tc_of_u32 c = Some TcOrchard -> c = 3.
Proof.
  unfold tc_of_u32. destruct (c =? 0); [discriminate|]. destruct (c =? 1); [discriminate|].
  destruct (c =? 2); [discriminate|]. destruct (c =? 3) eqn:E; [intros _; lia|].
  destruct (c <=? MAX_TYPECODE); discriminate.
Qed.

Lemma ns_no3 : forall l o s t unk,
  Forall (fun it : item => fst it <> 3) l ->
  ua_loop OSome dsa l o s t unk = with_o o (ua_loop_ns dsa l s t unk).
Proof.
  induction l as [|[c d] l IH]; intros o s t unk F; cbn [ua_loop ua_loop_ns]; [reflexivity|].
  inversion F as [|? ? Fc Fl]; subst. cbn [fst] in Fc.
  destruct (tc_of_u32 c) as [[]|] eqn:E; try (apply IH; exact Fl).
  - destruct (dsa d); try reflexivity. apply IH; exact Fl.
  - exfalso. apply Fc. apply tc_orchard. exact E.
Qed.

Lemma ns_o_none : forall l s t unk a, ua_loop_ns dsa l s t unk = Ok a -> uad_o a = None.
Proof.
  induction l as [|[c d] l IH]; intros s t unk a E; cbn [ua_loop_ns] in E.
  - inversion E; reflexivity.
  - destruct (tc_of_u32 c) as [[]|]; try (eapply IH; exact E).
    destruct (dsa d); try discriminate. eapply IH; exact E.
Qed.

Lemma back_with_none r :
  (forall a, r = Ok a -> uad_o a = None) -> back_ns (with_o None r) = r.
Proof.
  destruct r as [[o s t u]| |]; try reflexivity. intros H. specialize (H _ eq_refl). cbn in H. subst o.
  reflexivity.
Qed.

Lemma ns_bridge : forall l s t prev,
  asc prev l ->
  ua_loop_ns dsa l s t [] = back_ns (ua_loop OSome dsa l None s t []).
Proof.
  induction l as [|[c d] l IH]; intros s t prev A; [reflexivity|].
  cbn [asc] in A. destruct A as [_ A]. pose proof (asc_above _ _ A) as F.
  destruct (N.lt_trichotomy c 3) as [L|[->|G]].
  - (* a known item below Orchard: both loops take the same step, nothing is kept *)
    cbn [ua_loop ua_loop_ns]. unfold tc_of_u32.
    destruct (c =? 0) eqn:E0; [apply (IH _ _ (Some c)); exact A|].
    destruct (c =? 1) eqn:E1; [apply (IH _ _ (Some c)); exact A|].
    destruct (c =? 2) eqn:E2; [|lia].
    destruct (dsa d); try reflexivity. apply (IH _ _ (Some c)); exact A.
  - cbn [ua_loop ua_loop_ns]. change (tc_of_u32 3) with (Some TcOrchard). cbv iota.
    rewrite ns_no3 by (eapply Forall_impl; [|exact F]; cbn beta; intros; lia).
    rewrite ns_acc0. destruct (ua_loop_ns dsa l s t []) as [a| |] eqn:E; try reflexivity.
    cbn. rewrite (ns_o_none _ _ _ _ _ E). reflexivity.
  - rewrite ns_no3.
    + symmetry. apply back_with_none. intros a E. eapply ns_o_none; exact E.
    + constructor; [cbn; lia|]. eapply Forall_impl; [|exact F]. cbn beta. intros; lia.
Qed.

Lemma ua_loop_ns_never_panics : forall l s t unk,
  (forall x, dsa x <> OPanic) -> ua_loop_ns dsa l s t unk <> Panic.
Proof.
  induction l as [|[c d] l IH]; intros s t unk Hs; cbn [ua_loop_ns]; [discriminate|].
  destruct (tc_of_u32 c) as [[]|]; try (apply IH; assumption).
  pose proof (Hs d) as Hd. destruct (dsa d); [apply IH; assumption | discriminate | congruence].
Qed.

(** sorting the item list of an address of this profile *)
Lemma ns_sort (t : option taddr) (s o : option bytes) (u : list item) :
  unknown_ok u ->
  sort_items ((oapp (option_map (pair 3) o) ++ u) ++ oapp (option_map (pair 3) None)
              ++ oapp (option_map (pair 2) s) ++ oapp (option_map taddr_item t))
  = oapp (option_map taddr_item t) ++ oapp (option_map (pair 2) s) ++ oapp (option_map (pair 3) o) ++ u.
Proof.
  intros U. unfold sort_items. cbn [option_map oapp app]. rewrite fold_right_app, fold_right_app.
  assert (HK : @fold_right (list item) (N * bytes) insert (@nil item)
                 (oapp (option_map (pair 2) s) ++ oapp (option_map taddr_item t))
               = oapp (option_map taddr_item t) ++ oapp (option_map (pair 2) s))
    by (destruct s, t as [[h|h]|]; reflexivity).
  assert (SU := sort_unknown (oapp (option_map taddr_item t) ++ oapp (option_map (pair 2) s)) u 3 U).
  unfold item in *. rewrite HK, SU
    by (intros y Hy; destruct t as [[h|h]|], s; cbn in Hy;
        repeat (destruct Hy as [<-|Hy]; [cbn; lia|]); destruct Hy).
  destruct o as [o|]; cbn [oapp option_map fold_right app]; [|rewrite <- app_assoc; reflexivity].
  rewrite app_assoc. rewrite insert_skip.
  - rewrite insert_head; [rewrite <- !app_assoc; reflexivity|].
    destruct u as [|[c d] u]; [exact I|]. destruct U as (U1 & _). cbn. lia.
  - intros y Hy. destruct t as [[h|h]|], s; cbn in Hy;
      repeat (destruct Hy as [<-|Hy]; [cbn; lia|]); destruct Hy.
Qed.

Theorem ua_ns_sound l a :
  addr_container l -> ua_try_from_ns dsa l = Ok a ->
  uad_o a = None
  /\ exists s1, rel dsa s1 (uad_s a) /\ recv (uad_t a) s1 None (uad_unknown a) = l
  /\ ua_to_items a = Ok (ua_receivers a).
Proof.
  intros C H. pose proof C as [V T].
  assert (A : asc None l).
  { unfold try_from_items_internal in T. destruct (tfi_loop l None true) as [[|]| |] eqn:TL; try discriminate.
    apply asc_a_asc. eapply tfi_loop_sound_a; exact TL. }
  unfold ua_try_from_ns in H. rewrite (ns_bridge l None None None A) in H.
  destruct (ua_loop OSome dsa l None None None []) as [am| |] eqn:M; try discriminate.
  cbn [back_ns] in H. inversion H; subst a. cbn [uad_o uad_s uad_t uad_unknown].
  destruct (ua_try_from_sound OSome dsa l am C M) as (o1 & s1 & R1 & R2 & E & U).
  assert (o1 = uad_o am) as -> by (destruct o1, (uad_o am); cbn in R1; try contradiction; [inversion R1|]; reflexivity).
  split; [reflexivity|]. exists s1. split; [exact R2|]. split.
  - rewrite <- E. unfold recv. cbn [oapp option_map app]. reflexivity.
  - unfold ua_to_items, to_container, try_from_items, ua_items, ua_receivers.
    cbn [uad_o uad_s uad_t uad_unknown].
    rewrite ns_sort by exact U.
    (* the sorted list has the typecodes of l, which the container accepted *)
    assert (Mf : map fst (oapp (option_map taddr_item (uad_t am)) ++ oapp (option_map (pair 2) (uad_s am))
                          ++ oapp (option_map (pair 3) (uad_o am)) ++ uad_unknown am) = map fst l).
    { rewrite <- E. unfold recv. rewrite !map_app. apply rel_some_iff in R2.
      destruct (uad_s am), s1; cbn in R2; try discriminate; reflexivity. }
    unfold try_from_items_internal in *. pose proof (tfi_loop_fst _ _ None true Mf) as Q.
    destruct (tfi_loop l None true) as [[|]| |]; try discriminate.
    destruct (tfi_loop _ None true) as [x| |]; try contradiction. subst x.
    cbn [oapp option_map app]. reflexivity.
Qed.

(** decode -> encode is the identity on the receiver list; no Orchard receiver is reported *)
Theorem ua_ns_roundtrip l a :
  addr_container l -> ua_try_from_ns dsa l = Ok a -> canon_on dsa (uad_s a) ->
  uad_o a = None /\ ua_receivers a = l /\ ua_to_items a = Ok l.
Proof.
  intros C H Cs. destruct (ua_ns_sound l a C H) as (Ko & s1 & R2 & E & RE).
  apply rel_canon in R2; [|exact Cs]. subst s1.
  assert (X : ua_receivers a = l) by (unfold ua_receivers; rewrite Ko; exact E).
  split; [exact Ko|]. split; [exact X|]. rewrite RE, X. reflexivity.
Qed.

Lemma ua_ns_err l :
  asc None l -> ua_try_from_ns dsa l = Err tt ->
  existsb (fun it : item => (fst it =? 2) && match dsa (snd it) with ONone => true | _ => false end) l = true.
Proof.
  intros A H. unfold ua_try_from_ns in H. rewrite (ns_bridge l None None None A) in H.
  destruct (ua_loop OSome dsa l None None None []) as [am|[]|] eqn:M; try discriminate.
  pose proof (ua_loop_err OSome dsa l None None None [] M) as X.
  rewrite existsb_exists in *. destruct X as (it & I1 & I2). exists it. split; [exact I1|].
  apply orb_true_iff in I2. destruct I2 as [I2|I2]; [|exact I2].
  apply andb_true_iff in I2. destruct I2 as [_ I2]. discriminate I2.
Qed.

End Ns.
