(** C11 — proofs about receiver requirements and address derivation (for all oracles). *)
From V.Lib Require Import Base Hex.
From V.Gen Require Import C11Consts.
From V.C11 Require Import Model Spec.
From Coq Require Import ZifyBool.
Local Open Scope N_scope.

(* ------------------------------------------------------------------------------------------ *)
(** * Requirement algebra *)

Lemma req_intersect_spec a b : req_intersect a b = spec_req_intersect a b.
Proof. destruct a, b; reflexivity. Qed.

Lemma req_intersect_comm a b : req_intersect a b = req_intersect b a.
Proof. destruct a, b; reflexivity. Qed.

Lemma req_intersect_idem a : req_intersect a a = Ok a.
Proof. destruct a; reflexivity. Qed.

Lemma req_intersect_allow a : req_intersect a Allow = Ok a /\ req_intersect Allow a = Ok a.
Proof. destruct a; split; reflexivity. Qed.

Lemma req_intersect_conflict a b :
  req_intersect a b = Err Conflict <-> (a = Require /\ b = Omit) \/ (a = Omit /\ b = Require).
Proof. destruct a, b; simpl; split; intros H; try discriminate; try tauto;
  destruct H as [[? ?]|[? ?]]; discriminate. Qed.

Lemma req_intersect_never_panics a b : req_intersect a b <> Panic.
Proof. destruct a, b; discriminate. Qed.

(** monadic composition, for associativity *)
Definition bind_req (x : outcome req rr_err) (f : req -> outcome req rr_err) :=
  match x with Ok a => f a | Err e => Err e | Panic => Panic end.

Lemma req_intersect_assoc a b c :
  bind_req (req_intersect a b) (fun x => req_intersect x c)
  = bind_req (req_intersect b c) (fun y => req_intersect a y).
Proof. destruct a, b, c; reflexivity. Qed.

(** the order behind the meet: x <= y iff x ⊓ y = x *)
Definition req_le (x y : req) : Prop := req_intersect x y = Ok x.
Lemma req_le_refl x : req_le x x.
Proof. destruct x; reflexivity. Qed.
Lemma req_le_antisym x y : req_le x y -> req_le y x -> x = y.
Proof. destruct x, y; unfold req_le; simpl; intros; congruence. Qed.
Lemma req_le_trans x y z : req_le x y -> req_le y z -> req_le x z.
Proof. destruct x, y, z; unfold req_le; simpl; intros; congruence. Qed.
Lemma req_intersect_glb a b m :
  req_intersect a b = Ok m -> req_le m a /\ req_le m b /\ (forall x, req_le x a -> req_le x b -> req_le x m).
Proof.
  destruct a, b; simpl; intros H; inversion H; subst; unfold req_le;
    (split; [reflexivity|split; [reflexivity|]]); intros x; destruct x; simpl; congruence.
Qed.

Lemma reqs_new_ok o s p q : reqs_new o s p = Ok q <-> q = mkReqs o s p /\ shielded_possible (mkReqs o s p) = true.
Proof.
  unfold reqs_new, shielded_possible; simpl.
  destruct (req_eqb o Omit && req_eqb s Omit); simpl; split.
  - discriminate. - intros [_ H]; discriminate.
  - intros H; inversion H; auto. - intros [-> _]; reflexivity.
Qed.

Lemma reqs_new_err o s p e : reqs_new o s p = Err e <-> e = NoShieldedReceiver /\ o = Omit /\ s = Omit.
Proof.
  unfold reqs_new. destruct o, s; simpl; split; intros H; try discriminate;
    try (destruct H as (_ & ? & ?); discriminate).
  - inversion H; auto. - destruct H as [-> _]; reflexivity.
Qed.

Lemma reqs_unsafe_new_panics o s p : reqs_unsafe_new o s p = Panic <-> o = Omit /\ s = Omit.
Proof. destruct o, s; simpl; split; intros H; try discriminate; try tauto; destruct H; discriminate. Qed.

Lemma reqs_intersect_comm a b : reqs_intersect a b = reqs_intersect b a.
Proof.
  destruct a as [ao as_ at_], b as [bo bs bt]. unfold reqs_intersect; simpl.
  destruct ao, bo, as_, bs, at_, bt; reflexivity.
Qed.

Lemma reqs_intersect_idem a : shielded_possible a = true -> reqs_intersect a a = Ok a.
Proof. destruct a as [o s p]. destruct o, s, p; simpl; intros H; try discriminate; reflexivity. Qed.

Lemma reqs_intersect_ok a b q :
  reqs_intersect a b = Ok q ->
  shielded_possible q = true
  /\ req_intersect (rq_o a) (rq_o b) = Ok (rq_o q)
  /\ req_intersect (rq_s a) (rq_s b) = Ok (rq_s q)
  /\ req_intersect (rq_t a) (rq_t b) = Ok (rq_t q).
Proof.
  destruct a as [ao as_ at_], b as [bo bs bt]. unfold reqs_intersect; simpl.
  destruct ao, bo, as_, bs, at_, bt; simpl; intros H; inversion H; subst; simpl; auto.
Qed.

Lemma reqs_intersect_never_panics a b : reqs_intersect a b <> Panic.
Proof.
  destruct a as [ao as_ at_], b as [bo bs bt]. unfold reqs_intersect; simpl.
  destruct ao, bo, as_, bs, at_, bt; discriminate.
Qed.

(* ------------------------------------------------------------------------------------------ *)
(** * Child index *)

Lemma to_transparent_child_index_spec j : to_transparent_child_index j = t_index j.
Proof.
  unfold to_transparent_child_index, t_index, NON_HARDENED_MAX.
  destruct (j <? 2147483648) eqn:E.
  - assert (j / 4294967296 = 0) as -> by (apply N.div_small; lia).
    rewrite N.mod_small by lia. simpl. destruct (j <=? 2147483647) eqn:F; [reflexivity | lia].
  - destruct (j / 4294967296 =? 0) eqn:F; simpl; [|reflexivity].
    apply N.eqb_eq in F. apply N.div_small_iff in F; [|lia].
    rewrite N.mod_small by lia. destruct (j <=? 2147483647) eqn:G; [lia | reflexivity].
Qed.

Lemma t_index_some j i : t_index j = Some i <-> i = j /\ j < 2147483648.
Proof. unfold t_index. destruct (j <? 2147483648) eqn:E; split; intros H; try discriminate.
  - inversion H; lia. - destruct H as [-> _]; reflexivity. - lia. Qed.

(* ------------------------------------------------------------------------------------------ *)
(** * Address derivation = decision table *)

Section Addr.
Variable O : oracles.

Lemma is_some_negb {A} (o : option A) : negb (is_some o) = match o with None => true | _ => false end.
Proof. destruct o; reflexivity. Qed.

Theorem uivk_address_spec k j r : uivk_address O k j r = spec_address O k j r.
Proof.
  unfold uivk_address, spec_address, receiver_requirements, to_receiver_requirements, effective,
    avail_o, avail_s, avail_t, reqs_new.
  rewrite to_transparent_child_index_spec.
  destruct k as [kt ks ko ku]; cbn [ivk_t ivk_s ivk_o].
  destruct r as [|[qo qs qt]]; cbn [rq_o rq_s rq_t].
  - (* AllAvailableKeys *)
    destruct ko as [ko|], ks as [ks|], kt as [kt|]; cbn;
      destruct (t_index j) as [ix|]; cbn;
      repeat match goal with
             | |- context [s_addr O ?a ?b] => destruct (s_addr O a b); cbn
             | |- context [t_addr O ?a ?b] => destruct (t_addr O a b); cbn
             end; reflexivity.
  - (* Custom *)
    destruct ko as [ko|], ks as [ks|], kt as [kt|]; destruct qo, qs, qt; cbn;
      destruct (t_index j) as [ix|]; cbn;
      repeat match goal with
             | |- context [s_addr O ?a ?b] => destruct (s_addr O a b); cbn
             | |- context [t_addr O ?a ?b] => destruct (t_addr O a b); cbn
             end; reflexivity.
Qed.

(** ** Consequences read off the table *)

Definition effective_or (k : uivk) (r : request) : reqs :=
  match effective k r with Some q => q | None => mkReqs Omit Omit Omit end.

(** exactly the requested, supported, derivable receivers — with the oracle's values *)
Theorem address_exact_receivers k j r a :
  uivk_address O k j r = Ok a ->
  let q := effective_or k r in
  ua_o a = included (rq_o q) (avail_o O k j)
  /\ ua_s a = included (rq_s q) (avail_s O k j)
  /\ ua_t a = included (rq_t q) (avail_t O k j)
  /\ (is_some (ua_o a) || is_some (ua_s a) = true).
Proof.
  rewrite uivk_address_spec. unfold spec_address, effective_or.
  destruct (effective k r) as [q|]; [|discriminate].
  repeat match goal with |- context [if ?c then _ else _] => destruct c eqn:? end; try discriminate.
  intros H; inversion H; subst; cbn [ua_o ua_s ua_t]. auto.
Qed.

Lemma included_some q a x : included q a = Some x <-> q <> Omit /\ a = Avail x.
Proof.
  destruct q, a; simpl; split; intros H; try discriminate; try (destruct H; congruence).
  all: inversion H; split; [discriminate | reflexivity].
Qed.

(** pool ∈ UA  <->  requested (not Omit) ∧ the key has the pool ∧ the index is valid for it *)
Theorem address_receiver_iff k j r a :
  uivk_address O k j r = Ok a ->
  let q := effective_or k r in
  (forall x, ua_o a = Some x <-> rq_o q <> Omit /\ exists i, ivk_o k = Some i /\ x = o_addr O i j)
  /\ (forall x, ua_s a = Some x <-> rq_s q <> Omit /\ exists i, ivk_s k = Some i /\ s_addr O i j = Some x)
  /\ (forall x, ua_t a = Some x <->
        rq_t q <> Omit /\ exists i, ivk_t k = Some i /\ j < 2147483648 /\ t_addr O i j = Some x).
Proof.
  intros H q. destruct (address_exact_receivers k j r a H) as (Ho & Hs & Ht & _). fold q in Ho, Hs, Ht.
  rewrite Ho, Hs, Ht. split; [|split]; intros x; rewrite included_some; split.
  - intros [A B]; split; [exact A|]. unfold avail_o in B.
    destruct (ivk_o k) as [i|]; [|discriminate]. exists i; split; [reflexivity|]. congruence.
  - intros [A (i & E & ->)]; split; [exact A|]. unfold avail_o. rewrite E. reflexivity.
  - intros [A B]; split; [exact A|]. unfold avail_s in B.
    destruct (ivk_s k) as [i|]; [|discriminate]. exists i; split; [reflexivity|].
    destruct (s_addr O i j); congruence.
  - intros [A (i & E & F)]; split; [exact A|]. unfold avail_s. rewrite E, F. reflexivity.
  - intros [A B]; split; [exact A|]. unfold avail_t in B.
    destruct (ivk_t k) as [i|]; [|discriminate]. exists i; split; [reflexivity|].
    destruct (t_index j) as [ix|] eqn:T; [|discriminate].
    apply t_index_some in T. destruct T as [-> T]. split; [exact T|].
    destruct (t_addr O i j); congruence.
  - intros [A (i & E & L & F)]; split; [exact A|]. unfold avail_t. rewrite E.
    assert (t_index j = Some j) as -> by (apply t_index_some; auto). rewrite F. reflexivity.
Qed.

(** never an address with only a transparent receiver *)
Theorem address_never_only_transparent k j r a :
  uivk_address O k j r = Ok a -> ua_o a <> None \/ ua_s a <> None.
Proof.
  intros H. destruct (address_exact_receivers k j r a H) as (_ & _ & _ & S).
  destruct (ua_o a); [left; discriminate|]. destruct (ua_s a); [right; discriminate|]. discriminate.
Qed.

(** a Require that cannot be met is an error — and which one *)
Theorem address_require_unmet k j r :
  forall q, effective k r = Some q ->
  ((required (rq_o q) && is_missing (avail_o O k j)) || (required (rq_s q) && is_missing (avail_s O k j))
   || (required (rq_t q) && is_missing (avail_t O k j)) = true ->
     uivk_address O k j r = Err ShieldedReceiverRequired)
  /\ ((required (rq_o q) && is_missing (avail_o O k j)) || (required (rq_s q) && is_missing (avail_s O k j))
      || (required (rq_t q) && is_missing (avail_t O k j)) = false ->
      (required (rq_t q) = true -> ivk_t k <> None -> 2147483648 <= j ->
         uivk_address O k j r = Err (InvalidTransparentChildIndex j))
      /\ (required (rq_s q) = true -> avail_s O k j = Invalid ->
          (required (rq_t q) = true /\ ivk_t k <> None /\ 2147483648 <= j) \/
          uivk_address O k j r = Err (InvalidSaplingDiversifierIndex j))
      /\ (required (rq_t q) = true -> avail_t O k j = Invalid ->
          uivk_address O k j r = Err (InvalidTransparentChildIndex j)
          \/ uivk_address O k j r = Err (InvalidSaplingDiversifierIndex j))).
Proof.
  intros q E. rewrite uivk_address_spec. unfold spec_address. rewrite E. cbv zeta.
  split.
  - intros ->. reflexivity.
  - intros ->. repeat split.
    + intros Rt Kt Lj. rewrite Rt.
      assert (is_missing (avail_t O k j) = false) as ->
        by (unfold avail_t; destruct (ivk_t k); [destruct (t_index j); [destruct (t_addr O b n)|]; reflexivity | congruence]).
      assert (t_index j = None) as -> by (unfold t_index; destruct (j <? 2147483648) eqn:X; [lia|reflexivity]).
      reflexivity.
    + intros Rs As. rewrite Rs, As. cbn [is_avail negb andb].
      destruct (required (rq_t q) && negb (is_missing (avail_t O k j)) && negb (is_some (t_index j))) eqn:X.
      * left. apply andb_true_iff in X. destruct X as [X X3]. apply andb_true_iff in X. destruct X as [X1 X2].
        split; [exact X1|]. split.
        -- unfold avail_t in X2. destruct (ivk_t k); [discriminate | discriminate X2].
        -- unfold t_index in X3. destruct (j <? 2147483648) eqn:Y; [discriminate X3 | lia].
      * right. reflexivity.
    + intros Rt At. rewrite Rt, At. cbn [is_avail is_missing negb andb].
      destruct (is_some (t_index j)); cbn [negb]; [|left; reflexivity].
      destruct (required (rq_s q) && negb (is_avail (avail_s O k j))); [right|left]; reflexivity.
Qed.

(** the [KeyNotAvailable] / [ReceiverTypeNotSupported] results of the source are unreachable from
    [address] (the earlier [receiver_requirements] check turns them into
    [ShieldedReceiverRequired]); the model artefact is not produced either; no panic *)
Theorem address_error_kinds k j r :
  match uivk_address O k j r with
  | Ok _ => True
  | Err e => e = ShieldedReceiverRequired \/ e = InvalidTransparentChildIndex j
             \/ e = InvalidSaplingDiversifierIndex j
  | Panic => False
  end.
Proof.
  rewrite uivk_address_spec. unfold spec_address.
  destruct (effective k r); [|auto].
  repeat match goal with |- context [if ?c then _ else _] => destruct c end; auto.
Qed.

Theorem address_never_panics k j r : uivk_address O k j r <> Panic.
Proof. pose proof (address_error_kinds k j r) as H. intros E. rewrite E in H. exact H. Qed.

(** [AllAvailableKeys] on a key with a shielded component at a valid index gives every pool *)
Theorem address_all_available k j a :
  uivk_address O k j AllAvailableKeys = Ok a ->
  (is_some (ua_o a) = is_some (ivk_o k)) /\ (is_some (ua_s a) = is_some (ivk_s k))
  /\ (is_some (ua_t a) = is_some (ivk_t k)).
Proof.
  rewrite uivk_address_spec. unfold spec_address, effective, avail_o, avail_s, avail_t.
  destruct k as [kt ks ko ku]; cbn [ivk_t ivk_s ivk_o].
  destruct ko, ks, kt; cbn; destruct (t_index j); cbn;
    repeat match goal with
           | |- context [s_addr O ?a ?b] => destruct (s_addr O a b); cbn
           | |- context [t_addr O ?a ?b] => destruct (t_addr O a b); cbn
           end; intros H; inversion H; subst; cbn; auto.
Qed.

(* ------------------------------------------------------------------------------------------ *)
(** * Commutation of viewing-key derivation with address derivation *)

Lemma ufvk_to_uivk_spec (f : ufvk) :
  ufvk_to_uivk O f = match spec_ivk_of_fvk O f with Some i => Ok i | None => Panic end.
Proof.
  unfold ufvk_to_uivk, spec_ivk_of_fvk. destruct (fvk_t f) as [pk|]; [|reflexivity].
  destruct (t_pk_ivk O pk); reflexivity.
Qed.

(** the invariant the constructors ([from_checked_parts]) establish *)
Definition ufvk_derivable (f : ufvk) : Prop :=
  match fvk_t f with Some pk => t_pk_ivk O pk <> None | None => True end.

Lemma ufvk_from_checked_parts_derivable t s o u f :
  ufvk_from_checked_parts O t s o u = Ok f -> ufvk_derivable f /\ f = mkUfvk t s o u.
Proof.
  unfold ufvk_from_checked_parts, ufvk_derivable. destruct t as [pk|].
  - destruct (t_pk_ivk O pk) eqn:E; intros H; inversion H; subst; cbn. split; [congruence | reflexivity].
  - intros H; inversion H; subst; cbn; auto.
Qed.

(** coherence of the two transparent derivation oracles: when the external IVK derives below
    the private key, it derives below the serialised account public key as well (BIP 32 public
    derivation ignores the metadata the serialisation drops) *)
Definition sk_coherent : Prop :=
  forall sk, t_sk_ivk O sk <> None -> t_pk_ivk O (t_sk_pk O sk) <> None.

Lemma usk_from_checked_parts_derivable t s o k :
  sk_coherent -> usk_from_checked_parts O t s o = Ok k -> k = mkUsk t s o /\ ufvk_derivable (usk_to_ufvk O k).
Proof.
  intros C. unfold usk_from_checked_parts, ufvk_derivable. destruct (t_sk_ivk O t) eqn:E; intros H; inversion H.
  subst. cbn. split; [reflexivity|]. apply C. congruence.
Qed.

Lemma derivable_to_uivk f : ufvk_derivable f -> exists i, ufvk_to_uivk O f = Ok i /\ spec_ivk_of_fvk O f = Some i.
Proof.
  unfold ufvk_derivable. rewrite ufvk_to_uivk_spec. unfold spec_ivk_of_fvk.
  destruct (fvk_t f) as [pk|]; [|eauto]. destruct (t_pk_ivk O pk); [eauto | congruence].
Qed.

(** same index, same request => same address at USK, UFVK and UIVK level *)
Theorem address_commutes (u : usk) j r :
  ufvk_derivable (usk_to_ufvk O u) ->
  exists i, ufvk_to_uivk O (usk_to_ufvk O u) = Ok i
            /\ usk_address O u j r = ufvk_address O (usk_to_ufvk O u) j r
            /\ ufvk_address O (usk_to_ufvk O u) j r = uivk_address O i j r.
Proof.
  intros D. destruct (derivable_to_uivk _ D) as (i & E & _). exists i.
  split; [exact E|]. split; [reflexivity|]. unfold ufvk_address. rewrite E. reflexivity.
Qed.

Theorem address_commutes_ufvk (f : ufvk) j r :
  ufvk_derivable f ->
  exists i, ufvk_to_uivk O f = Ok i /\ ufvk_address O f j r = uivk_address O i j r
            /\ (forall fuel, ufvk_find_address O fuel f j r = uivk_find_address O fuel i j r).
Proof.
  intros D. destruct (derivable_to_uivk _ D) as (i & E & _). exists i.
  unfold ufvk_address, ufvk_find_address. rewrite E. auto.
Qed.

(** the external IVK has exactly the components of the FVK (no pool gained or lost) *)
Theorem projection_preserves_pools f i :
  ufvk_to_uivk O f = Ok i ->
  is_some (ivk_t i) = is_some (fvk_t f) /\ is_some (ivk_s i) = is_some (fvk_s f)
  /\ is_some (ivk_o i) = is_some (fvk_o f) /\ ivk_unknown i = [].
Proof.
  unfold ufvk_to_uivk. destruct (fvk_t f) as [pk|].
  - destruct (t_pk_ivk O pk); intros H; inversion H; subst; cbn.
    destruct (fvk_s f), (fvk_o f); auto.
  - intros H; inversion H; subst; cbn. destruct (fvk_s f), (fvk_o f); auto.
Qed.

(* ------------------------------------------------------------------------------------------ *)
(** * find_address *)

Theorem find_address_sound fuel : forall k j r a j',
  uivk_find_address O fuel k j r = Ok (a, j') ->
  j <= j' /\ uivk_address O k j' r = Ok a
  /\ forall i, j <= i < j' -> uivk_address O k i r = Err (InvalidSaplingDiversifierIndex i).
Proof.
  induction fuel as [|fuel IH]; intros k j r a j' H; [discriminate|].
  cbn [uivk_find_address] in H.
  destruct (uivk_address O k j r) as [a0|e|] eqn:E.
  - inversion H; subst. split; [lia|]. split; [exact E|]. intros i Hi; lia.
  - pose proof (address_error_kinds k j r) as K. rewrite E in K.
    destruct e; try discriminate.
    destruct (j + 1 <? DIVERSIFIER_SPACE) eqn:L; [|discriminate].
    destruct (IH _ _ _ _ _ H) as (A & B & C). split; [lia|]. split; [exact B|].
    intros i Hi. destruct (N.eq_dec i j) as [->|Ne].
    + destruct K as [K|[K|K]]; inversion K; subst; exact E.
    + apply C. lia.
  - discriminate.
Qed.

Theorem find_address_error fuel : forall k j r e,
  j < DIVERSIFIER_SPACE ->
  uivk_find_address O fuel k j r = Err e -> e <> FindOutOfFuel ->
  e <> InvalidSaplingDiversifierIndex j /\
  exists j', j <= j' /\ (forall i, j <= i < j' -> uivk_address O k i r = Err (InvalidSaplingDiversifierIndex i))
    /\ ((e = DiversifierSpaceExhausted /\ j' + 1 = DIVERSIFIER_SPACE
         /\ uivk_address O k j' r = Err (InvalidSaplingDiversifierIndex j'))
        \/ (e <> DiversifierSpaceExhausted /\ uivk_address O k j' r = Err e)).
Proof.
  induction fuel as [|fuel IH]; intros k j r e Hj H Hne; [inversion H; congruence|].
  cbn [uivk_find_address] in H.
  pose proof (address_error_kinds k j r) as K.
  destruct (uivk_address O k j r) as [a0|e0|] eqn:E; [discriminate| |discriminate].
  destruct e0.
  - inversion H; subst. split; [discriminate|]. exists j. split; [lia|]. split; [intros; lia|].
    right. split; [discriminate | exact E].
  - assert (j0 = j) as -> by (destruct K as [K|[K|K]]; inversion K; reflexivity).
    destruct (j + 1 <? DIVERSIFIER_SPACE) eqn:L.
    + assert (Hj' : j + 1 < DIVERSIFIER_SPACE) by lia.
      destruct (IH k (j + 1) r e Hj' H Hne) as (N1 & j' & A & B & C).
      split.
      { intros ->. destruct C as [[C _]|[_ C]]; [discriminate|].
        pose proof (address_error_kinds k j' r) as K'. rewrite C in K'.
        destruct K' as [K'|[K'|K']]; inversion K'. subst. lia. }
      exists j'. split; [lia|]. split; [|exact C].
      intros i Hi. destruct (N.eq_dec i j) as [->|Ne]; [exact E | apply B; lia].
    + inversion H; subst. split; [discriminate|]. exists j. split; [lia|]. split; [intros; lia|].
      left. split; [reflexivity|]. split; [|exact E].
      lia.
  - destruct K as [K|[K|K]]; discriminate.
  - destruct K as [K|[K|K]]; discriminate.
  - destruct K as [K|[K|K]]; discriminate.
  - inversion H; subst. split; [discriminate|]. exists j. split; [lia|]. split; [intros; lia|].
    right. split; [discriminate | exact E].
  - destruct K as [K|[K|K]]; discriminate.
Qed.

End Addr.
