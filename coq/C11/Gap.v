(** C11 — model of zcash_keys/src/keys/transparent/gap_limits.rs ([GapLimits::limit_for],
    [generate_address_list], [generate_gap_addresses]) together with the range iterator
    [NonHardenedChildRange] of zcash_transparent/src/keys.rs it walks.
    External: BIP 32 derivation of the change-level keys ([scope_ivk]) and of addresses
    ([t_addr] of the oracle record), and the wallet's address store. No proofs in this file. *)
From V.Lib Require Import Base Hex.
From V.Gen Require Import C11Consts.
From V.C11 Require Import Model Spec.
Local Open Scope N_scope.

(** [Address::from(UnifiedAddress)] / [Address::from(TransparentAddress)] *)
Inductive gaddr := GUnified (a : ua) | GTransparent (t : bytes).

Inductive gerr :=
| GAddr (e : aerr)                 (* an [AddressGenerationError] of the modelled kinds *)
| GBip32                           (* [Bip32DerivationError] *)
| GUnsupportedScope (s : N).       (* [UnsupportedTransparentKeyScope] *)

(** [GapLimits::limit_for]: scopes 0 external, 1 internal, 2 ephemeral *)
Record gap_limits := mkGapLimits { gl_external : N; gl_internal : N; gl_ephemeral : N }.
Definition limit_for (g : gap_limits) (scope : N) : option N :=
  if scope =? 0 then Some (gl_external g)
  else if scope =? 1 then Some (gl_internal g)
  else if scope =? 2 then Some (gl_ephemeral g)
  else None.

(** [NonHardenedChildIndex::saturating_add] *)
Definition nh_saturating_add (i delta : N) : N :=
  let idx := N.min (i + delta) 4294967295 in
  if NON_HARDENED_MAX <? idx then NON_HARDENED_MAX else idx.

(** [NonHardenedChildIter::next]: yields the current index, then moves to the successor if it
    is a valid index below [end]. The first index is yielded even when the range is empty. *)
Fixpoint nh_iter (fuel : nat) (cur end_ : N) : list N :=
  match fuel with
  | 0%nat => []
  | S f => cur :: (if (cur + 1 <=? NON_HARDENED_MAX) && (cur + 1 <? end_) then nh_iter f (cur + 1) end_ else [])
  end.
Definition nh_range (start end_ : N) : list N := nh_iter (S (N.to_nat (end_ - start))) start end_.

Section WithOracles.
Variable Orc : oracles.
(** [AccountPubKey::derive_internal_ivk] (scope 1) / [derive_ephemeral_ivk] (scope 2) *)
Variable scope_ivk : bytes -> N -> option bytes.

(** [generate_external_address] *)
Definition generate_external_address (k : uivk) (r : request) (idx : N) : outcome (gaddr * bytes) gerr :=
  let a := uivk_address Orc k idx r in
  match ivk_t k with
  | None => Err (GAddr (KeyNotAvailable TcP2pkh))
  | Some tivk =>
      match t_addr Orc tivk idx with
      | None => Err (GAddr (InvalidTransparentChildIndex idx))
      | Some ta =>
          match a with
          | Ok u => Ok (GUnified u, ta)
          | Err ShieldedReceiverRequired => Ok (GTransparent ta, ta)   (* transparent-only fallback *)
          | Err e => Err (GAddr e)
          | Panic => Panic
          end
      end
  end.

(** the closure [gen_addrs] *)
Definition gen_addrs (k : uivk) (pk : bytes) (r : request) (scope idx : N) : outcome (gaddr * bytes) gerr :=
  if scope =? 0 then generate_external_address k r idx
  else if (scope =? 1) || (scope =? 2) then
    match scope_ivk pk scope with
    | None => Err GBip32
    | Some ivk => match t_addr Orc ivk idx with
                  | None => Err GBip32
                  | Some ta => Ok (GTransparent ta, ta)
                  end
    end
  else Err (GUnsupportedScope scope).

(** [.map(..).collect::<Result<Vec<_>, _>>()]: the first failure ends the walk *)
Fixpoint collect (k : uivk) (pk : bytes) (r : request) (scope : N) (l : list N)
  : outcome (list (gaddr * bytes * N)) gerr :=
  match l with
  | [] => Ok []
  | i :: rest =>
      match gen_addrs k pk r scope i with
      | Ok (a, ta) => match collect k pk r scope rest with
                      | Ok tl => Ok ((a, ta, i) :: tl)
                      | e => e
                      end
      | Err e => Err e
      | Panic => Panic
      end
  end.

(** [generate_address_list] *)
Definition generate_address_list (k : uivk) (f : option ufvk) (scope : N) (r : request)
  (start end_ : N) (require_key : bool) : outcome (list (gaddr * bytes * N)) gerr :=
  match match f with Some fk => fvk_t fk | None => None end with
  | Some pk => collect k pk r scope (nh_range start end_)
  | None =>
      if ((scope =? 1) || (scope =? 2)) && require_key then Err (GAddr (KeyNotAvailable TcP2pkh))
      else Ok []
  end.

(** [generate_gap_addresses]; [find] is the store's answer to [find_gap_start], the result is
    what is handed to [store_address_range] ([None]: nothing stored) *)
Inductive gg_err := GGStorage | GGAddress (e : gerr).
Definition generate_gap_addresses (g : gap_limits) (k : uivk) (f : option ufvk) (scope : N)
  (r : request) (require_key : bool) (find : outcome (option N) unit) (store_ok : bool)
  : outcome (option (list (gaddr * bytes * N))) gg_err :=
  match limit_for g scope with
  | None => Err (GGAddress (GUnsupportedScope scope))
  | Some gl =>
      match find with
      | Err _ => Err GGStorage
      | Panic => Panic
      | Ok None => Ok None
      | Ok (Some gs) =>
          match generate_address_list k f scope r gs (nh_saturating_add gs gl) require_key with
          | Ok l => if store_ok then Ok (Some l) else Err GGStorage
          | Err e => Err (GGAddress e)
          | Panic => Panic
          end
      end
  end.

(** ** Specification: every listed address belongs to the key at its index *)

(** the key an index is derived under, per scope *)
Definition spec_scope_key (k : uivk) (pk : bytes) (scope : N) : option bytes :=
  if scope =? 0 then ivk_t k else scope_ivk pk scope.

Definition spec_entry (k : uivk) (pk : bytes) (r : request) (scope : N) (e : gaddr * bytes * N) : Prop :=
  let '(a, ta, i) := e in
  (exists key, spec_scope_key k pk scope = Some key /\ t_addr Orc key i = Some ta)
  /\ match a with
     | GUnified u => scope = 0 /\ spec_address Orc k i r = Ok u
     | GTransparent t => t = ta /\ (scope = 0 -> spec_address Orc k i r = Err ShieldedReceiverRequired)
     end.

End WithOracles.
