(** C11 — [find_address]: termination under an explicit hypothesis, fuel bounds, and the facts the
    bridge needs about where the search stops. For all oracles. *)
From V.Lib Require Import Base Hex.
From V.Gen Require Import C11Consts.
From V.C11 Require Import Model Spec ProofsAddr.
From Coq Require Import ZifyBool.
Local Open Scope N_scope.

Section Find.
Variable O : oracles.

Definition skips (k : uivk) (r : request) (i : N) : Prop :=
  uivk_address O k i r = Err (InvalidSaplingDiversifierIndex i).

Lemma address_isdi_index k j r x : uivk_address O k j r = Err (InvalidSaplingDiversifierIndex x) -> x = j.
Proof.
  intros H. pose proof (address_error_kinds O k j r) as K. rewrite H in K.
  destruct K as [K|[K|K]]; inversion K; reflexivity.
Qed.

(** the search stops at the first index that is not skipped: with enough fuel to reach it the
    result is not [FindOutOfFuel], and it is the outcome at that index *)
Theorem find_address_terminates : forall fuel k j r j',
  j <= j' -> j' < DIVERSIFIER_SPACE -> (N.to_nat (j' - j) < fuel)%nat ->
  (forall i, j <= i < j' -> skips k r i) -> ~ skips k r j' ->
  uivk_find_address O fuel k j r
  = match uivk_address O k j' r with
    | Ok a => Ok (a, j')
    | Err e => Err e
    | Panic => Panic
    end.
Proof.
  induction fuel as [|fuel IH]; intros k j r j' Hle Hsp Hf Hskip Hstop; [lia|].
  cbn [uivk_find_address].
  destruct (N.eq_dec j j') as [->|Ne].
  - destruct (uivk_address O k j' r) as [a|e|] eqn:E; try reflexivity.
    destruct e as [x|x| | | | |]; try reflexivity. exfalso. apply Hstop. unfold skips.
    rewrite E. rewrite (address_isdi_index _ _ _ _ E). reflexivity.
  - assert (S : skips k r j) by (apply Hskip; lia). unfold skips in S. rewrite S.
    destruct (j + 1 <? DIVERSIFIER_SPACE) eqn:L; [|lia].
    apply IH; try lia; [intros i Hi; apply Hskip; lia | exact Hstop].
Qed.

(** in particular: if some index at or after [j] within the fuel yields an address, the search
    returns an address (the first such) and never runs out of fuel *)
Theorem find_address_finds : forall fuel k j r j' a,
  j <= j' -> j' < DIVERSIFIER_SPACE -> (N.to_nat (j' - j) < fuel)%nat ->
  uivk_address O k j' r = Ok a ->
  uivk_find_address O fuel k j r <> Err FindOutOfFuel.
Proof.
  induction fuel as [|fuel IH]; intros k j r j' a Hle Hsp Hf Hok; [lia|].
  cbn [uivk_find_address].
  destruct (uivk_address O k j r) as [a0|e|] eqn:E; try discriminate.
  pose proof (address_error_kinds O k j r) as K. rewrite E in K.
  destruct e; try discriminate; try (destruct K as [K|[K|K]]; discriminate).
  destruct (N.eq_dec j j') as [->|Ne]; [congruence|].
  destruct (j + 1 <? DIVERSIFIER_SPACE) eqn:L; [|discriminate].
  eapply IH with (j' := j'); try lia. exact Hok.
Qed.

(** fuel bound without any hypothesis: the index space is finite *)
Theorem find_address_fuel_bound : forall fuel k j r,
  j < DIVERSIFIER_SPACE -> (N.to_nat (DIVERSIFIER_SPACE - j) <= fuel)%nat ->
  uivk_find_address O fuel k j r <> Err FindOutOfFuel.
Proof.
  induction fuel as [|fuel IH]; intros k j r Hj Hf; [lia|].
  cbn [uivk_find_address].
  destruct (uivk_address O k j r) as [a0|e|] eqn:E; try discriminate.
  pose proof (address_error_kinds O k j r) as K. rewrite E in K.
  destruct e; try discriminate; try (destruct K as [K|[K|K]]; discriminate).
  destruct (j + 1 <? DIVERSIFIER_SPACE) eqn:L; [|discriminate].
  apply IH; lia.
Qed.

(** where the search stops lies within the fuel *)
Lemma find_ok_within_fuel : forall fuel k j r a j',
  uivk_find_address O fuel k j r = Ok (a, j') -> (N.to_nat (j' - j) < fuel)%nat.
Proof.
  induction fuel as [|fuel IH]; intros k j r a j' H; [discriminate|].
  cbn [uivk_find_address] in H.
  destruct (uivk_address O k j r) as [a0|e|] eqn:E; try discriminate.
  - inversion H; subst. lia.
  - destruct e; try discriminate. destruct (j + 1 <? DIVERSIFIER_SPACE) eqn:L; [|discriminate].
    pose proof (find_address_sound O _ _ _ _ _ _ H) as (A & _ & _).
    apply IH in H. lia.
Qed.

(** an index skipped for its Sapling diversifier can never be followed by "no shielded receiver" *)
Lemma skip_excludes_srr k r j j' :
  skips k r j -> uivk_address O k j' r <> Err ShieldedReceiverRequired.
Proof.
  unfold skips. rewrite !uivk_address_spec. unfold spec_address.
  destruct (effective k r) as [q|]; [|discriminate].
  assert (Mo : is_missing (avail_o O k j') = is_missing (avail_o O k j))
    by (unfold avail_o; destruct (ivk_o k); reflexivity).
  assert (Ms : is_missing (avail_s O k j') = is_missing (avail_s O k j))
    by (unfold avail_s; destruct (ivk_s k); [destruct (s_addr O b j'), (s_addr O b j)|]; reflexivity).
  assert (Mt : is_missing (avail_t O k j') = is_missing (avail_t O k j)).
  { unfold avail_t. destruct (ivk_t k); [|reflexivity].
    destruct (t_index j') as [x|]; [destruct (t_addr O b x)|];
      (destruct (t_index j) as [y|]; [destruct (t_addr O b y)|]); reflexivity. }
  rewrite Mo, Ms, Mt.
  destruct ((required (rq_o q) && is_missing (avail_o O k j)) || (required (rq_s q) && is_missing (avail_s O k j))
            || (required (rq_t q) && is_missing (avail_t O k j))); [discriminate|].
  destruct (required (rq_t q) && negb (is_missing (avail_t O k j)) && negb (is_some (t_index j))); [discriminate|].
  destruct (required (rq_s q)) eqn:Rs; cbn [andb].
  - intros _.
    destruct (required (rq_t q) && negb (is_missing (avail_t O k j)) && negb (is_some (t_index j'))); [discriminate|].
    destruct (is_avail (avail_s O k j')) eqn:As; cbn [negb]; [|discriminate].
    destruct (required (rq_t q) && negb (is_avail (avail_t O k j'))); [discriminate|].
    destruct (avail_s O k j') as [| |x]; try discriminate As.
    unfold required in Rs. destruct (rq_s q); try discriminate Rs. cbn [included is_some].
    rewrite orb_true_r. discriminate.
  - destruct (required (rq_t q) && negb (is_avail (avail_t O k j))); [discriminate|].
    destruct (is_some (included (rq_o q) (avail_o O k j)) || is_some (included (rq_s q) (avail_s O k j))); discriminate.
Qed.

(** the error of a failed search: either exhaustion, or the error at the first index not
    skipped — which is [j] itself unless it is an out-of-range transparent index *)
Lemma find_err_within_fuel : forall fuel k j r e,
  j < DIVERSIFIER_SPACE ->
  uivk_find_address O fuel k j r = Err e -> e <> FindOutOfFuel -> e <> DiversifierSpaceExhausted ->
  exists j', j <= j' /\ (N.to_nat (j' - j) < fuel)%nat
    /\ (forall i, j <= i < j' -> skips k r i) /\ uivk_address O k j' r = Err e
    /\ (e = InvalidTransparentChildIndex j' \/ (e = ShieldedReceiverRequired /\ j' = j)).
Proof.
  induction fuel as [|fuel IH]; intros k j r e Hj H N1 N2; [inversion H; congruence|].
  cbn [uivk_find_address] in H.
  pose proof (address_error_kinds O k j r) as K.
  destruct (uivk_address O k j r) as [a0|e0|] eqn:E; [discriminate| |discriminate].
  destruct K as [K|[K|K]]; subst e0.
  - inversion H; subst. exists j. split; [lia|]. split; [lia|]. split; [intros; lia|]. split; [exact E|]. right; auto.
  - inversion H; subst. exists j. split; [lia|]. split; [lia|]. split; [intros; lia|]. split; [exact E|]. left; reflexivity.
  - destruct (j + 1 <? DIVERSIFIER_SPACE) eqn:L; [|inversion H; congruence].
    destruct (IH k (j + 1) r e ltac:(lia) H N1 N2) as (j' & A & B & C & D & F).
    exists j'. split; [lia|]. split; [lia|]. split.
    + intros i Hi. destruct (N.eq_dec i j) as [->|Ne]; [exact E | apply C; lia].
    + split; [exact D|]. destruct F as [F|[F _]]; [left; exact F|].
      exfalso. subst e. exact (skip_excludes_srr k r j j' E D).
Qed.

Lemma find_exhausted_within_fuel : forall fuel k j r,
  j < DIVERSIFIER_SPACE ->
  uivk_find_address O fuel k j r = Err DiversifierSpaceExhausted ->
  (N.to_nat (DIVERSIFIER_SPACE - j) <= fuel)%nat /\ forall i, j <= i < DIVERSIFIER_SPACE -> skips k r i.
Proof.
  induction fuel as [|fuel IH]; intros k j r Hj H; [discriminate|].
  cbn [uivk_find_address] in H.
  pose proof (address_error_kinds O k j r) as K.
  destruct (uivk_address O k j r) as [a0|e0|] eqn:E; [discriminate| |discriminate].
  destruct K as [K|[K|K]]; subst e0; try discriminate.
  destruct (j + 1 <? DIVERSIFIER_SPACE) eqn:L.
  - destruct (IH k (j + 1) r ltac:(lia) H) as [A B]. split; [lia|].
    intros i Hi. destruct (N.eq_dec i j) as [->|Ne]; [exact E | apply B; lia].
  - split; [lia|]. intros i Hi. assert (i = j) as -> by lia. exact E.
Qed.

End Find.
