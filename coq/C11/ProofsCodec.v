(** C11 — proofs about the byte containers: CompactSize, the USK container, the ZIP 316 item
    container (sorting, ordering checks, raw encoding), and the UFVK / UIVK round trips.
    For all oracles; hypotheses on them are explicit. *)
From V.Lib Require Import Base Hex.
From V.Gen Require Import C11Consts.
From V.C11 Require Import Model Spec ProofsAddr.
From Coq Require Import ZifyBool.
Local Open Scope N_scope.

(* ------------------------------------------------------------------------------------------ *)
(** * Lists and little-endian integers *)

Lemma take_app (n : nat) (a b : bytes) : length a = n -> take n (a ++ b) = Some (a, b).
Proof.
  intros L. unfold take. rewrite app_length.
  destruct (length a + length b <? n)%nat eqn:E; [apply Nat.ltb_lt in E; lia|].
  rewrite firstn_app, skipn_app, L, Nat.sub_diag. subst n.
  rewrite firstn_all, skipn_all. simpl. rewrite app_nil_r. reflexivity.
Qed.

Lemma take_shorter n b x r : take n b = Some (x, r) -> (length r <= length b)%nat /\ length x = n.
Proof.
  unfold take. destruct (length b <? n)%nat eqn:E; [discriminate|]. apply Nat.ltb_ge in E.
  intros H; inversion H; subst. rewrite skipn_length, firstn_length. lia.
Qed.

Lemma take_lengths n b x r : take n b = Some (x, r) -> length b = (n + length r)%nat.
Proof.
  unfold take. destruct (length b <? n)%nat eqn:E; [discriminate|]. apply Nat.ltb_ge in E.
  intros H. injection H as <- <-. rewrite skipn_length. lia.
Qed.

Lemma of_le_le_bytes k : forall x, x < 256 ^ N.of_nat k -> of_le (le_bytes k x) = x.
Proof.
  induction k as [|k IH]; intros x Hx.
  - simpl in *. lia.
  - cbn [le_bytes of_le]. rewrite IH.
    + pose proof (N.div_mod x 256). lia.
    + rewrite Nat2N.inj_succ, N.pow_succ_r' in Hx. apply N.div_lt_upper_bound; lia.
Qed.

Lemma le_bytes_length k x : length (le_bytes k x) = k.
Proof. revert x; induction k; intros; simpl; auto. Qed.

Lemma blen_length (b : bytes) n : blen b = n -> length b = N.to_nat n.
Proof. unfold blen. intros <-. rewrite Nat2N.id. reflexivity. Qed.

(* ------------------------------------------------------------------------------------------ *)
(** * CompactSize *)

Lemma max_cs_val : MAX_COMPACT_SIZE = 33554432. Proof. reflexivity. Qed.
Lemma max_tc_val : MAX_TYPECODE = 33554432. Proof. reflexivity. Qed.

Theorem cs_roundtrip n r : n <= MAX_COMPACT_SIZE -> cs_read (cs_write n ++ r) = Some (n, r).
Proof.
  rewrite max_cs_val. intros Hn. unfold cs_write.
  destruct (n <? 253) eqn:A.
  - cbn [app cs_read]. rewrite A, max_cs_val.
    destruct (33554432 <? n) eqn:B; [lia | reflexivity].
  - destruct (n <=? 65535) eqn:B.
    + change ((253 :: le_bytes 2 n) ++ r) with (253 :: (le_bytes 2 n ++ r)).
      cbn [cs_read]. change (253 <? 253) with false. change (253 =? 253) with true. cbv iota.
      rewrite take_app by apply le_bytes_length.
      rewrite of_le_le_bytes by (change (256 ^ N.of_nat 2) with 65536; lia).
      rewrite A, max_cs_val. destruct (33554432 <? n) eqn:C; [lia | reflexivity].
    + assert (n <=? 4294967295 = true) as -> by lia.
      change ((254 :: le_bytes 4 n) ++ r) with (254 :: (le_bytes 4 n ++ r)).
      cbn [cs_read]. change (254 <? 253) with false. change (254 =? 253) with false.
      change (254 =? 254) with true. cbv iota.
      rewrite take_app by apply le_bytes_length.
      rewrite of_le_le_bytes by (change (256 ^ N.of_nat 4) with 4294967296; lia).
      destruct (n <? 65536) eqn:C; [lia|]. rewrite max_cs_val.
      destruct (33554432 <? n) eqn:D; [lia | reflexivity].
Qed.

Lemma cs_read_shorter b v r : cs_read b = Some (v, r) -> (length r < length b)%nat.
Proof.
  destruct b as [|f b]; [discriminate|]. cbn [cs_read].
  destruct (f <? 253).
  - destruct (MAX_COMPACT_SIZE <? f); [discriminate|]. intros H; inversion H; subst. simpl; lia.
  - destruct (f =? 253).
    + destruct (take 2 b) as [[x rest]|] eqn:T; [|discriminate].
      apply take_shorter in T. destruct (of_le x <? 253); [discriminate|].
      destruct (MAX_COMPACT_SIZE <? of_le x); [discriminate|]. intros H; inversion H; subst. simpl; lia.
    + destruct (f =? 254).
      * destruct (take 4 b) as [[x rest]|] eqn:T; [|discriminate].
        apply take_shorter in T. destruct (of_le x <? 65536); [discriminate|].
        destruct (MAX_COMPACT_SIZE <? of_le x); [discriminate|]. intros H; inversion H; subst. simpl; lia.
      * destruct (take 8 b) as [[x rest]|] eqn:T; [|discriminate].
        apply take_shorter in T. destruct (of_le x <? 4294967296); [discriminate|].
        destruct (MAX_COMPACT_SIZE <? of_le x); [discriminate|]. intros H; inversion H; subst. simpl; lia.
Qed.

Lemma cs_read_bounded b v r : cs_read b = Some (v, r) -> v <= MAX_COMPACT_SIZE.
Proof.
  destruct b as [|f b]; [discriminate|]. cbn [cs_read].
  repeat match goal with
         | |- context [if ?c then _ else _] => destruct c eqn:?
         | |- context [match take ?n ?b with _ => _ end] => destruct (take n b) as [[? ?]|]
         end; try discriminate; intros H; inversion H; subst; lia.
Qed.

Lemma cs_write_nonempty n : cs_write n <> [].
Proof. unfold cs_write. repeat match goal with |- context [if ?c then _ else _] => destruct c end; discriminate. Qed.

(* ------------------------------------------------------------------------------------------ *)
(** * USK container *)

Section Usk.
Variable O : oracles.

Definition usk_wf (k : usk) : Prop :=
  blen (usk_o k) = USK_ORCHARD_LEN /\ blen (usk_s k) = USK_SAPLING_LEN /\ blen (usk_t k) = USK_P2PKH_LEN
  /\ fixed_point (dec_o_sk O) (usk_o k) /\ fixed_point (dec_s_sk O) (usk_s k)
  /\ fixed_point (dec_t_sk O) (usk_t k)
  /\ t_sk_ivk O (usk_t k) <> None.

Lemma cs_read_small v r : v < 253 -> cs_read (v :: r) = Some (v, r).
Proof.
  intros H. cbn [cs_read]. destruct (v <? 253) eqn:A; [|lia]. rewrite max_cs_val.
  destruct (33554432 <? v) eqn:B; [lia | reflexivity].
Qed.

(** decoding an encoding gives the key back; trailing bytes are ignored *)
Theorem usk_roundtrip_suffix k junk :
  usk_wf k -> usk_from_bytes O (usk_to_bytes k ++ junk) = Ok k.
Proof.
  intros (Lo & Ls & Lt & Fo & Fs & Ft & D). destruct k as [t s o]. cbn [usk_o usk_s usk_t] in *.
  unfold usk_from_bytes, usk_to_bytes. cbn [usk_o usk_s usk_t].
  rewrite Lo, Ls, Lt.
  change (cs_write 3) with [3]. change (cs_write 2) with [2]. change (cs_write 0) with [0].
  change (cs_write USK_ORCHARD_LEN) with [32]. change (cs_write USK_SAPLING_LEN) with [169].
  change (cs_write USK_P2PKH_LEN) with [74].
  repeat rewrite <- app_assoc.
  rewrite take_app by apply le_bytes_length.
  assert (of_le (le_bytes 4 ERA_ORCHARD_ID) = ERA_ORCHARD_ID) as -> by reflexivity.
  unfold era_of_id. rewrite N.eqb_refl.
  (* fuel: the encoding has at least 3 bytes *)
  remember (length (le_bytes 4 ERA_ORCHARD_ID ++ [3] ++ [32] ++ o ++ [2] ++ [169] ++ s ++ [0] ++ [74] ++ t ++ junk)) as fuel eqn:Hf.
  assert (exists f, fuel = S (S (S f))) as (f & ->).
  { rewrite Hf. repeat rewrite app_length. rewrite le_bytes_length. simpl length.
    exists (length o + length s + length t + length junk + 7)%nat. lia. }
  clear Hf.
  apply blen_length in Lo, Ls, Lt.
  (* iteration 1: Orchard *)
  cbn [usk_loop app]. rewrite cs_read_small by lia.
  change (tc_of_u32 3) with (Some TcOrchard). cbv iota beta.
  rewrite cs_read_small by lia. rewrite N.eqb_refl. cbn [negb].
  rewrite take_app by exact Lo. rewrite Fo.
  (* iteration 2: Sapling *)
  cbn [usk_loop app]. rewrite cs_read_small by lia.
  change (tc_of_u32 2) with (Some TcSapling). cbv iota beta.
  rewrite cs_read_small by (unfold USK_SAPLING_LEN; lia). rewrite N.eqb_refl. cbn [negb].
  rewrite take_app by exact Ls. rewrite Fs.
  (* iteration 3: transparent *)
  cbn [usk_loop app]. rewrite cs_read_small by lia.
  change (tc_of_u32 0) with (Some TcP2pkh). cbv iota beta.
  rewrite cs_read_small by lia. rewrite N.eqb_refl. cbn [negb].
  rewrite take_app by exact Lt. rewrite Ft.
  unfold usk_from_checked_parts. destruct (t_sk_ivk O t); [reflexivity | congruence].
Qed.

Theorem usk_roundtrip k : usk_wf k -> usk_from_bytes O (usk_to_bytes k) = Ok k.
Proof. intros H. rewrite <- (app_nil_r (usk_to_bytes k)). apply usk_roundtrip_suffix, H. Qed.

(** the encoding is injective on well-formed keys, hence re-encoding the decoded key gives the
    same bytes *)
Theorem usk_reencode k :
  usk_wf k ->
  match usk_from_bytes O (usk_to_bytes k) with
  | Ok k' => usk_to_bytes k' = usk_to_bytes k
  | _ => False
  end.
Proof. intros H. rewrite usk_roundtrip by exact H. reflexivity. Qed.

(** a decoded key satisfies the constructor invariant and every component went through its
    primitive decoder *)
Lemma usk_loop_ok fuel : sk_coherent O -> forall src o s t k,
  usk_loop O fuel src o s t = Ok k ->
  ufvk_derivable O (usk_to_ufvk O k).
Proof.
  intros CO. induction fuel as [|fuel IH]; intros src o s t k H; [discriminate|].
  cbn [usk_loop] in H.
  destruct (cs_read src) as [[v src1]|]; [|discriminate].
  destruct (tc_of_u32 v) as [c|]; [|discriminate].
  destruct (cs_read src1) as [[len src2]|]; [|discriminate].
  assert (G : forall o s t rest,
    match o, s, t with
    | Some ko, Some ks, Some kt =>
        match usk_from_checked_parts O kt ks ko with Ok k => Ok k | _ => Err (KeyDataInvalid TcP2pkh) end
    | _, _, _ => usk_loop O fuel rest o s t
    end = Ok k -> ufvk_derivable O (usk_to_ufvk O k)).
  { intros o' s' t' rest G.
    destruct o' as [ko|]; [|eapply IH; exact G].
    destruct s' as [ks|]; [|eapply IH; exact G].
    destruct t' as [kt|]; [|eapply IH; exact G].
    destruct (usk_from_checked_parts O kt ks ko) eqn:E; try discriminate.
    inversion G; subst. apply usk_from_checked_parts_derivable in E; [tauto | exact CO]. }
  destruct c; try discriminate.
  - destruct (negb (len =? USK_P2PKH_LEN)); [discriminate|].
    destruct (take (N.to_nat USK_P2PKH_LEN) src2) as [[key rest]|]; [|discriminate].
    destruct (dec_t_sk O key) as [kk| |]; try discriminate. exact (G o s (Some kk) rest H).
  - destruct (negb (len =? USK_SAPLING_LEN)); [discriminate|].
    destruct (take (N.to_nat USK_SAPLING_LEN) src2) as [[key rest]|]; [|discriminate].
    destruct (dec_s_sk O key) as [kk| |]; try discriminate. exact (G o (Some kk) t rest H).
  - destruct (negb (len =? USK_ORCHARD_LEN)); [discriminate|].
    destruct (take (N.to_nat USK_ORCHARD_LEN) src2) as [[key rest]|]; [|discriminate].
    destruct (dec_o_sk O key) as [kk| |]; try discriminate. exact (G (Some kk) s t rest H).
Qed.

Theorem usk_from_bytes_derivable b k :
  sk_coherent O -> usk_from_bytes O b = Ok k -> ufvk_derivable O (usk_to_ufvk O k).
Proof.
  intros CO. unfold usk_from_bytes. destruct (take 4 b) as [[e src]|]; [|discriminate].
  destruct (era_of_id (of_le e)); [|discriminate]. apply usk_loop_ok. exact CO.
Qed.

(** totality relative to the oracles: no panic unless a primitive decoder panics, and the
    model's fuel always suffices *)
Definition decoders_total : Prop :=
  (forall x, dec_o_sk O x <> OPanic) /\ (forall x, dec_s_sk O x <> OPanic) /\ (forall x, dec_t_sk O x <> OPanic).

Lemma usk_loop_total fuel : forall src o s t,
  decoders_total -> (length src < fuel)%nat ->
  usk_loop O fuel src o s t <> Panic /\ usk_loop O fuel src o s t <> Err OutOfFuel.
Proof.
  induction fuel as [|fuel IH]; intros src o s t DT L; [lia|].
  destruct DT as (Do & Ds & Dt). cbn [usk_loop].
  destruct (cs_read src) as [[v src1]|] eqn:R1; [|split; discriminate].
  apply cs_read_shorter in R1.
  destruct (tc_of_u32 v) as [c|]; [|split; discriminate].
  destruct (cs_read src1) as [[len src2]|] eqn:R2; [|split; discriminate].
  apply cs_read_shorter in R2.
  assert (G : forall o s t rest, (length rest <= length src2)%nat ->
    let r := match o, s, t with
    | Some ko, Some ks, Some kt =>
        match usk_from_checked_parts O kt ks ko with Ok k => Ok k | _ => Err (KeyDataInvalid TcP2pkh) end
    | _, _, _ => usk_loop O fuel rest o s t
    end in r <> Panic /\ r <> Err OutOfFuel).
  { intros o' s' t' rest Lr. cbv zeta.
    assert (IH' : usk_loop O fuel rest o' s' t' <> Panic /\ usk_loop O fuel rest o' s' t' <> Err OutOfFuel)
      by (apply IH; [repeat split; assumption | lia]).
    destruct o' as [ko|]; [|exact IH']. destruct s' as [ks|]; [|exact IH']. destruct t' as [kt|]; [|exact IH'].
    destruct (usk_from_checked_parts O kt ks ko); split; discriminate. }
  destruct c; try (split; discriminate).
  - destruct (negb (len =? USK_P2PKH_LEN)); [split; discriminate|].
    destruct (take (N.to_nat USK_P2PKH_LEN) src2) as [[key rest]|] eqn:T; [|split; discriminate].
    apply take_shorter in T. specialize (Dt key).
    destruct (dec_t_sk O key) as [kk| |]; [apply (G o s (Some kk) rest); lia | split; discriminate | congruence].
  - destruct (negb (len =? USK_SAPLING_LEN)); [split; discriminate|].
    destruct (take (N.to_nat USK_SAPLING_LEN) src2) as [[key rest]|] eqn:T; [|split; discriminate].
    apply take_shorter in T. specialize (Ds key).
    destruct (dec_s_sk O key) as [kk| |]; [apply (G o (Some kk) t rest); lia | split; discriminate | congruence].
  - destruct (negb (len =? USK_ORCHARD_LEN)); [split; discriminate|].
    destruct (take (N.to_nat USK_ORCHARD_LEN) src2) as [[key rest]|] eqn:T; [|split; discriminate].
    apply take_shorter in T. specialize (Do key).
    destruct (dec_o_sk O key) as [kk| |]; [apply (G (Some kk) s t rest); lia | split; discriminate | congruence].
Qed.

Theorem usk_from_bytes_total b :
  decoders_total -> usk_from_bytes O b <> Panic /\ usk_from_bytes O b <> Err OutOfFuel.
Proof.
  intros DT. unfold usk_from_bytes. destruct (take 4 b) as [[e src]|] eqn:T; [|split; discriminate].
  destruct (era_of_id (of_le e)); [|split; discriminate].
  apply usk_loop_total; [exact DT|].
  apply take_lengths in T. lia.
Qed.

End Usk.

(* ------------------------------------------------------------------------------------------ *)
(** * Sorting the items of a key *)

Lemma enc_cmp_lt x y : fst x < fst y -> enc_cmp x y = Lt.
Proof. unfold enc_cmp. intros H. apply N.compare_lt_iff in H. rewrite H. reflexivity. Qed.
Lemma enc_cmp_gt x y : fst y < fst x -> enc_cmp x y = Gt.
Proof. unfold enc_cmp. intros H. apply N.compare_gt_iff in H. rewrite H. reflexivity. Qed.

Lemma insert_skip x K R : (forall y, In y K -> fst y < fst x) -> insert x (K ++ R) = K ++ insert x R.
Proof.
  induction K as [|y K IH]; intros H; [reflexivity|].
  cbn [app insert]. rewrite enc_cmp_gt by (apply H; left; reflexivity).
  rewrite IH by (intros z Hz; apply H; right; exact Hz). reflexivity.
Qed.

Lemma insert_head x R : match R with [] => True | y :: _ => fst x < fst y end -> insert x R = x :: R.
Proof. destruct R as [|y R]; intros H; [reflexivity|]. cbn [insert]. rewrite enc_cmp_lt by exact H. reflexivity. Qed.

Lemma strictly_ascending_head p U : strictly_ascending p U -> match U with [] => True | y :: _ => p < fst y end.
Proof. destruct U as [|[t d] U]; simpl; tauto. Qed.

Lemma sort_unknown K : forall U p,
  strictly_ascending p U -> (forall y, In y K -> fst y <= p) -> fold_right insert K U = K ++ U.
Proof.
  induction U as [|[t d] U IH]; intros p A HK; [simpl; rewrite app_nil_r; reflexivity|].
  destruct A as (A1 & A2 & A3). cbn [fold_right].
  rewrite (IH t A3) by (intros y Hy; specialize (HK y Hy); lia).
  rewrite insert_skip by (intros y Hy; specialize (HK y Hy); cbn [fst]; lia).
  rewrite insert_head; [reflexivity|]. apply strictly_ascending_head in A3. exact A3.
Qed.

(** the canonical item list of a key: transparent, Sapling, Orchard, then unknown items *)
Definition canon_items (t s o : option bytes) (u : list item) : list item :=
  oapp (option_map (pair 0) t) ++ oapp (option_map (pair 2) s) ++ oapp (option_map (pair 3) o) ++ u.

Lemma sort_key_items t s o u :
  unknown_ok u ->
  sort_items (u ++ oapp (option_map (pair 3) o) ++ oapp (option_map (pair 2) s) ++ oapp (option_map (pair 0) t))
  = canon_items t s o u.
Proof.
  intros U. unfold sort_items, canon_items. rewrite fold_right_app.
  set (K := fold_right insert [] (oapp (option_map (pair 3) o) ++ oapp (option_map (pair 2) s) ++ oapp (option_map (pair 0) t))).
  assert (HK : K = oapp (option_map (pair 0) t) ++ oapp (option_map (pair 2) s) ++ oapp (option_map (pair 3) o)).
  { subst K. destruct o, s, t; reflexivity. }
  rewrite (sort_unknown K u 3 U).
  - rewrite HK. repeat rewrite <- app_assoc. reflexivity.
  - rewrite HK. intros y Hy. destruct t, s, o; cbn in Hy;
      repeat (destruct Hy as [<-|Hy]; [cbn; lia|]); destruct Hy.
Qed.

(* ------------------------------------------------------------------------------------------ *)
(** * Ordering checks on canonical item lists *)

Lemma tc_of_u32_unknown t : 4 <= t -> t <= MAX_TYPECODE -> tc_of_u32 t = Some (TcUnknown t).
Proof.
  intros A B. unfold tc_of_u32.
  destruct (t =? 0) eqn:E0; [lia|]. destruct (t =? 1) eqn:E1; [lia|].
  destruct (t =? 2) eqn:E2; [lia|]. destruct (t =? 3) eqn:E3; [lia|].
  destruct (t <=? MAX_TYPECODE) eqn:E4; [reflexivity | lia].
Qed.

Lemma tfi_unknown : forall U p prev b,
  3 <= p -> match prev with Some q => q <= p | None => True end -> strictly_ascending p U ->
  tfi_loop U prev b = Ok (match U with [] => b | _ => false end).
Proof.
  induction U as [|[t d] U IH]; intros p prev b P Q A; [reflexivity|].
  destruct A as (A1 & A2 & A3). cbn [tfi_loop].
  assert (E1 : match prev with Some p0 => t <? p0 | None => false end = false)
    by (destruct prev; [lia | reflexivity]).
  assert (E2 : match prev with Some p0 => t =? p0 | None => false end = false)
    by (destruct prev; [lia | reflexivity]).
  rewrite E1, E2. destruct (t =? 1) eqn:E3; [lia|]. cbn [andb].
  rewrite tc_of_u32_unknown by lia. cbn [tc_is_transparent]. rewrite andb_false_r.
  rewrite (IH t) by (try lia; exact A3). destruct U; reflexivity.
Qed.

Lemma tfi_step_known c d rest prev b :
  c = 0 \/ c = 2 \/ c = 3 -> match prev with Some q => q < c | None => True end ->
  tfi_loop ((c, d) :: rest) prev b = tfi_loop rest (Some c) (b && (c =? 0)).
Proof.
  intros C Q. cbn [tfi_loop].
  assert (E1 : match prev with Some p0 => c <? p0 | None => false end = false)
    by (destruct prev; [lia | reflexivity]).
  assert (E2 : match prev with Some p0 => c =? p0 | None => false end = false)
    by (destruct prev; [lia | reflexivity]).
  rewrite E1, E2. destruct C as [ -> | [ -> | -> ] ]; reflexivity.
Qed.

Definition has_non_transparent (s o : option bytes) (u : list item) : bool :=
  is_some s || is_some o || match u with [] => false | _ => true end.

Lemma tfi_canon t s o u :
  unknown_ok u ->
  try_from_items_internal (canon_items t s o u)
  = if has_non_transparent s o u then Ok (canon_items t s o u) else Err OnlyTransparent.
Proof.
  intros U. unfold try_from_items_internal, canon_items, has_non_transparent.
  destruct t as [t|], s as [s|], o as [o|]; cbn [oapp option_map app is_some orb];
    repeat (rewrite tfi_step_known by (cbn; auto; lia)); cbn [andb N.eqb Pos.eqb];
    rewrite (tfi_unknown u 3) by (cbn; try lia; try exact U; auto);
    destruct u; reflexivity.
Qed.

(* ------------------------------------------------------------------------------------------ *)
(** * UFVK / UIVK <-> items *)

Lemma parse_loop_unknown dt ds do_ : forall U p t s o unk,
  3 <= p -> strictly_ascending p U ->
  parse_loop dt ds do_ U t s o unk = Ok (t, s, o, rev unk ++ U).
Proof.
  induction U as [|[c d] U IH]; intros p t s o unk P A.
  - simpl. rewrite app_nil_r. reflexivity.
  - destruct A as (A1 & A2 & A3). cbn [parse_loop].
    rewrite tc_of_u32_unknown by lia.
    rewrite (IH c) by (try lia; exact A3). cbn [rev]. rewrite <- app_assoc. reflexivity.
Qed.

Lemma parse_loop_canon dt ds do_ t s o u :
  unknown_ok u ->
  opt_all (fixed_point dt) t -> opt_all (fixed_point ds) s -> opt_all (fixed_point do_) o ->
  parse_loop dt ds do_ (canon_items t s o u) None None None [] = Ok (t, s, o, u).
Proof.
  intros U Ft Fs Fo. unfold canon_items.
  destruct t as [t|], s as [s|], o as [o|]; cbn [oapp option_map app parse_loop opt_all] in *;
    repeat (change (tc_of_u32 0) with (Some TcP2pkh) || change (tc_of_u32 2) with (Some TcSapling)
            || change (tc_of_u32 3) with (Some TcOrchard)); cbv iota;
    unfold fixed_point in *; rewrite ?Ft, ?Fs, ?Fo;
    repeat (change (tc_of_u32 0) with (Some TcP2pkh) || change (tc_of_u32 2) with (Some TcSapling)
            || change (tc_of_u32 3) with (Some TcOrchard)); cbv iota; rewrite ?Ft, ?Fs, ?Fo;
    repeat (change (tc_of_u32 0) with (Some TcP2pkh) || change (tc_of_u32 2) with (Some TcSapling)
            || change (tc_of_u32 3) with (Some TcOrchard)); cbv iota; rewrite ?Ft, ?Fs, ?Fo;
    rewrite (parse_loop_unknown dt ds do_ u 3) by (try lia; exact U); reflexivity.
Qed.

Section Keys.
Variable O : oracles.

Definition ufvk_wf (k : ufvk) : Prop :=
  opt_all (fixed_point (dec_t_fvk O)) (fvk_t k) /\ opt_all (fixed_point (dec_s_fvk O)) (fvk_s k)
  /\ opt_all (fixed_point (dec_o_fvk O)) (fvk_o k) /\ unknown_ok (fvk_unknown k)
  /\ ufvk_derivable O k.

Definition uivk_wf (k : uivk) : Prop :=
  opt_all (fixed_point (dec_t_ivk O)) (ivk_t k) /\ opt_all (fixed_point (dec_s_ivk O)) (ivk_s k)
  /\ opt_all (fixed_point (dec_o_ivk O)) (ivk_o k) /\ unknown_ok (ivk_unknown k).

(** a key is encodable iff it has something besides a transparent component *)
Definition ufvk_encodable (k : ufvk) : bool := has_non_transparent (fvk_s k) (fvk_o k) (fvk_unknown k).
Definition uivk_encodable (k : uivk) : bool := has_non_transparent (ivk_s k) (ivk_o k) (ivk_unknown k).

Lemma ufvk_container k :
  unknown_ok (fvk_unknown k) ->
  to_container (ufvk_items k)
  = if ufvk_encodable k then Ok (canon_items (fvk_t k) (fvk_s k) (fvk_o k) (fvk_unknown k)) else Panic.
Proof.
  intros U. unfold to_container, try_from_items, ufvk_items, ufvk_encodable.
  rewrite sort_key_items by exact U. rewrite tfi_canon by exact U.
  destruct (has_non_transparent _ _ _); reflexivity.
Qed.

Lemma uivk_container k :
  unknown_ok (ivk_unknown k) ->
  to_container (uivk_items k)
  = if uivk_encodable k then Ok (canon_items (ivk_t k) (ivk_s k) (ivk_o k) (ivk_unknown k)) else Panic.
Proof.
  intros U. unfold to_container, try_from_items, uivk_items, uivk_encodable.
  rewrite sort_key_items by exact U. rewrite tfi_canon by exact U.
  destruct (has_non_transparent _ _ _); reflexivity.
Qed.

(** container-level round trip, unknown items preserved *)
Theorem ufvk_roundtrip_items k :
  ufvk_wf k -> ufvk_encodable k = true ->
  exists c, to_container (ufvk_items k) = Ok c /\ ufvk_parse O c = Ok k.
Proof.
  intros (Ft & Fs & Fo & U & D) E. rewrite ufvk_container by exact U. rewrite E.
  eexists; split; [reflexivity|]. unfold ufvk_parse.
  rewrite parse_loop_canon by assumption.
  unfold ufvk_from_checked_parts. destruct k as [t s o u]; cbn [fvk_t fvk_s fvk_o fvk_unknown] in *.
  unfold ufvk_derivable in D. cbn [fvk_t] in D.
  destruct t as [pk|]; [|reflexivity]. destruct (t_pk_ivk O pk); [reflexivity | congruence].
Qed.

Theorem uivk_roundtrip_items k :
  uivk_wf k -> uivk_encodable k = true ->
  exists c, to_container (uivk_items k) = Ok c /\ uivk_parse O c = Ok k.
Proof.
  intros (Ft & Fs & Fo & U) E. rewrite uivk_container by exact U. rewrite E.
  eexists; split; [reflexivity|]. unfold uivk_parse.
  rewrite parse_loop_canon by assumption. destruct k; reflexivity.
Qed.

(** encoding panics exactly on keys with nothing but a transparent component *)
Theorem ufvk_encode_panics net k :
  unknown_ok (fvk_unknown k) -> (ufvk_encode net k = Panic <-> ufvk_encodable k = false).
Proof.
  intros U. unfold ufvk_encode. rewrite ufvk_container by exact U.
  destruct (ufvk_encodable k); split; intros H; try discriminate; reflexivity.
Qed.

End Keys.

(* ------------------------------------------------------------------------------------------ *)
(** * Raw item encoding *)

Definition item_ok (k : ukind) (i : item) : Prop :=
  fst i <= MAX_TYPECODE /\ blen (snd i) <= MAX_COMPACT_SIZE /\ item_try_from k (fst i) (snd i) = Ok i.

Lemma item_raw_read k i rest :
  item_ok k i ->
  exists b1 b2,
    cs_read (item_raw i ++ rest) = Some (fst i, b1) /\ cs_read b1 = Some (blen (snd i), b2)
    /\ take (N.to_nat (blen (snd i))) b2 = Some (snd i, rest).
Proof.
  intros (A & B & _). unfold item_raw. repeat rewrite <- app_assoc.
  eexists; eexists. split; [apply cs_roundtrip; rewrite max_cs_val; rewrite max_tc_val in A; exact A|].
  split; [apply cs_roundtrip; exact B|]. apply take_app. unfold blen. rewrite Nat2N.id. reflexivity.
Qed.

Lemma read_items_raw k : forall c fuel,
  Forall (item_ok k) c -> (length c <= fuel)%nat -> read_items k fuel (items_raw c) = Ok c.
Proof.
  induction c as [|i c IH]; intros fuel F L.
  - destruct fuel; reflexivity.
  - inversion F as [|? ? Hi Hc]; subst. destruct fuel as [|fuel]; [simpl in L; lia|].
    unfold items_raw. cbn [flat_map]. fold (items_raw c).
    destruct (item_raw_read k i (items_raw c) Hi) as (b1 & b2 & R1 & R2 & T).
    cbn [read_items].
    destruct (item_raw i ++ items_raw c) eqn:E.
    { exfalso. unfold item_raw in E. apply app_eq_nil in E. destruct E as [E _].
      apply app_eq_nil in E. destruct E as [E _]. exact (cs_write_nonempty _ E). }
    rewrite R1, R2, T. destruct Hi as (_ & _ & Hi). rewrite Hi.
    rewrite IH by (try exact Hc; simpl in L; lia). reflexivity.
Qed.

Lemma hrp_of_len k net : (length (hrp_of k net) <= 16)%nat.
Proof. unfold hrp_of. destruct k; destruct (net =? 0); try (simpl; lia); destruct (net =? 1); simpl; lia. Qed.

Lemma padding_length hrp : (length hrp <= 16)%nat -> length (padding hrp) = 16%nat.
Proof. intros H. unfold padding. rewrite app_length, repeat_length. lia. Qed.

Lemma bytes_eqb_refl b : bytes_eqb b b = true.
Proof. induction b as [|x b IH]; [reflexivity|]. cbn. rewrite N.eqb_refl. exact IH. Qed.

Theorem parse_items_raw k hrp c :
  (length hrp <= 16)%nat -> Forall (item_ok k) c ->
  parse_items k hrp (container_raw hrp c) = Ok c.
Proof.
  intros H F. unfold parse_items, container_raw.
  pose proof (padding_length hrp H) as P.
  rewrite app_length, P.
  destruct (length (items_raw c) + 16 <? 16)%nat eqn:E; [apply Nat.ltb_lt in E; lia|].
  replace (length (items_raw c) + 16 - 16)%nat with (length (items_raw c)) by lia.
  rewrite skipn_app, skipn_all, Nat.sub_diag. cbn [skipn app].
  rewrite bytes_eqb_refl.
  rewrite firstn_app, firstn_all, Nat.sub_diag. cbn [firstn]. rewrite app_nil_r.
  apply read_items_raw; [exact F|].
  clear -F. induction F as [|i c Hi _ IH]; [simpl; lia|].
  unfold items_raw. cbn [flat_map length]. rewrite app_length. fold (items_raw c).
  assert (1 <= length (item_raw i))%nat.
  { unfold item_raw. rewrite app_length. pose proof (cs_write_nonempty (fst i)).
    destruct (cs_write (fst i)); [congruence | simpl; lia]. }
  lia.
Qed.

Lemma hrp_network_of k net : net < 3 -> hrp_network k (hrp_of k net) = Some net.
Proof.
  intros H. assert (net = 0 \/ net = 1 \/ net = 2) as [ -> | [ -> | -> ] ] by lia; destruct k; reflexivity.
Qed.

(** items of a well-formed key are well-formed container items *)
Definition comp_len_ok (kd : ukind) (t s o : option bytes) : Prop :=
  opt_all (fun b => Some (blen b) = item_len kd TcP2pkh) t
  /\ opt_all (fun b => Some (blen b) = item_len kd TcSapling) s
  /\ opt_all (fun b => Some (blen b) = item_len kd TcOrchard) o.

Fixpoint unknown_sizes_ok (u : list item) : Prop :=
  match u with [] => True | (_, d) :: r => blen d <= MAX_COMPACT_SIZE /\ unknown_sizes_ok r end.

Lemma unknown_items_ok kd : forall u p, 3 <= p -> strictly_ascending p u -> unknown_sizes_ok u -> Forall (item_ok kd) u.
Proof.
  induction u as [|[c d] u IH]; intros p P A S; [constructor|].
  destruct A as (A1 & A2 & A3). destruct S as (S1 & S2). constructor.
  - unfold item_ok. cbn [fst snd]. split; [exact A2|]. split; [exact S1|].
    unfold item_try_from. rewrite tc_of_u32_unknown by lia. reflexivity.
  - apply (IH c); [lia | exact A3 | exact S2].
Qed.

Lemma canon_items_ok kd t s o u :
  comp_len_ok kd t s o -> unknown_ok u -> unknown_sizes_ok u -> Forall (item_ok kd) (canon_items t s o u).
Proof.
  intros (Lt & Ls & Lo) U S. unfold canon_items.
  assert (K : forall c tcv (x : option bytes),
             tc_of_u32 c = Some tcv -> c <= 3 -> (match tcv with TcP2sh | TcUnknown _ => False | _ => True end) ->
             opt_all (fun b => Some (blen b) = item_len kd tcv) x ->
             Forall (item_ok kd) (oapp (option_map (pair c) x))).
  { intros c tcv x E C NT H. destruct x as [b|]; [|constructor]. constructor; [|constructor].
    cbn [opt_all] in H. unfold item_ok. cbn [fst snd].
    assert (blen b <= MAX_COMPACT_SIZE).
    { destruct kd, tcv; cbn [item_len] in H; try contradiction; injection H as ->; vm_compute; discriminate. }
    split; [rewrite max_tc_val; lia|]. split; [assumption|].
    unfold item_try_from. rewrite E. destruct tcv; try contradiction; rewrite <- H, N.eqb_refl; reflexivity. }
  apply Forall_app; split; [|apply Forall_app; split; [|apply Forall_app; split]].
  - apply (K 0 TcP2pkh); [reflexivity | lia | exact I | exact Lt].
  - apply (K 2 TcSapling); [reflexivity | lia | exact I | exact Ls].
  - apply (K 3 TcOrchard); [reflexivity | lia | exact I | exact Lo].
  - apply (unknown_items_ok kd u 3); [lia | exact U | exact S].
Qed.

Section Strings.
Variable O : oracles.

(** full round trip below Bech32m / F4Jumble: decoding what [encode] hands to F4Jumble gives the
    key back, for every network; a string for another network is rejected *)
Theorem ufvk_roundtrip net k :
  net < 3 -> ufvk_wf O k -> ufvk_encodable k = true ->
  comp_len_ok KFvk (fvk_t k) (fvk_s k) (fvk_o k) -> unknown_sizes_ok (fvk_unknown k) ->
  exists hrp raw, ufvk_encode net k = Ok (hrp, raw)
    /\ ufvk_decode O net (Bech hrp (Some raw)) = Ok k
    /\ forall net', net' <> net -> ufvk_decode O net' (Bech hrp (Some raw)) = Err ENetwork.
Proof.
  intros N W E L S. pose proof W as (Ft & Fs & Fo & U & D).
  unfold ufvk_encode. rewrite ufvk_container by exact U. rewrite E.
  eexists; eexists; split; [reflexivity|].
  assert (P : container_decode KFvk (Bech (hrp_of KFvk net)
               (Some (container_raw (hrp_of KFvk net) (canon_items (fvk_t k) (fvk_s k) (fvk_o k) (fvk_unknown k)))))
              = Ok (net, canon_items (fvk_t k) (fvk_s k) (fvk_o k) (fvk_unknown k))).
  { unfold container_decode. rewrite hrp_network_of by exact N.
    unfold parse_internal. rewrite parse_items_raw by (try apply hrp_of_len; apply canon_items_ok; assumption).
    rewrite tfi_canon by exact U. fold (ufvk_encodable k). rewrite E. reflexivity. }
  split.
  - unfold ufvk_decode. rewrite P, N.eqb_refl. cbn [negb].
    destruct (ufvk_roundtrip_items O k W E) as (c & C1 & C2).
    rewrite ufvk_container in C1 by exact U. rewrite E in C1. inversion C1; subst. rewrite C2. reflexivity.
  - intros net' Hn. unfold ufvk_decode. rewrite P.
    destruct (net =? net') eqn:X; [apply N.eqb_eq in X; congruence | reflexivity].
Qed.

Theorem uivk_roundtrip net k :
  net < 3 -> uivk_wf O k -> uivk_encodable k = true ->
  comp_len_ok KIvk (ivk_t k) (ivk_s k) (ivk_o k) -> unknown_sizes_ok (ivk_unknown k) ->
  exists hrp raw, uivk_encode net k = Ok (hrp, raw)
    /\ uivk_decode O net (Bech hrp (Some raw)) = Ok k
    /\ forall net', net' <> net -> uivk_decode O net' (Bech hrp (Some raw)) = Err ENetwork.
Proof.
  intros N W E L S. pose proof W as (Ft & Fs & Fo & U).
  unfold uivk_encode. rewrite uivk_container by exact U. rewrite E.
  eexists; eexists; split; [reflexivity|].
  assert (P : container_decode KIvk (Bech (hrp_of KIvk net)
               (Some (container_raw (hrp_of KIvk net) (canon_items (ivk_t k) (ivk_s k) (ivk_o k) (ivk_unknown k)))))
              = Ok (net, canon_items (ivk_t k) (ivk_s k) (ivk_o k) (ivk_unknown k))).
  { unfold container_decode. rewrite hrp_network_of by exact N.
    unfold parse_internal. rewrite parse_items_raw by (try apply hrp_of_len; apply canon_items_ok; assumption).
    rewrite tfi_canon by exact U. fold (uivk_encodable k). rewrite E. reflexivity. }
  split.
  - unfold uivk_decode. rewrite P, N.eqb_refl. cbn [negb].
    destruct (uivk_roundtrip_items O k W E) as (c & C1 & C2).
    rewrite uivk_container in C1 by exact U. rewrite E in C1. inversion C1; subst. rewrite C2. reflexivity.
  - intros net' Hn. unfold uivk_decode. rewrite P.
    destruct (net =? net') eqn:X; [apply N.eqb_eq in X; congruence | reflexivity].
Qed.

(** a decoded key re-encodes (it is never transparent-only) and satisfies the constructor
    invariant, so address derivation from it cannot panic *)
Theorem ufvk_parse_derivable c k : ufvk_parse O c = Ok k -> ufvk_derivable O k.
Proof.
  unfold ufvk_parse.
  destruct (parse_loop _ _ _ c None None None []) as [[[[t s] o] u]| |]; try discriminate.
  destruct (ufvk_from_checked_parts O t s o u) eqn:E; try discriminate.
  intros H; inversion H; subst. apply ufvk_from_checked_parts_derivable in E. tauto.
Qed.

(** the decoded key derives the same addresses at every index and for every request *)
Theorem ufvk_roundtrip_addresses net k :
  net < 3 -> ufvk_wf O k -> ufvk_encodable k = true ->
  comp_len_ok KFvk (fvk_t k) (fvk_s k) (fvk_o k) -> unknown_sizes_ok (fvk_unknown k) ->
  exists hrp raw k', ufvk_encode net k = Ok (hrp, raw)
    /\ ufvk_decode O net (Bech hrp (Some raw)) = Ok k'
    /\ ufvk_encode net k' = Ok (hrp, raw)
    /\ forall j r, ufvk_address O k' j r = ufvk_address O k j r /\ ufvk_address O k j r <> Panic.
Proof.
  intros N W E L S. destruct (ufvk_roundtrip net k N W E L S) as (hrp & raw & A & B & _).
  exists hrp, raw, k. repeat split; try assumption.
  destruct W as (_ & _ & _ & _ & D). destruct (address_commutes_ufvk O k j r D) as (i & _ & X & _).
  rewrite X. apply address_never_panics.
Qed.

Theorem usk_roundtrip_addresses k :
  sk_coherent O -> usk_wf O k ->
  exists k', usk_from_bytes O (usk_to_bytes k) = Ok k' /\ usk_to_bytes k' = usk_to_bytes k
    /\ forall j r, usk_address O k' j r = usk_address O k j r /\ usk_address O k j r <> Panic.
Proof.
  intros CO W. exists k. split; [apply usk_roundtrip, W|]. split; [reflexivity|]. intros j r. split; [reflexivity|].
  destruct W as (_ & _ & _ & _ & _ & _ & D).
  assert (D' : ufvk_derivable O (usk_to_ufvk O k)) by (unfold ufvk_derivable; cbn; apply CO; exact D).
  destruct (address_commutes O k j r D') as (i & _ & X & Y). rewrite X, Y. apply address_never_panics.
Qed.

End Strings.
