(** C11 — correspondence cases for gap_limits.rs. *)
From V.Lib Require Import Base Hex.
From V.Gen Require Import C11Consts.
From V.C11 Require Import Model Spec Tab Eqb Gap.
Local Open Scope N_scope.

Definition sivk_of (t : otab) : bytes -> N -> option bytes := fun pk sc => look_opt t 22 pk sc.

Definition gaddr_eqb (a b : gaddr) : bool :=
  match a, b with
  | GUnified x, GUnified y => ua_eqb x y
  | GTransparent x, GTransparent y => bytes_eqb x y
  | _, _ => false
  end.
Definition gerr_eqb (a b : gerr) : bool :=
  match a, b with
  | GAddr x, GAddr y => aerr_eqb x y
  | GBip32, GBip32 => true
  | GUnsupportedScope x, GUnsupportedScope y => x =? y
  | _, _ => false
  end.
Definition gg_err_eqb (a b : gg_err) : bool :=
  match a, b with
  | GGStorage, GGStorage => true
  | GGAddress x, GGAddress y => gerr_eqb x y
  | _, _ => false
  end.
Definition gentry := (gaddr * bytes * N)%type.
Definition gentry_eqb (a b : gentry) : bool :=
  gaddr_eqb (fst (fst a)) (fst (fst b)) && bytes_eqb (snd (fst a)) (snd (fst b)) && (snd a =? snd b).
Definition glist_eqb := list_eqb gentry_eqb.
Definition gunit_eqb (_ _ : unit) := true.

Inductive gcase :=
| GLimit (e i p scope : N) (o : option N)
| GList (t : otab) (k : uivk) (f : option ufvk) (scope : N) (r : request) (start end_ : N)
        (require_key : bool) (o : outcome (list gentry) gerr)
| GGen (t : otab) (g : gap_limits) (k : uivk) (f : option ufvk) (scope : N) (r : request)
       (require_key : bool) (find : outcome (option N) unit) (store_ok : bool)
       (o : outcome (option (list gentry)) gg_err).

Definition grun (c : gcase) : bool :=
  match c with
  | GLimit e i p scope o => option_eqb N.eqb (limit_for (mkGapLimits e i p) scope) o
  | GList t k f scope r s e rk o =>
      outcome_eqb glist_eqb gerr_eqb
        (generate_address_list (orc_of t) (sivk_of t) k f scope r s e rk) o
  | GGen t g k f scope r rk find st o =>
      outcome_eqb (option_eqb glist_eqb) gg_err_eqb
        (generate_gap_addresses (orc_of t) (sivk_of t) g k f scope r rk find st) o
  end.

(** ** the property: every listed address belongs to the key at its index *)
Definition entry_ok (t : otab) (k : uivk) (pk : option bytes) (r : request) (scope : N) (e : gentry) : bool :=
  let '(a, ta, i) := e in
  match (if scope =? 0 then ivk_t k else match pk with Some p => sivk_of t p scope | None => None end) with
  | None => false
  | Some key =>
      obytes_eqb (t_addr (orc_of t) key i) (Some ta)
      && match a with
         | GUnified u => (scope =? 0) && addr_res_eqb (spec_address (orc_of t) k i r) (Ok u)
         | GTransparent x =>
             bytes_eqb x ta
             && (if scope =? 0
                 then addr_res_eqb (spec_address (orc_of t) k i r) (Err ShieldedReceiverRequired)
                 else true)
         end
  end.

Fixpoint consecutive (start : N) (l : list gentry) : bool :=
  match l with
  | [] => true
  | e :: r => (snd e =? start) && consecutive (start + 1) r
  end.

Definition pk_of (f : option ufvk) : option bytes := match f with Some fk => fvk_t fk | None => None end.

(** a successful walk lists exactly the indices of the range (one index for an empty range — the
    iterator's behaviour), consecutively, each entry belonging to the key *)
Definition list_ok (t : otab) (k : uivk) (f : option ufvk) (r : request) (scope start end_ : N) (l : list gentry) : bool :=
  match pk_of f with
  | None => match l with [] => true | _ => false end
  | Some _ =>
      (N.of_nat (length l) =? (if start <? end_ then end_ - start else 1))
      && consecutive start l
      && forallb (entry_ok t k (pk_of f) r scope) l
  end.

Definition gerr_plausible (k : uivk) (f : option ufvk) (scope : N) (rk : bool) (e : gerr) : bool :=
  match e with
  | GUnsupportedScope s => (s =? scope) && negb ((scope =? 0) || (scope =? 1) || (scope =? 2))
  | GAddr (KeyNotAvailable _) =>
      (match pk_of f with None => ((scope =? 1) || (scope =? 2)) && rk | Some _ => false end)
      || ((scope =? 0) && negb (is_some (ivk_t k)))
  | GBip32 => (scope =? 1) || (scope =? 2)
  | GAddr _ => scope =? 0
  end.

Definition gprop (c : gcase) : bool :=
  match c with
  | GLimit e i p scope o =>
      option_eqb N.eqb
        (if scope =? 0 then Some e else if scope =? 1 then Some i else if scope =? 2 then Some p else None) o
  | GList t k f scope r s e rk o =>
      match o with
      | Ok l => list_ok t k f r scope s e l
      | Err er => gerr_plausible k f scope rk er
      | Panic => false
      end
  | GGen t g k f scope r rk find st o =>
      match o with
      | Ok None => match find with Ok None => true | _ => false end
      | Ok (Some l) =>
          match find, limit_for g scope with
          | Ok (Some gs), Some gl => st && list_ok t k f r scope gs (N.min (gs + gl) NON_HARDENED_MAX) l
          | _, _ => false
          end
      | Err GGStorage => match find with Err _ => true | _ => negb st end
      | Err (GGAddress er) => gerr_plausible k f scope rk er
      | Panic => false
      end
  end.

Definition gtag (c : gcase) : N :=
  match c with
  | GLimit _ _ _ scope o => 5000 + (if is_some o then 0 else 1)
  | GList _ _ f scope _ s e _ o =>
      5100 + 10 * (N.min scope 3)
      + match o with
        | Ok [] => 0
        | Ok _ => if s <? e then 1 else 2     (* 2: a non-empty list for an empty range *)
        | Err (GAddr _) => 3 | Err GBip32 => 4 | Err (GUnsupportedScope _) => 5 | Panic => 6
        end
  | GGen _ _ _ _ scope _ _ _ _ o =>
      5200 + 10 * (N.min scope 3)
      + match o with
        | Ok None => 0 | Ok (Some []) => 1 | Ok (Some _) => 2
        | Err GGStorage => 3 | Err (GGAddress _) => 4 | Panic => 5
        end
  end.
