(** C11 — per-case oracle tables: real values of the external cryptography supplied by the
    harness, looked up by (function id, key bytes, index). *)
From V.Lib Require Import Base Hex.
From V.Gen Require Import C11Consts.
From V.C11 Require Import Model.
Local Open Scope N_scope.

(* ------------------------------------------------------------------------------------------ *)
(** * Oracle tables *)

(** (function id, key bytes, index) -> result.
    ids: 1 o_sk_fvk 2 s_sk_fvk 3 t_sk_pk 4 o_fvk_ivk 5 s_fvk_ivk 6 t_pk_ivk 7 o_addr 8 s_addr
    9 t_addr; 23 t_sk_ivk; decoders 10 o_sk 11 s_sk 12 t_sk 13 o_fvk 14 s_fvk 15 t_fvk 16 o_ivk 17 s_ivk 18 t_ivk *)
Definition oentry := (N * bytes * N * ores)%type.
Definition otab := list oentry.

Fixpoint lookup (t : otab) (f : N) (k : bytes) (i : N) : option ores :=
  match t with
  | [] => None
  | (f', k', i', r) :: rest =>
      if (f =? f') && (i =? i') && bytes_eqb k k' then Some r else lookup rest f k i
  end.

(** short forms used by the harness printer *)
Definition hx (s : String.string) : bytes := hex s.
Definition oe (f : N) (k : String.string) (i : N) (r : ores) : oentry := (f, hex k, i, r).
Definition osome (s : String.string) : ores := OSome (hex s).
Definition sx (s : String.string) : option bytes := Some (hex s).
Definition it (t : N) (s : String.string) : item := (t, hex s).

(** A missing entry yields a value no real byte string can equal. *)
Definition poison : bytes := [256].

Definition look_bytes t f k i : bytes :=
  match lookup t f k i with Some (OSome b) => b | _ => poison end.
Definition look_opt t f k i : option bytes :=
  match lookup t f k i with Some (OSome b) => Some b | Some ONone => None | _ => Some poison end.
Definition look_ores t f k i : ores :=
  match lookup t f k i with Some r => r | None => OSome poison end.

Definition orc_of (t : otab) : oracles :=
  mkOracles
    (fun k => look_bytes t 1 k 0) (fun k => look_bytes t 2 k 0) (fun k => look_bytes t 3 k 0)
    (fun k => look_bytes t 4 k 0) (fun k => look_bytes t 5 k 0) (fun k => look_opt t 6 k 0)
    (fun k j => look_bytes t 7 k j) (fun k j => look_opt t 8 k j) (fun k j => look_opt t 9 k j)
    (fun k => look_ores t 10 k 0) (fun k => look_ores t 11 k 0) (fun k => look_ores t 12 k 0)
    (fun k => look_ores t 13 k 0) (fun k => look_ores t 14 k 0) (fun k => look_ores t 15 k 0)
    (fun k => look_ores t 16 k 0) (fun k => look_ores t 17 k 0) (fun k => look_ores t 18 k 0)
    (fun k => look_opt t 23 k 0).


Definition with_reenc {K E} (enc : K -> outcome (bytes * bytes) unit) (o : outcome K E)
  : outcome (K * (bytes * bytes)) E :=
  match o with
  | Ok k => match enc k with Ok e => Ok (k, e) | _ => Panic end
  | Err e => Err e
  | Panic => Panic
  end.


(** does a decoder of the table panic? ([usk_from_bytes_total] is relative to that) *)
Definition tab_has_panic (t : otab) : bool :=
  existsb (fun e => match e with (_, _, _, OPanic) => true | _ => false end) t.

(** every component the decoders of this table accepted was in canonical form *)
Definition tab_canonical (t : otab) : bool :=
  forallb (fun e => match e with
                    | (f, k, _, OSome b) => if 10 <=? f then bytes_eqb k b else true
                    | _ => true end) t.

