(** C11 — two further pieces of the repository's logic (no proofs in this file):

    * the decode path of unified addresses in zcash_keys/src/address.rs:
      [impl TryFrom<unified::Address> for UnifiedAddress], [UnifiedAddress::to_zcash_address]
      (receiver list -> address -> receiver list), including P2SH and unknown receivers;
    * [UnifiedFullViewingKey::parse] / [UnifiedIncomingViewingKey::parse] in a build WITHOUT the
      `transparent-inputs` feature (the default of zcash_keys): a P2PKH item is not interpreted and
      is kept, with its typecode, among the unknown items. *)
From V.Lib Require Import Base Hex.
From V.Gen Require Import C11Consts.
From V.C11 Require Import Model Legacy.
Local Open Scope N_scope.

(* ------------------------------------------------------------------------------------------ *)
(** * unified addresses *)

(** a [UnifiedAddress]: raw Orchard / Sapling receivers, the transparent receiver with its kind,
    unknown receivers in parsed order *)
Record uaddr := mkUaddr {
  uad_o : option bytes; uad_s : option bytes; uad_t : option taddr; uad_unknown : list item }.

(** [TryFrom<unified::Address>]: [doa] / [dsa] are [orchard::Address::from_raw_address_bytes] and
    [PaymentAddress::from_bytes] (returning the canonical re-serialisation) *)
Fixpoint ua_loop (doa dsa : bytes -> ores) (l : list item) (o s : option bytes) (t : option taddr)
  (unk : list item) : outcome uaddr unit :=
  match l with
  | [] => Ok (mkUaddr o s t (rev unk))
  | (c, d) :: r =>
      match tc_of_u32 c with
      | Some TcOrchard =>
          match doa d with
          | OSome k => ua_loop doa dsa r (Some k) s t unk
          | ONone => Err tt | OPanic => Panic
          end
      | Some TcSapling =>
          match dsa d with
          | OSome k => ua_loop doa dsa r o (Some k) t unk
          | ONone => Err tt | OPanic => Panic
          end
      | Some TcP2pkh => ua_loop doa dsa r o s (Some (PKH d)) unk
      | Some TcP2sh => ua_loop doa dsa r o s (Some (SH d)) unk
      | _ => ua_loop doa dsa r o s t ((c, d) :: unk)
      end
  end.

Definition ua_try_from (doa dsa : bytes -> ores) (l : list item) : outcome uaddr unit :=
  ua_loop doa dsa l None None None [].

(** the same conversion in a build WITHOUT the `orchard` feature: the Orchard receiver is not
    interpreted and is kept, under its typecode, among the unknown items *)
Fixpoint ua_loop_ns (dsa : bytes -> ores) (l : list item) (s : option bytes) (t : option taddr)
  (unk : list item) : outcome uaddr unit :=
  match l with
  | [] => Ok (mkUaddr None s t (rev unk))
  | (c, d) :: r =>
      match tc_of_u32 c with
      | Some TcSapling =>
          match dsa d with
          | OSome k => ua_loop_ns dsa r (Some k) t unk
          | ONone => Err tt | OPanic => Panic
          end
      | Some TcP2pkh => ua_loop_ns dsa r s (Some (PKH d)) unk
      | Some TcP2sh => ua_loop_ns dsa r s (Some (SH d)) unk
      | _ => ua_loop_ns dsa r s t ((c, d) :: unk)      (* Orchard: (typecode, bytes) *)
      end
  end.

Definition ua_try_from_ns (dsa : bytes -> ores) (l : list item) : outcome uaddr unit :=
  ua_loop_ns dsa l None None [].

Definition taddr_item (a : taddr) : item := match a with PKH h => (0, h) | SH h => (1, h) end.

(** [to_zcash_address]: unknown, Orchard, Sapling, transparent; [try_from_items] sorts; the
    [expect] is a panic *)
Definition ua_items (a : uaddr) : list item :=
  uad_unknown a ++ oapp (option_map (pair 3) (uad_o a)) ++ oapp (option_map (pair 2) (uad_s a))
  ++ oapp (option_map taddr_item (uad_t a)).
Definition ua_to_items (a : uaddr) : outcome (list item) unit := to_container (ua_items a).

(** specification side: the receiver list of an address in encoding order *)
Definition ua_receivers (a : uaddr) : list item :=
  oapp (option_map taddr_item (uad_t a)) ++ oapp (option_map (pair 2) (uad_s a))
  ++ oapp (option_map (pair 3) (uad_o a)) ++ uad_unknown a.

(** lengths of the address container's known items ([Receiver]) *)
Definition addr_item_len (c : N) : option N :=
  if (c =? 0) || (c =? 1) then Some 20 else if (c =? 2) || (c =? 3) then Some 43 else None.

(* ------------------------------------------------------------------------------------------ *)
(** * viewing keys without `transparent-inputs` *)

Fixpoint parse_loop_nt (ds do_ : bytes -> ores) (l : list item) (s o : option bytes)
  (unk : list item) : outcome (option bytes * option bytes * list item) dec_err :=
  match l with
  | [] => Ok (s, o, rev unk)
  | (c, data) :: r =>
      match tc_of_u32 c with
      | Some TcOrchard =>
          match do_ data with
          | OSome k => parse_loop_nt ds do_ r s (Some k) unk
          | ONone => Err (KeyDataInvalid TcOrchard) | OPanic => Panic
          end
      | Some TcSapling =>
          match ds data with
          | OSome k => parse_loop_nt ds do_ r (Some k) o unk
          | ONone => Err (KeyDataInvalid TcSapling) | OPanic => Panic
          end
      | _ => parse_loop_nt ds do_ r s o ((c, data) :: unk)   (* P2pkh: kept as (typecode, bytes) *)
      end
  end.

Section WithOracles.
Variable Orc : oracles.

(** [UnifiedFullViewingKey::parse]; [from_checked_parts] has nothing to check in this profile *)
Definition ufvk_parse_nt (l : list item) : outcome ufvk dec_err :=
  match parse_loop_nt (dec_s_fvk Orc) (dec_o_fvk Orc) l None None [] with
  | Ok (s, o, unk) => Ok (mkUfvk None s o unk)
  | Err e => Err e | Panic => Panic
  end.

Definition uivk_parse_nt (l : list item) : outcome uivk dec_err :=
  match parse_loop_nt (dec_s_ivk Orc) (dec_o_ivk Orc) l None None [] with
  | Ok (s, o, unk) => Ok (mkUivk None s o unk)
  | Err e => Err e | Panic => Panic
  end.

Definition ufvk_decode_nt (net : N) (i : dinput) : outcome ufvk derr :=
  match container_decode KFvk i with
  | Err e => Err (EParse e) | Panic => Panic
  | Ok (n, l) =>
      if negb (n =? net) then Err ENetwork
      else match ufvk_parse_nt l with
           | Ok k => Ok k | Err e => Err (EKey e) | Panic => Panic
           end
  end.

Definition uivk_decode_nt (net : N) (i : dinput) : outcome uivk derr :=
  match container_decode KIvk i with
  | Err e => Err (EParse e) | Panic => Panic
  | Ok (n, l) =>
      if negb (n =? net) then Err ENetwork
      else match uivk_parse_nt l with
           | Ok k => Ok k | Err e => Err (EKey e) | Panic => Panic
           end
  end.

End WithOracles.
