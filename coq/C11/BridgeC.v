(** C11 — bridge, part C: the unified-address decode path and the profile without
    `transparent-inputs`; and the complete bridge theorem. *)
From V.Lib Require Import Base Hex.
From V.Gen Require Import C11Consts C11Legacy.
From V.C11 Require Import Model Spec Tab Eqb EqbFacts Legacy CorrLegacy Gap CorrGap Extra CorrExtra Corr Wf
  ProofsAddr ProofsCodec ProofsDecode ProofsFind ProofsLegacy ProofsGap ProofsNt ProofsUa
  Bridge BridgeA BridgeB.
From Coq Require Import ZifyBool.
Local Open Scope N_scope.

Lemma uaddr_eqb_spec a b : uaddr_eqb a b = true <-> a = b.
Proof.
  destruct a as [x y z u], b as [x' y' z' u']. unfold uaddr_eqb. cbn.
  rewrite !andb_true_iff, !obytes_eqb_spec, (option_eqb_spec _ taddr_eqb_spec), items_eqb_spec.
  split; [intros [[[-> ->] ->] ->]; reflexivity | intros H; inversion H; auto].
Qed.

Lemma tfi_internal_ok l x : try_from_items_internal l = Ok x -> x = l.
Proof.
  unfold try_from_items_internal. destruct (tfi_loop l None true) as [[|]| |]; try discriminate.
  intros H; inversion H; reflexivity.
Qed.

Lemma addr_items_ok_spec l : addr_items_ok l = true -> addr_container l.
Proof.
  unfold addr_items_ok, addr_container. intros H. apply andb_true_iff in H. destruct H as [F T]. split.
  - rewrite forallb_forall in F. apply Forall_forall. intros it Hi. specialize (F it Hi).
    unfold addr_item_okb in F. repeat (apply andb_true_iff in F; destruct F as [F ?]). lia.
  - destruct (try_from_items_internal l) as [x| |] eqn:E; try discriminate.
    rewrite (tfi_internal_ok _ _ E). reflexivity.
Qed.

Lemma b_xua t items o :
  wf_case (CExtra (XUa t items o)) = true -> run_case (CExtra (XUa t items o)) = true ->
  prop_case (CExtra (XUa t items o)) = true.
Proof.
  cbn [wf_case run_case prop_case xwf xrun xprop]. intros W R.
  apply andb_true_iff in W. destruct W as [W Wo]. apply andb_true_iff in W. destruct W as [_ Wi].
  pose proof (addr_items_ok_spec _ Wi) as C.
  apply (outcome_eqb_spec _ _ (pair_eqb_spec _ _ uaddr_eqb_spec items_eqb_spec) unit_eqb_spec) in R.
  subst o. unfold ua_model in *.
  destruct (ua_try_from (doa_of t) (dsa_of t) items) as [a|e|] eqn:TF.
  - rewrite (ua_reencodes _ _ items a C TF) in *.
    destruct (tab_canonical t) eqn:TC; [|reflexivity].
    apply andb_true_iff in Wo. destruct Wo as [Wa _]. unfold wf_uaddr in Wa.
    repeat (apply andb_true_iff in Wa; destruct Wa as [Wa ?]).
    destruct (ua_roundtrip (doa_of t) (dsa_of t) items a C TF) as [X _].
    + intros d kk X Y. unfold doa_of in X.
      apply (look_ores_canonical t 24 d kk TC); [lia | exact X | exact (ookb_bytes _ _ _ Wa Y)].
    + intros d kk X Y. unfold dsa_of in X.
      apply (look_ores_canonical t 25 d kk TC); [lia | exact X | exact (ookb_bytes _ _ _ H1 Y)].
    + rewrite X, (spec_refl _ items_eqb_spec). reflexivity.
  - destruct e. unfold some_rejected. unfold ua_try_from in TF. exact (ua_loop_err _ _ _ _ _ _ _ TF).
  - destruct (tab_has_panic t) eqn:P; [reflexivity|]. exfalso.
    unfold ua_try_from in TF.
    exact (ua_loop_never_panics (doa_of t) (dsa_of t) items None None None []
             (fun x => no_panic t P 24 x 0) (fun x => no_panic t P 25 x 0) TF).
Qed.

Lemma b_xfvk t net i o :
  wf_case (CExtra (XFvkNt t net i o)) = true -> run_case (CExtra (XFvkNt t net i o)) = true ->
  prop_case (CExtra (XFvkNt t net i o)) = true.
Proof.
  cbn [wf_case run_case prop_case xwf xrun xprop]. intros W R.
  apply andb_true_iff in W. destruct W as [W Wobs]. apply andb_true_iff in W. destruct W as [W Wi].
  apply (outcome_eqb_spec _ _ (pair_eqb_spec _ _ ufvk_eqb_spec enc_eqb_spec) derr_eqb_spec) in R.
  destruct o as [[k' e]|er|].
  - apply with_reenc_ok in R. destruct R as [D RE].
    destruct i as [|hrp [raw|]]; try (cbn in D; discriminate D).
    + destruct (tab_canonical t) eqn:TC; [|reflexivity].
      pose proof (wf_dinput_bytes _ _ Wi) as HB.
      repeat (apply andb_true_iff in Wobs; destruct Wobs as [Wobs ?]).
      rewrite (ufvk_decode_nt_canonical (orc_of t) net hrp raw k' HB D) in RE.
      * inversion RE; subst e. apply (spec_refl _ enc_eqb_spec).
      * intros d kk X Y. cbn [orc_of dec_s_fvk] in X.
        apply (look_ores_canonical t 14 d kk TC); [lia | exact X | exact (ookb_bytes _ _ _ Wobs Y)].
      * intros d kk X Y. cbn [orc_of dec_o_fvk] in X.
        apply (look_ores_canonical t 13 d kk TC); [lia | exact X | exact (ookb_bytes _ _ _ H1 Y)].
    + unfold ufvk_decode_nt, container_decode in D. destruct (hrp_network KFvk hrp); discriminate D.
  - destruct i as [|hrp [raw|]]; reflexivity.
  - assert (P : tab_has_panic t = true).
    { destruct (tab_has_panic t) eqn:P; [reflexivity|]. exfalso.
      pose proof (ufvk_decode_nt_total (orc_of t) net i (wf_dinput_ok i Wi)
                    (fun x => no_panic t P 14 x 0) (fun x => no_panic t P 13 x 0)) as NP.
      unfold with_reenc in R. destruct (ufvk_decode_nt (orc_of t) net i) as [k0|e0|] eqn:D; try discriminate; [|congruence].
      destruct i as [|hrp [raw|]]; try (cbn in D; discriminate D);
        try (unfold ufvk_decode_nt, container_decode in D; destruct (hrp_network KFvk hrp); discriminate D).
      destruct (ufvk_decode_nt_reencodes (orc_of t) net hrp raw k0 (wf_dinput_bytes _ _ Wi) D) as [e0 X].
      rewrite X in R. discriminate. }
    destruct i as [|hrp [raw|]]; exact P.
Qed.

Lemma b_xivk t net i o :
  wf_case (CExtra (XIvkNt t net i o)) = true -> run_case (CExtra (XIvkNt t net i o)) = true ->
  prop_case (CExtra (XIvkNt t net i o)) = true.
Proof.
  cbn [wf_case run_case prop_case xwf xrun xprop]. intros W R.
  apply andb_true_iff in W. destruct W as [W Wobs]. apply andb_true_iff in W. destruct W as [W Wi].
  apply (outcome_eqb_spec _ _ (pair_eqb_spec _ _ uivk_eqb_spec enc_eqb_spec) derr_eqb_spec) in R.
  destruct o as [[k' e]|er|].
  - apply with_reenc_ok in R. destruct R as [D RE].
    destruct i as [|hrp [raw|]]; try (cbn in D; discriminate D).
    + destruct (tab_canonical t) eqn:TC; [|reflexivity].
      pose proof (wf_dinput_bytes _ _ Wi) as HB.
      repeat (apply andb_true_iff in Wobs; destruct Wobs as [Wobs ?]).
      rewrite (uivk_decode_nt_canonical (orc_of t) net hrp raw k' HB D) in RE.
      * inversion RE; subst e. apply (spec_refl _ enc_eqb_spec).
      * intros d kk X Y. cbn [orc_of dec_s_ivk] in X.
        apply (look_ores_canonical t 17 d kk TC); [lia | exact X | exact (ookb_bytes _ _ _ Wobs Y)].
      * intros d kk X Y. cbn [orc_of dec_o_ivk] in X.
        apply (look_ores_canonical t 16 d kk TC); [lia | exact X | exact (ookb_bytes _ _ _ H1 Y)].
    + unfold uivk_decode_nt, container_decode in D. destruct (hrp_network KIvk hrp); discriminate D.
  - destruct i as [|hrp [raw|]]; reflexivity.
  - assert (P : tab_has_panic t = true).
    { destruct (tab_has_panic t) eqn:P; [reflexivity|]. exfalso.
      pose proof (uivk_decode_nt_total (orc_of t) net i (wf_dinput_ok i Wi)
                    (fun x => no_panic t P 17 x 0) (fun x => no_panic t P 16 x 0)) as NP.
      unfold with_reenc in R. destruct (uivk_decode_nt (orc_of t) net i) as [k0|e0|] eqn:D; try discriminate; [|congruence].
      destruct i as [|hrp [raw|]]; try (cbn in D; discriminate D);
        try (unfold uivk_decode_nt, container_decode in D; destruct (hrp_network KIvk hrp); discriminate D).
      destruct (uivk_decode_nt_reencodes (orc_of t) net hrp raw k0 (wf_dinput_bytes _ _ Wi) D) as [e0 X].
      rewrite X in R. discriminate. }
    destruct i as [|hrp [raw|]]; exact P.
Qed.

Lemma b_xuans t items o :
  wf_case (CExtra (XUaNs t items o)) = true -> run_case (CExtra (XUaNs t items o)) = true ->
  prop_case (CExtra (XUaNs t items o)) = true.
Proof.
  cbn [wf_case run_case prop_case xwf xrun xprop]. intros W R.
  apply andb_true_iff in W. destruct W as [W Wo]. apply andb_true_iff in W. destruct W as [_ Wi].
  pose proof (addr_items_ok_spec _ Wi) as C.
  apply (outcome_eqb_spec _ _ (pair_eqb_spec _ _ uaddr_eqb_spec items_eqb_spec) unit_eqb_spec) in R.
  subst o. unfold ua_model_ns in *.
  destruct (ua_try_from_ns (dsa_of t) items) as [a|e|] eqn:TF.
  - destruct (ua_ns_sound (dsa_of t) items a C TF) as (Ko & _ & _ & _ & RE). rewrite RE in *.
    rewrite Ko. cbn [is_some negb andb].
    destruct (tab_canonical t) eqn:TC; [|reflexivity].
    apply andb_true_iff in Wo. destruct Wo as [Wa _]. unfold wf_uaddr in Wa.
    repeat (apply andb_true_iff in Wa; destruct Wa as [Wa ?]).
    destruct (ua_ns_roundtrip (dsa_of t) items a C TF) as (_ & X & _).
    + intros d kk X Y. unfold dsa_of in X.
      apply (look_ores_canonical t 25 d kk TC); [lia | exact X | exact (ookb_bytes _ _ _ H1 Y)].
    + rewrite X, (spec_refl _ items_eqb_spec). reflexivity.
  - destruct e. unfold some_rejected.
    assert (A : asc None items).
    { destruct C as [_ T]. unfold try_from_items_internal in T.
      destruct (tfi_loop items None true) as [[|]| |] eqn:TL; try discriminate.
      apply asc_a_asc. eapply tfi_loop_sound_a; exact TL. }
    pose proof (ua_ns_err (dsa_of t) items A TF) as X.
    rewrite existsb_exists in *. destruct X as (it & I1 & I2). exists it. split; [exact I1|].
    rewrite I2. apply orb_true_r.
  - destruct (tab_has_panic t) eqn:P; [reflexivity|]. exfalso.
    unfold ua_try_from_ns in TF.
    exact (ua_loop_ns_never_panics (dsa_of t) items None None [] (fun x => no_panic t P 25 x 0) TF).
Qed.

(** narrowing in the profile without `transparent-inputs`: the derived UIVK has exactly the
    external IVKs of the interpreted items; nothing the UFVK merely kept is carried over *)
Theorem narrow_nt O k i :
  fvk_t k = None -> ufvk_to_uivk O k = Ok i ->
  ivk_t i = None /\ ivk_unknown i = []
  /\ to_container (uivk_items i)
     = if is_some (fvk_s k) || is_some (fvk_o k)
       then Ok (oapp (option_map (fun b => (2, s_fvk_ivk O b)) (fvk_s k))
                ++ oapp (option_map (fun b => (3, o_fvk_ivk O b)) (fvk_o k)))
       else Panic.
Proof.
  intros Kt. unfold ufvk_to_uivk. rewrite Kt. intros H; inversion H; subst i. cbn [ivk_t ivk_unknown].
  split; [reflexivity|]. split; [reflexivity|].
  rewrite uivk_container by exact I. unfold uivk_encodable, has_non_transparent, canon_items.
  cbn [ivk_t ivk_s ivk_o ivk_unknown]. destruct (fvk_s k), (fvk_o k); reflexivity.
Qed.

Lemma b_xnarrow t k o :
  wf_case (CExtra (XNarrowNt t k o)) = true -> run_case (CExtra (XNarrowNt t k o)) = true ->
  prop_case (CExtra (XNarrowNt t k o)) = true.
Proof.
  cbn [wf_case run_case prop_case xwf xrun xprop]. intros W R.
  repeat (apply andb_true_iff in W; destruct W as [W ?]).
  assert (Kt : fvk_t k = None) by (destruct (fvk_t k); [discriminate | reflexivity]).
  apply (outcome_eqb_spec _ _ items_eqb_spec unit_eqb_spec) in R. subst o.
  unfold narrow_model, narrow_spec.
  destruct (ufvk_to_uivk (orc_of t) k) as [i| |] eqn:E;
    try (unfold ufvk_to_uivk in E; rewrite Kt in E; discriminate E).
  destruct (narrow_nt (orc_of t) k i Kt E) as (_ & _ & X). rewrite X.
  destruct (fvk_s k), (fvk_o k); cbn [is_some orb option_map oapp app negb]; try reflexivity;
    apply (spec_refl _ items_eqb_spec).
Qed.

(* ------------------------------------------------------------------------------------------ *)
(** * the complete bridge *)

Theorem agree_implies_property c :
  wf_case c = true -> known_class c = 0 -> run_case c = true -> prop_case c = true.
Proof.
  intros W K R. destruct (bridged c) eqn:B.
  - exact (agree_implies_property_partial c B W K R).
  - destruct c; try discriminate B.
    + exact (b_usk_decode _ _ _ _ W R).
    + exact (b_ufvk_encode _ _ _ W R).
    + exact (b_ufvk_decode _ _ _ _ _ W R).
    + exact (b_uivk_encode _ _ _ W R).
    + exact (b_uivk_decode _ _ _ _ _ W R).
    + exact (b_find _ _ _ _ _ W R).
    + exact R.
    + exact (b_legacy _ W R).
    + exact (b_gap _ W R).
    + destruct x; [exact (b_xua _ _ _ W R) | exact (b_xfvk _ _ _ _ W R) | exact (b_xivk _ _ _ _ W R)
                  | exact (b_xnarrow _ _ _ W R) | exact (b_xuans _ _ _ W R)].
Qed.
