(** C11 — the property, stated independently of the code's control flow.

    * requirement intersection is the meet of the flat order  Require, Omit < Allow  (Allow is the
      neutral element; two different non-Allow requirements conflict);
    * a unified address derived at index [j] contains exactly the receivers that are requested
      (not Omit), supported by the key, and derivable at [j]; a Require that cannot be met is an
      error; an address never consists of a transparent receiver only;
    * encodings round-trip.

    The address specification is a decision table over the *availability* of each pool. *)
From V.Lib Require Import Base Hex.
From V.Gen Require Import C11Consts.
From V.C11 Require Import Model.
Local Open Scope N_scope.

(** ** Requirements *)
Definition spec_req_intersect (a b : req) : outcome req rr_err :=
  match a, b with
  | Allow, x | x, Allow => Ok x
  | Require, Require => Ok Require
  | Omit, Omit => Ok Omit
  | _, _ => Err Conflict
  end.

Definition shielded_possible (q : reqs) : bool := negb (req_eqb (rq_o q) Omit && req_eqb (rq_s q) Omit).

(** ** Addresses *)
Inductive avail := Missing | Invalid | Avail (a : bytes).

Definition is_avail (a : avail) : bool := match a with Avail _ => true | _ => false end.
Definition is_missing (a : avail) : bool := match a with Missing => true | _ => false end.

Section WithOracles.
Variable Orc : oracles.

(** A transparent child index is valid iff it is a non-hardened 31-bit index. *)
Definition t_index (j : N) : option N := if j <? 2147483648 then Some j else None.

Definition avail_o (k : uivk) (j : N) : avail :=
  match ivk_o k with None => Missing | Some i => Avail (o_addr Orc i j) end.
Definition avail_s (k : uivk) (j : N) : avail :=
  match ivk_s k with
  | None => Missing
  | Some i => match s_addr Orc i j with Some a => Avail a | None => Invalid end
  end.
Definition avail_t (k : uivk) (j : N) : avail :=
  match ivk_t k with
  | None => Missing
  | Some i => match t_index j with
              | Some ix => match t_addr Orc i ix with Some a => Avail a | None => Invalid end
              | None => Invalid
              end
  end.

(** The requirements a request stands for: [AllAvailableKeys] requires every pool the key has,
    and is unsatisfiable for a key without shielded component. *)
Definition effective (k : uivk) (r : request) : option reqs :=
  match r with
  | Custom q => Some q
  | AllAvailableKeys =>
      if is_some (ivk_o k) || is_some (ivk_s k)
      then Some (mkReqs (if is_some (ivk_o k) then Require else Omit)
                        (if is_some (ivk_s k) then Require else Omit)
                        (if is_some (ivk_t k) then Require else Omit))
      else None
  end.

(** receiver included iff requested (not Omit) and available *)
Definition included (q : req) (a : avail) : option bytes :=
  match q, a with
  | Omit, _ => None
  | _, Avail x => Some x
  | _, _ => None
  end.

Definition required (q : req) : bool := req_eqb q Require.

Definition spec_address (k : uivk) (j : N) (r : request) : outcome ua aerr :=
  match effective k r with
  | None => Err ShieldedReceiverRequired
  | Some q =>
      let ao := avail_o k j in let a_s := avail_s k j in let a_t := avail_t k j in
      (* a required pool the key does not have *)
      if (required (rq_o q) && is_missing ao) || (required (rq_s q) && is_missing a_s)
         || (required (rq_t q) && is_missing a_t)
      then Err ShieldedReceiverRequired
      (* a required transparent receiver at an out-of-range child index *)
      else if required (rq_t q) && negb (is_missing a_t) && negb (is_some (t_index j))
      then Err (InvalidTransparentChildIndex j)
      (* a required Sapling receiver at an invalid diversifier index *)
      else if required (rq_s q) && negb (is_avail a_s)
      then Err (InvalidSaplingDiversifierIndex j)
      (* a required transparent receiver whose BIP 32 derivation fails *)
      else if required (rq_t q) && negb (is_avail a_t)
      then Err (InvalidTransparentChildIndex j)
      else
        let o := included (rq_o q) ao in
        let s := included (rq_s q) a_s in
        let t := included (rq_t q) a_t in
        if is_some o || is_some s then Ok (mkUa o s t) else Err ShieldedReceiverRequired
  end.

(** projection of a full viewing key to its external incoming viewing key *)
Definition spec_ivk_of_fvk (k : ufvk) : option uivk :=
  match fvk_t k with
  | Some pk => match t_pk_ivk Orc pk with
               | Some i => Some (mkUivk (Some i) (option_map (s_fvk_ivk Orc) (fvk_s k))
                                        (option_map (o_fvk_ivk Orc) (fvk_o k)) [])
               | None => None
               end
  | None => Some (mkUivk None (option_map (s_fvk_ivk Orc) (fvk_s k))
                         (option_map (o_fvk_ivk Orc) (fvk_o k)) [])
  end.

Definition spec_fvk_of_sk (k : usk) : ufvk :=
  mkUfvk (Some (t_sk_pk Orc (usk_t k))) (Some (s_sk_fvk Orc (usk_s k)))
         (Some (o_sk_fvk Orc (usk_o k))) [].

(** [find_address] must return the first index at or after [j] whose address exists, every
    skipped index being skipped for the one legitimate reason. [n] bounds the look-back. *)
Fixpoint all_skipped (k : uivk) (r : request) (j : N) (n : nat) : bool :=
  match n with
  | 0%nat => true
  | S n' => match spec_address k j r with
            | Err (InvalidSaplingDiversifierIndex _) => all_skipped k r (j + 1) n'
            | _ => false
            end
  end.

End WithOracles.

(** ** Well-formed keys (domain of the round-trip theorems) *)

Definition fixed_point (dec : bytes -> ores) (b : bytes) : Prop := dec b = OSome b.

Fixpoint strictly_ascending (prev : N) (l : list item) : Prop :=
  match l with
  | [] => True
  | (t, _) :: r => prev < t /\ t <= MAX_TYPECODE /\ strictly_ascending t r
  end.

(** unknown items of a parsed key: typecodes 4 .. MAX_TYPECODE, strictly ascending *)
Definition unknown_ok (l : list item) : Prop := strictly_ascending 3 l.

Definition opt_all {A} (P : A -> Prop) (o : option A) : Prop :=
  match o with Some a => P a | None => True end.

Definition has_len (n : N) (b : bytes) : Prop := blen b = n.
